(* C08 -- conditioning of the cosine formula: why gcirc can only be held to 2e-6 degree.
   |acos c - acos c'| <= 2 asin (sqrt (|c - c'| / 2)), with equality at c' = 1; hence an error of
   6e-16 (2.7 ulp of 1) in cosdis moves the angle by at most 2e-6 degree, and an error of 2^-53 (half
   an ulp) next to cosdis = 1 already moves it by more than 8e-7 degree. *)
From Coq Require Import Reals Lra.
From Interval Require Import Tactic.
From EsVerif.C08 Require Import Model Spec Proofs.
Open Scope R_scope.

Lemma acos_decr c c' : -1 <= c' <= 1 -> -1 <= c <= 1 -> c' <= c -> acos c <= acos c'.
Proof.
  intros H' H L. pose proof (acos_bound c) as [A0 A1]. pose proof (acos_bound c') as [B0 B1].
  apply cos_decr_0; try assumption. rewrite !cos_acos by assumption. exact L.
Qed.

Lemma half_diff_bound c c' : -1 <= c' <= 1 -> -1 <= c <= 1 -> c' <= c ->
  let d := (acos c' - acos c) / 2 in 0 <= d <= PI / 2 /\ 2 * (sin d * sin d) <= c - c'.
Proof.
  intros H' H L d. pose proof (acos_bound c) as [A0 A1]. pose proof (acos_bound c') as [B0 B1].
  pose proof (acos_decr c c' H' H L) as D.
  set (m := (acos c' + acos c) / 2).
  assert (Hd : 0 <= d <= PI / 2) by (unfold d; lra).
  split; [exact Hd|].
  assert (Ec : c = cos (m - d)) by (unfold m, d; replace ((acos c' + acos c) / 2 - (acos c' - acos c) / 2) with (acos c) by field; symmetry; apply cos_acos; exact H).
  assert (Ec' : c' = cos (m + d)) by (unfold m, d; replace ((acos c' + acos c) / 2 + (acos c' - acos c) / 2) with (acos c') by field; symmetry; apply cos_acos; exact H').
  rewrite Ec, Ec', cos_minus, cos_plus.
  assert (Sd : 0 <= sin d) by (apply sin_ge_0; lra).
  assert (Sm : sin d <= sin m).
  { destruct (Rle_lt_dec m (PI / 2)) as [M|M].
    - apply sin_incr_1; unfold m, d in *; lra.
    - rewrite <- (sin_PI_x m). apply sin_incr_1; unfold m, d in *; lra. }
  nra.
Qed.

Lemma acos_cond_ordered c c' e : -1 <= c' <= 1 -> -1 <= c <= 1 -> c' <= c -> c - c' <= e -> e <= 2 ->
  acos c' - acos c <= 2 * asin (sqrt (e / 2)).
Proof.
  intros H' H L E E2. destruct (half_diff_bound c c' H' H L) as [[D0 D1] B]. cbv zeta in *.
  set (d := (acos c' - acos c) / 2) in *.
  assert (Sd : 0 <= sin d) by (apply sin_ge_0; lra).
  assert (Q : sin d <= sqrt (e / 2)).
  { rewrite <- (sqrt_square (sin d)) by exact Sd. apply sqrt_le_1_alt. lra. }
  assert (S1 : 0 <= sqrt (e / 2) <= 1).
  { split; [apply sqrt_pos|]. rewrite <- sqrt_1. apply sqrt_le_1_alt. lra. }
  pose proof (asin_bound (sqrt (e / 2))) as [T0 T1].
  assert (d <= asin (sqrt (e / 2))).
  { apply sin_incr_0; try lra. rewrite sin_asin by lra. exact Q. }
  unfold d in *. lra.
Qed.

Lemma acos_conditioning c c' e : -1 <= c <= 1 -> -1 <= c' <= 1 -> Rabs (c - c') <= e -> e <= 2 ->
  Rabs (acos c - acos c') <= 2 * asin (sqrt (e / 2)).
Proof.
  intros H H' E E2. destruct (Rle_lt_dec c' c) as [L|L].
  - pose proof (acos_decr c c' H' H L). rewrite Rabs_left1 by lra.
    replace (- (acos c - acos c')) with (acos c' - acos c) by ring.
    apply acos_cond_ordered; try assumption. rewrite Rabs_right in E by lra. exact E.
  - assert (L' : c <= c') by lra. pose proof (acos_decr c' c H H' L'). rewrite Rabs_right by lra.
    apply acos_cond_ordered; try assumption. rewrite Rabs_left in E by lra. lra.
Qed.

(* the bound is attained at c' = 1 *)
Lemma acos_near_one e : 0 <= e <= 2 -> acos (1 - e) - acos 1 = 2 * asin (sqrt (e / 2)).
Proof.
  intro E. rewrite acos_1, Rminus_0_r. rewrite <- (chord_scalar (1 - e)) by lra. do 2 f_equal.
  replace (2 - 2 * (1 - e)) with ((e / 2) * (2 * 2)) by field.
  rewrite sqrt_mult_alt by lra. rewrite sqrt_square by lra. field.
Qed.

Lemma two_asin_small x : 0 <= x <= / 1000 -> 2 * asin x = 2 * atan (x / sqrt (1 - x * x)).
Proof. intro H. rewrite asin_atan by lra. unfold Rsqr. reflexivity. Qed.

(* 6e-16 = 2.7 ulp(1) of error in cosdis costs at most 2e-6 degree ... *)
Lemma gcirc_conditioning c c' : -1 <= c <= 1 -> -1 <= c' <= 1 -> Rabs (c - c') <= 6e-16 ->
  Rabs (acos c - acos c') <= tol_in Rad 2e-6.
Proof.
  intros H H' E. eapply Rle_trans; [apply (acos_conditioning c c' 6e-16); try assumption; lra|].
  rewrite two_asin_small by (split; [apply sqrt_pos | interval]).
  unfold tol_in. interval with (i_prec 80).
Qed.

(* ... and half an ulp next to cosdis = 1 already costs more than 8e-7 degree: no implementation of the
   law of cosines in binary64 can meet the chord function's 1e-11 degree *)
Lemma cosine_formula_limit : 8e-7 < r2d (acos (1 - / 2 ^ 53) - acos 1).
Proof.
  rewrite acos_near_one by (split; interval).
  rewrite two_asin_small by (split; [apply sqrt_pos | interval]).
  unfold r2d. interval with (i_prec 80).
Qed.

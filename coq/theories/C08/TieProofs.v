(* C08 -- tie lemmas re-checked on every run: what the translator read in esutil/coords.py NOW (GenMeta.v) and what
   the numpy running the check uses (GenNp.v) are what the hand-written models were written against. *)
From Coq Require Import List PrimFloat.
Import ListNotations.
From EsVerif.C08 Require Import Model SkelLib GenMeta GenNp SrcLibF.

(* the array-level statement sequence of each anchored function is the one Model.v (element-wise) and ArrayLayer.v
   (list level: SGuardedStore = scatter/compress, SMaskedConst = scatter of a constant, SWhere = the mask itself,
   SUnitConv / SInplace / SClip = element-wise maps) model *)
Lemma skeleton_tie :
  thetaphi2xyz_skel = thetaphi2xyz_skel_model /\ eq2xyz_skel = eq2xyz_skel_model
  /\ sphdist_skel = sphdist_skel_model /\ gcirc_skel = gcirc_skel_model.
Proof. repeat split; reflexivity. Qed.

(* keyword defaults: units=["deg","deg"] (the harness omits the keyword only for deg/deg), eq2xyz called by sphdist
   with its default dtype "f8" and stomp=False (the branch `if stomp:` is not taken), gcirc's getangle=False *)
Lemma defaults_tie :
  sphdist_units_default = sphdist_units_default_model /\ eq2xyz_units_default = eq2xyz_units_default_model
  /\ eq2xyz_dtype_is_f8 = eq2xyz_dtype_is_f8_model /\ eq2xyz_stomp_default = eq2xyz_stomp_default_model
  /\ gcirc_getangle_default = gcirc_getangle_default_model.
Proof. repeat split; reflexivity. Qed.

(* the constants of the binary64 reading are the running numpy's *)
Lemma numpy_constants_tie :
  Leibniz.eqb np_deg2rad_1 d2r_c = true /\ Leibniz.eqb np_rad2deg_1 r2d_c = true /\ Leibniz.eqb np_pi pi_f = true.
Proof. repeat split; vm_compute; reflexivity. Qed.

(* C08 -- a conditional rounding theorem for the chord branch of sphdist.  The computed chain is described by
   interface error budgets (every computed quantity is ANY real within its budget of the exact function of the
   computed inputs it was obtained from):
     a_th, a_ph  absolute error of the radian arguments (np.deg2rad: two roundings)
     s           absolute error of libm's sin / cos values (1 ulp of a value in [-1,1] is <= 2^-53)
     e           relative error of one floating-point multiplication
     rho         relative error of the chain  differences, squares, sum, sqrt  on the chord length
     tau         absolute error of libm's arcsin value
   Theorem: the result is within  2 tau + K (2 sqrt3 eta + rho (2 + 2 sqrt3 eta))  of the true angle, K = 20.11 for
   chord^2 <= 3.9901; with binary64 budgets (u = 2^-53, longitudes within one turn, libm within 1 ulp) this is below
   the statement's 1e-11 degree.  What is NOT proved: that numpy/libm meet these budgets (libm has no specification);
   the per-case certificates keep measuring the real outputs. *)
From Coq Require Import Reals Lra.
From Interval Require Import Tactic.
From EsVerif.C08 Require Import Gen Model Spec Proofs Cond2 Cond3.
Open Scope R_scope.

(* ---- sin and cos are 1-Lipschitz ---- *)
Lemma Rabs_sin_le x : Rabs (sin x) <= Rabs x.
Proof.
  assert (P : forall y, 0 <= y -> Rabs (sin y) <= y).
  { intros y Hy. destruct (Rle_lt_dec 1 y) as [L|L].
    - pose proof (SIN_bound y). apply Rabs_le. lra.
    - destruct Hy as [Hy| <-]; [|rewrite sin_0, Rabs_R0; lra].
      pose proof (sin_lt_x y Hy). pose proof PI_RGT_0. assert (PI2 : 3 < PI) by (pose proof PI2_3_2; lra).
      pose proof (sin_gt_0 y Hy ltac:(lra)). rewrite Rabs_right by lra. lra. }
  destruct (Rle_lt_dec 0 x) as [H|H].
  - rewrite (Rabs_right x) by lra. apply P; exact H.
  - rewrite (Rabs_left x) by exact H. replace (sin x) with (- sin (- x)) by (rewrite sin_neg; ring).
    rewrite Rabs_Ropp. apply P. lra.
Qed.

Lemma sin_lip a b : Rabs (sin a - sin b) <= Rabs (a - b).
Proof.
  rewrite form4. rewrite !Rabs_mult. rewrite (Rabs_right 2) by lra.
  pose proof (COS_bound ((a + b) / 2)) as C. pose proof (Rabs_sin_le ((a - b) / 2)) as S.
  assert (C1 : Rabs (cos ((a + b) / 2)) <= 1) by (apply Rabs_le; lra).
  assert (E : Rabs ((a - b) / 2) = Rabs (a - b) / 2).
  { unfold Rdiv. rewrite Rabs_mult, (Rabs_right (/ 2)) by lra. reflexivity. }
  rewrite E in S. pose proof (Rabs_pos (sin ((a - b) / 2))). pose proof (Rabs_pos (cos ((a + b) / 2))). nra.
Qed.

Lemma cos_lip a b : Rabs (cos a - cos b) <= Rabs (a - b).
Proof.
  rewrite form2. rewrite !Rabs_mult. rewrite (Rabs_left (-2)) by lra.
  pose proof (SIN_bound ((a + b) / 2)) as C. pose proof (Rabs_sin_le ((a - b) / 2)) as S.
  assert (C1 : Rabs (sin ((a + b) / 2)) <= 1) by (apply Rabs_le; lra).
  assert (E : Rabs ((a - b) / 2) = Rabs (a - b) / 2).
  { unfold Rdiv. rewrite Rabs_mult, (Rabs_right (/ 2)) by lra. reflexivity. }
  rewrite E in S. pose proof (Rabs_pos (sin ((a - b) / 2))). pose proof (Rabs_pos (sin ((a + b) / 2))). nra.
Qed.

(* ---- stage 0: np.deg2rad(x) = fl(x * fl(pi/180)): two relative roundings ---- *)
Lemma d2r_rounding x dc dm uu : 0 <= uu <= / 4 -> Rabs dc <= uu -> Rabs dm <= uu ->
  Rabs (x * (PI / 180 * (1 + dc)) * (1 + dm) - d2r x) <= Rabs (d2r x) * (2 * uu + uu * uu).
Proof.
  intros Hu Hc Hm. unfold d2r.
  replace (x * (PI / 180 * (1 + dc)) * (1 + dm) - x * (PI / 180)) with (x * (PI / 180) * (dc + dm + dc * dm)) by ring.
  rewrite Rabs_mult. apply Rmult_le_compat_l; [apply Rabs_pos|].
  apply abs_le_inv in Hc, Hm. apply Rabs_le. nra.
Qed.

(* ---- stage 1: the unit vector ---- *)
Lemma prod_err A B Ah Bh al be : Rabs A <= 1 -> Rabs B <= 1 -> Rabs (Ah - A) <= al -> Rabs (Bh - B) <= be ->
  Rabs (Ah * Bh - A * B) <= al * (1 + be) + be /\ Rabs (Ah * Bh) <= (1 + al) * (1 + be).
Proof.
  intros HA HB Ha Hb. apply abs_le_inv in HA, HB, Ha, Hb.
  assert (0 <= al) by lra. assert (0 <= be) by lra.
  split; apply Rabs_le; nra.
Qed.

Definition eta_of (a_th a_ph s e : R) : R :=
  (a_th + s) * (1 + (a_ph + s)) + (a_ph + s) + e * ((1 + (a_th + s)) * (1 + (a_ph + s))).

Lemma vector_stage th ph th' ph' cth sth cph sph dx dy a_th a_ph s e :
  0 <= a_th -> 0 <= a_ph -> 0 <= s -> 0 <= e ->
  Rabs (th' - th) <= a_th -> Rabs (ph' - ph) <= a_ph ->
  Rabs (cth - cos th') <= s -> Rabs (sth - sin th') <= s -> Rabs (cph - cos ph') <= s -> Rabs (sph - sin ph') <= s ->
  Rabs dx <= e -> Rabs dy <= e ->
  close (eta_of a_th a_ph s e) (point th ph) (cth * cph * (1 + dx), sth * cph * (1 + dy), sph).
Proof.
  intros H1 H2 H3 H4 Ht Hp Hc Hs Hcp Hsp Hdx Hdy. unfold close, point, eta_of.
  pose proof (cos_lip th' th) as L1. pose proof (sin_lip th' th) as L2.
  pose proof (cos_lip ph' ph) as L3. pose proof (sin_lip ph' ph) as L4.
  assert (Ec : Rabs (cth - cos th) <= a_th + s).
  { replace (cth - cos th) with ((cth - cos th') + (cos th' - cos th)) by ring. eapply Rle_trans; [apply Rabs_triang|]. lra. }
  assert (Es : Rabs (sth - sin th) <= a_th + s).
  { replace (sth - sin th) with ((sth - sin th') + (sin th' - sin th)) by ring. eapply Rle_trans; [apply Rabs_triang|]. lra. }
  assert (Ecp : Rabs (cph - cos ph) <= a_ph + s).
  { replace (cph - cos ph) with ((cph - cos ph') + (cos ph' - cos ph)) by ring. eapply Rle_trans; [apply Rabs_triang|]. lra. }
  assert (Esp : Rabs (sph - sin ph) <= a_ph + s).
  { replace (sph - sin ph) with ((sph - sin ph') + (sin ph' - sin ph)) by ring. eapply Rle_trans; [apply Rabs_triang|]. lra. }
  assert (Bc : Rabs (cos th) <= 1) by (pose proof (COS_bound th); apply Rabs_le; lra).
  assert (Bs : Rabs (sin th) <= 1) by (pose proof (SIN_bound th); apply Rabs_le; lra).
  assert (Bcp : Rabs (cos ph) <= 1) by (pose proof (COS_bound ph); apply Rabs_le; lra).
  destruct (prod_err (cos th) (cos ph) cth cph _ _ Bc Bcp Ec Ecp) as [P1 Q1].
  destruct (prod_err (sin th) (cos ph) sth cph _ _ Bs Bcp Es Ecp) as [P2 Q2].
  set (al := a_th + s) in *. set (be := a_ph + s) in *.
  assert (0 <= al) by (unfold al; lra). assert (0 <= be) by (unfold be; lra).
  apply abs_le_inv in Hdx, Hdy.
  repeat split.
  - replace (cth * cph * (1 + dx) - cos ph * cos th) with ((cth * cph - cos th * cos ph) + cth * cph * dx) by ring.
    eapply Rle_trans; [apply Rabs_triang|]. rewrite (Rabs_mult (cth * cph) dx).
    assert (Rabs dx <= e) by (apply Rabs_le; lra). pose proof (Rabs_pos dx). pose proof (Rabs_pos (cth * cph)). nra.
  - replace (sth * cph * (1 + dy) - cos ph * sin th) with ((sth * cph - sin th * cos ph) + sth * cph * dy) by ring.
    eapply Rle_trans; [apply Rabs_triang|]. rewrite (Rabs_mult (sth * cph) dy).
    assert (Rabs dy <= e) by (apply Rabs_le; lra). pose proof (Rabs_pos dy). pose proof (Rabs_pos (sth * cph)). nra.
  - eapply Rle_trans; [exact Esp|].
    assert (0 <= al * (1 + be)) by nra. assert (0 <= (1 + al) * (1 + be)) by nra.
    assert (0 <= e * ((1 + al) * (1 + be))) by (apply Rmult_le_pos; assumption). lra.
Qed.

(* ---- chord conditioning with a little room above the threshold of the source ---- *)
Definition T_room : R := 39901 / 10000.

Lemma thr_below_room : sphdist_thr <= T_room.
Proof. unfold sphdist_thr, T_room. lra. Qed.

Lemma chord_conditioning_room d d' : 0 <= d -> 0 <= d' -> d * d <= T_room -> d' * d' <= T_room ->
  Rabs (2 * asin (/ 2 * d) - 2 * asin (/ 2 * d')) <= 2011 / 100 * Rabs (d - d').
Proof.
  unfold T_room. intros D0 D0' D D'.
  set (m := sqrt (39901 / 10000) / 2).
  assert (M2 : m * m = 39901 / 10000 / 4).
  { unfold m. replace (sqrt (39901 / 10000) / 2 * (sqrt (39901 / 10000) / 2))
      with (sqrt (39901 / 10000) * sqrt (39901 / 10000) / 4) by field. rewrite sqrt_sqrt by lra. reflexivity. }
  assert (M0 : 0 <= m) by (unfold m; apply Rmult_le_pos; [apply sqrt_pos | lra]).
  assert (Hm : 0 <= m < 1) by (split; [exact M0 | nra]).
  assert (Hd : - m <= / 2 * d <= m) by (split; nra).
  assert (Hd' : - m <= / 2 * d' <= m) by (split; nra).
  pose proof (asin_lipschitz m (/ 2 * d) (/ 2 * d') Hm Hd Hd') as L.
  replace (2 * asin (/ 2 * d) - 2 * asin (/ 2 * d')) with (2 * (asin (/ 2 * d) - asin (/ 2 * d'))) by ring.
  rewrite Rabs_mult, (Rabs_right 2) by lra.
  replace (/ 2 * d - / 2 * d') with (/ 2 * (d - d')) in L by ring.
  rewrite Rabs_mult, (Rabs_right (/ 2)) in L by lra.
  assert (S : 100 / 2011 <= sqrt (1 - m²)) by (unfold Rsqr; rewrite M2; apply sqrt_lower; lra).
  assert (0 <= Rabs (d - d')) by apply Rabs_pos.
  assert (Q : / 2 * Rabs (d - d') / sqrt (1 - m²) <= / 2 * Rabs (d - d') * (2011 / 100)).
  { unfold Rdiv at 1. apply Rmult_le_compat_l; [lra|]. replace (2011 / 100) with (/ (100 / 2011)) by field.
    apply Rinv_le_contravar; lra. }
  lra.
Qed.

(* the exact chord is below the room when the computed one is below the threshold and close to it *)
Lemma exact_below_room d d' : 0 <= d -> 0 <= d' -> d' * d' <= sphdist_thr -> Rabs (d - d') <= / 100000 -> d * d <= T_room.
Proof.
  unfold sphdist_thr, T_room. intros D0 D0' H E. apply abs_le_inv in E.
  assert (d' <= 2) by nra. assert (d * d <= (d' + / 100000) * (d' + / 100000)) by nra. nra.
Qed.

Lemma unit_chord_le_2 u v : is_unit u -> is_unit v -> norm3 (vsub u v) <= 2.
Proof.
  intros U V. pose proof (norm3_sq (vsub u v)) as S. rewrite nsq_sub in S by assumption.
  pose proof (dot_bound u v U V). pose proof (norm3_nonneg (vsub u v)). nra.
Qed.

(* ---- the chord branch, end to end (radians) ---- *)
Definition chord_bound (eta rho tau : R) : R :=
  2 * tau + 2011 / 100 * (2 * sqrt 3 * eta + rho * (2 + 2 * sqrt 3 * eta)).

Lemma chord_branch_rounding eta rho tau u v u' v' d' a' :
  0 <= eta -> 0 <= rho -> is_unit u -> is_unit v -> close eta u u' -> close eta v v' ->
  Rabs (d' - norm3 (vsub u' v')) <= rho * norm3 (vsub u' v') ->        (* computed chord length *)
  0 <= d' -> d' * d' <= T_room -> nsq (vsub u v) <= T_room ->         (* chord branch (with room) *)
  Rabs (a' - asin (/ 2 * d')) <= tau ->                                 (* libm arcsin *)
  Rabs (2 * a' - angle u v) <= chord_bound eta rho tau.
Proof.
  intros He Hr U V Cu Cv Hd D0 DT T Ha. unfold chord_bound.
  rewrite <- (chord_is_angle u v U V). fold (norm3 (vsub u v)).
  set (d := norm3 (vsub u v)). set (dh := norm3 (vsub u' v')) in *.
  pose proof (chord_length_perturbed eta u v u' v' He Cu Cv) as P. fold d dh in P.
  pose proof (unit_chord_le_2 u v U V) as D2. fold d in D2.
  pose proof (norm3_nonneg (vsub u v)) as Dn. fold d in Dn.
  assert (S3 : 0 <= sqrt 3) by apply sqrt_pos.
  apply abs_le_inv in P.
  assert (Hdh : dh <= 2 + 2 * sqrt 3 * eta) by nra.
  assert (E : Rabs (d' - d) <= 2 * sqrt 3 * eta + rho * (2 + 2 * sqrt 3 * eta)).
  { replace (d' - d) with ((d' - dh) + (dh - d)) by ring. eapply Rle_trans; [apply Rabs_triang|].
    assert (Rabs (dh - d) <= 2 * sqrt 3 * eta) by (apply Rabs_le; lra).
    assert (0 <= dh) by apply norm3_nonneg. nra. }
  assert (DD : d * d <= T_room) by (unfold d; rewrite norm3_sq; exact T).
  pose proof (chord_conditioning_room d' d D0 Dn DT DD) as C.
  replace (2 * a' - 2 * asin (/ 2 * d)) with (2 * (a' - asin (/ 2 * d')) + (2 * asin (/ 2 * d') - 2 * asin (/ 2 * d))) by ring.
  eapply Rle_trans; [apply Rabs_triang|]. rewrite Rabs_mult, (Rabs_right 2) by lra.
  assert (0 <= Rabs (d' - d)) by apply Rabs_pos. nra.
Qed.

(* ---- binary64 budgets: u = 2^-53; longitudes within one turn (|lon| <= 2 pi): (2u + u^2) * 6.2832 <= 12.57 u;
        |lat| <= pi/2: 3.15 u; libm within 1 ulp: s = u (values in [-1,1]), tau = 2u (arcsin values < 2);
        products e = u; the chain differences-squares-sum-sqrt rho = 4u ---- *)
Definition u64 : R := / 2 ^ 53.

Lemma binary64_budget_within_tolerance :
  chord_bound (eta_of (1257 / 100 * u64) (315 / 100 * u64) u64 u64) (4 * u64) (2 * u64) <= tol_in Rad 1e-11.
Proof. unfold chord_bound, eta_of, u64, tol_in. interval with (i_prec 80). Qed.

(* degrees out: result * fl(180/pi), one more product; eps collects the roundings (<= 3u) *)
Lemma degrees_out r R E eps : Rabs (r - R) <= E -> 0 <= R <= PI -> 0 <= E -> 
  Rabs (r * (180 / PI) * (1 + eps) - r2d R) <= 180 / PI * (E * (1 + Rabs eps)) + 180 * Rabs eps.
Proof.
  intros H HR HE. unfold r2d. pose proof PI_RGT_0 as P. pose proof (Rabs_pos eps) as A.
  assert (K : 0 < 180 / PI) by (apply Rdiv_lt_0_compat; lra).
  replace (r * (180 / PI) * (1 + eps) - R * (180 / PI)) with (180 / PI * ((r - R) * (1 + eps) + R * eps)) by ring.
  rewrite Rabs_mult, (Rabs_right (180 / PI)) by lra.
  assert (B : Rabs ((r - R) * (1 + eps) + R * eps) <= E * (1 + Rabs eps) + R * Rabs eps).
  { eapply Rle_trans; [apply Rabs_triang|]. rewrite !Rabs_mult. rewrite (Rabs_right R) by lra.
    assert (Rabs (1 + eps) <= 1 + Rabs eps) by (eapply Rle_trans; [apply Rabs_triang|]; rewrite Rabs_R1; lra).
    pose proof (Rabs_pos (r - R)). pose proof (Rabs_pos (1 + eps)). nra. }
  assert (RR : 180 / PI * (R * Rabs eps) <= 180 * Rabs eps).
  { assert (I : PI * / PI = 1) by (apply Rinv_r; lra). assert (Q : 0 < / PI) by (apply Rinv_0_lt_compat; lra).
    assert (R * / PI <= 1) by nra. unfold Rdiv. nra. }
  nra.
Qed.

(* ---- stage 2: the chain  differences, squares, sum, sqrt  with relative error e per operation has
        relative error (1+e)^4 - 1 on the chord length ---- *)
Lemma sq_nonneg x : 0 <= x * x.
Proof. exact (Rle_0_sqr x). Qed.

Lemma sq_term a b d1 d2 e : 0 <= e <= / 2 -> Rabs d1 <= e -> Rabs d2 <= e ->
  (a - b) * (a - b) * ((1 - e) * (1 - e) * (1 - e)) <= ((a - b) * (1 + d1)) * ((a - b) * (1 + d1)) * (1 + d2)
  <= (a - b) * (a - b) * ((1 + e) * (1 + e) * (1 + e)).
Proof.
  intros He H1 H2. apply abs_le_inv in H1, H2. set (q := (a - b) * (a - b)). assert (0 <= q) by (unfold q; apply sq_nonneg).
  replace ((a - b) * (1 + d1) * ((a - b) * (1 + d1)) * (1 + d2)) with (q * ((1 + d1) * (1 + d1) * (1 + d2))) by (unfold q; ring).
  assert (L : (1 - e) * (1 - e) * (1 - e) <= (1 + d1) * (1 + d1) * (1 + d2)).
  { assert ((1 - e) * (1 - e) <= (1 + d1) * (1 + d1)) by nra. assert (0 <= (1 - e) * (1 - e)) by nra. nra. }
  assert (U : (1 + d1) * (1 + d1) * (1 + d2) <= (1 + e) * (1 + e) * (1 + e)).
  { assert ((1 + d1) * (1 + d1) <= (1 + e) * (1 + e)) by nra. assert (0 <= (1 + d1) * (1 + d1)) by nra. nra. }
  split; nra.
Qed.

Lemma chain_stage (u' v' : vec3) d11 d12 d21 d22 d31 d32 d4 d5 d6 e :
  0 <= e <= / 2 ->
  Rabs d11 <= e -> Rabs d12 <= e -> Rabs d21 <= e -> Rabs d22 <= e -> Rabs d31 <= e -> Rabs d32 <= e ->
  Rabs d4 <= e -> Rabs d5 <= e -> Rabs d6 <= e ->
  let '(x1, y1, z1) := u' in let '(x2, y2, z2) := v' in
  let t1 := ((x1 - x2) * (1 + d11)) * ((x1 - x2) * (1 + d11)) * (1 + d12) in
  let t2 := ((y1 - y2) * (1 + d21)) * ((y1 - y2) * (1 + d21)) * (1 + d22) in
  let t3 := ((z1 - z2) * (1 + d31)) * ((z1 - z2) * (1 + d31)) * (1 + d32) in
  let dsq := ((t1 + t2) * (1 + d4) + t3) * (1 + d5) in
  let d' := sqrt dsq * (1 + d6) in
  0 <= dsq /\ 0 <= d' /\ Rabs (d' - norm3 (vsub u' v')) <= ((1 + e) * (1 + e) * (1 + e) * (1 + e) - 1) * norm3 (vsub u' v').
Proof.
  intros He H11 H12 H21 H22 H31 H32 H4 H5 H6. destruct u' as [[x1 y1] z1], v' as [[x2 y2] z2]. cbv zeta.
  pose proof (sq_term x1 x2 d11 d12 e He H11 H12) as [L1 U1].
  pose proof (sq_term y1 y2 d21 d22 e He H21 H22) as [L2 U2].
  pose proof (sq_term z1 z2 d31 d32 e He H31 H32) as [L3 U3].
  set (t1 := (x1 - x2) * (1 + d11) * ((x1 - x2) * (1 + d11)) * (1 + d12)) in *.
  set (t2 := (y1 - y2) * (1 + d21) * ((y1 - y2) * (1 + d21)) * (1 + d22)) in *.
  set (t3 := (z1 - z2) * (1 + d31) * ((z1 - z2) * (1 + d31)) * (1 + d32)) in *.
  set (q1 := (x1 - x2) * (x1 - x2)) in *. set (q2 := (y1 - y2) * (y1 - y2)) in *. set (q3 := (z1 - z2) * (z1 - z2)) in *.
  assert (Q1 : 0 <= q1) by (unfold q1; apply sq_nonneg). assert (Q2 : 0 <= q2) by (unfold q2; apply sq_nonneg). assert (Q3 : 0 <= q3) by (unfold q3; apply sq_nonneg).
  set (lo := 1 - e) in *. set (hi := 1 + e) in *.
  assert (Hlo : 0 < lo <= 1) by (unfold lo; lra). assert (Hhi : 1 <= hi) by (unfold hi; lra).
  apply abs_le_inv in H4, H5, H6.
  assert (lo2 : 0 < lo * lo) by nra. assert (lo3 : 0 < lo * lo * lo) by nra.
  assert (hi2 : 1 <= hi * hi) by nra. assert (hi3 : 1 <= hi * hi * hi) by nra.
  assert (P1 : 0 <= q1 * (lo * lo * lo)) by (apply Rmult_le_pos; lra).
  assert (P2 : 0 <= q2 * (lo * lo * lo)) by (apply Rmult_le_pos; lra).
  assert (P3 : 0 <= q3 * (lo * lo * lo)) by (apply Rmult_le_pos; lra).
  assert (T1 : 0 <= t1) by lra. assert (T2 : 0 <= t2) by lra. assert (T3 : 0 <= t3) by lra.
  set (Q := q1 + q2 + q3).
  assert (NQ : nsq (vsub (x1, y1, z1) (x2, y2, z2)) = Q) by (unfold nsq, vsub, dot, Q, q1, q2, q3; ring).
  set (dsq := ((t1 + t2) * (1 + d4) + t3) * (1 + d5)).
  set (LL3 := lo * lo * lo) in *. set (HH3 := hi * hi * hi) in *.
  assert (e4 : lo <= 1 + d4 <= hi) by (unfold lo, hi; lra). assert (e5 : lo <= 1 + d5 <= hi) by (unfold lo, hi; lra).
  assert (e6 : lo <= 1 + d6 <= hi) by (unfold lo, hi; lra).
  assert (S12l : (q1 + q2) * LL3 <= t1 + t2) by (replace ((q1 + q2) * LL3) with (q1 * LL3 + q2 * LL3) by ring; lra).
  assert (S12u : t1 + t2 <= (q1 + q2) * HH3) by (replace ((q1 + q2) * HH3) with (q1 * HH3 + q2 * HH3) by ring; lra).
  assert (N12 : 0 <= (q1 + q2) * LL3) by (apply Rmult_le_pos; lra).
  assert (A1 : (q1 + q2) * LL3 * lo <= (t1 + t2) * (1 + d4)) by (apply Rmult_le_compat; lra).
  assert (B1 : (t1 + t2) * (1 + d4) <= (q1 + q2) * HH3 * hi) by (apply Rmult_le_compat; lra).
  assert (L4 : LL3 * lo <= LL3) by (replace LL3 with (LL3 * 1) at 2 by ring; apply Rmult_le_compat_l; lra).
  assert (H4' : HH3 <= HH3 * hi) by (replace HH3 with (HH3 * 1) at 1 by ring; apply Rmult_le_compat_l; lra).
  assert (A2 : Q * (LL3 * lo) <= (t1 + t2) * (1 + d4) + t3).
  { assert (q3 * (LL3 * lo) <= q3 * LL3) by (apply Rmult_le_compat_l; lra).
    replace (Q * (LL3 * lo)) with ((q1 + q2) * LL3 * lo + q3 * (LL3 * lo)) by (unfold Q; ring). lra. }
  assert (B2 : (t1 + t2) * (1 + d4) + t3 <= Q * (HH3 * hi)).
  { assert (q3 * HH3 <= q3 * (HH3 * hi)) by (apply Rmult_le_compat_l; lra).
    replace (Q * (HH3 * hi)) with ((q1 + q2) * HH3 * hi + q3 * (HH3 * hi)) by (unfold Q; ring). lra. }
  assert (QQ : 0 <= Q) by (unfold Q; lra).
  assert (L4p : 0 <= LL3 * lo) by (apply Rmult_le_pos; lra).
  assert (N2 : 0 <= Q * (LL3 * lo)) by (apply Rmult_le_pos; lra).
  assert (A3 : Q * (LL3 * lo) * lo <= dsq) by (unfold dsq; apply Rmult_le_compat; lra).
  assert (B3 : dsq <= Q * (HH3 * hi) * hi) by (unfold dsq; apply Rmult_le_compat; lra).
  assert (N3 : 0 <= Q * (LL3 * lo) * lo) by (apply Rmult_le_pos; lra).
  assert (D0 : 0 <= dsq) by lra.
  split; [exact D0|].
  assert (S0 : 0 <= sqrt dsq) by apply sqrt_pos.
  split; [apply Rmult_le_pos; lra|].
  unfold norm3. rewrite NQ. set (D := sqrt Q). assert (DD : 0 <= D) by apply sqrt_pos.
  assert (SL : D * LL3 <= sqrt dsq).
  { replace (D * LL3) with (sqrt (Q * (LL3 * LL3))) by (rewrite sqrt_mult_alt by exact QQ; rewrite sqrt_square by lra; reflexivity).
    apply sqrt_le_1_alt. eapply Rle_trans; [|exact A3].
    replace (Q * (LL3 * lo) * lo) with (Q * (LL3 * (lo * lo))) by ring. apply Rmult_le_compat_l; [exact QQ|].
    apply Rmult_le_compat_l; [lra|]. unfold LL3. replace (lo * lo * lo) with (lo * lo * lo) by ring.
    replace (lo * lo) with (lo * lo * 1) at 2 by ring. apply Rmult_le_compat_l; lra. }
  assert (SU : sqrt dsq <= D * HH3).
  { replace (D * HH3) with (sqrt (Q * (HH3 * HH3))) by (rewrite sqrt_mult_alt by exact QQ; rewrite sqrt_square by lra; reflexivity).
    apply sqrt_le_1_alt. eapply Rle_trans; [exact B3|].
    replace (Q * (HH3 * hi) * hi) with (Q * (HH3 * (hi * hi))) by ring. apply Rmult_le_compat_l; [exact QQ|].
    apply Rmult_le_compat_l; [lra|]. unfold HH3. replace (hi * hi) with (hi * hi * 1) at 1 by ring.
    apply Rmult_le_compat_l; lra. }
  assert (NL : 0 <= D * LL3) by (apply Rmult_le_pos; lra).
  assert (FL : D * LL3 * lo <= sqrt dsq * (1 + d6)) by (apply Rmult_le_compat; lra).
  assert (FU : sqrt dsq * (1 + d6) <= D * HH3 * hi) by (apply Rmult_le_compat; lra).
  assert (lo4 : 1 - (HH3 * hi - 1) <= LL3 * lo) by (unfold LL3, HH3, lo, hi; nra).
  assert (X1 : D * (1 - (HH3 * hi - 1)) <= D * (LL3 * lo)) by (apply Rmult_le_compat_l; lra).
  replace (hi * hi * hi * hi) with (HH3 * hi) by (unfold HH3; ring).
  apply Rabs_le. split.
  - replace (D * LL3 * lo) with (D * (LL3 * lo)) in FL by ring. lra.
  - replace (D * HH3 * hi) with (D * (HH3 * hi)) in FU by ring. lra.
Qed.

(* ---- the chord branch of sphdist, end to end, with binary64 budgets (u = 2^-53) ---- *)
Definition rho64 : R := (1 + u64) * (1 + u64) * (1 + u64) * (1 + u64) - 1.

Lemma binary64_budget_within_tolerance' :
  chord_bound (eta_of (1257 / 100 * u64) (315 / 100 * u64) u64 u64) rho64 (2 * u64) <= tol_in Rad 1e-11.
Proof. unfold chord_bound, eta_of, rho64, u64, tol_in. interval with (i_prec 80). Qed.

Lemma chord_branch_binary64
      th1 ph1 th2 ph2                                   (* exact radian coordinates of the two points *)
      th1' ph1' th2' ph2'                               (* computed radian arguments *)
      c1 s1 cp1 sp1 c2 s2 cp2 sp2                       (* libm values cos th1', sin th1', cos ph1', sin ph1', ... *)
      dx1 dy1 dx2 dy2                                   (* roundings of the products *)
      d' a' :                                           (* computed chord length, libm arcsin value *)
  Rabs (th1' - th1) <= 1257 / 100 * u64 -> Rabs (ph1' - ph1) <= 315 / 100 * u64 ->
  Rabs (th2' - th2) <= 1257 / 100 * u64 -> Rabs (ph2' - ph2) <= 315 / 100 * u64 ->
  Rabs (c1 - cos th1') <= u64 -> Rabs (s1 - sin th1') <= u64 -> Rabs (cp1 - cos ph1') <= u64 -> Rabs (sp1 - sin ph1') <= u64 ->
  Rabs (c2 - cos th2') <= u64 -> Rabs (s2 - sin th2') <= u64 -> Rabs (cp2 - cos ph2') <= u64 -> Rabs (sp2 - sin ph2') <= u64 ->
  Rabs dx1 <= u64 -> Rabs dy1 <= u64 -> Rabs dx2 <= u64 -> Rabs dy2 <= u64 ->
  let u' := (c1 * cp1 * (1 + dx1), s1 * cp1 * (1 + dy1), sp1) in
  let v' := (c2 * cp2 * (1 + dx2), s2 * cp2 * (1 + dy2), sp2) in
  Rabs (d' - norm3 (vsub u' v')) <= rho64 * norm3 (vsub u' v') ->
  0 <= d' -> d' * d' <= T_room -> nsq (vsub (point th1 ph1) (point th2 ph2)) <= T_room ->
  Rabs (a' - asin (/ 2 * d')) <= 2 * u64 ->
  Rabs (2 * a' - angle (point th1 ph1) (point th2 ph2)) <= tol_in Rad 1e-11.
Proof.
  intros. assert (U0 : 0 <= u64) by (unfold u64; interval).
  assert (A1 : 0 <= 1257 / 100 * u64) by lra. assert (A2 : 0 <= 315 / 100 * u64) by lra.
  eapply Rle_trans; [|apply binary64_budget_within_tolerance'].
  apply (chord_branch_rounding _ _ _ (point th1 ph1) (point th2 ph2) u' v' d' a'); try assumption.
  - unfold eta_of. nra.
  - unfold rho64. nra.
  - apply point_unit.
  - apply point_unit.
  - apply (vector_stage th1 ph1 th1' ph1' c1 s1 cp1 sp1 dx1 dy1); assumption || lra.
  - apply (vector_stage th2 ph2 th2' ph2' c2 s2 cp2 sp2 dx2 dy2); assumption || lra.
Qed.

(* C08 -- property theorems only.  Bodies live in Proofs.v / Code.v / SrcProofs.v / FProofs.v / Cond.v / Final.v.
   Angles are in radians inside [true_sep]; [from_rad uout] converts to the requested unit. *)
From Coq Require Import Reals Lra QArith Qreals List.
From Coq Require PrimFloat.
From EsVerif.C08 Require Import Gen Model Spec Proofs Code SrcLib Src SrcProofs SrcLibF SrcF FProofs Cond Cond2 Cond3 Final.
Open Scope R_scope.

(* The two formulas of the chord-based function are the great-circle angle of unit vectors. *)
Theorem C08_chord_is_angle : forall u v, is_unit u -> is_unit v ->
  2 * asin (/ 2 * sqrt (nsq (vsub u v))) = angle u v.
Proof. exact chord_is_angle. Qed.

Theorem C08_cross_is_angle : forall u v, is_unit u -> is_unit v -> dot u v <= 0 ->
  PI - asin (sqrt (nsq (cross u v))) = angle u v.
Proof. exact cross_is_angle. Qed.

(* sphdist as coded -- chord branch, cross-product branch, unit conversion, exact-zero override --
   returns the true separation for ALL real inputs and for every threshold constant >= 2
   (|u-v|^2 >= 2 iff the angle is >= 90 degrees, where the cross-product formula is valid). *)
Theorem C08_sphdist_exact : forall thr uin uout ra1 dec1 ra2 dec2, 2 <= thr ->
  sphdist_R thr uin uout ra1 dec1 ra2 dec2 = from_rad uout (true_sep uin ra1 dec1 ra2 dec2).
Proof. exact sphdist_exact. Qed.

(* gcirc as coded -- law of cosines, clipping to [lo,hi] containing [-1,1], exact-zero override. *)
Theorem C08_gcirc_exact : forall lo hi ra1 dec1 ra2 dec2, lo <= -1 -> 1 <= hi ->
  gcirc_R lo hi ra1 dec1 ra2 dec2 = true_sep Deg ra1 dec1 ra2 dec2.
Proof. exact gcirc_exact. Qed.

(* The constants found in the source of the tree under check satisfy those side conditions ... *)
Theorem C08_code_constants : 2 <= sphdist_thr /\ gcirc_clip_lo <= -1 /\ 1 <= gcirc_clip_hi.
Proof. exact code_constants_thm. Qed.

(* ... hence the model with the code's constants is exact. *)
Theorem C08_sphdist_code_exact : forall uin uout ra1 dec1 ra2 dec2,
  sphdist_code uin uout ra1 dec1 ra2 dec2 = from_rad uout (true_sep uin ra1 dec1 ra2 dec2).
Proof. exact sphdist_code_exact. Qed.

Theorem C08_gcirc_code_exact : forall ra1 dec1 ra2 dec2,
  gcirc_code ra1 dec1 ra2 dec2 = true_sep Deg ra1 dec1 ra2 dec2.
Proof. exact gcirc_code_exact. Qed.

(* The element-wise reading of the SOURCE TEXT of _thetaphi2xyz / eq2xyz / sphdist / gcirc (Src.v,
   regenerated from esutil/coords.py of the tree under check on every run) is the model ... *)
Theorem C08_source_is_model :
  (forall theta phi, thetaphi2xyz_src theta phi = thetaphi2xyz theta phi)
  /\ (forall u ra dec, eq2xyz_src u ra dec = eq2xyz u ra dec)
  /\ (forall uin uout ra1 dec1 ra2 dec2,
        sphdist_src uin uout ra1 dec1 ra2 dec2 = sphdist_code uin uout ra1 dec1 ra2 dec2)
  /\ (forall ra1 dec1 ra2 dec2, gcirc_src ra1 dec1 ra2 dec2 = gcirc_code ra1 dec1 ra2 dec2).
Proof. exact source_is_model_thm. Qed.

(* ... hence the source formulas return the true great-circle angle for all real inputs, and the
   vectors they are computed from are unit vectors. *)
Theorem C08_source_exact :
  (forall uin uout ra1 dec1 ra2 dec2,
     sphdist_src uin uout ra1 dec1 ra2 dec2 = from_rad uout (true_sep uin ra1 dec1 ra2 dec2))
  /\ (forall ra1 dec1 ra2 dec2, gcirc_src ra1 dec1 ra2 dec2 = true_sep Deg ra1 dec1 ra2 dec2)
  /\ (forall u ra dec, is_unit (eq2xyz_src u ra dec)).
Proof. exact source_exact_thm. Qed.

(* Range: [0,180] degrees, i.e. [0,PI] when radians are requested. *)
Theorem C08_range : forall uin ra1 dec1 ra2 dec2,
  0 <= sphdist_code uin Deg ra1 dec1 ra2 dec2 <= 180
  /\ 0 <= sphdist_code uin Rad ra1 dec1 ra2 dec2 <= PI
  /\ 0 <= gcirc_code ra1 dec1 ra2 dec2 <= PI.
Proof. exact range_thm. Qed.

(* Symmetry in the two points. *)
Theorem C08_sym : forall uin uout ra1 dec1 ra2 dec2,
  sphdist_code uin uout ra1 dec1 ra2 dec2 = sphdist_code uin uout ra2 dec2 ra1 dec1
  /\ gcirc_code ra1 dec1 ra2 dec2 = gcirc_code ra2 dec2 ra1 dec1.
Proof. exact sym_thm. Qed.

(* Zero exactly when the two inputs denote the same point of the sphere; in particular for
   identical inputs. *)
Theorem C08_zero_iff : forall uin uout ra1 dec1 ra2 dec2,
  sphdist_code uin uout ra1 dec1 ra2 dec2 = 0 <->
  point (to_rad uin ra1) (to_rad uin dec1) = point (to_rad uin ra2) (to_rad uin dec2).
Proof. exact zero_iff_thm. Qed.

Theorem C08_zero_identical : forall uin uout ra dec,
  sphdist_code uin uout ra dec ra dec = 0 /\ gcirc_code ra dec ra dec = 0.
Proof. exact zero_identical_thm. Qed.

(* Adding a full turn (360 degrees; 2 PI when the input unit is radians) to either longitude
   changes nothing. *)
Theorem C08_period : forall uin uout ra1 dec1 ra2 dec2,
  let turn := match uin with Deg => 360 | Rad => 2 * PI end in
  sphdist_code uin uout (ra1 + turn) dec1 ra2 dec2 = sphdist_code uin uout ra1 dec1 ra2 dec2
  /\ sphdist_code uin uout ra1 dec1 (ra2 + turn) dec2 = sphdist_code uin uout ra1 dec1 ra2 dec2
  /\ gcirc_code (ra1 + 360) dec1 ra2 dec2 = gcirc_code ra1 dec1 ra2 dec2
  /\ gcirc_code ra1 dec1 (ra2 + 360) dec2 = gcirc_code ra1 dec1 ra2 dec2.
Proof. exact period_thm. Qed.

(* What a per-case certificate (generated lemma [sep_ok ...] closed by interval through the
   half-angle forms below) says about the model: the implementation's output is within the
   statement's tolerance of the model as coded. *)
Theorem C08_certificate_forms : forall u ra1 dec1 ra2 dec2,
  (0 < dplus u ra1 dec1 ra2 dec2 -> true_sep u ra1 dec1 ra2 dec2 = sep_small u ra1 dec1 ra2 dec2)
  /\ (0 < dminus u ra1 dec1 ra2 dec2 -> true_sep u ra1 dec1 ra2 dec2 = sep_large u ra1 dec1 ra2 dec2).
Proof. exact certificate_forms_thm. Qed.

Theorem C08_certificate_ties_model :
  (forall uin uout tol ra1 dec1 ra2 dec2 out,
     sep_ok uin uout tol ra1 dec1 ra2 dec2 out -> sphdist_cert uin uout tol ra1 dec1 ra2 dec2 out)
  /\ (forall tol ra1 dec1 ra2 dec2 out,
     sep_ok Deg Rad tol ra1 dec1 ra2 dec2 out -> gcirc_cert tol ra1 dec1 ra2 dec2 out).
Proof. exact certificate_ties_model_thm. Qed.

Theorem C08_certificate_ties_source :
  (forall uin uout tol ra1 dec1 ra2 dec2 out,
     sep_ok uin uout tol ra1 dec1 ra2 dec2 out -> sphdist_src_cert uin uout tol ra1 dec1 ra2 dec2 out)
  /\ (forall tol ra1 dec1 ra2 dec2 out,
     sep_ok Deg Rad tol ra1 dec1 ra2 dec2 out -> gcirc_src_cert tol ra1 dec1 ra2 dec2 out).
Proof. exact certificate_ties_source_thm. Qed.

(* Soundness of the exact-rational checkers run on the implementation's outputs. *)
Theorem C08_checkers_sound :
  (forall uout pts outs, outs_ok uout pts outs = true -> Forall2 (out_spec uout) pts outs)
  /\ (forall a b, all_same a b = true -> Forall2 (fun x y => Q2R x = Q2R y) a b)
  /\ (forall tol a b, all_close tol a b = true -> Forall2 (fun x y => Rabs (Q2R x - Q2R y) <= Q2R tol) a b)
  /\ (forall t a b tol, Rabs (a - t) <= tol -> Rabs (b - t) <= tol -> Rabs (a - b) <= 2 * tol)
  /\ Q2R pi_lo < PI < Q2R pi_hi.
Proof. exact checkers_sound_thm. Qed.

(* Binary64 reading of the source text (SrcF.v, same translation with IEEE operations and arbitrary libm
   oracles O): identical inputs give exactly +0, whatever the rounding and whatever sin/cos/arcsin/arccos
   return -- the "exactly zero for identical inputs" clause at the level of the floats. *)
Theorem C08_float_zero_identical :
  (forall O uin uout ra dec, PrimFloat.is_nan ra = false -> PrimFloat.is_nan dec = false ->
     sphdist_f O uin uout ra dec ra dec = PrimFloat.zero)
  /\ (forall O ra dec, PrimFloat.is_nan (d2r_f ra) = false -> PrimFloat.is_nan (d2r_f dec) = false ->
     gcirc_f O ra dec ra dec = PrimFloat.zero).
Proof. exact float_zero_identical_thm. Qed.

(* Conditioning of the cosine formula: an error e in cosdis moves the angle by at most
   2 asin (sqrt (e/2)), attained next to cosdis = 1.  Hence 6e-16 (2.7 ulp of 1) costs at most the
   statement's 2e-6 degree, and half an ulp (2^-53) already costs more than 8e-7 degree, which is why the
   cosine-based function cannot be held to the chord function's 1e-11 degree. *)
Theorem C08_acos_conditioning : forall c c' e, -1 <= c <= 1 -> -1 <= c' <= 1 -> Rabs (c - c') <= e -> e <= 2 ->
  Rabs (acos c - acos c') <= 2 * asin (sqrt (e / 2)).
Proof. exact acos_conditioning. Qed.

Theorem C08_acos_conditioning_sharp : forall e, 0 <= e <= 2 -> acos (1 - e) - acos 1 = 2 * asin (sqrt (e / 2)).
Proof. exact acos_near_one. Qed.

Theorem C08_gcirc_conditioning : forall c c', -1 <= c <= 1 -> -1 <= c' <= 1 -> Rabs (c - c') <= 6e-16 ->
  Rabs (acos c - acos c') <= tol_in Rad 2e-6.
Proof. exact gcirc_conditioning. Qed.

Theorem C08_cosine_formula_limit : 8e-7 < r2d (acos (1 - / 2 ^ 53) - acos 1).
Proof. exact cosine_formula_limit. Qed.

(* Conditioning of the two branches of sphdist under the threshold literal of the source (3.99): asin is
   Lipschitz with constant 1/sqrt(1-m^2) on [-m,m]; an error e in the chord length |u-v| moves the chord-branch
   result by at most 20.01 e, in the cross-product branch |u x v|^2 <= 1/100 and an error e in |u x v| moves the
   result by at most 1.006 e; the chord formula alone would amplify without bound towards 180 degrees. *)
Theorem C08_asin_lipschitz : forall m x y, 0 <= m < 1 -> -m <= x <= m -> -m <= y <= m ->
  Rabs (asin x - asin y) <= Rabs (x - y) / sqrt (1 - m²).
Proof. exact asin_lipschitz. Qed.

Theorem C08_branch_conditioning :
  (forall d d', 0 <= d -> 0 <= d' -> d * d <= sphdist_thr -> d' * d' <= sphdist_thr ->
     Rabs (2 * asin (/ 2 * d) - 2 * asin (/ 2 * d')) <= 2001 / 100 * Rabs (d - d'))
  /\ (forall u v, is_unit u -> is_unit v -> sphdist_thr <= nsq (vsub u v) -> nsq (cross u v) <= / 100)
  /\ (forall s s', 0 <= s <= / 10 -> 0 <= s' <= / 10 ->
     Rabs ((PI - asin s) - (PI - asin s')) <= 1006 / 1000 * Rabs (s - s')).
Proof. exact branch_conditioning_thm. Qed.

Theorem C08_chord_alone_ill_conditioned : forall K, 0 < K -> exists m, 0 <= m < 1 /\ K < / sqrt (1 - m²).
Proof. exact chord_alone_ill_conditioned. Qed.

(* Robustness of the chord branch against errors in the unit vectors (everything downstream exact): component
   errors up to eta move the chord length by at most 2 sqrt(3) eta, hence the result by at most
   20.01 * 2 sqrt(3) * eta below the source's threshold; with eta = 2^-50 (4 ulp of 1) that is within the
   statement's 1e-11 degree. *)
Theorem C08_chord_length_perturbed : forall eta u v u' v', 0 <= eta -> close eta u u' -> close eta v v' ->
  Rabs (norm3 (vsub u' v') - norm3 (vsub u v)) <= 2 * sqrt 3 * eta.
Proof. exact chord_length_perturbed. Qed.

Theorem C08_chord_branch_robust : forall eta u v u' v', 0 <= eta -> close eta u u' -> close eta v v' ->
  nsq (vsub u v) <= sphdist_thr -> nsq (vsub u' v') <= sphdist_thr ->
  Rabs (2 * asin (/ 2 * norm3 (vsub u' v')) - 2 * asin (/ 2 * norm3 (vsub u v))) <= 2001 / 100 * (2 * sqrt 3 * eta).
Proof. exact chord_branch_robust. Qed.

Theorem C08_chord_branch_robust_4ulp : forall u v u' v', close (/ 2 ^ 50) u u' -> close (/ 2 ^ 50) v v' ->
  nsq (vsub u v) <= sphdist_thr -> nsq (vsub u' v') <= sphdist_thr ->
  Rabs (2 * asin (/ 2 * norm3 (vsub u' v')) - 2 * asin (/ 2 * norm3 (vsub u v))) <= tol_in Rad 1e-11.
Proof. exact chord_branch_robust_4ulp. Qed.

(* The two functions compute the same quantity (sphdist with units deg -> rad and gcirc). *)
Theorem C08_functions_agree : forall ra1 dec1 ra2 dec2,
  sphdist_code Deg Rad ra1 dec1 ra2 dec2 = gcirc_code ra1 dec1 ra2 dec2
  /\ sphdist_src Deg Rad ra1 dec1 ra2 dec2 = gcirc_src ra1 dec1 ra2 dec2.
Proof. exact functions_agree_thm. Qed.

(* Non-vacuity: a quarter turn along the equator is 90 degrees in the model as coded (chord
   branch), the antipode is 180 degrees (cross-product branch: |u-v|^2 = 4 >= threshold), and a
   pair of distinct inputs has a non-zero separation. *)
Example C08_nonvacuous :
  sphdist_code Deg Deg 0 0 90 0 = 90 /\ sphdist_code Deg Deg 0 0 180 0 = 180
  /\ gcirc_code 0 0 90 0 = PI / 2 /\ sphdist_code Deg Deg 0 0 90 0 <> 0.
Proof.
  assert (A : true_sep Deg 0 0 90 0 = PI / 2).
  { unfold true_sep, to_rad, d2r, angle, point, dot.
    replace (90 * (PI / 180)) with (PI / 2) by field. replace (0 * (PI / 180)) with 0 by field.
    rewrite cos_PI2, sin_PI2, cos_0, sin_0.
    replace (1 * 1 * (1 * 0) + 1 * 0 * (1 * 1) + 0 * 0) with 0 by ring. apply acos_0. }
  assert (B : true_sep Deg 0 0 180 0 = PI).
  { unfold true_sep, to_rad, d2r, angle, point, dot.
    replace (180 * (PI / 180)) with PI by (field; apply PI_neq0). replace (0 * (PI / 180)) with 0 by field.
    rewrite cos_PI, sin_PI, cos_0, sin_0.
    replace (1 * 1 * (1 * -1) + 1 * 0 * (1 * 0) + 0 * 0) with (Ropp 1) by ring.
    rewrite acos_opp, acos_1. ring. }
  assert (C : sphdist_code Deg Deg 0 0 90 0 = 90).
  { rewrite sphdist_code_exact, A. unfold from_rad, r2d. field. apply PI_neq0. }
  split; [exact C|]. split.
  - rewrite sphdist_code_exact, B. unfold from_rad, r2d. field. apply PI_neq0.
  - split; [rewrite gcirc_code_exact; exact A | rewrite C; lra].
Qed.

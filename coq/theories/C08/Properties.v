(* C08 -- property theorems only.  Bodies live in Proofs.v / Code.v / SrcProofs.v / FProofs.v / Cond.v / Final.v.
   Angles are in radians inside [true_sep]; [from_rad uout] converts to the requested unit. *)
From Coq Require Import Reals Lra QArith Qreals List.
Import ListNotations.
From Coq Require PrimFloat.
From EsVerif.C08 Require Import Gen Model Spec Proofs Code SrcLib Src SrcProofs SrcLibF SrcF FProofs Cond Cond2 Cond3 Final Rounding Rounding2 Rounding3 Rounding4 ArrayLayer Examples SkelLib GenMeta GenNp TieProofs Complete.
Open Scope R_scope.

(* The two formulas of the chord-based function are the great-circle angle of unit vectors. *)
Theorem C08_chord_is_angle : forall u v, is_unit u -> is_unit v ->
  2 * asin (/ 2 * sqrt (nsq (vsub u v))) = angle u v.
Proof. exact chord_is_angle. Qed.

Theorem C08_cross_is_angle : forall u v, is_unit u -> is_unit v -> dot u v <= 0 ->
  PI - asin (sqrt (nsq (cross u v))) = angle u v.
Proof. exact cross_is_angle. Qed.

(* sphdist as coded -- chord branch, cross-product branch, unit conversion, exact-zero override --
   returns the true separation for ALL real inputs and for every threshold constant >= 2
   (|u-v|^2 >= 2 iff the angle is >= 90 degrees, where the cross-product formula is valid). *)
Theorem C08_sphdist_exact : forall thr uin uout ra1 dec1 ra2 dec2, 2 <= thr ->
  sphdist_R thr uin uout ra1 dec1 ra2 dec2 = from_rad uout (true_sep uin ra1 dec1 ra2 dec2).
Proof. exact sphdist_exact. Qed.

(* gcirc as coded -- law of cosines, clipping to [lo,hi] containing [-1,1], exact-zero override. *)
Theorem C08_gcirc_exact : forall lo hi ra1 dec1 ra2 dec2, lo <= -1 -> 1 <= hi ->
  gcirc_R lo hi ra1 dec1 ra2 dec2 = true_sep Deg ra1 dec1 ra2 dec2.
Proof. exact gcirc_exact. Qed.

(* The constants found in the source of the tree under check satisfy those side conditions ... *)
Theorem C08_code_constants : 2 <= sphdist_thr /\ gcirc_clip_lo <= -1 /\ 1 <= gcirc_clip_hi.
Proof. exact code_constants_thm. Qed.

(* ... hence the model with the code's constants is exact. *)
Theorem C08_sphdist_code_exact : forall uin uout ra1 dec1 ra2 dec2,
  sphdist_code uin uout ra1 dec1 ra2 dec2 = from_rad uout (true_sep uin ra1 dec1 ra2 dec2).
Proof. exact sphdist_code_exact. Qed.

Theorem C08_gcirc_code_exact : forall ra1 dec1 ra2 dec2,
  gcirc_code ra1 dec1 ra2 dec2 = true_sep Deg ra1 dec1 ra2 dec2.
Proof. exact gcirc_code_exact. Qed.

(* The element-wise reading of the SOURCE TEXT of _thetaphi2xyz / eq2xyz / sphdist / gcirc (Src.v,
   regenerated from esutil/coords.py of the tree under check on every run) is the model ... *)
Theorem C08_source_is_model :
  (forall theta phi, thetaphi2xyz_src theta phi = thetaphi2xyz theta phi)
  /\ (forall u ra dec, eq2xyz_src u ra dec = eq2xyz u ra dec)
  /\ (forall uin uout ra1 dec1 ra2 dec2,
        sphdist_src uin uout ra1 dec1 ra2 dec2 = sphdist_code uin uout ra1 dec1 ra2 dec2)
  /\ (forall ra1 dec1 ra2 dec2, gcirc_src ra1 dec1 ra2 dec2 = gcirc_code ra1 dec1 ra2 dec2).
Proof. exact source_is_model_thm. Qed.

(* ... hence the source formulas return the true great-circle angle for all real inputs, and the
   vectors they are computed from are unit vectors. *)
Theorem C08_source_exact :
  (forall uin uout ra1 dec1 ra2 dec2,
     sphdist_src uin uout ra1 dec1 ra2 dec2 = from_rad uout (true_sep uin ra1 dec1 ra2 dec2))
  /\ (forall ra1 dec1 ra2 dec2, gcirc_src ra1 dec1 ra2 dec2 = true_sep Deg ra1 dec1 ra2 dec2)
  /\ (forall u ra dec, is_unit (eq2xyz_src u ra dec)).
Proof. exact source_exact_thm. Qed.

(* Range: [0,180] degrees, i.e. [0,PI] when radians are requested. *)
Theorem C08_range : forall uin ra1 dec1 ra2 dec2,
  0 <= sphdist_code uin Deg ra1 dec1 ra2 dec2 <= 180
  /\ 0 <= sphdist_code uin Rad ra1 dec1 ra2 dec2 <= PI
  /\ 0 <= gcirc_code ra1 dec1 ra2 dec2 <= PI.
Proof. exact range_thm. Qed.

(* Symmetry in the two points. *)
Theorem C08_sym : forall uin uout ra1 dec1 ra2 dec2,
  sphdist_code uin uout ra1 dec1 ra2 dec2 = sphdist_code uin uout ra2 dec2 ra1 dec1
  /\ gcirc_code ra1 dec1 ra2 dec2 = gcirc_code ra2 dec2 ra1 dec1.
Proof. exact sym_thm. Qed.

(* Zero exactly when the two inputs denote the same point of the sphere; in particular for
   identical inputs. *)
Theorem C08_zero_iff : forall uin uout ra1 dec1 ra2 dec2,
  sphdist_code uin uout ra1 dec1 ra2 dec2 = 0 <->
  point (to_rad uin ra1) (to_rad uin dec1) = point (to_rad uin ra2) (to_rad uin dec2).
Proof. exact zero_iff_thm. Qed.

Theorem C08_zero_identical : forall uin uout ra dec,
  sphdist_code uin uout ra dec ra dec = 0 /\ gcirc_code ra dec ra dec = 0.
Proof. exact zero_identical_thm. Qed.

(* Adding a full turn (360 degrees; 2 PI when the input unit is radians) to either longitude
   changes nothing. *)
Theorem C08_period : forall uin uout ra1 dec1 ra2 dec2,
  let turn := match uin with Deg => 360 | Rad => 2 * PI end in
  sphdist_code uin uout (ra1 + turn) dec1 ra2 dec2 = sphdist_code uin uout ra1 dec1 ra2 dec2
  /\ sphdist_code uin uout ra1 dec1 (ra2 + turn) dec2 = sphdist_code uin uout ra1 dec1 ra2 dec2
  /\ gcirc_code (ra1 + 360) dec1 ra2 dec2 = gcirc_code ra1 dec1 ra2 dec2
  /\ gcirc_code ra1 dec1 (ra2 + 360) dec2 = gcirc_code ra1 dec1 ra2 dec2.
Proof. exact period_thm. Qed.

(* What a per-case certificate (generated lemma [sep_ok ...] closed by interval through the
   half-angle forms below) says about the model: the implementation's output is within the
   statement's tolerance of the model as coded. *)
Theorem C08_certificate_forms : forall u ra1 dec1 ra2 dec2,
  (0 < dplus u ra1 dec1 ra2 dec2 -> true_sep u ra1 dec1 ra2 dec2 = sep_small u ra1 dec1 ra2 dec2)
  /\ (0 < dminus u ra1 dec1 ra2 dec2 -> true_sep u ra1 dec1 ra2 dec2 = sep_large u ra1 dec1 ra2 dec2).
Proof. exact certificate_forms_thm. Qed.

Theorem C08_certificate_ties_model :
  (forall uin uout tol ra1 dec1 ra2 dec2 out,
     sep_ok uin uout tol ra1 dec1 ra2 dec2 out -> sphdist_cert uin uout tol ra1 dec1 ra2 dec2 out)
  /\ (forall tol ra1 dec1 ra2 dec2 out,
     sep_ok Deg Rad tol ra1 dec1 ra2 dec2 out -> gcirc_cert tol ra1 dec1 ra2 dec2 out).
Proof. exact certificate_ties_model_thm. Qed.

Theorem C08_certificate_ties_source :
  (forall uin uout tol ra1 dec1 ra2 dec2 out,
     sep_ok uin uout tol ra1 dec1 ra2 dec2 out -> sphdist_src_cert uin uout tol ra1 dec1 ra2 dec2 out)
  /\ (forall tol ra1 dec1 ra2 dec2 out,
     sep_ok Deg Rad tol ra1 dec1 ra2 dec2 out -> gcirc_src_cert tol ra1 dec1 ra2 dec2 out).
Proof. exact certificate_ties_source_thm. Qed.

(* Soundness of the exact-rational checkers run on the implementation's outputs. *)
Theorem C08_checkers_sound :
  (forall uout pts outs, outs_ok uout pts outs = true -> Forall2 (out_spec uout) pts outs)
  /\ (forall a b, all_same a b = true -> Forall2 (fun x y => Q2R x = Q2R y) a b)
  /\ (forall tol a b, all_close tol a b = true -> Forall2 (fun x y => Rabs (Q2R x - Q2R y) <= Q2R tol) a b)
  /\ (forall t a b tol, Rabs (a - t) <= tol -> Rabs (b - t) <= tol -> Rabs (a - b) <= 2 * tol)
  /\ Q2R pi_lo < PI < Q2R pi_hi.
Proof. exact checkers_sound_thm. Qed.

(* Binary64 reading of the source text (SrcF.v, same translation with IEEE operations and arbitrary libm
   oracles O): identical inputs give exactly +0, whatever the rounding and whatever sin/cos/arcsin/arccos
   return -- the "exactly zero for identical inputs" clause at the level of the floats. *)
Theorem C08_float_zero_identical :
  (forall O uin uout ra dec, PrimFloat.is_nan ra = false -> PrimFloat.is_nan dec = false ->
     sphdist_f O uin uout ra dec ra dec = PrimFloat.zero)
  /\ (forall O ra dec, PrimFloat.is_nan (d2r_f ra) = false -> PrimFloat.is_nan (d2r_f dec) = false ->
     gcirc_f O ra dec ra dec = PrimFloat.zero).
Proof. exact float_zero_identical_thm. Qed.

(* Conditioning of the cosine formula: an error e in cosdis moves the angle by at most
   2 asin (sqrt (e/2)), attained next to cosdis = 1.  Hence 6e-16 (2.7 ulp of 1) costs at most the
   statement's 2e-6 degree, and half an ulp (2^-53) already costs more than 8e-7 degree, which is why the
   cosine-based function cannot be held to the chord function's 1e-11 degree. *)
Theorem C08_acos_conditioning : forall c c' e, -1 <= c <= 1 -> -1 <= c' <= 1 -> Rabs (c - c') <= e -> e <= 2 ->
  Rabs (acos c - acos c') <= 2 * asin (sqrt (e / 2)).
Proof. exact acos_conditioning. Qed.

Theorem C08_acos_conditioning_sharp : forall e, 0 <= e <= 2 -> acos (1 - e) - acos 1 = 2 * asin (sqrt (e / 2)).
Proof. exact acos_near_one. Qed.

Theorem C08_gcirc_conditioning : forall c c', -1 <= c <= 1 -> -1 <= c' <= 1 -> Rabs (c - c') <= 6e-16 ->
  Rabs (acos c - acos c') <= tol_in Rad 2e-6.
Proof. exact gcirc_conditioning. Qed.

Theorem C08_cosine_formula_limit : 8e-7 < r2d (acos (1 - / 2 ^ 53) - acos 1).
Proof. exact cosine_formula_limit. Qed.

(* Conditioning of the two branches of sphdist under the threshold literal of the source (3.99): asin is
   Lipschitz with constant 1/sqrt(1-m^2) on [-m,m]; an error e in the chord length |u-v| moves the chord-branch
   result by at most 20.01 e, in the cross-product branch |u x v|^2 <= 1/100 and an error e in |u x v| moves the
   result by at most 1.006 e; the chord formula alone would amplify without bound towards 180 degrees. *)
Theorem C08_asin_lipschitz : forall m x y, 0 <= m < 1 -> -m <= x <= m -> -m <= y <= m ->
  Rabs (asin x - asin y) <= Rabs (x - y) / sqrt (1 - m²).
Proof. exact asin_lipschitz. Qed.

Theorem C08_branch_conditioning :
  (forall d d', 0 <= d -> 0 <= d' -> d * d <= sphdist_thr -> d' * d' <= sphdist_thr ->
     Rabs (2 * asin (/ 2 * d) - 2 * asin (/ 2 * d')) <= 2001 / 100 * Rabs (d - d'))
  /\ (forall u v, is_unit u -> is_unit v -> sphdist_thr <= nsq (vsub u v) -> nsq (cross u v) <= / 100)
  /\ (forall s s', 0 <= s <= / 10 -> 0 <= s' <= / 10 ->
     Rabs ((PI - asin s) - (PI - asin s')) <= 1006 / 1000 * Rabs (s - s')).
Proof. exact branch_conditioning_thm. Qed.

Theorem C08_chord_alone_ill_conditioned : forall K, 0 < K -> exists m, 0 <= m < 1 /\ K < / sqrt (1 - m²).
Proof. exact chord_alone_ill_conditioned. Qed.

(* Robustness of the chord branch against errors in the unit vectors (everything downstream exact): component
   errors up to eta move the chord length by at most 2 sqrt(3) eta, hence the result by at most
   20.01 * 2 sqrt(3) * eta below the source's threshold; with eta = 2^-50 (4 ulp of 1) that is within the
   statement's 1e-11 degree. *)
Theorem C08_chord_length_perturbed : forall eta u v u' v', 0 <= eta -> close eta u u' -> close eta v v' ->
  Rabs (norm3 (vsub u' v') - norm3 (vsub u v)) <= 2 * sqrt 3 * eta.
Proof. exact chord_length_perturbed. Qed.

Theorem C08_chord_branch_robust : forall eta u v u' v', 0 <= eta -> close eta u u' -> close eta v v' ->
  nsq (vsub u v) <= sphdist_thr -> nsq (vsub u' v') <= sphdist_thr ->
  Rabs (2 * asin (/ 2 * norm3 (vsub u' v')) - 2 * asin (/ 2 * norm3 (vsub u v))) <= 2001 / 100 * (2 * sqrt 3 * eta).
Proof. exact chord_branch_robust. Qed.

Theorem C08_chord_branch_robust_4ulp : forall u v u' v', close (/ 2 ^ 50) u u' -> close (/ 2 ^ 50) v v' ->
  nsq (vsub u v) <= sphdist_thr -> nsq (vsub u' v') <= sphdist_thr ->
  Rabs (2 * asin (/ 2 * norm3 (vsub u' v')) - 2 * asin (/ 2 * norm3 (vsub u v))) <= tol_in Rad 1e-11.
Proof. exact chord_branch_robust_4ulp. Qed.

(* The two functions compute the same quantity (sphdist with units deg -> rad and gcirc). *)
Theorem C08_functions_agree : forall ra1 dec1 ra2 dec2,
  sphdist_code Deg Rad ra1 dec1 ra2 dec2 = gcirc_code ra1 dec1 ra2 dec2
  /\ sphdist_src Deg Rad ra1 dec1 ra2 dec2 = gcirc_src ra1 dec1 ra2 dec2.
Proof. exact functions_agree_thm. Qed.

(* Non-vacuity: a quarter turn along the equator is 90 degrees in the model as coded (chord
   branch), the antipode is 180 degrees (cross-product branch: |u-v|^2 = 4 >= threshold), and a
   pair of distinct inputs has a non-zero separation. *)
Example C08_nonvacuous :
  sphdist_code Deg Deg 0 0 90 0 = 90 /\ sphdist_code Deg Deg 0 0 180 0 = 180
  /\ gcirc_code 0 0 90 0 = PI / 2 /\ sphdist_code Deg Deg 0 0 90 0 <> 0.
Proof.
  assert (A : true_sep Deg 0 0 90 0 = PI / 2).
  { unfold true_sep, to_rad, d2r, angle, point, dot.
    replace (90 * (PI / 180)) with (PI / 2) by field. replace (0 * (PI / 180)) with 0 by field.
    rewrite cos_PI2, sin_PI2, cos_0, sin_0.
    replace (1 * 1 * (1 * 0) + 1 * 0 * (1 * 1) + 0 * 0) with 0 by ring. apply acos_0. }
  assert (B : true_sep Deg 0 0 180 0 = PI).
  { unfold true_sep, to_rad, d2r, angle, point, dot.
    replace (180 * (PI / 180)) with PI by (field; apply PI_neq0). replace (0 * (PI / 180)) with 0 by field.
    rewrite cos_PI, sin_PI, cos_0, sin_0.
    replace (1 * 1 * (1 * -1) + 1 * 0 * (1 * 0) + 0 * 0) with (Ropp 1) by ring.
    rewrite acos_opp, acos_1. ring. }
  assert (C : sphdist_code Deg Deg 0 0 90 0 = 90).
  { rewrite sphdist_code_exact, A. unfold from_rad, r2d. field. apply PI_neq0. }
  split; [exact C|]. split.
  - rewrite sphdist_code_exact, B. unfold from_rad, r2d. field. apply PI_neq0.
  - split; [rewrite gcirc_code_exact; exact A | rewrite C; lra].
Qed.

(* ===================================================================================================== *)
(* Proof-deepening round                                                                                  *)
(* ===================================================================================================== *)

(* --- the array layer: what the element-wise reading of Src.v takes for granted, proved on lists --- *)

(* `if np.any(w): d[w] = f(x[:, w])` (selection by a boolean mask, values computed on the selected columns only,
   stored back through the same mask) is the element-wise conditional, for every f, mask, columns and target *)
Theorem C08_masked_store_elementwise : forall (A B : Type) (f : A -> B) (w : list bool) (xs : list A) (d : list B),
  length w = length xs -> length w = length d ->
  (if existsb (fun b => b) w then scatter w d (map f (compress w xs)) else d) = cond3 f w xs d.
Proof. exact (fun A B => @guarded_masked_store A B). Qed.

(* sphdist and gcirc written at list level with these primitives (both masked stores of sphdist, the unit
   conversion, clip, the exact-zero store) equal the element-wise reading of the source mapped over the pairs;
   one output per pair *)
Theorem C08_array_is_elementwise :
  (forall uin uout p, sphdist_vec uin uout p = map (fun q : pair4 => let '(a, b, c, d) := q in sphdist_src uin uout a b c d) p)
  /\ (forall p, gcirc_vec p = map (fun q : pair4 => let '(a, b, c, d) := q in gcirc_src a b c d) p)
  /\ (forall uin uout p, length (sphdist_vec uin uout p) = length p /\ length (gcirc_vec p) = length p).
Proof. exact array_is_elementwise_thm. Qed.

(* "the same for scalar and array inputs": element i of any array call, the length-1 call and the scalar value agree *)
Theorem C08_scalar_is_array : forall uin uout a b c d p i, nth_error p i = Some (a, b, c, d) ->
  nth_error (sphdist_vec uin uout p) i = Some (sphdist_src uin uout a b c d)
  /\ nth_error (gcirc_vec p) i = Some (gcirc_src a b c d)
  /\ sphdist_vec uin uout [(a, b, c, d)] = [sphdist_src uin uout a b c d].
Proof. exact scalar_is_array. Qed.

(* a scalar first point broadcast against arrays for the second point *)
Theorem C08_broadcast_first_point : forall uin uout a b l,
  sphdist_vec uin uout (bcast_first a b l) = map (fun cd => sphdist_src uin uout a b (fst cd) (snd cd)) l.
Proof. exact sphdist_vec_bcast. Qed.

(* history: the model of a call is a function of the call's own arguments; a process state of ANY type is carried
   along unchanged and never read, so the answer is the same after any history and in any state *)
Theorem C08_history_irrelevant :
  (forall (S : Type) (st : S) cs, run S st cs = (st, map answer cs))
  /\ (forall (S : Type) (st st' : S) before c,
        nth_error (snd (run S st (before ++ [c]))) (length before) = Some (answer c) /\ snd (run S st' [c]) = [answer c]).
Proof. exact history_thm. Qed.

(* --- conditional rounding theorems: IF numpy/libm meet the stated error budgets THEN the result is within the
       statement's tolerance.  Every computed quantity is any real within its budget of the exact function of the
       computed quantities it was obtained from. --- *)

Theorem C08_sin_cos_lipschitz :
  (forall a b, Rabs (sin a - sin b) <= Rabs (a - b)) /\ (forall a b, Rabs (cos a - cos b) <= Rabs (a - b)).
Proof. exact lipschitz_thm. Qed.

(* np.deg2rad(x) = fl(x * fl(pi/180)) *)
Theorem C08_deg2rad_rounding : forall x dc dm uu, 0 <= uu <= / 4 -> Rabs dc <= uu -> Rabs dm <= uu ->
  Rabs (x * (PI / 180 * (1 + dc)) * (1 + dm) - d2r x) <= Rabs (d2r x) * (2 * uu + uu * uu).
Proof. exact d2r_rounding. Qed.

(* the unit vector: argument errors a_th, a_ph; libm sin/cos within s; products within relative e *)
Theorem C08_vector_stage : forall th ph th' ph' cth sth cph sph dx dy a_th a_ph s e,
  0 <= a_th -> 0 <= a_ph -> 0 <= s -> 0 <= e ->
  Rabs (th' - th) <= a_th -> Rabs (ph' - ph) <= a_ph ->
  Rabs (cth - cos th') <= s -> Rabs (sth - sin th') <= s -> Rabs (cph - cos ph') <= s -> Rabs (sph - sin ph') <= s ->
  Rabs dx <= e -> Rabs dy <= e ->
  close (eta_of a_th a_ph s e) (point th ph) (cth * cph * (1 + dx), sth * cph * (1 + dy), sph).
Proof. exact vector_stage. Qed.

(* the chain differences - squares - sum - sqrt with relative error e per operation: relative error (1+e)^4 - 1 *)
Theorem C08_chain_stage : forall (u' v' : vec3) d11 d12 d21 d22 d31 d32 d4 d5 d6 e,
  0 <= e <= / 2 ->
  Rabs d11 <= e -> Rabs d12 <= e -> Rabs d21 <= e -> Rabs d22 <= e -> Rabs d31 <= e -> Rabs d32 <= e ->
  Rabs d4 <= e -> Rabs d5 <= e -> Rabs d6 <= e ->
  let '(x1, y1, z1) := u' in let '(x2, y2, z2) := v' in
  let t1 := ((x1 - x2) * (1 + d11)) * ((x1 - x2) * (1 + d11)) * (1 + d12) in
  let t2 := ((y1 - y2) * (1 + d21)) * ((y1 - y2) * (1 + d21)) * (1 + d22) in
  let t3 := ((z1 - z2) * (1 + d31)) * ((z1 - z2) * (1 + d31)) * (1 + d32) in
  let dsq := ((t1 + t2) * (1 + d4) + t3) * (1 + d5) in
  let d' := sqrt dsq * (1 + d6) in
  0 <= dsq /\ 0 <= d' /\ Rabs (d' - norm3 (vsub u' v')) <= ((1 + e) * (1 + e) * (1 + e) * (1 + e) - 1) * norm3 (vsub u' v').
Proof. exact chain_stage. Qed.

(* chord branch, parametric in the budgets *)
Theorem C08_chord_branch_rounding : forall eta rho tau u v u' v' d' a',
  0 <= eta -> 0 <= rho -> is_unit u -> is_unit v -> close eta u u' -> close eta v v' ->
  Rabs (d' - norm3 (vsub u' v')) <= rho * norm3 (vsub u' v') ->
  0 <= d' -> d' * d' <= T_room -> nsq (vsub u v) <= T_room ->
  Rabs (a' - asin (/ 2 * d')) <= tau ->
  Rabs (2 * a' - angle u v) <= chord_bound eta rho tau.
Proof. exact chord_branch_rounding. Qed.

(* the room used above covers the branch decision of the source: computed chord^2 below the threshold literal and a
   chord-length error below 1e-5 put the exact chord^2 below T_room *)
Theorem C08_chord_room : sphdist_thr <= T_room
  /\ (forall d d', 0 <= d -> 0 <= d' -> d' * d' <= sphdist_thr -> Rabs (d - d') <= / 100000 -> d * d <= T_room).
Proof. exact (conj thr_below_room exact_below_room). Qed.

(* degrees out: one more constant and product *)
Theorem C08_degrees_out : forall r R E eps, Rabs (r - R) <= E -> 0 <= R <= PI -> 0 <= E ->
  Rabs (r * (180 / PI) * (1 + eps) - r2d R) <= 180 / PI * (E * (1 + Rabs eps)) + 180 * Rabs eps.
Proof. exact degrees_out. Qed.

(* cross-product branch, parametric and with binary64 budgets: within 1e-12 degree *)
Theorem C08_cross_branch_rounding : forall eta kappa rho tau eps_pi e u v u' v' c' s' a' pif dl,
  0 <= eta -> 0 <= kappa -> 0 <= rho -> 0 <= tau -> 0 <= eps_pi -> 0 <= e <= / 2 ->
  is_unit u -> is_unit v -> close eta u u' -> close eta v v' ->
  3989 / 1000 <= nsq (vsub u v) ->
  close kappa (cross u' v') c' ->
  Rabs (s' - norm3 c') <= rho * norm3 c' -> 0 <= s' <= 11 / 100 -> norm3 c' <= 12 / 100 ->
  Rabs (a' - asin s') <= tau -> Rabs (pif - PI) <= eps_pi -> Rabs dl <= e -> Rabs a' <= 1 / 2 ->
  Rabs ((pif - a') * (1 + dl) - angle u v) <= cross_bound eta kappa rho tau eps_pi e.
Proof. exact cross_branch_rounding. Qed.

(* gcirc: forward error of cosdis, clipping never hurts, sharp conditioning of acos.  A worst-case analysis cannot
   reach the statement's 2e-6 degree (sharper partial): with binary64 budgets 7e-6 degree for ALL inputs *)
Theorem C08_gcirc_rounding : forall sg r e tau s1 c1 s2 c2 cr S1 C1 S2 C2 CR d1 d2 d3 d4 a',
  0 <= sg -> 0 <= r -> 0 <= e -> 0 <= tau ->
  Rabs s1 <= 1 -> Rabs c1 <= 1 -> Rabs s2 <= 1 -> Rabs c2 <= 1 -> Rabs cr <= 1 ->
  -1 <= s1 * s2 + c1 * c2 * cr <= 1 ->
  Rabs (S1 - s1) <= sg -> Rabs (C1 - c1) <= sg -> Rabs (S2 - s2) <= sg -> Rabs (C2 - c2) <= sg -> Rabs (CR - cr) <= r ->
  Rabs d1 <= e -> Rabs d2 <= e -> Rabs d3 <= e -> Rabs d4 <= e ->
  cosdis_budget sg r e <= 2 ->
  let cosdis' := (S1 * S2 * (1 + d1) + C1 * C2 * (1 + d2) * CR * (1 + d3)) * (1 + d4) in
  Rabs (a' - acos (clip (-1) 1 cosdis')) <= tau ->
  Rabs (a' - acos (s1 * s2 + c1 * c2 * cr)) <= tau + 2 * asin (sqrt (cosdis_budget sg r e / 2)).
Proof. exact gcirc_rounding. Qed.

(* The three conditional theorems instantiated with binary64 budgets (u = 2^-53; longitudes within one turn: argument
   errors 12.57 u / 3.15 u; libm within 1 ulp; one rounding per arithmetic operation), stated together because they
   share the numeric facts closed by Interval.  The three statements are spelled out in Examples.v:
     chord_branch_binary64_stmt :  ... -> Rabs (2 * a' - angle (point th1 ph1) (point th2 ph2)) <= tol_in Rad 1e-11
     cross_branch_binary64_stmt :  ... -> Rabs ((pif - a') * (1 + dl) - angle u v) <= tol_in Rad 1e-12
     gcirc_binary64_stmt        :  4 u + 2 asin (sqrt (cosdis_budget ... / 2)) <= tol_in Rad 7e-6
   i.e. the chord branch meets the statement's 1e-11 degree, the cross-product branch 1e-12 degree, and the worst-case
   bound for gcirc is 7e-6 degree (the statement's 2e-6 is not reachable by a worst-case analysis: sharper partial). *)
Theorem C08_rounding_binary64 : chord_branch_binary64_stmt /\ cross_branch_binary64_stmt /\ gcirc_binary64_stmt.
Proof. exact rounding_binary64_thm. Qed.

(* The chord branch of sphdist from DEGREES TO DEGREES, assembled from the stage theorems: |ra| <= 360, |dec| <= 90;
   every numpy operation rounds once (|delta| <= u = 2^-53: the four deg2rad products m1..m4 with the rounded constant
   dc, the products dx, dy of the vector components, the nine operations d11..d6 of differences-squares-sum-sqrt, the
   rad2deg constant dk and product dr); libm's cos / sin values within u of cos / sin of the COMPUTED arguments, np.arcsin
   within 2u; the code's test `dsq >= 3.99` false on the COMPUTED dsq.  Then the number returned is within the
   statement's 1e-11 degree of the model, i.e. of the true great-circle angle in degrees. *)
Theorem C08_sphdist_chord_degrees_binary64 :
  forall ra1 dec1 ra2 dec2 dc m1 m2 m3 m4 c1 s1 cp1 sp1 c2 s2 cp2 sp2 dx1 dy1 dx2 dy2
         d11 d12 d21 d22 d31 d32 d4 d5 d6 a' dk dr,
  Rabs ra1 <= 360 -> Rabs ra2 <= 360 -> Rabs dec1 <= 90 -> Rabs dec2 <= 90 ->
  Rabs dc <= u64 -> Rabs m1 <= u64 -> Rabs m2 <= u64 -> Rabs m3 <= u64 -> Rabs m4 <= u64 ->
  let th1' := fl_d2r ra1 dc m1 in let ph1' := fl_d2r dec1 dc m2 in
  let th2' := fl_d2r ra2 dc m3 in let ph2' := fl_d2r dec2 dc m4 in
  Rabs (c1 - cos th1') <= u64 -> Rabs (s1 - sin th1') <= u64 -> Rabs (cp1 - cos ph1') <= u64 -> Rabs (sp1 - sin ph1') <= u64 ->
  Rabs (c2 - cos th2') <= u64 -> Rabs (s2 - sin th2') <= u64 -> Rabs (cp2 - cos ph2') <= u64 -> Rabs (sp2 - sin ph2') <= u64 ->
  Rabs dx1 <= u64 -> Rabs dy1 <= u64 -> Rabs dx2 <= u64 -> Rabs dy2 <= u64 ->
  Rabs d11 <= u64 -> Rabs d12 <= u64 -> Rabs d21 <= u64 -> Rabs d22 <= u64 -> Rabs d31 <= u64 -> Rabs d32 <= u64 ->
  Rabs d4 <= u64 -> Rabs d5 <= u64 -> Rabs d6 <= u64 ->
  let u' := fl_vec c1 s1 cp1 sp1 dx1 dy1 in let v' := fl_vec c2 s2 cp2 sp2 dx2 dy2 in
  let dsq := fl_dsq u' v' d11 d12 d21 d22 d31 d32 d4 d5 in
  let d' := sqrt dsq * (1 + d6) in
  dsq < sphdist_thr ->
  Rabs (a' - asin (/ 2 * d')) <= 2 * u64 ->
  Rabs dk <= u64 -> Rabs dr <= u64 ->
  Rabs (2 * a' * (180 / PI * (1 + dk)) * (1 + dr) - sphdist_code Deg Deg ra1 dec1 ra2 dec2) <= 1 / 10 ^ 11.
Proof. exact sphdist_chord_degrees_binary64. Qed.

(* --- round 6: tighter tie.  GenMeta.v (statement sequences and keyword defaults read from esutil/coords.py NOW) and
       GenNp.v (constants of the numpy that runs the check) are regenerated on every run; these lemmas are re-checked --- *)
Theorem C08_skeleton_tie :
  thetaphi2xyz_skel = thetaphi2xyz_skel_model /\ eq2xyz_skel = eq2xyz_skel_model
  /\ sphdist_skel = sphdist_skel_model /\ gcirc_skel = gcirc_skel_model.
Proof. exact skeleton_tie. Qed.

Theorem C08_defaults_tie :
  sphdist_units_default = sphdist_units_default_model /\ eq2xyz_units_default = eq2xyz_units_default_model
  /\ eq2xyz_dtype_is_f8 = eq2xyz_dtype_is_f8_model /\ eq2xyz_stomp_default = eq2xyz_stomp_default_model
  /\ gcirc_getangle_default = gcirc_getangle_default_model.
Proof. exact defaults_tie. Qed.

Theorem C08_numpy_constants_tie :
  PrimFloat.Leibniz.eqb np_deg2rad_1 d2r_c = true /\ PrimFloat.Leibniz.eqb np_rad2deg_1 r2d_c = true
  /\ PrimFloat.Leibniz.eqb np_pi pi_f = true.
Proof. exact numpy_constants_tie. Qed.

(* the exact-rational checkers are complete as well as sound: they reject only outputs that violate the checked Prop *)
Theorem C08_checkers_complete :
  (forall uout q, range_check uout q = true <-> 0 <= Q2R q <= match uout with Deg => 180 | Rad => Q2R pi_lo end)
  /\ (forall a b, same_check a b = true <-> Q2R a = Q2R b)
  /\ (forall a, zero_check a = true <-> Q2R a = 0)
  /\ (forall tol a b, close_check tol a b = true <-> Rabs (Q2R a - Q2R b) <= Q2R tol)
  /\ (forall a b c d, ident_inputs a b c d = true <-> Q2R a = Q2R c /\ Q2R b = Q2R d).
Proof. exact checkers_complete_thm. Qed.

(* non-vacuity of the new theorems: concrete, non-trivial instances satisfying every hypothesis *)
Example C08_chord_branch_binary64_nonvacuous :
  let d' := norm3 (vsub (point 0 0) (point (PI / 2) 0)) in
  Rabs (2 * asin (/ 2 * d') - angle (point 0 0) (point (PI / 2) 0)) <= tol_in Rad 1e-11.
Proof. exact chord_branch_binary64_instance. Qed.

Example C08_cross_branch_binary64_nonvacuous :
  Rabs ((PI - asin 0) * (1 + 0) - angle (point 0 0) (point PI 0)) <= tol_in Rad 1e-12.
Proof. exact cross_branch_binary64_instance. Qed.

Example C08_gcirc_rounding_nonvacuous :
  Rabs (acos (clip (-1) 1 ((0 * 0 * (1 + 0) + 1 * 1 * (1 + 0) * 0 * (1 + 0)) * (1 + 0))) - acos (0 * 0 + 1 * 1 * 0))
  <= tol_in Rad 7e-6.
Proof. exact gcirc_rounding_instance. Qed.

Example C08_array_layer_nonvacuous :
  sphdist_vec Deg Deg [(0, 0, 90, 0); (0, 0, 180, 0); (5, 5, 5, 5)]
  = [sphdist_code Deg Deg 0 0 90 0; sphdist_code Deg Deg 0 0 180 0; 0]
  /\ length (gcirc_vec [(0, 0, 90, 0); (0, 0, 180, 0)]) = 2%nat.
Proof. exact array_layer_instance. Qed.

Example C08_sphdist_chord_degrees_nonvacuous :
  Rabs (2 * asin (/ 2 * (sqrt 2 * (1 + 0))) * (180 / PI * (1 + 0)) * (1 + 0) - sphdist_code Deg Deg 0 0 90 0) <= 1 / 10 ^ 11.
Proof. exact sphdist_chord_degrees_instance. Qed.

(* C08 -- model (style R, DESIGN 3.3) of esutil/coords.py: eq2xyz / _thetaphi2xyz (455-504),
   sphdist (540-581) and gcirc (584-623), formula for formula, over Coq's real numbers.
   One element of the (vectorised) numpy computation is modelled; the array layer (scalar,
   length-1, length-n inputs give the same element values) is checked on the implementation
   by the harness.  No proofs in this file.

   Real PI stands for the code's float constants: np.deg2rad multiplies by the binary64 value
   of pi/180, np.rad2deg by that of 180/pi, the large-angle branch uses np.pi.  The difference
   (<= 1.3e-16 relative) is part of the rounding gap that the per-case certificates measure. *)
From Coq Require Import Reals.
Open Scope R_scope.

Inductive unit_t := Deg | Rad.

Definition d2r (x : R) : R := x * (PI / 180).        (* np.deg2rad *)
Definition r2d (x : R) : R := x * (180 / PI).        (* np.rad2deg *)
Definition to_rad (u : unit_t) (x : R) : R := match u with Deg => d2r x | Rad => x end.
Definition from_rad (u : unit_t) (x : R) : R := match u with Deg => r2d x | Rad => x end.

Definition vec3 : Type := (R * R * R)%type.

(* _thetaphi2xyz *)
Definition thetaphi2xyz (theta phi : R) : vec3 :=
  (cos theta * cos phi, sin theta * cos phi, sin phi).

(* eq2xyz(ra, dec, units=u), stomp=False *)
Definition eq2xyz (u : unit_t) (ra dec : R) : vec3 := thetaphi2xyz (to_rad u ra) (to_rad u dec).

(* (ra1 == ra2) & (dec1 == dec2) *)
Definition same_point (ra1 dec1 ra2 dec2 : R) : bool :=
  (if Req_EM_T ra1 ra2 then true else false) && (if Req_EM_T dec1 dec2 then true else false).

(* sphdist(ra1, dec1, ra2, dec2, units=[uin, uout]);  thr is the literal of `dsq >= 3.99` *)
Definition sphdist_R (thr : R) (uin uout : unit_t) (ra1 dec1 ra2 dec2 : R) : R :=
  let '(x1, y1, z1) := eq2xyz uin ra1 dec1 in
  let '(x2, y2, z2) := eq2xyz uin ra2 dec2 in
  let dsq := (x1 - x2) ^ 2 + (y1 - y2) ^ 2 + (z1 - z2) ^ 2 in
  let dis :=
    if Rle_dec thr dsq then                              (* w = dsq >= thr *)
      let c0 := y1 * z2 - z1 * y2 in                     (* np.cross *)
      let c1 := z1 * x2 - x1 * z2 in
      let c2 := x1 * y2 - y1 * x2 in
      let crosssq := c0 ^ 2 + c1 ^ 2 + c2 ^ 2 in
      PI - asin (sqrt crosssq)
    else 2 * asin (/ 2 * sqrt dsq) in
  let dis := from_rad uout dis in
  if same_point ra1 dec1 ra2 dec2 then 0 else dis.       (* dis[w] = 0.0 *)

(* ndarray.clip(lo, hi) = minimum(maximum(x, lo), hi) *)
Definition clip (lo hi x : R) : R := Rmin (Rmax x lo) hi.

(* gcirc(ra1deg, dec1deg, ra2deg, dec2deg), getangle=False: degrees in, radians out *)
Definition gcirc_R (lo hi : R) (ra1deg dec1deg ra2deg dec2deg : R) : R :=
  let ra1 := d2r ra1deg in
  let dec1 := d2r dec1deg in
  let ra2 := d2r ra2deg in
  let dec2 := d2r dec2deg in
  let sindec1 := sin dec1 in
  let cosdec1 := cos dec1 in
  let sindec2 := sin dec2 in
  let cosdec2 := cos dec2 in
  let radiff := ra2 - ra1 in
  let cosradiff := cos radiff in
  let cosdis := sindec1 * sindec2 + cosdec1 * cosdec2 * cosradiff in
  let dis := acos (clip lo hi cosdis) in
  if same_point ra1 dec1 ra2 dec2 then 0 else dis.

(* C08 -- proofs over the reals: both branches of sphdist and the law of cosines of gcirc equal
   the great-circle angle; range, symmetry, zero, periodicity; certificate forms used by the
   per-case interval lemmas; soundness of the rational checkers. *)
From Coq Require Import Reals Lra QArith Qreals Qabs Bool List.
From Interval Require Import Tactic.
From EsVerif.C08 Require Import Model Spec.
Open Scope R_scope.

(* ------------------------------------------------------------------------- *)
(* scalar trigonometry                                                        *)
(* ------------------------------------------------------------------------- *)

Lemma acos_ge_half_pi c : -1 <= c <= 0 -> PI / 2 <= acos c.
Proof.
  intros Hc. destruct (Rle_lt_dec (PI / 2) (acos c)) as [H|H]; [exact H|exfalso].
  pose proof (acos_bound c) as [B0 B1].
  assert (0 < cos (acos c)) as P by (apply cos_gt_0; lra).
  rewrite cos_acos in P; lra.
Qed.

(* chord form: 2 asin(|u-v|/2) with |u-v|^2 = 2 - 2c *)
Lemma chord_scalar c : -1 <= c <= 1 -> 2 * asin (/ 2 * sqrt (2 - 2 * c)) = acos c.
Proof.
  intros Hc. pose proof (acos_bound c) as [B0 B1].
  set (h := acos c / 2).
  assert (Hh : 0 <= h <= PI / 2) by (unfold h; lra).
  assert (S0 : 0 <= sin h) by (apply sin_ge_0; lra).
  assert (E : 2 - 2 * c = (2 * sin h) * (2 * sin h)).
  { assert (Ec : cos (2 * h) = c).
    { unfold h. replace (2 * (acos c / 2)) with (acos c) by field. apply cos_acos; exact Hc. }
    rewrite <- Ec, cos_2a_sin. ring. }
  rewrite E, sqrt_square by lra.
  replace (/ 2 * (2 * sin h)) with (sin h) by field.
  rewrite asin_sin by lra. unfold h. field.
Qed.

(* cross-product form: PI - asin |u x v| with |u x v|^2 = 1 - c^2, valid for c <= 0 *)
Lemma cross_scalar c : -1 <= c <= 0 -> PI - asin (sqrt (1 - c * c)) = acos c.
Proof.
  intros Hc. pose proof (acos_bound c) as [B0 B1].
  pose proof (acos_ge_half_pi c Hc) as B2.
  replace (1 - c * c) with (1 - Rsqr c) by (unfold Rsqr; ring).
  rewrite <- sin_acos by lra.
  rewrite <- (sin_PI_x (acos c)).
  rewrite asin_sin by lra. ring.
Qed.

(* half-angle tangent forms (used by the certificates: Interval knows atan, not asin/acos) *)
Lemma acos_atan_small c : -1 < c <= 1 -> acos c = 2 * atan (sqrt (2 - 2 * c) / sqrt (2 + 2 * c)).
Proof.
  intros Hc. rewrite <- (chord_scalar c) by lra. f_equal.
  set (x := / 2 * sqrt (2 - 2 * c)).
  assert (Sx : 0 <= sqrt (2 - 2 * c)) by apply sqrt_pos.
  assert (X2 : Rsqr x = (2 - 2 * c) / 4).
  { unfold x, Rsqr. replace (/ 2 * sqrt (2 - 2 * c) * (/ 2 * sqrt (2 - 2 * c)))
      with (sqrt (2 - 2 * c) * sqrt (2 - 2 * c) / 4) by field. rewrite sqrt_sqrt by lra. reflexivity. }
  assert (Hx : -1 < x < 1).
  { split; [unfold x; lra|]. apply Rsqr_incrst_0; [|unfold x; lra|lra].
    rewrite X2. unfold Rsqr. lra. }
  rewrite (asin_atan x Hx). f_equal. rewrite X2.
  replace (1 - (2 - 2 * c) / 4) with ((2 + 2 * c) / 4) by field.
  replace ((2 + 2 * c) / 4) with ((2 + 2 * c) * / (2 * 2)) by field.
  rewrite sqrt_mult_alt by lra.
  replace (/ (2 * 2)) with (Rsqr (/ 2)) by (unfold Rsqr; field).
  rewrite sqrt_Rsqr by lra.
  assert (0 < sqrt (2 + 2 * c)) by (apply sqrt_lt_R0; lra).
  unfold x. field. lra.
Qed.

Lemma acos_atan_large c : -1 <= c < 1 -> acos c = PI - 2 * atan (sqrt (2 + 2 * c) / sqrt (2 - 2 * c)).
Proof.
  intros Hc. replace c with (- (- c)) at 1 by ring. rewrite acos_opp.
  rewrite (acos_atan_small (- c)) by lra.
  replace (2 - 2 * - c) with (2 + 2 * c) by ring. replace (2 + 2 * - c) with (2 - 2 * c) by ring.
  reflexivity.
Qed.

Lemma acos_eq_0 c : -1 <= c <= 1 -> acos c = 0 -> c = 1.
Proof. intros Hc E. rewrite <- (cos_acos c Hc), E. apply cos_0. Qed.

(* ------------------------------------------------------------------------- *)
(* unit vectors                                                               *)
(* ------------------------------------------------------------------------- *)

Definition vsub (u v : vec3) : vec3 :=
  let '(x1, y1, z1) := u in let '(x2, y2, z2) := v in (x1 - x2, y1 - y2, z1 - z2).
Definition vadd (u v : vec3) : vec3 :=
  let '(x1, y1, z1) := u in let '(x2, y2, z2) := v in (x1 + x2, y1 + y2, z1 + z2).
Definition cross (u v : vec3) : vec3 :=
  let '(x1, y1, z1) := u in let '(x2, y2, z2) := v in
  (y1 * z2 - z1 * y2, z1 * x2 - x1 * z2, x1 * y2 - y1 * x2).
Definition nsq (u : vec3) : R := dot u u.

Lemma nsq_nonneg u : 0 <= nsq u.
Proof. destruct u as [[x y] z]. unfold nsq, dot. nra. Qed.

Lemma nsq_sub u v : is_unit u -> is_unit v -> nsq (vsub u v) = 2 - 2 * dot u v.
Proof.
  destruct u as [[x1 y1] z1], v as [[x2 y2] z2]. unfold is_unit, nsq, vsub, dot. intros U V. nra.
Qed.

Lemma nsq_add u v : is_unit u -> is_unit v -> nsq (vadd u v) = 2 + 2 * dot u v.
Proof.
  destruct u as [[x1 y1] z1], v as [[x2 y2] z2]. unfold is_unit, nsq, vadd, dot. intros U V. nra.
Qed.

(* Lagrange's identity *)
Lemma nsq_cross u v : is_unit u -> is_unit v -> nsq (cross u v) = 1 - dot u v * dot u v.
Proof.
  destruct u as [[x1 y1] z1], v as [[x2 y2] z2]. unfold is_unit, nsq, cross, dot. intros U V.
  replace 1 with ((x1 * x1 + y1 * y1 + z1 * z1) * (x2 * x2 + y2 * y2 + z2 * z2)) by (rewrite U, V; ring).
  ring.
Qed.

Lemma dot_bound u v : is_unit u -> is_unit v -> -1 <= dot u v <= 1.
Proof.
  intros U V. pose proof (nsq_nonneg (vsub u v)) as A. pose proof (nsq_nonneg (vadd u v)) as B.
  rewrite nsq_sub in A by assumption. rewrite nsq_add in B by assumption. lra.
Qed.

Lemma dot_comm u v : dot u v = dot v u.
Proof. destruct u as [[x1 y1] z1], v as [[x2 y2] z2]. unfold dot. ring. Qed.

Lemma chord_is_angle u v : is_unit u -> is_unit v ->
  2 * asin (/ 2 * sqrt (nsq (vsub u v))) = angle u v.
Proof. intros U V. rewrite nsq_sub by assumption. apply chord_scalar, dot_bound; assumption. Qed.

Lemma cross_is_angle u v : is_unit u -> is_unit v -> dot u v <= 0 ->
  PI - asin (sqrt (nsq (cross u v))) = angle u v.
Proof.
  intros U V D. rewrite nsq_cross by assumption. apply cross_scalar.
  pose proof (dot_bound u v U V). lra.
Qed.

Lemma sq3_zero a b c : a * a + b * b + c * c = 0 -> a = 0 /\ b = 0 /\ c = 0.
Proof.
  intro H. pose proof (Rle_0_sqr a) as A. pose proof (Rle_0_sqr b) as B. pose proof (Rle_0_sqr c) as C.
  unfold Rsqr in *. repeat split; apply Rsqr_0_uniq; unfold Rsqr; lra.
Qed.

Lemma angle_zero_iff u v : is_unit u -> is_unit v -> (angle u v = 0 <-> u = v).
Proof.
  intros U V. split.
  - intro E. apply acos_eq_0 in E; [|apply dot_bound; assumption].
    pose proof (nsq_sub u v U V) as N. rewrite E in N.
    destruct u as [[x1 y1] z1], v as [[x2 y2] z2]. unfold nsq, vsub, dot in N.
    destruct (sq3_zero (x1 - x2) (y1 - y2) (z1 - z2)) as [A [B C]]; [lra|].
    assert (x1 = x2) by lra. assert (y1 = y2) by lra. assert (z1 = z2) by lra. congruence.
  - intros <-. unfold angle. rewrite U. apply acos_1.
Qed.

(* ------------------------------------------------------------------------- *)
(* the code's vectors are the points of the sphere                            *)
(* ------------------------------------------------------------------------- *)

Lemma point_unit lon lat : is_unit (point lon lat).
Proof.
  unfold is_unit, point, dot.
  pose proof (sin2_cos2 lon) as A. pose proof (sin2_cos2 lat) as B. unfold Rsqr in A, B. nra.
Qed.

Lemma eq2xyz_point u ra dec : eq2xyz u ra dec = point (to_rad u ra) (to_rad u dec).
Proof.
  unfold eq2xyz, thetaphi2xyz, point.
  rewrite (Rmult_comm (cos (to_rad u ra))), (Rmult_comm (sin (to_rad u ra))). reflexivity.
Qed.

Lemma from_rad_0 u : from_rad u 0 = 0.
Proof. destruct u; unfold from_rad, r2d; ring. Qed.

Lemma same_point_true a b c d : same_point a b c d = true -> a = c /\ b = d.
Proof.
  unfold same_point. destruct (Req_EM_T a c), (Req_EM_T b d); simpl; intro; try discriminate. split; assumption.
Qed.

Lemma true_sep_same u ra dec : true_sep u ra dec ra dec = 0.
Proof. unfold true_sep. apply angle_zero_iff; try apply point_unit. reflexivity. Qed.

(* sphdist, as coded, returns the great-circle angle: in both branches, whatever the threshold
   constant is, provided the cross-product branch is only entered for angles >= 90 degrees *)
Lemma sphdist_exact thr uin uout ra1 dec1 ra2 dec2 : 2 <= thr ->
  sphdist_R thr uin uout ra1 dec1 ra2 dec2 = from_rad uout (true_sep uin ra1 dec1 ra2 dec2).
Proof.
  intro Hthr. unfold sphdist_R, true_sep. rewrite !eq2xyz_point.
  set (u := point (to_rad uin ra1) (to_rad uin dec1)). set (v := point (to_rad uin ra2) (to_rad uin dec2)).
  assert (U : is_unit u) by apply point_unit. assert (V : is_unit v) by apply point_unit.
  destruct (same_point ra1 dec1 ra2 dec2) eqn:S.
  - apply same_point_true in S as [-> ->].
    assert (angle u v = 0) as -> by (apply angle_zero_iff; auto).
    destruct u as [[x1 y1] z1], v as [[x2 y2] z2]. symmetry; apply from_rad_0.
  - pose proof (chord_is_angle u v U V) as C. pose proof (cross_is_angle u v U V) as X.
    pose proof (nsq_sub u v U V) as N.
    destruct u as [[x1 y1] z1], v as [[x2 y2] z2].
    unfold nsq, vsub, cross, dot in C, X, N.
    replace ((x1 - x2) ^ 2 + (y1 - y2) ^ 2 + (z1 - z2) ^ 2)
      with ((x1 - x2) * (x1 - x2) + (y1 - y2) * (y1 - y2) + (z1 - z2) * (z1 - z2)) by ring.
    destruct (Rle_dec thr _) as [L|L].
    + f_equal. rewrite <- X; [|unfold dot; lra]. do 3 f_equal. ring.
    + f_equal. exact C.
Qed.

(* gcirc, as coded (law of cosines, clipping), returns the great-circle angle in radians *)
Lemma gcirc_exact lo hi ra1 dec1 ra2 dec2 : lo <= -1 -> 1 <= hi ->
  gcirc_R lo hi ra1 dec1 ra2 dec2 = true_sep Deg ra1 dec1 ra2 dec2.
Proof.
  intros Hlo Hhi. unfold gcirc_R, true_sep, to_rad.
  set (u := point (d2r ra1) (d2r dec1)). set (v := point (d2r ra2) (d2r dec2)).
  assert (U : is_unit u) by apply point_unit. assert (V : is_unit v) by apply point_unit.
  destruct (same_point _ _ _ _) eqn:S.
  - apply same_point_true in S as [E1 E2]. symmetry. apply angle_zero_iff; auto.
    unfold u, v. rewrite E1, E2. reflexivity.
  - unfold angle. f_equal.
    assert (D : sin (d2r dec1) * sin (d2r dec2) + cos (d2r dec1) * cos (d2r dec2) * cos (d2r ra2 - d2r ra1)
                = dot u v) by (unfold u, v, point, dot; rewrite cos_minus; ring).
    rewrite D. pose proof (dot_bound u v U V) as [B0 B1].
    unfold clip. rewrite Rmax_left by lra. apply Rmin_left. lra.
Qed.

(* ------------------------------------------------------------------------- *)
(* range, symmetry, zero, periodicity                                         *)
(* ------------------------------------------------------------------------- *)

Lemma true_sep_range u ra1 dec1 ra2 dec2 : 0 <= true_sep u ra1 dec1 ra2 dec2 <= PI.
Proof. apply acos_bound. Qed.

Lemma r2d_range x : 0 <= x <= PI -> 0 <= r2d x <= 180.
Proof.
  intros [A B]. unfold r2d. pose proof PI_RGT_0 as P.
  assert (0 < 180 / PI) by (apply Rdiv_lt_0_compat; lra).
  split; [nra|]. replace 180 with (PI * (180 / PI)) at 2 by (field; lra). nra.
Qed.

Lemma sphdist_range_deg thr uin ra1 dec1 ra2 dec2 : 2 <= thr ->
  0 <= sphdist_R thr uin Deg ra1 dec1 ra2 dec2 <= 180.
Proof. intro H. rewrite sphdist_exact by exact H. apply r2d_range, true_sep_range. Qed.

Lemma sphdist_range_rad thr uin ra1 dec1 ra2 dec2 : 2 <= thr ->
  0 <= sphdist_R thr uin Rad ra1 dec1 ra2 dec2 <= PI.
Proof. intro H. rewrite sphdist_exact by exact H. apply true_sep_range. Qed.

Lemma true_sep_sym u ra1 dec1 ra2 dec2 : true_sep u ra1 dec1 ra2 dec2 = true_sep u ra2 dec2 ra1 dec1.
Proof. unfold true_sep, angle. rewrite dot_comm. reflexivity. Qed.

Lemma r2d_eq_0 x : r2d x = 0 -> x = 0.
Proof.
  unfold r2d. pose proof PI_RGT_0 as P. intro E.
  assert (0 < 180 / PI) by (apply Rdiv_lt_0_compat; lra). nra.
Qed.

Lemma from_rad_eq_0 u x : from_rad u x = 0 <-> x = 0.
Proof. split; [destruct u; [apply r2d_eq_0|auto] | intros ->; apply from_rad_0]. Qed.

Lemma sphdist_zero_iff thr uin uout ra1 dec1 ra2 dec2 : 2 <= thr ->
  (sphdist_R thr uin uout ra1 dec1 ra2 dec2 = 0 <->
   point (to_rad uin ra1) (to_rad uin dec1) = point (to_rad uin ra2) (to_rad uin dec2)).
Proof.
  intro H. rewrite sphdist_exact by exact H. rewrite from_rad_eq_0. unfold true_sep.
  apply angle_zero_iff; apply point_unit.
Qed.

Lemma point_period lon lat : point (lon + 2 * PI) lat = point lon lat.
Proof.
  unfold point. rewrite cos_plus, sin_plus, cos_2PI, sin_2PI.
  replace (cos lon * 1 - sin lon * 0) with (cos lon) by ring.
  replace (sin lon * 1 + cos lon * 0) with (sin lon) by ring. reflexivity.
Qed.

Lemma to_rad_turn u x : to_rad u (x + match u with Deg => 360 | Rad => 2 * PI end) = to_rad u x + 2 * PI.
Proof. destruct u; unfold to_rad, d2r; [field; apply PI_neq0 | ring]. Qed.

Lemma true_sep_period u ra1 dec1 ra2 dec2 :
  true_sep u (ra1 + match u with Deg => 360 | Rad => 2 * PI end) dec1 ra2 dec2 = true_sep u ra1 dec1 ra2 dec2.
Proof. unfold true_sep. rewrite to_rad_turn, point_period. reflexivity. Qed.

(* ------------------------------------------------------------------------- *)
(* certificate forms: what the generated per-case lemmas reduce to            *)
(* ------------------------------------------------------------------------- *)

Definition cx (u : unit_t) (ra dec : R) : R := cos (to_rad u dec) * cos (to_rad u ra).
Definition cy (u : unit_t) (ra dec : R) : R := cos (to_rad u dec) * sin (to_rad u ra).
Definition cz (u : unit_t) (dec : R) : R := sin (to_rad u dec).

(* |u - v|^2 and |u + v|^2 of the two points *)
Definition dminus (u : unit_t) (ra1 dec1 ra2 dec2 : R) : R :=
  (cx u ra1 dec1 - cx u ra2 dec2) ^ 2 + (cy u ra1 dec1 - cy u ra2 dec2) ^ 2 + (cz u dec1 - cz u dec2) ^ 2.
Definition dplus (u : unit_t) (ra1 dec1 ra2 dec2 : R) : R :=
  (cx u ra1 dec1 + cx u ra2 dec2) ^ 2 + (cy u ra1 dec1 + cy u ra2 dec2) ^ 2 + (cz u dec1 + cz u dec2) ^ 2.

(* half-angle forms, well conditioned for interval evaluation near 0 (small) and near PI (large) *)
Definition sep_small (u : unit_t) (ra1 dec1 ra2 dec2 : R) : R :=
  2 * atan (sqrt (dminus u ra1 dec1 ra2 dec2) / sqrt (dplus u ra1 dec1 ra2 dec2)).
Definition sep_large (u : unit_t) (ra1 dec1 ra2 dec2 : R) : R :=
  PI - 2 * atan (sqrt (dplus u ra1 dec1 ra2 dec2) / sqrt (dminus u ra1 dec1 ra2 dec2)).

Lemma dminus_eq u ra1 dec1 ra2 dec2 :
  dminus u ra1 dec1 ra2 dec2 = 2 - 2 * dot (point (to_rad u ra1) (to_rad u dec1)) (point (to_rad u ra2) (to_rad u dec2)).
Proof.
  rewrite <- nsq_sub by apply point_unit. unfold dminus, cx, cy, cz, nsq, vsub, point, dot. ring.
Qed.

Lemma dplus_eq u ra1 dec1 ra2 dec2 :
  dplus u ra1 dec1 ra2 dec2 = 2 + 2 * dot (point (to_rad u ra1) (to_rad u dec1)) (point (to_rad u ra2) (to_rad u dec2)).
Proof.
  rewrite <- nsq_add by apply point_unit. unfold dplus, cx, cy, cz, nsq, vadd, point, dot. ring.
Qed.

Lemma true_sep_small u ra1 dec1 ra2 dec2 : 0 < dplus u ra1 dec1 ra2 dec2 ->
  true_sep u ra1 dec1 ra2 dec2 = sep_small u ra1 dec1 ra2 dec2.
Proof.
  intro P. unfold sep_small. rewrite dminus_eq. rewrite dplus_eq in *. unfold true_sep, angle.
  set (c := dot _ _) in *. assert (-1 <= c <= 1) by (apply dot_bound; apply point_unit).
  apply acos_atan_small. lra.
Qed.

Lemma true_sep_large u ra1 dec1 ra2 dec2 : 0 < dminus u ra1 dec1 ra2 dec2 ->
  true_sep u ra1 dec1 ra2 dec2 = sep_large u ra1 dec1 ra2 dec2.
Proof.
  intro P. unfold sep_large. rewrite dplus_eq. rewrite dminus_eq in *. unfold true_sep, angle.
  set (c := dot _ _) in *. assert (-1 <= c <= 1) by (apply dot_bound; apply point_unit).
  apply acos_atan_large. lra.
Qed.

(* ------------------------------------------------------------------------- *)
(* rational checkers                                                          *)
(* ------------------------------------------------------------------------- *)

Lemma pi_lo_lt_PI : Q2R pi_lo < PI.
Proof. unfold pi_lo, Q2R; simpl. interval with (i_prec 80). Qed.

Lemma PI_lt_pi_hi : PI < Q2R pi_hi.
Proof. unfold pi_hi, Q2R; simpl. interval with (i_prec 80). Qed.

Lemma Q2R_0 : Q2R 0 = 0.
Proof. unfold Q2R; simpl. field. Qed.

Lemma range_check_sound uout q : range_check uout q = true ->
  0 <= Q2R q <= match uout with Deg => 180 | Rad => PI end.
Proof.
  unfold range_check. intro H. apply andb_true_iff in H as [A B].
  apply Qle_bool_iff, Qle_Rle in A. apply Qle_bool_iff, Qle_Rle in B. rewrite Q2R_0 in A.
  split; [exact A|]. destruct uout.
  - replace 180 with (Q2R 180) by (unfold Q2R; simpl; field). exact B.
  - pose proof pi_lo_lt_PI. lra.
Qed.

Lemma same_check_sound a b : same_check a b = true -> Q2R a = Q2R b.
Proof. intro H. apply Qeq_bool_iff in H. apply Qeq_eqR. exact H. Qed.

Lemma zero_check_sound a : zero_check a = true -> Q2R a = 0.
Proof. intro H. apply Qeq_bool_iff, Qeq_eqR in H. rewrite H. apply Q2R_0. Qed.

Lemma close_check_sound tol a b : close_check tol a b = true -> Rabs (Q2R a - Q2R b) <= Q2R tol.
Proof.
  unfold close_check. intro H. apply Qle_bool_iff in H. apply Qle_Rle in H.
  rewrite <- Q2R_minus. revert H. generalize (a - b)%Q. intros d H.
  apply Rabs_le. pose proof (Qabs_Qle_condition d tol) as [C _].
  destruct (C (Rle_Qle _ _ H)) as [L U]. apply Qle_Rle in L, U. rewrite Q2R_opp in L. lra.
Qed.

Lemma outs_ok_sound uout pts outs : outs_ok uout pts outs = true -> Forall2 (out_spec uout) pts outs.
Proof.
  revert outs. induction pts as [|p ps IH]; intros [|o os] H; simpl in H; try discriminate; constructor.
  - apply andb_true_iff in H as [H _]. unfold out_ok in H. apply andb_true_iff in H as [A B].
    split; [destruct uout; apply (range_check_sound _ _ A)|].
    intro I. rewrite I in B. apply zero_check_sound; exact B.
  - apply IH. apply andb_true_iff in H as [_ H]. exact H.
Qed.

Lemma all2_sound (f : Q -> Q -> bool) (P : Q -> Q -> Prop) :
  (forall x y, f x y = true -> P x y) -> forall a b, all2 f a b = true -> Forall2 P a b.
Proof.
  intros HP a. induction a as [|x a IH]; intros [|y b] H; simpl in H; try discriminate; constructor.
  - apply HP. apply andb_true_iff in H as [H _]. exact H.
  - apply IH. apply andb_true_iff in H as [_ H]. exact H.
Qed.

Lemma all_same_sound a b : all_same a b = true -> Forall2 (fun x y => Q2R x = Q2R y) a b.
Proof. apply all2_sound. exact same_check_sound. Qed.

Lemma all_close_sound tol a b : all_close tol a b = true -> Forall2 (fun x y => Rabs (Q2R x - Q2R y) <= Q2R tol) a b.
Proof. apply all2_sound. apply close_check_sound. Qed.

(* why the +360 comparison uses twice the tolerance: two outputs within tol of one true value *)
Lemma shift_triangle t a b tol : Rabs (a - t) <= tol -> Rabs (b - t) <= tol -> Rabs (a - b) <= 2 * tol.
Proof.
  intros A B. replace (a - b) with ((a - t) + - (b - t)) by ring.
  eapply Rle_trans; [apply Rabs_triang|]. rewrite Rabs_Ropp. lra.
Qed.

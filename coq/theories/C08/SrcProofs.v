(* C08 -- the functions translated from the source (Src.v, regenerated on every run) are the
   hand-written model (Model.v) with the constants of Gen.v; hence every theorem about the model is a
   theorem about the element-wise reading of the source text.  These proofs are re-checked whenever
   Src.v changes; they fail (and the check reports it) when a formula of the source changes. *)
From Coq Require Import Reals Bool Lra.
From EsVerif.C08 Require Import Gen Model Spec Proofs Code SrcLib Src.
Open Scope R_scope.

Lemma thetaphi2xyz_src_eq theta phi : thetaphi2xyz_src theta phi = thetaphi2xyz theta phi.
Proof. reflexivity. Qed.

Lemma eq2xyz_src_eq u ra dec : eq2xyz_src u ra dec = eq2xyz u ra dec.
Proof. destruct u; reflexivity. Qed.

Lemma sphdist_src_eq uin uout ra1 dec1 ra2 dec2 :
  sphdist_src uin uout ra1 dec1 ra2 dec2 = sphdist_code uin uout ra1 dec1 ra2 dec2.
Proof.
  unfold sphdist_src, sphdist_code, sphdist_R. cbv zeta.
  rewrite eq2xyz_src_eq. destruct (eq2xyz uin ra1 dec1) as [[x1 y1] z1].
  rewrite eq2xyz_src_eq. destruct (eq2xyz uin ra2 dec2) as [[x2 y2] z2].
  unfold Rgeb, same_point, Reqb, sphdist_thr, from_rad, cross3, vx, vy, vz. cbn [fst snd].
  destruct (Rle_dec _ _); destruct uout; destruct (Req_EM_T ra1 ra2); destruct (Req_EM_T dec1 dec2); reflexivity.
Qed.

Lemma gcirc_src_eq ra1 dec1 ra2 dec2 : gcirc_src ra1 dec1 ra2 dec2 = gcirc_code ra1 dec1 ra2 dec2.
Proof.
  unfold gcirc_src, gcirc_code, gcirc_R, same_point, Reqb, gcirc_clip_lo, gcirc_clip_hi. cbv zeta.
  destruct (Req_EM_T (d2r ra1) (d2r ra2)); destruct (Req_EM_T (d2r dec1) (d2r dec2)); reflexivity.
Qed.

Lemma sphdist_src_exact uin uout ra1 dec1 ra2 dec2 :
  sphdist_src uin uout ra1 dec1 ra2 dec2 = from_rad uout (true_sep uin ra1 dec1 ra2 dec2).
Proof. rewrite sphdist_src_eq. apply sphdist_code_exact. Qed.

Lemma gcirc_src_exact ra1 dec1 ra2 dec2 : gcirc_src ra1 dec1 ra2 dec2 = true_sep Deg ra1 dec1 ra2 dec2.
Proof. rewrite gcirc_src_eq. apply gcirc_code_exact. Qed.

(* the vectors of the source are unit vectors: what the chord / cross-product formulas rely on *)
Lemma eq2xyz_src_unit u ra dec : is_unit (eq2xyz_src u ra dec).
Proof. rewrite eq2xyz_src_eq, eq2xyz_point. apply point_unit. Qed.

(* per-case certificates stated against the translated source: the property for the sampled pair,
   and its consequence that the real code's output is within the tolerance of the element-wise
   reading of its own source text *)
Definition sphdist_src_cert (uin uout : unit_t) (tol ra1 dec1 ra2 dec2 out : R) : Prop :=
  sep_ok uin uout tol ra1 dec1 ra2 dec2 out
  /\ Rabs (sphdist_src uin uout ra1 dec1 ra2 dec2 - out) <= tol_in uout tol.

Definition gcirc_src_cert (tol ra1 dec1 ra2 dec2 out : R) : Prop :=
  sep_ok Deg Rad tol ra1 dec1 ra2 dec2 out
  /\ Rabs (gcirc_src ra1 dec1 ra2 dec2 - out) <= tol_in Rad tol.

Lemma sphdist_src_cert_intro uin uout tol ra1 dec1 ra2 dec2 out :
  sep_ok uin uout tol ra1 dec1 ra2 dec2 out -> sphdist_src_cert uin uout tol ra1 dec1 ra2 dec2 out.
Proof. intro H. split; [exact H | rewrite sphdist_src_eq; apply sphdist_model_close; exact H]. Qed.

Lemma gcirc_src_cert_intro tol ra1 dec1 ra2 dec2 out :
  sep_ok Deg Rad tol ra1 dec1 ra2 dec2 out -> gcirc_src_cert tol ra1 dec1 ra2 dec2 out.
Proof. intro H. split; [exact H | rewrite gcirc_src_eq; apply gcirc_model_close; exact H]. Qed.

(* C08 -- the exact-rational checkers are COMPLETE as well as sound wherever the checked Prop is a comparison of
   rationals: they reject only outputs that really violate it (so a VIOLATION from them is never a checker artefact).
   The radian range check compares with pi_lo, the largest binary64 below PI: complete for binary64 outputs, stated
   as: accepted iff 0 <= q <= pi_lo. *)
From Coq Require Import Reals Lra QArith Qreals Qabs Bool List.
From EsVerif.C08 Require Import Model Spec Proofs.
Open Scope R_scope.

Lemma Qle_bool_R a b : Qle_bool a b = true <-> Q2R a <= Q2R b.
Proof. rewrite Qle_bool_iff. split; [apply Qle_Rle | apply Rle_Qle]. Qed.

Lemma Qeq_bool_R a b : Qeq_bool a b = true <-> Q2R a = Q2R b.
Proof. rewrite Qeq_bool_iff. split; [apply Qeq_eqR | apply eqR_Qeq]. Qed.

Lemma Q2R_180 : Q2R 180 = 180.
Proof. unfold Q2R; simpl. field. Qed.

Lemma range_check_complete uout q :
  range_check uout q = true <-> 0 <= Q2R q <= match uout with Deg => 180 | Rad => Q2R pi_lo end.
Proof.
  unfold range_check. rewrite andb_true_iff, !Qle_bool_R, Q2R_0.
  destruct uout; [rewrite Q2R_180|]; tauto.
Qed.

Lemma same_check_complete a b : same_check a b = true <-> Q2R a = Q2R b.
Proof. apply Qeq_bool_R. Qed.

Lemma zero_check_complete a : zero_check a = true <-> Q2R a = 0.
Proof. unfold zero_check. rewrite Qeq_bool_R, Q2R_0. tauto. Qed.

Lemma abs_le_inv' x a : Rabs x <= a -> - a <= x <= a.
Proof. intro H. unfold Rabs in H. destruct (Rcase_abs x); lra. Qed.

Lemma close_check_complete tol a b : close_check tol a b = true <-> Rabs (Q2R a - Q2R b) <= Q2R tol.
Proof.
  split; [apply close_check_sound|]. intro H. unfold close_check. apply Qle_bool_iff.
  rewrite <- Q2R_minus in H. revert H. generalize (a - b)%Q. intros d H.
  apply Qabs_Qle_condition. apply abs_le_inv' in H. destruct H as [L U].
  split; apply Rle_Qle; [rewrite Q2R_opp; exact L | exact U].
Qed.

Lemma ident_inputs_complete a b c d : ident_inputs a b c d = true <-> Q2R a = Q2R c /\ Q2R b = Q2R d.
Proof. unfold ident_inputs. rewrite andb_true_iff, !Qeq_bool_R. tauto. Qed.

Lemma checkers_complete_thm :
  (forall uout q, range_check uout q = true <-> 0 <= Q2R q <= match uout with Deg => 180 | Rad => Q2R pi_lo end)
  /\ (forall a b, same_check a b = true <-> Q2R a = Q2R b)
  /\ (forall a, zero_check a = true <-> Q2R a = 0)
  /\ (forall tol a b, close_check tol a b = true <-> Rabs (Q2R a - Q2R b) <= Q2R tol)
  /\ (forall a b c d, ident_inputs a b c d = true <-> Q2R a = Q2R c /\ Q2R b = Q2R d).
Proof.
  split; [exact range_check_complete|]. split; [exact same_check_complete|]. split; [exact zero_check_complete|].
  split; [exact close_check_complete | exact ident_inputs_complete].
Qed.

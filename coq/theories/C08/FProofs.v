(* C08 -- facts about the binary64 reading of the source that hold for ALL floats and ALL libm
   oracles: identical inputs give exactly +0 (the override is the last statement), independent of
   any rounding. *)
From Coq Require Import Bool PrimFloat.
From EsVerif.C08 Require Import Model SrcLibF SrcF.
Open Scope float_scope.

Lemma eqb_self x : is_nan x = false -> PrimFloat.eqb x x = true.
Proof. unfold is_nan. intro H. apply negb_false_iff in H. exact H. Qed.

Lemma sphdist_f_identical O uin uout ra dec :
  is_nan ra = false -> is_nan dec = false -> sphdist_f O uin uout ra dec ra dec = 0.
Proof.
  intros A B. unfold sphdist_f. cbv zeta.
  destruct (eq2xyz_f O uin ra dec) as [[x y] z].
  rewrite (eqb_self ra A), (eqb_self dec B). reflexivity.
Qed.

Lemma gcirc_f_identical O ra dec :
  is_nan (d2r_f ra) = false -> is_nan (d2r_f dec) = false -> gcirc_f O ra dec ra dec = 0.
Proof.
  intros A B. unfold gcirc_f. cbv zeta. rewrite (eqb_self _ A), (eqb_self _ B). reflexivity.
Qed.

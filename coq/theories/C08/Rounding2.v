(* C08 -- conditional rounding theorem for the cross-product branch of sphdist (|u-v|^2 >= 3.99), in the style of
   Rounding.v: eta = error of the unit-vector components, kappa = absolute error of the computed cross-product
   components (each is fl(fl(ab) - fl(cd)): absolute, not relative, because of cancellation), rho = relative error of
   the chain squares-sum-sqrt, tau = absolute error of libm's arcsin value, eps_pi = |np.pi - PI|, dl = rounding of the
   final subtraction.  With binary64 budgets the result is within 1e-13 degree of the true angle: this branch is two
   orders of magnitude better conditioned than the chord branch is at the threshold. *)
From Coq Require Import Reals Lra.
From Interval Require Import Tactic.
From EsVerif.C08 Require Import Gen Model Spec Proofs Cond2 Cond3 Rounding.
Open Scope R_scope.

Lemma cross_bilinear u v u' v' :
  vsub (cross u' v') (cross u v) = vadd (cross (vsub u' u) v') (cross u (vsub v' v)).
Proof.
  destruct u as [[x1 y1] z1], v as [[x2 y2] z2], u' as [[a1 b1] c1], v' as [[a2 b2] c2].
  unfold vsub, vadd, cross. f_equal; [f_equal|]; ring.
Qed.

Lemma nsq_cross_le a b : nsq (cross a b) <= nsq a * nsq b.
Proof.
  destruct a as [[x1 y1] z1], b as [[x2 y2] z2]. unfold nsq, cross, dot.
  replace ((x1 * x1 + y1 * y1 + z1 * z1) * (x2 * x2 + y2 * y2 + z2 * z2))
    with ((y1 * z2 - z1 * y2) * (y1 * z2 - z1 * y2) + (z1 * x2 - x1 * z2) * (z1 * x2 - x1 * z2)
          + (x1 * y2 - y1 * x2) * (x1 * y2 - y1 * x2) + Rsqr (x1 * x2 + y1 * y2 + z1 * z2)) by (unfold Rsqr; ring).
  pose proof (Rle_0_sqr (x1 * x2 + y1 * y2 + z1 * z2)). lra.
Qed.

Lemma norm3_cross_le a b : norm3 (cross a b) <= norm3 a * norm3 b.
Proof.
  unfold norm3. rewrite <- sqrt_mult_alt by apply nsq_nonneg. apply sqrt_le_1_alt, nsq_cross_le.
Qed.

Lemma close_norm eta u u' : 0 <= eta -> close eta u u' -> norm3 (vsub u' u) <= sqrt 3 * eta.
Proof.
  intros He C. destruct u as [[x y] z], u' as [[x' y'] z']. unfold close in C. destruct C as [C1 [C2 C3]].
  apply abs_le_inv in C1, C2, C3. unfold norm3, nsq, vsub, dot.
  replace (sqrt 3 * eta) with (sqrt (3 * (eta * eta))) by (rewrite sqrt_mult_alt by lra; rewrite sqrt_square by lra; reflexivity).
  apply sqrt_le_1_alt. nra.
Qed.

Lemma unit_norm u : is_unit u -> norm3 u = 1.
Proof. intro U. unfold norm3, nsq. rewrite U. apply sqrt_1. Qed.

Lemma cross_norm_perturbed eta u v u' v' : 0 <= eta -> is_unit u -> is_unit v -> close eta u u' -> close eta v v' ->
  Rabs (norm3 (cross u' v') - norm3 (cross u v)) <= sqrt 3 * eta * (2 + sqrt 3 * eta).
Proof.
  intros He U V Cu Cv. eapply Rle_trans; [apply norm3_reverse|]. rewrite cross_bilinear.
  eapply Rle_trans; [apply norm3_triangle|].
  pose proof (norm3_cross_le (vsub u' u) v') as A. pose proof (norm3_cross_le u (vsub v' v)) as B.
  pose proof (close_norm eta u u' He Cu) as Nu. pose proof (close_norm eta v v' He Cv) as Nv.
  pose proof (norm3_triangle v (vsub v' v)) as Tv. rewrite vadd_vsub in Tv.
  rewrite (unit_norm u U) in B. rewrite (unit_norm v V) in Tv.
  pose proof (norm3_nonneg (vsub u' u)) as N1. pose proof (norm3_nonneg (vsub v' v)) as N2. pose proof (norm3_nonneg v') as N3.
  assert (S3 : 0 <= sqrt 3) by apply sqrt_pos. set (w := sqrt 3 * eta) in *. assert (W0 : 0 <= w) by (apply Rmult_le_pos; assumption).
  assert (A' : norm3 (cross (vsub u' u) v') <= w * (1 + w)).
  { eapply Rle_trans; [exact A|]. apply Rmult_le_compat; lra. }
  replace (w * (2 + w)) with (w * (1 + w) + w) by ring. lra.
Qed.

(* the branch with a little room below the threshold of the source *)
Lemma cross_small_room u v : is_unit u -> is_unit v -> 3989 / 1000 <= nsq (vsub u v) ->
  dot u v <= 0 /\ norm3 (cross u v) <= 11 / 100.
Proof.
  intros U V H. rewrite nsq_sub in H by assumption. pose proof (dot_bound u v U V). split; [lra|].
  unfold norm3. rewrite nsq_cross by assumption.
  replace (11 / 100) with (sqrt (11 / 100 * (11 / 100))) by (apply sqrt_square; lra). apply sqrt_le_1_alt. nra.
Qed.

Lemma cross_conditioning_room s s' : 0 <= s <= 11 / 100 -> 0 <= s' <= 11 / 100 ->
  Rabs (asin s - asin s') <= 1007 / 1000 * Rabs (s - s').
Proof.
  intros Hs Hs'.
  pose proof (asin_lipschitz (11 / 100) s s' ltac:(lra) ltac:(lra) ltac:(lra)) as L.
  assert (S : 1000 / 1007 <= sqrt (1 - (11 / 100)²)) by (unfold Rsqr; apply sqrt_lower; lra).
  assert (0 <= Rabs (s - s')) by apply Rabs_pos.
  assert (Q : Rabs (s - s') / sqrt (1 - (11 / 100)²) <= Rabs (s - s') * (1007 / 1000)).
  { unfold Rdiv at 1. apply Rmult_le_compat_l; [lra|]. replace (1007 / 1000) with (/ (1000 / 1007)) by field.
    apply Rinv_le_contravar; lra. }
  lra.
Qed.

Definition cross_bound (eta kappa rho tau eps_pi e : R) : R :=
  e * (4 + eps_pi + 1 / 2) + (eps_pi + tau + 1007 / 1000 * (sqrt 3 * eta * (2 + sqrt 3 * eta) + sqrt 3 * kappa + rho * (12 / 100))).

Lemma cross_branch_rounding eta kappa rho tau eps_pi e u v u' v' c' s' a' pif dl :
  0 <= eta -> 0 <= kappa -> 0 <= rho -> 0 <= tau -> 0 <= eps_pi -> 0 <= e <= / 2 ->
  is_unit u -> is_unit v -> close eta u u' -> close eta v v' ->
  3989 / 1000 <= nsq (vsub u v) ->                                     (* cross branch (with room) *)
  close kappa (cross u' v') c' ->                                      (* computed cross product *)
  Rabs (s' - norm3 c') <= rho * norm3 c' -> 0 <= s' <= 11 / 100 -> norm3 c' <= 12 / 100 ->
  Rabs (a' - asin s') <= tau -> Rabs (pif - PI) <= eps_pi -> Rabs dl <= e -> Rabs a' <= 1 / 2 ->
  Rabs ((pif - a') * (1 + dl) - angle u v) <= cross_bound eta kappa rho tau eps_pi e.
Proof.
  intros He Hk Hr Ht Hp Hee U V Cu Cv Br Cc Hs Hs1 Hc1 Ha Hpi Hdl Ha1. unfold cross_bound.
  destruct (cross_small_room u v U V Br) as [D0 S1].
  rewrite <- (cross_is_angle u v U V D0). fold (norm3 (cross u v)). set (S := norm3 (cross u v)) in *.
  pose proof (norm3_nonneg (cross u v)) as S0. fold S in S0.
  pose proof (cross_norm_perturbed eta u v u' v' He U V Cu Cv) as P1. fold S in P1.
  pose proof (close_norm kappa (cross u' v') c' Hk Cc) as P2.
  pose proof (norm3_reverse (cross u' v') c') as P3.
  assert (E : Rabs (s' - S) <= sqrt 3 * eta * (2 + sqrt 3 * eta) + sqrt 3 * kappa + rho * (12 / 100)).
  { replace (s' - S) with ((s' - norm3 c') + ((norm3 c' - norm3 (cross u' v')) + (norm3 (cross u' v') - S))) by ring.
    eapply Rle_trans; [apply Rabs_triang|]. eapply Rle_trans; [apply Rplus_le_compat_l, Rabs_triang|].
    assert (rho * norm3 c' <= rho * (12 / 100)) by (apply Rmult_le_compat_l; lra). lra. }
  pose proof (cross_conditioning_room s' S Hs1 ltac:(lra)) as C.
  pose proof PI_RGT_0 as Pp. assert (P4 : PI <= 4) by apply PI_4.
  assert (C2 : Rabs (asin s' - asin S) <= 1007 / 1000 * (sqrt 3 * eta * (2 + sqrt 3 * eta) + sqrt 3 * kappa + rho * (12 / 100))).
  { eapply Rle_trans; [exact C|]. apply Rmult_le_compat_l; [lra | exact E]. }
  apply abs_le_inv in Ha, Hpi, Hdl, Ha1, C2.
  assert (M : Rabs (pif - a') <= 4 + eps_pi + 1 / 2) by (apply Rabs_le; lra).
  replace ((pif - a') * (1 + dl) - (PI - asin S)) with ((pif - PI) - (a' - asin s') - (asin s' - asin S) + (pif - a') * dl) by ring.
  apply abs_le_inv in M.
  assert (X : Rabs ((pif - a') * dl) <= e * (4 + eps_pi + 1 / 2)).
  { rewrite Rabs_mult. assert (Rabs (pif - a') <= 4 + eps_pi + 1 / 2) by (apply Rabs_le; lra).
    assert (Rabs dl <= e) by (apply Rabs_le; lra). pose proof (Rabs_pos dl). pose proof (Rabs_pos (pif - a')). nra. }
  apply abs_le_inv in X. apply Rabs_le. split; lra.
Qed.

(* binary64 budgets: eta as in Rounding.v; kappa = 5u (two products of numbers <= 1+eta in modulus, one
   subtraction); rho = (1+u)^4 - 1; tau = u; eps_pi = 2u (|np.pi - PI| = 1.22e-16); e = u *)
Lemma cross_binary64_budget :
  cross_bound (eta_of (1257 / 100 * u64) (315 / 100 * u64) u64 u64) (5 * u64) rho64 u64 (2 * u64) u64 <= tol_in Rad 1e-12.
Proof. unfold cross_bound, eta_of, rho64, u64, tol_in. interval with (i_prec 80). Qed.

Lemma cross_branch_binary64 u v u' v' c' s' a' pif dl :
  is_unit u -> is_unit v ->
  close (eta_of (1257 / 100 * u64) (315 / 100 * u64) u64 u64) u u' ->
  close (eta_of (1257 / 100 * u64) (315 / 100 * u64) u64 u64) v v' ->
  3989 / 1000 <= nsq (vsub u v) ->
  close (5 * u64) (cross u' v') c' ->
  Rabs (s' - norm3 c') <= rho64 * norm3 c' -> 0 <= s' <= 11 / 100 -> norm3 c' <= 12 / 100 ->
  Rabs (a' - asin s') <= u64 -> Rabs (pif - PI) <= 2 * u64 -> Rabs dl <= u64 -> Rabs a' <= 1 / 2 ->
  Rabs ((pif - a') * (1 + dl) - angle u v) <= tol_in Rad 1e-12.
Proof.
  intros. assert (U0 : 0 < u64 < / 1000) by (unfold u64; split; interval).
  eapply Rle_trans; [|apply cross_binary64_budget].
  apply (cross_branch_rounding _ _ _ _ _ _ u v u' v' c' s' a' pif dl); try assumption; try lra.
  - unfold eta_of. nra.
  - unfold rho64. nra.
Qed.

(* C08 -- the chord branch of sphdist from degrees to degrees, assembled from the stage theorems: every numpy
   operation rounds once (relative error <= u = 2^-53), the constants pi/180 and 180/pi are rounded once, libm's
   sin / cos / arcsin are within 1 ulp (<= u for values in [-1,1], <= 2u for arcsin values), |ra| <= 360, |dec| <= 90,
   and the code's test `dsq >= 3.99` is false on the COMPUTED dsq.  Then the returned number is within the
   statement's 1e-11 degree of the model (= the true great-circle angle in degrees). *)
From Coq Require Import Reals Lra.
From Interval Require Import Tactic.
From EsVerif.C08 Require Import Gen Model Spec Proofs Code Cond2 Cond3 Rounding.
Open Scope R_scope.

Definition fl_d2r (x dc dm : R) : R := x * (PI / 180 * (1 + dc)) * (1 + dm).
Definition fl_vec (c s cp sp dx dy : R) : vec3 := (c * cp * (1 + dx), s * cp * (1 + dy), sp).
Definition fl_dsq (u' v' : vec3) (d11 d12 d21 d22 d31 d32 d4 d5 : R) : R :=
  let '(x1, y1, z1) := u' in let '(x2, y2, z2) := v' in
  let t1 := ((x1 - x2) * (1 + d11)) * ((x1 - x2) * (1 + d11)) * (1 + d12) in
  let t2 := ((y1 - y2) * (1 + d21)) * ((y1 - y2) * (1 + d21)) * (1 + d22) in
  let t3 := ((z1 - z2) * (1 + d31)) * ((z1 - z2) * (1 + d31)) * (1 + d32) in
  ((t1 + t2) * (1 + d4) + t3) * (1 + d5).

Lemma arg_budget x lim b : Rabs x <= lim -> 0 <= lim -> lim * (PI / 180) * (2 * u64 + u64 * u64) <= b ->
  forall dc dm, Rabs dc <= u64 -> Rabs dm <= u64 -> Rabs (fl_d2r x dc dm - d2r x) <= b.
Proof.
  intros Hx Hl Hb dc dm Hc Hm. assert (U : 0 <= u64 <= / 4) by (unfold u64; split; interval).
  eapply Rle_trans; [apply (d2r_rounding x dc dm u64 U Hc Hm)|]. eapply Rle_trans; [|exact Hb].
  apply Rmult_le_compat_r; [nra|]. unfold d2r. rewrite Rabs_mult. pose proof PI_RGT_0.
  rewrite (Rabs_right (PI / 180)) by (apply Rle_ge; apply Rmult_le_pos; lra).
  apply Rmult_le_compat_r; [apply Rmult_le_pos; lra | exact Hx].
Qed.

Lemma lon_budget : 360 * (PI / 180) * (2 * u64 + u64 * u64) <= 1257 / 100 * u64.
Proof. unfold u64. interval with (i_prec 80). Qed.
Lemma lat_budget : 90 * (PI / 180) * (2 * u64 + u64 * u64) <= 315 / 100 * u64.
Proof. unfold u64. interval with (i_prec 80). Qed.

(* total error of the computed chord length (the estimate inside chord_branch_rounding, exported) *)
Lemma chord_len_err eta rho u v u' v' d' : 0 <= eta -> 0 <= rho -> is_unit u -> is_unit v ->
  close eta u u' -> close eta v v' -> Rabs (d' - norm3 (vsub u' v')) <= rho * norm3 (vsub u' v') ->
  Rabs (d' - norm3 (vsub u v)) <= 2 * sqrt 3 * eta + rho * (2 + 2 * sqrt 3 * eta).
Proof.
  intros He Hr U V Cu Cv Hd. set (d := norm3 (vsub u v)). set (dh := norm3 (vsub u' v')) in *.
  pose proof (chord_length_perturbed eta u v u' v' He Cu Cv) as P. fold d dh in P.
  pose proof (unit_chord_le_2 u v U V) as D2. fold d in D2.
  assert (S3 : 0 <= sqrt 3) by apply sqrt_pos. apply abs_le_inv in P.
  assert (Hdh : dh <= 2 + 2 * sqrt 3 * eta) by nra.
  replace (d' - d) with ((d' - dh) + (dh - d)) by ring. eapply Rle_trans; [apply Rabs_triang|].
  assert (Rabs (dh - d) <= 2 * sqrt 3 * eta) by (apply Rabs_le; lra).
  assert (0 <= dh) by apply norm3_nonneg.
  assert (rho * dh <= rho * (2 + 2 * sqrt 3 * eta)) by (apply Rmult_le_compat_l; lra). lra.
Qed.

Lemma below_room2 d d' : 0 <= d -> 0 <= d' -> d' * d' <= 39900001 / 10000000 -> Rabs (d - d') <= / 100000 ->
  d * d <= T_room /\ d' * d' <= T_room.
Proof.
  unfold T_room. intros D0 D0' H E. apply abs_le_inv in E. assert (d' <= 2) by nra.
  assert (d * d <= (d' + / 100000) * (d' + / 100000)) by nra. split; nra.
Qed.

Definition eta64 : R := eta_of (1257 / 100 * u64) (315 / 100 * u64) u64 u64.

Lemma budgets64 :
  0 <= eta64 /\ 0 <= rho64
  /\ 2 * sqrt 3 * eta64 + rho64 * (2 + 2 * sqrt 3 * eta64) <= / 100000
  /\ chord_bound eta64 rho64 (2 * u64) <= 164 / 10 ^ 15
  /\ sphdist_thr * ((1 + u64) * (1 + u64)) <= 39900001 / 10000000
  /\ (forall eps, Rabs eps <= 3 * u64 -> 180 / PI * (164 / 10 ^ 15 * (1 + Rabs eps)) + 180 * Rabs eps <= 1 / 10 ^ 11).
Proof.
  unfold eta64, eta_of, rho64, chord_bound, sphdist_thr, T_room, u64.
  repeat split; try interval with (i_prec 80).
  intros eps H. pose proof (Rabs_pos eps) as P. revert H P. generalize (Rabs eps). intros a H P.
  interval with (i_prec 80).
Qed.

Lemma sphdist_chord_degrees_binary64
      ra1 dec1 ra2 dec2 dc m1 m2 m3 m4 c1 s1 cp1 sp1 c2 s2 cp2 sp2 dx1 dy1 dx2 dy2
      d11 d12 d21 d22 d31 d32 d4 d5 d6 a' dk dr :
  Rabs ra1 <= 360 -> Rabs ra2 <= 360 -> Rabs dec1 <= 90 -> Rabs dec2 <= 90 ->
  Rabs dc <= u64 -> Rabs m1 <= u64 -> Rabs m2 <= u64 -> Rabs m3 <= u64 -> Rabs m4 <= u64 ->
  let th1' := fl_d2r ra1 dc m1 in let ph1' := fl_d2r dec1 dc m2 in
  let th2' := fl_d2r ra2 dc m3 in let ph2' := fl_d2r dec2 dc m4 in
  Rabs (c1 - cos th1') <= u64 -> Rabs (s1 - sin th1') <= u64 -> Rabs (cp1 - cos ph1') <= u64 -> Rabs (sp1 - sin ph1') <= u64 ->
  Rabs (c2 - cos th2') <= u64 -> Rabs (s2 - sin th2') <= u64 -> Rabs (cp2 - cos ph2') <= u64 -> Rabs (sp2 - sin ph2') <= u64 ->
  Rabs dx1 <= u64 -> Rabs dy1 <= u64 -> Rabs dx2 <= u64 -> Rabs dy2 <= u64 ->
  Rabs d11 <= u64 -> Rabs d12 <= u64 -> Rabs d21 <= u64 -> Rabs d22 <= u64 -> Rabs d31 <= u64 -> Rabs d32 <= u64 ->
  Rabs d4 <= u64 -> Rabs d5 <= u64 -> Rabs d6 <= u64 ->
  let u' := fl_vec c1 s1 cp1 sp1 dx1 dy1 in let v' := fl_vec c2 s2 cp2 sp2 dx2 dy2 in
  let dsq := fl_dsq u' v' d11 d12 d21 d22 d31 d32 d4 d5 in
  let d' := sqrt dsq * (1 + d6) in
  dsq < sphdist_thr ->                                             (* the code's `dsq >= 3.99` is False *)
  Rabs (a' - asin (/ 2 * d')) <= 2 * u64 ->                        (* np.arcsin *)
  Rabs dk <= u64 -> Rabs dr <= u64 ->                              (* np.rad2deg: constant and product *)
  Rabs (2 * a' * (180 / PI * (1 + dk)) * (1 + dr) - sphdist_code Deg Deg ra1 dec1 ra2 dec2) <= 1 / 10 ^ 11.
Proof.
  intros R1 R2 L1 L2 Hdc Hm1 Hm2 Hm3 Hm4 th1' ph1' th2' ph2' C1 S1 CP1 SP1 C2 S2 CP2 SP2 X1 Y1 X2 Y2
         D11 D12 D21 D22 D31 D32 D4 D5 D6 u' v' dsq d' Hbr Ha Hdk Hdr.
  destruct budgets64 as [E0 [Rh0 [Len [Bnd [Room Deg]]]]].
  assert (U : 0 < u64 <= / 2) by (unfold u64; split; interval).
  pose proof (arg_budget ra1 360 _ R1 ltac:(lra) lon_budget dc m1 Hdc Hm1) as A1. fold th1' in A1.
  pose proof (arg_budget dec1 90 _ L1 ltac:(lra) lat_budget dc m2 Hdc Hm2) as A2. fold ph1' in A2.
  pose proof (arg_budget ra2 360 _ R2 ltac:(lra) lon_budget dc m3 Hdc Hm3) as A3. fold th2' in A3.
  pose proof (arg_budget dec2 90 _ L2 ltac:(lra) lat_budget dc m4 Hdc Hm4) as A4. fold ph2' in A4.
  set (pu := point (d2r ra1) (d2r dec1)). set (pv := point (d2r ra2) (d2r dec2)).
  assert (Cu : close eta64 pu u').
  { unfold pu, u', fl_vec, eta64. apply (vector_stage (d2r ra1) (d2r dec1) th1' ph1' c1 s1 cp1 sp1 dx1 dy1); assumption || lra. }
  assert (Cv : close eta64 pv v').
  { unfold pv, v', fl_vec, eta64. apply (vector_stage (d2r ra2) (d2r dec2) th2' ph2' c2 s2 cp2 sp2 dx2 dy2); assumption || lra. }
  pose proof (chain_stage u' v' d11 d12 d21 d22 d31 d32 d4 d5 d6 u64 ltac:(lra) D11 D12 D21 D22 D31 D32 D4 D5 D6) as CH.
  assert (CH' : 0 <= dsq /\ 0 <= d' /\ Rabs (d' - norm3 (vsub u' v')) <= rho64 * norm3 (vsub u' v')).
  { unfold dsq, d', fl_dsq, rho64. destruct u' as [[x1 y1] z1], v' as [[x2 y2] z2]. exact CH. }
  destruct CH' as [Q0 [D0 Hd]].
  assert (U1 : is_unit pu) by apply point_unit. assert (U2 : is_unit pv) by apply point_unit.
  (* the computed chord is below the room *)
  assert (DT1 : d' * d' <= 39900001 / 10000000).
  { unfold d'. replace (sqrt dsq * (1 + d6) * (sqrt dsq * (1 + d6))) with (sqrt dsq * sqrt dsq * ((1 + d6) * (1 + d6))) by ring.
    rewrite sqrt_sqrt by exact Q0. apply abs_le_inv in D6.
    assert ((1 + d6) * (1 + d6) <= (1 + u64) * (1 + u64)) by nra. assert (0 <= (1 + d6) * (1 + d6)) by nra.
    eapply Rle_trans; [|exact Room]. apply Rmult_le_compat; lra. }
  pose proof (chord_len_err eta64 rho64 pu pv u' v' d' E0 Rh0 U1 U2 Cu Cv Hd) as LE.
  set (d := norm3 (vsub pu pv)) in *. pose proof (norm3_nonneg (vsub pu pv)) as Dn. fold d in Dn.
  assert (LE' : Rabs (d - d') <= / 100000) by (rewrite Rabs_minus_sym; lra).
  destruct (below_room2 d d' Dn D0 DT1 LE') as [DD DT].
  assert (NT : nsq (vsub pu pv) <= T_room) by (rewrite <- norm3_sq; exact DD).
  pose proof (chord_branch_rounding eta64 rho64 (2 * u64) pu pv u' v' d' a' E0 Rh0 U1 U2 Cu Cv Hd D0 DT NT Ha) as CB.
  assert (CB' : Rabs (2 * a' - angle pu pv) <= 164 / 10 ^ 15) by lra.
  (* degrees *)
  rewrite sphdist_code_exact. unfold from_rad, true_sep, to_rad. fold pu pv.
  pose proof (acos_bound (dot pu pv)) as AB. fold (angle pu pv) in AB.
  set (eps := (1 + dk) * (1 + dr) - 1).
  assert (Heps : Rabs eps <= 3 * u64).
  { unfold eps. apply abs_le_inv in Hdk, Hdr. apply Rabs_le. nra. }
  replace (2 * a' * (180 / PI * (1 + dk)) * (1 + dr)) with (2 * a' * (180 / PI) * (1 + eps)) by (unfold eps; ring).
  eapply Rle_trans; [apply (degrees_out (2 * a') (angle pu pv) (164 / 10 ^ 15) eps CB' AB); lra|].
  apply Deg. exact Heps.
Qed.

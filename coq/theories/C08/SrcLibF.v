(* C08 -- vocabulary of the generated file SrcF.v (binary64 reading of the numpy code).
   Definitions only.  + - * / sqrt and the comparisons are Coq's primitive IEEE-754 binary64
   operations; sin, cos, arcsin, arccos are oracle functions given by finite tables. *)
From Coq Require Import Bool List PrimFloat.
Import ListNotations.
Open Scope float_scope.

Definition fvec3 : Type := (float * float * float)%type.

(* the libm functions, as far as one observed call of the implementation used them *)
Record oracles : Type := { o_sin : float -> float; o_cos : float -> float;
                           o_arcsin : float -> float; o_arccos : float -> float }.

Definition table : Type := list (float * float).

(* bit-level equality of keys (0 and -0 are different arguments: sin(-0) = -0) *)
Fixpoint lookup (t : table) (x : float) : float :=
  match t with
  | [] => nan                                   (* not observed: poisons the result *)
  | (k, v) :: r => if Leibniz.eqb k x then v else lookup r x
  end.

Definition mk_oracles (ts tc tas tac : table) : oracles :=
  {| o_sin := lookup ts; o_cos := lookup tc; o_arcsin := lookup tas; o_arccos := lookup tac |}.

(* numpy constants: np.deg2rad(x) = x * fl(pi/180), np.rad2deg(x) = x * fl(180/pi), np.pi *)
Definition d2r_c : float := 0x1.1df46a2529d39p-6.
Definition r2d_c : float := 0x1.ca5dc1a63c1f8p+5.
Definition pi_f : float := 0x1.921fb54442d18p+1.
Definition d2r_f (x : float) : float := x * d2r_c.
Definition r2d_f (x : float) : float := x * r2d_c.

(* ndarray.clip(lo, hi) = minimum(maximum(x, lo), hi); a NaN stays a NaN *)
Definition clip_f (lo hi x : float) : float :=
  let m := if x <? lo then lo else x in if hi <? m then hi else m.

(* one column of np.cross(u, v, axis=0): each component is fl(fl(a*b) - fl(c*d)) *)
Definition cross3_f (u v : fvec3) : fvec3 :=
  let '(x1, y1, z1) := u in let '(x2, y2, z2) := v in
  (y1 * z2 - z1 * y2, z1 * x2 - x1 * z2, x1 * y2 - y1 * x2).
Definition fvx (u : fvec3) : float := fst (fst u).
Definition fvy (u : fvec3) : float := snd (fst u).
Definition fvz (u : fvec3) : float := snd u.

(* C08 -- conditional rounding theorem for gcirc (law of cosines).  Forward analysis of cosdis with interface
   budgets, then the sharp conditioning of acos (Cond.v).  Because acos amplifies like a square root next to +-1, a
   WORST-CASE analysis cannot reach the statement's 2e-6 degree: with binary64 budgets it proves 7e-6 degree for ALL
   inputs (longitudes within one turn).  The statement's 2e-6 remains what the per-case certificates measure (largest
   error seen in 2e7 adversarial pairs: 1.4e-6 degree). *)
From Coq Require Import Reals Lra.
From Interval Require Import Tactic.
From EsVerif.C08 Require Import Gen Model Spec Proofs Cond Cond2 Cond3 Rounding.
Open Scope R_scope.

Lemma prod_round A B Ah Bh al be dl e : Rabs A <= 1 -> Rabs B <= 1 -> Rabs (Ah - A) <= al -> Rabs (Bh - B) <= be ->
  Rabs dl <= e -> 0 <= e ->
  Rabs (Ah * Bh * (1 + dl) - A * B) <= al * (1 + be) + be + e * ((1 + al) * (1 + be)).
Proof.
  intros HA HB Ha Hb Hd He. destruct (prod_err A B Ah Bh al be HA HB Ha Hb) as [P Q].
  replace (Ah * Bh * (1 + dl) - A * B) with ((Ah * Bh - A * B) + Ah * Bh * dl) by ring.
  eapply Rle_trans; [apply Rabs_triang|]. rewrite (Rabs_mult (Ah * Bh) dl).
  pose proof (Rabs_pos dl). pose proof (Rabs_pos (Ah * Bh)).
  assert (Rabs (Ah * Bh) * Rabs dl <= (1 + al) * (1 + be) * e) by (apply Rmult_le_compat; lra). lra.
Qed.

Lemma clip_closer x c : -1 <= c <= 1 -> Rabs (clip (-1) 1 x - c) <= Rabs (x - c).
Proof.
  intro Hc. unfold clip, Rmin, Rmax.
  destruct (Rle_dec x (-1)); destruct (Rle_dec _ 1); unfold Rabs;
    repeat match goal with |- context[Rcase_abs ?t] => destruct (Rcase_abs t) end; lra.
Qed.

Definition p2 (al be e : R) : R := al * (1 + be) + be + e * ((1 + al) * (1 + be)).
Definition cosdis_budget (sg r e : R) : R :=
  let e1 := p2 sg sg e in                       (* sin dec1 * sin dec2 *)
  let pc := p2 sg sg e in                       (* cos dec1 * cos dec2 *)
  let e2 := p2 pc r e in                        (* ... * cos radiff *)
  e1 + e2 + e * (2 + e1 + e2).

Lemma gcirc_rounding sg r e tau s1 c1 s2 c2 cr S1 C1 S2 C2 CR d1 d2 d3 d4 a' :
  0 <= sg -> 0 <= r -> 0 <= e -> 0 <= tau ->
  Rabs s1 <= 1 -> Rabs c1 <= 1 -> Rabs s2 <= 1 -> Rabs c2 <= 1 -> Rabs cr <= 1 ->     (* exact sines and cosines *)
  -1 <= s1 * s2 + c1 * c2 * cr <= 1 ->
  Rabs (S1 - s1) <= sg -> Rabs (C1 - c1) <= sg -> Rabs (S2 - s2) <= sg -> Rabs (C2 - c2) <= sg -> Rabs (CR - cr) <= r ->
  Rabs d1 <= e -> Rabs d2 <= e -> Rabs d3 <= e -> Rabs d4 <= e ->
  cosdis_budget sg r e <= 2 ->
  let cosdis' := (S1 * S2 * (1 + d1) + C1 * C2 * (1 + d2) * CR * (1 + d3)) * (1 + d4) in
  Rabs (a' - acos (clip (-1) 1 cosdis')) <= tau ->
  Rabs (a' - acos (s1 * s2 + c1 * c2 * cr)) <= tau + 2 * asin (sqrt (cosdis_budget sg r e / 2)).
Proof.
  intros Hsg Hr He Ht B1 B2 B3 B4 B5 Hc E1 E2 E3 E4 E5 D1 D2 D3 D4 Hb cosdis' Ha.
  pose proof (prod_round s1 s2 S1 S2 sg sg d1 e B1 B3 E1 E3 D1 He) as P1. fold (p2 sg sg e) in P1.
  pose proof (prod_round c1 c2 C1 C2 sg sg d2 e B2 B4 E2 E4 D2 He) as P2. fold (p2 sg sg e) in P2.
  assert (Bcc : Rabs (c1 * c2) <= 1).
  { rewrite Rabs_mult. pose proof (Rabs_pos c1). pose proof (Rabs_pos c2). nra. }
  pose proof (prod_round (c1 * c2) cr (C1 * C2 * (1 + d2)) CR (p2 sg sg e) r d3 e Bcc B5 P2 E5 D3 He) as P3.
  fold (p2 (p2 sg sg e) r e) in P3.
  set (e1 := p2 sg sg e) in *. set (e2 := p2 e1 r e) in *.
  set (X := S1 * S2 * (1 + d1)) in *. set (Y := C1 * C2 * (1 + d2) * CR * (1 + d3)) in *.
  set (c := s1 * s2 + c1 * c2 * cr) in *.
  assert (E : Rabs (cosdis' - c) <= cosdis_budget sg r e).
  { unfold cosdis', cosdis_budget. fold e1 e2. fold X Y.
    replace ((X + Y) * (1 + d4) - c) with ((X - s1 * s2) + (Y - c1 * c2 * cr) + (X + Y) * d4) by (unfold c; ring).
    apply abs_le_inv in P1, P3, D4. apply abs_le_inv in B1, B2, B3, B4, B5.
    assert (XY : Rabs (X + Y) <= 2 + e1 + e2).
    { apply Rabs_le. assert (-1 <= s1 * s2 <= 1) by nra. assert (-1 <= c1 * c2 * cr <= 1).
      { apply abs_le_inv in Bcc. nra. } lra. }
    assert (Z : Rabs ((X + Y) * d4) <= (2 + e1 + e2) * e).
    { rewrite Rabs_mult. assert (Rabs d4 <= e) by (apply Rabs_le; lra). pose proof (Rabs_pos d4). pose proof (Rabs_pos (X + Y)).
      apply Rmult_le_compat; lra. }
    apply abs_le_inv in Z. apply Rabs_le. split; lra. }
  pose proof (clip_closer cosdis' c Hc) as K.
  assert (CB : -1 <= clip (-1) 1 cosdis' <= 1).
  { unfold clip, Rmin, Rmax. destruct (Rle_dec cosdis' (-1)); destruct (Rle_dec _ 1); lra. }
  assert (E0 : 0 <= cosdis_budget sg r e) by (eapply Rle_trans; [apply Rabs_pos | exact E]).
  pose proof (acos_conditioning (clip (-1) 1 cosdis') c (cosdis_budget sg r e) CB Hc ltac:(lra) Hb) as A.
  replace (a' - acos c) with ((a' - acos (clip (-1) 1 cosdis')) + (acos (clip (-1) 1 cosdis') - acos c)) by ring.
  eapply Rle_trans; [apply Rabs_triang|]. lra.
Qed.

(* binary64 budgets: sines/cosines of the latitudes: argument error 3.15u + libm 1u; cos radiff: two longitudes
   12.57u each, the subtraction 6.3u, libm 1u; products/sum e = u; libm arccos tau = 4u (values < 4) *)
Lemma gcirc_binary64_budget :
  4 * u64 + 2 * asin (sqrt (cosdis_budget (415 / 100 * u64) (3245 / 100 * u64) u64 / 2)) <= tol_in Rad 7e-6
  /\ cosdis_budget (415 / 100 * u64) (3245 / 100 * u64) u64 <= 2.
Proof.
  assert (B : 0 <= cosdis_budget (415 / 100 * u64) (3245 / 100 * u64) u64 <= 1 / 10 ^ 14).
  { unfold cosdis_budget, p2, u64. split; interval with (i_prec 80). }
  split; [|lra].
  set (E := cosdis_budget (415 / 100 * u64) (3245 / 100 * u64) u64) in *.
  assert (S : 0 <= sqrt (E / 2) <= / 1000).
  { split; [apply sqrt_pos|]. replace (/ 1000) with (sqrt (/ 1000 * / 1000)) by (apply sqrt_square; lra).
    apply sqrt_le_1_alt. lra. }
  rewrite (two_asin_small _ S).
  assert (SE : sqrt (E / 2) <= sqrt (1 / 10 ^ 14 / 2)) by (apply sqrt_le_1_alt; lra).
  set (q := sqrt (E / 2)) in *. unfold tol_in, u64. destruct S as [S0 S1].
  assert (Q : q <= 71 / 10 ^ 9) by (eapply Rle_trans; [exact SE|]; interval).
  interval with (i_prec 60).
Qed.

(* C08 -- non-vacuity: the hypotheses of the conditional rounding theorems and of the array-layer theorems are
   satisfiable by concrete, non-trivial instances (exact evaluation is within every budget). *)
From Coq Require Import Reals Lra List.
Import ListNotations.
From Interval Require Import Tactic.
From EsVerif.C08 Require Import Gen Model Spec Proofs Code SrcLib Src SrcProofs Cond Cond2 Cond3 Rounding Rounding2 Rounding3 Rounding4 ArrayLayer.
Open Scope R_scope.

Lemma triple_eq (a b c a' b' c' : R) : a = a' -> b = b' -> c = c' -> (a, b, c) = (a', b', c').
Proof. intros; subst; reflexivity. Qed.

Lemma u64_pos : 0 < u64.
Proof. unfold u64. interval. Qed.

Lemma abs0_le x : 0 <= x -> Rabs (0) <= x.
Proof. intro H. rewrite Rabs_R0. exact H. Qed.

Lemma point_0_0 : point 0 0 = (1, 0, 0).
Proof. unfold point. rewrite cos_0, sin_0. apply triple_eq; ring. Qed.
Lemma point_PI2_0 : point (PI / 2) 0 = (0, 1, 0).
Proof. unfold point. rewrite cos_0, sin_0, cos_PI2, sin_PI2. apply triple_eq; ring. Qed.
Lemma point_PI_0 : point PI 0 = (-1, 0, 0).
Proof. unfold point. rewrite cos_0, sin_0, cos_PI, sin_PI. apply triple_eq; ring. Qed.

(* a quarter turn along the equator, evaluated exactly, satisfies every hypothesis of the chord-branch theorem *)
Lemma chord_branch_binary64_instance :
  let d' := norm3 (vsub (point 0 0) (point (PI / 2) 0)) in
  Rabs (2 * asin (/ 2 * d') - angle (point 0 0) (point (PI / 2) 0)) <= tol_in Rad 1e-11.
Proof.
  intro d'. pose proof u64_pos as U.
  assert (Z : forall x, x - x = 0) by (intro; ring).
  pose proof (chord_branch_binary64 0 0 (PI / 2) 0 0 0 (PI / 2) 0
                (cos 0) (sin 0) (cos 0) (sin 0) (cos (PI / 2)) (sin (PI / 2)) (cos 0) (sin 0) 0 0 0 0 d' (asin (/ 2 * d'))) as T.
  rewrite !Z in T. cbv zeta in T.
  assert (E1 : (cos 0 * cos 0 * (1 + 0), sin 0 * cos 0 * (1 + 0), sin 0) = point 0 0).
  { unfold point. apply triple_eq; ring. }
  assert (E2 : (cos (PI / 2) * cos 0 * (1 + 0), sin (PI / 2) * cos 0 * (1 + 0), sin 0) = point (PI / 2) 0).
  { unfold point. apply triple_eq; ring. }
  rewrite E1, E2 in T. fold d' in T.
  assert (N : nsq (vsub (point 0 0) (point (PI / 2) 0)) = 2).
  { rewrite point_0_0, point_PI2_0. unfold nsq, vsub, dot. ring. }
  assert (D0 : 0 <= d') by apply norm3_nonneg.
  assert (DD : d' * d' = 2) by (unfold d'; rewrite norm3_sq; exact N).
  apply T; try (apply abs0_le; lra); try (unfold T_room; lra).
  - rewrite Z, Rabs_R0. apply Rmult_le_pos; [unfold rho64; nra | exact D0].
Qed.

(* antipodal points on the equator, evaluated exactly, satisfy every hypothesis of the cross-branch theorem *)
Lemma cross_branch_binary64_instance :
  Rabs ((PI - asin 0) * (1 + 0) - angle (point 0 0) (point PI 0)) <= tol_in Rad 1e-12.
Proof.
  pose proof u64_pos as U. assert (Z : forall x, x - x = 0) by (intro; ring).
  assert (C : cross (point 0 0) (point PI 0) = (0, 0, 0)).
  { rewrite point_0_0, point_PI_0. unfold cross. apply triple_eq; ring. }
  assert (N0 : norm3 (0, 0, 0) = 0).
  { unfold norm3, nsq, dot. replace (0 * 0 + 0 * 0 + 0 * 0) with 0 by ring. apply sqrt_0. }
  assert (E0 : 0 <= eta_of (1257 / 100 * u64) (315 / 100 * u64) u64 u64) by (unfold eta_of; nra).
  assert (CL : forall eta w, 0 <= eta -> close eta w w).
  { intros eta [[x y] z] H. unfold close. rewrite !Z, Rabs_R0. auto. }
  apply (cross_branch_binary64 (point 0 0) (point PI 0) (point 0 0) (point PI 0) (0, 0, 0) 0 (asin 0) PI 0);
    try apply point_unit; try (apply CL; lra).
  - rewrite point_0_0, point_PI_0. unfold nsq, vsub, dot. lra.
  - rewrite C. apply CL. lra.
  - rewrite N0, Z, Rabs_R0. lra.
  - lra.
  - rewrite N0. lra.
  - rewrite Z, Rabs_R0. lra.
  - rewrite Z, Rabs_R0. lra.
  - rewrite Rabs_R0. lra.
  - rewrite asin_0, Rabs_R0. lra.
Qed.

(* a quarter turn along the equator for gcirc: sin dec = 0, cos dec = 1, cos radiff = 0, evaluated exactly *)
Lemma gcirc_rounding_instance :
  Rabs (acos (clip (-1) 1 ((0 * 0 * (1 + 0) + 1 * 1 * (1 + 0) * 0 * (1 + 0)) * (1 + 0))) - acos (0 * 0 + 1 * 1 * 0))
  <= tol_in Rad 7e-6.
Proof.
  pose proof u64_pos as U. destruct gcirc_binary64_budget as [B1 B2].
  assert (Z : forall x, x - x = 0) by (intro; ring).
  eapply Rle_trans; [|exact B1].
  apply (gcirc_rounding (415 / 100 * u64) (3245 / 100 * u64) u64 (4 * u64) 0 1 0 1 0 0 1 0 1 0 0 0 0 0);
    try lra; try (rewrite Z, Rabs_R0; lra); try (rewrite Rabs_R0; lra); try (rewrite Rabs_R1; lra).
Qed.

(* the array layer on three pairs: chord branch, cross branch, identical inputs *)
Lemma array_layer_instance :
  sphdist_vec Deg Deg [(0, 0, 90, 0); (0, 0, 180, 0); (5, 5, 5, 5)]
  = [sphdist_code Deg Deg 0 0 90 0; sphdist_code Deg Deg 0 0 180 0; 0]
  /\ length (gcirc_vec [(0, 0, 90, 0); (0, 0, 180, 0)]) = 2%nat.
Proof.
  split; [|apply (vec_lengths Deg Deg)]. rewrite sphdist_vec_elementwise. cbn [map]. rewrite !sphdist_src_eq.
  replace (sphdist_code Deg Deg 5 5 5 5) with 0; [reflexivity|].
  symmetry. rewrite sphdist_code_exact, true_sep_same. apply from_rad_0.
Qed.

(* conjunctions used by Properties.v *)
Lemma array_is_elementwise_thm :
  (forall uin uout p, sphdist_vec uin uout p = map (fun q : pair4 => let '(a, b, c, d) := q in sphdist_src uin uout a b c d) p)
  /\ (forall p, gcirc_vec p = map (fun q : pair4 => let '(a, b, c, d) := q in gcirc_src a b c d) p)
  /\ (forall uin uout p, length (sphdist_vec uin uout p) = length p /\ length (gcirc_vec p) = length p).
Proof. split; [exact sphdist_vec_elementwise|]. split; [exact gcirc_vec_elementwise | exact vec_lengths]. Qed.

Lemma history_thm :
  (forall (S : Type) (st : S) cs, run S st cs = (st, map answer cs))
  /\ (forall (S : Type) (st st' : S) before c,
        nth_error (snd (run S st (before ++ [c]))) (length before) = Some (answer c) /\ snd (run S st' [c]) = [answer c]).
Proof. split; [exact history_irrelevant | exact answer_independent]. Qed.

Lemma lipschitz_thm : (forall a b, Rabs (sin a - sin b) <= Rabs (a - b)) /\ (forall a b, Rabs (cos a - cos b) <= Rabs (a - b)).
Proof. split; [exact sin_lip | exact cos_lip]. Qed.

(* the three conditional rounding theorems with binary64 budgets, as one statement *)
Definition chord_branch_binary64_stmt : Prop :=
  forall th1 ph1 th2 ph2 th1' ph1' th2' ph2' c1 s1 cp1 sp1 c2 s2 cp2 sp2 dx1 dy1 dx2 dy2 d' a',
  Rabs (th1' - th1) <= 1257 / 100 * u64 -> Rabs (ph1' - ph1) <= 315 / 100 * u64 ->
  Rabs (th2' - th2) <= 1257 / 100 * u64 -> Rabs (ph2' - ph2) <= 315 / 100 * u64 ->
  Rabs (c1 - cos th1') <= u64 -> Rabs (s1 - sin th1') <= u64 -> Rabs (cp1 - cos ph1') <= u64 -> Rabs (sp1 - sin ph1') <= u64 ->
  Rabs (c2 - cos th2') <= u64 -> Rabs (s2 - sin th2') <= u64 -> Rabs (cp2 - cos ph2') <= u64 -> Rabs (sp2 - sin ph2') <= u64 ->
  Rabs dx1 <= u64 -> Rabs dy1 <= u64 -> Rabs dx2 <= u64 -> Rabs dy2 <= u64 ->
  let u' := (c1 * cp1 * (1 + dx1), s1 * cp1 * (1 + dy1), sp1) in
  let v' := (c2 * cp2 * (1 + dx2), s2 * cp2 * (1 + dy2), sp2) in
  Rabs (d' - norm3 (vsub u' v')) <= rho64 * norm3 (vsub u' v') ->
  0 <= d' -> d' * d' <= T_room -> nsq (vsub (point th1 ph1) (point th2 ph2)) <= T_room ->
  Rabs (a' - asin (/ 2 * d')) <= 2 * u64 ->
  Rabs (2 * a' - angle (point th1 ph1) (point th2 ph2)) <= tol_in Rad 1e-11.

Definition cross_branch_binary64_stmt : Prop :=
  forall u v u' v' c' s' a' pif dl,
  is_unit u -> is_unit v ->
  close (eta_of (1257 / 100 * u64) (315 / 100 * u64) u64 u64) u u' ->
  close (eta_of (1257 / 100 * u64) (315 / 100 * u64) u64 u64) v v' ->
  3989 / 1000 <= nsq (vsub u v) ->
  close (5 * u64) (cross u' v') c' ->
  Rabs (s' - norm3 c') <= rho64 * norm3 c' -> 0 <= s' <= 11 / 100 -> norm3 c' <= 12 / 100 ->
  Rabs (a' - asin s') <= u64 -> Rabs (pif - PI) <= 2 * u64 -> Rabs dl <= u64 -> Rabs a' <= 1 / 2 ->
  Rabs ((pif - a') * (1 + dl) - angle u v) <= tol_in Rad 1e-12.

Definition gcirc_binary64_stmt : Prop :=
  4 * u64 + 2 * asin (sqrt (cosdis_budget (415 / 100 * u64) (3245 / 100 * u64) u64 / 2)) <= tol_in Rad 7e-6
  /\ cosdis_budget (415 / 100 * u64) (3245 / 100 * u64) u64 <= 2.

Lemma rounding_binary64_thm : chord_branch_binary64_stmt /\ cross_branch_binary64_stmt /\ gcirc_binary64_stmt.
Proof. split; [exact chord_branch_binary64|]. split; [exact cross_branch_binary64 | exact gcirc_binary64_budget]. Qed.

(* a quarter turn along the equator, every operation evaluated exactly: all hypotheses of the degrees-to-degrees
   theorem hold *)
Lemma sphdist_chord_degrees_instance :
  Rabs (2 * asin (/ 2 * (sqrt 2 * (1 + 0))) * (180 / PI * (1 + 0)) * (1 + 0) - sphdist_code Deg Deg 0 0 90 0) <= 1 / 10 ^ 11.
Proof.
  assert (U : 0 < u64) by (unfold u64; interval).
  assert (Z : forall x, x - x = 0) by (intro; ring).
  assert (A0 : Rabs 0 <= u64) by (rewrite Rabs_R0; lra).
  assert (T0 : fl_d2r 0 0 0 = 0) by (unfold fl_d2r; ring).
  assert (T9 : fl_d2r 90 0 0 = PI / 2) by (unfold fl_d2r; field).
  pose proof (sphdist_chord_degrees_binary64 0 0 90 0 0 0 0 0 0
                (cos 0) (sin 0) (cos 0) (sin 0) (cos (PI / 2)) (sin (PI / 2)) (cos 0) (sin 0)
                0 0 0 0 0 0 0 0 0 0 0 0 0 (asin (/ 2 * (sqrt 2 * (1 + 0)))) 0 0) as T.
  cbv zeta in T. rewrite T0, T9 in T. rewrite !Z in T.
  assert (DS : fl_dsq (fl_vec (cos 0) (sin 0) (cos 0) (sin 0) 0 0) (fl_vec (cos (PI / 2)) (sin (PI / 2)) (cos 0) (sin 0) 0 0)
                      0 0 0 0 0 0 0 0 = 2).
  { unfold fl_dsq, fl_vec. rewrite cos_0, sin_0, cos_PI2, sin_PI2. ring. }
  rewrite DS in T. apply T; try exact A0; try (rewrite Rabs_R0; lra); try (unfold sphdist_thr; lra);
    try (unfold Rabs; destruct (Rcase_abs _); lra).
Qed.

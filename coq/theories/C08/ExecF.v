(* C08 -- verdicts with a "model = implementation" bit: the binary64 reading of the source text
   (SrcF.v, regenerated on every run) is executed on the inputs of one observed call, with sin,
   cos, arcsin, arccos taken from the tables of values that libm returned inside that very call,
   and compared bit for bit with the outputs of the real code. *)
From Coq Require Import QArith PrimFloat.
From EsVerif.Common Require Import Base.
From EsVerif.C08 Require Import Model Spec Exec SrcLibF SrcF.

Inductive fn_t := FSphdist | FGcirc.

Definition model_f (fn : fn_t) (O : oracles) (uin uout : unit_t) (p : fpt) : float :=
  let '(a, b, c, d) := p in
  match fn with
  | FSphdist => sphdist_f O uin uout a b c d
  | FGcirc => gcirc_f O a b c d
  end.

Definition tables : Type := (table * table * table * table)%type.     (* sin, cos, arcsin, arccos *)
Definition oracles_of (t : tables) : oracles := let '(ts, tc, tas, tac) := t in mk_oracles ts tc tas tac.

Definition model_outs (fn : fn_t) (t : tables) (uin uout : unit_t) (pts : list fpt) : list float :=
  map (model_f fn (oracles_of t) uin uout) pts.

(* bit-level equality (all NaNs are one value in Coq's floats) *)
Definition agree_f (fn : fn_t) (t : tables) (uin uout : unit_t) (pts : list fpt) (main : result (list float)) : bool :=
  match main with
  | Ok l => list_eqb Leibniz.eqb (model_outs fn t uin uout pts) l
  | Err _ => false
  end.

(* tabs = None: the call was too long to ship its tables; only the property checker decides *)
Definition v_full (fn : fn_t) (tabs : option tables) (uin uout : unit_t) (tol2 : Q) (pts : list fpt)
           (main swapped elem : result (list float)) (shifted : option (result (list float))) : Z :=
  match all_some (map pt_of pts) with
  | None => 2
  | Some q =>
      verdict (match tabs with None => true | Some t => agree_f fn t uin uout pts main end)
              (props_check uout tol2 q (qs main) (qs swapped) (qs elem) (option_map qs shifted))
  end.

(* a long call: the sampled positions are judged as above; [ext] = (minimum, maximum) of the WHOLE output
   (a NaN anywhere makes both NaN), which must be finite and in range *)
Definition v_long (fn : fn_t) (tabs : option tables) (uin uout : unit_t) (tol2 : Q) (pts : list fpt)
           (main swapped elem : result (list float)) (shifted : option (result (list float)))
           (ext : result (list float)) : Z :=
  let v := v_full fn tabs uin uout tol2 pts main swapped elem shifted in
  match qs ext with
  | Ok l => if all_range uout l then v else Z.lor v 2
  | Err _ => Z.lor v 2
  end.

(* sanity (vm_compute): table lookup is by bit pattern, a missing key poisons the result *)
Example lookup_examples :
  Leibniz.eqb (lookup [(0x1p+0, 0x1.8p+1); (-0, 0x1p+2)]%float (-0)%float) 0x1p+2
  && Leibniz.eqb (lookup [(0x1p+0, 0x1.8p+1)]%float 0x1p+0) 0x1.8p+1
  && is_nan (lookup [(0, 0x1p+0)]%float (-0)%float) = true.
Proof. vm_compute. reflexivity. Qed.

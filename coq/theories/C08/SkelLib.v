(* C08 -- vocabulary for the generated file GenMeta.v: the array-level STATEMENT SEQUENCE of the four anchored
   functions as data, and the keyword defaults the element-wise reading relies on.  The right-hand sides below are
   what the hand-written models (Model.v element-wise, ArrayLayer.v list level) were written against. *)
From Coq Require Import List.
Import ListNotations.
From EsVerif.C08 Require Import Model.

Inductive stmt :=
| SUnpackUnits                  (* units_in, units_out = units *)
| SCallVec                      (* x, y, z = f(...)  (three arrays from a translated function) *)
| SAssignR                      (* name = element-wise real expression *)
| SAssignB                      (* name = element-wise boolean expression (mask) *)
| SAssignV                      (* name = (3, n) vector expression *)
| SWhere                        (* (w,) = np.where(mask) *)
| SInplace                      (* f(a, a) in-place ufunc *)
| SClip                         (* a.clip(lo, hi, out=a) *)
| SUnitConv (n : nat)           (* if units == "deg": n independent in-place conversions *)
| SGuardedStore (inner : nat)   (* if np.any(w): <inner assignments to fresh names>; a[w] = value selected by w *)
| SMaskedConst                  (* a[w] = constant *)
| SFlagFalse                    (* if <keyword whose default False is never overridden>: ... -- branch not taken *)
| SReturn (n : nat).            (* return of n arrays *)

Definition thetaphi2xyz_skel_model : list stmt := [SAssignR; SAssignR; SAssignR; SReturn 3].
Definition eq2xyz_skel_model : list stmt := [SAssignR; SAssignR; SUnitConv 2; SFlagFalse; SReturn 3].
Definition sphdist_skel_model : list stmt :=
  [SUnpackUnits; SCallVec; SCallVec; SAssignR; SAssignR; SAssignB; SGuardedStore 4; SUnitConv 1; SAssignB; SWhere;
   SMaskedConst; SReturn 1].
Definition gcirc_skel_model : list stmt :=
  [SAssignR; SAssignR; SAssignR; SAssignR; SInplace; SInplace; SInplace; SInplace;
   SAssignR; SAssignR; SAssignR; SAssignR; SAssignR; SAssignR; SAssignR; SClip; SAssignR; SWhere; SMaskedConst;
   SFlagFalse; SReturn 1].

(* keyword defaults the reading relies on *)
Definition sphdist_units_default_model : unit_t * unit_t := (Deg, Deg).
Definition eq2xyz_units_default_model : unit_t := Deg.
Definition eq2xyz_dtype_is_f8_model : bool := true.
Definition eq2xyz_stomp_default_model : bool := false.
Definition gcirc_getangle_default_model : bool := false.

(* C08 -- glue evaluated by the generated case files: verdict of the exact-rational checks on one
   call of the implementation (0 = accepted, 2 = the property checker rejects the outputs).
   Inputs and outputs arrive as binary64 literals (hexadecimal, bit exact) and are decoded to
   their exact rational values here; a non-finite output has no rational value and is rejected.
   There is no executable real-number model, so the "model = implementation" bit is decided by
   the per-case interval certificates instead (harness/props/C08.py). *)
From Coq Require Import QArith PrimFloat FloatOps SpecFloat.
From EsVerif.Common Require Import Base.
From EsVerif.C08 Require Import Model Spec.

(* exact value of a finite binary64 number *)
Definition f2q (f : float) : option Q :=
  match Prim2SF f with
  | S754_zero _ => Some (0 # 1)%Q
  | S754_finite s m e =>
      let z := if s then Z.neg m else Z.pos m in
      Some (match e with
            | Z0 => z # 1
            | Z.pos p => (z * Z.pow_pos 2 p) # 1
            | Z.neg p => z # (Pos.pow 2 p)
            end)%Q
  | S754_infinity _ | S754_nan => None
  end.

Fixpoint all_some {A} (l : list (option A)) : option (list A) :=
  match l with
  | [] => Some []
  | None :: _ => None
  | Some a :: t => match all_some t with Some t' => Some (a :: t') | None => None end
  end.

Definition fpt : Type := (float * float * float * float)%type.
Definition pt_of (p : fpt) : option pt :=
  let '(a, b, c, d) := p in
  match f2q a, f2q b, f2q c, f2q d with
  | Some a', Some b', Some c', Some d' => Some (a', b', c', d')
  | _, _, _, _ => None
  end.

(* a call that raised arrives as Err; one that returned a non-finite value becomes Err here *)
Definition qs (r : result (list float)) : result (list Q) :=
  match r with
  | Ok l => match all_some (map f2q l) with Some q => Ok q | None => Err EOther end
  | Err e => Err e
  end.

(* main: outputs of the call in the case's container form;  swapped: same call with the two points
   exchanged;  elem: element-by-element calls in the other container form (scalar <-> length-1 /
   length-n array);  shifted: the call with 360 degrees added (exactly) to a longitude. *)
Definition props_check (uout : unit_t) (tol2 : Q) (pts : list pt)
           (main swapped elem : result (list Q)) (shifted : option (result (list Q))) : bool :=
  match main, swapped, elem with
  | Ok m, Ok s, Ok e =>
      outs_ok uout pts m && all_same m s && all_same m e &&
      match shifted with
      | None => true
      | Some (Ok h) => all_close tol2 m h && all_range uout h
      | Some (Err _) => false
      end
  | _, _, _ => false
  end.

(* which of the individual checks pass (for replay files) *)
Definition props_detail_q (uout : unit_t) (tol2 : Q) (pts : list pt)
           (main swapped elem : result (list Q)) (shifted : option (result (list Q))) : list bool :=
  match main, swapped, elem with
  | Ok m, Ok s, Ok e =>
      [outs_ok uout pts m; all_same m s; all_same m e;
       match shifted with None => true | Some (Ok h) => all_close tol2 m h && all_range uout h | Some (Err _) => false end]
  | _, _, _ => [is_ok main; is_ok swapped; is_ok elem]
  end.

Definition v_props (uout : unit_t) (tol2 : Q) (pts : list fpt)
           (main swapped elem : result (list float)) (shifted : option (result (list float))) : Z :=
  match all_some (map pt_of pts) with
  | None => 2      (* the generators only produce finite inputs *)
  | Some q => verdict true (props_check uout tol2 q (qs main) (qs swapped) (qs elem) (option_map qs shifted))
  end.

Definition props_detail (uout : unit_t) (tol2 : Q) (pts : list fpt)
           (main swapped elem : result (list float)) (shifted : option (result (list float))) : list bool :=
  match all_some (map pt_of pts) with
  | None => []
  | Some q => props_detail_q uout tol2 q (qs main) (qs swapped) (qs elem) (option_map qs shifted)
  end.

(* decoding sanity (vm_compute): 3, -3/16, 0, -0, non-finite *)
Example f2q_examples :
  (match f2q 0x1.8p+1 with Some q => Qeq_bool q (3 # 1) | None => false end)
  && (match f2q (-0x1.8p-3) with Some q => Qeq_bool q (-3 # 16) | None => false end)
  && (match f2q 0 with Some q => Qeq_bool q 0 | None => false end)
  && (match f2q (-0) with Some q => Qeq_bool q 0 | None => false end)
  && (match f2q infinity, f2q nan with None, None => true | _, _ => false end) = true.
Proof. vm_compute. reflexivity. Qed.

(* C08 -- vocabulary of the generated file Src.v (element-wise reading of the numpy code).
   Definitions only. *)
From Coq Require Import Reals Bool.
From EsVerif.C08 Require Import Model.
Open Scope R_scope.

(* one element of the boolean arrays  a >= b  and  a == b *)
Definition Rgeb (a b : R) : bool := if Rle_dec b a then true else false.
Definition Reqb (a b : R) : bool := if Req_EM_T a b then true else false.

(* one column of np.cross(u, v, axis=0) for (3, n) arrays, and its components u[0], u[1], u[2] *)
Definition cross3 (u v : vec3) : vec3 :=
  let '(x1, y1, z1) := u in let '(x2, y2, z2) := v in
  (y1 * z2 - z1 * y2, z1 * x2 - x1 * z2, x1 * y2 - y1 * x2).
Definition vx (u : vec3) : R := fst (fst u).
Definition vy (u : vec3) : R := snd (fst u).
Definition vz (u : vec3) : R := snd u.

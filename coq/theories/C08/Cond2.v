(* C08 -- conditioning of the two branches of sphdist under the branch threshold of the source: why the
   chord formula is only used below |u-v|^2 = thr and the cross-product formula above it.
   asin is Lipschitz with constant 1/sqrt(1-m^2) on [-m, m]; with thr = 3.99 an error e in the chord
   length |u-v| moves the chord-branch result by at most 20.01 e, and an error e in |u x v| moves the
   cross-branch result by at most 1.006 e (the chord formula alone would amplify without bound near 180
   degrees). *)
From Coq Require Import Reals Lra.
From Interval Require Import Tactic.
From EsVerif.C08 Require Import Gen Model Spec Proofs.
Open Scope R_scope.

Lemma sqrt_lower a b : 0 <= a -> a * a <= b -> a <= sqrt b.
Proof. intros Ha H. rewrite <- (sqrt_square a Ha). apply sqrt_le_1_alt. exact H. Qed.

Lemma asin_deriv c : -1 < c < 1 -> derivable_pt_lim asin c (1 / sqrt (1 - c²)).
Proof. intro H. apply (derive_pt_eq_1 asin c _ (derivable_pt_asin c H)). apply derive_pt_asin. Qed.

Lemma asin_lipschitz_ordered m x y : 0 <= m < 1 -> -m <= x -> x < y -> y <= m ->
  asin y - asin x <= (y - x) / sqrt (1 - m²).
Proof.
  intros Hm Hx Hxy Hy.
  destruct (MVT_cor2 asin (fun c => 1 / sqrt (1 - c²)) x y Hxy) as [c [E [C0 C1]]].
  { intros c Hc. apply asin_deriv. lra. }
  rewrite E.
  assert (Q : 0 < 1 - m²) by (unfold Rsqr; nra).
  assert (Qc : 1 - m² <= 1 - c²) by (unfold Rsqr; nra).
  assert (S0 : 0 < sqrt (1 - m²)) by (apply sqrt_lt_R0; exact Q).
  assert (S1 : sqrt (1 - m²) <= sqrt (1 - c²)) by (apply sqrt_le_1_alt; exact Qc).
  assert (I : / sqrt (1 - c²) <= / sqrt (1 - m²)) by (apply Rinv_le_contravar; assumption).
  unfold Rdiv. rewrite Rmult_1_l, (Rmult_comm (y - x)). apply Rmult_le_compat_r; lra.
Qed.

Lemma asin_lipschitz m x y : 0 <= m < 1 -> -m <= x <= m -> -m <= y <= m ->
  Rabs (asin x - asin y) <= Rabs (x - y) / sqrt (1 - m²).
Proof.
  intros Hm Hx Hy. destruct (Rtotal_order x y) as [L|[E|L]].
  - pose proof (asin_lipschitz_ordered m x y Hm (proj1 Hx) L (proj2 Hy)) as B.
    assert (0 < sqrt (1 - m²)) by (apply sqrt_lt_R0; unfold Rsqr; nra).
    assert (0 <= (y - x) / sqrt (1 - m²)) by (apply Rmult_le_pos; [lra | left; apply Rinv_0_lt_compat; assumption]).
    assert (asin x <= asin y).
    { destruct (Rle_lt_dec (asin x) (asin y)) as [A|A]; [exact A|exfalso].
      pose proof (asin_bound x). pose proof (asin_bound y).
      assert (sin (asin y) < sin (asin x)) by (apply sin_increasing_1; lra).
      rewrite !sin_asin in * by lra. lra. }
    rewrite (Rabs_left1 (asin x - asin y)) by lra. rewrite (Rabs_left1 (x - y)) by lra.
    replace (- (x - y)) with (y - x) by ring. lra.
  - subst y. replace (asin x - asin x) with 0 by ring. replace (x - x) with 0 by ring.
    rewrite Rabs_R0. unfold Rdiv. rewrite Rmult_0_l. lra.
  - pose proof (asin_lipschitz_ordered m y x Hm (proj1 Hy) L (proj2 Hx)) as B.
    assert (0 < sqrt (1 - m²)) by (apply sqrt_lt_R0; unfold Rsqr; nra).
    assert (0 <= (x - y) / sqrt (1 - m²)) by (apply Rmult_le_pos; [lra | left; apply Rinv_0_lt_compat; assumption]).
    assert (asin y <= asin x).
    { destruct (Rle_lt_dec (asin y) (asin x)) as [A|A]; [exact A|exfalso].
      pose proof (asin_bound x). pose proof (asin_bound y).
      assert (sin (asin x) < sin (asin y)) by (apply sin_increasing_1; lra).
      rewrite !sin_asin in * by lra. lra. }
    rewrite (Rabs_right (asin x - asin y)) by lra. rewrite (Rabs_right (x - y)) by lra. lra.
Qed.

(* chord branch: taken when dsq < thr.  d, d' = exact and computed chord length |u-v| *)
Lemma chord_branch_conditioning d d' : 0 <= d -> 0 <= d' -> d * d <= sphdist_thr -> d' * d' <= sphdist_thr ->
  Rabs (2 * asin (/ 2 * d) - 2 * asin (/ 2 * d')) <= 2001 / 100 * Rabs (d - d').
Proof.
  unfold sphdist_thr. intros D0 D0' D D'.
  set (m := sqrt (2246170314151035 / 562949953421312) / 2).
  assert (M2 : m * m = 2246170314151035 / 562949953421312 / 4).
  { unfold m. replace (sqrt (2246170314151035 / 562949953421312) / 2 * (sqrt (2246170314151035 / 562949953421312) / 2))
      with (sqrt (2246170314151035 / 562949953421312) * sqrt (2246170314151035 / 562949953421312) / 4) by field.
    rewrite sqrt_sqrt by lra. reflexivity. }
  assert (M0 : 0 <= m) by (unfold m; apply Rmult_le_pos; [apply sqrt_pos | lra]).
  assert (Hm : 0 <= m < 1) by (split; [exact M0 | nra]).
  assert (Hd : - m <= / 2 * d <= m) by (split; nra).
  assert (Hd' : - m <= / 2 * d' <= m) by (split; nra).
  pose proof (asin_lipschitz m (/ 2 * d) (/ 2 * d') Hm Hd Hd') as L.
  replace (2 * asin (/ 2 * d) - 2 * asin (/ 2 * d')) with (2 * (asin (/ 2 * d) - asin (/ 2 * d'))) by ring.
  rewrite Rabs_mult, (Rabs_right 2) by lra.
  replace (/ 2 * d - / 2 * d') with (/ 2 * (d - d')) in L by ring.
  rewrite Rabs_mult, (Rabs_right (/ 2)) in L by lra.
  assert (S : 100 / 2001 <= sqrt (1 - m²)).
  { unfold Rsqr. rewrite M2. apply sqrt_lower; lra. }
  assert (0 <= Rabs (d - d')) by apply Rabs_pos.
  assert (Q : / 2 * Rabs (d - d') / sqrt (1 - m²) <= / 2 * Rabs (d - d') * (2001 / 100)).
  { unfold Rdiv. apply Rmult_le_compat_l; [lra|]. replace (2001 * / 100) with (/ (100 / 2001)) by field.
    apply Rinv_le_contravar; lra. }
  lra.
Qed.

(* cross-product branch: taken when dsq >= thr; then |u x v|^2 <= 1/100 *)
Lemma cross_branch_small u v : is_unit u -> is_unit v -> sphdist_thr <= nsq (vsub u v) -> nsq (cross u v) <= / 100.
Proof.
  unfold sphdist_thr. intros U V H. rewrite nsq_sub in H by assumption. rewrite nsq_cross by assumption.
  pose proof (dot_bound u v U V). nra.
Qed.

Lemma cross_branch_conditioning s s' : 0 <= s <= / 10 -> 0 <= s' <= / 10 ->
  Rabs ((PI - asin s) - (PI - asin s')) <= 1006 / 1000 * Rabs (s - s').
Proof.
  intros Hs Hs'. replace (PI - asin s - (PI - asin s')) with (- (asin s - asin s')) by ring. rewrite Rabs_Ropp.
  pose proof (asin_lipschitz (/ 10) s s' ltac:(lra) ltac:(lra) ltac:(lra)) as L.
  assert (S : 1000 / 1006 <= sqrt (1 - (/ 10)²)) by (unfold Rsqr; apply sqrt_lower; lra).
  assert (0 <= Rabs (s - s')) by apply Rabs_pos.
  assert (Q : Rabs (s - s') / sqrt (1 - (/ 10)²) <= Rabs (s - s') * (1006 / 1000)).
  { unfold Rdiv at 1. apply Rmult_le_compat_l; [lra|]. replace (1006 / 1000) with (/ (1000 / 1006)) by field.
    apply Rinv_le_contravar; lra. }
  lra.
Qed.

(* without the second branch: the chord formula's amplification is unbounded towards 180 degrees *)
Lemma chord_alone_ill_conditioned : forall K, 0 < K -> exists m, 0 <= m < 1 /\ K < / sqrt (1 - m²).
Proof.
  intros K HK. set (q := / (K + 1)).
  assert (Q0 : 0 < q) by (unfold q; apply Rinv_0_lt_compat; lra).
  assert (Q1 : q < 1) by (unfold q; rewrite <- Rinv_1; apply Rinv_lt_contravar; lra).
  exists (sqrt (1 - q * q)).
  assert (Q : 0 <= 1 - q * q < 1) by nra.
  split.
  - split; [apply sqrt_pos|]. assert (T : sqrt (1 - q * q) < sqrt 1) by (apply sqrt_lt_1_alt; lra).
    rewrite sqrt_1 in T. exact T.
  - unfold Rsqr. rewrite sqrt_sqrt by lra.
    replace (1 - (1 - q * q)) with (q * q) by ring. rewrite sqrt_square by lra.
    unfold q. rewrite Rinv_inv. lra.
Qed.

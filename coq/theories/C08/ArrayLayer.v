(* C08 -- the array layer.  The generated files Src.v / SrcF.v are the ELEMENT-WISE reading of the numpy code;
   here the statements that are not element-wise by numpy's definition -- boolean-mask selection x[:, w],
   the masked store dis[w] = values-computed-on-the-selected-columns guarded by `if np.any(w)`, the masked
   store of a constant -- are modelled on lists (compress / scatter), the whole of sphdist and gcirc is written
   at list level with them, and proved equal to mapping the element-wise reading over the pairs.  Also: a
   call's result depends on its own arguments only (step function with irrelevant, unchanged state). *)
From Coq Require Import Reals List Bool Lia.
Import ListNotations.
From EsVerif.C08 Require Import Gen Model SrcLib Src.
Open Scope R_scope.

Section Generic.
  Context {A B : Type}.

  (* a[w] for a boolean mask w (np.compress / x[:, w] along the pair axis) *)
  Fixpoint compress {X} (w : list bool) (l : list X) : list X :=
    match w, l with
    | b :: w', x :: l' => if b then x :: compress w' l' else compress w' l'
    | _, _ => []
    end.

  (* d[w] = v : the values v go, in order, to the positions where w holds *)
  Fixpoint scatter {X} (w : list bool) (d v : list X) : list X :=
    match w, d with
    | b :: w', x :: d' =>
        if b then match v with y :: v' => y :: scatter w' d' v' | [] => x :: scatter w' d' [] end
        else x :: scatter w' d' v
    | _, _ => d
    end.

  (* element-wise conditional *)
  Fixpoint cond3 (f : A -> B) (w : list bool) (xs : list A) (d : list B) : list B :=
    match w, xs, d with
    | b :: w', x :: xs', y :: d' => (if b then f x else y) :: cond3 f w' xs' d'
    | _, _, _ => []
    end.

  Lemma masked_store (f : A -> B) : forall w xs d, length w = length xs -> length w = length d ->
    scatter w d (map f (compress w xs)) = cond3 f w xs d.
  Proof.
    induction w as [|b w IH]; intros [|x xs] [|y d] H1 H2; simpl in *; try discriminate; try reflexivity.
    injection H1 as H1. injection H2 as H2. destruct b; simpl; rewrite IH by assumption; reflexivity.
  Qed.

  Lemma cond3_no_true (f : A -> B) : forall w xs d, length w = length xs -> length w = length d ->
    existsb (fun b => b) w = false -> cond3 f w xs d = d.
  Proof.
    induction w as [|b w IH]; intros [|x xs] [|y d] H1 H2 E; simpl in *; try discriminate; try reflexivity.
    injection H1 as H1. injection H2 as H2. destruct b; simpl in E; [discriminate|]. rewrite IH by assumption. reflexivity.
  Qed.

  (* `if np.any(w): d[w] = f(x[w])` *)
  Lemma guarded_masked_store (f : A -> B) w xs d : length w = length xs -> length w = length d ->
    (if existsb (fun b => b) w then scatter w d (map f (compress w xs)) else d) = cond3 f w xs d.
  Proof.
    intros H1 H2. destruct (existsb _ w) eqn:E; [apply masked_store; assumption | symmetry; apply cond3_no_true; assumption].
  Qed.

  Lemma compress_pairs {X Y Z} (f : Z -> X) (g : Z -> Y) : forall (w : list bool) (p : list Z),
    combine (compress w (map f p)) (compress w (map g p)) = compress w (map (fun q => (f q, g q)) p).
  Proof.
    induction w as [|c w IH]; intros [|q p]; simpl; try reflexivity.
    destruct c; simpl; rewrite IH; reflexivity.
  Qed.

  Lemma cond3_map {X} (f : A -> B) (g e : X -> B) (h : X -> A) (t : X -> bool) : forall l,
    cond3 f (map t l) (map h l) (map e l) = map (fun x => if t x then f (h x) else e x) l.
  Proof. induction l as [|x l IH]; simpl; [reflexivity | rewrite IH; reflexivity]. Qed.
End Generic.

(* d[w] = c for a constant c *)
Lemma masked_store_const {B} (c : B) w d : length w = length d ->
  scatter w d (repeat c (length (compress w d))) = cond3 (fun _ : B => c) w d d.
Proof.
  revert d. induction w as [|b w IH]; intros [|y d] H; simpl in *; try discriminate; try reflexivity.
  injection H as H. destruct b; simpl; rewrite IH by assumption; reflexivity.
Qed.

(* ------------------------------------------------------------------------------------------------ *)
(* sphdist and gcirc at list level: p = the n pairs after numpy's conversion/broadcast to length n     *)
(* ------------------------------------------------------------------------------------------------ *)

Definition pair4 : Type := (R * R * R * R)%type.

Definition dsq_of (a b : vec3) : R :=
  let '(x1, y1, z1) := a in let '(x2, y2, z2) := b in ((x1 - x2) ^ 2 + (y1 - y2) ^ 2) + (z1 - z2) ^ 2.
Definition large_of (ab : vec3 * vec3) : R :=
  let cross := cross3 (fst ab) (snd ab) in
  PI - asin (sqrt (((vx cross) ^ 2 + (vy cross) ^ 2) + (vz cross) ^ 2)).

Definition sphdist_vec (uin uout : unit_t) (p : list pair4) : list R :=
  let v1 := map (fun q : pair4 => let '(a, b, _, _) := q in eq2xyz_src uin a b) p in     (* (3, n) array as n columns *)
  let v2 := map (fun q : pair4 => let '(_, _, c, d) := q in eq2xyz_src uin c d) p in
  let dsq := map (fun ab => dsq_of (fst ab) (snd ab)) (combine v1 v2) in
  let dis := map (fun q => 2 * asin (/ 2 * sqrt q)) dsq in
  let w := map (fun q => Rgeb q sphdist_thr) dsq in
  let dis := if existsb (fun b => b) w
             then scatter w dis (map large_of (combine (compress w v1) (compress w v2)))   (* dis[w] = ... *)
             else dis in
  let dis := match uout with Deg => map r2d dis | Rad => dis end in
  let same := map (fun q : pair4 => let '(a, b, c, d) := q in andb (Reqb a c) (Reqb b d)) p in
  scatter same dis (repeat 0 (length (compress same dis))).                              (* dis[w] = 0.0 *)

Lemma sphdist_elem_unfold uin uout a b c d :
  sphdist_src uin uout a b c d =
  let v1 := eq2xyz_src uin a b in let v2 := eq2xyz_src uin c d in
  let q := dsq_of v1 v2 in
  let dis := if Rgeb q sphdist_thr then large_of (v1, v2) else 2 * asin (/ 2 * sqrt q) in
  let dis := match uout with Deg => r2d dis | Rad => dis end in
  if andb (Reqb a c) (Reqb b d) then 0 else dis.
Proof.
  unfold sphdist_src, dsq_of, large_of, sphdist_thr. cbv zeta.
  destruct (eq2xyz_src uin a b) as [[x1 y1] z1]. destruct (eq2xyz_src uin c d) as [[x2 y2] z2]. cbn [fst snd].
  reflexivity.
Qed.

Lemma sphdist_vec_elementwise uin uout p :
  sphdist_vec uin uout p = map (fun q : pair4 => let '(a, b, c, d) := q in sphdist_src uin uout a b c d) p.
Proof.
  unfold sphdist_vec. cbv zeta.
  set (f1 := fun q : pair4 => let '(a, b, _, _) := q in eq2xyz_src uin a b).
  set (f2 := fun q : pair4 => let '(_, _, c, d) := q in eq2xyz_src uin c d).
  set (same := fun q : pair4 => let '(a, b, c, d) := q in andb (Reqb a c) (Reqb b d)).
  assert (C : combine (map f1 p) (map f2 p) = map (fun q => (f1 q, f2 q)) p).
  { induction p as [|q p IH]; simpl; [reflexivity | rewrite IH; reflexivity]. }
  rewrite C, !map_map. cbn [fst snd].
  rewrite compress_pairs.
  set (Q := fun q => dsq_of (f1 q) (f2 q)).
  set (W := fun q => Rgeb (Q q) sphdist_thr).
  rewrite guarded_masked_store by (rewrite !map_length; reflexivity).
  rewrite (cond3_map large_of (fun q => 2 * asin (/ 2 * sqrt (Q q))) (fun q => 2 * asin (/ 2 * sqrt (Q q))) (fun q => (f1 q, f2 q)) W).
  set (D1 := fun x => if W x then large_of (f1 x, f2 x) else 2 * asin (/ 2 * sqrt (Q x))).
  assert (U : (match uout with Deg => map r2d (map D1 p) | Rad => map D1 p end)
              = map (fun x => match uout with Deg => r2d (D1 x) | Rad => D1 x end) p).
  { destruct uout; [rewrite map_map; reflexivity | reflexivity]. }
  rewrite U. set (D2 := fun x => match uout with Deg => r2d (D1 x) | Rad => D1 x end).
  rewrite masked_store_const by (rewrite !map_length; reflexivity).
  rewrite (cond3_map (fun _ : R => 0) D2 D2 D2 same).
  apply map_ext. intros [[[a b] c] d]. rewrite sphdist_elem_unfold. reflexivity.
Qed.

Definition gcirc_vec (p : list pair4) : list R :=
  let cosdis := map (fun q : pair4 => let '(a, b, c, d) := q in
                       (sin (d2r b) * sin (d2r d)) + ((cos (d2r b) * cos (d2r d)) * cos (d2r c - d2r a))) p in
  let cosdis := map (clip (- 1) 1) cosdis in                                             (* cosdis.clip(-1, 1, out=cosdis) *)
  let dis := map acos cosdis in
  let same := map (fun q : pair4 => let '(a, b, c, d) := q in andb (Reqb (d2r a) (d2r c)) (Reqb (d2r b) (d2r d))) p in
  scatter same dis (repeat 0 (length (compress same dis))).                              (* dis[w] = 0.0 *)

Lemma gcirc_vec_elementwise p :
  gcirc_vec p = map (fun q : pair4 => let '(a, b, c, d) := q in gcirc_src a b c d) p.
Proof.
  unfold gcirc_vec. cbv zeta. rewrite !map_map.
  set (same := fun q : pair4 => let '(a, b, c, d) := q in andb (Reqb (d2r a) (d2r c)) (Reqb (d2r b) (d2r d))).
  rewrite masked_store_const by (rewrite !map_length; reflexivity).
  match goal with |- cond3 _ _ (map ?D _) _ = _ => set (D2 := D) end.
  rewrite (cond3_map (fun _ : R => 0) D2 D2 D2 same).
  apply map_ext. intros [[[a b] c] d]. unfold D2, same, gcirc_src. cbv zeta. reflexivity.
Qed.

(* numpy broadcasting of a scalar first point against arrays for the second point *)
Definition bcast_first (a b : R) (l : list (R * R)) : list pair4 := map (fun cd => (a, b, fst cd, snd cd)) l.

Lemma sphdist_vec_bcast uin uout a b l :
  sphdist_vec uin uout (bcast_first a b l) = map (fun cd => sphdist_src uin uout a b (fst cd) (snd cd)) l.
Proof. rewrite sphdist_vec_elementwise. unfold bcast_first. rewrite map_map. reflexivity. Qed.

Lemma vec_lengths uin uout p : length (sphdist_vec uin uout p) = length p /\ length (gcirc_vec p) = length p.
Proof. rewrite sphdist_vec_elementwise, gcirc_vec_elementwise, !map_length. split; reflexivity. Qed.

(* scalar call = length-1 array call = the element of any array call *)
Lemma scalar_is_array uin uout a b c d p i :
  nth_error p i = Some (a, b, c, d) ->
  nth_error (sphdist_vec uin uout p) i = Some (sphdist_src uin uout a b c d)
  /\ nth_error (gcirc_vec p) i = Some (gcirc_src a b c d)
  /\ sphdist_vec uin uout [(a, b, c, d)] = [sphdist_src uin uout a b c d].
Proof.
  intro H. rewrite sphdist_vec_elementwise, gcirc_vec_elementwise.
  split; [|split]; try (erewrite map_nth_error by exact H; reflexivity).
  rewrite sphdist_vec_elementwise. reflexivity.
Qed.

(* ------------------------------------------------------------------------------------------------ *)
(* history: the model of a call is a function of the call's own arguments; a process state of any type is    *)
(* carried along unchanged and never read                                                                   *)
(* ------------------------------------------------------------------------------------------------ *)

Inductive call := CSphdist (uin uout : unit_t) (p : list pair4) | CGcirc (p : list pair4).
Definition answer (c : call) : list R :=
  match c with CSphdist uin uout p => sphdist_vec uin uout p | CGcirc p => gcirc_vec p end.

Section History.
  Variable S : Type.
  Definition step (st : S) (c : call) : S * list R := (st, answer c).
  Fixpoint run (st : S) (cs : list call) : S * list (list R) :=
    match cs with
    | [] => (st, [])
    | c :: cs' => let '(st1, o) := step st c in let '(st2, os) := run st1 cs' in (st2, o :: os)
    end.
  Lemma history_irrelevant st cs : run st cs = (st, map answer cs).
  Proof. induction cs as [|c cs IH]; simpl; [reflexivity | rewrite IH; reflexivity]. Qed.
  (* in particular: the answer to a call is the same after any history and in any state *)
  Lemma answer_independent st st' before c :
    nth_error (snd (run st (before ++ [c]))) (length before) = Some (answer c)
    /\ snd (run st' [c]) = [answer c].
  Proof.
    rewrite !history_irrelevant. cbn [snd]. split; [|reflexivity].
    rewrite map_app, nth_error_app2 by (rewrite map_length; lia). rewrite map_length, PeanoNat.Nat.sub_diag. reflexivity.
  Qed.
End History.

(* C08 -- robustness of the chord branch against errors in the unit vectors: if every component of the two
   computed vectors is within eta of the exact point, the chord length moves by at most 2 sqrt(3) eta
   (triangle inequality in R^3), hence -- below the branch threshold of the source -- the chord-branch result
   by at most 20.01 * 2 sqrt(3) * eta; with eta = 2^-50 (4 ulp of 1) that is below the statement's 1e-11
   degree.  (The remaining operations -- differences, squares, sum, sqrt, asin -- are taken as exact here;
   their rounding is what the per-case certificates measure.) *)
From Coq Require Import Reals Lra.
From Interval Require Import Tactic.
From EsVerif.C08 Require Import Gen Model Spec Proofs Cond2.
Open Scope R_scope.

Definition norm3 (u : vec3) : R := sqrt (nsq u).

Lemma cauchy_schwarz u v : dot u v * dot u v <= nsq u * nsq v.
Proof.
  destruct u as [[x1 y1] z1], v as [[x2 y2] z2]. unfold nsq, dot.
  replace ((x1 * x1 + y1 * y1 + z1 * z1) * (x2 * x2 + y2 * y2 + z2 * z2))
    with ((x1 * x2 + y1 * y2 + z1 * z2) * (x1 * x2 + y1 * y2 + z1 * z2)
          + (Rsqr (y1 * z2 - z1 * y2) + Rsqr (z1 * x2 - x1 * z2) + Rsqr (x1 * y2 - y1 * x2))) by (unfold Rsqr; ring).
  pose proof (Rle_0_sqr (y1 * z2 - z1 * y2)). pose proof (Rle_0_sqr (z1 * x2 - x1 * z2)).
  pose proof (Rle_0_sqr (x1 * y2 - y1 * x2)). lra.
Qed.

Lemma norm3_sq u : norm3 u * norm3 u = nsq u.
Proof. unfold norm3. apply sqrt_sqrt, nsq_nonneg. Qed.

Lemma norm3_nonneg u : 0 <= norm3 u.
Proof. apply sqrt_pos. Qed.

Lemma dot_le_norms u v : dot u v <= norm3 u * norm3 v.
Proof.
  pose proof (cauchy_schwarz u v) as C. pose proof (norm3_sq u) as U. pose proof (norm3_sq v) as V.
  pose proof (norm3_nonneg u). pose proof (norm3_nonneg v).
  destruct (Rle_lt_dec (dot u v) (norm3 u * norm3 v)) as [L|L]; [exact L|exfalso].
  assert (0 <= norm3 u * norm3 v) by (apply Rmult_le_pos; assumption).
  assert (norm3 u * norm3 v * (norm3 u * norm3 v) < dot u v * dot u v) by nra.
  replace (norm3 u * norm3 v * (norm3 u * norm3 v)) with (norm3 u * norm3 u * (norm3 v * norm3 v)) in * by ring.
  rewrite U, V in *. lra.
Qed.

Lemma nsq_vadd u v : nsq (vadd u v) = nsq u + 2 * dot u v + nsq v.
Proof. destruct u as [[x1 y1] z1], v as [[x2 y2] z2]. unfold nsq, vadd, dot. ring. Qed.

Lemma norm3_triangle u v : norm3 (vadd u v) <= norm3 u + norm3 v.
Proof.
  pose proof (norm3_sq (vadd u v)) as S. rewrite nsq_vadd in S.
  pose proof (dot_le_norms u v). pose proof (norm3_sq u). pose proof (norm3_sq v).
  pose proof (norm3_nonneg u). pose proof (norm3_nonneg v). pose proof (norm3_nonneg (vadd u v)).
  destruct (Rle_lt_dec (norm3 (vadd u v)) (norm3 u + norm3 v)) as [L|L]; [exact L|exfalso]. nra.
Qed.

Lemma vadd_vsub a b : vadd a (vsub b a) = b.
Proof. destruct a as [[x1 y1] z1], b as [[x2 y2] z2]. unfold vadd, vsub. repeat f_equal; ring. Qed.

Lemma norm3_reverse a b : Rabs (norm3 b - norm3 a) <= norm3 (vsub b a).
Proof.
  pose proof (norm3_triangle a (vsub b a)) as T1. rewrite vadd_vsub in T1.
  pose proof (norm3_triangle b (vsub a b)) as T2. rewrite vadd_vsub in T2.
  assert (E : norm3 (vsub a b) = norm3 (vsub b a)).
  { unfold norm3. f_equal. destruct a as [[x1 y1] z1], b as [[x2 y2] z2]. unfold nsq, vsub, dot. ring. }
  rewrite E in T2. apply Rabs_le. lra.
Qed.

Lemma abs_le_inv x a : Rabs x <= a -> - a <= x <= a.
Proof. intro H. unfold Rabs in H. destruct (Rcase_abs x); lra. Qed.

Definition close (eta : R) (u u' : vec3) : Prop :=
  let '(x, y, z) := u in let '(x', y', z') := u' in
  Rabs (x' - x) <= eta /\ Rabs (y' - y) <= eta /\ Rabs (z' - z) <= eta.

Lemma chord_length_perturbed eta u v u' v' : 0 <= eta -> close eta u u' -> close eta v v' ->
  Rabs (norm3 (vsub u' v') - norm3 (vsub u v)) <= 2 * sqrt 3 * eta.
Proof.
  intros He Cu Cv. eapply Rle_trans; [apply norm3_reverse|].
  destruct u as [[x1 y1] z1], v as [[x2 y2] z2], u' as [[a1 b1] c1], v' as [[a2 b2] c2].
  unfold close in *. destruct Cu as [U1 [U2 U3]], Cv as [V1 [V2 V3]].
  apply abs_le_inv in U1, U2, U3, V1, V2, V3.
  unfold norm3, nsq, vsub, dot.
  replace (2 * sqrt 3 * eta) with (sqrt (3 * (2 * eta * (2 * eta)))).
  - apply sqrt_le_1_alt.
    assert (forall p q, -eta <= p <= eta -> -eta <= q <= eta -> (p - q) * (p - q) <= 2 * eta * (2 * eta)) as Q by (intros; nra).
    pose proof (Q (a1 - x1) (a2 - x2) U1 V1). pose proof (Q (b1 - y1) (b2 - y2) U2 V2). pose proof (Q (c1 - z1) (c2 - z2) U3 V3).
    nra.
  - rewrite sqrt_mult_alt by lra. rewrite sqrt_square by lra. ring.
Qed.

(* component errors up to eta in both vectors, everything else exact, below the threshold of the source *)
Lemma chord_branch_robust eta u v u' v' : 0 <= eta -> close eta u u' -> close eta v v' ->
  nsq (vsub u v) <= sphdist_thr -> nsq (vsub u' v') <= sphdist_thr ->
  Rabs (2 * asin (/ 2 * norm3 (vsub u' v')) - 2 * asin (/ 2 * norm3 (vsub u v))) <= 2001 / 100 * (2 * sqrt 3 * eta).
Proof.
  intros He Cu Cv T T'.
  pose proof (chord_length_perturbed eta u v u' v' He Cu Cv) as P.
  pose proof (chord_branch_conditioning (norm3 (vsub u' v')) (norm3 (vsub u v))
                (norm3_nonneg _) (norm3_nonneg _)) as C.
  rewrite !norm3_sq in C. specialize (C T' T). lra.
Qed.

(* with eta = 2^-50 (4 ulp of 1): below 1e-11 degree *)
Lemma chord_branch_robust_4ulp u v u' v' : close (/ 2 ^ 50) u u' -> close (/ 2 ^ 50) v v' ->
  nsq (vsub u v) <= sphdist_thr -> nsq (vsub u' v') <= sphdist_thr ->
  Rabs (2 * asin (/ 2 * norm3 (vsub u' v')) - 2 * asin (/ 2 * norm3 (vsub u v))) <= tol_in Rad 1e-11.
Proof.
  intros Cu Cv T T'. eapply Rle_trans; [apply (chord_branch_robust (/ 2 ^ 50)); try assumption; interval|].
  unfold tol_in. interval.
Qed.

(* C08 -- bodies of the composite property theorems of Properties.v (conjunctions and instantiations of
   the lemmas of Proofs.v / Code.v / SrcProofs.v / FProofs.v). *)
From Coq Require Import Reals Lra QArith Qreals List.
From Coq Require PrimFloat.
From EsVerif.C08 Require Import Gen Model Spec Proofs Code SrcLib Src SrcProofs SrcLibF SrcF FProofs Cond Cond2.
Open Scope R_scope.

Lemma code_constants_thm : 2 <= sphdist_thr /\ gcirc_clip_lo <= -1 /\ 1 <= gcirc_clip_hi.
Proof. split; [exact sphdist_thr_ok | exact gcirc_clip_ok]. Qed.

Lemma source_is_model_thm :
  (forall theta phi, thetaphi2xyz_src theta phi = thetaphi2xyz theta phi)
  /\ (forall u ra dec, eq2xyz_src u ra dec = eq2xyz u ra dec)
  /\ (forall uin uout ra1 dec1 ra2 dec2,
        sphdist_src uin uout ra1 dec1 ra2 dec2 = sphdist_code uin uout ra1 dec1 ra2 dec2)
  /\ (forall ra1 dec1 ra2 dec2, gcirc_src ra1 dec1 ra2 dec2 = gcirc_code ra1 dec1 ra2 dec2).
Proof.
  split; [exact thetaphi2xyz_src_eq|]. split; [exact eq2xyz_src_eq|].
  split; [exact sphdist_src_eq | exact gcirc_src_eq].
Qed.

Lemma source_exact_thm :
  (forall uin uout ra1 dec1 ra2 dec2,
     sphdist_src uin uout ra1 dec1 ra2 dec2 = from_rad uout (true_sep uin ra1 dec1 ra2 dec2))
  /\ (forall ra1 dec1 ra2 dec2, gcirc_src ra1 dec1 ra2 dec2 = true_sep Deg ra1 dec1 ra2 dec2)
  /\ (forall u ra dec, is_unit (eq2xyz_src u ra dec)).
Proof. split; [exact sphdist_src_exact|]. split; [exact gcirc_src_exact | exact eq2xyz_src_unit]. Qed.

Lemma range_thm : forall uin ra1 dec1 ra2 dec2,
  0 <= sphdist_code uin Deg ra1 dec1 ra2 dec2 <= 180
  /\ 0 <= sphdist_code uin Rad ra1 dec1 ra2 dec2 <= PI
  /\ 0 <= gcirc_code ra1 dec1 ra2 dec2 <= PI.
Proof.
  intros. split; [apply sphdist_range_deg, sphdist_thr_ok|].
  split; [apply sphdist_range_rad, sphdist_thr_ok|]. rewrite gcirc_code_exact. apply true_sep_range.
Qed.

Lemma sym_thm : forall uin uout ra1 dec1 ra2 dec2,
  sphdist_code uin uout ra1 dec1 ra2 dec2 = sphdist_code uin uout ra2 dec2 ra1 dec1
  /\ gcirc_code ra1 dec1 ra2 dec2 = gcirc_code ra2 dec2 ra1 dec1.
Proof.
  intros. rewrite !sphdist_code_exact, !gcirc_code_exact. simpl.
  rewrite (true_sep_sym uin), (true_sep_sym Deg). split; reflexivity.
Qed.

Lemma zero_iff_thm : forall uin uout ra1 dec1 ra2 dec2,
  sphdist_code uin uout ra1 dec1 ra2 dec2 = 0 <->
  point (to_rad uin ra1) (to_rad uin dec1) = point (to_rad uin ra2) (to_rad uin dec2).
Proof. intros. apply sphdist_zero_iff, sphdist_thr_ok. Qed.

Lemma zero_identical_thm : forall uin uout ra dec,
  sphdist_code uin uout ra dec ra dec = 0 /\ gcirc_code ra dec ra dec = 0.
Proof.
  intros. rewrite sphdist_code_exact, gcirc_code_exact, !true_sep_same. split; [apply from_rad_0 | reflexivity].
Qed.

Lemma period_thm : forall uin uout ra1 dec1 ra2 dec2,
  let turn := match uin with Deg => 360 | Rad => 2 * PI end in
  sphdist_code uin uout (ra1 + turn) dec1 ra2 dec2 = sphdist_code uin uout ra1 dec1 ra2 dec2
  /\ sphdist_code uin uout ra1 dec1 (ra2 + turn) dec2 = sphdist_code uin uout ra1 dec1 ra2 dec2
  /\ gcirc_code (ra1 + 360) dec1 ra2 dec2 = gcirc_code ra1 dec1 ra2 dec2
  /\ gcirc_code ra1 dec1 (ra2 + 360) dec2 = gcirc_code ra1 dec1 ra2 dec2.
Proof.
  intros uin uout ra1 dec1 ra2 dec2 turn.
  assert (P1 : forall u a b c d,
             true_sep u (a + match u with Deg => 360 | Rad => 2 * PI end) b c d = true_sep u a b c d)
    by (intros; apply true_sep_period).
  assert (P2 : forall u a b c d,
             true_sep u a b (c + match u with Deg => 360 | Rad => 2 * PI end) d = true_sep u a b c d)
    by (intros; rewrite true_sep_sym, P1; apply true_sep_sym).
  pose proof (P1 Deg) as P1d. pose proof (P2 Deg) as P2d. cbv beta iota in P1d, P2d.
  rewrite !sphdist_code_exact, !gcirc_code_exact. unfold turn.
  rewrite P1, P2, P1d, P2d. repeat split; reflexivity.
Qed.

Lemma certificate_forms_thm : forall u ra1 dec1 ra2 dec2,
  (0 < dplus u ra1 dec1 ra2 dec2 -> true_sep u ra1 dec1 ra2 dec2 = sep_small u ra1 dec1 ra2 dec2)
  /\ (0 < dminus u ra1 dec1 ra2 dec2 -> true_sep u ra1 dec1 ra2 dec2 = sep_large u ra1 dec1 ra2 dec2).
Proof. intros. split; [apply true_sep_small | apply true_sep_large]. Qed.

Lemma certificate_ties_model_thm :
  (forall uin uout tol ra1 dec1 ra2 dec2 out,
     sep_ok uin uout tol ra1 dec1 ra2 dec2 out -> sphdist_cert uin uout tol ra1 dec1 ra2 dec2 out)
  /\ (forall tol ra1 dec1 ra2 dec2 out,
     sep_ok Deg Rad tol ra1 dec1 ra2 dec2 out -> gcirc_cert tol ra1 dec1 ra2 dec2 out).
Proof. split; [exact sphdist_cert_intro | exact gcirc_cert_intro]. Qed.

Lemma certificate_ties_source_thm :
  (forall uin uout tol ra1 dec1 ra2 dec2 out,
     sep_ok uin uout tol ra1 dec1 ra2 dec2 out -> sphdist_src_cert uin uout tol ra1 dec1 ra2 dec2 out)
  /\ (forall tol ra1 dec1 ra2 dec2 out,
     sep_ok Deg Rad tol ra1 dec1 ra2 dec2 out -> gcirc_src_cert tol ra1 dec1 ra2 dec2 out).
Proof. split; [exact sphdist_src_cert_intro | exact gcirc_src_cert_intro]. Qed.

Lemma checkers_sound_thm :
  (forall uout pts outs, outs_ok uout pts outs = true -> Forall2 (out_spec uout) pts outs)
  /\ (forall a b, all_same a b = true -> Forall2 (fun x y => Q2R x = Q2R y) a b)
  /\ (forall tol a b, all_close tol a b = true -> Forall2 (fun x y => Rabs (Q2R x - Q2R y) <= Q2R tol) a b)
  /\ (forall t a b tol, Rabs (a - t) <= tol -> Rabs (b - t) <= tol -> Rabs (a - b) <= 2 * tol)
  /\ Q2R pi_lo < PI < Q2R pi_hi.
Proof.
  split; [exact outs_ok_sound|]. split; [exact all_same_sound|]. split; [exact all_close_sound|].
  split; [exact shift_triangle|]. split; [exact pi_lo_lt_PI | exact PI_lt_pi_hi].
Qed.

Lemma float_zero_identical_thm :
  (forall O uin uout ra dec, PrimFloat.is_nan ra = false -> PrimFloat.is_nan dec = false ->
     sphdist_f O uin uout ra dec ra dec = PrimFloat.zero)
  /\ (forall O ra dec, PrimFloat.is_nan (d2r_f ra) = false -> PrimFloat.is_nan (d2r_f dec) = false ->
     gcirc_f O ra dec ra dec = PrimFloat.zero).
Proof. split; [exact sphdist_f_identical | exact gcirc_f_identical]. Qed.

Lemma functions_agree_thm : forall ra1 dec1 ra2 dec2,
  sphdist_code Deg Rad ra1 dec1 ra2 dec2 = gcirc_code ra1 dec1 ra2 dec2
  /\ sphdist_src Deg Rad ra1 dec1 ra2 dec2 = gcirc_src ra1 dec1 ra2 dec2.
Proof.
  intros. rewrite sphdist_code_exact, gcirc_code_exact, sphdist_src_exact, gcirc_src_exact. split; reflexivity.
Qed.

Lemma branch_conditioning_thm :
  (forall d d', 0 <= d -> 0 <= d' -> d * d <= sphdist_thr -> d' * d' <= sphdist_thr ->
     Rabs (2 * asin (/ 2 * d) - 2 * asin (/ 2 * d')) <= 2001 / 100 * Rabs (d - d'))
  /\ (forall u v, is_unit u -> is_unit v -> sphdist_thr <= nsq (vsub u v) -> nsq (cross u v) <= / 100)
  /\ (forall s s', 0 <= s <= / 10 -> 0 <= s' <= / 10 ->
     Rabs ((PI - asin s) - (PI - asin s')) <= 1006 / 1000 * Rabs (s - s')).
Proof. split; [exact chord_branch_conditioning|]. split; [exact cross_branch_small | exact cross_branch_conditioning]. Qed.

(* C08 -- the property: the separation functions return the true great-circle angle.
   Independent vocabulary (points of the unit sphere, dot product, angle) plus the boolean
   checkers that the harness evaluates on the exact rational values of the implementation's
   outputs (range, symmetry, exact zero, equality of container forms, closeness). *)
From Coq Require Import Reals QArith Qreals Qabs List Bool.
Import ListNotations.
From EsVerif.C08 Require Import Model.
Open Scope R_scope.

Definition dot (u v : vec3) : R :=
  let '(x1, y1, z1) := u in let '(x2, y2, z2) := v in x1 * x2 + y1 * y2 + z1 * z2.

Definition is_unit (u : vec3) : Prop := dot u u = 1.

(* the point of the unit sphere with longitude lon and latitude lat (radians) *)
Definition point (lon lat : R) : vec3 := (cos lat * cos lon, cos lat * sin lon, sin lat).

(* great-circle angle (radians, in [0, PI]) between two unit vectors *)
Definition angle (u v : vec3) : R := acos (dot u v).

(* true separation, in radians, of (ra1,dec1) and (ra2,dec2) given in units u *)
Definition true_sep (u : unit_t) (ra1 dec1 ra2 dec2 : R) : R :=
  angle (point (to_rad u ra1) (to_rad u dec1)) (point (to_rad u ra2) (to_rad u dec2)).

(* the tolerance of the statement (given in degrees) expressed in the output unit *)
Definition tol_in (u : unit_t) (tol_deg : R) : R := match u with Deg => tol_deg | Rad => tol_deg * (PI / 180) end.

(* what the property demands of an output [out] for one pair *)
Definition sep_ok (uin uout : unit_t) (tol_deg : R) (ra1 dec1 ra2 dec2 out : R) : Prop :=
  Rabs (from_rad uout (true_sep uin ra1 dec1 ra2 dec2) - out) <= tol_in uout tol_deg.

(* ---- boolean checkers on exact rationals (outputs of the implementation) ---- *)
Open Scope Q_scope.

(* binary64 neighbours of pi: pi_lo = np.pi < PI < pi_hi = nextafter(np.pi, 4) *)
Definition pi_lo : Q := 884279719003555 # 281474976710656.
Definition pi_hi : Q := 7074237752028441 # 2251799813685248.

(* 0 <= out <= 180 degrees (a binary64 radian value is <= PI iff it is <= pi_lo) *)
Definition range_check (uout : unit_t) (out : Q) : bool :=
  Qle_bool 0 out && Qle_bool out (match uout with Deg => 180 | Rad => pi_lo end).

Definition same_check (a b : Q) : bool := Qeq_bool a b.          (* bit-level equality of finite floats *)
Definition zero_check (out : Q) : bool := Qeq_bool out 0.
Definition close_check (tol a b : Q) : bool := Qle_bool (Qabs (a - b)) tol.
Definition ident_inputs (ra1 dec1 ra2 dec2 : Q) : bool := Qeq_bool ra1 ra2 && Qeq_bool dec1 dec2.

(* ---- list level: one call of the implementation on n pairs ---- *)
Definition pt : Type := (Q * Q * Q * Q)%type.
Definition pt_ident (p : pt) : bool := let '(ra1, dec1, ra2, dec2) := p in ident_inputs ra1 dec1 ra2 dec2.

(* every output in range, exactly zero where the two points are identical; one output per pair *)
Definition out_ok (uout : unit_t) (p : pt) (o : Q) : bool :=
  range_check uout o && (if pt_ident p then zero_check o else true).
Fixpoint outs_ok (uout : unit_t) (pts : list pt) (outs : list Q) : bool :=
  match pts, outs with
  | [], [] => true
  | p :: ps, o :: os => out_ok uout p o && outs_ok uout ps os
  | _, _ => false
  end.
Fixpoint all2 (f : Q -> Q -> bool) (a b : list Q) : bool :=
  match a, b with
  | [], [] => true
  | x :: a', y :: b' => f x y && all2 f a' b'
  | _, _ => false
  end.
Definition all_same : list Q -> list Q -> bool := all2 same_check.
Definition all_close (tol : Q) : list Q -> list Q -> bool := all2 (close_check tol).
Definition all_range (uout : unit_t) (outs : list Q) : bool := forallb (range_check uout) outs.

Open Scope R_scope.
Definition range_hi (uout : unit_t) : R := match uout with Deg => 180 | Rad => PI end.
Definition out_spec (uout : unit_t) (p : pt) (o : Q) : Prop :=
  0 <= Q2R o <= range_hi uout /\ (pt_ident p = true -> Q2R o = 0).

(* C03/TextRows.v — proof-deepening round: the ROWS of a text file.

   Until now the text form of a chunk was an abstract function [enc] and the C03 theorems stated, for
   text files, the bytes and the row count only.  Here [enc] is instantiated with C04's verified model
   of the writer (TextModel.write_text over the chunk seen as a C04 table), and C04's round-trip theorem
   is lifted from one write to a whole history: the data region of a file that C03's machine built from
   any number of accepted chunks (in any byte order) is the text of ONE table holding all their rows in
   order, hence reading it with C04's reader returns exactly those rows (floating-point cells through
   the printf/scanf contract of C04, everything else bit for bit). *)
From Coq Require Import ZArith List Bool NArith Lia.
From Coq.Strings Require Import Byte String.
From EsVerif.Common Require Import Base Bytes.
From EsVerif.C01 Require Framing FramingProofs.
From EsVerif.C04 Require Import TextModel Spec WriteProofs RoundTrip CheckProofs.
From EsVerif.C03 Require Import Model Spec Lemmas Proofs.
Import ListNotations.
Open Scope Z_scope.
Open Scope list_scope.
Notation length := List.length.

(* ------------------------------------------------------------------ a chunk as a C04 table *)
Definition kind_of (f : Framing.field) : TextModel.kind :=
  let n := Z.to_nat (Framing.f_size f) in
  if byte_eqb (Framing.f_kind f) "i"%byte then KInt true n
  else if byte_eqb (Framing.f_kind f) "u"%byte then KInt false n
  else if byte_eqb (Framing.f_kind f) "f"%byte then KFlt n
  else KStr n.
Definition order_of (f : Framing.field) : TextModel.order :=
  if byte_eqb (Framing.f_order f) ">"%byte then BE else if byte_eqb (Framing.f_order f) "<"%byte then LE else NA.
Definition fld_of (f : Framing.field) : fld :=
  {| fname := Framing.f_name f; fkind := kind_of f; forder := order_of f; fshape := Framing.f_shape f |}.
Definition flds_of (dt : Framing.dtype) : list fld := map fld_of dt.

(* numpy's memory image of one row, cut into fields and elements *)
Fixpoint chop (n size : nat) (l : list byte) : list (list byte) * list byte :=
  match n with
  | O => ([], l)
  | S k => let '(els, rest) := chop k size (skipn size l) in (firstn size l :: els, rest)
  end.
Fixpoint split_row (fs : list fld) (l : list byte) : TextModel.row :=
  match fs with
  | [] => []
  | f :: fs' => let '(els, rest) := chop (fnel f) (elsize (fkind f)) l in els :: split_row fs' rest
  end.
Definition table_of (c : chunk) : table :=
  {| tdt := flds_of (c_dt c); trows := map (split_row (flds_of (c_dt c))) (c_rows c) |}.

(* the native rows of a table, as Recfile.write hands them to the C writer *)
Definition native_rows (t : table) : list TextModel.row := map (to_native_row (tdt t)) (trows t).

(* ONE table with the rows of many, read with the fields [fs0] of the file's header *)
Definition combined (fs0 : list fld) (tabs : list table) : table :=
  {| tdt := map native_fld fs0; trows := concat (map native_rows tabs) |}.

(* ------------------------------------------------------------------ writing distributes *)
Lemma to_native_row_length : forall fs r, (length (to_native_row fs r) <= length fs)%nat.
Proof. induction fs as [|f fs IH]; intros [|els r]; simpl; try lia. specialize (IH r). lia. Qed.

Lemma to_native_row_id : forall fs r, (length r <= length fs)%nat -> to_native_row (map native_fld fs) r = r.
Proof.
  induction fs as [|f fs IH]; intros [|els r] H; simpl in *; try reflexivity; try lia.
  rewrite IH by lia. f_equal. rewrite <- (map_id els) at 2. apply map_ext. intro e. apply to_native_el_native.
Qed.

Section Text.
  Variable F P : nat -> list byte -> list byte.

  Lemma write_rows_app d fs a b : write_rows F d fs (a ++ b) = write_rows F d fs a ++ write_rows F d fs b.
  Proof. unfold write_rows. rewrite map_app, concat_app. reflexivity. Qed.

  Lemma write_text_rows d t : write_text F d t = write_rows F d (tdt t) (native_rows t).
  Proof. reflexivity. Qed.

  (* the text of the combined table is the concatenation of the texts of its parts, whatever the
     byte orders (and names) of the parts, as long as the kinds agree field by field *)
  Theorem write_text_combined d fs0 : forall tabs,
    (forall t, In t tabs -> map fkind (tdt t) = map fkind fs0) ->
    write_text F d (combined fs0 tabs) = concat (map (write_text F d) tabs).
  Proof.
    assert (K0 : map fkind (map native_fld fs0) = map fkind fs0) by (rewrite map_map; reflexivity).
    unfold write_text, combined. cbn [tdt trows].
    induction tabs as [|t tabs IH]; intro H; [reflexivity|].
    cbn [map concat]. rewrite map_app, write_rows_app.
    rewrite IH by (intros t' Ht'; apply H; right; exact Ht'). f_equal.
    assert (Kt : map fkind (tdt t) = map fkind fs0) by (apply H; left; reflexivity).
    assert (E : map (to_native_row (map native_fld fs0)) (native_rows t) = native_rows t).
    { unfold native_rows. rewrite map_map. apply map_ext. intro r. apply to_native_row_id.
      pose proof (to_native_row_length (tdt t) r) as L.
      assert (length (tdt t) = length fs0) by (rewrite <- (map_length fkind (tdt t)), Kt, map_length; reflexivity).
      lia. }
    rewrite E. apply write_rows_kinds. rewrite K0. symmetry. exact Kt.
  Qed.

  (* C04's round trip, lifted: the concatenated texts read back as the rows of all parts *)
  Theorem read_concatenated_texts d fs0 tabs :
    (forall t, In t tabs -> map fkind (tdt t) = map fkind fs0) ->
    let T := combined fs0 tabs in
    table_ok T -> delim_ok d -> fcontract F P T -> kf_leading_ws_after_numeric d T = false ->
    read_text P d (tdt T) (Z.of_nat (length (trows T))) (concat (map (write_text F d) tabs)) = Ok (expected F P T)
    /\ roundtrip_ok T (read_text P d (tdt T) (Z.of_nat (length (trows T))) (concat (map (write_text F d) tabs))).
  Proof.
    intros H T Ht Hd Hc Hk. rewrite <- (write_text_combined d fs0 tabs H). fold T.
    pose proof (roundtrip_model F P d Hd T Ht Hc Hk) as E.
    split; [exact E|]. rewrite E. apply expected_ok; assumption.
  Qed.

  (* ---------------------------------------------------------------- the C03 machine with C04's writer *)
  Variable meta : list byte -> option (delim * Framing.dtype * list byte).

  Definition enc_text (dl : list byte) (c : chunk) : list byte :=
    match dl with [d] => write_text F d (table_of c) | _ => [] end.

  Lemma kind_of_strip f : kind_of (strip_order f) = kind_of f.
  Proof. reflexivity. Qed.

  Lemma kinds_of_compat dl fdt cdt : compat (Some dl) fdt cdt = true ->
    map fkind (flds_of cdt) = map fkind (flds_of fdt).
  Proof.
    intro K. apply compat_exact in K. unfold flds_of. rewrite !map_map.
    change (map (fun x => fkind (fld_of x)) cdt) with (map kind_of cdt).
    change (map (fun x => fkind (fld_of x)) fdt) with (map kind_of fdt).
    assert (S : forall l, map kind_of l = map kind_of (map strip_order l)).
    { intro l. rewrite map_map. apply map_ext. intro f. symmetry. apply kind_of_strip. }
    rewrite (S cdt), (S fdt), K. reflexivity.
  Qed.

  Lemma length_native_rows (l : list chunk) :
    Z.of_nat (length (concat (map native_rows (map table_of l)))) = zsum (map nrows l).
  Proof.
    induction l as [|c t IH]; [reflexivity|]. cbn [map concat]. rewrite app_length, Nat2Z.inj_add, IH.
    assert (L : length (native_rows (table_of c)) = length (c_rows c)).
    { unfold native_rows, table_of. cbn [tdt trows]. rewrite !map_length. reflexivity. }
    rewrite L. unfold zsum, nrows. cbn [map fold_right]. reflexivity.
  Qed.

  (* The file a history built in text form: its header gives total / dtype / user header; the bytes
     after the header are the text of ONE table with all rows of all accepted chunks in order;
     C04's reader, given the header's fields and row count, returns them. *)
  Theorem text_file_rows s af o d :
    Inv meta enc_text s (AFile af o) -> a_dl af = Some [d] -> total af < 10 ^ 20 ->
    let T := combined (flds_of (a_dt af)) (map table_of (a_chunks af)) in
    table_ok T -> delim_ok d -> fcontract F P T -> kf_leading_ws_after_numeric d T = false ->
    exists f off,
      disk s = Some f
      /\ read_meta meta f = Ok (total af, off, a_dl af, a_dt af, a_u af)
      /\ skipn off f = write_text F d T
      /\ Z.of_nat (length (trows T)) = total af
      /\ read_text P d (tdt T) (total af) (skipn off f) = Ok (expected F P T)
      /\ roundtrip_ok T (read_text P d (tdt T) (total af) (skipn off f)).
  Proof.
    intros [OK ->] N B T Ht Hd Hc Hk.
    exists (image enc_text af), (length (Framing.mk_header (total af) (a_d af))). cbn [disk].
    split; [reflexivity|]. split; [apply (read_meta_image meta enc_text); assumption|].
    assert (Hkinds : forall t, In t (map table_of (a_chunks af)) -> map fkind (tdt t) = map fkind (flds_of (a_dt af))).
    { intros t Ht'. apply in_map_iff in Ht' as [c [<- Hc']].
      destruct OK as (_ & _ & _ & _ & _ & KK). rewrite Forall_forall in KK. specialize (KK c Hc').
      rewrite N in KK. unfold table_of. cbn [tdt]. apply (kinds_of_compat [d]). exact KK. }
    assert (Body : skipn (length (Framing.mk_header (total af) (a_d af))) (image enc_text af)
                   = concat (map (write_text F d) (map table_of (a_chunks af)))).
    { unfold image. rewrite skipn_app_exact by reflexivity. unfold body. rewrite N. cbn [payload enc_text].
      rewrite map_map. reflexivity. }
    assert (Len : Z.of_nat (length (trows T)) = total af).
    { unfold T, combined. cbn [trows]. rewrite length_native_rows. reflexivity. }
    pose proof (read_concatenated_texts d (flds_of (a_dt af)) (map table_of (a_chunks af)) Hkinds Ht Hd Hc Hk) as [R1 R2].
    fold T in R1, R2. rewrite Len in R1, R2.
    split; [rewrite Body; symmetry; apply write_text_combined; exact Hkinds|].
    split; [exact Len|]. rewrite Body. split; assumption.
  Qed.
End Text.

(* ------------------------------------------------------------------ a closed witness *)
(* a ','-delimited file created from a little-endian chunk, a big-endian chunk written through the
   same object, closed: every premise of text_file_rows holds and the rows come back in order, the
   big-endian value 3 in native order *)
Definition tx_F (sz : nat) (e : list byte) : list byte := e.
Definition tx_fld (o : byte) : Framing.field :=
  {| Framing.f_name := [x78]; Framing.f_order := o; Framing.f_kind := "i"%byte; Framing.f_size := 2; Framing.f_shape := [] |}.
Definition tx_s : Framing.field :=
  {| Framing.f_name := [x73]; Framing.f_order := "|"%byte; Framing.f_kind := "S"%byte; Framing.f_size := 2; Framing.f_shape := [] |}.
Definition tx_dt : Framing.dtype := [tx_fld "<"%byte; tx_s].
Definition tx_dt_be : Framing.dtype := [tx_fld ">"%byte; tx_s].
Definition tx_d : list byte := Framing.B "{'_DELIM': ',', '_DTYPE': [('x', 'i2'), ('s', 'S2')], '_VERSION': '1.0', 'run': 7}".
Definition tx_u : list byte := Framing.B "run=7".
Definition tx_meta (t : list byte) : option (delim * Framing.dtype * list byte) :=
  if bytes_eqb t tx_d then Some (Some [x2c], tx_dt, tx_u) else None.
Definition tx_c1 : chunk := {| c_dt := tx_dt; c_rows := [[x01; x00; x61; x62]; [xfe; xff; x63; x64]]; c_back := []; c_txt := [] |}.
Definition tx_c2 : chunk := {| c_dt := tx_dt_be; c_rows := [[x00; x03; x65; x66]]; c_back := []; c_txt := [] |}.
Definition tx_ops : list op := [Create (Some [x2c]) tx_c1 tx_d tx_u; WriteAgain tx_c2 [] []; Close].
Definition tx_af : afile := add_chunk (new_file (Some [x2c]) tx_c1 tx_d tx_u) tx_c2.
Definition tx_T : table := combined (flds_of (a_dt tx_af)) (map table_of (a_chunks tx_af)).

Lemma text_rows_nonvacuous :
  hist_wf tx_meta AMissing tx_ops /\ hist_rows tx_ops < 10 ^ 20
  /\ fold_left (fun a o => fst (astep a o)) tx_ops AMissing = AFile tx_af None
  /\ table_ok tx_T /\ delim_ok x2c /\ fcontract tx_F tx_F tx_T /\ kf_leading_ws_after_numeric x2c tx_T = false
  /\ disk (final tx_meta (enc_text tx_F) init tx_ops)
     = Some (Framing.mk_header 3 tx_d ++ Framing.B "1,ab" ++ [x0a] ++ Framing.B "-2,cd" ++ [x0a] ++ Framing.B "3,ef" ++ [x0a])
  /\ read_text tx_F x2c (tdt tx_T) 3 (Framing.B "1,ab" ++ [x0a] ++ Framing.B "-2,cd" ++ [x0a] ++ Framing.B "3,ef" ++ [x0a])
     = Ok {| tdt := tdt tx_T;
             trows := [[[[x01; x00]]; [[x61; x62]]]; [[[xfe; xff]]; [[x63; x64]]]; [[[x03; x00]]; [[x65; x66]]]] |}.
Proof.
  split.
  { unfold tx_ops. simpl hist_wf. unfold chunk_ok, rows_fit, header_ok.
    repeat split; try discriminate; try (vm_compute; reflexivity); repeat constructor. }
  repeat split; vm_compute; reflexivity.
Qed.

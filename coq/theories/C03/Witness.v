(* C03/Witness.v — the clauses of the statement as corollaries of the refinement, closed
   witnesses (non-vacuity) and the refutations of the code as found. *)
From Coq Require Import ZArith List Bool NArith Lia.
From Coq.Strings Require Import Byte String.
From EsVerif.Common Require Import Base Bytes.
From EsVerif.C01 Require Import Framing FramingProofs.
From EsVerif.C03 Require Import Model Spec Lemmas Proofs.
Import ListNotations.
Open Scope Z_scope.
Open Scope list_scope.
Notation length := List.length.

Section Clauses.
  Variable meta : list byte -> option (delim * dtype * list byte).
  Variable enc : list byte -> chunk -> list byte.

  (* histories started on a path that does not exist *)
  Theorem history_from_init ops :
    hist_wf meta AMissing ops -> hist_rows ops < 10 ^ 20 ->
    hist_ok AMissing None ops (run meta enc init ops)
    /\ Inv meta enc (final meta enc init ops) (fold_left (fun a o => fst (astep a o)) ops AMissing).
  Proof.
    intros W B. apply (history_refines meta enc ops init AMissing); [reflexivity | exact W | simpl; lia].
  Qed.

  (* the file IS header(total) ++ chunk_1 ++ ... ++ chunk_k, and reading it returns the total,
     the dtype, the user header and (binary) every row of every chunk in order *)
  Theorem file_is_concatenation s af o :
    Inv meta enc s (AFile af o) -> total af < 10 ^ 20 ->
    disk s = Some (mk_header (total af) (a_d af) ++ concat (map (payload enc (a_dl af)) (a_chunks af)))
    /\ read_back meta s
       = ORead (total af) (a_dt af)
               (match a_dl af with None => Some (concat (map c_rows (a_chunks af))) | Some _ => None end) (a_u af).
  Proof.
    intros [OK ->] B. split; [reflexivity|].
    rewrite read_back_image by assumption. destruct (a_dl af) eqn:N; [reflexivity|].
    rewrite (all_rows_binary af N). reflexivity.
  Qed.

  (* an incompatible append: error, and not one byte of the file changes — on the open object
     and through sfile.write(..., append=True) *)
  Theorem rejected_append_frame s af o dl c d u :
    Inv meta enc s (AFile af o) -> total af < 10 ^ 20 ->
    compat (a_dl af) (a_dt af) (c_dt c) = false ->
    (snd (step meta enc s (FnWrite true dl c d u)) = OErr EValue
     /\ disk (fst (step meta enc s (FnWrite true dl c d u))) = disk s)
    /\ (forall m, o = Some m -> step meta enc s (WriteAgain c d u) = (s, OErr EValue)).
  Proof.
    intros [OK ->] B K. split.
    - cbn [step]. rewrite close_state, reopen_image by assumption.
      rewrite write_rejected by exact K. rewrite close_state. split; reflexivity.
    - intros m ->. cbn [step option_map]. apply write_rejected. exact K.
  Qed.

  (* an append to a path that does not exist creates the file (repair 0001) *)
  Theorem append_missing_creates dl c d u :
    chunk_ok c -> header_ok meta dl c d u -> nrows c < 10 ^ 20 ->
    let r := step meta enc init (FnWrite true dl c d u) in
    snd r = OOk
    /\ disk (fst r) = Some (mk_header (nrows c) d ++ payload enc dl c)
    /\ read_back meta (fst r)
       = ORead (nrows c) (file_dtype dl (c_dt c))
               (match dl with None => Some (c_rows c) | Some _ => None end) u.
  Proof.
    intros C H B. pose proof H as [T M].
    cbn [step]. unfold init. rewrite close_state, reopen_missing. unfold open_w.
    rewrite (write_fresh meta enc dl c d u T). rewrite close_state. cbn [fst snd disk].
    split; [reflexivity|]. split; [rewrite (image_new meta enc); reflexivity|].
    rewrite read_back_image; [| apply af_ok_new; assumption | rewrite (total_new meta enc); exact B].
    rewrite (total_new meta enc). cbn [new_file a_dt a_dl a_u]. destruct dl; [reflexivity|].
    unfold all_rows, new_file. cbn [a_dl a_chunks map back concat]. rewrite app_nil_r. reflexivity.
  Qed.

  (* a non-append write replaces whatever was there — from ANY state *)
  Theorem overwrite_replaces s dl c d u :
    chunk_ok c -> header_ok meta dl c d u -> nrows c < 10 ^ 20 ->
    let r := step meta enc s (FnWrite false dl c d u) in
    snd r = OOk
    /\ disk (fst r) = Some (mk_header (nrows c) d ++ payload enc dl c)
    /\ Inv meta enc (fst r) (AFile (new_file dl c d u) None).
  Proof.
    intros C H B. pose proof H as [T M].
    cbn [step]. unfold open_w. rewrite (write_fresh meta enc dl c d u T). rewrite close_state. cbn [fst snd disk].
    split; [reflexivity|]. split; [rewrite (image_new meta enc); reflexivity|].
    split; [apply af_ok_new; assumption | reflexivity].
  Qed.
  (* on a file that exists, the header= and delim= keywords of an append, of a later write
     through the open object and of a reopen are ignored: the file's own header and
     delimiter count *)
  Theorem append_ignores_keywords s af o c dl dl' d d' u u' :
    Inv meta enc s (AFile af o) -> total af + nrows c < 10 ^ 20 -> chunk_ok c ->
    step meta enc s (FnWrite true dl c d u) = step meta enc s (FnWrite true dl' c d' u')
    /\ step meta enc s (Reopen dl) = step meta enc s (Reopen dl')
    /\ (forall m, o = Some m -> step meta enc s (WriteAgain c d u) = step meta enc s (WriteAgain c d' u')).
  Proof.
    intros [OK ->] B C.
    assert (P : 1 <= nrows c).
    { destruct C as [H _]. unfold nrows. destruct (c_rows c); [contradiction | simpl; lia]. }
    assert (T : total af < 10 ^ 20) by lia.
    split; [|split].
    - cbn [step]. rewrite !close_state, !(reopen_image meta enc) by assumption.
      destruct (compat (a_dl af) (a_dt af) (c_dt c)) eqn:K.
      + rewrite !(write_append meta enc) by (try assumption; lia). reflexivity.
      + rewrite !write_rejected by exact K. reflexivity.
    - cbn [step]. rewrite !close_state, !(reopen_image meta enc) by assumption. reflexivity.
    - intros m ->. cbn [step option_map].
      destruct (compat (a_dl af) (a_dt af) (c_dt c)) eqn:K.
      + rewrite !(write_append meta enc) by (try assumption; lia). reflexivity.
      + rewrite !write_rejected by exact K. reflexivity.
  Qed.
End Clauses.

(* ------------------------------------------------------------------ closed witnesses *)
Definition ex_dt : dtype := [{| f_name := B "x"; f_order := "<"%byte; f_kind := "i"%byte; f_size := 2; f_shape := [] |}].
Definition ex_dt4 : dtype := [{| f_name := B "x"; f_order := "<"%byte; f_kind := "i"%byte; f_size := 4; f_shape := [] |}].
Definition ex_d : list byte := B "{'_DTYPE': [('x', '<i2')], '_VERSION': '1.0', 'k': 'THE END'}".
Definition ex_u : list byte := B "k=THE END".
Definition ex_meta (t : list byte) : option (delim * dtype * list byte) :=
  if bytes_eqb t ex_d then Some (None, ex_dt, ex_u) else None.
Definition ex_enc (d : list byte) (c : chunk) : list byte := [].
Definition ex_c1 : chunk := {| c_dt := ex_dt; c_rows := [[x01; x00]; [x02; x00]]; c_back := []; c_txt := [] |}.
Definition ex_c2 : chunk := {| c_dt := ex_dt; c_rows := [[x03; x00]]; c_back := []; c_txt := [] |}.
Definition ex_c3 : chunk := {| c_dt := ex_dt; c_rows := [[xff; x7f]; [x00; x80]; [x05; x00]]; c_back := []; c_txt := [] |}.
Definition ex_bad : chunk := {| c_dt := ex_dt4; c_rows := [[x09; x00; x00; x00]]; c_back := []; c_txt := [] |}.

(* create, write again on the same object, read while it is open, close, append by reopening,
   an incompatible append, read *)
Definition ex_ops : list op :=
  [Create None ex_c1 ex_d ex_u; WriteAgain ex_c2 [] []; Read; Close; FnWrite true None ex_c3 [] [];
   FnWrite true None ex_bad [] []; Read].

Lemma ex_chunk_ok : chunk_ok ex_c1 /\ chunk_ok ex_c2 /\ chunk_ok ex_c3 /\ chunk_ok ex_bad.
Proof.
  unfold chunk_ok, rows_fit. repeat split; try discriminate; try reflexivity; repeat constructor.
Qed.

Lemma ex_header_ok : header_ok ex_meta None ex_c1 ex_d ex_u.
Proof. split; vm_compute; reflexivity. Qed.

Lemma nonvacuous :
  hist_wf ex_meta AMissing ex_ops /\ hist_rows ex_ops < 10 ^ 20
  /\ run ex_meta ex_enc init ex_ops
     = let f2 := mk_header 2 ex_d ++ [x01; x00; x02; x00] in
       let f3 := mk_header 3 ex_d ++ [x01; x00; x02; x00; x03; x00] in
       let f6 := mk_header 6 ex_d ++ [x01; x00; x02; x00; x03; x00; xff; x7f; x00; x80; x05; x00] in
       [(OOk, Some f2); (OOk, Some f3);
        (ORead 3 ex_dt (Some [[x01; x00]; [x02; x00]; [x03; x00]]) ex_u, Some f3);
        (OOk, Some f3); (OOk, Some f6); (OErr EValue, Some f6);
        (ORead 6 ex_dt (Some [[x01; x00]; [x02; x00]; [x03; x00]; [xff; x7f]; [x00; x80]; [x05; x00]]) ex_u, Some f6)].
Proof.
  destruct ex_chunk_ok as (C1 & C2 & C3 & C4).
  split; [|split; [vm_compute; reflexivity | vm_compute; reflexivity]].
  unfold ex_ops. simpl hist_wf.
  repeat split; try exact ex_header_ok; try apply C1; try apply C2; try apply C3; try apply C4.
Qed.

(* ------------------------------------------------------------------ the code as found *)
(* (1) sfile.write(f, c, append=True) on a missing path: an error, nothing is created *)
Lemma asfound_append_missing_refuted :
  exists meta enc dl c d u,
    chunk_ok c /\ header_ok meta dl c d u /\ nrows c < 10 ^ 20
    /\ snd (fn_append_v0 meta enc dl c d init) <> OOk
    /\ disk (fst (fn_append_v0 meta enc dl c d init)) = None.
Proof.
  exists ex_meta, ex_enc, None, ex_c1, ex_d, ex_u.
  split; [apply ex_chunk_ok|]. split; [exact ex_header_ok|].
  split; [vm_compute; reflexivity|]. split; [vm_compute; discriminate | reflexivity].
Qed.

(* (2) an incompatible chunk written to a binary file through an open object: accepted, the
   bytes of the file change, and a read now returns rows that were never written *)
Lemma asfound_incompatible_binary_refuted :
  exists meta enc s af m c d,
    Inv meta enc s (AFile af (Some m)) /\ total af < 10 ^ 20 /\ chunk_ok c
    /\ compat (a_dl af) (a_dt af) (c_dt c) = false
    /\ snd (sf_write_v0 enc c d s) = OOk
    /\ disk (fst (sf_write_v0 enc c d s)) <> disk s
    /\ read_back meta (fst (sf_write_v0 enc c d s)) <> read_back meta s.
Proof.
  exists ex_meta, ex_enc.
  exists {| disk := Some (image ex_enc (new_file None ex_c1 ex_d ex_u));
            hnd := Some (open_handle (new_file None ex_c1 ex_d ex_u) MW) |}.
  exists (new_file None ex_c1 ex_d ex_u), MW, ex_bad, [].
  split; [split; [apply af_ok_new; [apply ex_chunk_ok | exact ex_header_ok] | reflexivity]|].
  split; [vm_compute; reflexivity|]. split; [apply ex_chunk_ok|].
  split; [vm_compute; reflexivity|]. split; [vm_compute; reflexivity|].
  split; [vm_compute; discriminate | vm_compute; discriminate].
Qed.

(* C03/GenDeep.v — the exact rejection set in terms of the test TRANSLATED from the source. *)
From Coq Require Import ZArith List Bool.
From Coq.Strings Require Import Byte.
From EsVerif.Common Require Import Base Bytes.
From EsVerif.C01 Require Import Framing.
From EsVerif.C03 Require Import Model Spec Lemmas Proofs Deep GenLib Gen GenTie.
Open Scope Z_scope.

(* the test of _ensure_compatible_dtype as translated from the working tree *)
Definition gen_bad (dl : delim) (fdt cdt : dtype) : bool :=
  match dl with None => gen_bad_binary fdt cdt | Some _ => gen_bad_text fdt cdt end.

Lemma compat_gen dl fdt cdt : compat dl fdt cdt = negb (gen_bad dl fdt cdt).
Proof. exact (tie_compatible dl fdt cdt). Qed.

(* On a file that exists an append raises exactly the translated exception class, exactly when the
   translated test says "bad", and succeeds exactly when it does not. *)
Lemma rejection_is_source_test meta enc s af o c dl d u :
  Inv meta enc s (AFile af o) -> total af + nrows c < 10 ^ 20 -> chunk_ok c ->
  (snd (step meta enc s (FnWrite true dl c d u)) = OErr gen_incompatible_error <-> gen_bad (a_dl af) (a_dt af) (c_dt c) = true)
  /\ (snd (step meta enc s (FnWrite true dl c d u)) = OOk <-> gen_bad (a_dl af) (a_dt af) (c_dt c) = false).
Proof.
  intros I B C. destruct (rejection_exact meta enc s af o c dl d u I B C) as (H1 & H2 & _).
  rewrite compat_gen in H1, H2. unfold gen_incompatible_error.
  split.
  - rewrite H2. destruct (gen_bad _ _ _); simpl; split; intro; congruence.
  - rewrite H1. destruct (gen_bad _ _ _); simpl; split; intro; congruence.
Qed.

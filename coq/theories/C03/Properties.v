(* C03 — property theorems only.  Bodies live in Lemmas.v / Proofs.v / Witness.v.

   "Appends accumulate: the file equals the concatenation of all writes."  The model
   (Model.v, on top of C01/Framing.v) describes the code AFTER the three repairs in fixes/C03.
   [meta] (eval of the header text + numpy.dtype) and [enc] (the text form of a chunk, C04's
   subject) are not modelled: they are universally quantified and constrained only by the
   premise Spec.header_ok on the headers that a history creates, which the harness monitors on
   every case.  The text VALUE round trip of a chunk is not part of these theorems: for a text
   file they state the bytes (header ++ printed chunks in order) and the stored row count;
   rows are stated for binary files. *)
From Coq Require Import ZArith List Bool.
From Coq.Strings Require Import Byte String.
From EsVerif.Common Require Import Base Bytes.
From EsVerif.C01 Require Import Framing.
From EsVerif.C04 Require TextModel Spec FmtModel.
From EsVerif.C03 Require Import Model Spec Lemmas Proofs Witness Exec ExecProofs Deep TextRows GenLib Gen GenTie GenDeep.
Import ListNotations.
Open Scope Z_scope.
Open Scope list_scope.
Notation length := List.length.

(* The in-place update of the row count touches nothing but the count: the 28 bytes
   "SIZE = %20ld\n" written at offset 0 of a file that starts with a header for n rows give the
   same file with a header for n' rows (whatever follows the header). *)
Theorem C03_update_row_count_frame : forall n n' d rest,
  0 <= n < 10 ^ 20 -> 0 <= n' < 10 ^ 20 ->
  overwrite (size_line n' ++ [nl]) (mk_header n d ++ rest) = mk_header n' d ++ rest.
Proof. exact update_row_count_frame. Qed.

(* One operation: if the concrete state is the image of an abstract state of the statement
   (file = header(total) ++ chunks; cached size / dtype / delimiter of an open object = those
   of the file), then after the operation it is the image of the abstract successor, and the
   answer and the bytes before/after are what the statement demands (Spec.obs_ok; misuse the
   statement does not talk about is answered by the modelled error and changes no byte). *)
Theorem C03_step_refines : forall meta enc s a o,
  Inv meta enc s a -> op_ok meta a o -> used a + op_rows o < 10 ^ 20 ->
  Inv meta enc (fst (step meta enc s o)) (fst (astep a o))
  /\ answers (snd (astep a o)) (disk s) (snd (step meta enc s o), disk (fst (step meta enc s o))).
Proof. exact step_refines. Qed.

(* Histories.  For EVERY finite sequence over {create, write again on the same object, close,
   reopen for append, sfile.write(append=True|False), read} started on a missing path, with
   well-formed chunks of >= 1 row and the contract on the created headers: every read returns
   the row count, dtype and user header fixed at the last create/overwrite and (binary) the
   rows of all chunks accepted since, in order; accepted writes leave a file; a rejected
   append is an error and leaves the bytes unchanged; and the final state is again the image
   of the abstract state (so the history can be continued). *)
Theorem C03_history : forall meta enc ops,
  hist_wf meta AMissing ops -> hist_rows ops < 10 ^ 20 ->
  hist_ok AMissing None ops (run meta enc init ops)
  /\ Inv meta enc (final meta enc init ops) (fold_left (fun a o => fst (astep a o)) ops AMissing).
Proof. exact history_from_init. Qed.

(* The same from any state that satisfies the invariant. *)
Theorem C03_history_from : forall meta enc ops s a,
  Inv meta enc s a -> hist_wf meta a ops -> used a + hist_rows ops < 10 ^ 20 ->
  hist_ok a (disk s) ops (run meta enc s ops)
  /\ Inv meta enc (final meta enc s ops) (fold_left (fun a o => fst (astep a o)) ops a).
Proof. exact history_refines. Qed.

(* What the invariant means for the bytes and for a read: the file is the header for the
   total row count followed by the chunks in order; reading returns total, dtype, user header
   and, for a binary file, exactly the rows of all chunks in order. *)
Theorem C03_file_is_concatenation : forall meta enc s af o,
  Inv meta enc s (AFile af o) -> total af < 10 ^ 20 ->
  disk s = Some (mk_header (total af) (a_d af) ++ concat (map (payload enc (a_dl af)) (a_chunks af)))
  /\ read_back meta s
     = ORead (total af) (a_dt af)
             (match a_dl af with None => Some (concat (map c_rows (a_chunks af))) | Some _ => None end) (a_u af).
Proof. exact file_is_concatenation. Qed.

(* An append whose fields are incompatible with the file is rejected with an error and leaves
   the file's bytes unchanged (function form and open-object form; binary and text). *)
Theorem C03_rejected_append_frame : forall meta enc s af o dl c d u,
  Inv meta enc s (AFile af o) -> total af < 10 ^ 20 ->
  compat (a_dl af) (a_dt af) (c_dt c) = false ->
  (snd (step meta enc s (FnWrite true dl c d u)) = OErr EValue
   /\ disk (fst (step meta enc s (FnWrite true dl c d u))) = disk s)
  /\ (forall m, o = Some m -> step meta enc s (WriteAgain c d u) = (s, OErr EValue)).
Proof. exact rejected_append_frame. Qed.

(* An append to a file that does not exist yet creates it. *)
Theorem C03_append_missing_creates : forall meta enc dl c d u,
  chunk_ok c -> header_ok meta dl c d u -> nrows c < 10 ^ 20 ->
  let r := step meta enc init (FnWrite true dl c d u) in
  snd r = OOk
  /\ disk (fst r) = Some (mk_header (nrows c) d ++ payload enc dl c)
  /\ read_back meta (fst r)
     = ORead (nrows c) (file_dtype dl (c_dt c))
             (match dl with None => Some (c_rows c) | Some _ => None end) u.
Proof. exact append_missing_creates. Qed.

(* A non-append write replaces the previous contents, from any state whatsoever. *)
Theorem C03_overwrite_replaces : forall meta enc s dl c d u,
  chunk_ok c -> header_ok meta dl c d u -> nrows c < 10 ^ 20 ->
  let r := step meta enc s (FnWrite false dl c d u) in
  snd r = OOk
  /\ disk (fst r) = Some (mk_header (nrows c) d ++ payload enc dl c)
  /\ Inv meta enc (fst r) (AFile (new_file dl c d u) None).
Proof. exact overwrite_replaces. Qed.

(* On a file that exists, header= and delim= given with an append, with a later write through
   the open object, or with a reopen are ignored. *)
Theorem C03_append_ignores_keywords : forall meta enc s af o c dl dl' d d' u u',
  Inv meta enc s (AFile af o) -> total af + nrows c < 10 ^ 20 -> chunk_ok c ->
  step meta enc s (FnWrite true dl c d u) = step meta enc s (FnWrite true dl' c d' u')
  /\ step meta enc s (Reopen dl) = step meta enc s (Reopen dl')
  /\ (forall m, o = Some m -> step meta enc s (WriteAgain c d u) = step meta enc s (WriteAgain c d' u')).
Proof. exact append_ignores_keywords. Qed.

(* The code AS FOUND (before fixes/C03) did not have the last two properties: *)
(* sfile.write(f, c, append=True) on a missing path raised and created nothing; *)
Theorem C03_asfound_append_missing_refuted :
  exists meta enc dl c d u,
    chunk_ok c /\ header_ok meta dl c d u /\ nrows c < 10 ^ 20
    /\ snd (fn_append_v0 meta enc dl c d init) <> OOk
    /\ disk (fst (fn_append_v0 meta enc dl c d init)) = None.
Proof. exact asfound_append_missing_refuted. Qed.

(* an incompatible chunk was accepted into a binary file: the bytes change and a read returns
   something else than before. *)
Theorem C03_asfound_incompatible_binary_refuted :
  exists meta enc s af m c d,
    Inv meta enc s (AFile af (Some m)) /\ total af < 10 ^ 20 /\ chunk_ok c
    /\ compat (a_dl af) (a_dt af) (c_dt c) = false
    /\ snd (sf_write_v0 enc c d s) = OOk
    /\ disk (fst (sf_write_v0 enc c d s)) <> disk s
    /\ read_back meta (fst (sf_write_v0 enc c d s)) <> read_back meta s.
Proof. exact asfound_incompatible_binary_refuted. Qed.

(* Checker soundness: what the correspondence run evaluates on the real code's observations. *)
Theorem C03_checker_sound : forall ops a before os,
  hist_check a before ops os = true -> hist_ok a before ops os.
Proof. exact hist_check_sound. Qed.

(* What the case files evaluate (Exec.run_x, with a reader that does not re-measure the file for
   every row) is the model. *)
Theorem C03_exec_run_is_model : forall meta enc ops s, run_x meta enc s ops = run meta enc s ops.
Proof. exact run_x_eq. Qed.

(* ================================================================== proof-deepening round *)

(* ---- "compatible", exactly: for a binary file the dtypes are equal (byte order included); for a
   text file they are equal once the byte order of every field is forgotten.  This is the whole
   acceptance condition of _ensure_compatible_dtype. *)
Theorem C03_compat_exact : forall dl fdt cdt,
  compat dl fdt cdt = true <->
  match dl with None => fdt = cdt | Some _ => map strip_order fdt = map strip_order cdt end.
Proof. exact compat_exact. Qed.

(* the dtype a file records is compatible with the dtype it was created from (either byte order) *)
Theorem C03_compat_created : forall dl dt, compat dl (file_dtype dl dt) dt = true.
Proof. exact compat_created. Qed.

(* ---- the exact rejection set: on a file that exists an append (function form, or through the open
   object) has exactly two outcomes — Ok iff compatible, ValueError iff not; no other error. *)
Theorem C03_rejection_exact : forall meta enc s af o c dl d u,
  Inv meta enc s (AFile af o) -> total af + nrows c < 10 ^ 20 -> chunk_ok c ->
  (snd (step meta enc s (FnWrite true dl c d u)) = OOk <-> compat (a_dl af) (a_dt af) (c_dt c) = true)
  /\ (snd (step meta enc s (FnWrite true dl c d u)) = OErr EValue <-> compat (a_dl af) (a_dt af) (c_dt c) = false)
  /\ (forall m, o = Some m ->
        (snd (step meta enc s (WriteAgain c d u)) = OOk <-> compat (a_dl af) (a_dt af) (c_dt c) = true)
        /\ (snd (step meta enc s (WriteAgain c d u)) = OErr EValue <-> compat (a_dl af) (a_dt af) (c_dt c) = false)).
Proof. exact rejection_exact. Qed.

(* ---- frame: read, close and the reopen of an existing file change no byte *)
Theorem C03_frame_no_write : forall meta enc s a o,
  Inv meta enc s a -> (o = Read \/ o = Close \/ (exists dl, o = Reopen dl /\ a <> AMissing)) ->
  used a < 10 ^ 20 ->
  disk (fst (step meta enc s o)) = disk s.
Proof. exact frame_no_write. Qed.

(* ---- frame: an accepted append rewrites the 20 digits of the row count and adds the rows at the
   end; "SIZE = ", the header text, the END line and every earlier row keep bytes and positions *)
Theorem C03_frame_append : forall meta enc s af m c d u,
  Inv meta enc s (AFile af (Some m)) -> total af + nrows c < 10 ^ 20 -> chunk_ok c ->
  compat (a_dl af) (a_dt af) (c_dt c) = true ->
  exists old new,
    disk s = Some old /\ disk (fst (step meta enc s (WriteAgain c d u))) = Some new
    /\ firstn 7 new = firstn 7 old
    /\ skipn 27 new = skipn 27 old ++ payload enc (a_dl af) c
    /\ length new = (length old + length (payload enc (a_dl af) c))%nat.
Proof. exact frame_append. Qed.

(* ---- independence of history: a read, the function forms of write, a create and a reopen are
   functions of the file's BYTES (and their own arguments) alone — not of any object state, not of
   how the file came to be *)
Theorem C03_read_depends_on_file_only : forall meta s1 s2, disk s1 = disk s2 -> read_back meta s1 = read_back meta s2.
Proof. exact read_depends_on_file_only. Qed.

Theorem C03_fn_depends_on_file_only : forall meta enc s1 s2 ap dl c d u,
  disk s1 = disk s2 -> step meta enc s1 (FnWrite ap dl c d u) = step meta enc s2 (FnWrite ap dl c d u).
Proof. exact fn_depends_on_file_only. Qed.

Theorem C03_create_depends_on_nothing : forall meta enc s1 s2 dl c d u,
  step meta enc s1 (Create dl c d u) = step meta enc s2 (Create dl c d u).
Proof. exact create_depends_on_nothing. Qed.

Theorem C03_reopen_depends_on_file_only : forall meta enc s1 s2 dl,
  disk s1 = disk s2 -> step meta enc s1 (Reopen dl) = step meta enc s2 (Reopen dl).
Proof. exact reopen_depends_on_file_only. Qed.

(* ---- the checker DECIDES the statement on a list of observations *)
Theorem C03_checker_iff : forall ops a before os, hist_check a before ops os = true <-> hist_ok a before ops os.
Proof. exact hist_check_iff. Qed.

(* ---- text files: the rows.  With the text form of a chunk given by C04's verified model of the
   writer ([enc_text F]: TextModel.write_text over the chunk cut into fields and elements), the data
   region of ANY file the machine built in text form is the text of ONE table with the rows of all
   accepted chunks, in order, in native byte order; and C04's reader, given the fields and the row
   count of the header, returns exactly them (floating-point cells through C04's printf/scanf
   contract [fcontract], outside C04's known class) — C04's round-trip theorem lifted from one
   write to a history. *)
Theorem C03_text_writes_concatenate : forall F d fs0 tabs,
  (forall t, In t tabs -> map TextModel.fkind (TextModel.tdt t) = map TextModel.fkind fs0) ->
  TextModel.write_text F d (combined fs0 tabs) = concat (map (TextModel.write_text F d) tabs).
Proof. exact write_text_combined. Qed.

Theorem C03_text_file_rows : forall F P meta s af o d,
  Inv meta (enc_text F) s (AFile af o) -> a_dl af = Some [d] -> total af < 10 ^ 20 ->
  let T := combined (flds_of (a_dt af)) (map table_of (a_chunks af)) in
  Spec.table_ok T -> Spec.delim_ok d -> Spec.fcontract F P T -> Spec.kf_leading_ws_after_numeric d T = false ->
  exists f off,
    disk s = Some f
    /\ read_meta meta f = Ok (total af, off, a_dl af, a_dt af, a_u af)
    /\ skipn off f = TextModel.write_text F d T
    /\ Z.of_nat (length (TextModel.trows T)) = total af
    /\ TextModel.read_text P d (TextModel.tdt T) (total af) (skipn off f) = Ok (Spec.expected F P T)
    /\ Spec.roundtrip_ok T (TextModel.read_text P d (TextModel.tdt T) (total af) (skipn off f)).
Proof. exact text_file_rows. Qed.

(* non-vacuity of the text theorem: a ','-file from a little-endian and a big-endian chunk *)
Example C03_text_rows_nonvacuous :
  hist_wf tx_meta AMissing tx_ops /\ hist_rows tx_ops < 10 ^ 20
  /\ fold_left (fun a o => fst (astep a o)) tx_ops AMissing = AFile tx_af None
  /\ Spec.table_ok tx_T /\ Spec.delim_ok x2c /\ Spec.fcontract tx_F tx_F tx_T
  /\ Spec.kf_leading_ws_after_numeric x2c tx_T = false
  /\ disk (final tx_meta (enc_text tx_F) init tx_ops)
     = Some (mk_header 3 tx_d ++ B "1,ab" ++ [x0a] ++ B "-2,cd" ++ [x0a] ++ B "3,ef" ++ [x0a])
  /\ TextModel.read_text tx_F x2c (TextModel.tdt tx_T) 3 (B "1,ab" ++ [x0a] ++ B "-2,cd" ++ [x0a] ++ B "3,ef" ++ [x0a])
     = Ok {| TextModel.tdt := TextModel.tdt tx_T;
             TextModel.trows := [[[[x01; x00]]; [[x61; x62]]]; [[[xfe; xff]]; [[x63; x64]]]; [[[x03; x00]]; [[x65; x66]]]] |}.
Proof. exact text_rows_nonvacuous. Qed.

(* non-vacuity of the deepening theorems on the closed binary witness of C03_nonvacuous: the
   incompatible chunk is rejected, the compatible one accepted, exactly *)
Example C03_deep_nonvacuous :
  compat None ex_dt (c_dt ex_bad) = false /\ compat None ex_dt (c_dt ex_c2) = true
  /\ compat (Some [x2c]) tx_dt tx_dt_be = true /\ compat None tx_dt tx_dt_be = false
  /\ chunk_ok ex_c2 /\ chunk_ok ex_bad.
Proof. repeat split; try reflexivity; try discriminate; repeat constructor. Qed.

(* ================================================================== round 6: tie to the source
   C03/Gen.v is GENERATED from esutil/sfile.py and records.cpp (harness/props/c03_translate.py); on every
   run it is regenerated from the working tree and the lemmas of GenTie.v are re-checked against it.
   The three theorems below are about the committed translation (the last integrated tree). *)

(* the model's compatibility decision IS the test translated from _ensure_compatible_dtype *)
Theorem C03_gen_compatible : forall dl fdt cdt,
  compatible dl fdt cdt = negb (match dl with None => gen_bad_binary fdt cdt | Some _ => gen_bad_text fdt cdt end).
Proof. exact tie_compatible. Qed.

(* the model's append arithmetic IS _update_size + update_row_count as translated: the translated new
   size is printed at offset 0 in the translated format and cached *)
Theorem C03_gen_size_update : forall enc c d f h fdt,
  h_hdr h = true -> h_dtype h = Some fdt -> compatible (h_delim h) fdt (c_dt c) = true ->
  let n' := gen_size_new (h_size h) (nrows c) in
  exists h', sf_write enc c d {| disk := Some f; hnd := Some h |}
             = ({| disk := Some (overwrite (size_line n' ++ [nl]) f ++ payload enc (h_delim h) c); hnd := Some h' |}, OOk)
             /\ h_size h' = n'.
Proof. exact tie_size_new. Qed.

Theorem C03_gen_size_line : forall n,
  size_line n ++ [nl] = gen_size_prefix ++ pad_left gen_size_width (dec n) ++ gen_size_suffix.
Proof. exact tie_size_line. Qed.

(* the exact rejection set, in terms of the translated test and the translated exception class *)
Theorem C03_rejection_is_source_test : forall meta enc s af o c dl d u,
  Inv meta enc s (AFile af o) -> total af + nrows c < 10 ^ 20 -> chunk_ok c ->
  (snd (step meta enc s (FnWrite true dl c d u)) = OErr gen_incompatible_error <-> gen_bad (a_dl af) (a_dt af) (c_dt c) = true)
  /\ (snd (step meta enc s (FnWrite true dl c d u)) = OOk <-> gen_bad (a_dl af) (a_dt af) (c_dt c) = false).
Proof. exact rejection_is_source_test. Qed.

Example C03_gen_nonvacuous :
  gen_bad None ex_dt (c_dt ex_bad) = true /\ gen_bad None ex_dt (c_dt ex_c2) = false
  /\ gen_bad (Some [x2c]) tx_dt tx_dt_be = false /\ gen_bad None tx_dt tx_dt_be = true
  /\ gen_fn_mode true = MRP /\ gen_open_mode MRP false = MW /\ gen_size_new 5 3 = 8.
Proof. repeat split; reflexivity. Qed.

(* Non-vacuity: a closed 7-operation history (create, write again, read while open, close,
   append by reopening, an incompatible append, read) meets every premise of C03_history and
   the model computes the expected files and answers. *)
Example C03_nonvacuous :
  hist_wf ex_meta AMissing ex_ops /\ hist_rows ex_ops < 10 ^ 20
  /\ run ex_meta ex_enc init ex_ops
     = let f2 := mk_header 2 ex_d ++ [x01; x00; x02; x00] in
       let f3 := mk_header 3 ex_d ++ [x01; x00; x02; x00; x03; x00] in
       let f6 := mk_header 6 ex_d ++ [x01; x00; x02; x00; x03; x00; xff; x7f; x00; x80; x05; x00] in
       [(OOk, Some f2); (OOk, Some f3);
        (ORead 3 ex_dt (Some [[x01; x00]; [x02; x00]; [x03; x00]]) ex_u, Some f3);
        (OOk, Some f3); (OOk, Some f6); (OErr EValue, Some f6);
        (ORead 6 ex_dt (Some [[x01; x00]; [x02; x00]; [x03; x00]; [xff; x7f]; [x00; x80]; [x05; x00]]) ex_u, Some f6)].
Proof. exact nonvacuous. Qed.

(* C03 — property theorems only (bodies in Lemmas.v / Proofs.v / Witness.v). *)
From Coq Require Import ZArith List Bool.
From Coq.Strings Require Import Byte String.
From EsVerif.Common Require Import Base Bytes.
From EsVerif.C01 Require Import Framing.
From EsVerif.C03 Require Import Model Spec Lemmas.
Import ListNotations.
Open Scope Z_scope.
Open Scope list_scope.

(* Checker soundness: what the correspondence run evaluates on the real code's observations. *)
Theorem C03_checker_sound : forall ops a before os,
  hist_check a before ops os = true -> hist_ok a before ops os.
Proof. exact hist_check_sound. Qed.

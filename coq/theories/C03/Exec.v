(* C03/Exec.v — glue evaluated by generated case files:
   verdict = (model <> implementation ? 1 : 0) + (property checker rejects implementation ? 2 : 0).

   Per case (one history, started on a path that does not exist) the harness supplies:
     mt   the contract table: for every header dict text that the REAL SFile._make_header +
          pprint.pformat produced in this history, joined the way read_header joins it, what the
          REAL eval/numpy.dtype make of it (delimiter, dtype, canonical user entries);
     ops  the operations; every chunk carries, per text delimiter used in the history, the
          text the REAL writer prints for it alone (table c_txt) and the rows the REAL reader
          returns for it alone (c_back);
     os   what the real code did: after every operation its answer and the bytes on disk. *)
From Coq Require Import ZArith List Bool NArith.
From Coq.Strings Require Import Byte String.
From EsVerif.Common Require Import Base Bytes.
From EsVerif.C01 Require Import Framing.
From EsVerif.C03 Require Import Model Spec.
Import ListNotations.
Open Scope Z_scope.
Open Scope list_scope.
Notation length := List.length.

(* literal helpers for the printers *)
Definition fld (name order kind : list byte) (size : Z) (shape : list Z) : field :=
  {| f_name := name; f_order := hd x00 order; f_kind := hd x00 kind; f_size := size; f_shape := shape |}.
Definition mkc (dt : dtype) (rows back : list (list byte)) (txt : list (list byte * list byte)) : chunk :=
  {| c_dt := dt; c_rows := rows; c_back := back; c_txt := txt |}.

Fixpoint assoc {A} (k : list byte) (l : list (list byte * A)) : option A :=
  match l with
  | [] => None
  | (k', v) :: t => if bytes_eqb k k' then Some v else assoc k t
  end.

Definition meta_table := list (list byte * (delim * dtype * list byte)).
Definition meta_of (mt : meta_table) (t : list byte) : option (delim * dtype * list byte) := assoc t mt.
Definition enc_of (d : list byte) (c : chunk) : list byte :=
  match assoc d (c_txt c) with Some t => t | None => [] end.

(* answers: the model leaves a text file's rows open *)
Definition out_agree (m i : out) : bool :=
  match m, i with
  | OOk, OOk => true
  | OErr a, OErr b => err_eqb a b
  | ORead s1 d1 r1 u1, ORead s2 d2 r2 u2 =>
      (s1 =? s2) && dtype_eqb d1 d2 && bytes_eqb u1 u2
      && match r1, r2 with
         | Some a, Some b => rows_eqb a b
         | None, _ => true
         | Some _, None => false
         end
  | _, _ => false
  end.
Definition obs_agree (m i : obs) : bool := out_agree (fst m) (fst i) && ofile_eqb (snd m) (snd i).

(* ------------------------------------------------------------------ an equal, faster reader *)
(* C01's take_rows measures the whole remaining file for every row (quadratic; fine for its
   small tables, too slow for chunks of > 16384 rows).  The case files evaluate [run_x]: the
   same machine with the length test made on the row just taken.  ExecProofs.run_x_eq proves
   run_x = Model.run, so what is evaluated IS the model. *)
Fixpoint take_rows_x (rowsize n : nat) (f : list byte) : result (list (list byte)) :=
  match n with
  | O => Ok []
  | S k =>
      let r := firstn rowsize f in
      if (length r <? rowsize)%nat then Err ERuntime
      else do t <- take_rows_x rowsize k (skipn rowsize f); Ok (r :: t)
  end.

Definition recfile_read_x (f : file) (offset rowsize : Z) (nrows : option Z) : result (list (list byte)) :=
  let n := match nrows with
           | Some n => if n <? 0 then count_nrows (Z.of_nat (length f)) offset rowsize else n
           | None => count_nrows (Z.of_nat (length f)) offset rowsize
           end in
  if n <? 1 then Err ERuntime
  else take_rows_x (Z.to_nat rowsize) (Z.to_nat n) (skipn (Z.to_nat offset) f).

Section MachineX.
  Variable meta : list byte -> option (delim * dtype * list byte).
  Variable enc : list byte -> chunk -> list byte.

  Definition read_back_x (s : state) : out :=
    match disk s with
    | None => OErr EOther
    | Some f =>
        match read_meta meta f with
        | Err e => OErr e
        | Ok (size, off, dl, dt, u) =>
            match dl with
            | None =>
                match recfile_read_x f (Z.of_nat off) (rowsize dt) (Some size) with
                | Ok rows => ORead size dt (Some rows) u
                | Err e => OErr e
                end
            | Some _ => ORead size dt None u
            end
        end
    end.

  Definition step_x (s : state) (o : op) : state * out :=
    match o with
    | Read => (s, read_back_x s)
    | _ => step meta enc s o
    end.

  Fixpoint run_x (s : state) (ops : list op) : list (out * option file) :=
    match ops with
    | [] => []
    | o :: rest => let '(s', r) := step_x s o in (r, disk s') :: run_x s' rest
    end.
End MachineX.

Definition v_history (mt : meta_table) (ops : list op) (os : list obs) : Z :=
  verdict (list_eqb obs_agree (run_x (meta_of mt) enc_of init ops) os)
          (hist_check AMissing None ops os).

(* the contract monitor, clause (a): framing-safe header text (evaluated with the verified
   definition of C01/Framing.v) and the table is keyed by the joined text *)
Definition v_text_ok (d : list byte) : Z := if hdr_text_ok d then 0 else 1.
Definition v_joined (d j : list byte) : Z := if bytes_eqb (joined d) j then 0 else 1.

(* constants of the source against constants of the model *)
Definition v_tie_size (n : Z) (txt : list byte) : Z :=
  if bytes_eqb (size_line n ++ [nl]) txt then 0 else 1.

(* for replays: what the model answers *)
Definition show_history (mt : meta_table) (ops : list op) := run_x (meta_of mt) enc_of init ops.

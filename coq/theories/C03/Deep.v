(* C03/Deep.v — proof-deepening round: the exact rejection set, frame conditions, independence of
   history, completeness of the checker. *)
From Coq Require Import ZArith List Bool NArith Lia.
From Coq.Strings Require Import Byte String.
From EsVerif.Common Require Import Base Bytes.
From EsVerif.C01 Require Import Framing FramingProofs.
From EsVerif.C03 Require Import Model Spec Lemmas Proofs.
Import ListNotations.
Open Scope Z_scope.
Open Scope list_scope.
Notation length := List.length.

Section Deep.
  Variable meta : list byte -> option (delim * dtype * list byte).
  Variable enc : list byte -> chunk -> list byte.

  Notation step := (step meta enc).
  Notation Inv := (Inv meta enc).

  (* ---------------------------------------------------------------- the exact rejection set *)
  (* On a file that exists, a write through the open object / an append by reopening has exactly
     two outcomes: accepted (Ok) iff the dtypes are compatible, rejected with ValueError iff not.
     No other error, no other condition. *)
  Theorem rejection_exact s af o c dl d u :
    Inv s (AFile af o) -> total af + nrows c < 10 ^ 20 -> chunk_ok c ->
    (snd (step s (FnWrite true dl c d u)) = OOk <-> compat (a_dl af) (a_dt af) (c_dt c) = true)
    /\ (snd (step s (FnWrite true dl c d u)) = OErr EValue <-> compat (a_dl af) (a_dt af) (c_dt c) = false)
    /\ (forall m, o = Some m ->
          (snd (step s (WriteAgain c d u)) = OOk <-> compat (a_dl af) (a_dt af) (c_dt c) = true)
          /\ (snd (step s (WriteAgain c d u)) = OErr EValue <-> compat (a_dl af) (a_dt af) (c_dt c) = false)).
  Proof.
    intros [OK ->] B C.
    assert (P : 1 <= nrows c).
    { destruct C as [H _]. unfold nrows. destruct (c_rows c); [contradiction | simpl; lia]. }
    assert (T : total af < 10 ^ 20) by lia.
    assert (A : forall m, snd (step {| disk := Some (image enc af); hnd := Some (open_handle af m) |} (WriteAgain c d u))
                          = if compat (a_dl af) (a_dt af) (c_dt c) then OOk else OErr EValue).
    { intro m. cbn [Model.step]. destruct (compat (a_dl af) (a_dt af) (c_dt c)) eqn:K.
      - rewrite (write_append meta enc) by (try assumption; lia). reflexivity.
      - rewrite write_rejected by exact K. reflexivity. }
    assert (Fn : snd (step {| disk := Some (image enc af); hnd := option_map (open_handle af) o |} (FnWrite true dl c d u))
                 = if compat (a_dl af) (a_dt af) (c_dt c) then OOk else OErr EValue).
    { cbn [Model.step]. rewrite close_state, (reopen_image meta enc) by assumption.
      destruct (compat (a_dl af) (a_dt af) (c_dt c)) eqn:K.
      - rewrite (write_append meta enc) by (try assumption; lia). reflexivity.
      - rewrite write_rejected by exact K. reflexivity. }
    split; [|split].
    - rewrite Fn. destruct (compat _ _ _); split; intro H; try reflexivity; discriminate.
    - rewrite Fn. destruct (compat _ _ _); split; intro H; try reflexivity; discriminate.
    - intros m ->. cbn [option_map]. rewrite A.
      destruct (compat _ _ _); split; split; intro H; try reflexivity; discriminate.
  Qed.

  (* ---------------------------------------------------------------- frame conditions *)
  (* operations that write nothing leave every byte alone: read, close, reopen of an existing file *)
  Theorem frame_no_write s a o :
    Inv s a -> (o = Read \/ o = Close \/ (exists dl, o = Reopen dl /\ a <> AMissing)) ->
    used a < 10 ^ 20 ->
    disk (fst (step s o)) = disk s.
  Proof.
    intros I [-> | [-> | [dl [-> NM]]]] B; try reflexivity.
    destruct a as [|o'|af o']; cbn [Proofs.Inv used] in *; [contradiction | subst s; reflexivity|].
    destruct I as [OK ->]. cbn [Model.step]. rewrite close_state, (reopen_image meta enc) by assumption. reflexivity.
  Qed.

  (* an accepted append changes the 20 digits of the row count and adds bytes at the end; the
     word "SIZE = ", the newline, the header text, the END line and every row already in the file
     keep their bytes and their positions *)
  Theorem frame_append s af m c d u :
    Inv s (AFile af (Some m)) -> total af + nrows c < 10 ^ 20 -> chunk_ok c ->
    compat (a_dl af) (a_dt af) (c_dt c) = true ->
    exists old new,
      disk s = Some old /\ disk (fst (step s (WriteAgain c d u))) = Some new
      /\ firstn 7 new = firstn 7 old
      /\ skipn 27 new = skipn 27 old ++ payload enc (a_dl af) c
      /\ length new = (length old + length (payload enc (a_dl af) c))%nat.
  Proof.
    intros [OK ->] HB C K.
    assert (P : 1 <= nrows c).
    { destruct C as [H _]. unfold nrows. destruct (c_rows c); [contradiction | simpl; lia]. }
    pose proof (total_pos meta enc af OK) as TP.
    cbn [Model.step option_map]. rewrite (write_append meta enc) by (try assumption; lia).
    exists (image enc af), (image enc (add_chunk af c)). cbn [fst disk].
    split; [reflexivity|]. split; [reflexivity|].
    rewrite (image_add enc). unfold image.
    set (mid := nl :: a_d af ++ nl :: B "END"%string ++ [nl; nl]).
    assert (MP : forall n rest, mk_header n (a_d af) ++ rest = size_line n ++ mid ++ rest).
    { intros n rest. unfold mk_header, mid. rewrite <- app_assoc. reflexivity. }
    rewrite !MP.
    assert (L : forall n, 0 <= n < 10 ^ 20 -> length (size_line n) = 27%nat) by (intros; apply size_line_length; assumption).
    assert (S7 : forall n rest, firstn 7 (size_line n ++ rest) = B "SIZE = "%string).
    { intros n rest. unfold size_line. rewrite <- app_assoc. reflexivity. }
    split; [|split].
    - rewrite !S7. reflexivity.
    - rewrite (skipn_app_exact (size_line (total af + nrows c)) _ 27) by (apply L; lia).
      rewrite (skipn_app_exact (size_line (total af)) _ 27) by (apply L; lia).
      rewrite <- !app_assoc. reflexivity.
    - rewrite !app_length. rewrite !L by lia. lia.
  Qed.

  (* ---------------------------------------------------------------- independence of history *)
  (* sfile.read answers from the bytes of the file alone *)
  Theorem read_depends_on_file_only s1 s2 : disk s1 = disk s2 -> read_back meta s1 = read_back meta s2.
  Proof. intro E. unfold read_back. rewrite E. reflexivity. Qed.

  (* the function forms sfile.write(..., append=True|False) and SFile(f,'w').write depend on the
     bytes of the file alone: no state of an object that happened to be open, nothing of the
     history that produced the file *)
  Theorem fn_depends_on_file_only s1 s2 ap dl c d u :
    disk s1 = disk s2 -> step s1 (FnWrite ap dl c d u) = step s2 (FnWrite ap dl c d u).
  Proof.
    intro E. cbn [Model.step]. destruct ap; [|reflexivity].
    assert (C : close s1 = close s2) by (unfold close, set_hnd; rewrite E; reflexivity).
    rewrite C. reflexivity.
  Qed.

  Theorem create_depends_on_nothing s1 s2 dl c d u : step s1 (Create dl c d u) = step s2 (Create dl c d u).
  Proof. reflexivity. Qed.

  Theorem reopen_depends_on_file_only s1 s2 dl : disk s1 = disk s2 -> step s1 (Reopen dl) = step s2 (Reopen dl).
  Proof.
    intro E. cbn [Model.step].
    assert (C : close s1 = close s2) by (unfold close, set_hnd; rewrite E; reflexivity).
    rewrite C. reflexivity.
  Qed.
End Deep.

(* ------------------------------------------------------------------ the checker decides the statement *)
Lemma obs_check_complete r before o : obs_ok r before o -> obs_check r before o = true.
Proof.
  destruct r as [ | | e | | af]; simpl; intro H; try reflexivity.
  - destruct H as [H1 H2]. rewrite H1. exact H2.
  - destruct H as [H1 H2]. rewrite H1, H2. simpl. apply ofile_eqb_eq. reflexivity.
  - destruct H as [rows [H1 H2]]. rewrite H1. rewrite Z.eqb_refl.
    assert (D : dtype_eqb (a_dt af) (a_dt af) = true) by (apply dtype_eqb_eq; reflexivity).
    assert (U : bytes_eqb (a_u af) (a_u af) = true) by (apply bytes_eqb_eq; reflexivity).
    rewrite D, U. simpl. destruct rows as [r|].
    + subst r. apply rows_eqb_eq. reflexivity.
    + destruct (a_dl af); [reflexivity | contradiction H2; reflexivity].
Qed.

Theorem hist_check_iff : forall ops a before os, hist_check a before ops os = true <-> hist_ok a before ops os.
Proof.
  intros ops a before os. split; [apply hist_check_sound|].
  revert a before os. induction ops as [|o ops IH]; intros a before [|ob os] H; simpl in *; try reflexivity; try contradiction.
  destruct (astep a o) as [a' r]. destruct H as [H1 H2].
  rewrite (obs_check_complete _ _ _ H1), (IH _ _ _ H2). reflexivity.
Qed.

(* C03/Spec.v — the property as Props, plus the boolean checker that the correspondence run
   evaluates on the observations of the REAL code (soundness in Proofs.v).

   "After any sequence of writes to a record file (several writes through one open handle, or
   separate append operations that reopen the file, in binary or text form) reading the file
   returns the concatenation of all written chunks in order and the stored row count equals the
   total number of rows.  The user header given at creation is retained unchanged by later
   appends, an append to a file that does not exist yet creates it, a non-append write replaces
   the previous contents, and an append whose fields are incompatible with the file is rejected
   with an error and leaves the file's bytes unchanged."

   The statement is rendered as an ABSTRACT machine whose state is what the statement talks
   about — the delimiter, dtype and user header fixed at creation and the list of accepted
   chunks since then — and a predicate [hist_ok] relating a history to the observations made
   after each of its operations. *)
From Coq Require Import ZArith List Bool NArith.
From Coq.Strings Require Import Byte String.
From EsVerif.Common Require Import Base Bytes.
From EsVerif.C01 Require Import Framing.
From EsVerif.C03 Require Import Model.
Import ListNotations.
Open Scope Z_scope.
Open Scope list_scope.
Notation length := List.length.

(* ------------------------------------------------------------------ the abstract machine *)
Record afile := { a_dl : delim; a_dt : dtype; a_d : list byte (* header dict text, ghost *);
                  a_u : list byte (* user header, canonical *); a_chunks : list chunk }.

Inductive astate :=
| AMissing                                   (* the path does not exist; no object open *)
| AEmpty (opened : option delim)             (* zero-length file; Some dl: a fresh 'w' object *)
| AFile (af : afile) (opened : option mode). (* header + chunks; Some m: an object is open *)

Definition total (af : afile) : Z := zsum (map nrows (a_chunks af)).

(* rows a read returns for one chunk: its own bytes for a binary file; for a text file what the
   text round trip of that chunk alone gives (supplied per chunk; C04 is about its value) *)
Definition back (dl : delim) (c : chunk) : list (list byte) :=
  match dl with None => c_rows c | Some _ => c_back c end.
Definition all_rows (af : afile) : list (list byte) := concat (map (back (a_dl af)) (a_chunks af)).

(* "compatible": for a binary file the dtypes are equal including byte order; for a text file
   equal when the byte order is ignored (docstring of SFile.write) *)
Definition compat (dl : delim) (fdt cdt : dtype) : bool :=
  match dl with None => dtype_eqb fdt cdt | Some _ => dtype_eqb_noorder fdt cdt end.

Definition new_file (dl : delim) (c : chunk) (d u : list byte) : afile :=
  {| a_dl := dl; a_dt := file_dtype dl (c_dt c); a_d := d; a_u := u; a_chunks := [c] |}.
Definition add_chunk (af : afile) (c : chunk) : afile :=
  {| a_dl := a_dl af; a_dt := a_dt af; a_d := a_d af; a_u := a_u af; a_chunks := a_chunks af ++ [c] |}.

(* what the statement (and, for misuse it does not talk about, the documented behaviour) says an
   operation does and answers; the error class of an abstract answer is informative only *)
Inductive aout :=
| AOk                                        (* accepted *)
| ARejected                                  (* incompatible append: error, bytes unchanged *)
| AUnspec (e : err)                          (* misuse outside the statement (no object open, ...) *)
| ANop                                       (* close: nothing to observe *)
| ARead (af : afile).                        (* read of a file with header: everything in [af] *)

Definition aclose (a : astate) : astate :=
  match a with
  | AMissing => AMissing
  | AEmpty _ => AEmpty None
  | AFile af _ => AFile af None
  end.

(* sf.write on the open object *)
Definition awrite (c : chunk) (d u : list byte) (a : astate) : astate * aout :=
  match a with
  | AMissing => (a, AUnspec ERuntime)
  | AEmpty None => (a, AUnspec ERuntime)
  | AEmpty (Some dl) => (AFile (new_file dl c d u) (Some MW), AOk)
  | AFile af None => (a, AUnspec ERuntime)
  | AFile af (Some m) =>
      if compat (a_dl af) (a_dt af) (c_dt c) then (AFile (add_chunk af c) (Some m), AOk)
      else (a, ARejected)
  end.

(* SFile(f, 'r+', delim=dl) with no object open *)
Definition areopen (dl : delim) (a : astate) : astate * aout :=
  match a with
  | AMissing => (AEmpty (Some dl), AOk)           (* "creates it" (on the first write) *)
  | AEmpty _ => (AEmpty None, AUnspec ERuntime)   (* an existing empty file has no header *)
  | AFile af _ => (AFile af (Some MRP), AOk)
  end.

Definition astep (a : astate) (o : op) : astate * aout :=
  match o with
  | Create dl c d u => (AFile (new_file dl c d u) (Some MW), AOk)
  | WriteAgain c d u => awrite c d u a
  | Close => (aclose a, ANop)
  | Reopen dl => areopen dl (aclose a)
  | FnWrite false dl c d u => (AFile (new_file dl c d u) None, AOk)
  | FnWrite true dl c d u =>
      let '(a1, r1) := areopen dl (aclose a) in
      match r1 with
      | AOk => let '(a2, r2) := awrite c d u a1 in (aclose a2, r2)
      | _ => (aclose a1, r1)
      end
  | Read => (a, match a with
                | AMissing => AUnspec EOther
                | AEmpty _ => AUnspec ERuntime
                | AFile af _ => ARead af
                end)
  end.

(* ------------------------------------------------------------------ observations *)
(* after each operation: its answer and the bytes of the file (None: no such path) *)
Definition obs := (out * option file)%type.

Definition is_err (r : out) : bool := match r with OErr _ => true | _ => false end.
Definition exists_file (f : option file) : bool := match f with Some _ => true | None => false end.

(* one operation: the abstract answer against what was observed (before/after bytes) *)
Definition obs_ok (r : aout) (before : option file) (o : obs) : Prop :=
  match r with
  | AOk => fst o = OOk /\ exists_file (snd o) = true
  | ARejected => is_err (fst o) = true /\ snd o = before
  | AUnspec _ | ANop => True
  | ARead af =>
      exists rows, fst o = ORead (total af) (a_dt af) rows (a_u af)
        /\ match rows with
           | Some r => r = all_rows af           (* the concatenation of all chunks, in order *)
           | None => a_dl af <> None             (* only a text file's rows may be left open *)
           end
  end.

Fixpoint hist_ok (a : astate) (before : option file) (ops : list op) (os : list obs) : Prop :=
  match ops, os with
  | [], [] => True
  | o :: ops', ob :: os' =>
      let '(a', r) := astep a o in obs_ok r before ob /\ hist_ok a' (snd ob) ops' os'
  | _, _ => False
  end.

(* ------------------------------------------------------------------ the checker *)
Definition rows_eqb := list_eqb bytes_eqb.
Definition ofile_eqb := option_eqb bytes_eqb.
Definition is_none {A} (x : option A) : bool := match x with None => true | Some _ => false end.

Definition obs_check (r : aout) (before : option file) (o : obs) : bool :=
  match r with
  | AOk => match fst o with OOk => exists_file (snd o) | _ => false end
  | ARejected => is_err (fst o) && ofile_eqb (snd o) before
  | AUnspec _ | ANop => true
  | ARead af =>
      match fst o with
      | ORead size dt rows u =>
          (size =? total af) && dtype_eqb dt (a_dt af) && bytes_eqb u (a_u af)
          && match rows with
             | Some r => rows_eqb r (all_rows af)
             | None => negb (is_none (a_dl af))
             end
      | _ => false
      end
  end.

Fixpoint hist_check (a : astate) (before : option file) (ops : list op) (os : list obs) : bool :=
  match ops, os with
  | [], [] => true
  | o :: ops', ob :: os' =>
      let '(a', r) := astep a o in obs_check r before ob && hist_check a' (snd ob) ops' os'
  | _, _ => false
  end.

(* ------------------------------------------------------------------ premises on a history *)
(* the rows of a chunk have the row size of its dtype; at least one row (quantifier: >= 1) *)
Definition rows_fit (dt : dtype) (rows : list (list byte)) : Prop :=
  Forall (fun r => Z.of_nat (length r) = rowsize dt) rows.
Definition chunk_ok (c : chunk) : Prop :=
  c_rows c <> [] /\ rows_fit (c_dt c) (c_rows c) /\ 0 < rowsize (c_dt c).

(* the dict text handed to eval by read_header *)
Definition joined (d : list byte) : list byte := join [sp] (split_nl d).

Section Contract.
  Variable meta : list byte -> option (delim * dtype * list byte).

  (* H_pf of C01 specialised to what SFile.open needs, for ONE created header: the pformat
     text is framing-safe, and eval of the joined text yields the delimiter, numpy.dtype of
     its _DTYPE entry is the file's dtype, and the user's entries are the ones given *)
  Definition header_ok (dl : delim) (c : chunk) (d u : list byte) : Prop :=
    hdr_text_ok d = true /\ meta (joined d) = Some (dl, file_dtype dl (c_dt c), u).

  (* premises of one operation, given the abstract state it runs in: every chunk is well
     formed; an operation that creates the header satisfies the contract for it *)
  Definition op_ok (a : astate) (o : op) : Prop :=
    match o with
    | Create dl c d u => chunk_ok c /\ header_ok dl c d u
    | FnWrite false dl c d u => chunk_ok c /\ header_ok dl c d u
    | FnWrite true dl c d u =>
        chunk_ok c /\ match a with AMissing => header_ok dl c d u | _ => True end
    | WriteAgain c d u =>
        chunk_ok c /\ match a with AEmpty (Some dl) => header_ok dl c d u | _ => True end
    | Close | Reopen _ | Read => True
    end.

  Fixpoint hist_wf (a : astate) (ops : list op) : Prop :=
    match ops with
    | [] => True
    | o :: rest => op_ok a o /\ hist_wf (fst (astep a o)) rest
    end.
End Contract.

(* all rows ever offered by a history (bound for the 20-digit SIZE field) *)
Definition op_rows (o : op) : Z :=
  match o with
  | Create _ c _ _ | WriteAgain c _ _ | FnWrite _ _ c _ _ => nrows c
  | _ => 0
  end.
Definition hist_rows (ops : list op) : Z := zsum (map op_rows ops).

(* C03/Proofs.v — the byte-level machine (Model.v) refines the abstract machine of the statement
   (Spec.v): invariant, one-step refinement, histories. *)
From Coq Require Import ZArith List Bool NArith Lia ZifyBool ZifyNat.
From Coq.Strings Require Import Byte String.
From EsVerif.Common Require Import Base Bytes.
From EsVerif.C01 Require Import Framing FramingProofs.
From EsVerif.C03 Require Import Model Spec Lemmas.
Import ListNotations.
Open Scope Z_scope.
Open Scope list_scope.
Notation length := List.length.

(* ------------------------------------------------------------------ lists and sums *)
Lemma zsum_app a b : zsum (a ++ b) = zsum a + zsum b.
Proof. unfold zsum. induction a as [|x t IH]; simpl; [reflexivity | rewrite IH; lia]. Qed.

Lemma concat_concat_map {A B} (f : A -> list (list B)) (l : list A) :
  concat (map (fun x => concat (f x)) l) = concat (concat (map f l)).
Proof. induction l as [|x t IH]; simpl; [reflexivity | rewrite concat_app, IH; reflexivity]. Qed.

Lemma length_concat_rows (l : list chunk) :
  Z.of_nat (length (concat (map c_rows l))) = zsum (map nrows l).
Proof.
  induction l as [|c t IH]; [reflexivity|]. cbn [map concat]. rewrite app_length, Nat2Z.inj_add, IH.
  unfold zsum at 2. cbn [fold_right]. reflexivity.
Qed.

Lemma overwrite_nil p : overwrite p [] = p.
Proof. unfold overwrite. rewrite skipn_nil, app_nil_r. reflexivity. Qed.

(* ------------------------------------------------------------------ the in-place row count *)
(* update_row_count touches nothing but the count: overwriting the first 28 bytes of a file
   that starts with a header for n rows gives the same file with a header for n' rows *)
Lemma mk_header_cons n d :
  mk_header n d = (size_line n ++ [nl]) ++ d ++ nl :: B "END" ++ [nl; nl].
Proof. unfold mk_header. rewrite <- app_assoc. reflexivity. Qed.

Lemma skipn_app_exact {A} (a b : list A) k : length a = k -> skipn k (a ++ b) = b.
Proof. intros <-. rewrite skipn_app, skipn_all, Nat.sub_diag. reflexivity. Qed.

Lemma update_row_count_frame n n' d rest : 0 <= n < 10 ^ 20 -> 0 <= n' < 10 ^ 20 ->
  overwrite (size_line n' ++ [nl]) (mk_header n d ++ rest) = mk_header n' d ++ rest.
Proof.
  intros H H'. unfold overwrite. rewrite !mk_header_cons.
  assert (L : forall m, 0 <= m < 10 ^ 20 -> length (size_line m ++ [nl]) = 28%nat).
  { intros m Hm. rewrite app_length, size_line_length by exact Hm. reflexivity. }
  rewrite (L n' H'). rewrite <- (app_assoc (size_line n ++ [nl])).
  rewrite (skipn_app_exact _ _ 28%nat (L n H)).
  rewrite <- !app_assoc. reflexivity.
Qed.

Section Refinement.
  Variable meta : list byte -> option (delim * dtype * list byte).
  Variable enc : list byte -> chunk -> list byte.

  Notation payload := (payload enc).
  Notation step := (step meta enc).
  Notation run := (run meta enc).
  Notation final := (final meta enc).
  Notation read_back := (read_back meta).
  Notation read_meta := (read_meta meta).
  Notation open_rp := (open_rp meta).
  Notation sf_write := (sf_write enc).

  (* ---------------------------------------------------------------- abstraction *)
  Definition body (af : afile) : list byte := concat (map (payload (a_dl af)) (a_chunks af)).
  Definition image (af : afile) : file := mk_header (total af) (a_d af) ++ body af.
  Definition open_handle (af : afile) (m : mode) : handle :=
    {| h_mode := m; h_delim := a_dl af; h_hdr := true; h_size := total af; h_dtype := Some (a_dt af) |}.

  Definition af_ok (af : afile) : Prop :=
    hdr_text_ok (a_d af) = true
    /\ meta (joined (a_d af)) = Some (a_dl af, a_dt af, a_u af)
    /\ a_chunks af <> []
    /\ Forall chunk_ok (a_chunks af)
    /\ (a_dl af = None -> Forall (fun c => c_dt c = a_dt af) (a_chunks af))
    /\ Forall (fun c => compat (a_dl af) (a_dt af) (c_dt c) = true) (a_chunks af).

  (* the invariant: the concrete state IS the image of the abstract one *)
  Definition Inv (s : state) (a : astate) : Prop :=
    match a with
    | AMissing => s = {| disk := None; hnd := None |}
    | AEmpty o => s = {| disk := Some []; hnd := option_map fresh_handle o |}
    | AFile af o => af_ok af /\ s = {| disk := Some (image af); hnd := option_map (open_handle af) o |}
    end.

  Definition used (a : astate) : Z := match a with AFile af _ => total af | _ => 0 end.

  (* ---------------------------------------------------------------- small facts *)
  Lemma nrows_pos c : chunk_ok c -> 1 <= nrows c.
  Proof. intros [H _]. unfold nrows. destruct (c_rows c); [contradiction | simpl; lia]. Qed.

  Lemma total_nonneg l : Forall chunk_ok l -> 0 <= zsum (map nrows l).
  Proof.
    induction 1 as [|c t H _ IH]; [simpl; lia|]. cbn [map]. unfold zsum in *. cbn [fold_right].
    pose proof (nrows_pos c H). lia.
  Qed.

  Lemma total_pos af : af_ok af -> 1 <= total af.
  Proof.
    intros (_ & _ & NE & F & _). unfold total. destruct (a_chunks af) as [|c t]; [contradiction|].
    inversion F; subst. cbn [map]. unfold zsum. cbn [fold_right].
    pose proof (nrows_pos c H1). pose proof (total_nonneg t H2). unfold zsum in *. lia.
  Qed.

  Lemma total_add af c : total (add_chunk af c) = total af + nrows c.
  Proof. unfold total, add_chunk. cbn [a_chunks]. rewrite map_app, zsum_app. unfold zsum. simpl. lia. Qed.

  Lemma total_new dl c d u : total (new_file dl c d u) = nrows c.
  Proof. unfold total, new_file, zsum. simpl. lia. Qed.

  Lemma body_add af c : body (add_chunk af c) = body af ++ payload (a_dl af) c.
  Proof. unfold body, add_chunk. cbn [a_chunks a_dl]. rewrite map_app, concat_app. simpl. rewrite app_nil_r. reflexivity. Qed.

  Lemma image_add af c : image (add_chunk af c) = mk_header (total af + nrows c) (a_d af) ++ body af ++ payload (a_dl af) c.
  Proof. unfold image. rewrite total_add, body_add. reflexivity. Qed.

  Lemma image_new dl c d u : image (new_file dl c d u) = mk_header (nrows c) d ++ payload dl c.
  Proof. unfold image, body. rewrite total_new. simpl. rewrite app_nil_r. reflexivity. Qed.

  Lemma af_ok_new dl c d u : chunk_ok c -> header_ok meta dl c d u -> af_ok (new_file dl c d u).
  Proof.
    intros C [T M]. unfold af_ok, new_file; cbn [a_dl a_dt a_d a_u a_chunks].
    split; [exact T|]. split; [exact M|]. split; [discriminate|].
    split; [constructor; [exact C | constructor]|].
    split; [intros ->; constructor; [reflexivity | constructor]|].
    constructor; [apply compat_created | constructor].
  Qed.

  Lemma af_ok_add af c : af_ok af -> chunk_ok c -> compat (a_dl af) (a_dt af) (c_dt c) = true ->
    af_ok (add_chunk af c).
  Proof.
    intros (T & M & NE & F & D & KK) C K. unfold af_ok, add_chunk; cbn [a_dl a_dt a_d a_u a_chunks].
    split; [exact T|]. split; [exact M|].
    split; [intro E; apply app_eq_nil in E; destruct E as [_ E]; discriminate|].
    split; [apply Forall_app; split; [exact F | constructor; [exact C | constructor]]|].
    split.
    - intro N. apply Forall_app. split; [apply D; exact N|].
      constructor; [|constructor]. rewrite N in K. simpl in K. apply dtype_eqb_eq in K. congruence.
    - apply Forall_app. split; [exact KK | constructor; [exact K | constructor]].
  Qed.

  Lemma mk_header_ge8 n d : 0 <= n < 10 ^ 20 -> forall rest, (length (mk_header n d ++ rest) <? 8)%nat = false.
  Proof.
    intros H rest. apply Nat.ltb_ge. unfold mk_header. rewrite !app_length, size_line_length by exact H. lia.
  Qed.

  (* what open('r'/'r+') and read learn from the image of an abstract file *)
  Lemma read_meta_image af : af_ok af -> total af < 10 ^ 20 ->
    read_meta (image af)
    = Ok (total af, length (mk_header (total af) (a_d af)), a_dl af, a_dt af, a_u af).
  Proof.
    intros OK B. pose proof (total_pos af OK) as P. destruct OK as (T & M & _).
    unfold Model.read_meta, image. rewrite mk_header_ge8 by lia.
    unfold sfile_read_raw. rewrite read_sfile_header_spec by (try lia; exact T). cbn [bind fst snd].
    rewrite parse_header_spec by lia. cbn [bind fst snd].
    fold (joined (a_d af)). rewrite M.
    replace (total af <? 1) with false by lia. reflexivity.
  Qed.

  Lemma all_rows_binary af : a_dl af = None -> all_rows af = concat (map c_rows (a_chunks af)).
  Proof. intro N. unfold all_rows. rewrite N. reflexivity. Qed.

  Lemma body_binary af : a_dl af = None -> body af = bin_write (all_rows af).
  Proof.
    intro N. rewrite (all_rows_binary af N). unfold body, bin_write. rewrite N. cbn [Model.payload].
    unfold bin_write. apply concat_concat_map.
  Qed.

  Lemma rows_fit_all af : af_ok af -> a_dl af = None ->
    Forall (fun r => Z.of_nat (length r) = rowsize (a_dt af)) (all_rows af).
  Proof.
    intros (_ & _ & _ & F & D & _) N. rewrite (all_rows_binary af N). specialize (D N).
    induction (a_chunks af) as [|c t IH]; [constructor|].
    inversion F; subst. inversion D; subst. cbn [map concat]. apply Forall_app. split.
    - destruct H1 as (_ & R & _). rewrite <- H3. exact R.
    - apply IH; assumption.
  Qed.

  (* sfile.read on the image: the row count, the dtype, the user header and — for a binary
     file — every row of every chunk, in order *)
  Lemma read_back_image af h : af_ok af -> total af < 10 ^ 20 ->
    read_back {| disk := Some (image af); hnd := h |}
    = ORead (total af) (a_dt af) (match a_dl af with None => Some (all_rows af) | Some _ => None end) (a_u af).
  Proof.
    intros OK B. unfold Model.read_back. cbn [disk]. rewrite read_meta_image by assumption.
    destruct (a_dl af) as [dl|] eqn:N; [reflexivity|].
    unfold image. rewrite (body_binary af N).
    assert (R : 0 < rowsize (a_dt af)).
    { destruct OK as (_ & _ & NE & F & D & _). specialize (D N).
      destruct (a_chunks af) as [|c t]; [contradiction|]. inversion F; subst. inversion D; subst.
      destruct H1 as (_ & _ & R). rewrite <- H3. exact R. }
    assert (L : total af = Z.of_nat (length (all_rows af))).
    { rewrite (all_rows_binary af N), length_concat_rows. reflexivity. }
    rewrite recfile_read_spec; [reflexivity | exact R | | apply rows_fit_all; assumption | right; right; f_equal; exact L].
    intro E. pose proof (total_pos af OK). rewrite L, E in H. simpl in H. lia.
  Qed.

  (* ---------------------------------------------------------------- the operations on images *)
  Lemma compatible_compat dl a b : compatible dl a b = compat dl a b.
  Proof. reflexivity. Qed.

  Lemma write_fresh dl c d u : hdr_text_ok d = true ->
    sf_write c d {| disk := Some []; hnd := Some (fresh_handle dl) |}
    = ({| disk := Some (image (new_file dl c d u)); hnd := Some (open_handle (new_file dl c d u) MW) |}, OOk).
  Proof.
    intro T. unfold Model.sf_write, fresh_handle. cbn [hnd disk h_dtype h_hdr h_delim h_mode h_size negb].
    rewrite overwrite_nil. unfold write_header.
    assert (C : clean d = true) by (unfold hdr_text_ok in T; apply andb_true_iff in T; apply T).
    rewrite clean_cstr by (apply mk_header_clean; [unfold nrows; lia | exact C]).
    rewrite image_new. unfold open_handle. rewrite total_new. reflexivity.
  Qed.

  Lemma write_append af m c d : af_ok af -> total af + nrows c < 10 ^ 20 -> 0 <= nrows c ->
    compat (a_dl af) (a_dt af) (c_dt c) = true ->
    sf_write c d {| disk := Some (image af); hnd := Some (open_handle af m) |}
    = ({| disk := Some (image (add_chunk af c)); hnd := Some (open_handle (add_chunk af c) m) |}, OOk).
  Proof.
    intros OK B P K. pose proof (total_pos af OK) as TP.
    unfold Model.sf_write, open_handle. cbn [hnd disk h_dtype h_hdr h_delim h_mode h_size].
    rewrite compatible_compat, K. cbn [negb].
    unfold image at 1. rewrite update_row_count_frame by lia.
    rewrite image_add, total_add. rewrite <- app_assoc. reflexivity.
  Qed.

  Lemma write_rejected af m c d : compat (a_dl af) (a_dt af) (c_dt c) = false ->
    sf_write c d {| disk := Some (image af); hnd := Some (open_handle af m) |}
    = ({| disk := Some (image af); hnd := Some (open_handle af m) |}, OErr EValue).
  Proof.
    intro K. unfold Model.sf_write, open_handle. cbn [hnd disk h_dtype h_hdr h_delim h_mode h_size].
    rewrite compatible_compat, K. reflexivity.
  Qed.

  Lemma write_closed f c d : sf_write c d {| disk := f; hnd := None |} = ({| disk := f; hnd := None |}, OErr ERuntime).
  Proof. reflexivity. Qed.

  Lemma reopen_missing dl : open_rp dl {| disk := None; hnd := None |} = (open_w dl, OOk).
  Proof. reflexivity. Qed.

  Lemma reopen_empty dl : open_rp dl {| disk := Some []; hnd := None |} = ({| disk := Some []; hnd := None |}, OErr ERuntime).
  Proof. reflexivity. Qed.

  Lemma reopen_image dl af : af_ok af -> total af < 10 ^ 20 ->
    open_rp dl {| disk := Some (image af); hnd := None |}
    = ({| disk := Some (image af); hnd := Some (open_handle af MRP) |}, OOk).
  Proof.
    intros OK B. unfold Model.open_rp. cbn [disk]. rewrite read_meta_image by assumption. reflexivity.
  Qed.

  Lemma close_state f h : close {| disk := f; hnd := h |} = {| disk := f; hnd := None |}.
  Proof. reflexivity. Qed.

  (* ---------------------------------------------------------------- one step *)
  (* what the abstract answer demands of the concrete answer and of the bytes before / after:
     Spec.obs_ok, and in addition that misuse is answered with exactly the modelled error and
     leaves the bytes alone *)
  Definition answers (r : aout) (before : option file) (o : obs) : Prop :=
    obs_ok r before o
    /\ match r with AUnspec e => fst o = OErr e /\ snd o = before | _ => True end.

  Lemma used_step a o : Forall chunk_ok match o with
                                        | Create _ c _ _ | WriteAgain c _ _ | FnWrite _ _ c _ _ => [c]
                                        | _ => [] end ->
    used (fst (astep a o)) <= used a + op_rows o.
  Proof.
    intros _. assert (U : 0 <= used a).
    { destruct a as [| |af o']; simpl; try lia. unfold total. clear. induction (a_chunks af); simpl; [lia|].
      unfold zsum in *. simpl. unfold nrows at 1. lia. }
    destruct o as [dl c d u|c d u| |dl|[|] dl c d u|]; destruct a as [|[dl'|]|af [m|]];
      cbn [astep fst snd op_rows aclose areopen awrite used] in *;
      try (destruct (compat _ _ _)); cbn [fst snd used aclose] in *;
      rewrite ?total_new, ?total_add; unfold nrows in *; lia.
  Qed.

  Ltac inv_state H := first [ destruct H as [? H]; subst | subst ].

  Theorem step_refines s a o :
    Inv s a -> op_ok meta a o -> used a + op_rows o < 10 ^ 20 ->
    Inv (fst (step s o)) (fst (astep a o))
    /\ answers (snd (astep a o)) (disk s) (snd (step s o), disk (fst (step s o))).
  Proof.
    intros HI W B.
    destruct o as [dl c d u|c d u| |dl|ap dl c d u|].
    - (* Create *)
      destruct W as [C [T M]]. cbn [Model.step astep fst snd op_rows] in *.
      unfold open_w. rewrite (write_fresh dl c d u T). cbn [fst snd disk].
      split; [split; [apply af_ok_new; [exact C | split; assumption] | reflexivity]|].
      split; [|exact I]. split; reflexivity.
    - (* WriteAgain *)
      destruct W as [C W]. cbn [Model.step astep op_rows] in *.
      destruct a as [|[dl|]|af [m|]]; cbn [Inv awrite used option_map] in *.
      + subst s. rewrite write_closed. cbn. repeat split.
      + destruct W as [T M]. subst s. rewrite (write_fresh dl c d u T). cbn [fst snd disk].
        split; [split; [apply af_ok_new; [exact C | split; assumption] | reflexivity]|].
        split; [|exact I]. split; reflexivity.
      + subst s. rewrite write_closed. cbn. repeat split.
      + destruct HI as [OK ->]. pose proof (nrows_pos c C) as P.
        destruct (compat (a_dl af) (a_dt af) (c_dt c)) eqn:K.
        * rewrite write_append by (try assumption; lia). cbn [fst snd disk].
          split; [split; [apply af_ok_add; assumption | reflexivity]|].
          split; [|exact I]. split; reflexivity.
        * rewrite write_rejected by exact K. cbn [fst snd disk].
          split; [split; [exact OK | reflexivity]|]. split; [|exact I]. split; reflexivity.
      + destruct HI as [OK ->]. rewrite write_closed. cbn [fst snd disk].
        split; [split; [exact OK | reflexivity]|]. repeat split.
    - (* Close *)
      cbn [Model.step astep fst snd]. destruct a as [|o'|af o']; cbn [Inv aclose] in *.
      + subst s. repeat split.
      + subst s. repeat split.
      + destruct HI as [OK ->]. split; [split; [exact OK | reflexivity] | repeat split].
    - (* Reopen *)
      cbn [Model.step astep op_rows] in *. destruct a as [|o'|af o']; cbn [Inv aclose areopen used] in *.
      + subst s. rewrite close_state, reopen_missing. cbn. repeat split.
      + subst s. rewrite close_state, reopen_empty. cbn. repeat split.
      + destruct HI as [OK ->]. rewrite close_state, reopen_image by (try assumption; lia). cbn [fst snd disk].
        split; [split; [exact OK | reflexivity]|]. repeat split.
    - (* FnWrite *)
      destruct ap.
      + (* append *)
        destruct W as [C W]. cbn [Model.step astep op_rows] in *.
        pose proof (nrows_pos c C) as P.
        destruct a as [|o'|af o']; cbn [Inv aclose areopen awrite used] in *.
        * destruct W as [T M]. subst s. rewrite close_state, reopen_missing. unfold open_w.
          rewrite (write_fresh dl c d u T). rewrite close_state. cbn [fst snd disk aclose].
          split; [split; [apply af_ok_new; [exact C | split; assumption] | reflexivity]|].
          split; [|exact I]. split; reflexivity.
        * subst s. rewrite close_state, reopen_empty. cbn. repeat split.
        * destruct HI as [OK ->]. rewrite close_state, reopen_image by (try assumption; lia).
          destruct (compat (a_dl af) (a_dt af) (c_dt c)) eqn:K.
          -- rewrite write_append by (try assumption; lia). rewrite close_state. cbn [fst snd disk aclose].
             split; [split; [apply af_ok_add; assumption | reflexivity]|].
             split; [|exact I]. split; reflexivity.
          -- rewrite write_rejected by exact K. rewrite close_state. cbn [fst snd disk aclose].
             split; [split; [exact OK | reflexivity]|]. split; [|exact I]. split; reflexivity.
      + (* overwrite *)
        destruct W as [C [T M]]. cbn [Model.step astep fst snd op_rows] in *.
        unfold open_w. rewrite (write_fresh dl c d u T). rewrite close_state. cbn [fst snd disk].
        split; [split; [apply af_ok_new; [exact C | split; assumption] | reflexivity]|].
        split; [|exact I]. split; reflexivity.
    - (* Read *)
      cbn [Model.step astep fst snd op_rows] in *. split; [exact HI|].
      destruct a as [|o'|af o']; cbn [Inv used] in *.
      + subst s. repeat split.
      + subst s. repeat split.
      + destruct HI as [OK ->]. rewrite read_back_image by (try assumption; lia). cbn [disk].
        split; [|exact I]. cbn [obs_ok fst snd].
        eexists. split; [reflexivity|].
        destruct (a_dl af); [discriminate | reflexivity].
  Qed.

  (* ---------------------------------------------------------------- histories *)
  Lemma op_chunks_ok a o : op_ok meta a o ->
    Forall chunk_ok match o with
                    | Create _ c _ _ | WriteAgain c _ _ | FnWrite _ _ c _ _ => [c]
                    | _ => [] end.
  Proof.
    destruct o as [dl c d u|c d u| |dl|[|] dl c d u|]; simpl; intro H; try constructor; try apply H; constructor.
  Qed.

  Lemma op_rows_nonneg o : 0 <= op_rows o.
  Proof. destruct o; simpl; unfold nrows; lia. Qed.

  Lemma hist_rows_nonneg ops : 0 <= hist_rows ops.
  Proof.
    unfold hist_rows. induction ops as [|x t IHt]; simpl; [lia|].
    unfold zsum in *. simpl. pose proof (op_rows_nonneg x). lia.
  Qed.

  Lemma run_cons s o rest :
    run s (o :: rest) = (snd (step s o), disk (fst (step s o))) :: run (fst (step s o)) rest.
  Proof. cbn [Model.run]. destruct (step s o); reflexivity. Qed.

  Theorem history_refines : forall ops s a,
    Inv s a -> hist_wf meta a ops -> used a + hist_rows ops < 10 ^ 20 ->
    hist_ok a (disk s) ops (run s ops)
    /\ Inv (final s ops) (fold_left (fun a o => fst (astep a o)) ops a).
  Proof.
    induction ops as [|o ops IH]; intros s a HI W B; [split; [exact I | exact HI]|].
    destruct W as [W1 W2]. unfold hist_rows in B. cbn [map] in B. unfold zsum in B. cbn [fold_right] in B.
    fold (zsum (map op_rows ops)) in B. fold (hist_rows ops) in B.
    pose proof (hist_rows_nonneg ops) as HR.
    destruct (step_refines s a o HI W1) as [I' A]; [lia|].
    pose proof (used_step a o (op_chunks_ok a o W1)) as U.
    destruct (IH (fst (step s o)) (fst (astep a o)) I' W2) as [H1 H2]; [lia|].
    split.
    - rewrite run_cons. cbn [hist_ok]. destruct (astep a o) as [a' r] eqn:E. cbn [fst snd] in *.
      split; [apply A | exact H1].
    - cbn [Model.final fold_left]. exact H2.
  Qed.

  Lemma Inv_init : Inv init AMissing.
  Proof. reflexivity. Qed.
End Refinement.

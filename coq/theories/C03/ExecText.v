(* C03/ExecText.v — evaluated by the correspondence run: the text the REAL writer prints for a chunk
   written alone (the harness's c_txt table, which Exec.enc_of looks up) against C04's verified model
   of the writer instantiated with C04's model of printf (TextRows.enc_text FmtModel.F_model): when
   they agree, the [enc] of the evaluated histories IS the function the theorem text_file_rows is about. *)
From Coq Require Import ZArith List Bool.
From Coq.Strings Require Import Byte.
From EsVerif.Common Require Import Base Bytes.
From EsVerif.C04 Require Import FmtModel.
From EsVerif.C03 Require Import Model Spec Exec TextRows.

Definition v_enc (dl : list byte) (c : chunk) : Z :=
  if bytes_eqb (enc_text F_model dl c) (enc_of dl c) then 0 else 1.

(* C03/Lemmas.v — decidable equalities and checker soundness. *)
From Coq Require Import ZArith List Bool NArith Lia.
From Coq.Strings Require Import Byte String.
From EsVerif.Common Require Import Base Bytes.
From EsVerif.C01 Require Import Framing.
From EsVerif.C03 Require Import Model Spec.
Import ListNotations.
Open Scope Z_scope.
Open Scope list_scope.
Notation length := List.length.

Lemma zl_eqb_eq a b : zl_eqb a b = true <-> a = b.
Proof. apply list_eqb_spec. intros; apply Z.eqb_eq. Qed.

Lemma field_eqb_eq a b : field_eqb a b = true <-> a = b.
Proof.
  unfold field_eqb. split.
  - intro H. repeat (apply andb_true_iff in H; destruct H as [H ?]).
    destruct a, b; simpl in *.
    apply bytes_eqb_eq in H. apply byte_eqb_eq in H3. apply byte_eqb_eq in H2.
    apply Z.eqb_eq in H1. apply zl_eqb_eq in H0. subst. reflexivity.
  - intros ->. rewrite !andb_true_iff. repeat split.
    + apply bytes_eqb_eq; reflexivity.
    + apply byte_eqb_eq; reflexivity.
    + apply byte_eqb_eq; reflexivity.
    + apply Z.eqb_refl.
    + apply zl_eqb_eq; reflexivity.
Qed.

Lemma dtype_eqb_eq a b : dtype_eqb a b = true <-> a = b.
Proof. apply list_eqb_spec. intros; apply field_eqb_eq. Qed.

Lemma rows_eqb_eq a b : rows_eqb a b = true <-> a = b.
Proof. apply list_eqb_spec. intros; apply bytes_eqb_eq. Qed.

Lemma ofile_eqb_eq (a b : option file) : ofile_eqb a b = true <-> a = b.
Proof.
  destruct a, b; simpl; split; intro H; try discriminate; try reflexivity.
  - apply bytes_eqb_eq in H. congruence.
  - inversion H. apply bytes_eqb_eq. reflexivity.
Qed.

Lemma obs_check_sound r before o : obs_check r before o = true -> obs_ok r before o.
Proof.
  destruct r as [ | | e | | af]; simpl; intro H; try exact I.
  - destruct (fst o) eqn:E; try discriminate. split; [reflexivity | exact H].
  - apply andb_true_iff in H as [H1 H2]. split; [exact H1 | apply ofile_eqb_eq; exact H2].
  - destruct (fst o) as [ | e | size dt rows u] eqn:E; try discriminate.
    apply andb_true_iff in H as [H H4]. apply andb_true_iff in H as [H H3].
    apply andb_true_iff in H as [H1 H2].
    apply Z.eqb_eq in H1. apply dtype_eqb_eq in H2. apply bytes_eqb_eq in H3. subst.
    exists rows. split; [reflexivity|].
    destruct rows as [r|].
    + apply rows_eqb_eq. exact H4.
    + intro N. rewrite N in H4. discriminate.
Qed.

Lemma hist_check_sound : forall ops a before os,
  hist_check a before ops os = true -> hist_ok a before ops os.
Proof.
  induction ops as [|o ops IH]; intros a before [|ob os] H; simpl in *; try discriminate; try exact I.
  destruct (astep a o) as [a' r].
  apply andb_true_iff in H as [H1 H2]. split; [apply obs_check_sound; exact H1 | apply IH; exact H2].
Qed.

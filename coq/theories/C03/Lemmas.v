(* C03/Lemmas.v — decidable equalities and checker soundness. *)
From Coq Require Import ZArith List Bool NArith Lia.
From Coq.Strings Require Import Byte String.
From EsVerif.Common Require Import Base Bytes.
From EsVerif.C01 Require Import Framing.
From EsVerif.C03 Require Import Model Spec.
Import ListNotations.
Open Scope Z_scope.
Open Scope list_scope.
Notation length := List.length.

Lemma zl_eqb_eq a b : zl_eqb a b = true <-> a = b.
Proof. apply list_eqb_spec. intros; apply Z.eqb_eq. Qed.

Lemma field_eqb_eq a b : field_eqb a b = true <-> a = b.
Proof.
  unfold field_eqb. split.
  - intro H. repeat (apply andb_true_iff in H; destruct H as [H ?]).
    destruct a, b; simpl in *.
    apply bytes_eqb_eq in H. apply byte_eqb_eq in H3. apply byte_eqb_eq in H2.
    apply Z.eqb_eq in H1. apply zl_eqb_eq in H0. subst. reflexivity.
  - intros ->. rewrite !andb_true_iff. repeat split.
    + apply bytes_eqb_eq; reflexivity.
    + apply byte_eqb_eq; reflexivity.
    + apply byte_eqb_eq; reflexivity.
    + apply Z.eqb_refl.
    + apply zl_eqb_eq; reflexivity.
Qed.

Lemma dtype_eqb_eq a b : dtype_eqb a b = true <-> a = b.
Proof. apply list_eqb_spec. intros; apply field_eqb_eq. Qed.

Lemma rows_eqb_eq a b : rows_eqb a b = true <-> a = b.
Proof. apply list_eqb_spec. intros; apply bytes_eqb_eq. Qed.

Lemma ofile_eqb_eq (a b : option file) : ofile_eqb a b = true <-> a = b.
Proof.
  destruct a, b; simpl; split; intro H; try discriminate; try reflexivity.
  - apply bytes_eqb_eq in H. congruence.
  - inversion H. apply bytes_eqb_eq. reflexivity.
Qed.

Lemma obs_check_sound r before o : obs_check r before o = true -> obs_ok r before o.
Proof.
  destruct r as [ | | e | | af]; simpl; intro H; try exact I.
  - destruct (fst o) eqn:E; try discriminate. split; [reflexivity | exact H].
  - apply andb_true_iff in H as [H1 H2]. split; [exact H1 | apply ofile_eqb_eq; exact H2].
  - destruct (fst o) as [ | e | size dt rows u] eqn:E; try discriminate.
    apply andb_true_iff in H as [H H4]. apply andb_true_iff in H as [H H3].
    apply andb_true_iff in H as [H1 H2].
    apply Z.eqb_eq in H1. apply dtype_eqb_eq in H2. apply bytes_eqb_eq in H3. subst.
    exists rows. split; [reflexivity|].
    destruct rows as [r|].
    + apply rows_eqb_eq. exact H4.
    + intro N. rewrite N in H4. discriminate.
Qed.

Lemma hist_check_sound : forall ops a before os,
  hist_check a before ops os = true -> hist_ok a before ops os.
Proof.
  induction ops as [|o ops IH]; intros a before [|ob os] H; simpl in *; try discriminate; try exact I.
  destruct (astep a o) as [a' r].
  apply andb_true_iff in H as [H1 H2]. split; [apply obs_check_sound; exact H1 | apply IH; exact H2].
Qed.

(* ------------------------------------------------------------------ what "compatible" means, exactly *)
(* a field with its byte order forgotten *)
Definition strip_order (f : field) : field :=
  {| f_name := f_name f; f_order := x00; f_kind := f_kind f; f_size := f_size f; f_shape := f_shape f |}.

Lemma field_eqb_noorder_iff a b : field_eqb_noorder a b = true <-> strip_order a = strip_order b.
Proof.
  unfold field_eqb_noorder, strip_order. split.
  - intro H. apply andb_true_iff in H as [H Hs]. apply andb_true_iff in H as [H Hz].
    apply andb_true_iff in H as [H Hk]. apply andb_true_iff in H as [_ Hn].
    apply bytes_eqb_eq in Hn. apply byte_eqb_eq in Hk. apply Z.eqb_eq in Hz. apply zl_eqb_eq in Hs.
    congruence.
  - intro E. injection E as E1 E2 E3 E4. rewrite E1, E2, E3, E4.
    rewrite !andb_true_iff. repeat split.
    + destruct (f_shape b); reflexivity.
    + apply bytes_eqb_eq; reflexivity.
    + apply byte_eqb_eq; reflexivity.
    + apply Z.eqb_refl.
    + apply zl_eqb_eq; reflexivity.
Qed.

Lemma dtype_eqb_noorder_iff a b : dtype_eqb_noorder a b = true <-> map strip_order a = map strip_order b.
Proof.
  unfold dtype_eqb_noorder. revert b. induction a as [|x a IH]; intros [|y b]; simpl; split; intro H;
    try reflexivity; try discriminate.
  - apply andb_true_iff in H as [H1 H2]. apply field_eqb_noorder_iff in H1. apply IH in H2. congruence.
  - assert (H1 : strip_order x = strip_order y) by congruence.
    assert (H2 : map strip_order a = map strip_order b) by congruence.
    apply andb_true_iff. split; [apply field_eqb_noorder_iff; exact H1 | apply IH; exact H2].
Qed.

(* binary: equal dtypes, byte order included; text: equal once the byte order is forgotten *)
Theorem compat_exact dl fdt cdt :
  compat dl fdt cdt = true <->
  match dl with None => fdt = cdt | Some _ => map strip_order fdt = map strip_order cdt end.
Proof. destruct dl; simpl; [apply dtype_eqb_noorder_iff | apply dtype_eqb_eq]. Qed.

(* the dtype recorded in a text file's header is compatible with the dtype it was created from,
   in either byte order *)
Lemma strip_nativize f : strip_order (nativize f) = strip_order f.
Proof. reflexivity. Qed.

Theorem compat_created dl dt : compat dl (file_dtype dl dt) dt = true.
Proof.
  apply compat_exact. destruct dl; [|reflexivity]. unfold file_dtype. rewrite map_map.
  apply map_ext. intro f. apply strip_nativize.
Qed.


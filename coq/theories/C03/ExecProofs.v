(* C03/ExecProofs.v — what the case files evaluate (Exec.run_x) is the model (Model.run). *)
From Coq Require Import ZArith List Bool NArith Lia.
From Coq.Strings Require Import Byte String.
From EsVerif.Common Require Import Base Bytes.
From EsVerif.C01 Require Import Framing.
From EsVerif.C03 Require Import Model Spec Exec.
Import ListNotations.
Open Scope Z_scope.
Open Scope list_scope.
Notation length := List.length.

Lemma take_rows_x_eq : forall rs n f, take_rows_x rs n f = take_rows rs n f.
Proof.
  intros rs n; induction n as [|k IH]; intro f; [reflexivity|]. cbn [take_rows_x take_rows].
  assert (E : (length (firstn rs f) <? rs)%nat = (length f <? rs)%nat).
  { rewrite firstn_length. destruct (Nat.ltb_spec (length f) rs) as [H|H].
    - apply Nat.ltb_lt. lia.
    - apply Nat.ltb_ge. lia. }
  rewrite E. destruct (length f <? rs)%nat; [reflexivity|]. rewrite IH. reflexivity.
Qed.

Lemma recfile_read_x_eq f off rs nr : recfile_read_x f off rs nr = recfile_read f off rs nr.
Proof. unfold recfile_read_x, recfile_read. rewrite take_rows_x_eq. reflexivity. Qed.

Section X.
  Variable meta : list byte -> option (delim * dtype * list byte).
  Variable enc : list byte -> chunk -> list byte.

  Lemma read_back_x_eq s : read_back_x meta s = read_back meta s.
  Proof.
    unfold read_back_x, read_back. destruct (disk s) as [f|]; [|reflexivity].
    destruct (read_meta meta f) as [[[[[size off] dl] dt] u]|e]; [|reflexivity].
    destruct dl; [reflexivity|]. rewrite recfile_read_x_eq. reflexivity.
  Qed.

  Lemma step_x_eq s o : step_x meta enc s o = step meta enc s o.
  Proof. destruct o; try reflexivity. cbn [step_x step]. rewrite read_back_x_eq. reflexivity. Qed.

  Theorem run_x_eq : forall ops s, run_x meta enc s ops = run meta enc s ops.
  Proof.
    induction ops as [|o ops IH]; intro s; [reflexivity|]. cbn [run_x run]. rewrite step_x_eq.
    destruct (step meta enc s o) as [s' r]. rewrite IH. reflexivity.
  Qed.
End X.

(* C03/GenTie.v — tie lemmas: the definitions GENERATED from the source (Gen.v) are the decisions the
   hand-written model (Model.v) makes.  Compiled on every run against the Gen.v regenerated from the
   working tree; a lemma that no longer compiles names the decision that changed. *)
From Coq Require Import ZArith List Bool NArith Lia.
From Coq.Strings Require Import Byte String.
From EsVerif.Common Require Import Base Bytes.
From EsVerif.C01 Require Import Framing.
From EsVerif.C03 Require Import Model Spec Lemmas GenLib.
From EsVerif.C03 Require Import Gen.
Import ListNotations.
Open Scope Z_scope.
Open Scope list_scope.
Notation length := List.length.

(* ---- sfile.write(): the mode it opens with *)
Lemma tie_fn_mode meta enc s ap dl c d u :
  step meta enc s (FnWrite ap dl c d u)
  = let '(s1, r1) := match gen_fn_mode ap with
                     | MRP => open_rp meta dl (close s)
                     | MW => (open_w dl, OOk)
                     end in
    match r1 with
    | OOk => let '(s2, r2) := sf_write enc c d s1 in (close s2, r2)
    | _ => (close s1, r1)
    end.
Proof. destruct ap; reflexivity. Qed.

(* ---- SFile.open(): fall-back for a missing path; the header is read iff the (final) mode starts with r *)
Lemma tie_open_mode meta dl s s' :
  open_rp meta dl s = (s', OOk) ->
  exists h, hnd s' = Some h
            /\ h_mode h = gen_open_mode MRP (exists_file (disk s))
            /\ h_hdr h = gen_reads_header (h_mode h).
Proof.
  unfold open_rp. destruct (disk s) as [f|] eqn:D.
  - destruct (read_meta meta f) as [[[[[size off] fdl] fdt] u]|e]; intro H; [|discriminate].
    injection H as <-. eexists. split; [reflexivity|]. split; reflexivity.
  - intro H. injection H as <-. eexists. split; [reflexivity|]. split; reflexivity.
Qed.

Lemma tie_open_w_mode dl : forall h, hnd (open_w dl) = Some h -> h_mode h = gen_open_mode MW true /\ h_hdr h = gen_reads_header (h_mode h).
Proof. intros h H. injection H as <-. split; reflexivity. Qed.

(* ---- _ensure_compatible_dtype(): the test and the exception *)
Lemma field_bad_noorder d1 d2 : gen_field_bad d1 d2 = negb (field_eqb_noorder d1 d2).
Proof.
  unfold gen_field_bad, field_eqb_noorder, dlen, dname, dtail, dshape, tail_eqb. cbn [fst snd].
  destruct (f_shape d1) as [|a s1], (f_shape d2) as [|b s2]; cbn [is_nil Bool.eqb Z.eqb negb orb andb];
    destruct (bytes_eqb (f_name d1) (f_name d2)), (byte_eqb (f_kind d1) (f_kind d2)), (f_size d1 =? f_size d2);
    cbn [negb orb andb]; try reflexivity.
Qed.

Lemma bad_text_noorder : forall fdt cdt, gen_bad_text fdt cdt = negb (dtype_eqb_noorder fdt cdt).
Proof.
  unfold gen_bad_text, dtype_eqb_noorder, nfields.
  induction fdt as [|x a IH]; intros [|y b]; try reflexivity.
  - cbn [length list_eqb existsb2]. specialize (IH b). rewrite field_bad_noorder.
    rewrite !Nat2Z.inj_succ.
    assert (E : (Z.succ (Z.of_nat (length b)) =? Z.succ (Z.of_nat (length a))) = (Z.of_nat (length b) =? Z.of_nat (length a))).
    { destruct (Z.eqb_spec (Z.of_nat (length b)) (Z.of_nat (length a))); [apply Z.eqb_eq; lia | apply Z.eqb_neq; lia]. }
    rewrite E. destruct (Z.of_nat (length b) =? Z.of_nat (length a)); cbn [negb] in *;
      destruct (field_eqb_noorder x y), (list_eqb field_eqb_noorder a b); cbn in *; congruence.
Qed.

Lemma tie_compatible dl fdt cdt :
  compatible dl fdt cdt = negb (match dl with None => gen_bad_binary fdt cdt | Some _ => gen_bad_text fdt cdt end).
Proof.
  destruct dl; cbn [compatible].
  - rewrite bad_text_noorder, negb_involutive. reflexivity.
  - unfold gen_bad_binary. rewrite negb_involutive. reflexivity.
Qed.

Lemma tie_incompatible_error enc c d f h fdt :
  h_dtype h = Some fdt -> compatible (h_delim h) fdt (c_dt c) = false ->
  sf_write enc c d {| disk := Some f; hnd := Some h |} = ({| disk := Some f; hnd := Some h |}, OErr gen_incompatible_error).
Proof. intros D K. unfold sf_write. cbn [hnd disk]. rewrite D, K. reflexivity. Qed.

(* ---- _update_size() + update_row_count(): the new count, where it goes, what is cached *)
Lemma tie_size_new enc c d f h fdt :
  h_hdr h = true -> h_dtype h = Some fdt -> compatible (h_delim h) fdt (c_dt c) = true ->
  let n' := gen_size_new (h_size h) (nrows c) in
  exists h', sf_write enc c d {| disk := Some f; hnd := Some h |}
             = ({| disk := Some (overwrite (size_line n' ++ [nl]) f ++ payload enc (h_delim h) c); hnd := Some h' |}, OOk)
             /\ h_size h' = n'.
Proof.
  intros H D K n'. unfold sf_write. cbn [hnd disk]. rewrite D, K, H. cbn [negb].
  eexists. split; reflexivity.
Qed.

(* ---- the text update_row_count prints is the model's size line *)
Lemma tie_size_line n : size_line n ++ [nl] = gen_size_prefix ++ pad_left gen_size_width (dec n) ++ gen_size_suffix.
Proof. unfold size_line. rewrite <- app_assoc. reflexivity. Qed.

(* ---- SFile.write(): check that an object is open, then compatibility, then header / count, then rows *)
Lemma tie_write_steps : gen_write_steps = [WEnsureOpen; WCompat; WHeader; WRows].
Proof. reflexivity. Qed.

(* ---- _make_header(): the names it removes from the user's header *)
Lemma tie_stripped_names :
  gen_stripped_names = [B "_size"; B "_nrows"; B "_delim"; B "_shape"; B "_has_fields"].
Proof. reflexivity. Qed.

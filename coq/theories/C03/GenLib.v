(* C03/GenLib.v — the vocabulary the GENERATED file Gen.v is written in (hand-written, no proofs):
   numpy's descr entries ('name', '<f8'[, shape]) seen through C01's [field] record, file modes. *)
From Coq Require Import ZArith List Bool.
From Coq.Strings Require Import Byte.
From EsVerif.Common Require Import Base Bytes.
From EsVerif.C01 Require Import Framing.
From EsVerif.C03 Require Import Model.
Import ListNotations.
Open Scope Z_scope.

(* len(d): a descr entry has 3 components iff the field has a sub-array shape *)
Definition dlen (f : field) : Z := if is_nil (f_shape f) then 2 else 3.
Definition dname (f : field) : list byte := f_name f.                 (* d[0] *)
Definition dtail (f : field) : byte * Z := (f_kind f, f_size f).       (* d[1][1:] : type string without its first character *)
Definition dshape (f : field) : list Z := f_shape f.                  (* d[2] *)
Definition tail_eqb (a b : byte * Z) : bool := byte_eqb (fst a) (fst b) && (snd a =? snd b).
Definition nfields (dt : dtype) : Z := Z.of_nat (length dt).           (* len(dtype.names) *)

(* for d1, d2 in zip(l1, l2): if test(d1, d2): bad = True; break *)
Fixpoint existsb2 {A} (p : A -> A -> bool) (l1 l2 : list A) : bool :=
  match l1, l2 with
  | a :: t1, b :: t2 => p a b || existsb2 p t1 t2
  | _, _ => false
  end.

Definition mode_eqb (a b : mode) : bool := match a, b with MW, MW | MRP, MRP => true | _, _ => false end.
Definition mode_first_is_r (m : mode) : bool := match m with MRP => true | MW => false end.   (* mode[0] == "r" *)

(* the steps of SFile.write *)
Inductive wstep := WEnsureOpen | WCompat | WHeader | WRows.

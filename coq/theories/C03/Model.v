(* C03/Model.v — executable model of the append machinery of the self-describing record files.
   NO proofs in this file.

   Anchors (esheldon/esutil):
     esutil/sfile.py   SFile.open (172-236: mode selection, header cache), close (238-258),
                       _ensure_open_for_writing (308-314), _ensure_compatible_dtype (332-392),
                       write (394-418), _write_header (545-579), _update_size (598-615),
                       read_header (740-769), write() convenience (918-936), read() (981-984)
     esutil/recfile/Util.py   Recfile.open (158-243: 'r+' needs the file, 'w' truncates),
                       _count_nrows (261-284), write (433-458)
     esutil/recfile/records.cpp   constructor (114-167), process_nrows (220-227),
                       write_header_and_update_offset (1470-1483), update_row_count (1494-1508),
                       Write (1565-1598: always seek to the end, then the rows, then flush)

   The model describes the code AFTER the three repairs in fixes/C03:
     0001  SFile.open: mode 'r+' on a missing path falls back to mode 'w' (as the docstring of
           sfile.write says) instead of trying to read a header from a file that is not there;
     0002  _ensure_compatible_dtype: the `raise` also covers binary files (it was nested in the
           text branch, so an incompatible binary append was written into the file);
     0003  Records::Write ends with fflush, so that the row count on disk is never ahead of the
           rows on disk when a write call has returned.

   One file (one path) and at most one SFile object at a time ("one writer").  A file is the
   list of its bytes (C01/Framing.v).  stdio is modelled at the granularity of one SFile.write
   call: when the call returns, everything it wrote is on disk (repair 0003).

   NOT modelled (Section variables, see Spec.v for the contract the theorems assume and the
   harness monitors):
     [meta]  eval of the header dict text + numpy.dtype(_DTYPE): what SFile.open(mode 'r'/'r+')
             learns from the header: delimiter, dtype, and (for the observations) a canonical
             rendering of the user's header entries;
     [enc]   the text a chunk is printed as by Records::WriteRows for a delimiter (C04's subject). *)
From Coq Require Import ZArith List Bool NArith.
From Coq.Strings Require Import Byte String.
From EsVerif.Common Require Import Base Bytes.
From EsVerif.C01 Require Import Framing.
Import ListNotations.
Open Scope Z_scope.
Open Scope list_scope.
Notation length := List.length.

(* ------------------------------------------------------------------ dtypes *)
Definition zl_eqb := list_eqb Z.eqb.

(* numpy's == on packed structured dtypes of the kinds of the quantifier: names, byte order,
   kind, item size and sub-array shape of every field *)
Definition field_eqb (a b : field) : bool :=
  bytes_eqb (f_name a) (f_name b) && byte_eqb (f_order a) (f_order b) && byte_eqb (f_kind a) (f_kind b)
  && (f_size a =? f_size b) && zl_eqb (f_shape a) (f_shape b).
Definition dtype_eqb : dtype -> dtype -> bool := list_eqb field_eqb.

(* the text branch of _ensure_compatible_dtype: same number of fields and, field by field,
   len(descr entry) (3 iff there is a sub-array shape), name, type string without its first
   character, shape *)
Definition is_nil {A} (l : list A) : bool := match l with [] => true | _ => false end.
Definition field_eqb_noorder (a b : field) : bool :=
  Bool.eqb (is_nil (f_shape a)) (is_nil (f_shape b))
  && bytes_eqb (f_name a) (f_name b) && byte_eqb (f_kind a) (f_kind b)
  && (f_size a =? f_size b) && zl_eqb (f_shape a) (f_shape b).
Definition dtype_eqb_noorder : dtype -> dtype -> bool := list_eqb field_eqb_noorder.

(* numpy.dtype(_remove_byteorder(descr)) on this (little-endian) machine: '>' becomes '<',
   '<' and '|' stay *)
Definition nativize (f : field) : field :=
  {| f_name := f_name f; f_order := if byte_eqb (f_order f) ">"%byte then "<"%byte else f_order f;
     f_kind := f_kind f; f_size := f_size f; f_shape := f_shape f |}.

Definition delim := option (list byte).          (* None = binary *)

(* the dtype recorded in the header of a file created with delimiter dl from data of dtype dt *)
Definition file_dtype (dl : delim) (dt : dtype) : dtype :=
  match dl with None => dt | Some _ => map nativize dt end.

(* ------------------------------------------------------------------ chunks *)
(* One array handed to write(): its dtype, its rows as bytes (numpy's memory image, in the
   chunk's own dtype), and — supplied by the harness for text files — what reading a file that
   holds this chunk alone returns (rows in the file's dtype; C04's subject) *)
Record chunk := { c_dt : dtype; c_rows : list (list byte); c_back : list (list byte);
                  c_txt : list (list byte * list byte) }.   (* delimiter -> printed text (Exec) *)
Definition nrows (c : chunk) : Z := Z.of_nat (length (c_rows c)).

Inductive mode := MW | MRP.                      (* 'w' | 'r+' *)

(* SFile's header cache *)
Record handle := { h_mode : mode; h_delim : delim; h_hdr : bool (* self._hdr is not None *);
                   h_size : Z; h_dtype : option dtype }.
Record state := { disk : option file (* None: the path does not exist *); hnd : option handle }.

Definition init : state := {| disk := None; hnd := None |}.

(* operations of a history; [d] is the pformat text of the header dict that _make_header would
   build for this chunk and user header (used only when the write creates the header), [u] the
   canonical rendering of the user's header entries (observations only) *)
Inductive op :=
| Create (dl : delim) (c : chunk) (d u : list byte)   (* sf = SFile(f,'w',delim=dl); sf.write(c, header) *)
| WriteAgain (c : chunk) (d u : list byte)            (* sf.write(c, header) on the open object *)
| Close                                               (* sf.close() *)
| Reopen (dl : delim)                                 (* sf = SFile(f,'r+',delim=dl) *)
| FnWrite (append : bool) (dl : delim) (c : chunk) (d u : list byte)
                                                      (* sfile.write(f, c, header=, delim=dl, append=) *)
| Read.                                               (* sfile.read(f, header=True) *)

(* what an operation answers *)
Inductive out :=
| OOk
| OErr (e : err)
| ORead (size : Z) (dt : dtype) (rows : option (list (list byte))) (u : list byte).

(* fprintf at position 0 over existing bytes *)
Definition overwrite (p f : list byte) : list byte := p ++ skipn (length p) f.

Definition set_disk (s : state) (f : option file) : state := {| disk := f; hnd := hnd s |}.
Definition set_hnd (s : state) (h : option handle) : state := {| disk := disk s; hnd := h |}.

Section Machine.
  Variable meta : list byte -> option (delim * dtype * list byte).
  Variable enc : list byte -> chunk -> list byte.

  (* bytes that Records::Write appends for a chunk *)
  Definition payload (dl : delim) (c : chunk) : list byte :=
    match dl with None => bin_write (c_rows c) | Some d => enc d c end.

  (* _ensure_compatible_dtype, given the cached dtype of the file *)
  Definition compatible (dl : delim) (fdt cdt : dtype) : bool :=
    match dl with None => dtype_eqb fdt cdt | Some _ => dtype_eqb_noorder fdt cdt end.

  Definition fresh_handle (dl : delim) : handle :=
    {| h_mode := MW; h_delim := dl; h_hdr := false; h_size := 0; h_dtype := None |}.

  (* SFile(f, 'w', delim=dl): fopen(.., "w") creates or truncates *)
  Definition open_w (dl : delim) : state := {| disk := Some []; hnd := Some (fresh_handle dl) |}.

  (* what SFile.open(mode 'r' or 'r+') and sfile.read learn from an existing file: the dummy
     Recfile of read_header counts 8-byte rows and Records rejects a count < 1; then the
     scanner, the SIZE line, eval of the dict text; Records rejects a declared size < 1 *)
  Definition read_meta (f : file) : result (Z * nat * delim * dtype * list byte) :=
    if (length f <? 8)%nat then Err ERuntime else
    do raw <- sfile_read_raw f;
    let '(size, dtext, off) := raw in
    match meta dtext with
    | None => Err EOther
    | Some (dl, dt, u) => if size <? 1 then Err ERuntime else Ok (size, off, dl, dt, u)
    end.

  (* SFile(f, 'r+', delim=dl) with no object open *)
  Definition open_rp (dl : delim) (s : state) : state * out :=
    match disk s with
    | None => (open_w dl, OOk)                                   (* repair 0001 *)
    | Some f =>
        match read_meta f with
        | Err e => (s, OErr e)
        | Ok (size, _, fdl, fdt, _) =>
            (set_hnd s (Some {| h_mode := MRP; h_delim := fdl; h_hdr := true; h_size := size;
                                h_dtype := Some fdt |}), OOk)
        end
    end.

  (* SFile.write(c, header) *)
  Definition sf_write (c : chunk) (d : list byte) (s : state) : state * out :=
    match hnd s, disk s with
    | None, _ => (s, OErr ERuntime)                              (* "no file is open" *)
    | Some _, None => (s, OErr EOther)                           (* not reachable: see Proofs *)
    | Some h, Some f =>
        let ok := match h_dtype h with
                  | Some fdt => compatible (h_delim h) fdt (c_dt c)
                  | None => true
                  end in
        if negb ok then (s, OErr EValue)                         (* repair 0002 for binary *)
        else
          let n := nrows c in
          let '(f1, h1) :=
            if h_hdr h then
              let sz := h_size h + n in                          (* _update_size / update_row_count *)
              (overwrite (size_line sz ++ [nl]) f,
               {| h_mode := h_mode h; h_delim := h_delim h; h_hdr := true; h_size := sz;
                  h_dtype := h_dtype h |})
            else                                                 (* first write: the header *)
              (overwrite (write_header (mk_header n d)) f,
               {| h_mode := h_mode h; h_delim := h_delim h; h_hdr := true; h_size := n;
                  h_dtype := Some (file_dtype (h_delim h) (c_dt c)) |}) in
          (* Records::Write: fseek(END); rows; fflush (repair 0003) *)
          ({| disk := Some (f1 ++ payload (h_delim h) c); hnd := Some h1 |}, OOk)
    end.

  Definition close (s : state) : state := set_hnd s None.

  (* sfile.read(f, header=True) *)
  Definition read_back (s : state) : out :=
    match disk s with
    | None => OErr EOther                                        (* FileNotFoundError *)
    | Some f =>
        match read_meta f with
        | Err e => OErr e
        | Ok (size, off, dl, dt, u) =>
            match dl with
            | None =>
                match recfile_read f (Z.of_nat off) (rowsize dt) (Some size) with
                | Ok rows => ORead size dt (Some rows) u
                | Err e => OErr e
                end
            | Some _ => ORead size dt None u                     (* text rows: C04, not modelled *)
            end
        end
    end.

  Definition step (s : state) (o : op) : state * out :=
    match o with
    | Create dl c d _ => sf_write c d (open_w dl)
    | WriteAgain c d _ => sf_write c d s
    | Close => (close s, OOk)
    | Reopen dl => open_rp dl (close s)
    | FnWrite append dl c d _ =>
        let '(s1, r1) := if append then open_rp dl (close s) else (open_w dl, OOk) in
        match r1 with
        | OOk => let '(s2, r2) := sf_write c d s1 in (close s2, r2)   (* with ... as sf: *)
        | _ => (close s1, r1)
        end
    | Read => (s, read_back s)
    end.

  (* a history: the answers and the disk contents after every operation *)
  Fixpoint run (s : state) (ops : list op) : list (out * option file) :=
    match ops with
    | [] => []
    | o :: rest => let '(s', r) := step s o in (r, disk s') :: run s' rest
    end.

  Fixpoint final (s : state) (ops : list op) : state :=
    match ops with
    | [] => s
    | o :: rest => final (fst (step s o)) rest
    end.
End Machine.

(* ------------------------------------------------------------------ the code as found *)
(* Kept to state what was wrong (Properties.C03_asfound_*_refuted):
   SFile.open as found: 'r+' on a missing path raises (FileNotFoundError from _count_nrows of
   the dummy Recfile) and nothing is created; _ensure_compatible_dtype as found: binary files
   are never rejected. *)
Section AsFound.
  Variable meta : list byte -> option (delim * dtype * list byte).
  Variable enc : list byte -> chunk -> list byte.

  Definition open_rp_v0 (dl : delim) (s : state) : state * out :=
    match disk s with
    | None => (s, OErr EOther)
    | Some _ => open_rp meta dl s
    end.

  Definition compatible_v0 (dl : delim) (fdt cdt : dtype) : bool :=
    match dl with None => true | Some _ => dtype_eqb_noorder fdt cdt end.

  Definition sf_write_v0 (c : chunk) (d : list byte) (s : state) : state * out :=
    match hnd s, disk s with
    | None, _ => (s, OErr ERuntime)
    | Some _, None => (s, OErr EOther)
    | Some h, Some f =>
        let ok := match h_dtype h with
                  | Some fdt => compatible_v0 (h_delim h) fdt (c_dt c)
                  | None => true
                  end in
        if negb ok then (s, OErr EValue)
        else
          let n := nrows c in
          let '(f1, h1) :=
            if h_hdr h then
              let sz := h_size h + n in
              (overwrite (size_line sz ++ [nl]) f,
               {| h_mode := h_mode h; h_delim := h_delim h; h_hdr := true; h_size := sz;
                  h_dtype := h_dtype h |})
            else
              (overwrite (write_header (mk_header n d)) f,
               {| h_mode := h_mode h; h_delim := h_delim h; h_hdr := true; h_size := n;
                  h_dtype := Some (file_dtype (h_delim h) (c_dt c)) |}) in
          ({| disk := Some (f1 ++ payload enc (h_delim h) c); hnd := Some h1 |}, OOk)
    end.

  Definition fn_append_v0 (dl : delim) (c : chunk) (d : list byte) (s : state) : state * out :=
    let '(s1, r1) := open_rp_v0 dl (close s) in
    match r1 with
    | OOk => let '(s2, r2) := sf_write_v0 c d s1 in (close s2, r2)
    | _ => (close s1, r1)
    end.
End AsFound.

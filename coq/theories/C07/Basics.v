(* C07 — basic lemmas: boolean equalities, name membership, field lookup, list helpers. *)
From EsVerif.Common Require Import Base Bytes.
From Coq.Strings Require Import Byte.
From Coq.Strings Require String.
From EsVerif.C07 Require Import Model Spec.

(* ------------------------------------------------------------ list helpers *)
Lemma forallb_false_exists {A} (p : A -> bool) l :
  forallb p l = false -> exists x, In x l /\ p x = false.
Proof.
  induction l as [|x t IH]; simpl; intro H; [discriminate|].
  destruct (p x) eqn:E.
  - destruct (IH H) as [y [Hy Py]]. exists y; auto.
  - exists x; auto.
Qed.

Lemma forallb_ext {A} (p q : A -> bool) l : (forall x, p x = q x) -> forallb p l = forallb q l.
Proof. intro H. induction l as [|x t IH]; simpl; [reflexivity|]. now rewrite H, IH. Qed.

Lemma map_id_in {A} (h : A -> A) l : (forall x, In x l -> h x = x) -> map h l = l.
Proof.
  induction l as [|x t IH]; simpl; intro H; [reflexivity|].
  rewrite H by (now left). f_equal. apply IH. intros y Hy. apply H. now right.
Qed.

Lemma filter_map_comm {A B} (g : A -> B) (p : B -> bool) l :
  filter p (map g l) = map g (filter (fun x => p (g x)) l).
Proof. induction l as [|x t IH]; simpl; [reflexivity|]. destruct (p (g x)); simpl; congruence. Qed.

Lemma filter_nil_forallb {A} (p : A -> bool) l :
  filter p l = [] <-> forallb (fun x => negb (p x)) l = true.
Proof.
  induction l as [|x t IH]; simpl; [tauto|].
  destruct (p x); simpl; [split; discriminate|exact IH].
Qed.

Lemma NoDup_app_inv {A} (l1 l2 : list A) :
  NoDup (l1 ++ l2) -> NoDup l1 /\ NoDup l2 /\ (forall x, In x l1 -> ~ In x l2).
Proof.
  induction l1 as [|x t IH]; simpl; intro H.
  - repeat split; [constructor|assumption|tauto].
  - inversion H as [|y l Hn Hd]; subst. destruct (IH Hd) as [H1 [H2 H3]].
    repeat split; [constructor; [|assumption]|assumption|].
    + intro Hi. apply Hn. apply in_or_app; auto.
    + intros z [Hz|Hz] Hz2; [subst; apply Hn; apply in_or_app; auto|exact (H3 z Hz Hz2)].
Qed.

Lemma NoDup_app_intro {A} (l1 l2 : list A) :
  NoDup l1 -> NoDup l2 -> (forall x, In x l1 -> ~ In x l2) -> NoDup (l1 ++ l2).
Proof.
  induction l1 as [|x t IH]; simpl; intros H1 H2 H3; [assumption|].
  inversion H1 as [|y l Hn Hd]; subst. constructor.
  - intro Hi. apply in_app_or in Hi as [Hi|Hi]; [auto|exact (H3 x (or_introl eq_refl) Hi)].
  - apply IH; auto.
Qed.

Lemma NoDup_map_filter {A B} (g : A -> B) (p : A -> bool) l :
  NoDup (map g l) -> NoDup (map g (filter p l)).
Proof.
  induction l as [|x t IH]; simpl; intro H; [constructor|].
  inversion H as [|y l' Hn Hd]; subst. destruct (p x); simpl; [|auto].
  constructor; [|auto]. intro Hi. apply Hn. apply in_map_iff in Hi as [z [Ez Hz]].
  apply filter_In in Hz as [Hz _]. apply in_map_iff. exists z; auto.
Qed.

Lemma NoDup_filter' {A} (p : A -> bool) l : NoDup l -> NoDup (filter p l).
Proof. intro H. rewrite <- (map_id l) in H. apply (NoDup_map_filter (fun x => x) p) in H. now rewrite map_id in H. Qed.

Lemma map_fst_combine' {A B} (l1 : list A) (l2 : list B) :
  length l1 = length l2 -> map fst (combine l1 l2) = l1.
Proof.
  revert l2; induction l1 as [|x t IH]; intros [|y t2]; simpl; intro H; try reflexivity; try discriminate.
  f_equal. apply IH. congruence.
Qed.

Lemma combine_map_l {A B C} (g : A -> C) (l1 : list A) (l2 : list B) :
  combine (map g l1) l2 = map (fun p => (g (fst p), snd p)) (combine l1 l2).
Proof. revert l2; induction l1 as [|x t IH]; intros [|y t2]; simpl; try reflexivity. f_equal. apply IH. Qed.

Lemma len_nonneg {A} (l : list A) : 0 <= len l.
Proof. unfold len. lia. Qed.

Lemma len_zero {A} (l : list A) : len l = 0 <-> l = [].
Proof. unfold len. destruct l; simpl; split; intro H; try reflexivity; try discriminate; lia. Qed.

(* ------------------------------------------------------- boolean equalities *)
Lemma order_eqb_eq a b : order_eqb a b = true <-> a = b.
Proof. destruct a, b; simpl; split; intro H; try reflexivity; discriminate. Qed.
Lemma kind_eqb_eq a b : kind_eqb a b = true <-> a = b.
Proof. destruct a, b; simpl; split; intro H; try reflexivity; discriminate. Qed.
Lemma ftype_eqb_eq a b : ftype_eqb a b = true <-> a = b.
Proof.
  destruct a as [o k n], b as [o' k' n']. unfold ftype_eqb; simpl.
  rewrite !andb_true_iff, order_eqb_eq, kind_eqb_eq, Z.eqb_eq. split.
  - intros [[-> ->] ->]. reflexivity.
  - intro H; inversion H; auto.
Qed.
Lemma dentry_eqb_eq a b : dentry_eqb a b = true <-> a = b.
Proof.
  destruct a as [n t s], b as [n' t' s']. unfold dentry_eqb; simpl.
  rewrite !andb_true_iff, String.eqb_eq, ftype_eqb_eq, zlist_eqb_spec. split.
  - intros [[-> ->] ->]. reflexivity.
  - intro H; inversion H; auto.
Qed.
Lemma data_eqb_eq a b : data_eqb a b = true <-> a = b.
Proof. apply list_eqb_spec. intros; apply bytes_eqb_eq. Qed.
Lemma field_eqb_eq a b : field_eqb a b = true <-> a = b.
Proof.
  destruct a as [d x], b as [d' x']. unfold field_eqb; simpl.
  rewrite andb_true_iff, dentry_eqb_eq, data_eqb_eq. split.
  - intros [-> ->]. reflexivity.
  - intro H; inversion H; auto.
Qed.
Lemma sarray_eqb_eq a b : sarray_eqb a b = true <-> a = b.
Proof.
  destruct a as [s f], b as [s' f']. unfold sarray_eqb; simpl.
  rewrite andb_true_iff, zlist_eqb_spec, (list_eqb_spec field_eqb field_eqb_eq). split.
  - intros [-> ->]. reflexivity.
  - intro H; inversion H; auto.
Qed.
Lemma fview_eqb_eq a b : fview_eqb a b = true <-> a = b.
Proof.
  destruct a as [t s x], b as [t' s' x']. unfold fview_eqb; simpl.
  rewrite !andb_true_iff, ftype_eqb_eq, zlist_eqb_spec, data_eqb_eq. split.
  - intros [[-> ->] ->]. reflexivity.
  - intro H; inversion H; auto.
Qed.
Lemma slist_eqb_eq a b : slist_eqb a b = true <-> a = b.
Proof. apply list_eqb_spec. intros; apply String.eqb_eq. Qed.

Lemma same_type_refl d : same_type d d = true.
Proof.
  unfold same_type. apply andb_true_iff. split; [apply ftype_eqb_eq|apply zlist_eqb_spec]; reflexivity.
Qed.

(* --------------------------------------------------------- name membership *)
Lemma memb_In n l : memb n l = true <-> In n l.
Proof.
  induction l as [|x t IH]; simpl; [split; [discriminate|tauto]|].
  rewrite orb_true_iff, IH, String.eqb_eq. split; intros [H|H]; auto.
Qed.
Lemma memb_false n l : memb n l = false <-> ~ In n l.
Proof. rewrite <- memb_In. destruct (memb n l); split; intro H; try reflexivity; try discriminate; congruence. Qed.
Lemma memb_ext n l1 l2 : (In n l1 <-> In n l2) -> memb n l1 = memb n l2.
Proof.
  intro H. destruct (memb n l2) eqn:E.
  - apply memb_In. apply H. now apply memb_In.
  - apply memb_false. intro Hi. apply memb_false in E. apply E. now apply H.
Qed.
Lemma nodup_b_NoDup l : nodup_b l = true <-> NoDup l.
Proof.
  induction l as [|x t IH]; simpl; [split; [constructor|reflexivity]|].
  rewrite andb_true_iff, negb_true_iff, memb_false, IH. split.
  - intros [H1 H2]. constructor; assumption.
  - intro H. inversion H; auto.
Qed.
Lemma nodup_b_false l : nodup_b l = false <-> ~ NoDup l.
Proof. rewrite <- nodup_b_NoDup. destruct (nodup_b l); split; intro H; try reflexivity; try discriminate; congruence. Qed.

Lemma forallb_memb ks l : forallb (fun n => memb n l) ks = true <-> (forall n, In n ks -> In n l).
Proof. rewrite forallb_forall. split; intros H n Hn; [apply memb_In|apply memb_In]; auto. Qed.
Lemma forallb_memb_false ks l :
  forallb (fun n => memb n l) ks = false <-> exists n, In n ks /\ ~ In n l.
Proof.
  split.
  - intro H. apply forallb_false_exists in H as [n [Hn Pn]]. exists n. split; [assumption|now apply memb_false].
  - intros [n [Hn Pn]]. destruct (forallb (fun n0 => memb n0 l) ks) eqn:E; [|reflexivity].
    exfalso. apply Pn. exact (proj1 (forallb_memb ks l) E n Hn).
Qed.

(* names / descr bookkeeping *)
Lemma names_descr a : map dname (descr a) = names a.
Proof. unfold descr, names. rewrite map_map. reflexivity. Qed.
Lemma names_fields fs : map dname (map fdesc fs) = map fname fs.
Proof. rewrite map_map. reflexivity. Qed.
Lemma sarray_eta a : mkA (shape a) (fields a) = a.
Proof. destruct a; reflexivity. Qed.
Lemma field_eta f : mkF (fdesc f) (fdata f) = f.
Proof. destruct f; reflexivity. Qed.
Lemma given_wrap x : seq_or_wrap x = given x.
Proof. destruct x; reflexivity. Qed.
Lemma given_vals_unwrap x : unwrap_vals x = given_vals x.
Proof. destruct x; reflexivity. Qed.

(* ------------------------------------------------------------ field lookup *)
Lemma find_field_Some n fs f : find_field n fs = Some f -> In f fs /\ fname f = n.
Proof.
  induction fs as [|g t IH]; simpl; [discriminate|].
  destruct (String.eqb (fname g) n) eqn:E; intro H.
  - inversion H; subst. apply String.eqb_eq in E. auto.
  - destruct (IH H); auto.
Qed.
Lemma find_field_None n fs : find_field n fs = None <-> ~ In n (map fname fs).
Proof.
  induction fs as [|g t IH]; simpl; [tauto|].
  destruct (String.eqb (fname g) n) eqn:E.
  - apply String.eqb_eq in E. split; [discriminate|]. intro H. exfalso. apply H. auto.
  - apply String.eqb_neq in E. rewrite IH. tauto.
Qed.
Lemma find_field_In_names n fs : In n (map fname fs) -> exists f, find_field n fs = Some f.
Proof.
  intro H. destruct (find_field n fs) eqn:E; [eauto|]. apply find_field_None in E. contradiction.
Qed.
Lemma find_field_NoDup fs f : NoDup (map fname fs) -> In f fs -> find_field (fname f) fs = Some f.
Proof.
  induction fs as [|g t IH]; simpl; intros Hn Hi; [contradiction|].
  inversion Hn as [|x l Hx Hd]; subst.
  destruct Hi as [->|Hi]; [now rewrite String.eqb_refl|].
  destruct (String.eqb (fname g) (fname f)) eqn:E; [|auto].
  apply String.eqb_eq in E. exfalso. apply Hx. rewrite E. now apply in_map.
Qed.
Lemma field_unique fs f g : NoDup (map fname fs) -> In f fs -> In g fs -> fname f = fname g -> f = g.
Proof.
  intros Hn Hf Hg E. pose proof (find_field_NoDup fs f Hn Hf) as H1.
  pose proof (find_field_NoDup fs g Hn Hg) as H2. rewrite E in H1. congruence.
Qed.
Lemma find_field_map h n fs :
  (forall g, fname (h g) = fname g) -> find_field n (map h fs) = option_map h (find_field n fs).
Proof.
  intro H. induction fs as [|g t IH]; simpl; [reflexivity|]. rewrite H.
  destruct (String.eqb (fname g) n); [reflexivity|exact IH].
Qed.
Lemma find_field_app n l1 l2 :
  find_field n (l1 ++ l2) = match find_field n l1 with Some f => Some f | None => find_field n l2 end.
Proof. induction l1 as [|g t IH]; simpl; [reflexivity|]. destruct (String.eqb (fname g) n); auto. Qed.

Lemma pick_In a n f : In f (pick a n) -> In f (fields a) /\ fname f = n.
Proof.
  unfold pick. destruct (find_field n (fields a)) eqn:E; simpl; [|contradiction].
  intros [<-|[]]. now apply find_field_Some.
Qed.

Lemma put_field_descr n data fs : map fdesc (put_field n data fs) = map fdesc fs.
Proof.
  unfold put_field. rewrite map_map. apply map_ext. intro g.
  destruct (String.eqb (fname g) n); reflexivity.
Qed.
Lemma put_field_names n data fs : map fname (put_field n data fs) = map fname fs.
Proof.
  unfold put_field. rewrite map_map. apply map_ext. intro g.
  destruct (String.eqb (fname g) n); reflexivity.
Qed.

Lemma find_descr_fields n fs : find_descr n (map fdesc fs) = option_map fdesc (find_field n fs).
Proof.
  induction fs as [|g t IH]; simpl; [reflexivity|]. unfold fname.
  destruct (String.eqb (dname (fdesc g)) n); [reflexivity|exact IH].
Qed.

(* --------------------------------------------------- assignment broadcasting *)
Lemma bcast_ok_refl l : bcast_ok l l = true.
Proof. induction l as [|x t IH]; simpl; [reflexivity|]. rewrite Z.eqb_refl. simpl. exact IH. Qed.
Lemma assign_ok_refl s : assign_ok s s = true.
Proof.
  unfold assign_ok. rewrite Nat.sub_diag.
  assert (E : strip_ones 0 s = s) by (destruct s; reflexivity). rewrite E.
  rewrite Nat.leb_refl. simpl. apply bcast_ok_refl.
Qed.

(* C07 — COMPLETENESS of the boolean checkers: whenever the implementation's output satisfies
   the property (the Prop of Spec.v), the checker evaluated by the correspondence run accepts it.
   Together with soundness (CmpProofs.v) each checker DECIDES its Prop: a case is reported as a
   failing input exactly when the statement is violated on it — the checker never demands more
   than the statement. *)
From EsVerif.Common Require Import Base Bytes.
From Coq.Strings Require Import Byte.
From Coq.Strings Require String.
From EsVerif.C07 Require Import Model Spec Basics Proofs CmpProofs.

Lemma sarray_eqb_refl r : sarray_eqb r r = true.
Proof. now apply sarray_eqb_eq. Qed.

Lemma eq_mkA r s fs : shape r = s -> fields r = fs -> r = mkA s fs.
Proof. intros <- <-. symmetry. apply sarray_eta. Qed.

Lemma extract_check_complete a ks strict out :
  extract_spec a ks strict out -> extract_check a ks strict out = true.
Proof.
  unfold extract_check. intros [[R [e ->]]|[R [r [-> [Hs Hf]]]]].
  - apply extract_rejects_dec in R. rewrite R. reflexivity.
  - destruct (extract_rejects_b a ks strict) eqn:B; [exfalso; apply R; now apply extract_rejects_dec|].
    rewrite (eq_mkA r _ _ Hs Hf). apply sarray_eqb_refl.
Qed.

Lemma remove_check_complete a ks out : remove_spec a ks out -> remove_check a ks out = true.
Proof.
  unfold remove_check. intros [[R [e ->]]|[R [r [-> [Hs Hf]]]]].
  - apply remove_rejects_dec in R. rewrite R. reflexivity.
  - destruct (remove_rejects_b a ks) eqn:B; [exfalso; apply R; now apply remove_rejects_dec|].
    rewrite (eq_mkA r _ _ Hs Hf). apply sarray_eqb_refl.
Qed.

Lemma reorder_check_complete a ks strict out :
  reorder_spec a ks strict out -> reorder_check a ks strict out = true.
Proof.
  unfold reorder_check. intros [[R [e ->]]|[R [r [-> [Hs Hf]]]]].
  - apply reorder_rejects_dec in R. rewrite R. reflexivity.
  - destruct (reorder_rejects_b a ks strict) eqn:B; [exfalso; apply R; now apply reorder_rejects_dec|].
    rewrite (eq_mkA r _ _ Hs Hf). apply sarray_eqb_refl.
Qed.

Lemma add_check_complete a add dv out : add_spec a add dv out -> add_check a add dv out = true.
Proof.
  unfold add_check. intros [[R [e ->]]|[R [r [-> [Hs Hf]]]]].
  - apply add_rejects_dec in R. rewrite R. reflexivity.
  - destruct (add_rejects_b a add) eqn:B; [exfalso; apply R; now apply add_rejects_dec|].
    rewrite (eq_mkA r _ _ Hs Hf). apply sarray_eqb_refl.
Qed.

Lemma combine_check_complete arrs out : combine_spec arrs out -> combine_check arrs out = true.
Proof.
  unfold combine_check. intros [[R [e ->]]|[R [r [-> [Hs Hf]]]]].
  - apply combine_rejects_dec in R. rewrite R. reflexivity.
  - destruct (combine_rejects_b arrs) eqn:B; [exfalso; apply R; now apply combine_rejects_dec|].
    rewrite (eq_mkA r _ _ Hs Hf). apply sarray_eqb_refl.
Qed.

(* split: with distinct field names the views are determined by the requested names *)
Lemma split_ok_unique a fl vs :
  NoDup (names a) -> split_ok a fl vs -> vs = map (view_of a) (flat_map (pick a) fl).
Proof.
  intros Hn H. unfold split_ok in H. induction H as [|n v t tv [f [Hi [Hf ->]]] _ IH]; [reflexivity|].
  cbn [flat_map]. rewrite map_app, <- IH.
  rewrite <- Hf, (pick_found a (fname f) f (find_field_NoDup _ _ Hn Hi)). reflexivity.
Qed.

Lemma split_check_complete a fl out :
  NoDup (names a) -> split_spec a fl out -> split_check a fl out = true.
Proof.
  intro Hn. unfold split_check. intros [[R [e ->]]|[R [vs [-> Hok]]]].
  - apply split_rejects_dec in R. rewrite R. reflexivity.
  - destruct (split_rejects_b a fl) eqn:B; [exfalso; apply R; now apply split_rejects_dec|].
    rewrite (split_ok_unique a fl vs Hn Hok). apply andb_true_iff. split.
    + now apply slist_eqb_eq.
    + now apply (list_eqb_spec fview_eqb fview_eqb_eq).
Qed.

Lemma compare_check_complete a1 a2 im out :
  NoDup (names a1) ->
  (exists b, out = Ok b /\ (b = true <-> compare_true a1 a2 im)) -> compare_check a1 a2 im out = true.
Proof.
  intros Hn [b [-> Hb]]. unfold compare_check.
  pose proof (compare_true_dec a1 a2 im Hn) as D.
  destruct b, (compare_true_b a1 a2 im) eqn:E; try reflexivity; exfalso.
  - assert (X : false = true) by (apply D, Hb; reflexivity). discriminate.
  - assert (X : false = true) by (apply Hb, D; reflexivity). discriminate.
Qed.

(* ---- copy_fields / copy_fields_by_name: a result with the frame property IS the expected one *)
Lemma find_field_same_descr n : forall l1 l2 f,
  map fdesc l1 = map fdesc l2 -> find_field n l1 = Some f ->
  exists g, find_field n l2 = Some g /\ fdesc g = fdesc f.
Proof.
  induction l1 as [|h1 t1 IH]; intros [|h2 t2] f Hd Hf; try discriminate.
  cbn [map] in Hd. injection Hd as Hh Ht. cbn [find_field] in *. unfold fname in *. rewrite <- Hh.
  destruct (String.eqb (dname (fdesc h1)) n).
  - injection Hf as <-. exists h2. split; [reflexivity|now symmetry].
  - now apply IH.
Qed.

Lemma fields_ext : forall l1 l2,
  map fdesc l1 = map fdesc l2 -> NoDup (map fname l1) ->
  (forall n, find_field n l1 = find_field n l2) -> l1 = l2.
Proof.
  induction l1 as [|h1 t1 IH]; intros [|h2 t2] Hd Hn He; try discriminate; [reflexivity|].
  cbn [map] in Hd, Hn. injection Hd as Hh Ht. inversion Hn as [|x l Hx Hnd]; subst.
  assert (N12 : fname h2 = fname h1) by (unfold fname; now rewrite Hh).
  pose proof (He (fname h1)) as E0. cbn [find_field] in E0.
  rewrite String.eqb_refl, N12, String.eqb_refl in E0. injection E0 as <-.
  f_equal. apply IH; [assumption|assumption|].
  intro n. specialize (He n). cbn [find_field] in He.
  destruct (String.eqb (fname h1) n) eqn:E; [|exact He].
  apply String.eqb_eq in E. subst n.
  assert (A : find_field (fname h1) t1 = None) by (now apply find_field_None).
  assert (B : find_field (fname h1) t2 = None).
  { apply find_field_None. replace (map fname t2) with (map fname t1); [assumption|].
    rewrite <- !names_fields. now rewrite Ht. }
  now rewrite A, B.
Qed.

Lemma copy_ok_unique a1 a2 r :
  NoDup (names a2) -> copy_ok a1 a2 r -> r = mkA (shape a2) (copy_expected a1 a2).
Proof.
  intros Hn (Hs & Hd & Hc & Hu). apply eq_mkA; [exact Hs|].
  assert (Dexp : map fdesc (copy_expected a1 a2) = map fdesc (fields a2)).
  { unfold copy_expected. rewrite map_map. apply map_ext. intro g.
    destruct (find_field (fname g) (fields a1)); reflexivity. }
  apply fields_ext.
  - unfold descr in Hd. now rewrite Hd, Dexp.
  - replace (map fname (fields r)) with (names a2); [exact Hn|].
    unfold names. rewrite <- !names_fields. unfold descr in Hd. now rewrite Hd.
  - intro n.
    assert (P : forall g, fname (upd (fields a1) g) = fname g).
    { intro g. unfold upd. destruct (find_field (fname g) (fields a1)); reflexivity. }
    rewrite copy_expected_upd, (find_field_map _ _ _ P).
    destruct (find_field n (fields a1)) as [f1|] eqn:E1.
    + destruct (find_field n (fields a2)) as [g|] eqn:E2; cbn [option_map].
      * assert (Hin : In n (names a2)).
        { destruct (find_field_Some _ _ _ E2) as [Hi <-]. unfold names. now apply in_map. }
        destruct (Hc n f1 E1 Hin) as [f [Ef Edata]]. rewrite Ef. f_equal.
        destruct (find_field_same_descr n _ _ f Hd Ef) as [g' [Eg' Edesc]].
        rewrite E2 in Eg'. injection Eg' as <-.
        destruct (find_field_Some _ _ _ E2) as [_ Hgn].
        unfold upd. rewrite Hgn, E1. unfold set_data. rewrite <- (field_eta f). now rewrite Edesc, Edata.
      * (* n is not a field of a2, hence not of r *)
        destruct (find_field n (fields r)) as [f|] eqn:Er; [|reflexivity]. exfalso.
        destruct (find_field_same_descr n _ _ f Hd Er) as [g [Eg _]]. congruence.
    + assert (Hnot : ~ In n (names a1)) by (now apply find_field_None).
      rewrite (Hu n Hnot). destruct (find_field n (fields a2)) as [g|] eqn:E2; [|reflexivity].
      cbn [option_map]. f_equal. destruct (find_field_Some _ _ _ E2) as [_ Hgn].
      unfold upd. now rewrite Hgn, E1.
Qed.

Lemma copy_check_complete a1 a2 out :
  NoDup (names a2) -> (exists r, out = Ok r /\ copy_ok a1 a2 r) -> copy_check a1 a2 out = true.
Proof.
  intros Hn [r [-> H]]. unfold copy_check. rewrite (copy_ok_unique a1 a2 r Hn H) at 1. apply sarray_eqb_refl.
Qed.

Lemma assoc_Some_In n v : forall nv, assoc n nv = Some v -> In (n, v) nv.
Proof.
  induction nv as [|[m w] t IH]; cbn [assoc]; [discriminate|].
  destruct (String.eqb m n) eqn:E.
  - intro H. injection H as <-. apply String.eqb_eq in E. subst. now left.
  - intro H. right. now apply IH.
Qed.
Lemma assoc_None_notin n : forall nv, assoc n nv = None -> ~ In n (map fst nv).
Proof.
  induction nv as [|[m w] t IH]; cbn [assoc map fst]; [tauto|].
  destruct (String.eqb m n) eqn:E; [discriminate|].
  intros H [Hm|Hi]; [subst; now rewrite String.eqb_refl in E|now apply IH].
Qed.

Lemma cfbn_ok_unique a ns vs r :
  NoDup (names a) -> length ns = length vs ->
  cfbn_ok a ns vs r -> r = mkA (shape a) (cfbn_expected a ns vs).
Proof.
  intros Hn Hl (Hs & Hd & Hc & Hu). apply eq_mkA; [exact Hs|].
  assert (P : forall g, fname (setv (nelem a) (combine ns vs) g) = fname g).
  { intro g. unfold setv. destruct (assoc (fname g) (combine ns vs)); reflexivity. }
  assert (Dexp : map fdesc (cfbn_expected a ns vs) = map fdesc (fields a)).
  { rewrite cfbn_expected_setv, map_map. apply map_ext. intro g. unfold setv.
    destruct (assoc (fname g) (combine ns vs)); reflexivity. }
  apply fields_ext.
  - unfold descr in Hd. now rewrite Hd, Dexp.
  - replace (map fname (fields r)) with (names a); [exact Hn|].
    unfold names. rewrite <- !names_fields. unfold descr in Hd. now rewrite Hd.
  - intro n. rewrite cfbn_expected_setv, (find_field_map _ _ _ P).
    destruct (assoc n (combine ns vs)) as [v|] eqn:A.
    + pose proof (assoc_Some_In n v _ A) as Hi.
      destruct (find_field n (fields a)) as [g|] eqn:Eg; cbn [option_map].
      * rewrite (Hc n v g Hi Eg). f_equal. destruct (find_field_Some _ _ _ Eg) as [_ Hgn].
        unfold setv. now rewrite Hgn, A.
      * destruct (find_field n (fields r)) as [f|] eqn:Er; [|reflexivity]. exfalso.
        destruct (find_field_same_descr n _ _ f Hd Er) as [g [Eg' _]]. congruence.
    + pose proof (assoc_None_notin n _ A) as Hnot. rewrite map_fst_combine' in Hnot by assumption.
      rewrite (Hu n Hnot). destruct (find_field n (fields a)) as [g|] eqn:Eg; [|reflexivity].
      cbn [option_map]. f_equal. destruct (find_field_Some _ _ _ Eg) as [_ Hgn].
      unfold setv. now rewrite Hgn, A.
Qed.

Lemma cfbn_check_complete a ns vs out :
  NoDup (names a) -> length ns = length vs ->
  (exists r, out = Ok r /\ cfbn_ok a ns vs r) -> cfbn_check a ns vs out = true.
Proof.
  intros Hn Hl [r [-> H]]. unfold cfbn_check. rewrite (cfbn_ok_unique a ns vs r Hn Hl H) at 1. apply sarray_eqb_refl.
Qed.

(* one statement for Properties.v *)
Lemma checkers_complete :
  (forall a ks strict out, extract_spec a ks strict out -> extract_check a ks strict out = true)
  /\ (forall a ks out, remove_spec a ks out -> remove_check a ks out = true)
  /\ (forall a ks strict out, reorder_spec a ks strict out -> reorder_check a ks strict out = true)
  /\ (forall a add dv out, add_spec a add dv out -> add_check a add dv out = true)
  /\ (forall arrs out, combine_spec arrs out -> combine_check arrs out = true)
  /\ (forall a1 a2 out, NoDup (names a2) -> (exists r, out = Ok r /\ copy_ok a1 a2 r) -> copy_check a1 a2 out = true)
  /\ (forall a ns vs out, NoDup (names a) -> length ns = length vs ->
        (exists r, out = Ok r /\ cfbn_ok a ns vs r) -> cfbn_check a ns vs out = true)
  /\ (forall a fl out, NoDup (names a) -> split_spec a fl out -> split_check a fl out = true)
  /\ (forall a1 a2 im out, NoDup (names a1) ->
        (exists b, out = Ok b /\ (b = true <-> compare_true a1 a2 im)) -> compare_check a1 a2 im out = true).
Proof.
  split; [exact extract_check_complete|]. split; [exact remove_check_complete|].
  split; [exact reorder_check_complete|]. split; [exact add_check_complete|].
  split; [exact combine_check_complete|]. split; [exact copy_check_complete|].
  split; [exact cfbn_check_complete|].
  split; [exact split_check_complete|exact compare_check_complete].
Qed.

(* ---- the byte-order-converting copy (Swap.v): its checker is complete as well *)
From EsVerif.C07 Require Import Swap.

Lemma copy_ok_sw_unique a1 a2 r :
  NoDup (names a2) -> copy_ok_sw a1 a2 r -> r = mkA (shape a2) (copy_expected_sw a1 a2).
Proof.
  intros Hn (Hs & Hd & Hc & Hu). apply eq_mkA; [exact Hs|].
  assert (P : forall g, fname (upd_sw (fields a1) g) = fname g).
  { intro g. unfold upd_sw. destruct (find_field (fname g) (fields a1)); reflexivity. }
  assert (Dexp : map fdesc (copy_expected_sw a1 a2) = map fdesc (fields a2)).
  { unfold copy_expected_sw. rewrite map_map. apply map_ext. intro g. unfold upd_sw.
    destruct (find_field (fname g) (fields a1)); reflexivity. }
  apply fields_ext.
  - unfold descr in Hd. now rewrite Hd, Dexp.
  - replace (map fname (fields r)) with (names a2); [exact Hn|].
    unfold names. rewrite <- !names_fields. unfold descr in Hd. now rewrite Hd.
  - intro n. unfold copy_expected_sw. rewrite (find_field_map _ _ _ P).
    destruct (find_field n (fields a1)) as [f1|] eqn:E1.
    + destruct (find_field n (fields a2)) as [g|] eqn:E2; cbn [option_map].
      * rewrite (Hc n f1 g E1 E2). f_equal. destruct (find_field_Some _ _ _ E2) as [_ Hgn].
        unfold upd_sw. rewrite Hgn, E1. reflexivity.
      * destruct (find_field n (fields r)) as [f|] eqn:Er; [|reflexivity]. exfalso.
        destruct (find_field_same_descr n _ _ f Hd Er) as [g [Eg _]]. congruence.
    + assert (Hnot : ~ In n (names a1)) by (now apply find_field_None).
      rewrite (Hu n Hnot). destruct (find_field n (fields a2)) as [g|] eqn:E2; [|reflexivity].
      cbn [option_map]. f_equal. destruct (find_field_Some _ _ _ E2) as [_ Hgn].
      unfold upd_sw. now rewrite Hgn, E1.
Qed.

Lemma copy_check_sw_complete a1 a2 out :
  NoDup (names a2) -> (exists r, out = Ok r /\ copy_ok_sw a1 a2 r) -> copy_check_sw a1 a2 out = true.
Proof.
  intros Hn [r [-> H]]. unfold copy_check_sw. rewrite (copy_ok_sw_unique a1 a2 r Hn H) at 1. apply sarray_eqb_refl.
Qed.

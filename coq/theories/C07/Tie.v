(* C07 — tie of the hand model to the parameters regenerated from the source (Gen.v).
   Every lemma here is about the CURRENT content of Gen.v: when the source of the tree under
   check changes one of the parts that c07_translate.py reads (an isinstance class tuple, the
   operator of a guard, `in`/`not in`, np.zeros, .shape), Gen.v changes and the corresponding
   lemma is re-checked against the new value; it then either still holds or the build fails and
   the check reports the broken tie. *)
From EsVerif.Common Require Import Base Bytes.
From Coq.Strings Require Import Byte.
From Coq.Strings Require String.
From EsVerif.C07 Require Import Model Spec Basics Proofs Skel Gen.
From Coq Require Import ZifyBool ZifyNat.

Lemma len_eqb_length {A B} (l1 : list A) (l2 : list B) :
  negb (len l1 =? len l2) = negb (length l1 =? length l2)%nat.
Proof.
  unfold len. destruct (Nat.eqb_spec (length l1) (length l2)) as [E|E].
  - rewrite E, Z.eqb_refl. reflexivity.
  - destruct (Z.eqb_spec (Z.of_nat (length l1)) (Z.of_nat (length l2))); [lia|reflexivity].
Qed.

Lemma len_zero_b {A} (l : list A) : (len l =? 0) = match l with [] => true | _ => false end.
Proof. destruct l; [reflexivity|]. unfold len. cbn [length]. lia. Qed.

Lemma eqb_true_r b : Bool.eqb b true = b.
Proof. destruct b; reflexivity. Qed.
Lemma eqb_false_r b : Bool.eqb b false = negb b.
Proof. destruct b; reflexivity. Qed.

Lemma filter_ext' {A} (p q : A -> bool) l : (forall x, p x = q x) -> filter p l = filter q l.
Proof. intro H. induction l as [|x t IH]; cbn; [reflexivity|]. rewrite H, IH. reflexivity. Qed.

(* --- the isinstance dispatches: every documented spelling of the names is iterated as the
   sequence of names the model works with *)
Lemma tie_names_dispatch : forall x,
  wrap_by extract_forms x = Some (seq_or_wrap x)
  /\ wrap_by remove_forms x = Some (seq_or_wrap x)
  /\ wrap_by reorder_forms x = Some (seq_or_wrap x)
  /\ wrap_by cfbn_names_forms x = Some (seq_or_wrap x).
Proof. intros [s|l|l|l]; repeat split; reflexivity. Qed.

Lemma tie_vals_dispatch : forall v,
  vwrap_by cfbn_vals_forms v = Some (unwrap_vals v)
  /\ vwrap_by add_defaults_forms v = Some (unwrap_vals v).
Proof. intros [v|l]; split; reflexivity. Qed.

Lemma tie_split_dispatch : forall a flds, split_names_g split_forms a flds = Some (split_names a flds).
Proof. intros a [[s|l|l|l]|]; reflexivity. Qed.

(* --- the functions of Model.v are the skeletons at the regenerated parameters *)
Lemma tie_copy_fields : forall a1 a2, copy_fields_g copy_size_guard a1 a2 = copy_fields a1 a2.
Proof.
  intros. unfold copy_fields_g, copy_fields, copy_size_guard, cmp_eval.
  destruct (nelem a1 =? nelem a2); reflexivity.
Qed.

Lemma tie_extract : forall a k s,
  extract_fields_g extract_forms extract_keep_if_in extract_empty_guard extract_dims a k s
  = extract_fields a k s.
Proof.
  intros. unfold extract_fields_g, extract_fields.
  destruct (tie_names_dispatch k) as (-> & _).
  destruct (s && negb (forallb (fun n => memb n (names a)) (seq_or_wrap k))); [reflexivity|].
  unfold descr_filter, extract_keep_if_in, extract_empty_guard, extract_dims, cmp_eval, alloc_dims.
  rewrite (filter_ext' _ (fun d => memb (dname d) (seq_or_wrap k))) by (intro; apply eqb_true_r).
  rewrite len_zero_b. destruct (filter _ (descr a)); reflexivity.
Qed.

Lemma tie_remove : forall a k,
  remove_fields_g remove_forms remove_keep_if_in remove_empty_guard remove_dims a k = remove_fields a k.
Proof.
  intros. unfold remove_fields_g, remove_fields.
  destruct (tie_names_dispatch k) as (_ & -> & _).
  unfold descr_filter, remove_keep_if_in, remove_empty_guard, remove_dims, cmp_eval, alloc_dims.
  rewrite (filter_ext' _ (fun d => negb (memb (dname d) (seq_or_wrap k)))) by (intro; apply eqb_false_r).
  rewrite len_zero_b. destruct (filter _ (descr a)); reflexivity.
Qed.

Lemma tie_reorder : forall a k s,
  reorder_fields_g reorder_forms reorder_dims a k s = reorder_fields a k s.
Proof.
  intros. unfold reorder_fields_g, reorder_fields.
  destruct (tie_names_dispatch k) as (_ & _ & -> & _). reflexivity.
Qed.

Lemma tie_cfbn : forall a nms vals,
  copy_fields_by_name_g cfbn_names_forms cfbn_vals_forms cfbn_len_guard a nms vals
  = copy_fields_by_name a nms vals.
Proof.
  intros. unfold copy_fields_by_name_g, copy_fields_by_name.
  destruct (tie_names_dispatch nms) as (_ & _ & _ & ->).
  destruct (tie_vals_dispatch vals) as (-> & _).
  unfold cfbn_len_guard, cmp_eval. rewrite len_eqb_length.
  destruct (length (seq_or_wrap nms) =? length (unwrap_vals vals))%nat; reflexivity.
Qed.

Lemma tie_add : forall a add defaults,
  add_fields_g add_defaults_forms add_defaults_guard add_dims a add defaults = add_fields a add defaults.
Proof.
  intros. unfold add_fields_g, add_fields.
  destruct (negb (nodup_b (map dname add))); [reflexivity|].
  destruct (existsb _ add); [reflexivity|].
  unfold add_dims, alloc_dims.
  destruct (np_zeros (shape a) (descr a ++ add)) as [z|e]; [|reflexivity]. cbn [bind].
  destruct (copy_fields a z) as [r|e]; [|reflexivity]. cbn [bind].
  destruct defaults as [dv|]; [|reflexivity].
  destruct (tie_vals_dispatch dv) as (_ & ->).
  unfold add_defaults_guard, cmp_eval. rewrite len_eqb_length. reflexivity.
Qed.

Lemma combine_descr_tie : forall num arrs, combine_descr_g combine_size_guard num arrs = combine_descr num arrs.
Proof.
  intros num arrs. induction arrs as [|a t IH]; [reflexivity|].
  cbn [combine_descr_g combine_descr]. rewrite IH. unfold combine_size_guard, cmp_eval.
  destruct (nelem a =? num); reflexivity.
Qed.

Lemma tie_combine : forall arrs,
  combine_fields_g combine_none_guard combine_one_guard combine_size_guard combine_dims arrs
  = combine_fields arrs.
Proof.
  intros [|a0 [|a1 t]]; try reflexivity.
  unfold combine_fields_g, combine_fields, combine_none_guard, combine_one_guard, combine_dims, cmp_eval, alloc_dims.
  rewrite combine_descr_tie.
  assert (H0 : (len (a0 :: a1 :: t) =? 0) = false) by (unfold len; cbn [length]; lia).
  assert (H1 : (len (a0 :: a1 :: t) =? 1) = false) by (unfold len; cbn [length]; lia).
  rewrite H0, H1. reflexivity.
Qed.

(* --- allocation: the output of every operation is created by np.zeros (the model's np_zeros:
   new fields start zero-filled) with the SHAPE of the input *)
Lemma tie_allocation :
  (extract_alloc, remove_alloc, add_alloc, reorder_alloc, combine_alloc) = (AZeros, AZeros, AZeros, AZeros, AZeros)
  /\ (extract_dims, remove_dims, add_dims, reorder_dims, combine_dims) = (UseShape, UseShape, UseShape, UseShape, UseShape).
Proof. split; reflexivity. Qed.

(* --- strict mode is the default of extract_fields / reorder_fields; compare_arrays ignores
   missing fields by default; every raise statement of the nine functions raises ValueError *)
Lemma tie_defaults :
  extract_strict_default = true /\ reorder_strict_default = true /\ compare_ignore_missing_default = true
  /\ split_getnames_default = false.
Proof. repeat split; reflexivity. Qed.

Import String.StringSyntax.
Local Open Scope string_scope.
Lemma tie_raises :
  Forall (fun c => c = "ValueError")
         (raises_combine_fields ++ raises_copy_fields ++ raises_extract_fields ++ raises_remove_fields
          ++ raises_add_fields ++ raises_reorder_fields ++ raises_copy_fields_by_name ++ raises_split_fields
          ++ raises_compare_arrays).
Proof. repeat constructor. Qed.

(* one statement for Properties.v *)
Lemma source_parameters :
  (forall a k s, extract_fields_g extract_forms extract_keep_if_in extract_empty_guard extract_dims a k s
                 = extract_fields a k s)
  /\ (forall a k, remove_fields_g remove_forms remove_keep_if_in remove_empty_guard remove_dims a k
                  = remove_fields a k)
  /\ (forall a k s, reorder_fields_g reorder_forms reorder_dims a k s = reorder_fields a k s)
  /\ (forall a add dv, add_fields_g add_defaults_forms add_defaults_guard add_dims a add dv = add_fields a add dv)
  /\ (forall arrs, combine_fields_g combine_none_guard combine_one_guard combine_size_guard combine_dims arrs
                   = combine_fields arrs)
  /\ (forall a1 a2, copy_fields_g copy_size_guard a1 a2 = copy_fields a1 a2)
  /\ (forall a n v, copy_fields_by_name_g cfbn_names_forms cfbn_vals_forms cfbn_len_guard a n v
                    = copy_fields_by_name a n v)
  /\ (forall a flds, split_names_g split_forms a flds = Some (split_names a flds)).
Proof.
  repeat split; intros.
  - apply tie_extract. - apply tie_remove. - apply tie_reorder. - apply tie_add. - apply tie_combine.
  - apply tie_copy_fields. - apply tie_cfbn. - apply tie_split_dispatch.
Qed.

(* --- the parameters carry meaning: with the output dimensioned by `.size` (what the as-found
   combine_fields did: np.zeros(num, dtype=descr)) the statement about combine_fields is FALSE;
   a 2-d witness (the copy into the 1-d output is refused) and a 0-d witness (the result has
   shape (1,) instead of ()). *)
Definition w2d (n : string) : sarray :=
  mkA [2; 1] [mkF (mkD n (mkT BE KInt 2) []) [unhex "0007"; unhex "0008"]].
Definition w0d (n : string) : sarray :=
  mkA [] [mkF (mkD n (mkT BE KInt 2) []) [unhex "0007"]].

Lemma asfound_combine_refuted :
  (combine_scope [w2d "a"; w2d "b"]
   /\ ~ combine_spec [w2d "a"; w2d "b"] (combine_fields_g CEq CEq CNe UseSize [w2d "a"; w2d "b"]))
  /\ (combine_scope [w0d "a"; w0d "b"]
      /\ ~ combine_spec [w0d "a"; w0d "b"] (combine_fields_g CEq CEq CNe UseSize [w0d "a"; w0d "b"])).
Proof.
  split; (split; [apply combine_scope_dec; vm_compute; reflexivity|]).
  - intros [[R _]|[_ [r [Hr _]]]].
    + revert R. apply (dec_false _ _ (combine_rejects_dec _)). vm_compute. reflexivity.
    + vm_compute in Hr. discriminate.
  - intros [[R _]|[_ [r [Hr [Hs _]]]]].
    + revert R. apply (dec_false _ _ (combine_rejects_dec _)). vm_compute. reflexivity.
    + vm_compute in Hr. inversion Hr; subst r. vm_compute in Hs. discriminate.
Qed.

(* ... and with the dispatch of the as-found remove_fields / copy_fields_by_name (only `list`,
   resp. `list, ndarray`, taken as a sequence) a tuple of names is not iterated as names at all *)
Lemma asfound_dispatch_refuted : forall l,
  wrap_by (mkForms false true false false) (NTuple l) = None
  /\ wrap_by (mkForms false true true false) (NTuple l) = None.
Proof. intro l. split; reflexivity. Qed.

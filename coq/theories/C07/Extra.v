(* C07 — further consequences: the results of extract/remove/reorder are again well-formed
   structured arrays (same shape, distinct names, at least one field, every column of the right
   extent), so the operations compose; and extraction followed by removal of the same names
   partitions the field list. *)
From EsVerif.Common Require Import Base Bytes.
From Coq.Strings Require Import Byte.
From Coq.Strings Require String.
From EsVerif.C07 Require Import Model Spec Basics Proofs.

Lemma wf_sub a r :
  wf a -> shape r = shape a -> fields r <> [] -> NoDup (names r) ->
  (forall f, In f (fields r) -> In f (fields a)) -> wf r.
Proof.
  intros (Hs & Hn & Hne & Hf) Es Hr Hnr Hin. unfold wf. rewrite Es.
  repeat split; try assumption.
  unfold nelem. rewrite Es. apply Forall_forall. intros f Hfr.
  rewrite Forall_forall in Hf. apply (Hf f (Hin f Hfr)).
Qed.

Lemma filter_nonempty {A} (p : A -> bool) l :
  forallb (fun x => negb (p x)) l = false -> filter p l <> [].
Proof.
  intros H E. apply filter_nil_forallb in E. congruence.
Qed.

Lemma extract_wf a keep strict r :
  wf a -> extract_fields a keep strict = Ok r -> wf r.
Proof.
  intros Hw E. pose proof Hw as (_ & Hn & _ & _). rewrite (extract_char a keep strict Hn) in E.
  destruct (extract_rejects_b a (given keep) strict) eqn:R; [discriminate|].
  inversion E; subst r; clear E.
  unfold extract_rejects_b in R. apply orb_false_iff in R as [_ R].
  apply (wf_sub a); cbn [shape fields]; try reflexivity; try assumption.
  - now apply filter_nonempty.
  - unfold names. cbn [fields]. now apply NoDup_map_filter.
  - intros f Hf. now apply filter_In in Hf as [Hf _].
Qed.

Lemma remove_wf a rm r :
  wf a -> remove_fields a rm = Ok r -> wf r.
Proof.
  intros Hw E. pose proof Hw as (_ & Hn & _ & _). rewrite (remove_char a rm Hn) in E.
  destruct (remove_rejects_b a (given rm)) eqn:R; [discriminate|].
  inversion E; subst r; clear E.
  unfold remove_rejects_b in R.
  apply (wf_sub a); cbn [shape fields]; try reflexivity; try assumption.
  - apply filter_nonempty. rewrite <- R. apply forallb_ext. intro f. now rewrite negb_involutive.
  - unfold names. cbn [fields]. now apply NoDup_map_filter.
  - intros f Hf. now apply filter_In in Hf as [Hf _].
Qed.

(* extraction and removal of the same names split the field list: every field of [a] is in
   exactly one of the two results, and both keep the original order *)
Lemma extract_remove_partition a ks f :
  In f (fields a) ->
  (In f (filter (fun f => memb (fname f) ks) (fields a))
   /\ ~ In f (filter (fun f => negb (memb (fname f) ks)) (fields a)))
  \/ (~ In f (filter (fun f => memb (fname f) ks) (fields a))
      /\ In f (filter (fun f => negb (memb (fname f) ks)) (fields a))).
Proof.
  intro Hf. destruct (memb (fname f) ks) eqn:M.
  - left. split; [apply filter_In; auto|]. intro H. apply filter_In in H as [_ H]. rewrite M in H. discriminate.
  - right. split; [|apply filter_In; rewrite M; auto]. intro H. apply filter_In in H as [_ H]. congruence.
Qed.

(* C07 — further consequences: the results of extract/remove/reorder are again well-formed
   structured arrays (same shape, distinct names, at least one field, every column of the right
   extent), so the operations compose; and extraction followed by removal of the same names
   partitions the field list. *)
From EsVerif.Common Require Import Base Bytes.
From Coq.Strings Require Import Byte.
From Coq.Strings Require String.
From EsVerif.C07 Require Import Model Spec Basics Proofs.

Lemma wf_sub a r :
  wf a -> shape r = shape a -> fields r <> [] -> NoDup (names r) ->
  (forall f, In f (fields r) -> In f (fields a)) -> wf r.
Proof.
  intros (Hs & Hn & Hne & Hf) Es Hr Hnr Hin. unfold wf. rewrite Es.
  repeat split; try assumption.
  unfold nelem. rewrite Es. apply Forall_forall. intros f Hfr.
  rewrite Forall_forall in Hf. apply (Hf f (Hin f Hfr)).
Qed.

Lemma filter_nonempty {A} (p : A -> bool) l :
  forallb (fun x => negb (p x)) l = false -> filter p l <> [].
Proof.
  intros H E. apply filter_nil_forallb in E. congruence.
Qed.

Lemma extract_wf a keep strict r :
  wf a -> extract_fields a keep strict = Ok r -> wf r.
Proof.
  intros Hw E. pose proof Hw as (_ & Hn & _ & _). rewrite (extract_char a keep strict Hn) in E.
  destruct (extract_rejects_b a (given keep) strict) eqn:R; [discriminate|].
  inversion E; subst r; clear E.
  unfold extract_rejects_b in R. apply orb_false_iff in R as [_ R].
  apply (wf_sub a); cbn [shape fields]; try reflexivity; try assumption.
  - now apply filter_nonempty.
  - unfold names. cbn [fields]. now apply NoDup_map_filter.
  - intros f Hf. now apply filter_In in Hf as [Hf _].
Qed.

Lemma remove_wf a rm r :
  wf a -> remove_fields a rm = Ok r -> wf r.
Proof.
  intros Hw E. pose proof Hw as (_ & Hn & _ & _). rewrite (remove_char a rm Hn) in E.
  destruct (remove_rejects_b a (given rm)) eqn:R; [discriminate|].
  inversion E; subst r; clear E.
  unfold remove_rejects_b in R.
  apply (wf_sub a); cbn [shape fields]; try reflexivity; try assumption.
  - apply filter_nonempty. rewrite <- R. apply forallb_ext. intro f. now rewrite negb_involutive.
  - unfold names. cbn [fields]. now apply NoDup_map_filter.
  - intros f Hf. now apply filter_In in Hf as [Hf _].
Qed.

(* extraction and removal of the same names split the field list: every field of [a] is in
   exactly one of the two results, and both keep the original order *)
Lemma extract_remove_partition a ks f :
  In f (fields a) ->
  (In f (filter (fun f => memb (fname f) ks) (fields a))
   /\ ~ In f (filter (fun f => negb (memb (fname f) ks)) (fields a)))
  \/ (~ In f (filter (fun f => memb (fname f) ks) (fields a))
      /\ In f (filter (fun f => negb (memb (fname f) ks)) (fields a))).
Proof.
  intro Hf. destruct (memb (fname f) ks) eqn:M.
  - left. split; [apply filter_In; auto|]. intro H. apply filter_In in H as [_ H]. rewrite M in H. discriminate.
  - right. split; [|apply filter_In; rewrite M; auto]. intro H. apply filter_In in H as [_ H]. congruence.
Qed.

Lemma reorder_wf a ks strict r :
  wf a -> NoDup (given ks) -> reorder_fields a ks strict = Ok r -> wf r.
Proof.
  intros Hw Hk E. pose proof Hw as (_ & Hn & Hne & _). rewrite (reorder_char a ks strict Hn Hk) in E.
  destruct (reorder_rejects_b a (given ks) strict); [discriminate|].
  inversion E; subst r; clear E.
  assert (Hin : forall f, In f (reorder_fields_spec a (given ks)) -> In f (fields a)).
  { intros f Hf. unfold reorder_fields_spec in Hf. apply in_app_or in Hf as [Hf|Hf].
    - apply in_flat_map in Hf as (n & _ & Hf). now apply pick_In in Hf as [Hf _].
    - now apply filter_In in Hf as [Hf _]. }
  apply (wf_sub a); cbn [shape fields]; try reflexivity; try assumption.
  - (* at least one field: every field of a is in the result *)
    destruct (fields a) as [|f0 t] eqn:Ef; [congruence|].
    intro E0.
    assert (Hlen : length (map fname (reorder_fields_spec a (given ks))) = 0%nat) by (rewrite E0; reflexivity).
    rewrite reorder_names in Hlen. rewrite app_length in Hlen.
    assert (H0 : In (fname f0) (names a)) by (unfold names; rewrite Ef; now left).
    destruct (memb (fname f0) (given ks)) eqn:M.
    + assert (Hi : In (fname f0) (filter (fun n => memb n (names a)) (given ks))).
      { apply filter_In. split; [now apply memb_In|now apply memb_In]. }
      destruct (filter (fun n => memb n (names a)) (given ks)); [contradiction|]. cbn [length] in Hlen. lia.
    + assert (Hi : In (fname f0) (filter (fun n => negb (memb n (given ks))) (names a))).
      { apply filter_In. split; [assumption|now rewrite M]. }
      destruct (filter (fun n => negb (memb n (given ks))) (names a)); [contradiction|].
      cbn [length] in Hlen. lia.
  - unfold names. cbn [fields]. rewrite reorder_names. apply NoDup_app_intro.
    + now apply NoDup_filter'.
    + now apply NoDup_filter'.
    + intros n H1 H2. apply filter_In in H1 as [H1 _]. apply filter_In in H2 as [_ H2].
      apply memb_In in H1. rewrite H1 in H2. discriminate.
Qed.

(* C07 — the model of each operation computes the documented field list (closed forms), and
   the closed forms meet the specifications of Spec.v. *)
From EsVerif.Common Require Import Base Bytes.
From Coq.Strings Require Import Byte.
From Coq.Strings Require String.
From EsVerif.C07 Require Import Model Spec Basics.

(* ------------------------------------------------------------- copy_fields *)
(* what copy_fields leaves in field g of the destination *)
Definition upd (fs1 : list field) (g : field) : field :=
  match find_field (fname g) fs1 with Some f => set_data g (fdata f) | None => g end.

Lemma copy_expected_upd a1 a2 : copy_expected a1 a2 = map (upd (fields a1)) (fields a2).
Proof. reflexivity. Qed.

Lemma upd_nil g : upd [] g = g.
Proof. reflexivity. Qed.

Lemma upd_cons f t g0 :
  upd (f :: t) g0 = if String.eqb (fname f) (fname g0) then set_data g0 (fdata f) else upd t g0.
Proof. unfold upd. simpl. destruct (String.eqb (fname f) (fname g0)); reflexivity. Qed.

Lemma upd_set_data t g0 data :
  ~ In (fname g0) (map fname t) -> upd t (set_data g0 data) = set_data g0 data.
Proof.
  intro H. unfold upd. change (fname (set_data g0 data)) with (fname g0).
  assert (N : find_field (fname g0) t = None) by (now apply find_field_None). now rewrite N.
Qed.

Lemma copy_loop_char : forall s fs1 a2,
  NoDup (map fname fs1) ->
  (forall f d, In f fs1 -> In d (descr a2) -> fname f = dname d -> same_type (fdesc f) d = true) ->
  assign_ok s (shape a2) = true ->
  copy_loop s fs1 a2 = Ok (mkA (shape a2) (map (upd fs1) (fields a2))).
Proof.
  intros s fs1. induction fs1 as [|f t IH]; intros a2 Hnd Hc Hs.
  - simpl. rewrite (map_ext _ (fun g => g) upd_nil), map_id, sarray_eta. reflexivity.
  - inversion Hnd as [|x l Hx Hd]; subst. simpl.
    destruct (memb (fname f) (names a2)) eqn:M.
    + apply memb_In in M. destruct (find_field_In_names _ _ M) as [g Hg].
      unfold assign_field. rewrite Hg.
      destruct (find_field_Some _ _ _ Hg) as [Hgi Hgn].
      assert (ST : same_type (fdesc f) (fdesc g) = true).
      { apply Hc; [now left| unfold descr; now apply in_map | symmetry; exact Hgn]. }
      rewrite ST, Hs. simpl.
      rewrite IH; simpl; [| assumption | | assumption].
      * f_equal. f_equal. unfold put_field. rewrite map_map. apply map_ext. intro g0.
        rewrite upd_cons, (String.eqb_sym (fname f) (fname g0)).
        destruct (String.eqb (fname g0) (fname f)) eqn:E; [|reflexivity].
        apply String.eqb_eq in E. apply upd_set_data. now rewrite E.
      * intros f' d Hf' Hd' En. apply Hc; [now right| |assumption].
        unfold descr in *. simpl in Hd'. now rewrite put_field_descr in Hd'.
    + apply memb_false in M. rewrite IH; [| assumption | | assumption].
      * f_equal. f_equal. apply map_ext_in. intros g0 Hg0. rewrite upd_cons.
        destruct (String.eqb (fname f) (fname g0)) eqn:E; [|reflexivity].
        apply String.eqb_eq in E. exfalso. apply M. rewrite E. unfold names. now apply in_map.
      * intros f' d Hf' Hd' En. apply Hc; [now right|assumption|assumption].
Qed.

Lemma compat_descr a1 a2 : compat a1 a2 ->
  forall f d, In f (fields a1) -> In d (descr a2) -> fname f = dname d -> same_type (fdesc f) d = true.
Proof.
  intros H f d Hf Hd E. unfold descr in Hd. apply in_map_iff in Hd as [g [<- Hg]]. now apply H.
Qed.

Lemma copy_model a1 a2 :
  NoDup (names a1) -> compat a1 a2 -> nelem a1 = nelem a2 -> assign_ok (shape a1) (shape a2) = true ->
  copy_fields a1 a2 = Ok (mkA (shape a2) (copy_expected a1 a2)).
Proof.
  intros Hn Hc He Hs. unfold copy_fields. rewrite He, Z.eqb_refl.
  rewrite copy_loop_char; [reflexivity|exact Hn|now apply compat_descr|exact Hs].
Qed.

Lemma copy_rejects a1 a2 : nelem a1 <> nelem a2 -> copy_fields a1 a2 = Err EValue.
Proof. intro H. unfold copy_fields. apply Z.eqb_neq in H. now rewrite H. Qed.

Lemma copy_expected_ok a1 a2 r :
  shape r = shape a2 -> fields r = copy_expected a1 a2 -> copy_ok a1 a2 r.
Proof.
  intros Hs Hf. unfold copy_ok. split; [exact Hs|]. split.
  - unfold descr. rewrite Hf. unfold copy_expected. rewrite map_map. apply map_ext. intro g.
    destruct (find_field (fname g) (fields a1)); reflexivity.
  - assert (P : forall g, fname (upd (fields a1) g) = fname g).
    { intro g. unfold upd. destruct (find_field (fname g) (fields a1)); reflexivity. }
    split.
    + intros n f1 H1 Hin. rewrite Hf, copy_expected_upd, (find_field_map _ _ _ P).
      destruct (find_field_In_names _ _ Hin) as [g Hg]. rewrite Hg. simpl.
      destruct (find_field_Some _ _ _ Hg) as [_ Hgn].
      eexists. split; [reflexivity|]. unfold upd. rewrite Hgn, H1. reflexivity.
    + intros n Hnot. rewrite Hf, copy_expected_upd, (find_field_map _ _ _ P).
      destruct (find_field n (fields a2)) as [g|] eqn:Hg; [|reflexivity]. simpl.
      destruct (find_field_Some _ _ _ Hg) as [_ Hgn]. unfold upd. rewrite Hgn.
      assert (N : find_field n (fields a1) = None) by (now apply find_field_None).
      rewrite N. reflexivity.
Qed.

(* ---------------------------------------- np.zeros + copy_fields = rebuild *)
Definition lookup (fs : list field) (n : Z) (d : dentry) : field :=
  match find_field (dname d) fs with Some f => mkF d (fdata f) | None => zero_field n d end.

Lemma lookup_self fs n f : NoDup (map fname fs) -> In f fs -> lookup fs n (fdesc f) = f.
Proof.
  intros Hn Hi. unfold lookup. change (dname (fdesc f)) with (fname f).
  rewrite (find_field_NoDup _ _ Hn Hi). apply field_eta.
Qed.

Lemma descr_unique a d f :
  NoDup (names a) -> In d (descr a) -> In f (fields a) -> fname f = dname d -> fdesc f = d.
Proof.
  intros Hn Hd Hf E. unfold descr in Hd. apply in_map_iff in Hd as [g [<- Hg]].
  f_equal. exact (field_unique _ _ _ Hn Hf Hg E).
Qed.

Lemma rebuild a ds :
  NoDup (names a) -> NoDup (map dname ds) ->
  (forall d, In d ds -> In (dname d) (names a) -> In d (descr a)) ->
  (do z <- np_zeros (shape a) ds; copy_fields a z)
  = Ok (mkA (shape a) (map (lookup (fields a) (nelem a)) ds)).
Proof.
  intros Hn Hds Hsub. unfold np_zeros. apply nodup_b_NoDup in Hds. rewrite Hds. simpl.
  unfold copy_fields. simpl. unfold nelem at 1 2. simpl. rewrite Z.eqb_refl.
  rewrite copy_loop_char; simpl.
  - f_equal. f_equal. rewrite map_map. apply map_ext. intro d. unfold upd, lookup. simpl.
    unfold fname at 1. simpl. destruct (find_field (dname d) (fields a)); reflexivity.
  - exact Hn.
  - intros f d Hf Hd E. unfold descr in Hd. simpl in Hd. rewrite map_map in Hd. simpl in Hd.
    rewrite map_id in Hd.
    assert (Hin : In d (descr a)).
    { apply Hsub; [assumption|]. rewrite <- E. unfold names. now apply in_map. }
    rewrite (descr_unique a d f Hn Hin Hf E). apply same_type_refl.
  - apply assign_ok_refl.
Qed.

Lemma sel_fields a n (p : dentry -> bool) :
  NoDup (names a) ->
  map (lookup (fields a) n) (filter p (descr a)) = filter (fun f => p (fdesc f)) (fields a).
Proof.
  intro Hn. unfold descr. rewrite filter_map_comm, map_map.
  rewrite <- (map_id (filter (fun f => p (fdesc f)) (fields a))) at 2.
  apply map_ext_in. intros f Hf. apply filter_In in Hf as [Hf _]. now apply lookup_self.
Qed.

Lemma rebuild_sel a (p : dentry -> bool) :
  NoDup (names a) ->
  (do z <- np_zeros (shape a) (filter p (descr a)); copy_fields a z)
  = Ok (mkA (shape a) (filter (fun f => p (fdesc f)) (fields a))).
Proof.
  intro Hn. rewrite rebuild.
  - now rewrite sel_fields.
  - exact Hn.
  - rewrite <- names_descr in Hn. now apply NoDup_map_filter.
  - intros d Hd _. now apply filter_In in Hd as [Hd _].
Qed.

(* ---------------------------------------------------------------- extract *)
Lemma extract_char a keep strict :
  NoDup (names a) ->
  extract_fields a keep strict
  = if extract_rejects_b a (given keep) strict then Err EValue
    else Ok (mkA (shape a) (filter (fun f => memb (fname f) (given keep)) (fields a))).
Proof.
  intro Hn. unfold extract_fields, extract_rejects_b. rewrite given_wrap.
  destruct (strict && negb (forallb (fun n => memb n (names a)) (given keep))); [reflexivity|].
  simpl. set (p := fun d => memb (dname d) (given keep)).
  pose proof (rebuild_sel a p Hn) as R.
  pose proof (filter_map_comm fdesc p (fields a)) as FM. fold (descr a) in FM.
  destruct (filter p (descr a)) as [|d l] eqn:E.
  - symmetry in FM. apply map_eq_nil in FM. apply filter_nil_forallb in FM. unfold p in FM.
    unfold fname. rewrite FM. reflexivity.
  - rewrite R.
    assert (F : forallb (fun f => negb (memb (fname f) (given keep))) (fields a) = false).
    { destruct (forallb (fun f => negb (memb (fname f) (given keep))) (fields a)) eqn:F; [|reflexivity].
      apply filter_nil_forallb in F. unfold p in FM. unfold fname in F. rewrite F in FM. discriminate. }
    rewrite F. reflexivity.
Qed.

Lemma extract_rejects_dec a ks strict : extract_rejects_b a ks strict = true <-> extract_rejects a ks strict.
Proof.
  unfold extract_rejects_b, extract_rejects. rewrite orb_true_iff, andb_true_iff, negb_true_iff.
  rewrite forallb_memb_false, forallb_forall. split.
  - intros [[H1 H2]|H]; [left; auto|right]. intros f Hf. apply memb_false. apply negb_true_iff. auto.
  - intros [[H1 H2]|H]; [left; auto|right]. intros f Hf. apply negb_true_iff. apply memb_false. auto.
Qed.

Lemma dec_false (b : bool) (P : Prop) : (b = true <-> P) -> b = false -> ~ P.
Proof. intros H E HP. apply H in HP. congruence. Qed.

Lemma extract_closed_spec a ks strict :
  extract_spec a ks strict
    (if extract_rejects_b a ks strict then Err EValue
     else Ok (mkA (shape a) (filter (fun f => memb (fname f) ks) (fields a)))).
Proof.
  destruct (extract_rejects_b a ks strict) eqn:R.
  - left. split; [now apply extract_rejects_dec|eauto].
  - right. split; [exact (dec_false _ _ (extract_rejects_dec a ks strict) R)|].
    eexists. split; [reflexivity|]. split; reflexivity.
Qed.

Lemma extract_model a keep strict :
  NoDup (names a) -> extract_spec a (given keep) strict (extract_fields a keep strict).
Proof. intro Hn. rewrite extract_char by assumption. apply extract_closed_spec. Qed.

(* ----------------------------------------------------------------- remove *)
Lemma remove_char a rm :
  NoDup (names a) ->
  remove_fields a rm
  = if remove_rejects_b a (given rm) then Err EValue
    else Ok (mkA (shape a) (filter (fun f => negb (memb (fname f) (given rm))) (fields a))).
Proof.
  intro Hn. unfold remove_fields, remove_rejects_b. rewrite given_wrap.
  set (p := fun d => negb (memb (dname d) (given rm))).
  pose proof (rebuild_sel a p Hn) as R.
  pose proof (filter_map_comm fdesc p (fields a)) as FM. fold (descr a) in FM.
  assert (X : forallb (fun f => memb (fname f) (given rm)) (fields a)
              = forallb (fun f => negb (p (fdesc f))) (fields a)).
  { apply forallb_ext. intro f. unfold p. now rewrite negb_involutive. }
  rewrite X.
  destruct (filter p (descr a)) as [|d l] eqn:E.
  - symmetry in FM. apply map_eq_nil in FM. apply filter_nil_forallb in FM. rewrite FM. reflexivity.
  - rewrite R.
    destruct (forallb (fun f => negb (p (fdesc f))) (fields a)) eqn:F; [|reflexivity].
    apply filter_nil_forallb in F. rewrite F in FM. discriminate.
Qed.

Lemma remove_rejects_dec a ks : remove_rejects_b a ks = true <-> remove_rejects a ks.
Proof.
  unfold remove_rejects_b, remove_rejects. rewrite forallb_forall.
  split; intros H f Hf; apply memb_In; auto.
Qed.

Lemma remove_closed_spec a ks :
  remove_spec a ks
    (if remove_rejects_b a ks then Err EValue
     else Ok (mkA (shape a) (filter (fun f => negb (memb (fname f) ks)) (fields a)))).
Proof.
  destruct (remove_rejects_b a ks) eqn:R.
  - left. split; [now apply remove_rejects_dec|eauto].
  - right. split; [exact (dec_false _ _ (remove_rejects_dec a ks) R)|].
    eexists. split; [reflexivity|]. split; reflexivity.
Qed.

Lemma remove_model a rm : NoDup (names a) -> remove_spec a (given rm) (remove_fields a rm).
Proof. intro Hn. rewrite remove_char by assumption. apply remove_closed_spec. Qed.

(* ---------------------------------------------------------------- reorder *)
Definition pickd (ds : list dentry) (n : string) : list dentry :=
  match find_descr n ds with Some d => [d] | None => [] end.
Definition has_descr (ds : list dentry) (n : string) : bool :=
  match find_descr n ds with Some _ => true | None => false end.

Lemma reorder_named_char ds ks strict :
  reorder_named ds ks strict
  = if strict && negb (forallb (has_descr ds) ks) then Err EValue else Ok (flat_map (pickd ds) ks).
Proof.
  induction ks as [|n t IH]; simpl; [now rewrite andb_false_r|].
  unfold has_descr at 1, pickd at 1. destruct (find_descr n ds) as [d|] eqn:E.
  - rewrite IH. simpl. destruct (strict && negb (forallb (has_descr ds) t)); reflexivity.
  - destruct strict; simpl; [reflexivity|]. rewrite IH. reflexivity.
Qed.

Lemma has_descr_memb a n : has_descr (descr a) n = memb n (names a).
Proof.
  unfold has_descr, descr. rewrite find_descr_fields.
  destruct (find_field n (fields a)) as [f|] eqn:E; simpl; symmetry.
  - apply memb_In. destruct (find_field_Some _ _ _ E) as [Hi <-]. unfold names. now apply in_map.
  - apply memb_false. now apply find_field_None.
Qed.

Lemma pickd_names a ks :
  map dname (flat_map (pickd (descr a)) ks) = filter (fun n => memb n (names a)) ks.
Proof.
  induction ks as [|n t IH]; simpl; [reflexivity|]. rewrite map_app, IH.
  rewrite <- has_descr_memb. unfold pickd, has_descr, descr. rewrite find_descr_fields.
  destruct (find_field n (fields a)) as [f|] eqn:E; simpl; [|reflexivity].
  destruct (find_field_Some _ _ _ E) as [_ <-]. reflexivity.
Qed.

Lemma pickd_in a ks d : In d (flat_map (pickd (descr a)) ks) -> In d (descr a).
Proof.
  intro H. apply in_flat_map in H as [n [_ Hd]]. unfold pickd, descr in Hd.
  rewrite find_descr_fields in Hd. destruct (find_field n (fields a)) as [f|] eqn:E; simpl in Hd; [|contradiction].
  destruct Hd as [<-|[]]. unfold descr. apply in_map. now apply find_field_Some in E.
Qed.

Lemma pickd_lookup a ks :
  NoDup (names a) ->
  map (lookup (fields a) (nelem a)) (flat_map (pickd (descr a)) ks) = flat_map (pick a) ks.
Proof.
  intro Hn. induction ks as [|n t IH]; simpl; [reflexivity|]. rewrite map_app, IH. f_equal.
  unfold pickd, pick, descr. rewrite find_descr_fields.
  destruct (find_field n (fields a)) as [f|] eqn:E; simpl; [|reflexivity].
  rewrite lookup_self; [reflexivity|exact Hn|now apply find_field_Some in E].
Qed.

Lemma reorder_char a ks strict :
  NoDup (names a) -> NoDup (given ks) ->
  reorder_fields a ks strict
  = if reorder_rejects_b a (given ks) strict then Err EValue
    else Ok (mkA (shape a) (reorder_fields_spec a (given ks))).
Proof.
  intros Hn Hk. unfold reorder_fields, reorder_rejects_b. rewrite given_wrap, reorder_named_char.
  rewrite (forallb_ext _ _ _ (has_descr_memb a)).
  destruct (strict && negb (forallb (fun n => memb n (names a)) (given ks))); [reflexivity|].
  simpl. set (first := flat_map (pickd (descr a)) (given ks)).
  set (q := fun d => negb (memb (dname d) (map dname first))).
  rewrite rebuild.
  - f_equal. f_equal. rewrite map_app. unfold reorder_fields_spec. f_equal.
    + now apply pickd_lookup.
    + rewrite sel_fields by assumption. apply filter_ext_in. intros f Hf. unfold q. f_equal.
      change (dname (fdesc f)) with (fname f).
      apply memb_ext. unfold first. rewrite pickd_names, filter_In, memb_In.
      split; [tauto|]. intro H. split; [assumption|]. unfold names. now apply in_map.
  - exact Hn.
  - rewrite map_app. apply NoDup_app_intro.
    + unfold first. rewrite pickd_names. now apply NoDup_filter'.
    + rewrite <- names_descr in Hn. now apply NoDup_map_filter.
    + intros x H1 H2. apply in_map_iff in H2 as [d [<- Hd]]. apply filter_In in Hd as [_ Hq].
      unfold q in Hq. apply negb_true_iff in Hq. apply memb_false in Hq. contradiction.
  - intros d Hd _. apply in_app_or in Hd as [Hd|Hd]; [now apply pickd_in in Hd|].
    now apply filter_In in Hd as [Hd _].
Qed.

Lemma reorder_rejects_dec a ks strict : reorder_rejects_b a ks strict = true <-> reorder_rejects a ks strict.
Proof.
  unfold reorder_rejects_b, reorder_rejects. now rewrite andb_true_iff, negb_true_iff, forallb_memb_false.
Qed.

Lemma reorder_closed_spec a ks strict :
  reorder_spec a ks strict
    (if reorder_rejects_b a ks strict then Err EValue else Ok (mkA (shape a) (reorder_fields_spec a ks))).
Proof.
  destruct (reorder_rejects_b a ks strict) eqn:R.
  - left. split; [now apply reorder_rejects_dec|eauto].
  - right. split; [exact (dec_false _ _ (reorder_rejects_dec a ks strict) R)|].
    eexists. split; [reflexivity|]. split; reflexivity.
Qed.

Lemma reorder_model a ks strict :
  NoDup (names a) -> NoDup (given ks) -> reorder_spec a (given ks) strict (reorder_fields a ks strict).
Proof. intros Hn Hk. rewrite reorder_char by assumption. apply reorder_closed_spec. Qed.

(* the named fields really come first, in the order given: a readable corollary *)
Lemma reorder_names a ks :
  map fname (reorder_fields_spec a ks)
  = filter (fun n => memb n (names a)) ks ++ filter (fun n => negb (memb n ks)) (names a).
Proof.
  unfold reorder_fields_spec. rewrite map_app. f_equal.
  - induction ks as [|n t IH]; simpl; [reflexivity|]. rewrite map_app, IH. unfold pick.
    destruct (find_field n (fields a)) as [f|] eqn:E; simpl.
    + destruct (find_field_Some _ _ _ E) as [Hi <-].
      assert (M : memb (fname f) (names a) = true) by (apply memb_In; unfold names; now apply in_map).
      now rewrite M.
    + assert (M : memb n (names a) = false) by (apply memb_false; now apply find_field_None).
      now rewrite M.
  - unfold names. now rewrite filter_map_comm.
Qed.

(* ---------------------------------------------------- copy_fields_by_name *)
Definition setv (n : Z) (nv : list (string * dval)) (g : field) : field :=
  match assoc (fname g) nv with
  | Some v => mkF (fdesc g) (default_data n (fdesc g) v)
  | None => g
  end.

Lemma cfbn_expected_setv a ns vs : cfbn_expected a ns vs = map (setv (nelem a) (combine ns vs)) (fields a).
Proof. reflexivity. Qed.

Lemma fill_data_ok n d v : dval_ok n d v -> fill_data n d v = Ok (default_data n d v).
Proof.
  destruct v as [item|cell|cells]; simpl; intro H.
  - apply Z.eqb_eq in H. now rewrite H.
  - apply Z.eqb_eq in H. now rewrite H.
  - destruct H as [H1 H2]. apply Z.eqb_eq in H1. rewrite H1. simpl.
    assert (F : forallb (fun c => len c =? cellsize d) cells = true).
    { apply forallb_forall. intros c Hc. apply Z.eqb_eq. rewrite Forall_forall in H2. auto. }
    now rewrite F.
Qed.

Lemma assoc_None n nv : ~ In n (map fst nv) -> assoc n nv = None.
Proof.
  induction nv as [|[m v] t IH]; simpl; intro H; [reflexivity|].
  destruct (String.eqb m n) eqn:E; [apply String.eqb_eq in E; exfalso; apply H; auto|].
  apply IH. tauto.
Qed.

Lemma assoc_In n v nv : NoDup (map fst nv) -> In (n, v) nv -> assoc n nv = Some v.
Proof.
  induction nv as [|[m w] t IH]; simpl; intros Hn Hi; [contradiction|].
  inversion Hn as [|x l Hx Hd]; subst. destruct Hi as [Hi|Hi].
  - inversion Hi; subst. now rewrite String.eqb_refl.
  - destruct (String.eqb m n) eqn:E; [|auto]. apply String.eqb_eq in E. subst.
    exfalso. apply Hx. apply in_map_iff. exists (n, v). auto.
Qed.

Lemma cfbn_loop_char : forall nv a,
  NoDup (names a) -> NoDup (map fst nv) ->
  (forall n v g, In (n, v) nv -> find_field n (fields a) = Some g -> dval_ok (nelem a) (fdesc g) v) ->
  cfbn_loop a nv = Ok (mkA (shape a) (map (setv (nelem a) nv) (fields a))).
Proof.
  induction nv as [|[n v] t IH]; intros a Hn Hk Hv.
  - simpl. unfold setv. simpl. rewrite map_id, sarray_eta. reflexivity.
  - inversion Hk as [|x l Hx Hd]; subst. simpl.
    destruct (find_field n (fields a)) as [g|] eqn:E.
    + rewrite (fill_data_ok _ _ _ (Hv n v g (or_introl eq_refl) E)). simpl.
      destruct (find_field_Some _ _ _ E) as [Hgi Hgn].
      rewrite IH; simpl.
      * unfold nelem at 1. simpl. fold (nelem a). f_equal. f_equal. unfold put_field. rewrite map_map.
        apply map_ext_in. intros g0 Hg0. unfold setv at 2. simpl.
        destruct (String.eqb (fname g0) n) eqn:E0.
        -- apply String.eqb_eq in E0. rewrite String.eqb_sym.
           assert (E1 : String.eqb (fname g0) n = true) by (now apply String.eqb_eq). rewrite E1.
           unfold setv. unfold fname at 1. simpl. fold (fname g0). rewrite E0.
           rewrite (assoc_None n t Hx).
           assert (g0 = g) by (apply (field_unique (fields a)); auto; congruence). subst g0. reflexivity.
        -- rewrite String.eqb_sym, E0. reflexivity.
      * unfold names. simpl. now rewrite put_field_names.
      * assumption.
      * intros n' v' g' Hi Hf. unfold nelem. simpl. fold (nelem a).
        assert (P : forall g0, fname ((fun g1 => if String.eqb (fname g1) n then set_data g1 (default_data (nelem a) (fdesc g) v) else g1) g0) = fname g0).
        { intro g0. destruct (String.eqb (fname g0) n); reflexivity. }
        unfold put_field in Hf. rewrite (find_field_map _ _ _ P) in Hf.
        destruct (find_field n' (fields a)) as [g1|] eqn:E1; simpl in Hf; [|discriminate].
        inversion Hf; subst g'.
        assert (D : fdesc (if String.eqb (fname g1) n then set_data g1 (default_data (nelem a) (fdesc g) v) else g1) = fdesc g1).
        { destruct (String.eqb (fname g1) n); reflexivity. }
        rewrite D. apply (Hv n' v' g1); [now right|assumption].
    + rewrite IH; [| assumption | assumption |].
      * f_equal. f_equal. apply map_ext_in. intros g0 Hg0. unfold setv. simpl.
        destruct (String.eqb n (fname g0)) eqn:E0; [|reflexivity].
        apply String.eqb_eq in E0. apply find_field_None in E. exfalso. apply E. rewrite E0. now apply in_map.
      * intros n' v' g' Hi Hf. apply (Hv n' v' g'); [now right|assumption].
Qed.

Lemma cfbn_model a nms vals :
  cfbn_scope a (given nms) (given_vals vals) ->
  copy_fields_by_name a nms vals
  = Ok (mkA (shape a) (cfbn_expected a (given nms) (given_vals vals))).
Proof.
  intros [Hn [Hk [Hl Hv]]]. unfold copy_fields_by_name. rewrite given_wrap, given_vals_unwrap.
  rewrite Hl, Nat.eqb_refl. rewrite cfbn_loop_char; [reflexivity|assumption| |assumption].
  now rewrite map_fst_combine'.
Qed.

Lemma cfbn_rejects a nms vals :
  length (given nms) <> length (given_vals vals) -> copy_fields_by_name a nms vals = Err EValue.
Proof.
  intro H. unfold copy_fields_by_name. rewrite given_wrap, given_vals_unwrap.
  apply Nat.eqb_neq in H. now rewrite H.
Qed.

Lemma cfbn_expected_ok a ns vs r :
  NoDup ns -> length ns = length vs ->
  shape r = shape a -> fields r = cfbn_expected a ns vs -> cfbn_ok a ns vs r.
Proof.
  intros Hk Hl Hs Hf. unfold cfbn_ok. split; [exact Hs|].
  assert (P : forall g, fname (setv (nelem a) (combine ns vs) g) = fname g).
  { intro g. unfold setv. destruct (assoc (fname g) (combine ns vs)); reflexivity. }
  split; [|split].
  - unfold descr. rewrite Hf, cfbn_expected_setv, map_map. apply map_ext. intro g. unfold setv.
    destruct (assoc (fname g) (combine ns vs)); reflexivity.
  - intros n v g Hi Hg. rewrite Hf, cfbn_expected_setv, (find_field_map _ _ _ P), Hg. simpl.
    destruct (find_field_Some _ _ _ Hg) as [_ Hgn]. unfold setv. rewrite Hgn.
    rewrite (assoc_In n v); [reflexivity| |assumption]. now rewrite map_fst_combine'.
  - intros n Hnot. rewrite Hf, cfbn_expected_setv, (find_field_map _ _ _ P).
    destruct (find_field n (fields a)) as [g|] eqn:Hg; [|reflexivity]. simpl.
    destruct (find_field_Some _ _ _ Hg) as [_ Hgn]. unfold setv. rewrite Hgn.
    rewrite assoc_None; [reflexivity|]. now rewrite map_fst_combine'.
Qed.

(* -------------------------------------------------------------------- add *)
Lemma add_rejects_dec a add : add_rejects_b a add = true <-> add_rejects a add.
Proof.
  unfold add_rejects_b, add_rejects. rewrite existsb_exists.
  split; intros [d [H1 H2]]; exists d; (split; [assumption|]); now apply memb_In.
Qed.

Lemma add_zero a add :
  NoDup (names a) -> NoDup (map dname add) -> add_rejects_b a add = false ->
  (do z <- np_zeros (shape a) (descr a ++ add); copy_fields a z)
  = Ok (mkA (shape a) (fields a ++ map (zero_field (nelem a)) add)).
Proof.
  intros Hn Ha Hr. pose proof (dec_false _ _ (add_rejects_dec a add) Hr) as Hdis.
  rewrite rebuild.
  - f_equal. f_equal. rewrite map_app. f_equal.
    + unfold descr. rewrite map_map. apply map_id_in.
      intros f Hf. now apply lookup_self.
    + apply map_ext_in. intros d Hd. unfold lookup.
      assert (N : find_field (dname d) (fields a) = None).
      { apply find_field_None. intro Hi. apply Hdis. exists d. auto. }
      now rewrite N.
  - exact Hn.
  - rewrite map_app, names_descr. apply NoDup_app_intro; [assumption|assumption|].
    intros x H1 H2. apply in_map_iff in H2 as [d [<- Hd]]. apply Hdis. exists d. auto.
  - intros d Hd Hin. apply in_app_or in Hd as [Hd|Hd]; [assumption|].
    exfalso. apply Hdis. exists d. auto.
Qed.

Lemma new_fields_assoc n add : forall vs,
  NoDup (map dname add) -> length vs = length add ->
  map (fun d => setv n (combine (map dname add) vs) (zero_field n d)) add
  = map (fun dv => mkF (fst dv) (default_data n (fst dv) (snd dv))) (combine add vs).
Proof.
  induction add as [|d t IH]; intros vs Hn Hl; [reflexivity|].
  destruct vs as [|v vs']; [discriminate|]. simpl in *. inversion Hn as [|x l Hx Hd]; subst.
  f_equal.
  - unfold setv. simpl. unfold fname at 1. simpl. now rewrite String.eqb_refl.
  - rewrite <- IH by (auto; congruence). apply map_ext_in. intros d' Hd'.
    unfold setv. simpl. unfold fname at 1 3. simpl.
    destruct (String.eqb (dname d) (dname d')) eqn:E; [|reflexivity].
    apply String.eqb_eq in E. exfalso. apply Hx. rewrite E. now apply in_map.
Qed.

Lemma add_char a add defaults :
  NoDup (names a) -> NoDup (map dname add) ->
  defaults_ok (nelem a) add (option_map given_vals defaults) ->
  add_fields a add defaults
  = if add_rejects_b a add then Err EValue
    else Ok (mkA (shape a) (fields a ++ new_fields (nelem a) add (option_map given_vals defaults))).
Proof.
  intros Hn Ha Hd. unfold add_fields. apply nodup_b_NoDup in Ha. rewrite Ha. simpl.
  apply nodup_b_NoDup in Ha. fold (add_rejects_b a add).
  destruct (add_rejects_b a add) eqn:R; [reflexivity|].
  pose proof (dec_false _ _ (add_rejects_dec a add) R) as Hdis.
  pose proof (add_zero a add Hn Ha R) as Z.
  destruct (np_zeros (shape a) (descr a ++ add)) as [z|e]; simpl in Z; [|discriminate].
  simpl. rewrite Z. simpl. destruct defaults as [dv|]; [|reflexivity].
  simpl in Hd. destruct Hd as [Hl Hv]. rewrite given_vals_unwrap, Hl, Nat.eqb_refl. simpl.
  set (new_arr := mkA (shape a) (fields a ++ map (zero_field (nelem a)) add)).
  assert (NN : NoDup (names new_arr)).
  { unfold names, new_arr. simpl. rewrite map_app. apply NoDup_app_intro; [exact Hn| |].
    - rewrite map_map. simpl. exact Ha.
    - intros x H1 H2. rewrite map_map in H2. simpl in H2. apply in_map_iff in H2 as [d [<- Hd]].
      apply Hdis. exists d. auto. }
  assert (EN : nelem new_arr = nelem a) by reflexivity.
  rewrite (cfbn_model new_arr (NList (map dname add)) (VList (given_vals dv))).
  - simpl. f_equal. f_equal. rewrite cfbn_expected_setv. simpl. rewrite EN, map_app. f_equal.
    + apply map_id_in. intros g Hg. unfold setv.
      rewrite assoc_None; [reflexivity|]. rewrite map_fst_combine' by (now rewrite map_length).
      intro Hi. apply in_map_iff in Hi as [d [Ed Hd]]. apply Hdis. exists d. split; [assumption|].
      rewrite Ed. unfold names. now apply in_map.
    + rewrite map_map. now apply new_fields_assoc.
  - simpl. split; [exact NN|]. split; [exact Ha|]. split; [now rewrite map_length|].
    intros n v g Hi Hg. rewrite EN. rewrite combine_map_l in Hi.
    apply in_map_iff in Hi as [[d v'] [Ep Hp]]. simpl in Ep. inversion Ep; subst n v'.
    unfold new_arr in Hg. simpl in Hg. rewrite find_field_app in Hg.
    assert (N : find_field (dname d) (fields a) = None).
    { apply find_field_None. intro Hi. apply Hdis. exists d. split; [|exact Hi].
      now apply in_combine_l in Hp. }
    rewrite N in Hg. destruct (find_field_Some _ _ _ Hg) as [Hgi Hgn].
    apply in_map_iff in Hgi as [d' [<- Hd']]. simpl.
    assert (d' = d).
    { unfold fname in Hgn. simpl in Hgn. apply in_combine_l in Hp.
      clear - Ha Hd' Hp Hgn. induction add as [|x t IH]; [contradiction|].
      simpl in Ha. inversion Ha as [|y l Hy Hd0]; subst. destruct Hd' as [->|Hd'], Hp as [->|Hp]; auto.
      - exfalso. apply Hy. rewrite Hgn. now apply in_map.
      - exfalso. apply Hy. rewrite <- Hgn. now apply in_map. }
    subst d'. rewrite Forall_forall in Hv. exact (Hv (d, v) Hp).
Qed.

Lemma add_closed_spec a add dv :
  add_spec a add dv
    (if add_rejects_b a add then Err EValue
     else Ok (mkA (shape a) (fields a ++ new_fields (nelem a) add dv))).
Proof.
  destruct (add_rejects_b a add) eqn:R.
  - left. split; [now apply add_rejects_dec|eauto].
  - right. split; [exact (dec_false _ _ (add_rejects_dec a add) R)|].
    eexists. split; [reflexivity|]. split; reflexivity.
Qed.

Lemma add_model a add defaults :
  NoDup (names a) -> NoDup (map dname add) ->
  defaults_ok (nelem a) add (option_map given_vals defaults) ->
  add_spec a add (option_map given_vals defaults) (add_fields a add defaults).
Proof. intros Hn Ha Hd. rewrite add_char by assumption. apply add_closed_spec. Qed.

(* ---------------------------------------------------------------- combine *)
Lemma combine_descr_char num arrs :
  combine_descr num arrs
  = if forallb (fun a => nelem a =? num) arrs then Ok (concat (map descr arrs)) else Err EValue.
Proof.
  induction arrs as [|a t IH]; simpl; [reflexivity|].
  destruct (nelem a =? num); simpl; [|reflexivity]. rewrite IH.
  destruct (forallb (fun a0 => nelem a0 =? num) t); reflexivity.
Qed.

Lemma concat_names arrs : map dname (concat (map descr arrs)) = concat (map names arrs).
Proof.
  rewrite concat_map, map_map. f_equal. apply map_ext. intro a. apply names_descr.
Qed.

Definition zeros_of (n : Z) (a : sarray) : list field := map (zero_field n) (descr a).

Lemma upd_outside fs l :
  (forall g, In g l -> ~ In (fname g) (map fname fs)) -> map (upd fs) l = l.
Proof.
  intro H. apply map_id_in. intros g Hg. unfold upd.
  assert (N : find_field (fname g) fs = None) by (apply find_field_None; auto). now rewrite N.
Qed.

Lemma upd_zeros n a : NoDup (names a) -> map (upd (fields a)) (zeros_of n a) = fields a.
Proof.
  intro Hn. unfold zeros_of, descr. rewrite !map_map.
  apply map_id_in. intros f Hf. unfold upd. simpl. unfold fname at 1. simpl. fold (fname f).
  rewrite (find_field_NoDup _ _ Hn Hf). unfold set_data. simpl. apply field_eta.
Qed.

Lemma zeros_names n a : map fname (zeros_of n a) = names a.
Proof. unfold zeros_of. rewrite map_map. simpl. apply names_descr. Qed.

Lemma concat_zeros_names n arrs :
  map fname (concat (map (zeros_of n) arrs)) = concat (map names arrs).
Proof. rewrite concat_map, map_map. f_equal. apply map_ext. intro a. apply zeros_names. Qed.

Lemma combine_copy_char : forall arrs P s,
  NoDup (map fname P ++ concat (map names arrs)) ->
  (forall a, In a arrs -> shape a = s) ->
  combine_copy arrs (mkA s (P ++ concat (map (zeros_of (prodZ s)) arrs)))
  = Ok (mkA s (P ++ concat (map fields arrs))).
Proof.
  induction arrs as [|a t IH]; intros P s Hn Hs; [reflexivity|].
  simpl. simpl in Hn.
  destruct (NoDup_app_inv _ _ Hn) as [HP [Hrest HPdis]].
  destruct (NoDup_app_inv _ _ Hrest) as [Ha [Ht Hadis]].
  assert (Sa : shape a = s) by (apply Hs; now left).
  unfold copy_fields. unfold nelem. simpl. rewrite Sa, Z.eqb_refl.
  rewrite copy_loop_char; simpl.
  - rewrite !map_app.
    rewrite (upd_outside (fields a) P).
    2:{ intros g Hg Hi. apply (HPdis (fname g)); [now apply in_map|]. apply in_or_app. now left. }
    rewrite upd_zeros by assumption.
    rewrite (upd_outside (fields a) (concat (map (zeros_of (prodZ s)) t))).
    2:{ intros g Hg Hi. apply (Hadis (fname g)); [exact Hi|].
        rewrite <- (concat_zeros_names (prodZ s)). now apply in_map. }
    rewrite app_assoc. rewrite IH.
    + now rewrite <- app_assoc.
    + rewrite map_app, <- app_assoc. exact Hn.
    + intros a' Ha'. apply Hs. now right.
  - exact Ha.
  - intros f d Hf Hd E. unfold descr in Hd. simpl in Hd. rewrite !map_app in Hd.
    assert (Hin : In d (descr a)).
    { apply in_app_or in Hd as [Hd|Hd]; [|apply in_app_or in Hd as [Hd|Hd]].
      - exfalso. apply in_map_iff in Hd as [g [<- Hg]]. apply (HPdis (fname g)); [now apply in_map|].
        apply in_or_app. left. change (dname (fdesc g)) with (fname g) in E. rewrite <- E.
        unfold names. now apply in_map.
      - unfold zeros_of in Hd. rewrite map_map in Hd. simpl in Hd. now rewrite map_id in Hd.
      - exfalso. apply in_map_iff in Hd as [g [<- Hg]]. apply (Hadis (fname g)).
        + change (dname (fdesc g)) with (fname g) in E. rewrite <- E. unfold names. now apply in_map.
        + rewrite <- (concat_zeros_names (prodZ s)). now apply in_map. }
    rewrite (descr_unique a d f Ha Hin Hf E). apply same_type_refl.
  - try rewrite Sa. apply assign_ok_refl.
Qed.

Lemma combine_rejects_dec arrs : combine_rejects_b arrs = true <-> combine_rejects arrs.
Proof.
  unfold combine_rejects_b, combine_rejects. destruct arrs as [|a0 t]; [split; auto|].
  rewrite orb_true_iff, !negb_true_iff, nodup_b_false. simpl hd. split.
  - intros [H|H]; [|right; right; exact H]. right; left.
    apply forallb_false_exists in H as [x [Hx Px]]. exists x. split; [assumption|now apply Z.eqb_neq].
  - intros [H|[[x [Hx Px]]|H]]; [discriminate| |right; exact H]. left.
    destruct (forallb (fun a => nelem a =? nelem a0) (a0 :: t)) eqn:F; [|reflexivity].
    rewrite forallb_forall in F. apply F in Hx. apply Z.eqb_eq in Hx. contradiction.
Qed.

Lemma combine_fields_2 a0 a1 t :
  combine_fields (a0 :: a1 :: t)
  = (do ds <- combine_descr (nelem a0) (a0 :: a1 :: t);
     do z <- np_zeros (shape a0) ds; combine_copy (a0 :: a1 :: t) z).
Proof. reflexivity. Qed.

Lemma combine_rejects_b_cons a0 t :
  combine_rejects_b (a0 :: t)
  = negb (forallb (fun a => nelem a =? nelem a0) (a0 :: t)) || negb (nodup_b (concat (map names (a0 :: t)))).
Proof. reflexivity. Qed.

Lemma combine_char arrs :
  combine_scope arrs ->
  combine_fields arrs
  = if combine_rejects_b arrs then Err EValue
    else Ok (mkA (shape (hd (mkA [] []) arrs)) (concat (map fields arrs))).
Proof.
  intro Hsc. destruct arrs as [|a0 [|a1 t]].
  - reflexivity.
  - simpl. rewrite Z.eqb_refl. simpl. rewrite !app_nil_r.
    destruct (Hsc a0 (or_introl eq_refl)) as [Hn _]. apply nodup_b_NoDup in Hn. rewrite Hn. simpl.
    now rewrite sarray_eta.
  - rewrite combine_fields_2, combine_rejects_b_cons.
    change (hd (mkA [] []) (a0 :: a1 :: t)) with a0.
    assert (Hsc' : forall a, In a (a0 :: a1 :: t) ->
                     NoDup (names a) /\ (nelem a = nelem a0 -> shape a = shape a0)) by exact Hsc.
    clear Hsc. remember (a0 :: a1 :: t) as arrs eqn:EA. clear EA.
    rewrite combine_descr_char.
    destruct (forallb (fun a => nelem a =? nelem a0) arrs) eqn:F; [|reflexivity]. simpl.
    unfold np_zeros. rewrite concat_names.
    destruct (nodup_b (concat (map names arrs))) eqn:N; [|reflexivity]. simpl.
    apply nodup_b_NoDup in N. rewrite concat_map, map_map.
    change (map (fun x => map (zero_field (prodZ (shape a0))) (descr x)) arrs)
      with (map (zeros_of (prodZ (shape a0))) arrs).
    apply (combine_copy_char arrs [] (shape a0)); [exact N|].
    intros a Ha. destruct (Hsc' a Ha) as [_ Hsh]. apply Hsh.
    rewrite forallb_forall in F. apply Z.eqb_eq. now apply F.
Qed.

Lemma combine_closed_spec arrs :
  combine_spec arrs
    (if combine_rejects_b arrs then Err EValue
     else Ok (mkA (shape (hd (mkA [] []) arrs)) (concat (map fields arrs)))).
Proof.
  destruct (combine_rejects_b arrs) eqn:R.
  - left. split; [now apply combine_rejects_dec|eauto].
  - right. split; [exact (dec_false _ _ (combine_rejects_dec arrs) R)|].
    eexists. split; [reflexivity|]. split; reflexivity.
Qed.

Lemma combine_model arrs : combine_scope arrs -> combine_spec arrs (combine_fields arrs).
Proof. intro H. rewrite combine_char by assumption. apply combine_closed_spec. Qed.

Lemma combine_scope_dec arrs : combine_scope_b arrs = true -> combine_scope arrs.
Proof.
  unfold combine_scope_b, combine_scope. destruct arrs as [|a0 t]; [intros _ a []|].
  rewrite forallb_forall. intros H a Ha. specialize (H a Ha). simpl hd.
  apply andb_true_iff in H as [H1 H2]. split; [now apply nodup_b_NoDup|].
  intro E. apply orb_true_iff in H2 as [H2|H2].
  - apply negb_true_iff, Z.eqb_neq in H2. contradiction.
  - now apply zlist_eqb_spec.
Qed.

(* C07 — the complete outcome table of copy_fields (which calls are refused, with which error
   class, and what an accepted call stores), for arrays whose common fields have the same type. *)
From EsVerif.Common Require Import Base Bytes.
From Coq.Strings Require Import Byte.
From Coq.Strings Require String.
From EsVerif.C07 Require Import Model Spec Basics Proofs.

Definition no_common (a1 a2 : sarray) : Prop := forall f, In f (fields a1) -> ~ In (fname f) (names a2).
Definition some_common (a1 a2 : sarray) : Prop := exists f, In f (fields a1) /\ In (fname f) (names a2).
Definition some_common_b (a1 a2 : sarray) : bool := existsb (fun f => memb (fname f) (names a2)) (fields a1).

Lemma some_common_dec a1 a2 : some_common_b a1 a2 = true <-> some_common a1 a2.
Proof.
  unfold some_common_b, some_common. rewrite existsb_exists. split; intros [f [H1 H2]]; exists f; (split; [assumption|]).
  - now apply memb_In. - now apply memb_In.
Qed.

Lemma copy_loop_disjoint s : forall fs1 a2,
  (forall f, In f fs1 -> ~ In (fname f) (names a2)) -> copy_loop s fs1 a2 = Ok a2.
Proof.
  induction fs1 as [|f t IH]; intros a2 H; [reflexivity|]. cbn [copy_loop].
  assert (M : memb (fname f) (names a2) = false) by (apply memb_false; apply H; now left).
  rewrite M. apply IH. intros g Hg. apply H. now right.
Qed.

Lemma copy_loop_refused s : forall fs1 a2,
  assign_ok s (shape a2) = false ->
  (forall f g, In f fs1 -> In g (fields a2) -> fname f = fname g -> same_type (fdesc f) (fdesc g) = true) ->
  (exists f, In f fs1 /\ In (fname f) (names a2)) ->
  copy_loop s fs1 a2 = Err EValue.
Proof.
  induction fs1 as [|f t IH]; intros a2 Hs Hc [f0 [Hi Hn]]; [destruct Hi|]. cbn [copy_loop].
  destruct (memb (fname f) (names a2)) eqn:M.
  - apply memb_In in M. destruct (find_field_In_names _ _ M) as [g Hg]. unfold assign_field. rewrite Hg.
    destruct (find_field_Some _ _ _ Hg) as [Hgi Hgn].
    rewrite (Hc f g (or_introl eq_refl) Hgi (eq_sym Hgn)), Hs. reflexivity.
  - apply IH; [assumption| |].
    + intros f' g Hf' Hg. apply Hc; [now right|assumption].
    + destruct Hi as [<-|Hi]; [|eauto]. apply memb_false in M. contradiction.
Qed.

(* every call of copy_fields on arrays with compatible common fields falls in exactly one row *)
Lemma copy_fields_outcome a1 a2 :
  NoDup (names a1) -> compat a1 a2 ->
  (nelem a1 <> nelem a2 -> copy_fields a1 a2 = Err EValue)                        (* sizes differ *)
  /\ (nelem a1 = nelem a2 -> no_common a1 a2 -> copy_fields a1 a2 = Ok a2)        (* nothing to copy: arr2 as it was *)
  /\ (nelem a1 = nelem a2 -> some_common a1 a2 -> assign_ok (shape a1) (shape a2) = false ->
        copy_fields a1 a2 = Err EValue)                                            (* shapes do not broadcast *)
  /\ (nelem a1 = nelem a2 -> assign_ok (shape a1) (shape a2) = true ->
        copy_fields a1 a2 = Ok (mkA (shape a2) (copy_expected a1 a2))).
Proof.
  intros Hn Hc. split; [apply copy_rejects|]. split; [|split].
  - intros He Hd. unfold copy_fields. rewrite He, Z.eqb_refl. now apply copy_loop_disjoint.
  - intros He Hs Ha. unfold copy_fields. rewrite He, Z.eqb_refl. apply copy_loop_refused; [assumption| |assumption].
    intros f g Hf Hg E. now apply Hc.
  - intros He Ha. now apply copy_model.
Qed.

(* ... and the error class is ValueError whenever the call is refused *)
Lemma copy_fields_error_class a1 a2 e :
  NoDup (names a1) -> compat a1 a2 -> copy_fields a1 a2 = Err e -> e = EValue.
Proof.
  intros Hn Hc H. destruct (copy_fields_outcome a1 a2 Hn Hc) as (R1 & R2 & R3 & R4).
  destruct (Z.eq_dec (nelem a1) (nelem a2)) as [He|Hne]; [|rewrite (R1 Hne) in H; congruence].
  destruct (assign_ok (shape a1) (shape a2)) eqn:A; [rewrite (R4 He eq_refl) in H; discriminate|].
  destruct (some_common_b a1 a2) eqn:S.
  - apply some_common_dec in S. rewrite (R3 He S eq_refl) in H. congruence.
  - assert (D : no_common a1 a2).
    { intros f Hf Hin. assert (X : some_common_b a1 a2 = true) by (apply some_common_dec; exists f; auto). congruence. }
    rewrite (R2 He D) in H. discriminate.
Qed.

(* ------------------------------------------------------------------------------------------
   Error paths and input forms that were compared with the code but had no statement so far. *)
From EsVerif.C07 Require Import CmpProofs.

(* add_fields: a repeated name inside the added descriptor (np.dtype refuses it) and a list of
   defaults of the wrong length are ValueError; the length check comes AFTER the new array has
   been built, so it presupposes an otherwise acceptable request *)
Lemma add_rejects_dup_descr a add dv : ~ NoDup (map dname add) -> add_fields a add dv = Err EValue.
Proof.
  intro H. apply nodup_b_false in H. unfold add_fields. rewrite H. reflexivity.
Qed.

Lemma add_rejects_defaults_length a add dv :
  NoDup (names a) -> NoDup (map dname add) -> ~ add_rejects a add ->
  length (given_vals dv) <> length add -> add_fields a add (Some dv) = Err EValue.
Proof.
  intros Hn Ha Hr Hl. unfold add_fields.
  pose proof Ha as Hab. apply nodup_b_NoDup in Hab. rewrite Hab. cbn [negb].
  assert (R : add_rejects_b a add = false).
  { destruct (add_rejects_b a add) eqn:E; [|reflexivity]. exfalso. apply Hr. now apply add_rejects_dec. }
  unfold add_rejects_b in R. rewrite R.
  pose proof (add_zero a add Hn Ha R) as Z.
  destruct (np_zeros (shape a) (descr a ++ add)) as [z|e]; cbn [bind] in *; [|discriminate].
  rewrite Z. cbn [bind]. rewrite given_vals_unwrap.
  apply Nat.eqb_neq in Hl. rewrite Hl. reflexivity.
Qed.

(* reorder_fields with a REPEATED name that exists (outside the statement, which speaks of
   orderings): the descr gets the field twice and np.zeros refuses it — ValueError *)
Lemma flat_pickd_dup a : forall ks,
  ~ NoDup (filter (fun n => memb n (names a)) ks) ->
  nodup_b (map dname (flat_map (pickd (descr a)) ks)) = false.
Proof.
  intros ks H. apply nodup_b_false. now rewrite pickd_names.
Qed.

Lemma reorder_rejects_repeated a ks strict :
  ~ NoDup (filter (fun n => memb n (names a)) (given ks)) -> reorder_fields a ks strict = Err EValue.
Proof.
  intro H. unfold reorder_fields. rewrite given_wrap, reorder_named_char.
  destruct (strict && negb (forallb (has_descr (descr a)) (given ks))); [reflexivity|]. cbn [bind].
  unfold np_zeros. rewrite map_app.
  assert (D : nodup_b (map dname (flat_map (pickd (descr a)) (given ks)) ++
                       map dname (filter (fun d => negb (memb (dname d) (map dname (flat_map (pickd (descr a)) (given ks))))) (descr a))) = false).
  { apply nodup_b_false. intro N. apply NoDup_app_inv in N as [N _]. apply nodup_b_NoDup in N.
    rewrite (flat_pickd_dup a (given ks) H) in N. discriminate. }
  rewrite D. reflexivity.
Qed.

(* split_fields on a field-less array: the data itself, or ValueError when fields= was sent *)
Lemma split_plain_spec v x : split_plain v None = Ok [v] /\ split_plain v (Some x) = Err EValue.
Proof. split; reflexivity. Qed.

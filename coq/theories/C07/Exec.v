(* C07 — glue evaluated by generated case files:
   verdict = (model = implementation ?) + 2 * (property checker rejects the implementation's output).
   A malformed input array (harness error) counts as a broken correspondence, never as a
   property failure.  The checker is consulted only on inputs the statement speaks about. *)
From EsVerif.Common Require Import Base Bytes.
From Coq.Strings Require String.
From EsVerif.C07 Require Import Model Spec Verbose Swap.

Definition res_eqb := result_eqb sarray_eqb.

Definition v_extract (a : sarray) (keep : names_arg) (strict : bool) (out : result sarray) : Z :=
  verdict (wf_b a && res_eqb (extract_fields a keep strict) out)
          (extract_check a (given keep) strict out).

Definition v_remove (a : sarray) (rm : names_arg) (out : result sarray) : Z :=
  verdict (wf_b a && res_eqb (remove_fields a rm) out)
          (remove_check a (given rm) out).

(* the statement quantifies over orderings of subsets: no demand when a name is repeated *)
Definition v_reorder (a : sarray) (ks : names_arg) (strict : bool) (out : result sarray) : Z :=
  verdict (wf_b a && res_eqb (reorder_fields a ks strict) out)
          (if nodup_b (given ks) then reorder_check a (given ks) strict out else true).

(* demand only for a valid added dtype (distinct names) and defaults of matching count/extent *)
Definition v_add (a : sarray) (add : list dentry) (defaults : option vals_arg) (out : result sarray) : Z :=
  let dv := option_map given_vals defaults in
  verdict (wf_b a && res_eqb (add_fields a add defaults) out)
          (if nodup_b (map dname add) && defaults_ok_b (nelem a) add dv
           then add_check a add dv out else true).

Definition v_combine (arrs : list sarray) (out : result sarray) : Z :=
  verdict (forallb wf_b arrs && res_eqb (combine_fields arrs) out)
          (if combine_scope_b arrs then combine_check arrs out else true).

(* demand for two arrays of the same shape whose common fields have the same type *)
Definition v_copy (a1 a2 : sarray) (out : result sarray) : Z :=
  verdict (wf_b a1 && wf_b a2 && res_eqb (copy_fields a1 a2) out)
          (if zlist_eqb (shape a1) (shape a2) && compat_b a1 a2 then copy_check a1 a2 out else true).

Definition v_cfbn (a : sarray) (nms : names_arg) (vals : vals_arg) (out : result sarray) : Z :=
  verdict (wf_b a && res_eqb (copy_fields_by_name a nms vals) out)
          (if cfbn_scope_b a (given nms) (given_vals vals)
           then cfbn_check a (given nms) (given_vals vals) out else true).

(* split_fields returns the names only with getnames=True; otherwise the harness passes [] *)
Definition split_given (a : sarray) (flds : option names_arg) : list string :=
  match flds with None => names a | Some x => given x end.
Definition fix_names (getnames : bool) (fl : list string) (out : result (list fview * list string))
  : result (list fview * list string) :=
  match out with
  | Ok (vs, nm) => Ok (vs, if getnames then nm else fl)
  | Err e => Err e
  end.
Definition split_out_eqb (x y : list fview * list string) : bool :=
  list_eqb fview_eqb (fst x) (fst y) && slist_eqb (snd x) (snd y).
Definition v_split (a : sarray) (flds : option names_arg) (getnames : bool)
           (out : result (list fview * list string)) : Z :=
  let out' := fix_names getnames (split_given a flds) out in
  verdict (wf_b a && result_eqb split_out_eqb (split_fields a flds) out')
          (split_check a (split_given a flds) out').

Definition v_compare (a1 a2 : sarray) (ignore_missing : bool) (out : result bool) : Z :=
  verdict (wf_b a1 && wf_b a2 && result_eqb Bool.eqb (compare_arrays a1 a2 ignore_missing) out)
          (if comparable_b a1 a2 then compare_check a1 a2 ignore_missing out else true).

(* plain (field-less) input of split_fields: outside the statement, correspondence only *)
Definition v_split_plain (v : fview) (flds : option names_arg) (out : result (list fview)) : Z :=
  verdict (result_eqb (list_eqb fview_eqb) (split_plain v flds) out) true.

(* compare_arrays(verbose=True): verdict AND the report written to stdout (parsed into events by
   the harness) against Verbose.compare_arrays_v; the property checker judges the verdict *)
Definition v_compare_v (a1 a2 : sarray) (ignore_missing : bool) (out : result (bool * list event)) : Z :=
  verdict (wf_b a1 && wf_b a2 && result_eqb vout_eqb (compare_arrays_v a1 a2 true ignore_missing) out)
          (if comparable_b a1 a2
           then compare_check a1 a2 ignore_missing (match out with Ok x => Ok (fst x) | Err e => Err e end)
           else true).

(* copy_fields incl. common fields that differ only in byte order (Swap.v; equals v_copy's model
   wherever the types are equal): demand for two arrays of the same shape whose common fields have
   the same type up to byte order *)
Definition v_copy_sw (a1 a2 : sarray) (out : result sarray) : Z :=
  verdict (wf_b a1 && wf_b a2 && res_eqb (copy_fields_sw a1 a2) out)
          (if zlist_eqb (shape a1) (shape a2) && compat_sw_b a1 a2 then copy_check_sw a1 a2 out else true).

(* C07 — property theorems only.  Bodies live in Proofs.v / CmpProofs.v.

   Reading guide.  A [field] is (descr entry, column bytes): two equal fields have the same
   name, element type, byte order, sub-array shape and identical bytes in every element.
   Each *_spec is a total case split: the request is one the statement says must be rejected
   and the result is an error, or it is not and the result is Ok r with shape r = shape a and
   fields r = the documented field list (see Spec.v).  [given x] is the list of names the
   caller supplied as a str, list, tuple or ndarray.  Models describe the code after the three
   fix: commits of fixes/C07 (combine_fields shape; remove_fields / copy_fields_by_name
   accepting tuple and array names). *)
From EsVerif.Common Require Import Base Bytes.
From Coq.Strings Require Import Byte.
From Coq.Strings Require String.
From EsVerif.C07 Require Import Model Spec Basics Proofs CmpProofs Extra Skel Gen Tie.

(* extract_fields: original order filtered by the given names; Err on a missing name in strict
   mode or when no field would be kept *)
Theorem C07_extract : forall a keep strict,
  NoDup (names a) -> extract_spec a (given keep) strict (extract_fields a keep strict).
Proof. exact extract_model. Qed.

(* remove_fields: original order minus the given names; Err when no field would be left *)
Theorem C07_remove : forall a rm,
  NoDup (names a) -> remove_spec a (given rm) (remove_fields a rm).
Proof. exact remove_model. Qed.

(* reorder_fields: the named fields first in the order given, then the others in original order;
   Err on a missing name in strict mode *)
Theorem C07_reorder : forall a ks strict,
  NoDup (names a) -> NoDup (given ks) -> reorder_spec a (given ks) strict (reorder_fields a ks strict).
Proof. exact reorder_model. Qed.

Theorem C07_reorder_name_order : forall a ks,
  map fname (reorder_fields_spec a ks)
  = filter (fun n => memb n (names a)) ks ++ filter (fun n => negb (memb n ks)) (names a).
Proof. exact reorder_names. Qed.

(* add_fields: old fields unchanged, new fields appended in the order of the added descriptor,
   zero-filled or set to the supplied defaults; Err when a new name already exists *)
Theorem C07_add : forall a add defaults,
  NoDup (names a) -> NoDup (map dname add) ->
  defaults_ok (nelem a) add (option_map given_vals defaults) ->
  add_spec a add (option_map given_vals defaults) (add_fields a add defaults).
Proof. exact add_model. Qed.

(* combine_fields: concatenated field lists, shape of the inputs (any number of dimensions);
   Err on an empty list, arrays of different length or a shared name *)
Theorem C07_combine : forall arrs, combine_scope arrs -> combine_spec arrs (combine_fields arrs).
Proof. exact combine_model. Qed.

(* the model's rejections are ValueError *)
Theorem C07_rejections_are_ValueError :
  (forall a keep strict e, NoDup (names a) -> extract_fields a keep strict = Err e -> e = EValue)
  /\ (forall a rm e, NoDup (names a) -> remove_fields a rm = Err e -> e = EValue)
  /\ (forall a ks strict e, NoDup (names a) -> NoDup (given ks) -> reorder_fields a ks strict = Err e -> e = EValue)
  /\ (forall a add defaults e, NoDup (names a) -> NoDup (map dname add) ->
        defaults_ok (nelem a) add (option_map given_vals defaults) -> add_fields a add defaults = Err e -> e = EValue)
  /\ (forall arrs e, combine_scope arrs -> combine_fields arrs = Err e -> e = EValue).
Proof. exact rejections_are_ValueError. Qed.

(* every retained field IS a field of the input: same type, sub-array shape, byte order, bytes *)
Theorem C07_retained_fields_identical :
  (forall a ks r, extract_ok a ks r -> shape r = shape a /\ forall f, In f (fields r) -> In f (fields a))
  /\ (forall a ks r, remove_ok a ks r -> shape r = shape a /\ forall f, In f (fields r) -> In f (fields a))
  /\ (forall a ks r, reorder_ok a ks r -> shape r = shape a
        /\ (forall f, In f (fields r) -> In f (fields a))
        /\ (NoDup (names a) -> forall f, In f (fields a) -> In f (fields r)))
  /\ (forall a add dv r, add_ok a add dv r -> shape r = shape a
        /\ (forall f, In f (fields a) -> In f (fields r))
        /\ map fdesc (fields r) = descr a ++ map fdesc (new_fields (nelem a) add dv))
  /\ (forall arrs r, combine_ok arrs r ->
        forall a f, In a arrs -> In f (fields a) -> In f (fields r)).
Proof. exact retained_fields_identical. Qed.

(* copy_fields(a1, a2) for arrays of the same shape whose common fields have the same type:
   a2 keeps shape and dtype, common fields receive a1's bytes, the others are untouched *)
Theorem C07_copy_fields : forall a1 a2,
  NoDup (names a1) -> compat a1 a2 -> shape a1 = shape a2 ->
  exists r, copy_fields a1 a2 = Ok r /\ copy_ok a1 a2 r.
Proof. exact copy_same_shape. Qed.

(* ... and more generally whenever numpy's assignment broadcasting accepts the two shapes *)
Theorem C07_copy_fields_broadcast : forall a1 a2,
  NoDup (names a1) -> compat a1 a2 -> nelem a1 = nelem a2 -> assign_ok (shape a1) (shape a2) = true ->
  exists r, copy_fields a1 a2 = Ok r /\ copy_ok a1 a2 r.
Proof. exact copy_broadcast. Qed.

Theorem C07_copy_fields_rejects : forall a1 a2, nelem a1 <> nelem a2 -> copy_fields a1 a2 = Err EValue.
Proof. exact copy_rejects. Qed.

(* copy_fields_by_name: each named field that exists holds its value, every other is untouched;
   lengths of names and values must agree *)
Theorem C07_copy_fields_by_name : forall a nms vals,
  cfbn_scope a (given nms) (given_vals vals) ->
  exists r, copy_fields_by_name a nms vals = Ok r /\ cfbn_ok a (given nms) (given_vals vals) r.
Proof. exact cfbn_spec_holds. Qed.

Theorem C07_copy_fields_by_name_rejects : forall a nms vals,
  length (given nms) <> length (given_vals vals) -> copy_fields_by_name a nms vals = Err EValue.
Proof. exact cfbn_rejects. Qed.

(* split_fields: one view per requested name, in the order requested (all fields in dtype
   order when none is given), each with the field's type, shape ++ subshape and bytes;
   Err on a missing name *)
Theorem C07_split : forall a flds, split_spec a (requested a flds) (split_fields a flds).
Proof. exact split_model. Qed.

Theorem C07_split_views_equal : forall a fl vs,
  split_ok a fl vs ->
  forall i n v, nth_error fl i = Some n -> nth_error vs i = Some v ->
    exists f, In f (fields a) /\ fname f = n /\ vtype v = dtype (fdesc f)
              /\ vshape v = shape a ++ dsub (fdesc f) /\ vdata v = fdata f.
Proof. exact split_view_equal. Qed.

(* compare_arrays answers True exactly when every common field has the same shape and
   element-wise equal values (numpy ==: NaN equals nothing, -0.0 = 0.0, byte order and NUL
   padding irrelevant) and, with ignore_missing=False, the name sets coincide *)
Theorem C07_compare_arrays : forall a1 a2 ignore_missing,
  NoDup (names a1) -> comparable a1 a2 ->
  exists b, compare_arrays a1 a2 ignore_missing = Ok b /\ (b = true <-> compare_true a1 a2 ignore_missing).
Proof. exact compare_model. Qed.

Theorem C07_compare_arrays_sound : forall a1 a2 ignore_missing,
  NoDup (names a1) -> comparable a1 a2 ->
  compare_arrays a1 a2 ignore_missing = Ok true -> compare_true a1 a2 ignore_missing.
Proof. exact compare_sound. Qed.

(* values are compared independently of the declared byte order *)
Theorem C07_value_independent_of_byte_order : forall k n item,
  (k = KInt \/ k = KUInt \/ k = KFloat) ->
  decode (mkT LE k n) (rev item) = decode (mkT BE k n) item.
Proof. exact decode_byte_order. Qed.

(* Checker soundness: what the correspondence run evaluates on the implementation's outputs,
   and the deciders of the scopes in which it is consulted. *)
Theorem C07_checkers_sound :
  (forall a ks strict out, extract_check a ks strict out = true -> extract_spec a ks strict out)
  /\ (forall a ks out, remove_check a ks out = true -> remove_spec a ks out)
  /\ (forall a ks strict out, reorder_check a ks strict out = true -> reorder_spec a ks strict out)
  /\ (forall a add dv out, add_check a add dv out = true -> add_spec a add dv out)
  /\ (forall arrs out, combine_check arrs out = true -> combine_spec arrs out)
  /\ (forall a1 a2 out, copy_check a1 a2 out = true -> exists r, out = Ok r /\ copy_ok a1 a2 r)
  /\ (forall a ns vs out, cfbn_scope_b a ns vs = true -> cfbn_check a ns vs out = true ->
        exists r, out = Ok r /\ cfbn_ok a ns vs r)
  /\ (forall a fl out, split_check a fl out = true -> split_spec a fl out)
  /\ (forall a1 a2 im out, NoDup (names a1) -> compare_check a1 a2 im out = true ->
        exists b, out = Ok b /\ (b = true <-> compare_true a1 a2 im)).
Proof. exact checkers_sound. Qed.

Theorem C07_scope_deciders_sound :
  (forall a, wf_b a = true -> wf a)
  /\ (forall arrs, combine_scope_b arrs = true -> combine_scope arrs)
  /\ (forall a1 a2, compat_b a1 a2 = true -> compat a1 a2)
  /\ (forall n add dv, defaults_ok_b n add dv = true -> defaults_ok n add dv)
  /\ (forall a ns vs, cfbn_scope_b a ns vs = true -> cfbn_scope a ns vs)
  /\ (forall a1 a2, comparable_b a1 a2 = true -> comparable a1 a2).
Proof. exact scope_deciders_sound. Qed.

(* the operations compose: a result of extract/remove/reorder is again a well-formed structured
   array (shape kept, distinct names, at least one field, every column of the right extent) *)
Theorem C07_results_well_formed :
  (forall a keep strict r, wf a -> extract_fields a keep strict = Ok r -> wf r)
  /\ (forall a rm r, wf a -> remove_fields a rm = Ok r -> wf r)
  /\ (forall a ks strict r, wf a -> NoDup (given ks) -> reorder_fields a ks strict = Ok r -> wf r).
Proof. exact (conj extract_wf (conj remove_wf reorder_wf)). Qed.

(* Tie to the source.  Gen.v is regenerated on every run from esutil/numpy_util.py of the tree
   under check (harness/props/c07_translate.py, fail-closed): the class tuples of the isinstance
   dispatches, the operator of every guard, `in`/`not in` of the filter loops, the allocator and
   the attribute that dimensions the output, keyword defaults, exception classes.  The functions
   of Model.v, about which everything above is proved, ARE the skeletons of Skel.v at the
   regenerated values. *)
Theorem C07_source_parameters :
  (forall a k s, extract_fields_g extract_forms extract_keep_if_in extract_empty_guard extract_dims a k s
                 = extract_fields a k s)
  /\ (forall a k, remove_fields_g remove_forms remove_keep_if_in remove_empty_guard remove_dims a k
                  = remove_fields a k)
  /\ (forall a k s, reorder_fields_g reorder_forms reorder_dims a k s = reorder_fields a k s)
  /\ (forall a add dv, add_fields_g add_defaults_forms add_defaults_guard add_dims a add dv = add_fields a add dv)
  /\ (forall arrs, combine_fields_g combine_none_guard combine_one_guard combine_size_guard combine_dims arrs
                   = combine_fields arrs)
  /\ (forall a1 a2, copy_fields_g copy_size_guard a1 a2 = copy_fields a1 a2)
  /\ (forall a n v, copy_fields_by_name_g cfbn_names_forms cfbn_vals_forms cfbn_len_guard a n v
                    = copy_fields_by_name a n v)
  /\ (forall a flds, split_names_g split_forms a flds = Some (split_names a flds)).
Proof. exact source_parameters. Qed.

(* every output array is created by np.zeros (new fields start zero-filled) with the input's shape *)
Theorem C07_source_allocation :
  (extract_alloc, remove_alloc, add_alloc, reorder_alloc, combine_alloc) = (AZeros, AZeros, AZeros, AZeros, AZeros)
  /\ (extract_dims, remove_dims, add_dims, reorder_dims, combine_dims) = (UseShape, UseShape, UseShape, UseShape, UseShape).
Proof. exact tie_allocation. Qed.

(* Non-vacuity: a 2-d array with a float, a big-endian sub-array and a bytes field meets the
   hypotheses, and the operations compute the documented results on it. *)
Import String.StringSyntax.
Local Open Scope string_scope.

(* strict mode is the default; every raise statement of the nine functions raises ValueError *)
Theorem C07_source_defaults_and_raises :
  (extract_strict_default = true /\ reorder_strict_default = true /\ compare_ignore_missing_default = true
   /\ split_getnames_default = false)
  /\ Forall (fun c => c = "ValueError")
            (raises_combine_fields ++ raises_copy_fields ++ raises_extract_fields ++ raises_remove_fields
             ++ raises_add_fields ++ raises_reorder_fields ++ raises_copy_fields_by_name ++ raises_split_fields
             ++ raises_compare_arrays)%list.
Proof. exact (conj tie_defaults tie_raises). Qed.

(* The as-found combine_fields (output dimensioned by .size: the skeleton at UseSize) does NOT
   satisfy the statement: refuted by a 2-d witness (raises) and a 0-d witness (shape (1,)).  This
   is the defect repaired by fixes/C07/0001; C07_combine above is about the repaired code. *)
Theorem C07_asfound_combine_refuted :
  (combine_scope [w2d "a"; w2d "b"]
   /\ ~ combine_spec [w2d "a"; w2d "b"] (combine_fields_g CEq CEq CNe UseSize [w2d "a"; w2d "b"]))
  /\ (combine_scope [w0d "a"; w0d "b"]
      /\ ~ combine_spec [w0d "a"; w0d "b"] (combine_fields_g CEq CEq CNe UseSize [w0d "a"; w0d "b"])).
Proof. exact asfound_combine_refuted. Qed.

Definition ex_a : sarray :=
  mkA [2; 1]
      [mkF (mkD "x" (mkT LE KFloat 8) []) [unhex "000000000000f03f"; unhex "0000000000000040"];
       mkF (mkD "v" (mkT BE KInt 4) [2]) [unhex "0000000100000002"; unhex "0000000300000004"];
       mkF (mkD "s" (mkT NA KBytes 3) []) [unhex "610000"; unhex "626300"]].
Definition ex_b : sarray :=
  mkA [2; 1] [mkF (mkD "k" (mkT BE KInt 2) []) [unhex "0007"; unhex "0008"]].

Example C07_nonvacuous :
  wf ex_a /\ NoDup (names ex_a) /\ combine_scope [ex_a; ex_b]
  /\ ~ extract_rejects ex_a ["s"; "x"] true
  /\ option_map names (match extract_fields ex_a (NTuple ["s"; "x"]) true with Ok r => Some r | Err _ => None end)
     = Some ["x"; "s"]
  /\ option_map names (match remove_fields ex_a (NArray ["v"]) with Ok r => Some r | Err _ => None end)
     = Some ["x"; "s"]
  /\ option_map names (match reorder_fields ex_a (NList ["s"; "x"]) true with Ok r => Some r | Err _ => None end)
     = Some ["s"; "x"; "v"]
  /\ extract_fields ex_a (NScalar "zz") true = Err EValue
  /\ remove_fields ex_a (NList ["s"; "v"; "x"]) = Err EValue
  /\ add_fields ex_a [mkD "x" (mkT LE KInt 2) []] None = Err EValue
  /\ option_map (fun r => (shape r, names r))
       (match combine_fields [ex_a; ex_b] with Ok r => Some r | Err _ => None end)
     = Some ([2; 1], ["x"; "v"; "s"; "k"])
  /\ combine_fields [ex_a; mkA [3] [mkF (mkD "k" (mkT BE KInt 2) []) [unhex "0007"; unhex "0008"; unhex "0009"]]]
     = Err EValue
  /\ combine_fields [ex_a; ex_a] = Err EValue
  /\ compare_arrays ex_a ex_a false = Ok true
  /\ (exists r, add_fields ex_a [mkD "n" (mkT BE KInt 2) [2]] (Some (VSingle (DScalar (unhex "0102")))) = Ok r
               /\ map fdata (skipn 3 (fields r)) = [[unhex "01020102"; unhex "01020102"]]).
Proof.
  split; [apply wf_dec; vm_compute; reflexivity|].
  split; [apply nodup_b_NoDup; vm_compute; reflexivity|].
  split; [apply combine_scope_dec; vm_compute; reflexivity|].
  split.
  { apply (dec_false _ _ (extract_rejects_dec ex_a ["s"; "x"] true)). vm_compute. reflexivity. }
  repeat split; try (vm_compute; reflexivity).
  eexists. split; vm_compute; reflexivity.
Qed.

(* C07 — property theorems only.  Bodies live in Proofs.v / CmpProofs.v.

   Reading guide.  A [field] is (descr entry, column bytes): two equal fields have the same
   name, element type, byte order, sub-array shape and identical bytes in every element.
   Each *_spec is a total case split: the request is one the statement says must be rejected
   and the result is an error, or it is not and the result is Ok r with shape r = shape a and
   fields r = the documented field list (see Spec.v).  [given x] is the list of names the
   caller supplied as a str, list, tuple or ndarray.  Models describe the code after the three
   fix: commits of fixes/C07 (combine_fields shape; remove_fields / copy_fields_by_name
   accepting tuple and array names). *)
From EsVerif.Common Require Import Base Bytes.
From Coq.Strings Require Import Byte.
From Coq.Strings Require String.
From EsVerif.C07 Require Import Model Spec Basics Proofs CmpProofs Extra Skel Gen Tie Complete State Total Verbose Swap Py GenCode TieCode.

(* extract_fields: original order filtered by the given names; Err on a missing name in strict
   mode or when no field would be kept *)
Theorem C07_extract : forall a keep strict,
  NoDup (names a) -> extract_spec a (given keep) strict (extract_fields a keep strict).
Proof. exact extract_model. Qed.

(* remove_fields: original order minus the given names; Err when no field would be left *)
Theorem C07_remove : forall a rm,
  NoDup (names a) -> remove_spec a (given rm) (remove_fields a rm).
Proof. exact remove_model. Qed.

(* reorder_fields: the named fields first in the order given, then the others in original order;
   Err on a missing name in strict mode *)
Theorem C07_reorder : forall a ks strict,
  NoDup (names a) -> NoDup (given ks) -> reorder_spec a (given ks) strict (reorder_fields a ks strict).
Proof. exact reorder_model. Qed.

Theorem C07_reorder_name_order : forall a ks,
  map fname (reorder_fields_spec a ks)
  = filter (fun n => memb n (names a)) ks ++ filter (fun n => negb (memb n ks)) (names a).
Proof. exact reorder_names. Qed.

(* add_fields: old fields unchanged, new fields appended in the order of the added descriptor,
   zero-filled or set to the supplied defaults; Err when a new name already exists *)
Theorem C07_add : forall a add defaults,
  NoDup (names a) -> NoDup (map dname add) ->
  defaults_ok (nelem a) add (option_map given_vals defaults) ->
  add_spec a add (option_map given_vals defaults) (add_fields a add defaults).
Proof. exact add_model. Qed.

(* combine_fields: concatenated field lists, shape of the inputs (any number of dimensions);
   Err on an empty list, arrays of different length or a shared name *)
Theorem C07_combine : forall arrs, combine_scope arrs -> combine_spec arrs (combine_fields arrs).
Proof. exact combine_model. Qed.

(* the model's rejections are ValueError *)
Theorem C07_rejections_are_ValueError :
  (forall a keep strict e, NoDup (names a) -> extract_fields a keep strict = Err e -> e = EValue)
  /\ (forall a rm e, NoDup (names a) -> remove_fields a rm = Err e -> e = EValue)
  /\ (forall a ks strict e, NoDup (names a) -> NoDup (given ks) -> reorder_fields a ks strict = Err e -> e = EValue)
  /\ (forall a add defaults e, NoDup (names a) -> NoDup (map dname add) ->
        defaults_ok (nelem a) add (option_map given_vals defaults) -> add_fields a add defaults = Err e -> e = EValue)
  /\ (forall arrs e, combine_scope arrs -> combine_fields arrs = Err e -> e = EValue).
Proof. exact rejections_are_ValueError. Qed.

(* every retained field IS a field of the input: same type, sub-array shape, byte order, bytes *)
Theorem C07_retained_fields_identical :
  (forall a ks r, extract_ok a ks r -> shape r = shape a /\ forall f, In f (fields r) -> In f (fields a))
  /\ (forall a ks r, remove_ok a ks r -> shape r = shape a /\ forall f, In f (fields r) -> In f (fields a))
  /\ (forall a ks r, reorder_ok a ks r -> shape r = shape a
        /\ (forall f, In f (fields r) -> In f (fields a))
        /\ (NoDup (names a) -> forall f, In f (fields a) -> In f (fields r)))
  /\ (forall a add dv r, add_ok a add dv r -> shape r = shape a
        /\ (forall f, In f (fields a) -> In f (fields r))
        /\ map fdesc (fields r) = descr a ++ map fdesc (new_fields (nelem a) add dv))
  /\ (forall arrs r, combine_ok arrs r ->
        forall a f, In a arrs -> In f (fields a) -> In f (fields r)).
Proof. exact retained_fields_identical. Qed.

(* copy_fields(a1, a2) for arrays of the same shape whose common fields have the same type:
   a2 keeps shape and dtype, common fields receive a1's bytes, the others are untouched *)
Theorem C07_copy_fields : forall a1 a2,
  NoDup (names a1) -> compat a1 a2 -> shape a1 = shape a2 ->
  exists r, copy_fields a1 a2 = Ok r /\ copy_ok a1 a2 r.
Proof. exact copy_same_shape. Qed.

(* ... and more generally whenever numpy's assignment broadcasting accepts the two shapes *)
Theorem C07_copy_fields_broadcast : forall a1 a2,
  NoDup (names a1) -> compat a1 a2 -> nelem a1 = nelem a2 -> assign_ok (shape a1) (shape a2) = true ->
  exists r, copy_fields a1 a2 = Ok r /\ copy_ok a1 a2 r.
Proof. exact copy_broadcast. Qed.

Theorem C07_copy_fields_rejects : forall a1 a2, nelem a1 <> nelem a2 -> copy_fields a1 a2 = Err EValue.
Proof. exact copy_rejects. Qed.

(* copy_fields_by_name: each named field that exists holds its value, every other is untouched;
   lengths of names and values must agree *)
Theorem C07_copy_fields_by_name : forall a nms vals,
  cfbn_scope a (given nms) (given_vals vals) ->
  exists r, copy_fields_by_name a nms vals = Ok r /\ cfbn_ok a (given nms) (given_vals vals) r.
Proof. exact cfbn_spec_holds. Qed.

Theorem C07_copy_fields_by_name_rejects : forall a nms vals,
  length (given nms) <> length (given_vals vals) -> copy_fields_by_name a nms vals = Err EValue.
Proof. exact cfbn_rejects. Qed.

(* split_fields: one view per requested name, in the order requested (all fields in dtype
   order when none is given), each with the field's type, shape ++ subshape and bytes;
   Err on a missing name *)
Theorem C07_split : forall a flds, split_spec a (requested a flds) (split_fields a flds).
Proof. exact split_model. Qed.

Theorem C07_split_views_equal : forall a fl vs,
  split_ok a fl vs ->
  forall i n v, nth_error fl i = Some n -> nth_error vs i = Some v ->
    exists f, In f (fields a) /\ fname f = n /\ vtype v = dtype (fdesc f)
              /\ vshape v = shape a ++ dsub (fdesc f) /\ vdata v = fdata f.
Proof. exact split_view_equal. Qed.

(* compare_arrays answers True exactly when every common field has the same shape and
   element-wise equal values (numpy ==: NaN equals nothing, -0.0 = 0.0, byte order and NUL
   padding irrelevant) and, with ignore_missing=False, the name sets coincide *)
Theorem C07_compare_arrays : forall a1 a2 ignore_missing,
  NoDup (names a1) -> comparable a1 a2 ->
  exists b, compare_arrays a1 a2 ignore_missing = Ok b /\ (b = true <-> compare_true a1 a2 ignore_missing).
Proof. exact compare_model. Qed.

Theorem C07_compare_arrays_sound : forall a1 a2 ignore_missing,
  NoDup (names a1) -> comparable a1 a2 ->
  compare_arrays a1 a2 ignore_missing = Ok true -> compare_true a1 a2 ignore_missing.
Proof. exact compare_sound. Qed.

(* values are compared independently of the declared byte order *)
Theorem C07_value_independent_of_byte_order : forall k n item,
  (k = KInt \/ k = KUInt \/ k = KFloat) ->
  decode (mkT LE k n) (rev item) = decode (mkT BE k n) item.
Proof. exact decode_byte_order. Qed.

(* Checker soundness: what the correspondence run evaluates on the implementation's outputs,
   and the deciders of the scopes in which it is consulted. *)
Theorem C07_checkers_sound :
  (forall a ks strict out, extract_check a ks strict out = true -> extract_spec a ks strict out)
  /\ (forall a ks out, remove_check a ks out = true -> remove_spec a ks out)
  /\ (forall a ks strict out, reorder_check a ks strict out = true -> reorder_spec a ks strict out)
  /\ (forall a add dv out, add_check a add dv out = true -> add_spec a add dv out)
  /\ (forall arrs out, combine_check arrs out = true -> combine_spec arrs out)
  /\ (forall a1 a2 out, copy_check a1 a2 out = true -> exists r, out = Ok r /\ copy_ok a1 a2 r)
  /\ (forall a ns vs out, cfbn_scope_b a ns vs = true -> cfbn_check a ns vs out = true ->
        exists r, out = Ok r /\ cfbn_ok a ns vs r)
  /\ (forall a fl out, split_check a fl out = true -> split_spec a fl out)
  /\ (forall a1 a2 im out, NoDup (names a1) -> compare_check a1 a2 im out = true ->
        exists b, out = Ok b /\ (b = true <-> compare_true a1 a2 im)).
Proof. exact checkers_sound. Qed.

Theorem C07_scope_deciders_sound :
  (forall a, wf_b a = true -> wf a)
  /\ (forall arrs, combine_scope_b arrs = true -> combine_scope arrs)
  /\ (forall a1 a2, compat_b a1 a2 = true -> compat a1 a2)
  /\ (forall n add dv, defaults_ok_b n add dv = true -> defaults_ok n add dv)
  /\ (forall a ns vs, cfbn_scope_b a ns vs = true -> cfbn_scope a ns vs)
  /\ (forall a1 a2, comparable_b a1 a2 = true -> comparable a1 a2).
Proof. exact scope_deciders_sound. Qed.

(* the operations compose: a result of extract/remove/reorder is again a well-formed structured
   array (shape kept, distinct names, at least one field, every column of the right extent) *)
Theorem C07_results_well_formed :
  (forall a keep strict r, wf a -> extract_fields a keep strict = Ok r -> wf r)
  /\ (forall a rm r, wf a -> remove_fields a rm = Ok r -> wf r)
  /\ (forall a ks strict r, wf a -> NoDup (given ks) -> reorder_fields a ks strict = Ok r -> wf r).
Proof. exact (conj extract_wf (conj remove_wf reorder_wf)). Qed.

(* ===== proof-deepening round ===== *)

(* The checkers DECIDE the property: completeness, the converse of C07_checkers_sound.  A case is
   reported as a failing input exactly when the statement is violated on it. *)
Theorem C07_checkers_complete :
  (forall a ks strict out, extract_spec a ks strict out -> extract_check a ks strict out = true)
  /\ (forall a ks out, remove_spec a ks out -> remove_check a ks out = true)
  /\ (forall a ks strict out, reorder_spec a ks strict out -> reorder_check a ks strict out = true)
  /\ (forall a add dv out, add_spec a add dv out -> add_check a add dv out = true)
  /\ (forall arrs out, combine_spec arrs out -> combine_check arrs out = true)
  /\ (forall a1 a2 out, NoDup (names a2) -> (exists r, out = Ok r /\ copy_ok a1 a2 r) -> copy_check a1 a2 out = true)
  /\ (forall a ns vs out, NoDup (names a) -> length ns = length vs ->
        (exists r, out = Ok r /\ cfbn_ok a ns vs r) -> cfbn_check a ns vs out = true)
  /\ (forall a fl out, NoDup (names a) -> split_spec a fl out -> split_check a fl out = true)
  /\ (forall a1 a2 im out, NoDup (names a1) ->
        (exists b, out = Ok b /\ (b = true <-> compare_true a1 a2 im)) -> compare_check a1 a2 im out = true).
Proof. exact checkers_complete. Qed.

(* copy_ok / cfbn_ok determine the result: the frame-style specification has exactly one model *)
Theorem C07_inplace_results_unique :
  (forall a1 a2 r, NoDup (names a2) -> copy_ok a1 a2 r -> r = mkA (shape a2) (copy_expected a1 a2))
  /\ (forall a ns vs r, NoDup (names a) -> length ns = length vs -> cfbn_ok a ns vs r ->
        r = mkA (shape a) (cfbn_expected a ns vs)).
Proof. exact (conj copy_ok_unique cfbn_ok_unique). Qed.

(* FRAME.  The nine functions as calls on a store of array objects: a call writes at most its one
   documented output object (arr2 of copy_fields, arr of copy_fields_by_name); every other object
   — every input of the seven value-returning functions, arr1 of copy_fields — is unchanged, and
   no object appears or disappears. *)
Theorem C07_store_frame : forall s o,
  length (fst (step s o)) = length s
  /\ (forall j, written o <> Some j -> nth_error (fst (step s o)) j = nth_error s j)
  /\ (written o = None -> fst (step s o) = s).
Proof. intros s o. destruct (step_frame s o) as [H1 H2]. split; [exact H1|]. split; [exact H2|apply step_pure]. Qed.

(* what copy_fields stores into arr2 (shape and dtype kept, common fields = arr1's bytes, the other
   fields untouched), and that a refused call leaves arr2 as it was *)
Theorem C07_store_copy_frame : forall s i1 i2 a1 a2,
  nth_error s i1 = Some a1 -> nth_error s i2 = Some a2 -> NoDup (names a1) -> compat a1 a2 ->
  (nelem a1 = nelem a2 /\ assign_ok (shape a1) (shape a2) = true ->
     exists r, step s (OCopy i1 i2) = (set_nth s i2 r, Ok RNone) /\ copy_ok a1 a2 r
               /\ nth_error (fst (step s (OCopy i1 i2))) i2 = Some r)
  /\ (nelem a1 <> nelem a2 -> step s (OCopy i1 i2) = (s, Err EValue)).
Proof. exact step_copy_frame. Qed.

(* NO HISTORY.  The answer of a call and the new content of the object it writes depend only on
   the present contents of the call's own argument objects ... *)
Theorem C07_no_history : forall s t o,
  (forall i, In i (args o) -> nth_error s i = nth_error t i) ->
  snd (step s o) = snd (step t o)
  /\ forall j, written o = Some j -> nth_error (fst (step s o)) j = nth_error (fst (step t o)) j.
Proof. exact step_local. Qed.

(* ... so any number of earlier value-returning calls leaves the answer of a call what it is alone *)
Theorem C07_history_irrelevant : forall s pre o,
  Forall (fun p => written p = None) pre ->
  nth (length pre) (run s (pre ++ [o])) (Err EOther) = snd (step s o).
Proof. exact history_irrelevant. Qed.

(* copy_fields: the complete outcome table (so far only the accepted call and the size guard had
   a theorem; the other two rows were compared only) and the error class of every refusal *)
Theorem C07_copy_fields_outcome : forall a1 a2,
  NoDup (names a1) -> compat a1 a2 ->
  (nelem a1 <> nelem a2 -> copy_fields a1 a2 = Err EValue)
  /\ (nelem a1 = nelem a2 -> no_common a1 a2 -> copy_fields a1 a2 = Ok a2)
  /\ (nelem a1 = nelem a2 -> some_common a1 a2 -> assign_ok (shape a1) (shape a2) = false ->
        copy_fields a1 a2 = Err EValue)
  /\ (nelem a1 = nelem a2 -> assign_ok (shape a1) (shape a2) = true ->
        copy_fields a1 a2 = Ok (mkA (shape a2) (copy_expected a1 a2))).
Proof. exact copy_fields_outcome. Qed.

Theorem C07_copy_fields_error_class : forall a1 a2 e,
  NoDup (names a1) -> compat a1 a2 -> copy_fields a1 a2 = Err e -> e = EValue.
Proof. exact copy_fields_error_class. Qed.

(* error paths and input forms that were compared with the code but had no statement: a repeated
   name in the added descriptor, defaults of the wrong length (checked after the array is built),
   reorder_fields with a repeated existing name (np.zeros refuses the descr), split_fields on a
   field-less array *)
Theorem C07_more_rejections :
  (forall a add dv, ~ NoDup (map dname add) -> add_fields a add dv = Err EValue)
  /\ (forall a add dv, NoDup (names a) -> NoDup (map dname add) -> ~ add_rejects a add ->
        length (given_vals dv) <> length add -> add_fields a add (Some dv) = Err EValue)
  /\ (forall a ks strict, ~ NoDup (filter (fun n => memb n (names a)) (given ks)) ->
        reorder_fields a ks strict = Err EValue)
  /\ (forall v x, split_plain v None = Ok [v] /\ split_plain v (Some x) = Err EValue).
Proof.
  exact (conj add_rejects_dup_descr (conj add_rejects_defaults_length (conj reorder_rejects_repeated split_plain_spec))).
Qed.

(* a TUPLE of defaults / values is not a list: the code wraps it as ONE value, so for two or more
   new fields (names) the call is refused with ValueError — formerly listed as "outside the model",
   now a consequence: any non-list object is a VSingle *)
Theorem C07_tuple_values_rejected :
  (forall a add v, NoDup (names a) -> NoDup (map dname add) -> ~ add_rejects a add -> length add <> 1%nat ->
     add_fields a add (Some (VSingle v)) = Err EValue)
  /\ (forall a nms v, length (given nms) <> 1%nat -> copy_fields_by_name a nms (VSingle v) = Err EValue).
Proof.
  split.
  - intros a add v Hn Ha Hr Hl. apply add_rejects_defaults_length; try assumption. cbn. congruence.
  - intros a nms v Hl. apply cfbn_rejects. cbn. exact Hl.
Qed.

(* copy_fields between same-named fields that differ ONLY in byte order (numpy converts item by
   item): formerly outside the model.  copy_fields_sw extends Model.copy_fields conservatively;
   the destination keeps shape and dtype, receives the converted data, other fields untouched;
   and the conversion preserves every decoded VALUE of integer and float fields. *)
Theorem C07_copy_swapped_conservative : forall a1 a2,
  compat a1 a2 -> copy_fields_sw a1 a2 = copy_fields a1 a2.
Proof. exact copy_sw_conservative. Qed.

Theorem C07_copy_swapped : forall a1 a2,
  NoDup (names a1) -> NoDup (names a2) -> compat_sw a1 a2 -> nelem a1 = nelem a2 ->
  assign_ok (shape a1) (shape a2) = true ->
  exists r, copy_fields_sw a1 a2 = Ok r /\ copy_ok_sw a1 a2 r.
Proof. exact copy_sw_ok. Qed.

Theorem C07_copy_swapped_values : forall f g,
  same_type (fdesc f) (fdesc g) || swap_type (fdesc f) (fdesc g) = true ->
  (fkind (dtype (fdesc f)) = KInt \/ fkind (dtype (fdesc f)) = KUInt \/ fkind (dtype (fdesc f)) = KFloat) ->
  0 < fnum (dtype (fdesc f)) ->
  Forall (whole_items (fnum (dtype (fdesc f)))) (fdata f) ->
  field_values (mkF (fdesc g) (conv_data f g)) = field_values f.
Proof. exact conv_values. Qed.

Theorem C07_copy_swapped_checker_sound :
  (forall a1 a2 out, copy_check_sw a1 a2 out = true -> exists r, out = Ok r /\ copy_ok_sw a1 a2 r)
  /\ (forall a1 a2, compat_sw_b a1 a2 = true -> compat_sw a1 a2).
Proof. exact (conj copy_check_sw_sound compat_sw_dec). Qed.

(* ... and complete: with C07_copy_swapped_checker_sound the checker of the converting copy decides copy_ok_sw *)
Theorem C07_copy_swapped_checker_complete : forall a1 a2 out,
  NoDup (names a2) -> (exists r, out = Ok r /\ copy_ok_sw a1 a2 r) -> copy_check_sw a1 a2 out = true.
Proof. exact copy_check_sw_complete. Qed.

(* compare_arrays with verbose=True modelled including every stdout.write (the report as a list
   of events): the verdict does not depend on verbose and is Model.compare_arrays; verbose=False
   writes nothing; a report ends in "All tests passed" exactly when the answer is True, else in
   "<k> differences found" with k = the number of difference lines printed before it (k > 0) *)
Theorem C07_compare_verbose_verdict : forall a1 a2 verbose im,
  match compare_arrays_v a1 a2 verbose im with Ok x => Ok (fst x) | Err e => Err e end = compare_arrays a1 a2 im.
Proof. exact compare_v_verdict. Qed.

Theorem C07_compare_verbose_report : forall a1 a2 im,
  (forall x, compare_arrays_v a1 a2 false im = Ok x -> snd x = [])
  /\ (forall b log, compare_arrays_v a1 a2 true im = Ok (b, log) ->
        exists body, (b = true /\ log = body ++ [EPassed] /\ diffs_reported body = 0)
                  \/ (b = false /\ exists k, log = body ++ [EDiffs k] /\ k = diffs_reported body /\ 0 < k)).
Proof. intros a1 a2 im. split; [apply compare_v_silent|apply compare_v_report]. Qed.

(* Tie to the source.  Gen.v is regenerated on every run from esutil/numpy_util.py of the tree
   under check (harness/props/c07_translate.py, fail-closed): the class tuples of the isinstance
   dispatches, the operator of every guard, `in`/`not in` of the filter loops, the allocator and
   the attribute that dimensions the output, keyword defaults, exception classes.  The functions
   of Model.v, about which everything above is proved, ARE the skeletons of Skel.v at the
   regenerated values. *)
Theorem C07_source_parameters :
  (forall a k s, extract_fields_g extract_forms extract_keep_if_in extract_empty_guard extract_dims a k s
                 = extract_fields a k s)
  /\ (forall a k, remove_fields_g remove_forms remove_keep_if_in remove_empty_guard remove_dims a k
                  = remove_fields a k)
  /\ (forall a k s, reorder_fields_g reorder_forms reorder_dims a k s = reorder_fields a k s)
  /\ (forall a add dv, add_fields_g add_defaults_forms add_defaults_guard add_dims a add dv = add_fields a add dv)
  /\ (forall arrs, combine_fields_g combine_none_guard combine_one_guard combine_size_guard combine_dims arrs
                   = combine_fields arrs)
  /\ (forall a1 a2, copy_fields_g copy_size_guard a1 a2 = copy_fields a1 a2)
  /\ (forall a n v, copy_fields_by_name_g cfbn_names_forms cfbn_vals_forms cfbn_len_guard a n v
                    = copy_fields_by_name a n v)
  /\ (forall a flds, split_names_g split_forms a flds = Some (split_names a flds)).
Proof. exact source_parameters. Qed.

(* Statement-level tie.  GenCode.v is the statement-by-statement translation of the CURRENT source
   of copy_fields, copy_fields_by_name, extract_fields, remove_fields and combine_fields (python ast -> Gallina over
   the combinators of Py.v, regenerated on every run, fail-closed): the functions of Model.v about
   which everything above is proved ARE these translations. *)
Theorem C07_code_is_model :
  (forall a1 a2, NoDup (names a1) -> gen_copy_fields a1 a2 = copy_fields a1 a2)
  /\ (forall a nms vals, gen_copy_fields_by_name a nms vals = copy_fields_by_name a nms vals)
  /\ (forall a k s, NoDup (names a) -> gen_extract_fields a k s = extract_fields a k s)
  /\ (forall a k, NoDup (names a) -> gen_remove_fields a k = remove_fields a k)
  /\ (forall arrs, (forall a, In a arrs -> NoDup (names a)) -> gen_combine_fields arrs = combine_fields arrs).
Proof. exact code_is_model. Qed.

(* every output array is created by np.zeros (new fields start zero-filled) with the input's shape *)
Theorem C07_source_allocation :
  (extract_alloc, remove_alloc, add_alloc, reorder_alloc, combine_alloc) = (AZeros, AZeros, AZeros, AZeros, AZeros)
  /\ (extract_dims, remove_dims, add_dims, reorder_dims, combine_dims) = (UseShape, UseShape, UseShape, UseShape, UseShape).
Proof. exact tie_allocation. Qed.

(* Non-vacuity: a 2-d array with a float, a big-endian sub-array and a bytes field meets the
   hypotheses, and the operations compute the documented results on it. *)
Import String.StringSyntax.
Local Open Scope string_scope.

(* strict mode is the default; every raise statement of the nine functions raises ValueError *)
Theorem C07_source_defaults_and_raises :
  (extract_strict_default = true /\ reorder_strict_default = true /\ compare_ignore_missing_default = true
   /\ split_getnames_default = false)
  /\ Forall (fun c => c = "ValueError")
            (raises_combine_fields ++ raises_copy_fields ++ raises_extract_fields ++ raises_remove_fields
             ++ raises_add_fields ++ raises_reorder_fields ++ raises_copy_fields_by_name ++ raises_split_fields
             ++ raises_compare_arrays)%list.
Proof. exact (conj tie_defaults tie_raises). Qed.

(* The as-found combine_fields (output dimensioned by .size: the skeleton at UseSize) does NOT
   satisfy the statement: refuted by a 2-d witness (raises) and a 0-d witness (shape (1,)).  This
   is the defect repaired by fixes/C07/0001; C07_combine above is about the repaired code. *)
Theorem C07_asfound_combine_refuted :
  (combine_scope [w2d "a"; w2d "b"]
   /\ ~ combine_spec [w2d "a"; w2d "b"] (combine_fields_g CEq CEq CNe UseSize [w2d "a"; w2d "b"]))
  /\ (combine_scope [w0d "a"; w0d "b"]
      /\ ~ combine_spec [w0d "a"; w0d "b"] (combine_fields_g CEq CEq CNe UseSize [w0d "a"; w0d "b"])).
Proof. exact asfound_combine_refuted. Qed.

Definition ex_a : sarray :=
  mkA [2; 1]
      [mkF (mkD "x" (mkT LE KFloat 8) []) [unhex "000000000000f03f"; unhex "0000000000000040"];
       mkF (mkD "v" (mkT BE KInt 4) [2]) [unhex "0000000100000002"; unhex "0000000300000004"];
       mkF (mkD "s" (mkT NA KBytes 3) []) [unhex "610000"; unhex "626300"]].
Definition ex_b : sarray :=
  mkA [2; 1] [mkF (mkD "k" (mkT BE KInt 2) []) [unhex "0007"; unhex "0008"]].

Example C07_nonvacuous :
  wf ex_a /\ NoDup (names ex_a) /\ combine_scope [ex_a; ex_b]
  /\ ~ extract_rejects ex_a ["s"; "x"] true
  /\ option_map names (match extract_fields ex_a (NTuple ["s"; "x"]) true with Ok r => Some r | Err _ => None end)
     = Some ["x"; "s"]
  /\ option_map names (match remove_fields ex_a (NArray ["v"]) with Ok r => Some r | Err _ => None end)
     = Some ["x"; "s"]
  /\ option_map names (match reorder_fields ex_a (NList ["s"; "x"]) true with Ok r => Some r | Err _ => None end)
     = Some ["s"; "x"; "v"]
  /\ extract_fields ex_a (NScalar "zz") true = Err EValue
  /\ remove_fields ex_a (NList ["s"; "v"; "x"]) = Err EValue
  /\ add_fields ex_a [mkD "x" (mkT LE KInt 2) []] None = Err EValue
  /\ option_map (fun r => (shape r, names r))
       (match combine_fields [ex_a; ex_b] with Ok r => Some r | Err _ => None end)
     = Some ([2; 1], ["x"; "v"; "s"; "k"])
  /\ combine_fields [ex_a; mkA [3] [mkF (mkD "k" (mkT BE KInt 2) []) [unhex "0007"; unhex "0008"; unhex "0009"]]]
     = Err EValue
  /\ combine_fields [ex_a; ex_a] = Err EValue
  /\ compare_arrays ex_a ex_a false = Ok true
  /\ (exists r, add_fields ex_a [mkD "n" (mkT BE KInt 2) [2]] (Some (VSingle (DScalar (unhex "0102")))) = Ok r
               /\ map fdata (skipn 3 (fields r)) = [[unhex "01020102"; unhex "01020102"]]).
Proof.
  split; [apply wf_dec; vm_compute; reflexivity|].
  split; [apply nodup_b_NoDup; vm_compute; reflexivity|].
  split; [apply combine_scope_dec; vm_compute; reflexivity|].
  split.
  { apply (dec_false _ _ (extract_rejects_dec ex_a ["s"; "x"] true)). vm_compute. reflexivity. }
  repeat split; try (vm_compute; reflexivity).
  eexists. split; vm_compute; reflexivity.
Qed.

(* Non-vacuity of the proof-deepening theorems: a session on a store of three objects *)
Definition ex_c : sarray :=
  mkA [2; 1] [mkF (mkD "s" (mkT NA KBytes 3) []) [unhex "000000"; unhex "000000"];
              mkF (mkD "w" (mkT LE KInt 2) []) [unhex "0100"; unhex "0200"];
              mkF (mkD "x" (mkT LE KFloat 8) []) [unhex "0000000000000000"; unhex "0000000000000000"]].

Example C07_deepening_nonvacuous :
  (* a session: extract from object 0, copy object 0 into object 2, compare them *)
  (exists r, run [ex_a; ex_b; ex_c] [OExtract 0 (NScalar "v") true; OCopy 0 2; OCompare 0 2 true; OCompare 0 2 false]
             = [Ok (RNew r); Ok RNone; Ok (RBool true); Ok (RBool false)])
  /\ nth_error (final [ex_a; ex_b; ex_c] [OCopy 0 2]) 0 = Some ex_a
  /\ option_map (fun a => map fdata (fields a)) (nth_error (final [ex_a; ex_b; ex_c] [OCopy 0 2]) 2)
     = Some [[unhex "610000"; unhex "626300"]; [unhex "0100"; unhex "0200"];
             [unhex "000000000000f03f"; unhex "0000000000000040"]]
  /\ NoDup (names ex_a) /\ compat ex_a ex_c /\ some_common ex_a ex_c /\ no_common ex_a ex_b
  /\ copy_fields ex_a ex_b = Ok ex_b
  /\ copy_check ex_a ex_c (copy_fields ex_a ex_c) = true
  /\ compare_arrays_v ex_a ex_c true false
     = Ok (false, [ENames; EOnly1 "v"; EOnly2 "w"; EField "x"; EShapeOK; EElemDiff 2 "x";
                   EField "s"; EShapeOK; EElemDiff 2 "s"; EDiffs 4])
  /\ compare_arrays_v ex_a ex_a true true
     = Ok (true, [ENoNameCheck; EField "x"; EShapeOK; EElemOK; EField "v"; EShapeOK; EElemOK;
                  EField "s"; EShapeOK; EElemOK; EPassed]).
Proof.
  split; [eexists; vm_compute; reflexivity|].
  split; [vm_compute; reflexivity|]. split; [vm_compute; reflexivity|].
  split; [apply nodup_b_NoDup; vm_compute; reflexivity|].
  split; [apply compat_dec; vm_compute; reflexivity|].
  split; [apply some_common_dec; vm_compute; reflexivity|].
  split.
  { intros f Hf Hin. assert (X : some_common_b ex_a ex_b = true) by (apply some_common_dec; exists f; auto).
    vm_compute in X. discriminate. }
  repeat split; vm_compute; reflexivity.
Qed.

Example C07_more_rejections_nonvacuous :
  ~ NoDup (filter (fun n => memb n (names ex_a)) (given (NTuple ["x"; "zz"; "x"])))
  /\ reorder_fields ex_a (NTuple ["x"; "zz"; "x"]) false = Err EValue
  /\ ~ add_rejects ex_a [mkD "n" (mkT BE KInt 2) []; mkD "m" (mkT LE KInt 2) []]
  /\ add_fields ex_a [mkD "n" (mkT BE KInt 2) []; mkD "m" (mkT LE KInt 2) []]
        (Some (VList [DScalar (unhex "0102")])) = Err EValue
  /\ add_fields ex_a [mkD "n" (mkT BE KInt 2) []; mkD "n" (mkT LE KInt 4) []] None = Err EValue.
Proof.
  split; [apply nodup_b_false; vm_compute; reflexivity|].
  split; [vm_compute; reflexivity|].
  split; [apply (dec_false _ _ (add_rejects_dec _ _)); vm_compute; reflexivity|].
  split; vm_compute; reflexivity.
Qed.

(* '<i2' copied into '>i2', '>i4' sub-array into '<i4': converted bytes, equal values *)
Definition ex_le : sarray :=
  mkA [2] [mkF (mkD "k" (mkT LE KInt 2) []) [unhex "0700"; unhex "f8ff"];
           mkF (mkD "v" (mkT BE KInt 4) [2]) [unhex "0000000100000002"; unhex "fffffffd00000004"]].
Definition ex_be : sarray :=
  mkA [2] [mkF (mkD "v" (mkT LE KInt 4) [2]) [unhex "0000000000000000"; unhex "0000000000000000"];
           mkF (mkD "k" (mkT BE KInt 2) []) [unhex "0000"; unhex "0000"]].

Example C07_copy_swapped_nonvacuous :
  NoDup (names ex_le) /\ NoDup (names ex_be) /\ compat_sw ex_le ex_be /\ ~ compat ex_le ex_be
  /\ copy_fields ex_le ex_be = Err EOther
  /\ option_map (fun r => map fdata (fields r)) (match copy_fields_sw ex_le ex_be with Ok r => Some r | Err _ => None end)
     = Some [[unhex "0100000002000000"; unhex "fdffffff04000000"]; [unhex "0007"; unhex "fff8"]]
  /\ (forall f, In f (fields ex_le) -> Forall (whole_items (fnum (dtype (fdesc f)))) (fdata f))
  /\ field_values (mkF (mkD "k" (mkT BE KInt 2) []) [unhex "0007"; unhex "fff8"]) = [VInt 7; VInt (-8)].
Proof.
  split; [apply nodup_b_NoDup; vm_compute; reflexivity|].
  split; [apply nodup_b_NoDup; vm_compute; reflexivity|].
  split; [apply compat_sw_dec; vm_compute; reflexivity|].
  split.
  { intro H. assert (X : same_type (mkD "k" (mkT LE KInt 2) []) (mkD "k" (mkT BE KInt 2) []) = true).
    { apply (H (mkF (mkD "k" (mkT LE KInt 2) []) [unhex "0700"; unhex "f8ff"])
               (mkF (mkD "k" (mkT BE KInt 2) []) [unhex "0000"; unhex "0000"])); cbn; auto. }
    vm_compute in X. discriminate. }
  split; [vm_compute; reflexivity|]. split; [vm_compute; reflexivity|].
  split.
  { intros f [<-|[<-|[]]]; cbn [fdata fdesc dtype fnum]; repeat constructor.
    - exists 1%nat. reflexivity. - exists 1%nat. reflexivity.
    - exists 2%nat. reflexivity. - exists 2%nat. reflexivity. }
  vm_compute. reflexivity.
Qed.

(* the translated code computes on concrete arrays (and agrees with the model there) *)
Example C07_code_is_model_nonvacuous :
  (forall a, In a [ex_a; ex_b] -> NoDup (names a))
  /\ option_map names (match gen_combine_fields [ex_a; ex_b] with Ok r => Some r | Err _ => None end)
     = Some ["x"; "v"; "s"; "k"]
  /\ option_map names (match gen_extract_fields ex_a (NTuple ["s"; "x"]) true with Ok r => Some r | Err _ => None end)
     = Some ["x"; "s"]
  /\ gen_remove_fields ex_a (NList ["s"; "v"; "x"]) = Err EValue
  /\ gen_copy_fields ex_a ex_c = copy_fields ex_a ex_c.
Proof.
  split.
  { intros a [<-|[<-|[]]]; apply nodup_b_NoDup; vm_compute; reflexivity. }
  repeat split; vm_compute; reflexivity.
Qed.

(* C07 — the functions of Model.v ARE the statement-by-statement translations of the source
   (GenCode.v, regenerated on every run): re-checked against the regenerated text on every run. *)
From EsVerif.Common Require Import Base Bytes.
From Coq.Strings Require Import Byte.
From Coq.Strings Require String.
From EsVerif.C07 Require Import Model Spec Basics Skel Gen Tie Py GenCode.
From Coq Require Import ZifyBool ZifyNat.

Lemma bind_ok_id {A} (x : result A) : (do a <- x; Ok a) = x.
Proof. destruct x; reflexivity. Qed.

Lemma assign_field_names a s f a' : assign_field a s f = Ok a' -> names a' = names a.
Proof.
  unfold assign_field. destruct (find_field (fname f) (fields a)); [|discriminate].
  destruct (negb (same_type _ _)); [discriminate|]. destruct (assign_ok s (shape a)); [|discriminate].
  intro H. injection H as <-. unfold names. cbn [fields]. apply put_field_names.
Qed.

(* ---- copy_fields *)
Lemma gen_copy_loop a1 : forall fs a2 N,
  (forall f, In f fs -> find_field (fname f) (fields a1) = Some f) -> names a2 = N ->
  py_for (map fname fs) a2
    (fun v_name v_arr2 => if py_in v_name N then (do v_arr2 <- py_copyfield v_arr2 a1 v_name; Ok v_arr2) else (Ok v_arr2))
  = copy_loop (shape a1) fs a2.
Proof.
  induction fs as [|f t IH]; intros a2 N Hf HN; [reflexivity|]. subst N. cbn [map py_for copy_loop].
  unfold py_in at 1. destruct (memb (fname f) (names a2)).
  - rewrite bind_ok_id. unfold py_copyfield at 1. rewrite (Hf f (or_introl eq_refl)).
    destruct (assign_field a2 (shape a1) f) as [a'|e] eqn:E; [|reflexivity]. cbn [bind].
    apply IH; [intros g Hg; apply Hf; now right|]. now apply (assign_field_names a2 (shape a1) f).
  - cbn [bind]. apply IH; [intros g Hg; apply Hf; now right|reflexivity].
Qed.

Lemma tie_code_copy a1 a2 : NoDup (names a1) -> gen_copy_fields a1 a2 = copy_fields a1 a2.
Proof.
  intro Hn. unfold gen_copy_fields, copy_fields, py_cmp, py_size, cmp_eval.
  destruct (nelem a1 =? nelem a2); [|reflexivity]. cbn [negb]. rewrite bind_ok_id.
  unfold py_names at 1. unfold names at 1. apply gen_copy_loop; [|reflexivity].
  intros f Hf. now apply find_field_NoDup.
Qed.

(* ---- copy_fields_by_name *)
Lemma gen_cfbn_loop : forall nv a N,
  names a = N ->
  py_for nv a (fun '(v_name, v_val) v_arr => if py_in v_name N then (do v_arr <- py_setval v_arr v_name v_val; Ok v_arr) else (Ok v_arr))
  = cfbn_loop a nv.
Proof.
  induction nv as [|[n v] t IH]; intros a N HN; [reflexivity|]. subst N. cbn [py_for cfbn_loop].
  unfold py_in at 1. destruct (memb n (names a)) eqn:M.
  - apply memb_In in M. destruct (find_field_In_names _ _ M) as [g Hg]. rewrite bind_ok_id.
    unfold py_setval at 1. rewrite Hg. destruct (fill_data (nelem a) (fdesc g) v) as [data|e]; [|reflexivity].
    cbn [bind]. apply IH. unfold names. cbn [fields]. apply put_field_names.
  - apply memb_false in M. apply find_field_None in M. rewrite M. cbn [bind]. now apply IH.
Qed.

Lemma tie_code_cfbn a nms vals : gen_copy_fields_by_name a nms vals = copy_fields_by_name a nms vals.
Proof.
  unfold gen_copy_fields_by_name, copy_fields_by_name.
  assert (W : wrap_by (mkForms true true true false) nms = Some (seq_or_wrap nms)) by (destruct nms; reflexivity).
  assert (V : vwrap_by (mkForms false true true false) vals = Some (unwrap_vals vals)) by (destruct vals; reflexivity).
  rewrite W, V. unfold py_cmp, py_len, cmp_eval. rewrite len_eqb_length.
  destruct (length (seq_or_wrap nms) =? length (unwrap_vals vals))%nat; [|reflexivity]. cbn [negb].
  rewrite bind_ok_id. unfold py_zip. now apply gen_cfbn_loop.
Qed.

(* ---- the two loops of extract_fields / remove_fields *)
Lemma gen_strict_loop N : forall keep,
  py_for keep tt (fun v_name _ => if negb (py_in v_name N) then Err EValue else (Ok tt))
  = if forallb (fun n => memb n N) keep then Ok tt else Err EValue.
Proof.
  induction keep as [|n t IH]; [reflexivity|]. cbn [py_for forallb]. unfold py_in at 1.
  destruct (memb n N); cbn [negb andb bind]; [exact IH|reflexivity].
Qed.

Lemma gen_filter_loop (P : dentry -> bool) : forall l acc,
  py_for l acc (fun v_d v_new_descr => let v_name := py_item0 v_d in
     if P v_d then (let v_new_descr := v_new_descr ++ [v_d] in Ok v_new_descr) else (Ok v_new_descr))
  = Ok (acc ++ filter P l).
Proof.
  induction l as [|d t IH]; intro acc; cbn [py_for filter]; [now rewrite app_nil_r|].
  destruct (P d); cbn [bind]; rewrite IH; [now rewrite <- app_assoc|reflexivity].
Qed.

Lemma tie_code_extract a k s : NoDup (names a) -> gen_extract_fields a k s = extract_fields a k s.
Proof.
  intro Hn. unfold gen_extract_fields, extract_fields.
  assert (W : wrap_by (mkForms true true true false) k = Some (seq_or_wrap k)) by (destruct k; reflexivity).
  rewrite W. unfold py_names. rewrite gen_strict_loop.
  rewrite (gen_filter_loop (fun d => py_in (py_item0 d) (seq_or_wrap k))). cbn [app bind].
  unfold py_cmp, py_len, cmp_eval, py_shape, py_descr, py_in, py_item0. rewrite len_zero_b.
  destruct s; cbn [andb].
  - destruct (forallb (fun n => memb n (names a)) (seq_or_wrap k)); cbn [negb bind]; [|reflexivity].
    destruct (filter _ (descr a)) as [|d l]; [reflexivity|].
    destruct (np_zeros (shape a) (d :: l)) as [z|e]; [|reflexivity]. cbn [bind].
    rewrite bind_ok_id. now apply tie_code_copy.
  - cbn [bind]. destruct (filter _ (descr a)) as [|d l]; [reflexivity|].
    destruct (np_zeros (shape a) (d :: l)) as [z|e]; [|reflexivity]. cbn [bind].
    rewrite bind_ok_id. now apply tie_code_copy.
Qed.

Lemma tie_code_remove a k : NoDup (names a) -> gen_remove_fields a k = remove_fields a k.
Proof.
  intro Hn. unfold gen_remove_fields, remove_fields.
  assert (W : wrap_by (mkForms true true true false) k = Some (seq_or_wrap k)) by (destruct k; reflexivity).
  rewrite W. rewrite (gen_filter_loop (fun d => negb (py_in (py_item0 d) (seq_or_wrap k)))). cbn [app bind].
  unfold py_cmp, py_len, cmp_eval, py_shape, py_descr, py_in, py_item0. rewrite len_zero_b.
  destruct (filter _ (descr a)) as [|d l]; [reflexivity|].
  destruct (np_zeros (shape a) (d :: l)) as [z|e]; [|reflexivity]. cbn [bind].
  rewrite bind_ok_id. now apply tie_code_copy.
Qed.

(* ---- combine_fields *)
Lemma gen_descr_loop num : forall l acc,
  py_for l acc (fun v_arr v_descr => if py_cmp CNe (py_size v_arr) num then Err EValue
                                     else (let v_descr := v_descr ++ py_descr v_arr in Ok v_descr))
  = do r <- combine_descr num l; Ok (acc ++ r).
Proof.
  induction l as [|a t IH]; intro acc; cbn [py_for combine_descr bind]; [now rewrite app_nil_r|].
  unfold py_cmp, py_size, cmp_eval. destruct (nelem a =? num); cbn [negb bind]; [|reflexivity].
  rewrite IH. unfold py_descr. destruct (combine_descr num t); cbn [bind]; [now rewrite app_assoc|reflexivity].
Qed.

Lemma gen_copy_all : forall l z,
  (forall a, In a l -> NoDup (names a)) ->
  py_for l z (fun v_arr v_new_array => do v_new_array <- gen_copy_fields v_arr v_new_array; Ok v_new_array)
  = combine_copy l z.
Proof.
  induction l as [|a t IH]; intros z H; [reflexivity|]. cbn [py_for combine_copy].
  rewrite bind_ok_id, (tie_code_copy a z (H a (or_introl eq_refl))).
  destruct (copy_fields a z); cbn [bind]; [|reflexivity]. apply IH. intros b Hb. apply H. now right.
Qed.

Lemma tie_code_combine arrs :
  (forall a, In a arrs -> NoDup (names a)) -> gen_combine_fields arrs = combine_fields arrs.
Proof.
  intro H. destruct arrs as [|a0 [|a1 t]]; [reflexivity|reflexivity|].
  unfold gen_combine_fields, combine_fields.
  assert (L0 : py_cmp CEq (py_len (a0 :: a1 :: t)) 0 = false) by (unfold py_cmp, py_len, cmp_eval, len; cbn [length]; lia).
  assert (L1 : py_cmp CEq (py_len (a0 :: a1 :: t)) 1 = false) by (unfold py_cmp, py_len, cmp_eval, len; cbn [length]; lia).
  rewrite L0, L1. unfold py_first, py_size, py_shape. cbn [hd].
  rewrite gen_descr_loop. cbn [app].
  destruct (combine_descr (nelem a0) (a0 :: a1 :: t)) as [ds|e]; [|reflexivity]. cbn [bind].
  destruct (np_zeros (shape a0) ds) as [z|e]; [|reflexivity]. cbn [bind].
  rewrite bind_ok_id. now apply gen_copy_all.
Qed.

Lemma code_is_model :
  (forall a1 a2, NoDup (names a1) -> gen_copy_fields a1 a2 = copy_fields a1 a2)
  /\ (forall a nms vals, gen_copy_fields_by_name a nms vals = copy_fields_by_name a nms vals)
  /\ (forall a k s, NoDup (names a) -> gen_extract_fields a k s = extract_fields a k s)
  /\ (forall a k, NoDup (names a) -> gen_remove_fields a k = remove_fields a k)
  /\ (forall arrs, (forall a, In a arrs -> NoDup (names a)) -> gen_combine_fields arrs = combine_fields arrs).
Proof. exact (conj tie_code_copy (conj tie_code_cfbn (conj tie_code_extract (conj tie_code_remove tie_code_combine)))). Qed.

(* C07 — copy_fields between fields of the same name whose element types differ ONLY in byte
   order ('<f8' into '>f8'): numpy converts item by item, i.e. reverses the bytes of every item
   (of each half of a complex item, of each code point of a unicode item).  This path was outside
   the model (Err EOther); copy_fields_sw extends Model.copy_fields by it, conservatively. *)
From EsVerif.Common Require Import Base Bytes.
From Coq.Strings Require Import Byte.
From Coq.Strings Require String.
From EsVerif.C07 Require Import Model Spec Basics Proofs CmpProofs.
From Coq Require Import ZifyBool ZifyNat.

(* same kind, width and sub-array shape; orders '<' and '>' in some order *)
Definition swap_type (d1 d2 : dentry) : bool :=
  kind_eqb (fkind (dtype d1)) (fkind (dtype d2)) && (fnum (dtype d1) =? fnum (dtype d2))
  && zlist_eqb (dsub d1) (dsub d2)
  && match ford (dtype d1), ford (dtype d2) with LE, BE | BE, LE => true | _, _ => false end.
Definition swap_unit (t : ftype) : Z :=
  match fkind t with KComplex => fnum t / 2 | KUnicode => 4 | _ => fnum t end.
Definition swap_cell (t : ftype) (cell : list byte) : list byte :=
  concat (map (@rev byte) (chunks (swap_unit t) cell)).

(* what field g of the destination receives from field f of the source *)
Definition conv_data (f g : field) : list (list byte) :=
  if same_type (fdesc f) (fdesc g) then fdata f else map (swap_cell (dtype (fdesc f))) (fdata f).

Definition assign_field_sw (a2 : sarray) (src_shape : list Z) (f : field) : result sarray :=
  match find_field (fname f) (fields a2) with
  | None => Err EValue
  | Some g =>
    if same_type (fdesc f) (fdesc g) || swap_type (fdesc f) (fdesc g)
    then if assign_ok src_shape (shape a2)
         then Ok (mkA (shape a2) (put_field (fname f) (conv_data f g) (fields a2)))
         else Err EValue
    else Err EOther                   (* any other pair of types: numpy casts, not modelled *)
  end.
Fixpoint copy_loop_sw (src_shape : list Z) (fs1 : list field) (a2 : sarray) : result sarray :=
  match fs1 with
  | [] => Ok a2
  | f :: t =>
    if memb (fname f) (names a2)
    then do a2' <- assign_field_sw a2 src_shape f; copy_loop_sw src_shape t a2'
    else copy_loop_sw src_shape t a2
  end.
Definition copy_fields_sw (a1 a2 : sarray) : result sarray :=
  if nelem a1 =? nelem a2 then copy_loop_sw (shape a1) (fields a1) a2 else Err EValue.

(* scope: common fields have the same type up to byte order *)
Definition compat_sw (a1 a2 : sarray) : Prop :=
  forall f g, In f (fields a1) -> In g (fields a2) -> fname f = fname g ->
    same_type (fdesc f) (fdesc g) || swap_type (fdesc f) (fdesc g) = true.
Definition compat_sw_b (a1 a2 : sarray) : bool :=
  forallb (fun f => forallb (fun g => negb (String.eqb (fname f) (fname g))
                                      || same_type (fdesc f) (fdesc g) || swap_type (fdesc f) (fdesc g)) (fields a2)) (fields a1).

Definition upd_sw (fs1 : list field) (g : field) : field :=
  match find_field (fname g) fs1 with Some f => set_data g (conv_data f g) | None => g end.
Definition copy_expected_sw (a1 a2 : sarray) : list field := map (upd_sw (fields a1)) (fields a2).

(* ------------------------------------------------------------------ lemmas *)
(* 1. conservative: on the old scope the extension IS Model.copy_fields *)
Lemma copy_loop_sw_eq s : forall fs1 a2,
  (forall f d, In f fs1 -> In d (descr a2) -> fname f = dname d -> same_type (fdesc f) d = true) ->
  copy_loop_sw s fs1 a2 = copy_loop s fs1 a2.
Proof.
  induction fs1 as [|f t IH]; intros a2 Hc; [reflexivity|]. cbn [copy_loop_sw copy_loop].
  destruct (memb (fname f) (names a2)) eqn:M.
  - apply memb_In in M. destruct (find_field_In_names _ _ M) as [g Hg].
    destruct (find_field_Some _ _ _ Hg) as [Hgi Hgn].
    assert (ST : same_type (fdesc f) (fdesc g) = true).
    { apply Hc; [now left|unfold descr; now apply in_map|symmetry; exact Hgn]. }
    unfold assign_field_sw, assign_field, conv_data. rewrite Hg, ST. cbn [orb negb].
    destruct (assign_ok s (shape a2)); [|reflexivity]. cbn [bind]. apply IH.
    intros f' d Hf' Hd En. apply Hc; [now right| |assumption].
    unfold descr in *. cbn [fields] in Hd. now rewrite put_field_descr in Hd.
  - apply IH. intros f' d Hf' Hd En. apply Hc; [now right|assumption|assumption].
Qed.

Lemma copy_sw_conservative a1 a2 : compat a1 a2 -> copy_fields_sw a1 a2 = copy_fields a1 a2.
Proof.
  intro Hc. unfold copy_fields_sw, copy_fields. destruct (nelem a1 =? nelem a2); [|reflexivity].
  apply copy_loop_sw_eq. now apply compat_descr.
Qed.

(* 2. the accepted call on the wider scope *)
Lemma upd_sw_cons f t g0 :
  upd_sw (f :: t) g0 = if String.eqb (fname f) (fname g0) then set_data g0 (conv_data f g0) else upd_sw t g0.
Proof. unfold upd_sw. simpl. destruct (String.eqb (fname f) (fname g0)); reflexivity. Qed.

Lemma conv_data_desc f g g' : fdesc g = fdesc g' -> conv_data f g = conv_data f g'.
Proof. unfold conv_data. now intros ->. Qed.

Lemma upd_sw_set_data t g0 data :
  ~ In (fname g0) (map fname t) -> upd_sw t (set_data g0 data) = set_data g0 data.
Proof.
  intro H. unfold upd_sw. change (fname (set_data g0 data)) with (fname g0).
  assert (N : find_field (fname g0) t = None) by (now apply find_field_None). now rewrite N.
Qed.

Lemma upd_sw_desc_only t g g' : fname g = fname g' -> fdesc g = fdesc g' -> fdata g = fdata g' -> upd_sw t g = upd_sw t g'.
Proof. intros. destruct g, g'. cbn in *. now subst. Qed.

Lemma copy_loop_sw_char : forall s fs1 a2,
  NoDup (map fname fs1) -> NoDup (names a2) ->
  (forall f g, In f fs1 -> In g (fields a2) -> fname f = fname g ->
     same_type (fdesc f) (fdesc g) || swap_type (fdesc f) (fdesc g) = true) ->
  assign_ok s (shape a2) = true ->
  copy_loop_sw s fs1 a2 = Ok (mkA (shape a2) (map (upd_sw fs1) (fields a2))).
Proof.
  intros s fs1. induction fs1 as [|f t IH]; intros a2 Hnd Hn2 Hc Hs.
  - cbn [copy_loop_sw]. rewrite (map_ext _ (fun g => g)), map_id, sarray_eta; [reflexivity|]. intro g. reflexivity.
  - inversion Hnd as [|x l Hx Hd]; subst. cbn [copy_loop_sw].
    destruct (memb (fname f) (names a2)) eqn:M.
    + apply memb_In in M. destruct (find_field_In_names _ _ M) as [g Hg].
      unfold assign_field_sw. rewrite Hg.
      destruct (find_field_Some _ _ _ Hg) as [Hgi Hgn].
      rewrite (Hc f g (or_introl eq_refl) Hgi (eq_sym Hgn)), Hs. cbn [bind].
      rewrite IH; cbn [shape fields]; [| assumption | | | assumption].
      * f_equal. f_equal. unfold put_field. rewrite map_map. apply map_ext_in. intros g0 Hg0.
        rewrite upd_sw_cons, (String.eqb_sym (fname f) (fname g0)).
        destruct (String.eqb (fname g0) (fname f)) eqn:E; [|reflexivity].
        apply String.eqb_eq in E.
        assert (G : g0 = g) by (apply (field_unique (fields a2)); [exact Hn2|assumption|assumption|congruence]).
        subst g0. rewrite upd_sw_set_data by (now rewrite E). reflexivity.
      * unfold names. cbn [fields]. now rewrite put_field_names.
      * intros f' g' Hf' Hg' En. unfold put_field in Hg'. apply in_map_iff in Hg' as [g0 [<- Hg0]].
        destruct (String.eqb (fname g0) (fname f)); (apply (Hc f' g0); [now right|assumption|exact En]).
    + apply memb_false in M. rewrite IH; [| assumption | assumption | | assumption].
      * f_equal. f_equal. apply map_ext_in. intros g0 Hg0. rewrite upd_sw_cons.
        destruct (String.eqb (fname f) (fname g0)) eqn:E; [|reflexivity].
        apply String.eqb_eq in E. exfalso. apply M. rewrite E. unfold names. now apply in_map.
      * intros f' g' Hf' Hg' En. apply Hc; [now right|assumption|assumption].
Qed.

Lemma copy_sw_model a1 a2 :
  NoDup (names a1) -> NoDup (names a2) -> compat_sw a1 a2 -> nelem a1 = nelem a2 ->
  assign_ok (shape a1) (shape a2) = true ->
  copy_fields_sw a1 a2 = Ok (mkA (shape a2) (copy_expected_sw a1 a2)).
Proof.
  intros H1 H2 Hc He Hs. unfold copy_fields_sw. rewrite He, Z.eqb_refl.
  now apply copy_loop_sw_char.
Qed.

(* 3. what the destination holds afterwards (frame + content), in the style of copy_ok *)
Definition copy_ok_sw (a1 a2 r : sarray) : Prop :=
  shape r = shape a2 /\ descr r = descr a2
  /\ (forall n f1 g, find_field n (fields a1) = Some f1 -> find_field n (fields a2) = Some g ->
        find_field n (fields r) = Some (mkF (fdesc g) (conv_data f1 g)))
  /\ (forall n, ~ In n (names a1) -> find_field n (fields r) = find_field n (fields a2)).
Definition copy_check_sw (a1 a2 : sarray) (out : result sarray) : bool :=
  match out with
  | Ok r => sarray_eqb r (mkA (shape a2) (copy_expected_sw a1 a2))
  | Err _ => false
  end.

Lemma copy_expected_sw_ok a1 a2 r :
  shape r = shape a2 -> fields r = copy_expected_sw a1 a2 -> copy_ok_sw a1 a2 r.
Proof.
  intros Hsh Hf. unfold copy_ok_sw. rewrite Hf. split; [exact Hsh|].
  assert (P : forall g, fname (upd_sw (fields a1) g) = fname g).
  { intro g. unfold upd_sw. destruct (find_field (fname g) (fields a1)); reflexivity. }
  split; [|split].
  - unfold descr, copy_expected_sw. rewrite Hf. unfold copy_expected_sw. rewrite map_map. apply map_ext. intro g. unfold upd_sw.
    destruct (find_field (fname g) (fields a1)); reflexivity.
  - intros n f1 g E1 E2. unfold copy_expected_sw. rewrite (find_field_map _ _ _ P), E2. cbn [option_map].
    destruct (find_field_Some _ _ _ E2) as [_ Hgn]. unfold upd_sw. rewrite Hgn, E1. reflexivity.
  - intros n Hnot. unfold copy_expected_sw. rewrite (find_field_map _ _ _ P).
    destruct (find_field n (fields a2)) as [g|] eqn:E2; [|reflexivity]. cbn [option_map].
    destruct (find_field_Some _ _ _ E2) as [_ Hgn]. unfold upd_sw. rewrite Hgn.
    assert (N : find_field n (fields a1) = None) by (now apply find_field_None). now rewrite N.
Qed.

Lemma copy_sw_ok a1 a2 :
  NoDup (names a1) -> NoDup (names a2) -> compat_sw a1 a2 -> nelem a1 = nelem a2 ->
  assign_ok (shape a1) (shape a2) = true ->
  exists r, copy_fields_sw a1 a2 = Ok r /\ copy_ok_sw a1 a2 r.
Proof.
  intros H1 H2 Hc He Hs. eexists. split; [now apply copy_sw_model|]. now apply copy_expected_sw_ok.
Qed.

Lemma copy_check_sw_sound a1 a2 out :
  copy_check_sw a1 a2 out = true -> exists r, out = Ok r /\ copy_ok_sw a1 a2 r.
Proof.
  unfold copy_check_sw. destruct out as [r|e]; [|discriminate]. intro H. apply sarray_eqb_eq in H. subst r.
  eexists. split; [reflexivity|]. now apply copy_expected_sw_ok.
Qed.

Lemma compat_sw_dec a1 a2 : compat_sw_b a1 a2 = true -> compat_sw a1 a2.
Proof.
  unfold compat_sw_b, compat_sw. rewrite forallb_forall. intros H f g Hf Hg E.
  specialize (H f Hf). rewrite forallb_forall in H. specialize (H g Hg).
  rewrite E, String.eqb_refl in H. cbn [negb orb] in H. exact H.
Qed.


(* 4. the conversion preserves every VALUE (integers and floats; NaNs stay NaN, -0.0 stays 0.0):
   the decoded items of what the destination receives are those of the source field *)
Lemma chunks_f_full : forall m fuel k (l : list byte),
  (0 < k)%nat -> length l = (k * m)%nat -> (m <= fuel)%nat ->
  Forall (fun c => length c = k) (chunks_f fuel k l) /\ concat (chunks_f fuel k l) = l.
Proof.
  induction m as [|m IH]; intros fuel k l Hk Hl Hf.
  - rewrite Nat.mul_0_r in Hl. apply length_zero_iff_nil in Hl. subst l.
    destruct fuel; cbn; split; constructor.
  - destruct fuel as [|f]; [lia|]. destruct l as [|b t] eqn:El; [cbn in Hl; lia|]. rewrite <- El in *.
    assert (Hne : l <> []) by (rewrite El; discriminate).
    cbn [chunks_f]. rewrite El. rewrite <- El.
    assert (Lk : (k <= length l)%nat) by lia.
    destruct (IH f k (skipn k l) Hk) as [F C]; [rewrite skipn_length; lia|lia|].
    split.
    + constructor; [rewrite firstn_length; lia|exact F].
    + cbn [concat]. rewrite C. apply firstn_skipn.
Qed.

Lemma chunks_f_concat : forall (l : list (list byte)) fuel k,
  (0 < k)%nat -> Forall (fun c => length c = k) l -> (length l <= fuel)%nat ->
  chunks_f fuel k (concat l) = l.
Proof.
  induction l as [|c t IH]; intros fuel k Hk Hf Hl.
  - destruct fuel; reflexivity.
  - inversion Hf as [|x y Hc Ht]; subst. destruct fuel as [|f]; [cbn in Hl; lia|]. cbn [concat chunks_f].
    destruct (c ++ concat t) as [|b r] eqn:E.
    { destruct c; [cbn in Hk; lia|discriminate]. }
    rewrite <- E. rewrite firstn_app, Nat.sub_diag, firstn_all, firstn_O, app_nil_r.
    rewrite skipn_app, Nat.sub_diag, skipn_all, skipn_O. cbn [app].
    f_equal. apply IH; [assumption|assumption|cbn in Hl; lia].
Qed.

Lemma concat_rev_length (l : list (list byte)) : length (concat (map (@rev byte) l)) = length (concat l).
Proof. induction l as [|c t IH]; [reflexivity|]. cbn [map concat]. now rewrite !app_length, rev_length, IH. Qed.

Lemma chunks_count (l : list (list byte)) k :
  (0 < k)%nat -> Forall (fun c => length c = k) l -> (length l <= length (concat l))%nat.
Proof. intros Hk F. induction F as [|c t Hc Ft IH]; [cbn; lia|]. cbn [length concat]. rewrite app_length. lia. Qed.

Definition whole_items (k : Z) (cell : list byte) : Prop := exists m, length cell = (Z.to_nat k * m)%nat.

Lemma chunks_swapped k cell :
  0 < k -> whole_items k cell ->
  chunks k (concat (map (@rev byte) (chunks k cell))) = map (@rev byte) (chunks k cell).
Proof.
  intros Hk [m Hm]. unfold chunks.
  assert (K : (0 < Z.to_nat k)%nat) by lia.
  destruct (chunks_f_full m (length cell) (Z.to_nat k) cell K Hm) as [F C].
  { destruct (Z.to_nat k); [lia|]. nia. }
  apply chunks_f_concat; [exact K| |].
  - apply Forall_forall. intros c Hc. apply in_map_iff in Hc as [c0 [<- Hc0]]. rewrite rev_length.
    rewrite Forall_forall in F. now apply F.
  - rewrite map_length, concat_rev_length, C.
    pose proof (chunks_count _ (Z.to_nat k) K F) as Cn. now rewrite C in Cn.
Qed.

Lemma decode_swap t1 t2 item :
  kind_eqb (fkind t1) (fkind t2) = true -> fnum t1 = fnum t2 ->
  (fkind t1 = KInt \/ fkind t1 = KUInt \/ fkind t1 = KFloat) ->
  match ford t1, ford t2 with LE, BE | BE, LE => true | _, _ => false end = true ->
  decode t2 (rev item) = decode t1 item.
Proof.
  destruct t1 as [o1 k1 n1], t2 as [o2 k2 n2]. cbn [fkind fnum ford]. intros Hk Hn Hs Ho.
  apply kind_eqb_eq in Hk. subst k2 n2.
  destruct o1, o2; try discriminate.
  - (* LE -> BE *) rewrite <- (decode_byte_order k1 n1 (rev item) Hs). now rewrite rev_involutive.
  - (* BE -> LE *) apply decode_byte_order. exact Hs.
Qed.

Lemma conv_values f g :
  same_type (fdesc f) (fdesc g) || swap_type (fdesc f) (fdesc g) = true ->
  (fkind (dtype (fdesc f)) = KInt \/ fkind (dtype (fdesc f)) = KUInt \/ fkind (dtype (fdesc f)) = KFloat) ->
  0 < fnum (dtype (fdesc f)) ->
  Forall (whole_items (fnum (dtype (fdesc f)))) (fdata f) ->
  field_values (mkF (fdesc g) (conv_data f g)) = field_values f.
Proof.
  intros Hc Hk Hn Hw. unfold conv_data. destruct (same_type (fdesc f) (fdesc g)) eqn:ST.
  - unfold same_type in ST. apply andb_true_iff in ST as [T _]. apply ftype_eqb_eq in T.
    unfold field_values. cbn [fdesc fdata]. now rewrite <- T.
  - cbn [orb] in Hc. unfold swap_type in Hc. rewrite !andb_true_iff in Hc. destruct Hc as [[[K N] _] O].
    apply Z.eqb_eq in N.
    set (t1 := dtype (fdesc f)) in *. set (t2 := dtype (fdesc g)) in *.
    assert (I1 : itemsize t1 = fnum t1) by (unfold itemsize; destruct Hk as [H|[H|H]]; now rewrite H).
    assert (K2 : fkind t2 = fkind t1) by (symmetry; now apply kind_eqb_eq).
    assert (I2 : itemsize t2 = fnum t1) by (unfold itemsize; rewrite K2, <- N; destruct Hk as [H|[H|H]]; now rewrite H).
    assert (U : swap_unit t1 = fnum t1) by (unfold swap_unit; destruct Hk as [H|[H|H]]; now rewrite H).
    unfold field_values. cbn [fdesc fdata]. fold t1 t2. rewrite I1, I2.
    induction Hw as [|cell rest Hcell Hrest IH]; [reflexivity|]. cbn [map flat_map]. rewrite IH. f_equal.
    unfold swap_cell. rewrite U, (chunks_swapped _ _ Hn Hcell), map_map.
    apply map_ext. intro item. now apply decode_swap.
Qed.

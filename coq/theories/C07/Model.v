(* C07 — executable model of the structured-array field operations of esutil/numpy_util.py
   (extract_fields, remove_fields, add_fields, reorder_fields, combine_fields, copy_fields,
   copy_fields_by_name, split_fields, compare_arrays).  No proofs in this file.

   A structured array is its shape plus, per field and in dtype order, the entry of
   `dtype.descr` (name, element type incl. byte order, sub-array shape) and the field's bytes,
   one cell (itemsize * prod(subshape) bytes) per array element in C order.  That is numpy's
   memory image of a packed structured array regrouped by column, so "identical bytes" is
   expressible; numpy's own operations used by the code (np.zeros, arr2[name] = arr1[name],
   dtype.descr, ==) are re-implemented here and validated by the correspondence run. *)
From EsVerif.Common Require Import Base Bytes.
From Coq.Strings Require Import Byte.
From Coq.Strings Require String.
Import String.StringSyntax.
Notation string := String.string.

(* ------------------------------------------------------------------ data *)
Inductive order := LE | BE | NA.                        (* '<'  '>'  '|' *)
Inductive kind := KInt | KUInt | KFloat | KComplex | KBool | KBytes | KUnicode.   (* i u f c b S U *)
Record ftype := mkT { ford : order; fkind : kind; fnum : Z }.      (* '<f8' = mkT LE KFloat 8 *)
Record dentry := mkD { dname : string; dtype : ftype; dsub : list Z }.   (* one tuple of dtype.descr *)
Record field := mkF { fdesc : dentry; fdata : list (list byte) }.
Record sarray := mkA { shape : list Z; fields : list field }.

Definition prodZ (l : list Z) : Z := fold_right Z.mul 1 l.
Definition itemsize (t : ftype) : Z := match fkind t with KUnicode => 4 * fnum t | _ => fnum t end.
Definition cellsize (d : dentry) : Z := itemsize (dtype d) * prodZ (dsub d).
Definition fname (f : field) : string := dname (fdesc f).
Definition nelem (a : sarray) : Z := prodZ (shape a).             (* arr.size *)
Definition descr (a : sarray) : list dentry := map fdesc (fields a).   (* arr.dtype.descr *)
Definition names (a : sarray) : list string := map fname (fields a).   (* arr.dtype.names *)
Definition len {A} (l : list A) : Z := Z.of_nat (length l).

(* ------------------------------------------------------------ equalities *)
Definition order_eqb (a b : order) : bool :=
  match a, b with LE, LE | BE, BE | NA, NA => true | _, _ => false end.
Definition kind_eqb (a b : kind) : bool :=
  match a, b with
  | KInt, KInt | KUInt, KUInt | KFloat, KFloat | KComplex, KComplex | KBool, KBool
  | KBytes, KBytes | KUnicode, KUnicode => true
  | _, _ => false
  end.
Definition ftype_eqb (a b : ftype) : bool :=
  order_eqb (ford a) (ford b) && kind_eqb (fkind a) (fkind b) && (fnum a =? fnum b).
Definition dentry_eqb (a b : dentry) : bool :=
  String.eqb (dname a) (dname b) && ftype_eqb (dtype a) (dtype b) && zlist_eqb (dsub a) (dsub b).
Definition data_eqb : list (list byte) -> list (list byte) -> bool := list_eqb bytes_eqb.
Definition field_eqb (a b : field) : bool := dentry_eqb (fdesc a) (fdesc b) && data_eqb (fdata a) (fdata b).
Definition sarray_eqb (a b : sarray) : bool :=
  zlist_eqb (shape a) (shape b) && list_eqb field_eqb (fields a) (fields b).

(* `name in list_of_names`, `name in ndarray_of_names` *)
Fixpoint memb (n : string) (l : list string) : bool :=
  match l with [] => false | x :: t => String.eqb n x || memb n t end.
Fixpoint nodup_b (l : list string) : bool :=
  match l with [] => true | x :: t => negb (memb x t) && nodup_b t end.

Fixpoint find_field (n : string) (fs : list field) : option field :=
  match fs with
  | [] => None
  | f :: t => if String.eqb (fname f) n then Some f else find_field n t
  end.

(* ------------------------------------------------- numpy pieces (modelled) *)
(* np.zeros(shape, dtype=descr): a repeated field name is rejected by np.dtype (ValueError) *)
Definition zero_field (n : Z) (d : dentry) : field :=
  mkF d (repeat (repeat x00 (Z.to_nat (cellsize d))) (Z.to_nat n)).
Definition np_zeros (shp : list Z) (ds : list dentry) : result sarray :=
  if nodup_b (map dname ds) then Ok (mkA shp (map (zero_field (prodZ shp)) ds)) else Err EValue.

(* Assignment dst[...] = src broadcasts src to dst (PyArray_AssignArray): while src has more
   dimensions than dst, unit dimensions are stripped from its left; then, right-aligned, every
   src dimension must equal the dst dimension or be 1. *)
Fixpoint strip_ones (k : nat) (s : list Z) : list Z :=
  match k, s with
  | S k', x :: t => if x =? 1 then strip_ones k' t else s
  | _, _ => s
  end.
Fixpoint bcast_ok (s d : list Z) : bool :=       (* both reversed: innermost dimension first *)
  match s, d with
  | [], _ => true
  | x :: s', y :: d' => ((x =? y) || (x =? 1)) && bcast_ok s' d'
  | _ :: _, [] => false
  end.
Definition assign_ok (s d : list Z) : bool :=
  let s' := strip_ones (length s - length d) s in
  (length s' <=? length d)%nat && bcast_ok (rev s') (rev d).

Definition same_type (d1 d2 : dentry) : bool :=
  ftype_eqb (dtype d1) (dtype d2) && zlist_eqb (dsub d1) (dsub d2).
Definition set_data (g : field) (data : list (list byte)) : field := mkF (fdesc g) data.
Definition put_field (n : string) (data : list (list byte)) (fs : list field) : list field :=
  map (fun g => if String.eqb (fname g) n then set_data g data else g) fs.

(* arr2[name] = arr1[name] where f is arr1's field and src_shape is arr1.shape.  Both sides have
   shape (array shape ++ subshape); with equal element types and subshapes the copy is a byte
   copy.  copy_fields has already checked that the two arrays have the same size, so a
   successful broadcast never replicates data and the C-order sequence of cells is unchanged.
   Fields of the same name but a different type would be CAST by numpy: not modelled (EOther,
   never generated, excluded in the theorems by the hypothesis [compat]). *)
Definition assign_field (a2 : sarray) (src_shape : list Z) (f : field) : result sarray :=
  match find_field (fname f) (fields a2) with
  | None => Err EValue
  | Some g =>
    if negb (same_type (fdesc f) (fdesc g)) then Err EOther
    else if assign_ok src_shape (shape a2)
         then Ok (mkA (shape a2) (put_field (fname f) (fdata f) (fields a2)))
         else Err EValue
  end.

(* ------------------------------------------------------------ copy_fields *)
(* numpy_util.py:680-704.  arr2 is mutated in place: the model returns the new arr2. *)
Fixpoint copy_loop (src_shape : list Z) (fs1 : list field) (a2 : sarray) : result sarray :=
  match fs1 with
  | [] => Ok a2
  | f :: t =>
    if memb (fname f) (names a2)
    then do a2' <- assign_field a2 src_shape f; copy_loop src_shape t a2'
    else copy_loop src_shape t a2
  end.
Definition copy_fields (a1 a2 : sarray) : result sarray :=
  if nelem a1 =? nelem a2 then copy_loop (shape a1) (fields a1) a2 else Err EValue.

(* ------------------------------------------------ the names argument *)
(* how the caller spelled the names: a str, a list, a tuple or an ndarray of str *)
Inductive names_arg :=
  NScalar (s : string) | NList (l : list string) | NTuple (l : list string) | NArray (l : list string).
(* `if not isinstance(x, (tuple, list, np.ndarray)): x = [x]` — extract_fields:735,
   reorder_fields:878 and (after the fix: commits) remove_fields:777, copy_fields_by_name:937.
   Iterating an ndarray of str yields np.str_ (a str), `name in ndarray` is (arr == name).any(). *)
Definition seq_or_wrap (x : names_arg) : list string :=
  match x with NScalar s => [s] | NList l | NTuple l | NArray l => l end.

(* --------------------------------------------------------- extract_fields *)
(* numpy_util.py:707-757 *)
Definition extract_fields (a : sarray) (keepnames : names_arg) (strict : bool) : result sarray :=
  let keep := seq_or_wrap keepnames in
  let arrnames := names a in
  if strict && negb (forallb (fun n => memb n arrnames) keep) then Err EValue
  else
    let new_descr := filter (fun d => memb (dname d) keep) (descr a) in
    match new_descr with
    | [] => Err EValue
    | _ => do new_arr <- np_zeros (shape a) new_descr; copy_fields a new_arr
    end.

(* ---------------------------------------------------------- remove_fields *)
(* numpy_util.py:760-793 *)
Definition remove_fields (a : sarray) (rmnames : names_arg) : result sarray :=
  let rm := seq_or_wrap rmnames in
  let new_descr := filter (fun d => negb (memb (dname d) rm)) (descr a) in
  match new_descr with
  | [] => Err EValue
  | _ => do new_arr <- np_zeros (shape a) new_descr; copy_fields a new_arr
  end.

(* ---------------------------------------------------- copy_fields_by_name *)
(* numpy_util.py:910-949.  A value is what `arr[name] = val` receives, already converted by
   numpy to the field's element type (the harness does that conversion with numpy itself):
   a scalar (one item, broadcast to every item of every cell), one cell (shape = subshape,
   broadcast over the elements) or the full array of cells (shape = arr.shape ++ subshape). *)
Inductive dval := DScalar (item : list byte) | DRow (cell : list byte) | DFull (cells : list (list byte)).
Inductive vals_arg := VSingle (v : dval) | VList (l : list dval).

Definition fill_data (n : Z) (d : dentry) (v : dval) : result (list (list byte)) :=
  match v with
  | DScalar item =>
    if len item =? itemsize (dtype d)
    then Ok (repeat (concat (repeat item (Z.to_nat (prodZ (dsub d))))) (Z.to_nat n)) else Err EOther
  | DRow cell => if len cell =? cellsize d then Ok (repeat cell (Z.to_nat n)) else Err EOther
  | DFull cells =>
    if (len cells =? n) && forallb (fun c => len c =? cellsize d) cells then Ok cells else Err EOther
  end.

Fixpoint cfbn_loop (a : sarray) (nv : list (string * dval)) : result sarray :=
  match nv with
  | [] => Ok a
  | (n, v) :: t =>
    match find_field n (fields a) with
    | Some g => do data <- fill_data (nelem a) (fdesc g) v;
                cfbn_loop (mkA (shape a) (put_field n data (fields a))) t
    | None => cfbn_loop a t
    end
  end.
Definition unwrap_vals (vals : vals_arg) : list dval :=
  match vals with VSingle v => [v] | VList l => l end.      (* isinstance(vals, (list, ndarray)) *)
Definition copy_fields_by_name (a : sarray) (nms : names_arg) (vals : vals_arg) : result sarray :=
  let ns := seq_or_wrap nms in
  let vs := unwrap_vals vals in
  if (length ns =? length vs)%nat then cfbn_loop a (combine ns vs) else Err EValue.

(* ------------------------------------------------------------- add_fields *)
(* numpy_util.py:796-847.  [add] is np.dtype(add_dtype_or_descr).descr (np.dtype rejects a
   repeated name); defaults = None | a non-list value (wrapped) | a list. *)
Definition add_fields (a : sarray) (add : list dentry) (defaults : option vals_arg) : result sarray :=
  if negb (nodup_b (map dname add)) then Err EValue
  else if existsb (fun d => memb (dname d) (names a)) add then Err EValue
  else
    let new_descr := descr a ++ add in
    do z <- np_zeros (shape a) new_descr;
    do new_arr <- copy_fields a z;
    match defaults with
    | None => Ok new_arr
    | Some dv =>
      let dl := unwrap_vals dv in
      if negb (length dl =? length add)%nat then Err EValue
      else copy_fields_by_name new_arr (NList (map dname add)) (VList dl)
    end.

(* --------------------------------------------------------- reorder_fields *)
(* numpy_util.py:850-907 *)
Fixpoint find_descr (n : string) (ds : list dentry) : option dentry :=
  match ds with
  | [] => None
  | d :: t => if String.eqb (dname d) n then Some d else find_descr n t
  end.
(* first loop: np.where(original_names == name); append original_descr[w[0]] or raise *)
Fixpoint reorder_named (ds : list dentry) (ordered : list string) (strict : bool) : result (list dentry) :=
  match ordered with
  | [] => Ok []
  | n :: t =>
    match find_descr n ds with
    | Some d => do r <- reorder_named ds t strict; Ok (d :: r)
    | None => if strict then Err EValue else reorder_named ds t strict
    end
  end.
Definition reorder_fields (a : sarray) (ordered_names : names_arg) (strict : bool) : result sarray :=
  let ordered := seq_or_wrap ordered_names in
  do first <- reorder_named (descr a) ordered strict;
  let new_names := map dname first in
  (* second loop: the remaining names in original order at the back *)
  let rest := filter (fun d => negb (memb (dname d) new_names)) (descr a) in
  do new_arr <- np_zeros (shape a) (first ++ rest);
  copy_fields a new_arr.

(* --------------------------------------------------------- combine_fields *)
(* numpy_util.py:643-677, with the fix: commit (output allocated with the shape of the first
   array instead of its size) *)
Fixpoint combine_descr (num : Z) (arrs : list sarray) : result (list dentry) :=
  match arrs with
  | [] => Ok []
  | a :: t => if nelem a =? num then do r <- combine_descr num t; Ok (descr a ++ r) else Err EValue
  end.
Fixpoint combine_copy (arrs : list sarray) (new_array : sarray) : result sarray :=
  match arrs with
  | [] => Ok new_array
  | a :: t => do n <- copy_fields a new_array; combine_copy t n
  end.
Definition combine_fields (arrlist : list sarray) : result sarray :=
  match arrlist with
  | [] => Err EValue
  | [a] => Ok a
  | a0 :: _ =>
    do ds <- combine_descr (nelem a0) arrlist;
    do z <- np_zeros (shape a0) ds;
    combine_copy arrlist z
  end.

(* ----------------------------------------------------------- split_fields *)
(* numpy_util.py:952-1006 for data with fields.  fields=None iterates dtype.fields (dtype
   order); a str is wrapped; anything else is iterated.  A view data[field] is a plain array
   of the field's element type and shape data.shape ++ subshape. *)
Record fview := mkV { vtype : ftype; vshape : list Z; vdata : list (list byte) }.
Definition view_of (a : sarray) (f : field) : fview :=
  mkV (dtype (fdesc f)) (shape a ++ dsub (fdesc f)) (fdata f).
Fixpoint split_loop (a : sarray) (fl : list string) : result (list fview) :=
  match fl with
  | [] => Ok []
  | n :: t =>
    match find_field n (fields a) with
    | None => Err EValue
    | Some f => do r <- split_loop a t; Ok (view_of a f :: r)
    end
  end.
Definition split_names (a : sarray) (flds : option names_arg) : list string :=
  match flds with None => names a | Some x => seq_or_wrap x end.
Definition split_fields (a : sarray) (flds : option names_arg) : result (list fview * list string) :=
  let fl := split_names a flds in
  do vs <- split_loop a fl; Ok (vs, fl).

Definition fview_eqb (a b : fview) : bool :=
  ftype_eqb (vtype a) (vtype b) && zlist_eqb (vshape a) (vshape b) && data_eqb (vdata a) (vdata b).

(* --------------------------------------------------------- compare_arrays *)
(* numpy_util.py:1009-1106.  `arr1[n].ravel() != arr2[n].ravel()` compares VALUES: items are
   decoded under their declared byte order; NaN differs from everything, -0.0 equals 0.0,
   bytes/unicode compare without their trailing NUL padding, any non-zero bool is True. *)
Definition be_Z (l : list byte) : Z := fold_left (fun acc b => acc * 256 + bZ b) l 0.
Definition oriented (o : order) (item : list byte) : list byte :=
  match o with LE => rev item | _ => item end.          (* most significant byte first *)

Inductive fval := FNaN | FNum (bits : Z).               (* -0.0 is normalised to +0.0 *)
Definition fdecode (size v : Z) : fval :=
  let ebits := if size =? 2 then 5 else if size =? 4 then 8 else 11 in
  let n := 8 * size in
  let rest := v mod 2 ^ (n - 1) in
  if rest >? (2 ^ ebits - 1) * 2 ^ (n - 1 - ebits) then FNaN
  else if rest =? 0 then FNum 0 else FNum v.

Inductive value := VInt (z : Z) | VFloat (x : fval) | VComplex (re im : fval) | VStr (s : list Z).

Fixpoint chunks_f (fuel k : nat) (l : list byte) : list (list byte) :=
  match fuel with
  | O => []
  | S f => match l with [] => [] | _ => firstn k l :: chunks_f f k (skipn k l) end
  end.
Definition chunks (k : Z) (l : list byte) : list (list byte) := chunks_f (length l) (Z.to_nat k) l.

Fixpoint drop0 (l : list Z) : list Z :=
  match l with [] => [] | x :: t => if x =? 0 then drop0 t else l end.
Definition strip0 (l : list Z) : list Z := rev (drop0 (rev l)).

Definition decode (t : ftype) (item : list byte) : value :=
  match fkind t with
  | KInt => let v := be_Z (oriented (ford t) item) in
            let n := 8 * fnum t in VInt (if v <? 2 ^ (n - 1) then v else v - 2 ^ n)
  | KUInt => VInt (be_Z (oriented (ford t) item))
  | KBool => VInt (if be_Z item =? 0 then 0 else 1)
  | KFloat => VFloat (fdecode (fnum t) (be_Z (oriented (ford t) item)))
  | KComplex =>
    let h := fnum t / 2 in
    VComplex (fdecode h (be_Z (oriented (ford t) (firstn (Z.to_nat h) item))))
             (fdecode h (be_Z (oriented (ford t) (skipn (Z.to_nat h) item))))
  | KBytes => VStr (strip0 (map bZ item))
  | KUnicode => VStr (strip0 (map (fun u => be_Z (oriented (ford t) u)) (chunks 4 item)))
  end.

Definition fval_ne (a b : fval) : bool :=
  match a, b with FNum x, FNum y => negb (x =? y) | _, _ => true end.
Definition value_ne (a b : value) : bool :=
  match a, b with
  | VInt x, VInt y => negb (x =? y)
  | VFloat x, VFloat y => fval_ne x y
  | VComplex a1 b1, VComplex a2 b2 => fval_ne a1 a2 || fval_ne b1 b2
  | VStr s, VStr t => negb (zlist_eqb s t)
  | _, _ => true
  end.

(* arr[n].ravel() as values *)
Definition field_values (f : field) : list value :=
  let t := dtype (fdesc f) in
  flat_map (fun cell => map (decode t) (chunks (itemsize t) cell)) (fdata f).

(* w.size > 0; equal shapes give equal lengths, a length mismatch counts as a difference *)
Fixpoint any_ne (l1 l2 : list value) : bool :=
  match l1, l2 with
  | [], [] => false
  | x :: t1, y :: t2 => value_ne x y || any_ne t1 t2
  | _, _ => true
  end.

(* element types whose comparison is modelled: same kind, and same width unless bytes/unicode
   (mixed kinds or widths are compared by numpy after a cast: not modelled, EOther) *)
Definition cmp_ok (t1 t2 : ftype) : bool :=
  kind_eqb (fkind t1) (fkind t2)
  && match fkind t1 with KBytes | KUnicode => true | _ => fnum t1 =? fnum t2 end.

Definition compare_field (a1 a2 : sarray) (f1 : field) : result Z :=      (* added to nfail *)
  match find_field (fname f1) (fields a2) with
  | None => Ok 0
  | Some f2 =>
    if negb (zlist_eqb (shape a2 ++ dsub (fdesc f2)) (shape a1 ++ dsub (fdesc f1))) then Ok 1
    else if negb (cmp_ok (dtype (fdesc f1)) (dtype (fdesc f2))) then Err EOther
    else if any_ne (field_values f1) (field_values f2) then Ok 1 else Ok 0
  end.
Fixpoint compare_loop (a1 a2 : sarray) (fs : list field) : result Z :=
  match fs with
  | [] => Ok 0
  | f :: t => do x <- compare_field a1 a2 f; do r <- compare_loop a1 a2 t; Ok (x + r)
  end.
Definition count_missing (l1 l2 : list string) : Z :=
  len (filter (fun n => negb (memb n l2)) l1).
Definition compare_arrays (a1 a2 : sarray) (ignore_missing : bool) : result bool :=
  let nf0 := if ignore_missing then 0
             else count_missing (names a1) (names a2) + count_missing (names a2) (names a1) in
  do nf <- compare_loop a1 a2 (fields a1);
  Ok (nf0 + nf =? 0).

(* split_fields on data WITHOUT fields (numpy_util.py:987-990, `data.dtype.fields is None`): the
   data itself as a 1-tuple whatever getnames says, ValueError when fields= was sent.  A plain
   array is represented like a view: element type, shape, bytes per element. *)
Definition split_plain (v : fview) (flds : option names_arg) : result (list fview) :=
  match flds with None => Ok [v] | Some _ => Err EValue end.

(* C07 — compare_arrays with its verbose=True reporting (numpy_util.py:1009-1106 including every
   stdout.write): the report as a list of events, the verdict next to it.  Definitions first. *)
From EsVerif.Common Require Import Base Bytes.
From Coq.Strings Require Import Byte.
From Coq.Strings Require String.
From EsVerif.C07 Require Import Model Spec Basics.
From Coq Require Import ZifyBool.

Inductive event :=
| ENames                        (* "    Matching names........" *)
| EOnly1 (n : string)           (* "\n        Field '%s' found only in array1" *)
| EOnly2 (n : string)           (* "\n        Field '%s' found only in array2" *)
| ENamesOK                      (* "OK" (no name differs) *)
| ENoNameCheck                  (* "    Not checking that all fields names match\n" *)
| EField (n : string)           (* "    testing field: '%s'\n" "        shape..........." *)
| EShapeDiff                    (* "shapes differ\n" *)
| EShapeOK                      (* "OK\n" "        elements........" *)
| EElemDiff (k : Z) (n : string)   (* "\n        %s elements in field '%s' differ\n" *)
| EElemOK                       (* "OK\n" *)
| EPassed                       (* "All tests passed\n" *)
| EDiffs (k : Z).               (* "%d differences found\n" *)

(* w.size: the number of differing items (a length mismatch, impossible for equal shapes of
   well-formed arrays, counts once — as in any_ne) *)
Fixpoint count_ne (l1 l2 : list value) : Z :=
  match l1, l2 with
  | [], [] => 0
  | x :: t1, y :: t2 => (if value_ne x y then 1 else 0) + count_ne t1 t2
  | _, _ => 1
  end.

Definition compare_field_v (a1 a2 : sarray) (f1 : field) : result (Z * list event) :=
  match find_field (fname f1) (fields a2) with
  | None => Ok (0, [])
  | Some f2 =>
    if negb (zlist_eqb (shape a2 ++ dsub (fdesc f2)) (shape a1 ++ dsub (fdesc f1)))
    then Ok (1, [EField (fname f1); EShapeDiff])
    else if negb (cmp_ok (dtype (fdesc f1)) (dtype (fdesc f2))) then Err EOther
    else let k := count_ne (field_values f1) (field_values f2) in
         if k >? 0 then Ok (1, [EField (fname f1); EShapeOK; EElemDiff k (fname f1)])
         else Ok (0, [EField (fname f1); EShapeOK; EElemOK])
  end.
Fixpoint compare_loop_v (a1 a2 : sarray) (fs : list field) : result (Z * list event) :=
  match fs with
  | [] => Ok (0, [])
  | f :: t => do x <- compare_field_v a1 a2 f; do r <- compare_loop_v a1 a2 t;
              Ok (fst x + fst r, snd x ++ snd r)
  end.

Definition only_in (l1 l2 : list string) : list string := filter (fun n => negb (memb n l2)) l1.

Definition compare_arrays_v (a1 a2 : sarray) (verbose ignore_missing : bool) : result (bool * list event) :=
  let o1 := only_in (names a1) (names a2) in
  let o2 := only_in (names a2) (names a1) in
  let nf0 := if ignore_missing then 0 else len o1 + len o2 in
  let log0 := if ignore_missing then [ENoNameCheck]
              else [ENames] ++ map EOnly1 o1 ++ map EOnly2 o2 ++ (if nf0 =? 0 then [ENamesOK] else []) in
  do r <- compare_loop_v a1 a2 (fields a1);
  let tot := nf0 + fst r in
  Ok (tot =? 0, if verbose then log0 ++ snd r ++ [if tot =? 0 then EPassed else EDiffs tot] else []).

(* the number of differences a report announces line by line *)
Definition is_diff (e : event) : bool :=
  match e with EOnly1 _ | EOnly2 _ | EShapeDiff | EElemDiff _ _ => true | _ => false end.
Definition diffs_reported (l : list event) : Z := len (filter is_diff l).

Definition event_eqb (a b : event) : bool :=
  match a, b with
  | ENames, ENames | ENamesOK, ENamesOK | ENoNameCheck, ENoNameCheck | EShapeDiff, EShapeDiff
  | EShapeOK, EShapeOK | EElemOK, EElemOK | EPassed, EPassed => true
  | EOnly1 n, EOnly1 m | EOnly2 n, EOnly2 m | EField n, EField m => String.eqb n m
  | EElemDiff k n, EElemDiff j m => (k =? j) && String.eqb n m
  | EDiffs k, EDiffs j => k =? j
  | _, _ => false
  end.
Definition vout_eqb (x y : bool * list event) : bool :=
  Bool.eqb (fst x) (fst y) && list_eqb event_eqb (snd x) (snd y).

(* ------------------------------------------------------------------ lemmas *)
Lemma count_ne_nonneg l1 : forall l2, 0 <= count_ne l1 l2.
Proof. induction l1 as [|x t IH]; intros [|y t2]; cbn [count_ne]; try lia. specialize (IH t2). destruct (value_ne x y); lia. Qed.

Lemma any_ne_count l1 : forall l2, any_ne l1 l2 = (count_ne l1 l2 >? 0).
Proof.
  induction l1 as [|x t IH]; intros [|y t2]; cbn [any_ne count_ne]; try reflexivity.
  rewrite IH. pose proof (count_ne_nonneg t t2). destruct (value_ne x y); cbn [orb]; lia.
Qed.

Lemma compare_field_v_fst a1 a2 f :
  compare_field a1 a2 f = match compare_field_v a1 a2 f with Ok x => Ok (fst x) | Err e => Err e end.
Proof.
  unfold compare_field, compare_field_v. destruct (find_field (fname f) (fields a2)) as [f2|]; [|reflexivity].
  destruct (negb (zlist_eqb _ _)); [reflexivity|].
  destruct (negb (cmp_ok _ _)); [reflexivity|].
  rewrite any_ne_count. destruct (count_ne _ _ >? 0); reflexivity.
Qed.

Lemma compare_loop_v_fst a1 a2 fs :
  compare_loop a1 a2 fs = match compare_loop_v a1 a2 fs with Ok x => Ok (fst x) | Err e => Err e end.
Proof.
  induction fs as [|f t IH]; [reflexivity|]. cbn [compare_loop compare_loop_v].
  rewrite compare_field_v_fst, IH.
  destruct (compare_field_v a1 a2 f) as [x|e]; [|reflexivity]. cbn [bind].
  destruct (compare_loop_v a1 a2 t) as [r|e]; reflexivity.
Qed.

(* the verdict does not depend on verbose and is the one of Model.compare_arrays *)
Lemma compare_v_verdict a1 a2 verbose im :
  match compare_arrays_v a1 a2 verbose im with Ok x => Ok (fst x) | Err e => Err e end
  = compare_arrays a1 a2 im.
Proof.
  unfold compare_arrays_v, compare_arrays, count_missing, only_in. rewrite compare_loop_v_fst.
  destruct (compare_loop_v a1 a2 (fields a1)) as [r|e]; reflexivity.
Qed.

Lemma compare_v_silent a1 a2 im x : compare_arrays_v a1 a2 false im = Ok x -> snd x = [].
Proof.
  unfold compare_arrays_v. destruct (compare_loop_v a1 a2 (fields a1)); cbn [bind]; [|discriminate].
  intro H. injection H as <-. reflexivity.
Qed.

Lemma diffs_app l1 l2 : diffs_reported (l1 ++ l2) = diffs_reported l1 + diffs_reported l2.
Proof. unfold diffs_reported, len. rewrite filter_app, app_length. lia. Qed.

Lemma field_v_count a1 a2 f x : compare_field_v a1 a2 f = Ok x -> diffs_reported (snd x) = fst x.
Proof.
  unfold compare_field_v. destruct (find_field (fname f) (fields a2)); [|intro H; injection H as <-; reflexivity].
  destruct (negb (zlist_eqb _ _)); [intro H; injection H as <-; reflexivity|].
  destruct (negb (cmp_ok _ _)); [discriminate|].
  destruct (count_ne _ _ >? 0); intro H; injection H as <-; reflexivity.
Qed.

Lemma loop_v_count a1 a2 : forall fs x, compare_loop_v a1 a2 fs = Ok x -> diffs_reported (snd x) = fst x.
Proof.
  induction fs as [|f t IH]; intros x H; [injection H as <-; reflexivity|]. cbn [compare_loop_v] in H.
  destruct (compare_field_v a1 a2 f) as [y|] eqn:E; [|discriminate]. cbn [bind] in H.
  destruct (compare_loop_v a1 a2 t) as [r|] eqn:E2; [|discriminate]. cbn [bind] in H. injection H as <-.
  cbn [fst snd]. rewrite diffs_app, (field_v_count _ _ _ _ E), (IH r eq_refl). reflexivity.
Qed.

Lemma diffs_map_only1 l : diffs_reported (map EOnly1 l) = len l.
Proof.
  unfold diffs_reported, len. f_equal.
  induction l as [|x t IH]; [reflexivity|]. cbn [map filter is_diff length]. now rewrite IH.
Qed.
Lemma diffs_map_only2 l : diffs_reported (map EOnly2 l) = len l.
Proof.
  unfold diffs_reported, len. f_equal.
  induction l as [|x t IH]; [reflexivity|]. cbn [map filter is_diff length]. now rewrite IH.
Qed.

(* a verbose report is consistent with the verdict: it ends in "All tests passed" exactly when
   the answer is True, otherwise in "<k> differences found" where k is the number of difference
   lines printed before it *)
Lemma compare_v_report a1 a2 im b log :
  compare_arrays_v a1 a2 true im = Ok (b, log) ->
  exists body, (b = true /\ log = body ++ [EPassed] /\ diffs_reported body = 0)
            \/ (b = false /\ exists k, log = body ++ [EDiffs k] /\ k = diffs_reported body /\ 0 < k).
Proof.
  unfold compare_arrays_v. destruct (compare_loop_v a1 a2 (fields a1)) as [r|] eqn:E; [|discriminate].
  cbn [bind]. intro H. injection H as Hb Hl.
  pose proof (loop_v_count _ _ _ _ E) as C.
  set (o1 := only_in (names a1) (names a2)) in *. set (o2 := only_in (names a2) (names a1)) in *.
  set (nf0 := if im then 0 else len o1 + len o2) in *.
  set (log0 := if im then [ENoNameCheck] else [ENames] ++ map EOnly1 o1 ++ map EOnly2 o2 ++ (if nf0 =? 0 then [ENamesOK] else [])) in *.
  assert (D0 : diffs_reported log0 = nf0).
  { unfold log0, nf0. destruct im; [reflexivity|].
    rewrite !diffs_app, diffs_map_only1, diffs_map_only2.
    destruct (len o1 + len o2 =? 0); cbn; lia. }
  exists (log0 ++ snd r). rewrite app_assoc in Hl.
  assert (Db : diffs_reported (log0 ++ snd r) = nf0 + fst r) by (rewrite diffs_app, D0, C; reflexivity).
  assert (N0 : 0 <= nf0) by (unfold nf0; destruct im; [lia|pose proof (len_nonneg o1); pose proof (len_nonneg o2); lia]).
  assert (N1 : 0 <= fst r) by (rewrite <- C; apply len_nonneg).
  destruct (nf0 + fst r =? 0) eqn:T.
  - left. subst b. repeat split; [now symmetry|lia].
  - right. subst b. split; [reflexivity|]. exists (nf0 + fst r). repeat split; [now symmetry|now symmetry|lia].
Qed.

(* C07 — the combinators the statement-level translator (harness/props/c07_pygen.py) targets: one per
   Python statement / expression form that occurs in the translated functions.  No proofs here. *)
From EsVerif.Common Require Import Base Bytes.
From Coq.Strings Require String.
From EsVerif.C07 Require Import Model Skel.

Definition py_names (a : sarray) : list string := names a.          (* a.dtype.names *)
Definition py_descr (a : sarray) : list dentry := descr a.          (* a.dtype.descr *)
Definition py_size (a : sarray) : Z := nelem a.                     (* a.size *)
Definition py_shape (a : sarray) : list Z := shape a.               (* a.shape *)
Definition py_len {A} (l : list A) : Z := len l.                    (* len(x) *)
Definition py_item0 (d : dentry) : string := dname d.               (* d[0] of a descr entry *)
Definition py_in (n : string) (l : list string) : bool := memb n l. (* n in l *)
Definition py_cmp (c : cmpop) (x y : Z) : bool := cmp_eval c x y.   (* x <op> y *)
Definition py_zip {A B} (l1 : list A) (l2 : list B) : list (A * B) := combine l1 l2.

(* for x in l: body   with the variables the body updates as state; a raise ends the loop *)
Fixpoint py_for {A S} (l : list A) (s : S) (f : A -> S -> result S) : result S :=
  match l with
  | [] => Ok s
  | x :: t => do s' <- f x s; py_for t s' f
  end.

(* A[n] = B[n] *)
Definition py_copyfield (a2 a1 : sarray) (n : string) : result sarray :=
  match find_field n (fields a1) with
  | Some f => assign_field a2 (shape a1) f
  | None => Err EKey
  end.
(* A[n] = v  (v already of the field's type: a scalar, one cell or the full column) *)
Definition py_setval (a : sarray) (n : string) (v : dval) : result sarray :=
  match find_field n (fields a) with
  | Some g => do data <- fill_data (nelem a) (fdesc g) v; Ok (mkA (shape a) (put_field n data (fields a)))
  | None => Err EKey
  end.

(* arrlist[0] (the source tests len(arrlist) first) *)
Definition py_first (l : list sarray) : sarray := hd (mkA [] []) l.

(* C07 — the property as Props, plus boolean checkers (proved sound in Proofs.v) that the
   correspondence run evaluates on the implementation's outputs.

   A field is (descr entry, column bytes); "field f of the result IS field f of the input"
   therefore says: same name, same element type and byte order, same sub-array shape and
   identical bytes in every element.  The documented field lists are written as list
   expressions over the input's field list. *)
From EsVerif.Common Require Import Base Bytes.
From Coq.Strings Require Import Byte.
From Coq.Strings Require String.
From EsVerif.C07 Require Import Model.

(* ---------------------------------------------------------- well-formedness *)
Definition wf_field (n : Z) (f : field) : Prop :=
  len (fdata f) = n /\ Forall (fun c => len c = cellsize (fdesc f)) (fdata f).
Definition wf (a : sarray) : Prop :=
  Forall (fun x => 0 <= x) (shape a) /\ NoDup (names a) /\ fields a <> []
  /\ Forall (wf_field (nelem a)) (fields a).

Definition wf_field_b (n : Z) (f : field) : bool :=
  (len (fdata f) =? n) && forallb (fun c => len c =? cellsize (fdesc f)) (fdata f).
Definition wf_b (a : sarray) : bool :=
  forallb (fun x => 0 <=? x) (shape a) && nodup_b (names a)
  && negb (match fields a with [] => true | _ => false end)
  && forallb (wf_field_b (nelem a)) (fields a).

(* the names / default values the caller supplied, whatever container they came in *)
Definition given (x : names_arg) : list string :=
  match x with NScalar s => [s] | NList l | NTuple l | NArray l => l end.
Definition given_vals (x : vals_arg) : list dval :=
  match x with VSingle v => [v] | VList l => l end.

(* the field of [a] called n, as a zero- or one-element list *)
Definition pick (a : sarray) (n : string) : list field :=
  match find_field n (fields a) with Some f => [f] | None => [] end.

(* ---------------------------------------------------------------- extract *)
Definition extract_rejects (a : sarray) (ks : list string) (strict : bool) : Prop :=
  (strict = true /\ exists n, In n ks /\ ~ In n (names a))          (* missing name, strict *)
  \/ (forall f, In f (fields a) -> ~ In (fname f) ks).               (* no field kept *)
Definition extract_ok (a : sarray) (ks : list string) (r : sarray) : Prop :=
  shape r = shape a /\ fields r = filter (fun f => memb (fname f) ks) (fields a).
Definition extract_spec (a : sarray) (ks : list string) (strict : bool) (out : result sarray) : Prop :=
  (extract_rejects a ks strict /\ exists e, out = Err e)
  \/ (~ extract_rejects a ks strict /\ exists r, out = Ok r /\ extract_ok a ks r).

Definition extract_rejects_b (a : sarray) (ks : list string) (strict : bool) : bool :=
  (strict && negb (forallb (fun n => memb n (names a)) ks))
  || forallb (fun f => negb (memb (fname f) ks)) (fields a).
Definition extract_check (a : sarray) (ks : list string) (strict : bool) (out : result sarray) : bool :=
  if extract_rejects_b a ks strict then negb (is_ok out)
  else match out with
       | Ok r => sarray_eqb r (mkA (shape a) (filter (fun f => memb (fname f) ks) (fields a)))
       | Err _ => false
       end.

(* ----------------------------------------------------------------- remove *)
Definition remove_rejects (a : sarray) (ks : list string) : Prop :=
  forall f, In f (fields a) -> In (fname f) ks.                      (* no field left *)
Definition remove_ok (a : sarray) (ks : list string) (r : sarray) : Prop :=
  shape r = shape a /\ fields r = filter (fun f => negb (memb (fname f) ks)) (fields a).
Definition remove_spec (a : sarray) (ks : list string) (out : result sarray) : Prop :=
  (remove_rejects a ks /\ exists e, out = Err e)
  \/ (~ remove_rejects a ks /\ exists r, out = Ok r /\ remove_ok a ks r).

Definition remove_rejects_b (a : sarray) (ks : list string) : bool :=
  forallb (fun f => memb (fname f) ks) (fields a).
Definition remove_check (a : sarray) (ks : list string) (out : result sarray) : bool :=
  if remove_rejects_b a ks then negb (is_ok out)
  else match out with
       | Ok r => sarray_eqb r (mkA (shape a) (filter (fun f => negb (memb (fname f) ks)) (fields a)))
       | Err _ => false
       end.

(* ---------------------------------------------------------------- reorder *)
(* named fields first, in the order given (absent names skipped when not strict), then the
   others in original order.  Stated for name lists without repetition ("orderings"). *)
Definition reorder_rejects (a : sarray) (ks : list string) (strict : bool) : Prop :=
  strict = true /\ exists n, In n ks /\ ~ In n (names a).
Definition reorder_fields_spec (a : sarray) (ks : list string) : list field :=
  flat_map (pick a) ks ++ filter (fun f => negb (memb (fname f) ks)) (fields a).
Definition reorder_ok (a : sarray) (ks : list string) (r : sarray) : Prop :=
  shape r = shape a /\ fields r = reorder_fields_spec a ks.
Definition reorder_spec (a : sarray) (ks : list string) (strict : bool) (out : result sarray) : Prop :=
  (reorder_rejects a ks strict /\ exists e, out = Err e)
  \/ (~ reorder_rejects a ks strict /\ exists r, out = Ok r /\ reorder_ok a ks r).

Definition reorder_rejects_b (a : sarray) (ks : list string) (strict : bool) : bool :=
  strict && negb (forallb (fun n => memb n (names a)) ks).
Definition reorder_check (a : sarray) (ks : list string) (strict : bool) (out : result sarray) : bool :=
  if reorder_rejects_b a ks strict then negb (is_ok out)
  else match out with
       | Ok r => sarray_eqb r (mkA (shape a) (reorder_fields_spec a ks))
       | Err _ => false
       end.

(* -------------------------------------------------------------------- add *)
(* what "set to the supplied default" means for each form of default value *)
Definition default_data (n : Z) (d : dentry) (v : dval) : list (list byte) :=
  match v with
  | DScalar item => repeat (concat (repeat item (Z.to_nat (prodZ (dsub d))))) (Z.to_nat n)
  | DRow cell => repeat cell (Z.to_nat n)
  | DFull cells => cells
  end.
(* the value has the extent numpy needs to assign it to field d of an n-element array *)
Definition dval_ok (n : Z) (d : dentry) (v : dval) : Prop :=
  match v with
  | DScalar item => len item = itemsize (dtype d)
  | DRow cell => len cell = cellsize d
  | DFull cells => len cells = n /\ Forall (fun c => len c = cellsize d) cells
  end.
Definition dval_ok_b (n : Z) (d : dentry) (v : dval) : bool :=
  match v with
  | DScalar item => len item =? itemsize (dtype d)
  | DRow cell => len cell =? cellsize d
  | DFull cells => (len cells =? n) && forallb (fun c => len c =? cellsize d) cells
  end.
Definition new_fields (n : Z) (add : list dentry) (defaults : option (list dval)) : list field :=
  match defaults with
  | None => map (zero_field n) add
  | Some vs => map (fun dv => mkF (fst dv) (default_data n (fst dv) (snd dv))) (combine add vs)
  end.
Definition defaults_ok (n : Z) (add : list dentry) (defaults : option (list dval)) : Prop :=
  match defaults with
  | None => True
  | Some vs => length vs = length add /\ Forall (fun dv => dval_ok n (fst dv) (snd dv)) (combine add vs)
  end.
Definition defaults_ok_b (n : Z) (add : list dentry) (defaults : option (list dval)) : bool :=
  match defaults with
  | None => true
  | Some vs => (length vs =? length add)%nat
               && forallb (fun dv => dval_ok_b n (fst dv) (snd dv)) (combine add vs)
  end.

Definition add_rejects (a : sarray) (add : list dentry) : Prop :=
  exists d, In d add /\ In (dname d) (names a).                      (* existing name *)
Definition add_ok (a : sarray) (add : list dentry) (defaults : option (list dval)) (r : sarray) : Prop :=
  shape r = shape a /\ fields r = fields a ++ new_fields (nelem a) add defaults.
Definition add_spec (a : sarray) (add : list dentry) (defaults : option (list dval))
           (out : result sarray) : Prop :=
  (add_rejects a add /\ exists e, out = Err e)
  \/ (~ add_rejects a add /\ exists r, out = Ok r /\ add_ok a add defaults r).

Definition add_rejects_b (a : sarray) (add : list dentry) : bool :=
  existsb (fun d => memb (dname d) (names a)) add.
Definition add_check (a : sarray) (add : list dentry) (defaults : option (list dval))
           (out : result sarray) : bool :=
  if add_rejects_b a add then negb (is_ok out)
  else match out with
       | Ok r => sarray_eqb r (mkA (shape a) (fields a ++ new_fields (nelem a) add defaults))
       | Err _ => false
       end.

(* ---------------------------------------------------------------- combine *)
Definition combine_rejects (arrs : list sarray) : Prop :=
  arrs = []
  \/ (exists a, In a arrs /\ nelem a <> nelem (hd (mkA [] []) arrs))    (* different length *)
  \/ ~ NoDup (concat (map names arrs)).                                 (* shared name *)
Definition combine_ok (arrs : list sarray) (r : sarray) : Prop :=
  shape r = shape (hd (mkA [] []) arrs) /\ fields r = concat (map fields arrs).
Definition combine_spec (arrs : list sarray) (out : result sarray) : Prop :=
  (combine_rejects arrs /\ exists e, out = Err e)
  \/ (~ combine_rejects arrs /\ exists r, out = Ok r /\ combine_ok arrs r).
(* the arrays the statement speaks about: each a valid structured array (distinct names), and
   arrays of the same length have the same shape *)
Definition combine_scope (arrs : list sarray) : Prop :=
  forall a, In a arrs ->
    NoDup (names a) /\ (nelem a = nelem (hd (mkA [] []) arrs) -> shape a = shape (hd (mkA [] []) arrs)).

Definition combine_rejects_b (arrs : list sarray) : bool :=
  match arrs with
  | [] => true
  | a0 :: _ => negb (forallb (fun a => nelem a =? nelem a0) arrs)
               || negb (nodup_b (concat (map names arrs)))
  end.
Definition combine_scope_b (arrs : list sarray) : bool :=
  match arrs with
  | [] => true
  | a0 :: _ => forallb (fun a => nodup_b (names a)
                                 && (negb (nelem a =? nelem a0) || zlist_eqb (shape a) (shape a0))) arrs
  end.
Definition combine_check (arrs : list sarray) (out : result sarray) : bool :=
  if combine_rejects_b arrs then negb (is_ok out)
  else match out with
       | Ok r => sarray_eqb r (mkA (shape (hd (mkA [] []) arrs)) (concat (map fields arrs)))
       | Err _ => false
       end.

(* ------------------------------------------------------------ copy_fields *)
(* common fields have the same element type and sub-array shape (numpy casts otherwise: not
   modelled) *)
Definition compat (a1 a2 : sarray) : Prop :=
  forall f g, In f (fields a1) -> In g (fields a2) -> fname f = fname g ->
    same_type (fdesc f) (fdesc g) = true.
Definition compat_b (a1 a2 : sarray) : bool :=
  forallb (fun f => forallb (fun g => negb (String.eqb (fname f) (fname g))
                                      || same_type (fdesc f) (fdesc g)) (fields a2)) (fields a1).
(* after copy_fields(a1, a2): a2 keeps its shape and dtype; every field whose name also occurs
   in a1 holds a1's bytes, every other field is untouched *)
Definition copy_ok (a1 a2 r : sarray) : Prop :=
  shape r = shape a2 /\ descr r = descr a2
  /\ (forall n f1, find_field n (fields a1) = Some f1 -> In n (names a2) ->
        exists f, find_field n (fields r) = Some f /\ fdata f = fdata f1)
  /\ (forall n, ~ In n (names a1) -> find_field n (fields r) = find_field n (fields a2)).

Definition copy_expected (a1 a2 : sarray) : list field :=
  map (fun g => match find_field (fname g) (fields a1) with
                | Some f => set_data g (fdata f) | None => g end) (fields a2).
Definition copy_check (a1 a2 : sarray) (out : result sarray) : bool :=
  match out with
  | Ok r => sarray_eqb r (mkA (shape a2) (copy_expected a1 a2))
  | Err _ => false
  end.

(* ---------------------------------------------------- copy_fields_by_name *)
(* for distinct names: each named field that exists is set to its value, all others untouched *)
Definition cfbn_ok (a : sarray) (ns : list string) (vs : list dval) (r : sarray) : Prop :=
  shape r = shape a /\ descr r = descr a
  /\ (forall n v g, In (n, v) (combine ns vs) -> find_field n (fields a) = Some g ->
        find_field n (fields r) = Some (mkF (fdesc g) (default_data (nelem a) (fdesc g) v)))
  /\ (forall n, ~ In n ns -> find_field n (fields r) = find_field n (fields a)).
Definition cfbn_scope (a : sarray) (ns : list string) (vs : list dval) : Prop :=
  NoDup (names a) /\ NoDup ns /\ length ns = length vs
  /\ forall n v g, In (n, v) (combine ns vs) -> find_field n (fields a) = Some g ->
                   dval_ok (nelem a) (fdesc g) v.

Fixpoint assoc (n : string) (nv : list (string * dval)) : option dval :=
  match nv with
  | [] => None
  | (m, v) :: t => if String.eqb m n then Some v else assoc n t
  end.
Definition cfbn_expected (a : sarray) (ns : list string) (vs : list dval) : list field :=
  map (fun g => match assoc (fname g) (combine ns vs) with
                | Some v => mkF (fdesc g) (default_data (nelem a) (fdesc g) v)
                | None => g end) (fields a).
Definition cfbn_scope_b (a : sarray) (ns : list string) (vs : list dval) : bool :=
  nodup_b (names a) && nodup_b ns && (length ns =? length vs)%nat
  && forallb (fun g => match assoc (fname g) (combine ns vs) with
                       | Some v => dval_ok_b (nelem a) (fdesc g) v | None => true end) (fields a).
Definition cfbn_check (a : sarray) (ns : list string) (vs : list dval) (out : result sarray) : bool :=
  match out with
  | Ok r => sarray_eqb r (mkA (shape a) (cfbn_expected a ns vs))
  | Err _ => false
  end.

(* ------------------------------------------------------------------ split *)
Definition split_rejects (a : sarray) (fl : list string) : Prop :=
  exists n, In n fl /\ ~ In n (names a).
(* one view per requested name, in the order requested; the view of field f has f's element
   type (incl. byte order), shape (array shape ++ subshape) and f's bytes *)
Definition split_ok (a : sarray) (fl : list string) (vs : list fview) : Prop :=
  Forall2 (fun n v => exists f, In f (fields a) /\ fname f = n /\ v = view_of a f) fl vs.
Definition split_spec (a : sarray) (fl : list string) (out : result (list fview * list string)) : Prop :=
  (split_rejects a fl /\ exists e, out = Err e)
  \/ (~ split_rejects a fl /\ exists vs, out = Ok (vs, fl) /\ split_ok a fl vs).

Definition split_rejects_b (a : sarray) (fl : list string) : bool :=
  negb (forallb (fun n => memb n (names a)) fl).
Definition slist_eqb : list string -> list string -> bool := list_eqb String.eqb.
Definition split_check (a : sarray) (fl : list string) (out : result (list fview * list string)) : bool :=
  if split_rejects_b a fl then negb (is_ok out)
  else match out with
       | Ok (vs, nm) => slist_eqb nm fl
                        && list_eqb fview_eqb vs (map (view_of a) (flat_map (pick a) fl))
       | Err _ => false
       end.

(* --------------------------------------------------------- compare_arrays *)
(* numpy's `==` on decoded items *)
Definition fval_eq (a b : fval) : Prop :=
  match a, b with FNum x, FNum y => x = y | _, _ => False end.       (* NaN equals nothing *)
Definition value_eq (a b : value) : Prop :=
  match a, b with
  | VInt x, VInt y => x = y
  | VFloat x, VFloat y => fval_eq x y
  | VComplex a1 b1, VComplex a2 b2 => fval_eq a1 a2 /\ fval_eq b1 b2
  | VStr s, VStr t => s = t
  | _, _ => False
  end.
(* the data of the two arrays match field by field *)
Definition fields_match (a1 a2 : sarray) : Prop :=
  forall n f1 f2, find_field n (fields a1) = Some f1 -> find_field n (fields a2) = Some f2 ->
    shape a1 ++ dsub (fdesc f1) = shape a2 ++ dsub (fdesc f2)
    /\ Forall2 value_eq (field_values f1) (field_values f2).
Definition same_names (a1 a2 : sarray) : Prop :=
  forall n, In n (names a1) <-> In n (names a2).
Definition compare_true (a1 a2 : sarray) (ignore_missing : bool) : Prop :=
  fields_match a1 a2 /\ (ignore_missing = false -> same_names a1 a2).
(* all common fields have comparable element types (else numpy casts: not modelled) *)
Definition comparable (a1 a2 : sarray) : Prop :=
  forall n f1 f2, find_field n (fields a1) = Some f1 -> find_field n (fields a2) = Some f2 ->
    shape a1 ++ dsub (fdesc f1) = shape a2 ++ dsub (fdesc f2) ->
    cmp_ok (dtype (fdesc f1)) (dtype (fdesc f2)) = true.

Definition fval_eqb (a b : fval) : bool :=
  match a, b with FNum x, FNum y => x =? y | _, _ => false end.
Definition value_eqb (a b : value) : bool :=
  match a, b with
  | VInt x, VInt y => x =? y
  | VFloat x, VFloat y => fval_eqb x y
  | VComplex a1 b1, VComplex a2 b2 => fval_eqb a1 a2 && fval_eqb b1 b2
  | VStr s, VStr t => zlist_eqb s t
  | _, _ => false
  end.
Fixpoint all_eq (l1 l2 : list value) : bool :=
  match l1, l2 with
  | [], [] => true
  | x :: t1, y :: t2 => value_eqb x y && all_eq t1 t2
  | _, _ => false
  end.
Definition compare_true_b (a1 a2 : sarray) (ignore_missing : bool) : bool :=
  forallb (fun f1 => match find_field (fname f1) (fields a2) with
                     | None => true
                     | Some f2 => zlist_eqb (shape a1 ++ dsub (fdesc f1)) (shape a2 ++ dsub (fdesc f2))
                                  && all_eq (field_values f1) (field_values f2)
                     end) (fields a1)
  && (ignore_missing || (forallb (fun n => memb n (names a2)) (names a1)
                         && forallb (fun n => memb n (names a1)) (names a2))).
Definition comparable_b (a1 a2 : sarray) : bool :=
  forallb (fun f1 => match find_field (fname f1) (fields a2) with
                     | None => true
                     | Some f2 => negb (zlist_eqb (shape a1 ++ dsub (fdesc f1)) (shape a2 ++ dsub (fdesc f2)))
                                  || cmp_ok (dtype (fdesc f1)) (dtype (fdesc f2))
                     end) (fields a1).
(* the implementation's answer must be True exactly when the data (and, on request, the name
   sets) match *)
Definition compare_check (a1 a2 : sarray) (ignore_missing : bool) (out : result bool) : bool :=
  match out with
  | Ok b => Bool.eqb b (compare_true_b a1 a2 ignore_missing)
  | Err _ => false
  end.

(* C07 — the skeletons of the anchored functions with the parts that harness/props/c07_translate.py
   reads out of the SOURCE of the tree under check left open as parameters:

     - the class tuple of every `if not isinstance(x, (...)): x = [x]` dispatch        ([forms])
     - the comparison operator of every guard that raises                              ([cmpop])
     - the polarity (`in` / `not in`) of the two descr filter loops                    ([bool])
     - which attribute of the input (`.shape` or `.size`) dimensions the output         ([dims])
     - the numpy allocator used for the output                                          ([allocfn])

   Gen.v (generated) holds the values found in the source; Tie.v proves that the skeletons
   instantiated at those values ARE the functions of Model.v, so a change of one of these parts
   of the source changes a statement that is re-checked on every run.  No proofs in this file. *)
From EsVerif.Common Require Import Base Bytes.
From Coq.Strings Require Import Byte.
From Coq.Strings Require String.
From EsVerif.C07 Require Import Model.

Inductive cmpop := CEq | CNe | CLt | CLe | CGt | CGe.
Definition cmp_eval (c : cmpop) (x y : Z) : bool :=
  match c with
  | CEq => x =? y | CNe => negb (x =? y) | CLt => x <? y | CLe => x <=? y | CGt => x >? y | CGe => x >=? y
  end.

(* classes named in an isinstance test *)
Record forms := mkForms { f_tuple : bool; f_list : bool; f_ndarray : bool; f_str : bool }.

(* `if not isinstance(x, FORMS): x = [x]` on a names argument.  Some l: the loop iterates the
   names l.  None: a list/tuple/ndarray was wrapped as ONE object that is not a str (what the
   unrepaired remove_fields / copy_fields_by_name did with a tuple): outside the model. *)
Definition wrap_by (f : forms) (x : names_arg) : option (list string) :=
  match x with
  | NScalar s => if f_str f then None else Some [s]
  | NList l => if f_list f then Some l else None
  | NTuple l => if f_tuple f then Some l else None
  | NArray l => if f_ndarray f then Some l else None
  end.
Definition vwrap_by (f : forms) (v : vals_arg) : option (list dval) :=
  match v with
  | VSingle v => Some [v]
  | VList l => if f_list f then Some l else None
  end.
(* `if isinstance(fields, str): fields = [fields]` (split_fields): the positive form *)
Definition wrap_if (f : forms) (x : names_arg) : option (list string) :=
  match x with
  | NScalar s => if f_str f then Some [s] else None     (* a bare str would be iterated by character *)
  | NList l => if f_list f then None else Some l
  | NTuple l => if f_tuple f then None else Some l
  | NArray l => if f_ndarray f then None else Some l
  end.

Inductive dims := UseShape | UseSize.
Definition alloc_dims (d : dims) (a : sarray) : list Z :=
  match d with UseShape => shape a | UseSize => [nelem a] end.

Inductive allocfn := AZeros | AEmpty | AOther.

Definition unmodelled {A} : result A := Err EOther.

(* copy_fields with its size guard open *)
Definition copy_fields_g (guard : cmpop) (a1 a2 : sarray) : result sarray :=
  if cmp_eval guard (nelem a1) (nelem a2) then Err EValue else copy_loop (shape a1) (fields a1) a2.

(* the descr filter loop of extract_fields / remove_fields:
     for d in arr.dtype.descr: name = d[0]; if name [not] in NAMES: new_descr.append(d) *)
Definition descr_filter (keep_if_in : bool) (nms : list string) (a : sarray) : list dentry :=
  filter (fun d => Bool.eqb (memb (dname d) nms) keep_if_in) (descr a).

Definition extract_fields_g (fm : forms) (keep_if_in : bool) (empty_guard : cmpop) (dm : dims)
           (a : sarray) (keepnames : names_arg) (strict : bool) : result sarray :=
  match wrap_by fm keepnames with
  | None => unmodelled
  | Some keep =>
    if strict && negb (forallb (fun n => memb n (names a)) keep) then Err EValue
    else
      let new_descr := descr_filter keep_if_in keep a in
      if cmp_eval empty_guard (len new_descr) 0 then Err EValue
      else do new_arr <- np_zeros (alloc_dims dm a) new_descr; copy_fields a new_arr
  end.

Definition remove_fields_g (fm : forms) (keep_if_in : bool) (empty_guard : cmpop) (dm : dims)
           (a : sarray) (rmnames : names_arg) : result sarray :=
  match wrap_by fm rmnames with
  | None => unmodelled
  | Some rm =>
    let new_descr := descr_filter keep_if_in rm a in
    if cmp_eval empty_guard (len new_descr) 0 then Err EValue
    else do new_arr <- np_zeros (alloc_dims dm a) new_descr; copy_fields a new_arr
  end.

Definition reorder_fields_g (fm : forms) (dm : dims)
           (a : sarray) (ordered_names : names_arg) (strict : bool) : result sarray :=
  match wrap_by fm ordered_names with
  | None => unmodelled
  | Some ordered =>
    do first <- reorder_named (descr a) ordered strict;
    let new_names := map dname first in
    let rest := filter (fun d => negb (memb (dname d) new_names)) (descr a) in
    do new_arr <- np_zeros (alloc_dims dm a) (first ++ rest);
    copy_fields a new_arr
  end.

Definition copy_fields_by_name_g (fn fv : forms) (guard : cmpop)
           (a : sarray) (nms : names_arg) (vals : vals_arg) : result sarray :=
  match wrap_by fn nms, vwrap_by fv vals with
  | Some ns, Some vs =>
    if cmp_eval guard (len ns) (len vs) then Err EValue else cfbn_loop a (combine ns vs)
  | _, _ => unmodelled
  end.

Definition add_fields_g (fd : forms) (guard : cmpop) (dm : dims)
           (a : sarray) (add : list dentry) (defaults : option vals_arg) : result sarray :=
  if negb (nodup_b (map dname add)) then Err EValue
  else if existsb (fun d => memb (dname d) (names a)) add then Err EValue
  else
    let new_descr := descr a ++ add in
    do z <- np_zeros (alloc_dims dm a) new_descr;
    do new_arr <- copy_fields a z;
    match defaults with
    | None => Ok new_arr
    | Some dv =>
      match vwrap_by fd dv with
      | None => unmodelled
      | Some dl =>
        if cmp_eval guard (len dl) (len add) then Err EValue
        else copy_fields_by_name new_arr (NList (map dname add)) (VList dl)
      end
    end.

(* combine_fields: `len(arrlist) G0 0` raises, `len(arrlist) G1 1` returns the only array,
   `arr.size GS num` raises, output dimensioned by [dm] of the first array *)
Fixpoint combine_descr_g (gs : cmpop) (num : Z) (arrs : list sarray) : result (list dentry) :=
  match arrs with
  | [] => Ok []
  | a :: t => if cmp_eval gs (nelem a) num then Err EValue
              else do r <- combine_descr_g gs num t; Ok (descr a ++ r)
  end.
Definition combine_fields_g (g0 g1 gs : cmpop) (dm : dims) (arrlist : list sarray) : result sarray :=
  if cmp_eval g0 (len arrlist) 0 then Err EValue
  else match arrlist with
       | [] => unmodelled                                   (* arrlist[0] of an empty list *)
       | a0 :: _ =>
         if cmp_eval g1 (len arrlist) 1 then Ok a0
         else
           do ds <- combine_descr_g gs (nelem a0) arrlist;
           do z <- np_zeros (alloc_dims dm a0) ds;
           combine_copy arrlist z
       end.

Definition split_names_g (fm : forms) (a : sarray) (flds : option names_arg) : option (list string) :=
  match flds with None => Some (names a) | Some x => wrap_if fm x end.

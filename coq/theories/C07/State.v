(* C07 — the nine functions as operations on a STORE of array objects (what a Python process
   holds): which objects a call may write, and that an answer depends on nothing but the present
   contents of the call's own argument objects (no history).  Definitions first, lemmas after. *)
From EsVerif.Common Require Import Base Bytes.
From Coq.Strings Require Import Byte.
From Coq.Strings Require String.
From EsVerif.C07 Require Import Model Spec Basics Proofs.

Definition store := list sarray.              (* object id = position *)

Inductive op :=
| OExtract (i : nat) (k : names_arg) (strict : bool)
| ORemove (i : nat) (k : names_arg)
| OReorder (i : nat) (k : names_arg) (strict : bool)
| OAdd (i : nat) (add : list dentry) (dv : option vals_arg)
| OCombine (ids : list nat)
| OCopy (i1 i2 : nat)                          (* copy_fields(arr1, arr2): writes arr2 *)
| OCfbn (i : nat) (k : names_arg) (v : vals_arg)   (* copy_fields_by_name: writes arr *)
| OSplit (i : nat) (flds : option names_arg)
| OCompare (i1 i2 : nat) (im : bool).

(* what the caller gets back *)
Inductive outv :=
| RNew (a : sarray)                            (* a new array object *)
| RNone                                        (* None (in-place functions) *)
| RViews (vs : list fview) (nm : list string)
| RBool (b : bool).

Definition get (s : store) (i : nat) : result sarray :=
  match nth_error s i with Some a => Ok a | None => Err EOther end.
Fixpoint gets (s : store) (ids : list nat) : result (list sarray) :=
  match ids with
  | [] => Ok []
  | i :: t => do a <- get s i; do r <- gets s t; Ok (a :: r)
  end.

(* the argument objects of a call *)
Definition args (o : op) : list nat :=
  match o with
  | OExtract i _ _ | ORemove i _ | OReorder i _ _ | OAdd i _ _ | OCfbn i _ _ | OSplit i _ => [i]
  | OCombine ids => ids
  | OCopy i1 i2 | OCompare i1 i2 _ => [i1; i2]
  end.
(* the only object a call may write *)
Definition written (o : op) : option nat :=
  match o with OCopy _ i2 => Some i2 | OCfbn i _ _ => Some i | _ => None end.

(* one call: new store and answer.  A call that raises leaves the store as it was: for
   copy_fields this is faithful because a refused assignment is refused at the FIRST common
   field (the shapes are the same for all fields); for copy_fields_by_name it is faithful only
   when the first offending value is the first one (stated in the frame lemma as the Ok case). *)
Definition step (s : store) (o : op) : store * result outv :=
  match o with
  | OExtract i k strict => (s, do a <- get s i; do r <- extract_fields a k strict; Ok (RNew r))
  | ORemove i k => (s, do a <- get s i; do r <- remove_fields a k; Ok (RNew r))
  | OReorder i k strict => (s, do a <- get s i; do r <- reorder_fields a k strict; Ok (RNew r))
  | OAdd i add dv => (s, do a <- get s i; do r <- add_fields a add dv; Ok (RNew r))
  | OCombine ids => (s, do l <- gets s ids; do r <- combine_fields l; Ok (RNew r))
  | OSplit i flds => (s, do a <- get s i; do r <- split_fields a flds; Ok (RViews (fst r) (snd r)))
  | OCompare i1 i2 im => (s, do a1 <- get s i1; do a2 <- get s i2; do b <- compare_arrays a1 a2 im; Ok (RBool b))
  | OCopy i1 i2 =>
    match (do a1 <- get s i1; do a2 <- get s i2; copy_fields a1 a2) with
    | Ok r => (set_nth s i2 r, Ok RNone)
    | Err e => (s, Err e)
    end
  | OCfbn i k v =>
    match (do a <- get s i; copy_fields_by_name a k v) with
    | Ok r => (set_nth s i r, Ok RNone)
    | Err e => (s, Err e)
    end
  end.

(* a whole session: the answers of a sequence of calls *)
Fixpoint run (s : store) (os : list op) : list (result outv) :=
  match os with
  | [] => []
  | o :: t => let (s', r) := step s o in r :: run s' t
  end.
Fixpoint final (s : store) (os : list op) : store :=
  match os with [] => s | o :: t => final (fst (step s o)) t end.

(* ------------------------------------------------------------------ lemmas *)
Lemma nth_error_set_nth_neq {A} (l : list A) n m v : n <> m -> nth_error (set_nth l n v) m = nth_error l m.
Proof. revert n m; induction l as [|x t IH]; intros [|n] [|m] H; simpl; auto; congruence. Qed.
Lemma nth_error_set_nth_eq {A} (l : list A) n v x : nth_error l n = Some x -> nth_error (set_nth l n v) n = Some v.
Proof. revert n; induction l as [|y t IH]; intros [|n] H; simpl in *; try discriminate; auto. Qed.

(* FRAME 1: a call writes at most its one documented output object; every other object of the
   process — in particular every input of the seven functions that return new values, and arr1
   of copy_fields — is exactly what it was, and no object appears or disappears. *)
Lemma step_frame s o :
  length (fst (step s o)) = length s
  /\ forall j, written o <> Some j -> nth_error (fst (step s o)) j = nth_error s j.
Proof.
  destruct o; cbn [step fst written]; try (split; [reflexivity|reflexivity]).
  - destruct (do a1 <- get s i1; do a2 <- get s i2; copy_fields a1 a2); cbn [fst];
      (split; [try apply set_nth_length; reflexivity|]); intros j Hj; [|reflexivity].
    apply nth_error_set_nth_neq. congruence.
  - destruct (do a <- get s i; copy_fields_by_name a k v); cbn [fst];
      (split; [try apply set_nth_length; reflexivity|]); intros j Hj; [|reflexivity].
    apply nth_error_set_nth_neq. congruence.
Qed.

Lemma step_pure s o : written o = None -> fst (step s o) = s.
Proof. destruct o; cbn [written]; try discriminate; reflexivity. Qed.

(* FRAME 2: what copy_fields writes into arr2: shape and dtype kept, common fields = arr1's bytes,
   every other field of arr2 untouched (copy_ok); a refused call leaves arr2 as it was. *)
Lemma step_copy_frame s i1 i2 a1 a2 :
  nth_error s i1 = Some a1 -> nth_error s i2 = Some a2 ->
  NoDup (names a1) -> compat a1 a2 ->
  (nelem a1 = nelem a2 /\ assign_ok (shape a1) (shape a2) = true ->
     exists r, step s (OCopy i1 i2) = (set_nth s i2 r, Ok RNone) /\ copy_ok a1 a2 r
               /\ nth_error (fst (step s (OCopy i1 i2))) i2 = Some r)
  /\ (nelem a1 <> nelem a2 -> step s (OCopy i1 i2) = (s, Err EValue)).
Proof.
  intros E1 E2 Hn Hc. split.
  - intros [He Hs]. cbn [step]. unfold get. rewrite E1, E2. cbn [bind].
    rewrite (copy_model a1 a2 Hn Hc He Hs). eexists. split; [reflexivity|]. split.
    + now apply copy_expected_ok.
    + cbn [fst]. now apply (nth_error_set_nth_eq s i2 _ a2).
  - intro Hne. cbn [step]. unfold get. rewrite E1, E2. cbn [bind]. now rewrite (copy_rejects a1 a2 Hne).
Qed.

(* NO HISTORY: the answer of a call, and the new content of the object it writes, are a function
   of the present contents of its argument objects only — two stores that agree on the arguments
   give the same answer, whatever else they hold and whatever calls produced them. *)
Lemma gets_local s t ids : (forall i, In i ids -> nth_error s i = nth_error t i) -> gets s ids = gets t ids.
Proof.
  induction ids as [|i r IH]; intro H; [reflexivity|]. cbn [gets]. unfold get.
  rewrite (H i (or_introl eq_refl)), IH; [reflexivity|]. intros j Hj. apply H. now right.
Qed.

Lemma step_local s t o :
  (forall i, In i (args o) -> nth_error s i = nth_error t i) ->
  snd (step s o) = snd (step t o)
  /\ forall j, written o = Some j -> nth_error (fst (step s o)) j = nth_error (fst (step t o)) j.
Proof.
  intro H.
  assert (G : forall i, In i (args o) -> get s i = get t i) by (intros i Hi; unfold get; now rewrite (H i Hi)).
  destruct o; cbn [args] in *; cbn [step snd fst written].
  1-4, 8: (rewrite (G i (or_introl eq_refl)); split; [reflexivity|discriminate]).
  - rewrite (gets_local s t ids H). split; [reflexivity|discriminate].
  - rewrite (G i1 (or_introl eq_refl)), (G i2 (or_intror (or_introl eq_refl))).
    destruct (do a1 <- get t i1; do a2 <- get t i2; copy_fields a1 a2) as [r|e] eqn:E; cbn [snd fst].
    + split; [reflexivity|]. intros j Hj. injection Hj as <-.
      assert (Xt : exists x, nth_error t i2 = Some x).
      { unfold get in E. destruct (nth_error t i1); [|discriminate]. cbn [bind] in E.
        destruct (nth_error t i2) as [x|]; [eauto|discriminate]. }
      destruct Xt as [x Ex]. pose proof Ex as Es. rewrite <- (H i2 (or_intror (or_introl eq_refl))) in Es.
      now rewrite (nth_error_set_nth_eq s i2 r x Es), (nth_error_set_nth_eq t i2 r x Ex).
    + split; [reflexivity|]. intros j Hj. injection Hj as <-. apply H. right. now left.
  - rewrite (G i (or_introl eq_refl)).
    destruct (do a <- get t i; copy_fields_by_name a k v) as [r|e] eqn:E; cbn [snd fst].
    + split; [reflexivity|]. intros j Hj. injection Hj as <-.
      assert (Xt : exists x, nth_error t i = Some x).
      { unfold get in E. destruct (nth_error t i) as [x|]; [eauto|discriminate]. }
      destruct Xt as [x Ex]. pose proof Ex as Es. rewrite <- (H i (or_introl eq_refl)) in Es.
      now rewrite (nth_error_set_nth_eq s i r x Es), (nth_error_set_nth_eq t i r x Ex).
    + split; [reflexivity|]. intros j Hj. injection Hj as <-. apply H. now left.
  - rewrite (G i1 (or_introl eq_refl)), (G i2 (or_intror (or_introl eq_refl))). split; [reflexivity|discriminate].
Qed.

(* hence: calls that write nothing can be inserted anywhere in a session, or dropped from it,
   without changing any other answer (a cache that made an answer depend on an earlier call
   would contradict this) *)
Lemma run_insert_pure s o os : written o = None -> run s (o :: os) = snd (step s o) :: run s os.
Proof. intro H. cbn [run]. destruct (step s o) as [s' r] eqn:E. pose proof (step_pure s o H) as P. rewrite E in P. cbn in P. now subst. Qed.

Lemma run_app s os1 os2 : run s (os1 ++ os2) = run s os1 ++ run (final s os1) os2.
Proof.
  revert s; induction os1 as [|o t IH]; intro s; [reflexivity|]. cbn [app run final].
  destruct (step s o) as [s' r]. cbn [fst]. now rewrite IH.
Qed.

Lemma final_pure s os : Forall (fun o => written o = None) os -> final s os = s.
Proof.
  revert s; induction os as [|o t IH]; intros s H; [reflexivity|]. inversion H; subst. cbn [final].
  rewrite step_pure by assumption. now apply IH.
Qed.

Lemma history_irrelevant s pre o :
  Forall (fun p => written p = None) pre ->
  nth (length pre) (run s (pre ++ [o])) (Err EOther) = snd (step s o).
Proof.
  intro H. rewrite run_app, (final_pure s pre H). rewrite app_nth2; [|].
  - assert (L : length (run s pre) = length pre).
    { clear H. revert s. induction pre as [|p t IH]; intro s; [reflexivity|]. cbn [run]. destruct (step s p). cbn. now rewrite IH. }
    rewrite L, Nat.sub_diag. cbn [run]. destruct (step s o). reflexivity.
  - assert (L : length (run s pre) = length pre).
    { clear H. revert s. induction pre as [|p t IH]; intro s; [reflexivity|]. cbn [run]. destruct (step s p). cbn. now rewrite IH. }
    rewrite L. apply Nat.le_refl.
Qed.

(* C07 — split_fields and compare_arrays meet their specifications; soundness of all the
   boolean checkers and scope deciders that the correspondence run evaluates. *)
From EsVerif.Common Require Import Base Bytes.
From Coq.Strings Require Import Byte.
From Coq.Strings Require String.
From EsVerif.C07 Require Import Model Spec Basics Proofs.

(* ------------------------------------------------------------------ split *)
Lemma pick_found a n f : find_field n (fields a) = Some f -> pick a n = [f].
Proof. intro E. unfold pick. now rewrite E. Qed.
Lemma pick_missing a n : find_field n (fields a) = None -> pick a n = [].
Proof. intro E. unfold pick. now rewrite E. Qed.

Lemma split_loop_char a fl :
  split_loop a fl
  = if forallb (fun n => memb n (names a)) fl
    then Ok (map (view_of a) (flat_map (pick a) fl)) else Err EValue.
Proof.
  induction fl as [|n t IH]; simpl; [reflexivity|].
  destruct (find_field n (fields a)) as [f|] eqn:E.
  - assert (M : memb n (names a) = true).
    { apply memb_In. destruct (find_field_Some _ _ _ E) as [Hi <-]. unfold names. now apply in_map. }
    rewrite M, IH, (pick_found _ _ _ E). simpl.
    destruct (forallb (fun n0 => memb n0 (names a)) t); reflexivity.
  - assert (M : memb n (names a) = false) by (apply memb_false; now apply find_field_None).
    rewrite M. reflexivity.
Qed.

Lemma split_rejects_dec a fl : split_rejects_b a fl = true <-> split_rejects a fl.
Proof. unfold split_rejects_b, split_rejects. now rewrite negb_true_iff, forallb_memb_false. Qed.

Lemma split_views_ok a fl :
  (forall n, In n fl -> In n (names a)) -> split_ok a fl (map (view_of a) (flat_map (pick a) fl)).
Proof.
  unfold split_ok. induction fl as [|n t IH]; simpl; intro H; [constructor|].
  destruct (find_field_In_names _ _ (H n (or_introl eq_refl))) as [f Ef].
  rewrite (pick_found _ _ _ Ef). simpl. constructor.
  - exists f. destruct (find_field_Some _ _ _ Ef). auto.
  - apply IH. intros m Hm. apply H. now right.
Qed.

Lemma split_closed_spec a fl :
  split_spec a fl
    (if split_rejects_b a fl then Err EValue
     else Ok (map (view_of a) (flat_map (pick a) fl), fl)).
Proof.
  destruct (split_rejects_b a fl) eqn:R.
  - left. split; [now apply split_rejects_dec|eauto].
  - right. split; [exact (dec_false _ _ (split_rejects_dec a fl) R)|].
    eexists. split; [reflexivity|]. apply split_views_ok.
    unfold split_rejects_b in R. apply negb_false_iff in R. now apply forallb_memb.
Qed.

Definition requested (a : sarray) (flds : option names_arg) : list string :=
  match flds with None => names a | Some x => given x end.

Lemma split_char a flds :
  split_fields a flds
  = if split_rejects_b a (requested a flds) then Err EValue
    else Ok (map (view_of a) (flat_map (pick a) (requested a flds)), requested a flds).
Proof.
  unfold split_fields, split_rejects_b.
  assert (E : split_names a flds = requested a flds).
  { destruct flds as [x|]; simpl; [apply given_wrap|reflexivity]. }
  rewrite E, split_loop_char.
  destruct (forallb (fun n => memb n (names a)) (requested a flds)); reflexivity.
Qed.

Lemma split_model a flds : split_spec a (requested a flds) (split_fields a flds).
Proof. rewrite split_char. apply split_closed_spec. Qed.

(* per-field equality of a view, spelled out *)
Lemma split_view_equal a fl vs :
  split_ok a fl vs ->
  forall i n v, nth_error fl i = Some n -> nth_error vs i = Some v ->
    exists f, In f (fields a) /\ fname f = n /\ vtype v = dtype (fdesc f)
              /\ vshape v = shape a ++ dsub (fdesc f) /\ vdata v = fdata f.
Proof.
  unfold split_ok. intro H. induction H as [|n0 v0 t1 t2 H0 Ht IH]; intros i n v Hn Hv.
  - destruct i; discriminate.
  - destruct i as [|i]; simpl in Hn, Hv.
    + inversion Hn; inversion Hv; subst. destruct H0 as [f [Hf [En ->]]]. exists f. simpl. auto.
    + eapply IH; eassumption.
Qed.

(* --------------------------------------------------------- compare_arrays *)
Lemma fval_ne_eq x y : fval_ne x y = false <-> fval_eq x y.
Proof.
  destruct x as [|x], y as [|y]; simpl; try (split; [discriminate|tauto]).
  now rewrite negb_false_iff, Z.eqb_eq.
Qed.
Lemma value_ne_eq x y : value_ne x y = false <-> value_eq x y.
Proof.
  destruct x, y; simpl; try (split; [discriminate|tauto]).
  - now rewrite negb_false_iff, Z.eqb_eq.
  - apply fval_ne_eq.
  - now rewrite orb_false_iff, !fval_ne_eq.
  - now rewrite negb_false_iff, zlist_eqb_spec.
Qed.
Lemma any_ne_Forall2 l1 l2 : any_ne l1 l2 = false <-> Forall2 value_eq l1 l2.
Proof.
  revert l2. induction l1 as [|x t IH]; intros [|y t2]; simpl.
  - split; [constructor|reflexivity].
  - split; [discriminate|intro H; inversion H].
  - split; [discriminate|intro H; inversion H].
  - rewrite orb_false_iff, value_ne_eq, IH. split.
    + intros [H1 H2]. now constructor.
    + intro H. inversion H; auto.
Qed.

Definition field_ok (a1 a2 : sarray) (f1 : field) : Prop :=
  forall f2, find_field (fname f1) (fields a2) = Some f2 ->
    shape a1 ++ dsub (fdesc f1) = shape a2 ++ dsub (fdesc f2)
    /\ Forall2 value_eq (field_values f1) (field_values f2).
Definition field_cmp (a1 a2 : sarray) (f1 : field) : Prop :=
  forall f2, find_field (fname f1) (fields a2) = Some f2 ->
    shape a1 ++ dsub (fdesc f1) = shape a2 ++ dsub (fdesc f2) ->
    cmp_ok (dtype (fdesc f1)) (dtype (fdesc f2)) = true.

Lemma compare_field_char a1 a2 f1 :
  field_cmp a1 a2 f1 ->
  exists x, compare_field a1 a2 f1 = Ok x /\ (x = 0 \/ x = 1) /\ (x = 0 <-> field_ok a1 a2 f1).
Proof.
  intro Hc. unfold compare_field, field_ok.
  destruct (find_field (fname f1) (fields a2)) as [f2|] eqn:E.
  - destruct (zlist_eqb (shape a2 ++ dsub (fdesc f2)) (shape a1 ++ dsub (fdesc f1))) eqn:S; simpl.
    + apply zlist_eqb_spec in S. rewrite (Hc f2 E (eq_sym S)). simpl.
      destruct (any_ne (field_values f1) (field_values f2)) eqn:A.
      * exists 1. split; [reflexivity|]. split; [now right|]. split; [discriminate|].
        intro H. destruct (H f2 eq_refl) as [_ HF]. apply any_ne_Forall2 in HF. congruence.
      * exists 0. split; [reflexivity|]. split; [now left|]. split; [|reflexivity].
        intros _ f2' Ef. inversion Ef; subst f2'. split; [now symmetry|now apply any_ne_Forall2].
    + exists 1. split; [reflexivity|]. split; [now right|]. split; [discriminate|].
      intro H. destruct (H f2 eq_refl) as [HS _]. symmetry in HS. apply zlist_eqb_spec in HS. congruence.
  - exists 0. split; [reflexivity|]. split; [now left|]. split; [|reflexivity].
    intros _ f2 Ef. discriminate.
Qed.

Lemma compare_loop_char a1 a2 fs :
  (forall f, In f fs -> field_cmp a1 a2 f) ->
  exists nf, compare_loop a1 a2 fs = Ok nf /\ 0 <= nf /\ (nf = 0 <-> forall f, In f fs -> field_ok a1 a2 f).
Proof.
  induction fs as [|f t IH]; intro Hc.
  - exists 0. simpl. split; [reflexivity|]. split; [lia|]. split; [intros _ f []|reflexivity].
  - destruct (compare_field_char a1 a2 f (Hc f (or_introl eq_refl))) as [x [Ex [Hx Ix]]].
    destruct IH as [r [Er [Hr Ir]]]; [intros g Hg; apply Hc; now right|].
    exists (x + r). simpl. rewrite Ex, Er. simpl. split; [reflexivity|]. split; [lia|]. split.
    + intros H0 g [<-|Hg].
      * apply Ix. lia.
      * apply Ir; [lia|assumption].
    + intro H. assert (x = 0) by (apply Ix; apply H; now left).
      assert (r = 0) by (apply Ir; intros g Hg; apply H; now right). lia.
Qed.

Lemma count_missing_zero l1 l2 :
  0 <= count_missing l1 l2 /\ (count_missing l1 l2 = 0 <-> forall n, In n l1 -> In n l2).
Proof.
  unfold count_missing. split; [apply len_nonneg|].
  rewrite len_zero, filter_nil_forallb, forallb_forall. split; intros H n Hn; specialize (H n Hn).
  - rewrite negb_involutive in H. now apply memb_In.
  - rewrite negb_involutive. now apply memb_In.
Qed.

Lemma fields_match_iff a1 a2 :
  NoDup (names a1) -> (fields_match a1 a2 <-> forall f, In f (fields a1) -> field_ok a1 a2 f).
Proof.
  intro Hn. unfold fields_match, field_ok. split.
  - intros H f Hf f2 E2. apply (H (fname f) f f2); [now apply find_field_NoDup|assumption].
  - intros H n f1 f2 E1 E2. destruct (find_field_Some _ _ _ E1) as [Hi <-]. now apply H.
Qed.

Lemma compare_model a1 a2 im :
  NoDup (names a1) -> comparable a1 a2 ->
  exists b, compare_arrays a1 a2 im = Ok b /\ (b = true <-> compare_true a1 a2 im).
Proof.
  intros Hn Hc. unfold compare_arrays.
  destruct (compare_loop_char a1 a2 (fields a1)) as [nf [En [Hnf Inf]]].
  { intros f Hf f2 E2 ES. apply (Hc (fname f) f f2); [now apply find_field_NoDup|assumption|assumption]. }
  rewrite En. simpl. eexists. split; [reflexivity|].
  unfold compare_true. rewrite (fields_match_iff a1 a2 Hn), <- Inf.
  destruct (count_missing_zero (names a1) (names a2)) as [P1 Q1].
  destruct (count_missing_zero (names a2) (names a1)) as [P2 Q2].
  rewrite Z.eqb_eq. destruct im.
  - split; [intro H; split; [lia|discriminate]|intros [H _]; lia].
  - unfold same_names. split.
    + intro H. split; [lia|]. intros _ n. split; [apply Q1|apply Q2]; lia.
    + intros [H0 H]. specialize (H eq_refl).
      assert (count_missing (names a1) (names a2) = 0) by (apply Q1; intros n; apply H).
      assert (count_missing (names a2) (names a1) = 0) by (apply Q2; intros n; apply H). lia.
Qed.

Lemma compare_sound a1 a2 im :
  NoDup (names a1) -> comparable a1 a2 ->
  compare_arrays a1 a2 im = Ok true -> compare_true a1 a2 im.
Proof.
  intros Hn Hc H. destruct (compare_model a1 a2 im Hn Hc) as [b [E I]].
  rewrite H in E. inversion E; subst b. now apply I.
Qed.

Lemma compare_complete a1 a2 im :
  NoDup (names a1) -> comparable a1 a2 ->
  compare_true a1 a2 im -> compare_arrays a1 a2 im = Ok true.
Proof.
  intros Hn Hc H. destruct (compare_model a1 a2 im Hn Hc) as [b [E I]].
  apply I in H. now subst b.
Qed.

(* what "values equal" means for the kinds whose items are not floats: the decoded items are
   identical (integers, booleans, NUL-stripped strings) *)
Lemma value_eq_nonfloat x y :
  value_eq x y -> match x with VInt _ | VStr _ => x = y | _ => True end.
Proof. destruct x, y; simpl; intro H; try exact I; try contradiction; now subst. Qed.

(* ------------------------------------------------------ checker soundness *)
Lemma extract_check_sound a ks strict out :
  extract_check a ks strict out = true -> extract_spec a ks strict out.
Proof.
  unfold extract_check. destruct (extract_rejects_b a ks strict) eqn:R; intro H.
  - left. split; [now apply extract_rejects_dec|]. destruct out; [discriminate|eauto].
  - right. split; [exact (dec_false _ _ (extract_rejects_dec a ks strict) R)|].
    destruct out as [r|e]; [|discriminate]. apply sarray_eqb_eq in H. subst r.
    eexists. split; [reflexivity|]. split; reflexivity.
Qed.

Lemma remove_check_sound a ks out : remove_check a ks out = true -> remove_spec a ks out.
Proof.
  unfold remove_check. destruct (remove_rejects_b a ks) eqn:R; intro H.
  - left. split; [now apply remove_rejects_dec|]. destruct out; [discriminate|eauto].
  - right. split; [exact (dec_false _ _ (remove_rejects_dec a ks) R)|].
    destruct out as [r|e]; [|discriminate]. apply sarray_eqb_eq in H. subst r.
    eexists. split; [reflexivity|]. split; reflexivity.
Qed.

Lemma reorder_check_sound a ks strict out :
  reorder_check a ks strict out = true -> reorder_spec a ks strict out.
Proof.
  unfold reorder_check. destruct (reorder_rejects_b a ks strict) eqn:R; intro H.
  - left. split; [now apply reorder_rejects_dec|]. destruct out; [discriminate|eauto].
  - right. split; [exact (dec_false _ _ (reorder_rejects_dec a ks strict) R)|].
    destruct out as [r|e]; [|discriminate]. apply sarray_eqb_eq in H. subst r.
    eexists. split; [reflexivity|]. split; reflexivity.
Qed.

Lemma add_check_sound a add dv out : add_check a add dv out = true -> add_spec a add dv out.
Proof.
  unfold add_check. destruct (add_rejects_b a add) eqn:R; intro H.
  - left. split; [now apply add_rejects_dec|]. destruct out; [discriminate|eauto].
  - right. split; [exact (dec_false _ _ (add_rejects_dec a add) R)|].
    destruct out as [r|e]; [|discriminate]. apply sarray_eqb_eq in H. subst r.
    eexists. split; [reflexivity|]. split; reflexivity.
Qed.

Lemma combine_check_sound arrs out : combine_check arrs out = true -> combine_spec arrs out.
Proof.
  unfold combine_check. destruct (combine_rejects_b arrs) eqn:R; intro H.
  - left. split; [now apply combine_rejects_dec|]. destruct out; [discriminate|eauto].
  - right. split; [exact (dec_false _ _ (combine_rejects_dec arrs) R)|].
    destruct out as [r|e]; [|discriminate]. apply sarray_eqb_eq in H. subst r.
    eexists. split; [reflexivity|]. split; reflexivity.
Qed.

Lemma copy_check_sound a1 a2 out :
  copy_check a1 a2 out = true -> exists r, out = Ok r /\ copy_ok a1 a2 r.
Proof.
  unfold copy_check. destruct out as [r|e]; [|discriminate]. intro H. apply sarray_eqb_eq in H. subst r.
  eexists. split; [reflexivity|]. now apply copy_expected_ok.
Qed.

Lemma cfbn_check_sound a ns vs out :
  NoDup ns -> length ns = length vs ->
  cfbn_check a ns vs out = true -> exists r, out = Ok r /\ cfbn_ok a ns vs r.
Proof.
  intros Hk Hl. unfold cfbn_check. destruct out as [r|e]; [|discriminate]. intro H.
  apply sarray_eqb_eq in H. subst r. eexists. split; [reflexivity|]. now apply cfbn_expected_ok.
Qed.

Lemma split_check_sound a fl out : split_check a fl out = true -> split_spec a fl out.
Proof.
  unfold split_check. destruct (split_rejects_b a fl) eqn:R; intro H.
  - left. split; [now apply split_rejects_dec|]. destruct out; [discriminate|eauto].
  - right. split; [exact (dec_false _ _ (split_rejects_dec a fl) R)|].
    destruct out as [[vs nm]|e]; [|discriminate]. apply andb_true_iff in H as [H1 H2].
    apply slist_eqb_eq in H1. apply (list_eqb_spec fview_eqb fview_eqb_eq) in H2. subst.
    eexists. split; [reflexivity|]. apply split_views_ok.
    unfold split_rejects_b in R. apply negb_false_iff in R. now apply forallb_memb.
Qed.

Lemma fval_eqb_eq x y : fval_eqb x y = true <-> fval_eq x y.
Proof.
  destruct x as [|x], y as [|y]; simpl; try (split; [discriminate|tauto]). apply Z.eqb_eq.
Qed.
Lemma value_eqb_eq x y : value_eqb x y = true <-> value_eq x y.
Proof.
  destruct x, y; simpl; try (split; [discriminate|tauto]).
  - apply Z.eqb_eq.
  - apply fval_eqb_eq.
  - now rewrite andb_true_iff, !fval_eqb_eq.
  - apply zlist_eqb_spec.
Qed.
Lemma all_eq_Forall2 l1 l2 : all_eq l1 l2 = true <-> Forall2 value_eq l1 l2.
Proof.
  revert l2. induction l1 as [|x t IH]; intros [|y t2]; simpl.
  - split; [constructor|reflexivity].
  - split; [discriminate|intro H; inversion H].
  - split; [discriminate|intro H; inversion H].
  - rewrite andb_true_iff, value_eqb_eq, IH. split.
    + intros [H1 H2]. now constructor.
    + intro H. inversion H; auto.
Qed.

Lemma compare_true_dec a1 a2 im :
  NoDup (names a1) -> (compare_true_b a1 a2 im = true <-> compare_true a1 a2 im).
Proof.
  intro Hn. unfold compare_true_b, compare_true. rewrite andb_true_iff, (fields_match_iff a1 a2 Hn).
  rewrite forallb_forall. unfold field_ok.
  assert (X : (im || (forallb (fun n => memb n (names a2)) (names a1)
                      && forallb (fun n => memb n (names a1)) (names a2)) = true)
              <-> (im = false -> same_names a1 a2)).
  { rewrite orb_true_iff, andb_true_iff, !forallb_memb. unfold same_names. destruct im.
    - split; [discriminate|auto].
    - split.
      + intros [H|[H1 H2]] _ n; [discriminate|]. split; auto.
      + intro H. right. split; intros n; apply (H eq_refl). }
  rewrite X. split; intros [H1 H2]; (split; [|exact H2]).
  - intros f Hf f2 E2. specialize (H1 f Hf). rewrite E2 in H1.
    apply andb_true_iff in H1 as [S A]. split; [now apply zlist_eqb_spec|now apply all_eq_Forall2].
  - intros f Hf. destruct (find_field (fname f) (fields a2)) as [f2|] eqn:E2; [|reflexivity].
    destruct (H1 f Hf f2 E2) as [S A]. apply andb_true_iff.
    split; [now apply zlist_eqb_spec|now apply all_eq_Forall2].
Qed.

Lemma compare_check_sound a1 a2 im out :
  NoDup (names a1) -> compare_check a1 a2 im out = true ->
  exists b, out = Ok b /\ (b = true <-> compare_true a1 a2 im).
Proof.
  intros Hn. unfold compare_check. destruct out as [b|e]; [|discriminate]. intro H.
  apply Bool.eqb_prop in H. exists b. split; [reflexivity|]. rewrite H. now apply compare_true_dec.
Qed.

(* -------------------------------------------- scope deciders used by Exec *)
Lemma comparable_dec a1 a2 : comparable_b a1 a2 = true -> comparable a1 a2.
Proof.
  unfold comparable_b, comparable. rewrite forallb_forall. intros H n f1 f2 E1 E2 S.
  destruct (find_field_Some _ _ _ E1) as [Hi En]. specialize (H f1 Hi). rewrite En, E2 in H.
  apply orb_true_iff in H as [H|H]; [|assumption].
  apply negb_true_iff in H. apply zlist_eqb_spec in S. congruence.
Qed.

Lemma compat_dec a1 a2 : compat_b a1 a2 = true -> compat a1 a2.
Proof.
  unfold compat_b, compat. rewrite forallb_forall. intros H f g Hf Hg E.
  specialize (H f Hf). rewrite forallb_forall in H. specialize (H g Hg).
  apply orb_true_iff in H as [H|H]; [|assumption].
  apply negb_true_iff, String.eqb_neq in H. contradiction.
Qed.

Lemma dval_ok_dec n d v : dval_ok_b n d v = true -> dval_ok n d v.
Proof.
  destruct v as [item|cell|cells]; simpl; intro H.
  - now apply Z.eqb_eq.
  - now apply Z.eqb_eq.
  - apply andb_true_iff in H as [H1 H2]. split; [now apply Z.eqb_eq|].
    apply Forall_forall. intros c Hc. rewrite forallb_forall in H2. apply Z.eqb_eq. now apply H2.
Qed.

Lemma defaults_ok_dec n add dv : defaults_ok_b n add dv = true -> defaults_ok n add dv.
Proof.
  destruct dv as [vs|]; simpl; [|auto]. intro H. apply andb_true_iff in H as [H1 H2].
  split; [now apply Nat.eqb_eq|]. apply Forall_forall. intros p Hp.
  rewrite forallb_forall in H2. apply dval_ok_dec. now apply H2.
Qed.

Lemma cfbn_scope_dec a ns vs : cfbn_scope_b a ns vs = true -> cfbn_scope a ns vs.
Proof.
  unfold cfbn_scope_b, cfbn_scope. rewrite !andb_true_iff. intros [[[H1 H2] H3] H4].
  apply nodup_b_NoDup in H1, H2. apply Nat.eqb_eq in H3.
  split; [assumption|]. split; [assumption|]. split; [assumption|].
  intros n v g Hi Hg. rewrite forallb_forall in H4.
  destruct (find_field_Some _ _ _ Hg) as [Hgi Hgn]. specialize (H4 g Hgi). rewrite Hgn in H4.
  rewrite (assoc_In n v) in H4; [now apply dval_ok_dec| |assumption]. now rewrite map_fst_combine'.
Qed.

Lemma wf_dec a : wf_b a = true -> wf a.
Proof.
  unfold wf_b, wf. rewrite !andb_true_iff. intros [[[H1 H2] H3] H4].
  split; [|split; [|split]].
  - apply Forall_forall. intros x Hx. rewrite forallb_forall in H1. apply Z.leb_le. now apply H1.
  - now apply nodup_b_NoDup.
  - destruct (fields a); [discriminate|congruence].
  - apply Forall_forall. intros f Hf. rewrite forallb_forall in H4. specialize (H4 f Hf).
    unfold wf_field_b in H4. apply andb_true_iff in H4 as [H5 H6]. split; [now apply Z.eqb_eq|].
    apply Forall_forall. intros c Hc. rewrite forallb_forall in H6. apply Z.eqb_eq. now apply H6.
Qed.

(* the value of an item does not depend on the byte order it is stored in *)
Lemma decode_byte_order k n item :
  (k = KInt \/ k = KUInt \/ k = KFloat) ->
  decode (mkT LE k n) (rev item) = decode (mkT BE k n) item.
Proof.
  intros [H|[H|H]]; subst k; unfold decode; simpl; now rewrite rev_involutive.
Qed.

(* ------------------------------------------- statements exported as theorems *)
Lemma rejections_are_ValueError :
  (forall a keep strict e, NoDup (names a) -> extract_fields a keep strict = Err e -> e = EValue)
  /\ (forall a rm e, NoDup (names a) -> remove_fields a rm = Err e -> e = EValue)
  /\ (forall a ks strict e, NoDup (names a) -> NoDup (given ks) -> reorder_fields a ks strict = Err e -> e = EValue)
  /\ (forall a add defaults e, NoDup (names a) -> NoDup (map dname add) ->
        defaults_ok (nelem a) add (option_map given_vals defaults) -> add_fields a add defaults = Err e -> e = EValue)
  /\ (forall arrs e, combine_scope arrs -> combine_fields arrs = Err e -> e = EValue).
Proof.
  repeat split.
  - intros a keep strict e Hn. rewrite extract_char by assumption.
    destruct (extract_rejects_b a (given keep) strict); congruence.
  - intros a rm e Hn. rewrite remove_char by assumption.
    destruct (remove_rejects_b a (given rm)); congruence.
  - intros a ks strict e Hn Hk. rewrite reorder_char by assumption.
    destruct (reorder_rejects_b a (given ks) strict); congruence.
  - intros a add defaults e Hn Ha Hd. rewrite add_char by assumption.
    destruct (add_rejects_b a add); congruence.
  - intros arrs e Hs. rewrite combine_char by assumption.
    destruct (combine_rejects_b arrs); congruence.
Qed.

Lemma retained_fields_identical :
  (forall a ks r, extract_ok a ks r -> shape r = shape a /\ forall f, In f (fields r) -> In f (fields a))
  /\ (forall a ks r, remove_ok a ks r -> shape r = shape a /\ forall f, In f (fields r) -> In f (fields a))
  /\ (forall a ks r, reorder_ok a ks r -> shape r = shape a
        /\ (forall f, In f (fields r) -> In f (fields a))
        /\ (NoDup (names a) -> forall f, In f (fields a) -> In f (fields r)))
  /\ (forall a add dv r, add_ok a add dv r -> shape r = shape a
        /\ (forall f, In f (fields a) -> In f (fields r))
        /\ map fdesc (fields r) = descr a ++ map fdesc (new_fields (nelem a) add dv))
  /\ (forall arrs r, combine_ok arrs r ->
        forall a f, In a arrs -> In f (fields a) -> In f (fields r)).
Proof.
  split; [|split; [|split; [|split]]].
  - intros a ks r [Hs Hf]. split; [exact Hs|]. intros f Hi. rewrite Hf in Hi. now apply filter_In in Hi.
  - intros a ks r [Hs Hf]. split; [exact Hs|]. intros f Hi. rewrite Hf in Hi. now apply filter_In in Hi.
  - intros a ks r [Hs Hf]. split; [exact Hs|]. split.
    + intros f Hi. rewrite Hf in Hi. unfold reorder_fields_spec in Hi.
      apply in_app_or in Hi as [Hi|Hi].
      * apply in_flat_map in Hi as [n [_ Hn]]. now apply pick_In in Hn.
      * now apply filter_In in Hi.
    + intros Hn f Hi. rewrite Hf. unfold reorder_fields_spec. apply in_or_app.
      destruct (memb (fname f) ks) eqn:M.
      * left. apply in_flat_map. exists (fname f). split; [now apply memb_In|].
        unfold pick. rewrite (find_field_NoDup _ _ Hn Hi). now left.
      * right. apply filter_In. split; [assumption|]. now rewrite M.
  - intros a add dv r [Hs Hf]. split; [exact Hs|]. split.
    + intros f Hi. rewrite Hf. apply in_or_app. now left.
    + rewrite Hf. now rewrite map_app.
  - intros arrs r [Hs Hf] a f Ha Hi. rewrite Hf. apply in_concat. exists (fields a).
    split; [now apply in_map|assumption].
Qed.

Lemma copy_same_shape : forall a1 a2,
  NoDup (names a1) -> compat a1 a2 -> shape a1 = shape a2 ->
  exists r, copy_fields a1 a2 = Ok r /\ copy_ok a1 a2 r.
Proof.
  intros a1 a2 Hn Hc Hs. eexists. split.
  - apply copy_model; [assumption|assumption|unfold nelem; now rewrite Hs|rewrite Hs; apply assign_ok_refl].
  - now apply copy_expected_ok.
Qed.

Lemma copy_broadcast : forall a1 a2,
  NoDup (names a1) -> compat a1 a2 -> nelem a1 = nelem a2 -> assign_ok (shape a1) (shape a2) = true ->
  exists r, copy_fields a1 a2 = Ok r /\ copy_ok a1 a2 r.
Proof.
  intros a1 a2 Hn Hc He Hs. eexists. split; [now apply copy_model|now apply copy_expected_ok].
Qed.

Lemma cfbn_spec_holds : forall a nms vals,
  cfbn_scope a (given nms) (given_vals vals) ->
  exists r, copy_fields_by_name a nms vals = Ok r /\ cfbn_ok a (given nms) (given_vals vals) r.
Proof.
  intros a nms vals H. eexists. split; [now apply cfbn_model|].
  destruct H as [_ [Hk [Hl _]]]. now apply cfbn_expected_ok.
Qed.

Lemma checkers_sound :
  (forall a ks strict out, extract_check a ks strict out = true -> extract_spec a ks strict out)
  /\ (forall a ks out, remove_check a ks out = true -> remove_spec a ks out)
  /\ (forall a ks strict out, reorder_check a ks strict out = true -> reorder_spec a ks strict out)
  /\ (forall a add dv out, add_check a add dv out = true -> add_spec a add dv out)
  /\ (forall arrs out, combine_check arrs out = true -> combine_spec arrs out)
  /\ (forall a1 a2 out, copy_check a1 a2 out = true -> exists r, out = Ok r /\ copy_ok a1 a2 r)
  /\ (forall a ns vs out, cfbn_scope_b a ns vs = true -> cfbn_check a ns vs out = true ->
        exists r, out = Ok r /\ cfbn_ok a ns vs r)
  /\ (forall a fl out, split_check a fl out = true -> split_spec a fl out)
  /\ (forall a1 a2 im out, NoDup (names a1) -> compare_check a1 a2 im out = true ->
        exists b, out = Ok b /\ (b = true <-> compare_true a1 a2 im)).
Proof.
  split; [exact extract_check_sound|]. split; [exact remove_check_sound|].
  split; [exact reorder_check_sound|]. split; [exact add_check_sound|].
  split; [exact combine_check_sound|]. split; [exact copy_check_sound|].
  split.
  { intros a ns vs out Hs. destruct (cfbn_scope_dec _ _ _ Hs) as [_ [Hk [Hl _]]]. now apply cfbn_check_sound. }
  split; [exact split_check_sound|exact compare_check_sound].
Qed.

Lemma scope_deciders_sound :
  (forall a, wf_b a = true -> wf a)
  /\ (forall arrs, combine_scope_b arrs = true -> combine_scope arrs)
  /\ (forall a1 a2, compat_b a1 a2 = true -> compat a1 a2)
  /\ (forall n add dv, defaults_ok_b n add dv = true -> defaults_ok n add dv)
  /\ (forall a ns vs, cfbn_scope_b a ns vs = true -> cfbn_scope a ns vs)
  /\ (forall a1 a2, comparable_b a1 a2 = true -> comparable a1 a2).
Proof.
  split; [exact wf_dec|]. split; [exact combine_scope_dec|]. split; [exact compat_dec|].
  split; [exact defaults_ok_dec|]. split; [exact cfbn_scope_dec|exact comparable_dec].
Qed.

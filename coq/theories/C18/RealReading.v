(* C18 — the sqrt-free statements read over the reals, for every routine that returns a square
   root: wmom (error for both settings, deviation), sigma_clip / get_stats (deviation, error),
   cov2cor (correlation coefficient).  [close_sqrt s V tol] is turned into |s - sqrt V| <= tol by
   CorProofs.close_sqrt_real; here the radicands are shown non-negative and the statements are
   assembled per routine. *)
From Coq Require Import QArith Qabs Lqa.
From EsVerif.Common Require Import Base.
From EsVerif.C18 Require Import Model Spec QLemmas MomProofs ClipProofs CorProofs ClipReal.
Open Scope Q_scope.

Lemma werr2_calc_nonneg w x m : 0 <= werr2_calc_def w x m.
Proof.
  unfold werr2_calc_def. apply Qdiv_nonneg; [|apply sq_nonneg].
  apply Sum_map2_nonneg. intros a b _. apply Qmult_le_0_compat; apply sq_nonneg.
Qed.

Lemma werr2_default_nonneg w : (forall a, In a w -> 0 <= a) -> 0 <= werr2_default_def w.
Proof.
  intro H. unfold werr2_default_def. apply Qdiv_nonneg; [discriminate|apply Sum_nonneg, H].
Qed.

Lemma wvar_nonneg w x m : (forall a, In a w -> 0 <= a) -> 0 <= wvar_def w x m.
Proof.
  intro H. unfold wvar_def. apply Qdiv_nonneg; [|apply Sum_nonneg, H].
  apply Sum_map2_nonneg. intros a b Ha. apply Qmult_le_0_compat; [apply H, Ha|apply sq_nonneg].
Qed.

From Coq Require Import Reals Qreals Lra.

(* wmom: the reported error and deviation are within the tolerance of the documented square roots *)
Lemma wmom1_ok_real x w im ce mean err sdev :
  (forall a, In a w -> (0 <= a)%Q) ->
  wmom1_ok x w im ce mean err sdev ->
  let mref := match im with None => wmean_def w x | Some m => m end in
  let A := (absmean_def w x + im_abs im)%Q in
  (if ce then (Rabs (Q2R err - sqrt (Q2R (werr2_calc_def w x mref))) <= Q2R (eps9 * (err + A)))%R
   else (Rabs (Q2R err - sqrt (Q2R (werr2_default_def w))) <= Q2R (eps9 * err))%R)
  /\ match sdev with
     | Some s => (Rabs (Q2R s - sqrt (Q2R (wvar_def w x mref))) <= Q2R (eps9 * (s + A)))%R
     | None => True
     end.
Proof.
  intros Hw [_ [He Hs]] mref A. split.
  - destruct ce.
    + apply close_sqrt_real; [exact He|apply werr2_calc_nonneg].
    + apply close_sqrt_real; [exact He|apply werr2_default_nonneg, Hw].
  - destruct sdev as [s|]; [|exact I].
    apply close_sqrt_real; [exact Hs|apply wvar_nonneg, Hw].
Qed.

(* sigma_clip / get_stats: the reported deviation and error against the square roots of the
   subset's variance and squared error *)
Lemma stat_def_nonneg weighted sub :
  (weighted = true -> forall p, In p sub -> (0 <= p_w p)%Q) ->
  let '(m, e2, v) := stat_def weighted sub in (0 <= e2)%Q /\ (0 <= v)%Q.
Proof.
  intro Hw. unfold stat_def. destruct weighted.
  - assert (W : forall a, In a (map p_w sub) -> (0 <= a)%Q).
    { intros a Ha. apply in_map_iff in Ha. destruct Ha as [p [E Hp]]. subst a. apply Hw; [reflexivity|exact Hp]. }
    split; [apply werr2_calc_nonneg|apply wvar_nonneg, W].
  - assert (N : (0 <= qlen sub)%Q).
    { unfold qlen. change 0%Q with (inject_Z 0). rewrite <- Zle_Qle. apply Zle_0_nat. }
    assert (V : (0 <= Sum (map (fun x => (x - Sum (map p_x sub) / qlen sub) * (x - Sum (map p_x sub) / qlen sub)) (map p_x sub)) / qlen sub)%Q).
    { apply Qdiv_nonneg; [|exact N]. apply Sum_nonneg. intros y Hy. apply in_map_iff in Hy.
      destruct Hy as [a [E _]]. subst y. apply sq_nonneg. }
    split; [apply Qdiv_nonneg; assumption|exact V].
Qed.

Lemma sigma_clip_ok_real weighted nsig niter all mean sdev err idx :
  (weighted = true -> forall p, In p all -> (0 <= p_w p)%Q) ->
  sigma_clip_ok weighted nsig niter all mean sdev err idx ->
  exists sub, map p_idx sub = idx /\ clip_fixpoint weighted nsig niter all sub
    /\ let '(m, e2, v) := stat_def weighted sub in
       let A := sc_scale weighted sub in
       (Rabs (Q2R mean - Q2R m) <= Q2R (eps9 * A))%R
       /\ (Rabs (Q2R sdev - sqrt (Q2R v)) <= Q2R (eps9 * (sdev + A)))%R
       /\ (Rabs (Q2R err - sqrt (Q2R e2)) <= Q2R (eps9 * (err + A)))%R.
Proof.
  intros Hw [sub [Hi [Hf Hs]]]. exists sub. split; [exact Hi|]. split; [exact Hf|].
  assert (Hsub : weighted = true -> forall p, In p sub -> (0 <= p_w p)%Q).
  { intros E p Hp. apply (Hw E). destruct Hf as [k [_ [Ek _]]]. rewrite Ek in Hp. eapply iterate_incl, Hp. }
  pose proof (stat_def_nonneg weighted sub Hsub) as NN.
  destruct (stat_def weighted sub) as [[m e2] v]. destruct NN as [Ne Nv]. destruct Hs as [Hm [Hv He]].
  split; [|split].
  - unfold close_lin in Hm. apply Qle_Rle in Hm. rewrite <- Q2R_minus.
    assert (E : Q2R (Qabs (mean - m)) = Rabs (Q2R (mean - m))).
    { apply Qabs_case; intro S.
      - rewrite Rabs_right; [reflexivity|]. apply Rle_ge. apply Qle_Rle in S. rewrite RMicromega.Q2R_0 in S. exact S.
      - rewrite Q2R_opp. rewrite Rabs_left1; [reflexivity|]. apply Qle_Rle in S. rewrite RMicromega.Q2R_0 in S. exact S. }
    rewrite <- E. exact Hm.
  - apply close_sqrt_real; assumption.
  - apply close_sqrt_real; assumption.
Qed.

(* cov2cor: the reported coefficient against cov[i,j] / sqrt(cov[i,i] cov[j,j]) *)
Lemma Q2R_Qabs q : Q2R (Qabs q) = Rabs (Q2R q).
Proof.
  apply Qabs_case; intro S; apply Qle_Rle in S; rewrite RMicromega.Q2R_0 in S.
  - rewrite Rabs_right; [reflexivity|apply Rle_ge, S].
  - rewrite Q2R_opp, Rabs_left1; [reflexivity|exact S].
Qed.

Lemma cor_close_real c num den2 :
  (0 < den2)%Q -> cor_close c num den2 ->
  (Rabs (Q2R c - Q2R num / sqrt (Q2R den2)) <= Q2R (eps9 * Qabs c))%R.
Proof.
  intros Hd [Hp [Hn Hc]].
  assert (V : (0 <= num * num / den2)%Q) by (apply Qdiv_nonneg; [apply sq_nonneg|apply Qlt_le_weak, Hd]).
  pose proof (close_sqrt_real _ _ _ Hc V) as H.
  apply Qlt_Rlt in Hd. rewrite RMicromega.Q2R_0 in Hd.
  rewrite Q2R_Qabs in H. rewrite Q2R_div in H by (intro E; rewrite E in Hd; unfold Q2R in Hd; simpl in Hd; lra).
  rewrite Q2R_mult in H.
  set (C := Q2R c) in *. set (N := Q2R num) in *. set (D := Q2R den2) in *.
  assert (Hr : (0 < sqrt D)%R) by (apply sqrt_lt_R0; exact Hd).
  assert (E : sqrt (N * N / D) = (Rabs N / sqrt D)%R).
  { unfold Rdiv at 1. rewrite sqrt_mult_alt by (apply Rle_0_sqr).
    fold (Rsqr N). rewrite sqrt_Rsqr_abs. rewrite sqrt_inv_depr || rewrite sqrt_inv; try exact Hd; reflexivity. }
  rewrite E in H.
  destruct (Rle_lt_dec 0 N) as [S|S].
  - assert (0 <= C)%R.
    { assert (Q : (0 <= num)%Q) by (apply Rle_Qle; rewrite RMicromega.Q2R_0; exact S).
      apply Hp in Q. apply Qle_Rle in Q. rewrite RMicromega.Q2R_0 in Q. exact Q. }
    rewrite (Rabs_right C) in H by (apply Rle_ge; assumption).
    rewrite (Rabs_right N) in H by (apply Rle_ge; assumption). exact H.
  - assert (C <= 0)%R.
    { assert (Q : (num <= 0)%Q) by (apply Rle_Qle; rewrite RMicromega.Q2R_0; apply Rlt_le; exact S).
      apply Hn in Q. apply Qle_Rle in Q. rewrite RMicromega.Q2R_0 in Q. exact Q. }
    rewrite (Rabs_left1 C) in H by assumption.
    rewrite (Rabs_left N) in H by assumption.
    replace (C - N / sqrt D)%R with (- (- C - - N / sqrt D))%R by (field; apply Rgt_not_eq; exact Hr).
    rewrite Rabs_Ropp. exact H.
Qed.

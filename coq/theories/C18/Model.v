(* C18 — executable exact-rational (style Q, DESIGN 3.3) model of esutil/stat/util.py:
   wmom, wmedian, sigma_clip, interplin, get_stats, cov2cor, cor2cov, boxcar_average.
   NO proofs in this file.

   Conventions.
   * Every float is represented by the exact rational it denotes; all arithmetic is exact.
   * Square roots are never taken.  Where the code returns sqrt(V) the model returns V (fields
     named ..._err2 / ..._var / den2); a decision |x-m| < nsig*s of the code is taken on squares,
     (x-m)^2 < nsig^2 * s^2, which is the same decision for nsig >= 0.
   * numpy reductions over axis 0 and broadcasting of (N,1) weights against (N,d) data act
     independently on every column; the N-by-d paths are therefore written column by column
     (numpy semantics: modelled, not verified; the correspondence run compares with the real code).
   * x/0 = 0 in Q whereas numpy yields nan/inf: theorems are guarded by a positive total weight,
     the generators never produce a zero total. *)
From Coq Require Import QArith Qabs.
From EsVerif.Common Require Import Base.
Open Scope Q_scope.

(* ---------------------------------------------------------------- arithmetic helpers *)
Definition Qlt_bool (x y : Q) : bool := negb (Qle_bool y x).
Definition sq (x : Q) : Q := x * x.
Definition dev2 (m x : Q) : Q := sq (x - m).
Definition qmax (a b : Q) : Q := if Qle_bool a b then b else a.
Definition qmin (a b : Q) : Q := if Qle_bool a b then a else b.
Definition qlen {A} (l : list A) : Q := inject_Z (Z.of_nat (length l)).

(* exact sum.  Case data are printed over a common denominator, for which the addition needs
   no gcd; otherwise the partial sum is kept in lowest terms. *)
Definition qadd (p q : Q) : Q :=
  if Pos.eqb (Qden p) (Qden q) then (Qnum p + Qnum q)%Z # (Qden p) else Qred (p + q).
Definition qsum (l : list Q) : Q :=
  match l with [] => 0 | x :: t => fold_left qadd t x end.

Fixpoint map2 {A B C} (f : A -> B -> C) (a : list A) (b : list B) : list C :=
  match a, b with
  | x :: s, y :: t => f x y :: map2 f s t
  | _, _ => []
  end.

(* numpy values that occur here: 0-d (python/numpy scalar), 1-d, 2-d (list of rows) *)
Inductive nd := S0 (q : Q) | V1 (v : list Q) | M2 (rows : list (list Q)).
Definition atleast_1d (a : nd) : nd := match a with S0 q => V1 [q] | _ => a end.
Definition col (j : nat) (rows : list (list Q)) : list Q := map (fun r => nth j r 0) rows.
Definition ncols (rows : list (list Q)) : nat := match rows with [] => O | r :: _ => length r end.
Definition rect (rows : list (list Q)) (d : nat) : bool := forallb (fun r => Nat.eqb (length r) d) rows.

(* ---------------------------------------------------------------- wmom (util.py:976-1053) *)
Record mom := { m_mean : Q; m_err2 : Q; m_var : option Q }.

(* the 1-d computation: weights w, data x.
     wtot  = weights.sum()
     wmean = (weights*arr).sum()/wtot          or the supplied mean
     werr  = sqrt((weights**2*(arr-wmean)**2).sum())/wtot   (calcerr)   -> m_err2 = werr^2
             1/sqrt(wtot)                                   (default)   -> m_err2 = 1/wtot
     wsdev = sqrt((weights*(arr-wmean)**2).sum()/wtot)      (sdev)      -> m_var  = wsdev^2 *)
Definition wmom1 (x w : list Q) (inputmean : option Q) (calcerr sdev : bool) : mom :=
  let wtot := qsum w in
  let wmean := match inputmean with
               | None => Qred (qsum (map2 Qmult w x) / wtot)
               | Some m => m
               end in
  {| m_mean := wmean;
     m_err2 := if calcerr
               then Qred (qsum (map2 (fun wi xi => sq wi * dev2 wmean xi) w x) / sq wtot)
               else 1 / wtot;
     m_var := if sdev then Some (Qred (qsum (map2 (fun wi xi => wi * dev2 wmean xi) w x) / wtot)) else None |}.

(* inputmean=None | a python/numpy scalar | a 1-d array.  The array form is documented ("Should
   be a scalar or [ndim] array"); the model describes the code after fixes/C18/0001 (the unchanged
   code evaluates float(inputmean), which raises TypeError for every 1-d array). *)
Inductive imean := INone | IScalar (q : Q) | IVec (v : list Q).

Record wmom_out := { o_mean : nd; o_err2 : nd; o_var : option nd }.

Definition opt_nd (f : Q -> nd) (o : option Q) : option nd :=
  match o with Some q => Some (f q) | None => None end.

Definition wmom (arrin weights_in : nd) (im : imean) (calcerr sdev : bool) : result wmom_out :=
  match atleast_1d arrin, atleast_1d weights_in with
  | V1 x, V1 w =>
      (* ndim = 1; weights.shape != arr.shape -> ValueError *)
      if negb (Nat.eqb (length w) (length x)) then Err EValue else
      match im with
      | IVec v =>
          (* (N,) - (k,) broadcasts only for k = 1 (k = N > 1 would be an elementwise "mean":
             numpy accepts it, it is outside every documented use and never generated) *)
          match v with
          | [m] => let r := wmom1 x w (Some m) calcerr sdev in
                   Ok {| o_mean := V1 [m]; o_err2 := S0 (m_err2 r); o_var := opt_nd S0 (m_var r) |}
          | _ => Err EValue
          end
      | _ =>
          let r := wmom1 x w (match im with IScalar m => Some m | _ => None end) calcerr sdev in
          Ok {| o_mean := S0 (m_mean r); o_err2 := S0 (m_err2 r); o_var := opt_nd S0 (m_var r) |}
      end
  | V1 _, _ => Err EValue
  | M2 rows, wts =>
      (* ndim = arr.shape[1]; 1-d weights become weights[:, newaxis] *)
      let d := ncols rows in
      let n := length rows in
      if negb (rect rows d) then Err EOther else
      do wcol <- match wts with
                 | V1 w => if Nat.eqb (length w) n then Ok (fun _ : nat => w) else Err EValue
                 | M2 ww => if Nat.eqb (length ww) n && rect ww d then Ok (fun j => col j ww) else Err EValue
                 | S0 _ => Err EOther
                 end;
      do mj <- match im with
               | INone => Ok (fun _ : nat => @None Q)
               | IScalar m => Ok (fun _ : nat => Some m)
               | IVec v => if Nat.eqb (length v) d then Ok (fun j => Some (nth j v 0)) else Err EValue
               end;
      let cols := map (fun j => wmom1 (col j rows) (wcol j) (mj j) calcerr sdev) (seq 0 d) in
      Ok {| o_mean := match im with
                      | IScalar m => S0 m                (* wmean stays the python float *)
                      | _ => V1 (map m_mean cols)
                      end;
            (* default error with 1-d weights: 1/sqrt(wtot) has shape (1,) and is replicated
               ndim times by the code; column-wise that is the same number in every column *)
            o_err2 := V1 (map m_err2 cols);
            o_var := if sdev then Some (V1 (map (fun r => match m_var r with Some q => q | None => 0 end) cols))
                     else None |}
  | S0 _, _ => Err EOther
  end.

(* ---------------------------------------------------------------- wmedian (util.py:1056-1081) *)
(* arr.argsort(): a sorting permutation; ties may come in any order (the returned VALUE does not
   depend on it, see Proofs.wmedian_correct).  Stable insertion sort on (value, weight) pairs. *)
Fixpoint insert_p (p : Q * Q) (l : list (Q * Q)) : list (Q * Q) :=
  match l with
  | [] => [p]
  | q :: t => if Qle_bool (fst p) (fst q) then p :: l else q :: insert_p p t
  end.
Definition isort_p (l : list (Q * Q)) : list (Q * Q) := fold_right insert_p [] l.

(*  k = 0; sum = wtot - weights[sind[0]]
    while sum > wtot2: k += 1; sum -= weights[sind[k]]
    return arr[sind[k]]
   [cur] is arr[sind[k]], [rest] the sorted pairs after position k. *)
Fixpoint wm_loop (rest : list (Q * Q)) (cur sum wtot2 : Q) : result Q :=
  if Qlt_bool wtot2 sum
  then match rest with
       | [] => Err EIndex
       | (xk, wk) :: t => wm_loop t xk (sum - wk) wtot2
       end
  else Ok cur.

Definition wmedian_pairs (l : list (Q * Q)) : result Q :=
  let wtot := qsum (map snd l) in
  match isort_p l with
  | [] => Err EIndex
  | (x0, w0) :: t => wm_loop t x0 (wtot - w0) (wtot / 2)
  end.

Definition wmedian (x w : list Q) : result Q :=
  if Nat.eqb (length x) (length w) then wmedian_pairs (combine x w)
  else Err EOther.   (* sizes differ: not modelled, never generated *)

(* ---------------------------------------------------------------- sigma_clip (util.py:1084-1209) *)
(* a point: (index in the input, value, weight); the weight is 1 and unused when weights=None *)
Definition pt := (Z * (Q * Q))%type.
Definition p_idx (p : pt) : Z := fst p.
Definition p_x (p : pt) : Q := fst (snd p).
Definition p_w (p : pt) : Q := snd (snd p).

Record cstat := { c_mean : Q; c_err2 : Q; c_var : Q }.

(* _get_sigma_clip_stats:
     weighted:   m, e, s = wmom(arr, weights, calcerr=True, sdev=True)
     otherwise:  m = arr.mean(); s = arr.std(); e = s/sqrt(arr.shape[0]) *)
Definition sc_stats (weighted : bool) (cur : list pt) : cstat :=
  let xs := map p_x cur in
  if weighted then
    let r := wmom1 xs (map p_w cur) None true true in
    {| c_mean := m_mean r; c_err2 := m_err2 r; c_var := match m_var r with Some v => v | None => 0 end |}
  else
    let n := qlen cur in
    let m := Qred (qsum xs / n) in
    let v := Qred (qsum (map (dev2 m) xs) / n) in
    {| c_mean := m; c_err2 := v / n; c_var := v |}.

(* np.abs(tarr - m) < nsig*s, decided on squares (s = sqrt(var) >= 0; for nsig < 0 the right-hand
   side is <= 0 and nothing is kept) *)
Definition within (nsig : Q) (st : cstat) : pt -> bool :=
  let T := Qred (sq nsig * c_var st) in      (* threshold computed once per round *)
  let m := c_mean st in
  let pos := Qle_bool 0 nsig in
  fun p => pos && Qlt_bool (dev2 m (p_x p)) T.

(*  for i in range(1, niter+1):
        w, = where(abs(tarr-m) < nsig*s)
        if w.size == 0: break            (everything clipped: keep the last subset and statistics)
        if w.size == nold: break         (nothing changed)
        indices = indices[w]; recompute m, e, s on the subset *)
Fixpoint sc_loop (fuel : nat) (weighted : bool) (nsig : Q) (cur : list pt) (st : cstat)
  : list pt * cstat :=
  match fuel with
  | O => (cur, st)
  | S f =>
      let kept := filter (within nsig st) cur in
      match kept with
      | [] => (cur, st)
      | _ => if Nat.eqb (length kept) (length cur) then (cur, st)
             else sc_loop f weighted nsig kept (sc_stats weighted kept)
      end
  end.

Fixpoint index_from (i : Z) (x w : list Q) : list pt :=
  match x, w with
  | a :: s, b :: t => (i, (a, b)) :: index_from (i + 1)%Z s t
  | _, _ => []
  end.

Record sc_out := { sc_mean : Q; sc_var : Q; sc_err2 : Q; sc_idx : list Z }.

Definition sigma_clip (arrin : nd) (weights : option nd) (niter : Z) (nsig : Q) : result sc_out :=
  match atleast_1d arrin with
  | V1 x =>
      do w <- match weights with
              | None => Ok (map (fun _ => 1) x)
              | Some wn => match atleast_1d wn with
                           | V1 w => if Nat.eqb (length w) (length x) then Ok w else Err EValue
                           | M2 ww => if Nat.eqb (length (concat ww)) (length x) then Err EOther (* same size, other shape: unmodelled *)
                                      else Err EValue
                           | S0 _ => Err EOther
                           end
              end;
      let weighted := match weights with None => false | Some _ => true end in
      let all := index_from 0%Z x w in
      let '(sub, st) := sc_loop (Z.to_nat niter) weighted nsig all (sc_stats weighted all) in
      Ok {| sc_mean := c_mean st; sc_var := c_var st; sc_err2 := c_err2 st; sc_idx := map p_idx sub |}
  | _ => Err EValue      (* only 1-dimensional arrays supported *)
  end.

(* ---------------------------------------------------------------- interplin (util.py:1217-1259) *)
(* x.searchsorted(u) (side='left') on a sorted table = number of elements strictly below u *)
Definition searchsorted (x : list Q) (u : Q) : Z :=
  Z.of_nat (length (filter (fun xi => Qlt_bool xi u) x)).

Definition interp_index (x : list Q) (u : Q) : Z :=
  let n := Z.of_nat (length x) in
  let xm := (searchsorted x u - 1)%Z in
  let xm := if (xm >=? n - 1)%Z then (n - 2)%Z else xm in
  let xm := if (xm <? 0)%Z then 0%Z else xm in
  xm.

Definition line (x0 v0 x1 v1 u : Q) : Q := (u - x0) * (v1 - v0) / (x1 - x0) + v0.

Definition seg (v x : list Q) (k : nat) (u : Q) : Q :=
  line (nth k x 0) (nth k v 0) (nth (S k) x 0) (nth (S k) v 0) u.

(* (u - x[xm])*(v[xmp1] - v[xm])/(x[xmp1] - x[xm]) + v[xm] *)
Definition interp1 (v x : list Q) (u : Q) : Q := seg v x (Z.to_nat (interp_index x u)) u.

Definition interplin (v x u : list Q) : result (list Q) :=
  match u with
  | [] => Ok []
  | _ => if (length x <? 2)%nat || (length v <? length x)%nat then Err EIndex
         else Ok (map (interp1 v x) u)
  end.

(* ---------------------------------------------------------------- get_stats (util.py:856-946) *)
Definition qmin_list (l : list Q) : Q := match l with [] => 0 | x :: t => fold_left qmin t x end.
Definition qmax_list (l : list Q) : Q := match l with [] => 0 | x :: t => fold_left qmax t x end.

Record gstats := { g_min : nd; g_max : nd; g_mean : nd; g_var : nd; g_err2 : nd }.

(* mn = arr.mean(axis=0); std = arr.std(axis=0); err = std/sqrt(arr.shape[0]) *)
Definition plain_stats (x : list Q) : cstat := sc_stats false (index_from 0%Z x x).

Definition get_stats (arr_in : nd) (weights : option nd) (nsig : option Q) (niter : option Z)
  : result gstats :=
  let arr := atleast_1d arr_in in
  let do_clip := match nsig, niter with None, None => false | _, _ => true end in
  match arr with
  | V1 x =>
      let amin := S0 (qmin_list x) in
      let amax := S0 (qmax_list x) in
      if do_clip then
        do r <- sigma_clip arr weights (match niter with Some k => k | None => 4%Z end)
                           (match nsig with Some s => s | None => 4 end);
        Ok {| g_min := amin; g_max := amax; g_mean := S0 (sc_mean r); g_var := S0 (sc_var r); g_err2 := S0 (sc_err2 r) |}
      else match weights with
      | Some wn =>
          (* wmom(arr[:, newaxis], weights, sdev=True, calcerr=True), scalarified *)
          match atleast_1d wn with
          | V1 w => if Nat.eqb (length w) (length x)
                    then let r := wmom1 x w None true true in
                         Ok {| g_min := amin; g_max := amax; g_mean := S0 (m_mean r);
                               g_var := S0 (match m_var r with Some v => v | None => 0 end);
                               g_err2 := S0 (m_err2 r) |}
                    else Err EValue
          | _ => Err EValue
          end
      | None =>
          let r := plain_stats x in
          Ok {| g_min := amin; g_max := amax; g_mean := S0 (c_mean r); g_var := S0 (c_var r); g_err2 := S0 (c_err2 r) |}
      end
  | M2 rows =>
      let d := ncols rows in
      if negb (rect rows d) then Err EOther else
      let js := seq 0 d in
      let amin := V1 (map (fun j => qmin_list (col j rows)) js) in
      let amax := V1 (map (fun j => qmax_list (col j rows)) js) in
      if do_clip then Err EValue      (* sigma_clip: only 1-dimensional arrays *)
      else match weights with
      | Some wn =>
          do r <- wmom arr wn INone true true;
          match o_var r with
          | Some v => Ok {| g_min := amin; g_max := amax; g_mean := o_mean r; g_var := v; g_err2 := o_err2 r |}
          | None => Err EOther
          end
      | None =>
          let cs := map (fun j => plain_stats (col j rows)) js in
          Ok {| g_min := amin; g_max := amax; g_mean := V1 (map c_mean cs); g_var := V1 (map c_var cs);
                g_err2 := V1 (map c_err2 cs) |}
      end
  | S0 _ => Err EOther
  end.

(* ---------------------------------------------------------------- cov2cor / cor2cov (util.py:1262-1333) *)
Definition mget (m : list (list Q)) (i j : nat) : Q := nth j (nth i m []) 0.

(* cor[ix,iy] = cov[ix,iy]/sqrt(cxx*cyy): the model returns the pair (cov[ix,iy], cxx*cyy);
   ValueError as soon as a diagonal element is <= 0 *)
Definition cov2cor (cov : list (list Q)) : result (list (list (Q * Q))) :=
  let n := length cov in
  if negb (rect cov n) then Err EOther else
  if forallb (fun i => Qlt_bool 0 (mget cov i i)) (seq 0 n)
  then Ok (map (fun i => map (fun j => (mget cov i j, mget cov i i * mget cov j j)) (seq 0 n)) (seq 0 n))
  else Err EValue.

(* cov[ix,iy] = cor[ix,iy]*diagerr[ix]*diagerr[iy]; cor and diagerr of different sizes -> ValueError *)
Definition cor2cov (cor : list (list Q)) (diagerr : list Q) : result (list (list Q)) :=
  let n := length cor in
  if negb (rect cor (ncols cor)) then Err EOther else
  (* not square: the message is built with "... got %s" % cor.shape, which itself raises
     TypeError for a 2-tuple (observed; the intended ValueError is never reached) *)
  if negb (Nat.eqb (ncols cor) n) then Err EType else
  if negb (Nat.eqb n (length diagerr)) then Err EValue else
  Ok (map (fun i => map (fun j => mget cor i j * nth i diagerr 0 * nth j diagerr 0) (seq 0 n)) (seq 0 n)).

(* ---------------------------------------------------------------- boxcar_average (util.py:839-853) *)
(* convolve(x, ones(N)/N)[N-1:]: out[k] = (x[k] + ... + x[min(k+N-1, n-1)])/N *)
Definition boxcar_average (x : list Q) (N : Z) : result (list Q) :=
  if (N <=? 0)%Z then Err EValue else       (* ones((N,)) / empty kernel *)
  match x with
  | [] => Err EValue                         (* convolve: a cannot be empty *)
  | _ => Ok (map (fun k => qsum (firstn (Z.to_nat N) (skipn k x)) / inject_Z N) (seq 0 (length x)))
  end.

(* C18 — what the verdicts of Exec.v_sigma_clip mean.  In particular the distinguished verdict 12
   (class C18.kf_everything_clipped, a known finding) is returned ONLY for an output that is exactly
   what the code-faithful statement allows — the last non-empty subset, reported with ITS indices
   and ITS statistics — on an input of the class.  Any other output on an input of the class
   (e.g. empty indices with the statistics of the previous subset) gets verdict 3: a violation
   outside every known class. *)
From Coq Require Import QArith Qabs Lia.
From EsVerif.Common Require Import Base.
From EsVerif.C18 Require Import Model Spec SpecTol SpecStrict QLemmas ClipProofs ClipStrict TolSound Exec.
Open Scope Q_scope.

Lemma v_sigma_clip_verdicts x w niter nsig m s e idx :
  let all := index_from 0%Z x (sc_weights x w) in
  let wtd := sc_weighted w in
  let v := v_sigma_clip x w niter nsig (Ok (m, s, e, idx)) in
  (v = 12%Z -> 0 <= nsig /\ kf_everything_clipped wtd nsig (Z.to_nat niter) all = true
               /\ sigma_clip_ok wtd nsig (Z.to_nat niter) all m s e idx)
  /\ (v = 0%Z -> 0 <= nsig /\ sigma_clip_strict_ok wtd nsig (Z.to_nat niter) all m s e idx)
  /\ (v = 0%Z \/ v = 12%Z \/ v = skip \/ v = 1%Z \/ v = 3%Z).
Proof.
  intros all wtd v. subst v. unfold v_sigma_clip.
  set (wf := Nat.eqb (length (sc_weights x w)) (length x) && negb (Nat.eqb (length x) 0) && Qle_bool 0 nsig).
  destruct wf eqn:W.
  - assert (Hn : 0 <= nsig).
    { unfold wf in W. apply andb_true_iff in W as [_ W]. apply Qle_bool_iff, W. }
    cbn [andb]. destruct (sc_borderline x w (Z.to_nat niter) nsig).
    + unfold skip. split; [discriminate|]. split; [discriminate|]. right; right; left; reflexivity.
    + fold all. fold wtd.
      destruct (sigma_clip_check wtd nsig (Z.to_nat niter) all m s e idx) eqn:C.
      * destruct (kf_everything_clipped wtd nsig (Z.to_nat niter) all) eqn:K.
        -- split; [|split; [discriminate|right; left; reflexivity]].
           intros _. split; [exact Hn|]. split; [reflexivity|].
           apply sigma_clip_check_sound; assumption.
        -- split; [discriminate|]. split; [|left; reflexivity].
           intros _. split; [exact Hn|]. apply sigma_clip_strict_check_sound; [exact Hn|].
           unfold sigma_clip_strict_check. rewrite C, K. reflexivity.
      * split; [discriminate|]. split; [discriminate|]. right; right; right; right; reflexivity.
  - cbn [andb]. destruct (sigma_clip (V1 x) (opt_v1 w) niter nsig);
      (split; [discriminate|]; split; [discriminate|]; right; right; right; left; reflexivity).
Qed.

(* the float32-precision variant: same meaning at eps *)
Lemma v_sigma_clip_e_verdicts eps x w niter nsig m s e idx :
  let all := index_from 0%Z x (sc_weights x w) in
  let wtd := sc_weighted w in
  let v := v_sigma_clip_e eps x w niter nsig (Ok (m, s, e, idx)) in
  (v = 12%Z -> 0 <= nsig /\ kf_everything_clipped wtd nsig (Z.to_nat niter) all = true
               /\ sigma_clip_ok_e eps wtd nsig (Z.to_nat niter) all m s e idx)
  /\ (v = 0%Z -> 0 <= nsig /\ kf_everything_clipped wtd nsig (Z.to_nat niter) all = false
                /\ sigma_clip_ok_e eps wtd nsig (Z.to_nat niter) all m s e idx).
Proof.
  intros all wtd v. subst v. unfold v_sigma_clip_e.
  set (wf := Nat.eqb (length (sc_weights x w)) (length x) && negb (Nat.eqb (length x) 0) && Qle_bool 0 nsig).
  fold all. fold wtd.
  destruct wf eqn:W.
  - assert (Hn : 0 <= nsig).
    { unfold wf in W. apply andb_true_iff in W as [_ W]. apply Qle_bool_iff, W. }
    cbn [andb]. destruct (sc_border_e eps (Z.to_nat niter) wtd nsig all (sc_stats wtd all)).
    + unfold skip. split; discriminate.
    + destruct (sigma_clip_check_e eps wtd nsig (Z.to_nat niter) all m s e idx) eqn:C.
      * destruct (kf_everything_clipped wtd nsig (Z.to_nat niter) all) eqn:K.
        -- split; [|discriminate]. intros _. split; [exact Hn|]. split; [reflexivity|].
           apply sigma_clip_check_e_sound; assumption.
        -- split; [discriminate|]. intros _. split; [exact Hn|]. split; [reflexivity|].
           apply sigma_clip_check_e_sound; assumption.
      * split; discriminate.
  - cbn [andb]. split; discriminate.
Qed.

(* a concrete instance of what is NOT hidden: on the class input x = [-1, 1], nsig = 1/2 the
   faithful output gets 12, the output "empty indices, statistics of the previous subset" gets 3 *)
Lemma known_class_hides_only_faithful :
  v_sigma_clip [-1; 1] None 4 (1 # 2) (Ok (0, 1, 7071067811865475 # 10000000000000000, [0; 1]%Z)) = 12%Z
  /\ v_sigma_clip [-1; 1] None 4 (1 # 2) (Ok (0, 1, 7071067811865475 # 10000000000000000, [])) = 3%Z.
Proof. split; vm_compute; reflexivity. Qed.

(* C18 — the property as Props over plain textbook definitions (sums written with the naive
   recursion [Sum]), and the boolean checkers that the correspondence run evaluates on the
   implementation's outputs (soundness: *Proofs.v, collected in Properties.v).

   Square roots.  "s is the square root of V up to tol" is expressed on squares by [close_sqrt]
   (CorProofs.close_sqrt_real shows it implies |s - sqrt V| <= tol over the reals).

   Tolerances.  The property allows rounding only.  All comparisons use the relative constant
   eps9 = 1e-9 against a condition-aware scale:
     mean            eps9 * A,  A = sum|w x| / sum w  (+ |inputmean|)
     error, sdev     eps9 * (value + A)   (a perturbation d of the mean moves
                     sqrt(sum w^2 (x-m)^2)/sum w and sqrt(sum w (x-m)^2/sum w) by at most |d|,
                     because ||w||_2 <= ||w||_1; everything else is relative rounding)
     1/sqrt(sum w), correlation coefficients, cor2cov products: eps9 * |value|
     interpolation   eps9 * (|slope term| + |v_k|)
   binary64 summation of N <= 2000 terms has a relative error below 2.3e-13 of the sum of
   absolute values, so 1e-9 leaves three orders of magnitude for the error propagation through
   sqrt and the division, while a wrong definition (n vs n-1, w vs w^2, wrong segment) is off by
   at least ~1/N relative. *)
From Coq Require Import QArith Qabs.
From EsVerif.Common Require Import Base.
From EsVerif.C18 Require Import Model.
Open Scope Q_scope.

Definition eps9 : Q := 1 # 1000000000.

Fixpoint Sum (l : list Q) : Q := match l with [] => 0 | x :: t => x + Sum t end.

(* ------------------------------------------------------------------ closeness *)
Definition close_lin (y v tol : Q) : Prop := Qabs (y - v) <= tol.
Definition close_lin_b (y v tol : Q) : bool := Qle_bool (Qabs (y - v)) tol.

(* 0 <= s and  max(0, s - tol)^2 <= V <= (s + tol)^2 *)
Definition close_sqrt (s V tol : Q) : Prop :=
  0 <= s /\ 0 <= tol /\ (s <= tol \/ (s - tol) * (s - tol) <= V) /\ V <= (s + tol) * (s + tol).
Definition close_sqrt_b (s V tol : Q) : bool :=
  Qle_bool 0 s && Qle_bool 0 tol && (Qle_bool s tol || Qle_bool ((s - tol) * (s - tol)) V)
  && Qle_bool V ((s + tol) * (s + tol)).

(* ------------------------------------------------------------------ weighted moments *)
Definition wmean_def (w x : list Q) : Q := Sum (map2 Qmult w x) / Sum w.
(* squares of the documented errors: 1/sqrt(sum w)  and  sqrt(sum w^2 (x-m)^2)/sum w *)
Definition werr2_default_def (w : list Q) : Q := 1 / Sum w.
Definition werr2_calc_def (w x : list Q) (m : Q) : Q :=
  Sum (map2 (fun wi xi => wi * wi * ((xi - m) * (xi - m))) w x) / (Sum w * Sum w).
(* square of the weighted deviation sqrt(sum w (x-m)^2 / sum w) *)
Definition wvar_def (w x : list Q) (m : Q) : Q :=
  Sum (map2 (fun wi xi => wi * ((xi - m) * (xi - m))) w x) / Sum w.
Definition absmean_def (w x : list Q) : Q := Sum (map2 (fun wi xi => Qabs (wi * xi)) w x) / Sum w.

(* what the model's record for one column must contain: the mean (or the supplied mean), the
   square of the documented error for the chosen setting, the square of the weighted deviation
   exactly when sdev is requested *)
Definition mom_spec (x w : list Q) (im : option Q) (calcerr sdev : bool) (r : mom) : Prop :=
  let m := match im with None => wmean_def w x | Some m0 => m0 end in
  m_mean r == m
  /\ m_err2 r == (if calcerr then werr2_calc_def w x m else werr2_default_def w)
  /\ match m_var r with
     | Some v => sdev = true /\ v == wvar_def w x m
     | None => sdev = false
     end.

(* column j of a returned value (a 0-d value is the same for every column) *)
Definition nd_get (a : nd) (j : nat) : Q :=
  match a with S0 q => q | V1 v => nth j v 0 | M2 _ => 0 end.
Definition out_col (o : wmom_out) (j : nat) : mom :=
  {| m_mean := nd_get (o_mean o) j; m_err2 := nd_get (o_err2 o) j;
     m_var := match o_var o with Some a => Some (nd_get a j) | None => None end |}.
Definition im_col (im : imean) (j : nat) : option Q :=
  match im with INone => None | IScalar m => Some m | IVec v => Some (nth j v 0) end.

Definition im_abs (im : option Q) : Q := match im with Some m => Qabs m | None => 0 end.

(* the three numbers (mean, err, sdev) reported for one column are right up to rounding *)
Definition wmom1_ok (x w : list Q) (im : option Q) (calcerr : bool) (mean err : Q) (sdev : option Q) : Prop :=
  let A := absmean_def w x + im_abs im in
  let mref := match im with None => wmean_def w x | Some m => m end in
  match im with None => close_lin mean mref (eps9 * A) | Some m => mean == m end
  /\ (if calcerr then close_sqrt err (werr2_calc_def w x mref) (eps9 * (err + A))
      else close_sqrt err (werr2_default_def w) (eps9 * err))
  /\ match sdev with None => True | Some s => close_sqrt s (wvar_def w x mref) (eps9 * (s + A)) end.

Definition absmean_q (w x : list Q) : Q := qsum (map2 (fun wi xi => Qabs (wi * xi)) w x) / qsum w.

(* the implementation's numbers against one column record of the model *)
Definition mom_close (r : mom) (A : Q) (im : option Q) (calcerr : bool) (mean err : Q) (sdev : option Q) : bool :=
  match im with None => close_lin_b mean (m_mean r) (eps9 * A) | Some m => Qeq_bool mean m end
  && (if calcerr then close_sqrt_b err (m_err2 r) (eps9 * (err + A)) else close_sqrt_b err (m_err2 r) (eps9 * err))
  && match sdev, m_var r with
     | None, _ => true
     | Some s, Some v => close_sqrt_b s v (eps9 * (s + A))
     | Some _, None => false
     end.

Definition wmom1_check (x w : list Q) (im : option Q) (calcerr : bool) (mean err : Q) (sdev : option Q) : bool :=
  mom_close (wmom1 x w im calcerr true) (absmean_q w x + im_abs im) im calcerr mean err sdev.

(* numpy-level checker: shapes of the three returned values, then every column *)
Definition nd_shape_eqb (a b : nd) : bool :=
  match a, b with
  | S0 _, S0 _ => true
  | V1 u, V1 v => Nat.eqb (length u) (length v)
  | _, _ => false
  end.
Definition data_col (arr : nd) (j : nat) : list Q :=
  match arr with V1 x => x | M2 rows => col j rows | S0 q => [q] end.
Definition data_ncols (arr : nd) : nat := match arr with M2 rows => ncols rows | _ => 1%nat end.
(* the weights that act on column j: 1-d weights themselves (weights[:, newaxis]) or column j *)
Definition wcol_of (wts : nd) (j : nat) : list Q :=
  match wts with V1 w => w | M2 ww => col j ww | S0 q => [q] end.
Definition opt_get (os : option nd) (j : nat) : option Q :=
  match os with Some b => Some (nd_get b j) | None => None end.

Definition wmom_check (arr wts : nd) (im : imean) (ce sd : bool) (om oe : nd) (os : option nd) : bool :=
  match wmom arr wts im ce sd with
  | Err _ => false
  | Ok o =>
      nd_shape_eqb (o_mean o) om && nd_shape_eqb (o_err2 o) oe
      && match o_var o, os with Some a, Some b => nd_shape_eqb a b | None, None => true | _, _ => false end
      && forallb (fun j => let x := data_col arr j in let w := wcol_of wts j in let imj := im_col im j in
                           mom_close (out_col o j) (absmean_q w x + im_abs imj) imj ce
                                     (nd_get om j) (nd_get oe j) (opt_get os j))
                 (seq 0 (data_ncols arr))
  end.

(* ------------------------------------------------------------------ weighted median *)
Definition cumw (l : list (Q * Q)) (v : Q) : Q :=
  Sum (map snd (filter (fun p => Qle_bool (fst p) v) l)).
Definition totw (l : list (Q * Q)) : Q := Sum (map snd l).

(* v is the smallest data value whose cumulative weight reaches half the total *)
Definition wmedian_ok (l : list (Q * Q)) (v : Q) : Prop :=
  (exists p, In p l /\ fst p == v)
  /\ totw l / 2 <= cumw l v
  /\ (forall p, In p l -> fst p < v -> cumw l (fst p) < totw l / 2).

Definition cumw_q (l : list (Q * Q)) (v : Q) : Q :=
  qsum (map snd (filter (fun p => Qle_bool (fst p) v) l)).
Definition wmedian_check (l : list (Q * Q)) (v : Q) : bool :=
  let h := qsum (map snd l) / 2 in
  existsb (fun p => Qeq_bool (fst p) v) l
  && Qle_bool h (cumw_q l v)
  && forallb (fun p => if Qlt_bool (fst p) v then Qlt_bool (cumw_q l (fst p)) h else true) l.

(* ------------------------------------------------------------------ sigma clipping *)
(* statistics of a subset by the textbook definitions: (mean, err^2, var) *)
Definition stat_def (weighted : bool) (cur : list pt) : Q * Q * Q :=
  let xs := map p_x cur in
  if weighted then
    let ws := map p_w cur in
    let m := wmean_def ws xs in (m, werr2_calc_def ws xs m, wvar_def ws xs m)
  else
    let n := qlen cur in
    let m := Sum xs / n in
    let v := Sum (map (fun x => (x - m) * (x - m)) xs) / n in (m, v / n, v).

(* one round: keep the points strictly within nsig deviations of the current mean,
   |x - m| < nsig * sqrt(var), i.e. (x-m)^2 < nsig^2 var for nsig >= 0 *)
Definition clip_step (weighted : bool) (nsig : Q) (cur : list pt) : list pt :=
  let '(m, _, v) := stat_def weighted cur in
  filter (fun p => Qlt_bool ((p_x p - m) * (p_x p - m)) (nsig * nsig * v)) cur.

Fixpoint iterate {A} (f : A -> A) (k : nat) (a : A) : A :=
  match k with O => a | S j => iterate f j (f a) end.

(* sub is the k-th iterate of the clipping round; every earlier round discarded something but
   not everything; the iteration stopped because the limit was reached, or nothing changes any
   more, or the next round would discard everything (the code then keeps the last subset and
   reports "nsig too small") *)
Definition clip_fixpoint (weighted : bool) (nsig : Q) (niter : nat) (all sub : list pt) : Prop :=
  let step := clip_step weighted nsig in
  exists k, (k <= niter)%nat
    /\ sub = iterate step k all
    /\ (forall j, (j < k)%nat -> let c := iterate step j all in
                                 step c <> [] /\ length (step c) <> length c)
    /\ (k = niter \/ step sub = sub \/ step sub = []).

Definition sc_scale (weighted : bool) (sub : list pt) : Q :=
  absmean_def (map (fun p => if weighted then p_w p else 1) sub) (map p_x sub).

(* the reported mean, deviation, error are those of exactly the reported subset (up to
   rounding), and that subset is the clipping fixpoint *)
Definition sigma_clip_ok (weighted : bool) (nsig : Q) (niter : nat) (all : list pt)
           (mean sdev err : Q) (idx : list Z) : Prop :=
  exists sub, map p_idx sub = idx
    /\ clip_fixpoint weighted nsig niter all sub
    /\ let '(m, e2, v) := stat_def weighted sub in
       let A := sc_scale weighted sub in
       close_lin mean m (eps9 * A)
       /\ close_sqrt sdev v (eps9 * (sdev + A))
       /\ close_sqrt err e2 (eps9 * (err + A)).

Definition sc_scale_q (weighted : bool) (sub : list pt) : Q :=
  qsum (map2 (fun wi xi => Qabs (wi * xi)) (map (fun p => if weighted then p_w p else 1) sub) (map p_x sub))
  / qsum (map (fun p => if weighted then p_w p else 1) sub).

Definition sigma_clip_check (weighted : bool) (nsig : Q) (niter : nat) (all : list pt)
           (mean sdev err : Q) (idx : list Z) : bool :=
  let '(sub, st) := sc_loop niter weighted nsig all (sc_stats weighted all) in
  let A := sc_scale_q weighted sub in
  zlist_eqb (map p_idx sub) idx
  && close_lin_b mean (c_mean st) (eps9 * A)
  && close_sqrt_b sdev (c_var st) (eps9 * (sdev + A))
  && close_sqrt_b err (c_err2 st) (eps9 * (err + A)).

(* ------------------------------------------------------------------ interpolation *)
Fixpoint incr (l : list Q) : Prop :=
  match l with
  | x :: t => match t with [] => True | y :: _ => x < y end /\ incr t
  | [] => True
  end.
Fixpoint incr_b (l : list Q) : bool :=
  match l with
  | x :: t => match t with [] => true | y :: _ => Qlt_bool x y end && incr_b t
  | [] => true
  end.

(* the chord through (x_k, v_k) and (x_{k+1}, v_{k+1}), evaluated at u *)
Definition chord (v x : list Q) (k : nat) (u : Q) : Q :=
  nth k v 0 + (nth (S k) v 0 - nth k v 0) / (nth (S k) x 0 - nth k x 0) * (u - nth k x 0).

(* y is, up to tol, the piecewise-linear interpolant inside the table and the straight-line
   extension of the first / last segment outside it *)
Definition interp_ok (v x : list Q) (u y tol : Q) : Prop :=
  (forall k, (S k < length x)%nat -> nth k x 0 <= u <= nth (S k) x 0 -> Qabs (y - chord v x k u) <= tol)
  /\ (u < nth 0 x 0 -> Qabs (y - chord v x 0 u) <= tol)
  /\ (nth (length x - 1) x 0 < u -> Qabs (y - chord v x (length x - 2) u) <= tol).

Definition interp_scale (v x : list Q) (u : Q) : Q :=
  let k := Z.to_nat (interp_index x u) in
  Qabs (interp1 v x u - nth k v 0) + Qabs (nth k v 0).

Definition interp_check (v x : list Q) (u y : Q) : bool :=
  incr_b x && Nat.leb 2 (length x) && Nat.eqb (length v) (length x)
  && close_lin_b y (interp1 v x u) (eps9 * interp_scale v x u).

(* ------------------------------------------------------------------ summary statistics *)
Definition is_min (l : list Q) (m : Q) : Prop := (exists y, In y l /\ y == m) /\ forall y, In y l -> m <= y.
Definition is_max (l : list Q) (m : Q) : Prop := (exists y, In y l /\ y == m) /\ forall y, In y l -> y <= m.
Definition is_min_b (l : list Q) (m : Q) : bool := existsb (fun y => Qeq_bool y m) l && forallb (fun y => Qle_bool m y) l.
Definition is_max_b (l : list Q) (m : Q) : bool := existsb (fun y => Qeq_bool y m) l && forallb (fun y => Qle_bool y m) l.

Definition sc_weights (x : list Q) (weights : option (list Q)) : list Q :=
  match weights with Some w => w | None => map (fun _ => 1) x end.
Definition sc_weighted (weights : option (list Q)) : bool :=
  match weights with Some _ => true | None => false end.

(* one column of get_stats: min and max of the data; mean / deviation / error are those of
   sigma_clip when clipping is requested (nsig, niter), of wmom(calcerr=True, sdev=True) when
   weights are given, and otherwise the plain mean, std (ddof=0) and std/sqrt(N) of all points
   (= the statistics sigma_clip computes with zero rounds) *)
Definition gs_col_ok (x : list Q) (w : option (list Q)) (clip : option (Q * nat))
           (mn mx mean std err : Q) (idx : list Z) : Prop :=
  is_min x mn /\ is_max x mx /\
  match clip with
  | Some (nsig, niter) =>
      0 <= nsig /\ sigma_clip_ok (sc_weighted w) nsig niter (index_from 0%Z x (sc_weights x w)) mean std err idx
  | None =>
      match w with
      | Some w => wmom1_ok x w None true mean err (Some std)
      | None => sigma_clip_ok false 1 0 (index_from 0%Z x x) mean std err (zseq 0 (length x))
      end
  end.

Definition gs_col_check (x : list Q) (w : option (list Q)) (clip : option (Q * nat))
           (mn mx mean std err : Q) (idx : list Z) : bool :=
  is_min_b x mn && is_max_b x mx &&
  match clip with
  | Some (nsig, niter) =>
      Qle_bool 0 nsig
      && sigma_clip_check (sc_weighted w) nsig niter (index_from 0%Z x (sc_weights x w)) mean std err idx
  | None =>
      match w with
      | Some w => wmom1_check x w None true mean err (Some std)
      | None => sigma_clip_check false 1 0 (index_from 0%Z x x) mean std err (zseq 0 (length x))
      end
  end.

(* ------------------------------------------------------------------ covariance / correlation *)
(* c = num / sqrt(den2) up to relative eps9, on squares, with the sign of num *)
Definition cor_close (c num den2 : Q) : Prop :=
  (0 <= num -> 0 <= c) /\ (num <= 0 -> c <= 0) /\ close_sqrt (Qabs c) (num * num / den2) (eps9 * Qabs c).
Definition cor_close_b (c num den2 : Q) : bool :=
  (if Qle_bool 0 num then Qle_bool 0 c else true) && (if Qle_bool num 0 then Qle_bool c 0 else true)
  && close_sqrt_b (Qabs c) (num * num / den2) (eps9 * Qabs c).

Definition rel_close (y v : Q) : Prop := Qabs (y - v) <= eps9 * Qabs v.
Definition rel_close_b (y v : Q) : bool := Qle_bool (Qabs (y - v)) (eps9 * Qabs v).

Definition idx2 (n : nat) : list (nat * nat) := flat_map (fun i => map (fun j => (i, j)) (seq 0 n)) (seq 0 n).

(* every entry of the reported correlation matrix is cov[i,j]/sqrt(cov[i,i] cov[j,j]) *)
Definition cov2cor_ok (cov cor : list (list Q)) : Prop :=
  forall i j, (i < length cov)%nat -> (j < length cov)%nat ->
    cor_close (mget cor i j) (mget cov i j) (mget cov i i * mget cov j j).
Definition cov2cor_check (cov cor : list (list Q)) : bool :=
  forallb (fun ij => cor_close_b (mget cor (fst ij) (snd ij)) (mget cov (fst ij) (snd ij))
                                 (mget cov (fst ij) (fst ij) * mget cov (snd ij) (snd ij))) (idx2 (length cov)).

(* entrywise relative agreement of two matrices (cor2cov against cor*d*d; round trip against cov) *)
Definition mat_close (n : nat) (a b : list (list Q)) : Prop :=
  forall i j, (i < n)%nat -> (j < n)%nat -> rel_close (mget a i j) (mget b i j).
Definition mat_close_b (n : nat) (a b : list (list Q)) : bool :=
  forallb (fun ij => rel_close_b (mget a (fst ij) (snd ij)) (mget b (fst ij) (snd ij))) (idx2 n).

(* ------------------------------------------------------------------ boxcar average *)
Definition boxcar_def (x : list Q) (N : Z) (k : nat) : Q := Sum (firstn (Z.to_nat N) (skipn k x)) / inject_Z N.
Definition boxcar_scale (x : list Q) (N : Z) (k : nat) : Q :=
  qsum (map Qabs (firstn (Z.to_nat N) (skipn k x))) / inject_Z N.

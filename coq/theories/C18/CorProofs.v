(* C18 — covariance <-> correlation; the meaning of [close_sqrt] over the reals.
   The statements that mention sqrt live in R (standard-library real-number axioms only). *)
From Coq Require Import QArith Qabs Lqa Setoid Morphisms.
From EsVerif.Common Require Import Base.
From EsVerif.C18 Require Import Model Spec QLemmas MomProofs.
Open Scope Q_scope.

Lemma rect_row m n i : rect m n = true -> (i < length m)%nat -> length (nth i m []) = n.
Proof.
  unfold rect. intros H Hi. rewrite forallb_forall in H.
  apply Nat.eqb_eq. apply H. apply nth_In. exact Hi.
Qed.

(* ---- cov2cor *)
Lemma cov2cor_spec cov :
  rect cov (length cov) = true ->
  (forall i, (i < length cov)%nat -> 0 < mget cov i i) ->
  exists m, cov2cor cov = Ok m
    /\ forall i j, (i < length cov)%nat -> (j < length cov)%nat ->
         nth j (nth i m []) (0, 0) = (mget cov i j, mget cov i i * mget cov j j).
Proof.
  intros R P. unfold cov2cor. rewrite R. simpl negb. cbv iota.
  assert (E : forallb (fun i => Qlt_bool 0 (mget cov i i)) (seq 0 (length cov)) = true).
  { apply forallb_forall. intros i Hi. apply in_seq in Hi. apply Qlt_bool_iff, P. lia. }
  rewrite E. eexists; split; [reflexivity|]. intros i j Hi Hj.
  rewrite (nth_map_seq _ _ i [] Hi), (nth_map_seq _ _ j (0, 0) Hj). reflexivity.
Qed.

Lemma cov2cor_rejects cov i :
  rect cov (length cov) = true -> (i < length cov)%nat -> mget cov i i <= 0 ->
  cov2cor cov = Err EValue.
Proof.
  intros R Hi N. unfold cov2cor. rewrite R. simpl negb. cbv iota.
  destruct (forallb (fun i => Qlt_bool 0 (mget cov i i)) (seq 0 (length cov))) eqn:E; [|reflexivity].
  rewrite forallb_forall in E. assert (In i (seq 0 (length cov))) as I by (apply in_seq; lia).
  apply E in I. apply Qlt_bool_iff in I. exfalso. lra.
Qed.

(* ---- cor2cov *)
Lemma cor2cov_spec cor d :
  rect cor (length cor) = true -> length d = length cor ->
  exists m, cor2cov cor d = Ok m
    /\ forall i j, (i < length cor)%nat -> (j < length cor)%nat ->
         mget m i j = mget cor i j * nth i d 0 * nth j d 0.
Proof.
  intros R L. unfold cor2cov.
  assert (NC : ncols cor = length cor).
  { destruct cor as [|r t]; [reflexivity|]. simpl. apply (rect_row (r :: t) (length (r :: t)) O R). simpl; lia. }
  rewrite NC, R, Nat.eqb_refl, L, Nat.eqb_refl. simpl negb. cbv iota.
  eexists; split; [reflexivity|]. intros i j Hi Hj. unfold mget at 1.
  rewrite (nth_map_seq _ _ i [] Hi), (nth_map_seq _ _ j 0 Hj). reflexivity.
Qed.

(* ---- round trip on squares, in Q:  cor[i,j]^2 * cov[i,i] * cov[j,j] = cov[i,j]^2 *)
Lemma roundtrip_squares c cii cjj :
  0 < cii -> 0 < cjj -> (c * c / (cii * cjj)) * cii * cjj == c * c.
Proof. intros A B. field. split; intro E; lra. Qed.

(* ---- checkers *)
Lemma in_idx2 n i j : (i < n)%nat -> (j < n)%nat -> In (i, j) (idx2 n).
Proof.
  intros Hi Hj. unfold idx2. apply in_flat_map. exists i. split; [apply in_seq; lia|].
  apply in_map_iff. exists j. split; [reflexivity|apply in_seq; lia].
Qed.

Lemma cor_close_b_sound c num den2 : cor_close_b c num den2 = true -> cor_close c num den2.
Proof.
  unfold cor_close_b, cor_close. intro H.
  apply andb_true_iff in H as [H H3]. apply andb_true_iff in H as [H1 H2].
  split; [|split].
  - intro A. apply Qle_bool_iff in A. rewrite A in H1. apply Qle_bool_iff, H1.
  - intro A. apply Qle_bool_iff in A. rewrite A in H2. apply Qle_bool_iff, H2.
  - apply close_sqrt_b_iff, H3.
Qed.

Lemma cov2cor_check_sound cov cor : cov2cor_check cov cor = true -> cov2cor_ok cov cor.
Proof.
  unfold cov2cor_check, cov2cor_ok. intros H i j Hi Hj. rewrite forallb_forall in H.
  apply cor_close_b_sound. apply (H (i, j)). apply in_idx2; assumption.
Qed.

Lemma mat_close_b_sound n a b : mat_close_b n a b = true -> mat_close n a b.
Proof.
  unfold mat_close_b, mat_close. intros H i j Hi Hj. rewrite forallb_forall in H.
  apply rel_close_b_iff. apply (H (i, j)). apply in_idx2; assumption.
Qed.

(* ---- over the reals *)
From Coq Require Import Reals Qreals Lra.
Open Scope R_scope.

(* [close_sqrt s V tol] really says that s is within tol of the square root of V *)
Lemma close_sqrt_real s V tol :
  close_sqrt s V tol -> (0 <= V)%Q -> Rabs (Q2R s - sqrt (Q2R V)) <= Q2R tol.
Proof.
  intros [Hs [Ht [Hlo Hhi]]] HV.
  apply Qle_Rle in Hs, Ht, Hhi, HV. rewrite RMicromega.Q2R_0 in *.
  rewrite Q2R_mult, Q2R_plus in Hhi.
  set (S := Q2R s) in *. set (T := Q2R tol) in *. set (W := Q2R V) in *.
  pose proof (sqrt_pos W) as Rp. pose proof (sqrt_sqrt W HV) as Rs.
  set (r := sqrt W) in *.
  assert (U : r <= S + T) by nra.
  assert (L : S - T <= r).
  { destruct Hlo as [Hlo|Hlo].
    - apply Qle_Rle in Hlo. fold S T in Hlo. lra.
    - apply Qle_Rle in Hlo. rewrite Q2R_mult, Q2R_minus in Hlo. fold S T W in Hlo.
      destruct (Rle_lt_dec (S - T) 0); [lra|nra]. }
  apply Rabs_le. lra.
Qed.

(* the documented formula followed by the inverse conversion reproduces the covariance:
   (c / sqrt(cii cjj)) * sqrt cii * sqrt cjj = c *)
Lemma roundtrip_real c cii cjj :
  0 < cii -> 0 < cjj -> c / sqrt (cii * cjj) * sqrt cii * sqrt cjj = c.
Proof.
  intros A B. rewrite sqrt_mult by lra.
  pose proof (sqrt_lt_R0 cii A). pose proof (sqrt_lt_R0 cjj B). field. split; lra.
Qed.

(* matrix form: feed the pairs (num, den2) returned by the model of cov2cor, read as
   num/sqrt(den2), and the errors sqrt(cov[i,i]) into the formula of cor2cov *)
Lemma cor_cov_roundtrip_real cov m :
  cov2cor cov = Ok m ->
  rect cov (length cov) = true ->
  forall i j, (i < length cov)%nat -> (j < length cov)%nat ->
    let '(num, den2) := nth j (nth i m []) (0%Q, 0%Q) in
    Q2R num / sqrt (Q2R den2) * sqrt (Q2R (mget cov i i)) * sqrt (Q2R (mget cov j j))
    = Q2R (mget cov i j).
Proof.
  intros E R i j Hi Hj.
  assert (P : forall k, (k < length cov)%nat -> (0 < mget cov k k)%Q).
  { intros k Hk. destruct (Qlt_le_dec 0 (mget cov k k)) as [L|L]; [exact L|].
    rewrite (cov2cor_rejects cov k R Hk L) in E. discriminate. }
  destruct (cov2cor_spec cov R P) as [m' [E' Hm]]. rewrite E in E'. inversion E'; subst m'.
  rewrite (Hm i j Hi Hj). rewrite Q2R_mult.
  apply roundtrip_real; [pose proof (Qlt_Rlt _ _ (P i Hi)) as X|pose proof (Qlt_Rlt _ _ (P j Hj)) as X];
    rewrite RMicromega.Q2R_0 in X; exact X.
Qed.

(* C18 — get_stats on N-by-d data: every column of every reported value is the 1-d summary of
   that column (plain: mean, std with ddof=0, std/sqrt(N); weighted: wmom with calcerr and sdev). *)
From Coq Require Import QArith Qabs Lqa.
From EsVerif.Common Require Import Base.
From EsVerif.C18 Require Import Model Spec QLemmas MomProofs ClipProofs.
Open Scope Q_scope.

Lemma col_nonempty j rows : rows <> [] -> col j rows <> [].
Proof. destruct rows; [congruence|discriminate]. Qed.

Lemma get_stats_Nd_plain rows d :
  rows <> [] -> ncols rows = d -> rect rows d = true ->
  exists g, get_stats (M2 rows) None None None = Ok g
    /\ forall j, (j < d)%nat ->
         let x := col j rows in
         is_min x (nd_get (g_min g) j) /\ is_max x (nd_get (g_max g) j)
         /\ nd_get (g_mean g) j = c_mean (plain_stats x)
         /\ nd_get (g_var g) j = c_var (plain_stats x)
         /\ nd_get (g_err2 g) j = c_err2 (plain_stats x).
Proof.
  intros NE ND R. unfold get_stats. cbn [atleast_1d]. cbv iota beta zeta. rewrite ND, R. cbn [negb].
  eexists; split; [reflexivity|]. intros j Hj. cbn [g_min g_max g_mean g_var g_err2 nd_get].
  rewrite ?map_map, !nth_map_seq by exact Hj.
  split; [apply qmin_list_spec, col_nonempty, NE|]. split; [apply qmax_list_spec, col_nonempty, NE|].
  repeat split.
Qed.

Lemma get_stats_Nd_weighted rows d wts :
  rows <> [] -> ncols rows = d -> rect rows d = true -> weights_fit rows d wts ->
  exists g, get_stats (M2 rows) (Some wts) None None = Ok g
    /\ forall j, (j < d)%nat ->
         let x := col j rows in
         let r := wmom1 x (wcol_of wts j) None true true in
         is_min x (nd_get (g_min g) j) /\ is_max x (nd_get (g_max g) j)
         /\ nd_get (g_mean g) j = m_mean r
         /\ Some (nd_get (g_var g) j) = m_var r
         /\ nd_get (g_err2 g) j = m_err2 r.
Proof.
  intros NE ND R WF. unfold get_stats. cbn [atleast_1d]. cbv iota beta zeta. rewrite ND, R. cbn [negb].
  destruct (wmom_Nd rows d wts INone true true NE ND R WF I) as [o [E Ho]].
  rewrite E. cbn [bind].
  assert (V : exists a, o_var o = Some a).
  { unfold wmom in E. cbn [atleast_1d] in E.
    assert (AW : atleast_1d wts = wts) by (destruct wts; simpl in *; [contradiction|reflexivity|reflexivity]).
    rewrite AW, ND, R in E. cbn [negb] in E. cbv iota in E.
    destruct wts as [q|w|ww]; simpl in WF; [contradiction| |].
    - rewrite WF, Nat.eqb_refl in E. cbn [bind] in E. inversion E. eexists; reflexivity.
    - destruct WF as [WL WR]. rewrite WL, Nat.eqb_refl, WR in E. cbn [andb bind] in E. inversion E. eexists; reflexivity. }
  destruct V as [a Va]. rewrite Va.
  eexists; split; [reflexivity|]. intros j Hj. cbn [g_min g_max g_mean g_var g_err2].
  specialize (Ho j Hj). unfold out_col in Ho. rewrite Va in Ho. cbn [im_col] in Ho.
  cbn [nd_get]. rewrite !nth_map_seq by exact Hj.
  split; [apply qmin_list_spec, col_nonempty, NE|]. split; [apply qmax_list_spec, col_nonempty, NE|].
  rewrite <- Ho. cbn [m_mean m_var m_err2]. repeat split.
Qed.

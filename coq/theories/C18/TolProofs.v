(* C18 — at eps9 the parametrised checkers are the verified ones *)
From Coq Require Import QArith Qabs.
From EsVerif.Common Require Import Base.
From EsVerif.C18 Require Import Model Spec SpecTol.

Lemma tol_checkers_at_eps9 :
  (forall r A im ce mean err sdev, mom_close_e eps9 r A im ce mean err sdev = mom_close r A im ce mean err sdev)
  /\ (forall arr wts im ce sd om oe os, wmom_check_e eps9 arr wts im ce sd om oe os = wmom_check arr wts im ce sd om oe os)
  /\ (forall wtd nsig niter all mean sdev err idx,
        sigma_clip_check_e eps9 wtd nsig niter all mean sdev err idx = sigma_clip_check wtd nsig niter all mean sdev err idx)
  /\ (forall v x u y, interp_check_e eps9 v x u y = interp_check v x u y)
  /\ (forall c num den2, cor_close_b_e eps9 c num den2 = cor_close_b c num den2)
  /\ (forall cov cor, cov2cor_check_e eps9 cov cor = cov2cor_check cov cor)
  /\ (forall n a b, mat_close_b_e eps9 n a b = mat_close_b n a b).
Proof. repeat split; intros; reflexivity. Qed.

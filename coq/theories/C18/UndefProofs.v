(* C18 — the clipping loop with explicit undefinedness: when it ends Defined it is Model.sc_loop and
   every subset whose statistics were used had them; when it ends Undefined the reported subset is
   still one more application of the discard rule to the last subset that had statistics. *)
From Coq Require Import QArith Qabs Lqa Lia.
From EsVerif.Common Require Import Base.
From EsVerif.C18 Require Import Model Spec QLemmas MomProofs ClipProofs UndefModel.
Open Scope Q_scope.

Lemma sc_loop_u_defined weighted nsig : forall fuel cur st sub st',
  sc_loop_u fuel weighted nsig cur st = ScDefined sub st' -> sc_loop fuel weighted nsig cur st = (sub, st').
Proof.
  induction fuel as [|f IH]; intros cur st sub st' H; simpl in *.
  - inversion H; reflexivity.
  - destruct (filter (within nsig st) cur) as [|p kept] eqn:EK; [inversion H; reflexivity|].
    destruct (Nat.eqb (length (p :: kept)) (length cur)); [inversion H; reflexivity|].
    destruct (stats_defined weighted (p :: kept)); [apply IH, H|discriminate].
Qed.

(* every round of a Defined run worked on a subset that has statistics *)
Lemma sc_loop_u_defined_rounds weighted nsig :
  0 <= nsig ->
  forall fuel cur sub st,
    sc_loop_u fuel weighted nsig cur (sc_stats weighted cur) = ScDefined sub st ->
    exists k, (k <= fuel)%nat /\ sub = iterate (clip_step weighted nsig) k cur
      /\ forall j, (1 <= j <= k)%nat -> stats_defined weighted (iterate (clip_step weighted nsig) j cur) = true.
Proof.
  intro Hn. induction fuel as [|f IH]; intros cur sub st H; simpl in H.
  - inversion H; subst. exists O. split; [lia|]. split; [reflexivity|]. intros j Hj; lia.
  - rewrite (within_step weighted nsig cur Hn) in H.
    destruct (clip_step weighted nsig cur) as [|p kept] eqn:EK.
    + inversion H; subst. exists O. split; [lia|]. split; [reflexivity|]. intros j Hj; lia.
    + destruct (Nat.eqb (length (p :: kept)) (length cur)).
      * inversion H; subst. exists O. split; [lia|]. split; [reflexivity|]. intros j Hj; lia.
      * destruct (stats_defined weighted (p :: kept)) eqn:D; [|discriminate].
        apply IH in H. destruct H as [k [Hk [Hs Hd]]]. exists (S k). split; [lia|].
        split; [rewrite iterate_S, EK; exact Hs|].
        intros [|j] Hj; [lia|]. rewrite iterate_S, EK. destruct j as [|j]; [exact D|apply Hd; lia].
Qed.

Lemma sc_loop_u_undefined weighted nsig :
  0 <= nsig ->
  forall fuel cur prev kept,
    sc_loop_u fuel weighted nsig cur (sc_stats weighted cur) = ScUndefined prev kept ->
    exists k, (k < fuel)%nat
      /\ prev = iterate (clip_step weighted nsig) k cur
      /\ kept = clip_step weighted nsig prev
      /\ kept <> [] /\ length kept <> length prev
      /\ stats_defined weighted kept = false
      /\ forall j, (1 <= j <= k)%nat -> stats_defined weighted (iterate (clip_step weighted nsig) j cur) = true.
Proof.
  intro Hn. induction fuel as [|f IH]; intros cur prev kept H; simpl in H; [discriminate|].
  rewrite (within_step weighted nsig cur Hn) in H.
  destruct (clip_step weighted nsig cur) as [|p kp] eqn:EK; [discriminate|].
  destruct (Nat.eqb (length (p :: kp)) (length cur)) eqn:EL; [discriminate|].
  destruct (stats_defined weighted (p :: kp)) eqn:D.
  - apply IH in H. destruct H as [k [Hk [Hp [Hkept [NE [NL [U Hd]]]]]]]. exists (S k). split; [lia|].
    split; [rewrite iterate_S, EK; exact Hp|]. split; [exact Hkept|]. split; [exact NE|]. split; [exact NL|].
    split; [exact U|]. intros [|j] Hj; [lia|]. rewrite iterate_S, EK. destruct j as [|j]; [exact D|apply Hd; lia].
  - inversion H; subst. exists O. split; [lia|]. split; [reflexivity|]. simpl. split; [symmetry; exact EK|].
    split; [discriminate|]. split; [apply Nat.eqb_neq in EL; exact EL|]. split; [exact D|]. intros j Hj; lia.
Qed.

(* the routine: a defined outcome is Model.sigma_clip's, and then the initial subset and every later one
   had statistics; an undefined outcome reports the subset on which the statistics ceased to exist *)
Lemma sigma_clip_u_ok x w niter nsig r :
  0 <= nsig -> length (sc_weights x w) = length x ->
  sigma_clip_u x w (Z.to_nat niter) nsig = ScOk r ->
  sigma_clip (V1 x) (match w with Some l => Some (V1 l) | None => None end) niter nsig = Ok r
  /\ stats_defined (sc_weighted w) (index_from 0%Z x (sc_weights x w)) = true
  /\ exists k, (k <= Z.to_nat niter)%nat
       /\ sc_idx r = map p_idx (iterate (clip_step (sc_weighted w) nsig) k (index_from 0%Z x (sc_weights x w)))
       /\ forall j, (j <= k)%nat ->
            stats_defined (sc_weighted w) (iterate (clip_step (sc_weighted w) nsig) j (index_from 0%Z x (sc_weights x w))) = true.
Proof.
  intros Hn L H. unfold sigma_clip_u in H.
  set (all := index_from 0%Z x (sc_weights x w)) in *. set (wtd := sc_weighted w) in *.
  destruct (stats_defined wtd all) eqn:D0; [|discriminate].
  destruct (sc_loop_u (Z.to_nat niter) wtd nsig all (sc_stats wtd all)) as [sub st|p k] eqn:EL; [|discriminate].
  inversion H; subst r. clear H.
  pose proof (sc_loop_u_defined wtd nsig _ _ _ _ _ EL) as E.
  destruct (sc_loop_u_defined_rounds wtd nsig Hn _ _ _ _ EL) as [k [Hk [Hs Hd]]].
  split.
  - unfold sigma_clip. cbn [atleast_1d].
    destruct w as [l|]; simpl in L; subst all wtd; simpl sc_weights in *; simpl sc_weighted in *.
    + cbn [atleast_1d]. rewrite L, Nat.eqb_refl. cbn [bind]. rewrite E. reflexivity.
    + cbn [bind]. rewrite E. reflexivity.
  - split; [reflexivity|]. exists k. split; [exact Hk|]. split; [cbn [sc_idx]; rewrite Hs; reflexivity|].
    intros [|j] Hj; [exact D0|apply Hd; lia].
Qed.

Lemma iterate_S_out {A} (f : A -> A) k : forall a, iterate f (S k) a = f (iterate f k a).
Proof. induction k as [|k IH]; intro a; [reflexivity|]. rewrite iterate_S, IH. reflexivity. Qed.

Lemma sigma_clip_u_undef x w niter nsig idx :
  0 <= nsig ->
  sigma_clip_u x w niter nsig = ScUndef idx ->
  let all := index_from 0%Z x (sc_weights x w) in
  let wtd := sc_weighted w in
  exists k, (k <= niter)%nat
    /\ idx = map p_idx (iterate (clip_step wtd nsig) k all)
    /\ stats_defined wtd (iterate (clip_step wtd nsig) k all) = false
    /\ forall j, (j < k)%nat -> stats_defined wtd (iterate (clip_step wtd nsig) j all) = true.
Proof.
  intros Hn H all wtd. unfold sigma_clip_u in H. fold all wtd in H.
  destruct (stats_defined wtd all) eqn:D0.
  - destruct (sc_loop_u niter wtd nsig all (sc_stats wtd all)) as [sub st|p kp] eqn:EL; [discriminate|].
    inversion H; subst idx. clear H.
    destruct (sc_loop_u_undefined wtd nsig Hn _ _ _ _ EL) as [k [Hk [Hp [Hkept [_ [_ [U Hd]]]]]]].
    exists (S k). split; [lia|].
    assert (E : iterate (clip_step wtd nsig) (S k) all = kp).
    { rewrite iterate_S_out, <- Hp. symmetry. exact Hkept. }
    rewrite E. split; [reflexivity|]. split; [exact U|].
    intros [|j] Hj; [exact D0|apply Hd; lia].
  - inversion H; subst idx. exists O. split; [lia|]. split; [reflexivity|]. split; [exact D0|]. intros j Hj; lia.
Qed.

(* C18 — the property with the rounding constant as a parameter, and soundness of the parametrised
   checkers (SpecTol.v) for EVERY constant: what the correspondence run evaluates at eps_f4 for the
   calls that compute in float32 is a verified checker too, not only its eps9 instance. *)
From Coq Require Import QArith Qabs Lqa Lia.
From EsVerif.Common Require Import Base.
From EsVerif.C18 Require Import Model Spec SpecTol QLemmas MomProofs ClipProofs InterpProofs CorProofs SpecStrict ClipStrict.
Open Scope Q_scope.

(* ---------------------------------------------------------------- specifications at eps *)
Definition wmom1_ok_e (eps : Q) (x w : list Q) (im : option Q) (calcerr : bool) (mean err : Q) (sdev : option Q) : Prop :=
  let A := absmean_def w x + im_abs im in
  let mref := match im with None => wmean_def w x | Some m => m end in
  match im with None => close_lin mean mref (eps * A) | Some m => mean == m end
  /\ (if calcerr then close_sqrt err (werr2_calc_def w x mref) (eps * (err + A))
      else close_sqrt err (werr2_default_def w) (eps * err))
  /\ match sdev with None => True | Some s => close_sqrt s (wvar_def w x mref) (eps * (s + A)) end.

Definition sigma_clip_ok_e (eps : Q) (weighted : bool) (nsig : Q) (niter : nat) (all : list pt)
           (mean sdev err : Q) (idx : list Z) : Prop :=
  exists sub, map p_idx sub = idx
    /\ clip_fixpoint weighted nsig niter all sub
    /\ let '(m, e2, v) := stat_def weighted sub in
       let A := sc_scale weighted sub in
       close_lin mean m (eps * A)
       /\ close_sqrt sdev v (eps * (sdev + A))
       /\ close_sqrt err e2 (eps * (err + A)).

Definition cor_close_e (eps : Q) (c num den2 : Q) : Prop :=
  (0 <= num -> 0 <= c) /\ (num <= 0 -> c <= 0) /\ close_sqrt (Qabs c) (num * num / den2) (eps * Qabs c).
Definition cov2cor_ok_e (eps : Q) (cov cor : list (list Q)) : Prop :=
  forall i j, (i < length cov)%nat -> (j < length cov)%nat ->
    cor_close_e eps (mget cor i j) (mget cov i j) (mget cov i i * mget cov j j).
Definition mat_close_e (eps : Q) (n : nat) (a b : list (list Q)) : Prop :=
  forall i j, (i < n)%nat -> (j < n)%nat -> Qabs (mget a i j - mget b i j) <= eps * Qabs (mget b i j).

(* at eps9 these are the statements of Spec.v *)
Lemma ok_e_at_eps9 :
  (forall x w im ce mean err sdev, wmom1_ok_e eps9 x w im ce mean err sdev = wmom1_ok x w im ce mean err sdev)
  /\ (forall wtd nsig niter all mean sdev err idx,
        sigma_clip_ok_e eps9 wtd nsig niter all mean sdev err idx = sigma_clip_ok wtd nsig niter all mean sdev err idx)
  /\ (forall cov cor, cov2cor_ok_e eps9 cov cor = cov2cor_ok cov cor)
  /\ (forall n a b, mat_close_e eps9 n a b = mat_close n a b).
Proof. repeat split; reflexivity. Qed.

(* ---------------------------------------------------------------- soundness at every eps *)
Lemma mom_close_e_sound eps x w im ce sd r mean err sdev :
  mom_spec x w im ce sd r ->
  mom_close_e eps r (absmean_q w x + im_abs im) im ce mean err sdev = true ->
  wmom1_ok_e eps x w im ce mean err sdev.
Proof.
  unfold mom_close_e, wmom1_ok_e. intros [Sm [Se Sv]] H.
  apply andb_true_iff in H as [H H3]. apply andb_true_iff in H as [H1 H2].
  pose proof (absmean_q_ok w x) as EA.
  split; [|split].
  - destruct im as [m0|].
    + apply Qeq_bool_iff in H1. exact H1.
    + apply close_lin_b_iff in H1. eapply close_lin_compat; [exact Sm| |exact H1].
      rewrite EA. reflexivity.
  - destruct ce; apply close_sqrt_b_iff in H2.
    + eapply close_sqrt_compat; [exact Se| |exact H2]. rewrite EA. reflexivity.
    + eapply close_sqrt_compat; [exact Se| |exact H2]. reflexivity.
  - destruct sdev as [s|]; [|exact I].
    destruct (m_var r) as [v|] eqn:EV; [|discriminate].
    destruct Sv as [_ Sv]. apply close_sqrt_b_iff in H3.
    eapply close_sqrt_compat; [exact Sv| |exact H3]. rewrite EA. reflexivity.
Qed.

Lemma wmom_check_e_sound_Nd eps rows d wts im ce sd om oe os :
  rows <> [] -> ncols rows = d -> rect rows d = true -> weights_fit rows d wts -> im_fits d im ->
  wmom_check_e eps (M2 rows) wts im ce sd om oe os = true ->
  forall j, (j < d)%nat ->
    wmom1_ok_e eps (col j rows) (wcol_of wts j) (im_col im j) ce (nd_get om j) (nd_get oe j) (opt_get os j).
Proof.
  intros NE ND R WF IF H j Hj. unfold wmom_check_e in H.
  destruct (wmom_Nd rows d wts im ce sd NE ND R WF IF) as [o [E Hc]]. rewrite E in H.
  apply andb_true_iff in H as [_ H]. rewrite forallb_forall in H.
  assert (I : In j (seq 0 (data_ncols (M2 rows)))) by (simpl; rewrite ND; apply in_seq; lia).
  specialize (H j I). cbv zeta in H. simpl data_col in H. rewrite (Hc j Hj) in H.
  eapply mom_close_e_sound; [apply wmom1_spec|exact H].
Qed.

Lemma wmom_check_e_sound_1d eps x w im ce sd om oe os :
  length w = length x -> (forall v, im <> IVec v) ->
  wmom_check_e eps (V1 x) (V1 w) im ce sd om oe os = true ->
  wmom1_ok_e eps x w (im_col im 0) ce (nd_get om 0) (nd_get oe 0) (opt_get os 0).
Proof.
  intros L NV H. unfold wmom_check_e in H.
  destruct (wmom_1d x w im ce sd L NV) as [o [E [Hc _]]]. rewrite E in H.
  apply andb_true_iff in H as [_ H]. simpl in H. rewrite andb_true_r in H. rewrite Hc in H.
  eapply mom_close_e_sound; [apply wmom1_spec|exact H].
Qed.

Lemma sigma_clip_check_e_sound eps weighted nsig niter all mean sdev err idx :
  0 <= nsig ->
  sigma_clip_check_e eps weighted nsig niter all mean sdev err idx = true ->
  sigma_clip_ok_e eps weighted nsig niter all mean sdev err idx.
Proof.
  intros Hn H. unfold sigma_clip_check_e in H.
  destruct (sc_loop niter weighted nsig all (sc_stats weighted all)) as [sub st] eqn:EL.
  apply (sc_loop_spec weighted nsig Hn) in EL as [Hst Hfix].
  apply andb_true_iff in H as [H H4]. apply andb_true_iff in H as [H H3]. apply andb_true_iff in H as [H1 H2].
  exists sub. split; [apply zlist_eqb_spec; exact H1|]. split; [exact Hfix|].
  subst st. pose proof (sc_stats_def weighted sub) as D.
  destruct (stat_def weighted sub) as [[m e2] v]. destruct D as [Dm [De Dv]].
  pose proof (sc_scale_q_ok weighted sub) as EA.
  apply close_lin_b_iff in H2. apply close_sqrt_b_iff in H3. apply close_sqrt_b_iff in H4.
  split; [|split].
  - eapply close_lin_compat; [exact Dm| |exact H2]. rewrite EA. reflexivity.
  - eapply close_sqrt_compat; [exact Dv| |exact H3]. rewrite EA. reflexivity.
  - eapply close_sqrt_compat; [exact De| |exact H4]. rewrite EA. reflexivity.
Qed.

Lemma interp_check_e_sound eps v x u y :
  interp_check_e eps v x u y = true -> interp_ok v x u y (eps * interp_scale v x u).
Proof.
  unfold interp_check_e. intro H.
  apply andb_true_iff in H as [H H4]. apply andb_true_iff in H as [H H3]. apply andb_true_iff in H as [H1 H2].
  apply incr_b_sound in H1. apply Nat.leb_le in H2. apply close_lin_b_iff in H4. unfold close_lin in H4.
  split; [|split].
  - intros k Hk Hu. rewrite <- (interp1_piecewise v x H1 H2 k u Hk Hu). exact H4.
  - intro Hu. rewrite <- (interp1_below v x H1 H2 u Hu). exact H4.
  - intro Hu. rewrite <- (interp1_above v x H1 H2 u Hu). exact H4.
Qed.

Lemma cor_close_b_e_sound eps c num den2 : cor_close_b_e eps c num den2 = true -> cor_close_e eps c num den2.
Proof.
  unfold cor_close_b_e, cor_close_e. intro H.
  apply andb_true_iff in H as [H H3]. apply andb_true_iff in H as [H1 H2].
  split; [|split].
  - intro A. apply Qle_bool_iff in A. rewrite A in H1. apply Qle_bool_iff, H1.
  - intro A. apply Qle_bool_iff in A. rewrite A in H2. apply Qle_bool_iff, H2.
  - apply close_sqrt_b_iff, H3.
Qed.

Lemma cov2cor_check_e_sound eps cov cor : cov2cor_check_e eps cov cor = true -> cov2cor_ok_e eps cov cor.
Proof.
  unfold cov2cor_check_e, cov2cor_ok_e. intros H i j Hi Hj. rewrite forallb_forall in H.
  apply cor_close_b_e_sound. apply (H (i, j)). apply in_idx2; assumption.
Qed.

Lemma mat_close_b_e_sound eps n a b : mat_close_b_e eps n a b = true -> mat_close_e eps n a b.
Proof.
  unfold mat_close_b_e, mat_close_e. intros H i j Hi Hj. rewrite forallb_forall in H.
  apply Qle_bool_iff. apply (H (i, j)). apply in_idx2; assumption.
Qed.

Lemma tol_checkers_sound :
  forall eps,
  (forall rows d wts im ce sd om oe os,
      rows <> [] -> ncols rows = d -> rect rows d = true -> weights_fit rows d wts -> im_fits d im ->
      wmom_check_e eps (M2 rows) wts im ce sd om oe os = true ->
      forall j, (j < d)%nat ->
        wmom1_ok_e eps (col j rows) (wcol_of wts j) (im_col im j) ce (nd_get om j) (nd_get oe j) (opt_get os j))
  /\ (forall x w im ce sd om oe os,
        length w = length x -> (forall v, im <> IVec v) ->
        wmom_check_e eps (V1 x) (V1 w) im ce sd om oe os = true ->
        wmom1_ok_e eps x w (im_col im 0) ce (nd_get om 0) (nd_get oe 0) (opt_get os 0))
  /\ (forall weighted nsig niter all mean sdev err idx, 0 <= nsig ->
        sigma_clip_check_e eps weighted nsig niter all mean sdev err idx = true ->
        sigma_clip_ok_e eps weighted nsig niter all mean sdev err idx)
  /\ (forall v x u y, interp_check_e eps v x u y = true -> interp_ok v x u y (eps * interp_scale v x u))
  /\ (forall cov cor, cov2cor_check_e eps cov cor = true -> cov2cor_ok_e eps cov cor)
  /\ (forall n a b, mat_close_b_e eps n a b = true -> mat_close_e eps n a b).
Proof.
  intro eps. split; [apply wmom_check_e_sound_Nd|]. split; [apply wmom_check_e_sound_1d|].
  split; [apply sigma_clip_check_e_sound|]. split; [apply interp_check_e_sound|].
  split; [apply cov2cor_check_e_sound|apply mat_close_b_e_sound].
Qed.

(* C18 — boxcar_average: numpy.convolve(x, kernel) in 'full' mode, written out as the textbook
   double sum, restricted to a constant kernel and sliced from an offset, is the window sum of the
   model. *)
From Coq Require Import QArith Qabs Lqa Lia.
From EsVerif.Common Require Import Base.
From EsVerif.C18 Require Import Model Spec QLemmas.
Open Scope Q_scope.

(* numpy.convolve(x, k) (mode 'full'):  out[j] = sum_i x[i] * k[j - i]  over 0 <= j - i < len k *)
Definition conv_full (x ker : list Q) (j : nat) : Q :=
  Sum (map (fun i => if (i <=? j)%nat && (j - i <? length ker)%nat then nth i x 0 * nth (j - i) ker 0 else 0)
           (seq 0 (length x))).

Lemma nth_repeat_lt (c d : Q) n i : (i < n)%nat -> nth i (repeat c n) d = c.
Proof.
  revert i; induction n as [|n IH]; intros i H; [lia|].
  destruct i as [|i]; [reflexivity|]. simpl. apply IH. lia.
Qed.

Lemma Sum_zeros {A} (l : list A) : Sum (map (fun _ => 0) l) == 0.
Proof. induction l as [|a l IH]; simpl; [reflexivity|]. rewrite IH. ring. Qed.

Lemma window_sum c : forall x k n,
  Sum (map (fun i => if (k <=? i)%nat && (i <? k + n)%nat then nth i x 0 * c else 0) (seq 0 (length x)))
  == Sum (firstn n (skipn k x)) * c.
Proof.
  induction x as [|a t IH]; intros k n.
  - simpl. destruct k, n; simpl; ring.
  - cbn [length]. rewrite <- cons_seq, <- seq_shift. cbn [map Sum]. rewrite map_map.
    destruct k as [|k].
    + destruct n as [|n].
      * cbn [skipn firstn Sum]. rewrite (map_ext _ (fun _ => 0)); [rewrite Sum_zeros; simpl; ring|].
        intro i. reflexivity.
      * cbn [skipn firstn Sum]. specialize (IH O n). cbn [skipn] in IH.
        rewrite (map_ext _ (fun i => if (0 <=? i)%nat && (i <? 0 + n)%nat then nth i t 0 * c else 0)).
        -- rewrite IH. simpl. ring.
        -- intro i. reflexivity.
    + specialize (IH k n). cbn [skipn].
      rewrite (map_ext _ (fun i => if (k <=? i)%nat && (i <? k + n)%nat then nth i t 0 * c else 0)).
      * rewrite IH. simpl. ring.
      * intro i. reflexivity.
Qed.

Lemma conv_window x c n k :
  (1 <= n)%nat -> conv_full x (repeat c n) (k + (n - 1)) == Sum (firstn n (skipn k x)) * c.
Proof.
  intro Hn. unfold conv_full. rewrite repeat_length, <- window_sum.
  apply Sum_map_ext. intros i _.
  destruct ((i <=? k + (n - 1))%nat && (k + (n - 1) - i <? n)%nat) eqn:E1;
  destruct ((k <=? i)%nat && (i <? k + n)%nat) eqn:E2; try reflexivity.
  - apply andb_true_iff in E1, E2. destruct E1 as [A B]. apply Nat.ltb_lt in B.
    rewrite nth_repeat_lt by exact B. reflexivity.
  - exfalso. apply andb_true_iff in E1. destruct E1 as [A B]. apply Nat.leb_le in A. apply Nat.ltb_lt in B.
    apply andb_false_iff in E2. destruct E2 as [C|C]; [apply Nat.leb_gt in C|apply Nat.ltb_ge in C]; lia.
  - exfalso. apply andb_true_iff in E2. destruct E2 as [A B]. apply Nat.leb_le in A. apply Nat.ltb_lt in B.
    apply andb_false_iff in E1. destruct E1 as [C|C]; [apply Nat.leb_gt in C|apply Nat.ltb_ge in C]; lia.
Qed.

(* boxcar_def is the slice [skip:] of the full convolution with the kernel of N weights w = 1/N,
   for skip = N - 1 *)
Lemma boxcar_is_convolution x N k skip w :
  (0 < N)%Z -> skip = (N - 1)%Z -> w == 1 / inject_Z N ->
  conv_full x (repeat w (Z.to_nat N)) (k + Z.to_nat skip) == boxcar_def x N k.
Proof.
  intros HN Hs Hw. subst skip.
  replace (Z.to_nat (N - 1)) with (Z.to_nat N - 1)%nat by lia.
  rewrite conv_window by lia. unfold boxcar_def. rewrite Hw. unfold Qdiv. ring.
Qed.

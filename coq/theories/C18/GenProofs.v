(* C18 — the hand-written model (Model.v) IS the text of esutil/stat/util.py as read by the
   translator (Gen.v, regenerated on every run from the tree under check).  Every lemma here
   mentions a gen_* definition; when a constant, an operator or a formula of the source changes,
   Gen.v changes and these proofs are re-checked against the new text. *)
From Coq Require Import QArith Qabs Lqa Lia ZArith.
From EsVerif.Common Require Import Base.
From EsVerif.C18 Require Import Model Spec QLemmas MomProofs MedianProofs ClipProofs InterpProofs CorProofs BoxProofs Gen.
Open Scope Q_scope.

(* ------------------------------------------------------------------ wmom *)
Definition mref (x w : list Q) (im : option Q) : Q := match im with None => wmean_def w x | Some m0 => m0 end.

Lemma gen_wmom_mean x w ce sd :
  m_mean (wmom1 x w None ce sd) == gen_wmom_mean_fin (Sum (map2 gen_wmom_mean_term w x)) (Sum w).
Proof.
  rewrite (wmom1_mean x w None ce sd). unfold gen_wmom_mean_fin.
  apply Qdiv_comp; [|reflexivity]. apply Sum_map2_ext. intros a b. unfold gen_wmom_mean_term. ring.
Qed.

Lemma gen_wmom_err_calc x w im sd :
  m_err2 (wmom1 x w im true sd)
  == gen_wmom_err2_calc (Sum (map2 (gen_wmom_err2_term (mref x w im)) w x)) (Sum w).
Proof.
  destruct (wmom1_spec x w im true sd) as [_ [H _]]. cbv beta iota in H. rewrite H.
  unfold werr2_calc_def, gen_wmom_err2_calc, mref.
  apply Qdiv_comp; [|reflexivity]. apply Sum_map2_ext. intros a b. unfold gen_wmom_err2_term. ring.
Qed.

Lemma gen_wmom_err_default x w im sd :
  m_err2 (wmom1 x w im false sd) == gen_wmom_err2_default (Sum w).
Proof.
  destruct (wmom1_spec x w im false sd) as [_ [H _]]. cbv beta iota in H. rewrite H.
  unfold werr2_default_def, gen_wmom_err2_default. apply Qdiv_comp; [ring|reflexivity].
Qed.

Lemma gen_wmom_var x w im ce :
  exists v, m_var (wmom1 x w im ce true) = Some v
            /\ v == gen_wmom_var_fin (Sum (map2 (gen_wmom_var_term (mref x w im)) w x)) (Sum w).
Proof.
  destruct (wmom1_spec x w im ce true) as [_ [_ H]].
  destruct (m_var (wmom1 x w im ce true)) as [v|]; [|discriminate].
  exists v. split; [reflexivity|]. destruct H as [_ H]. rewrite H.
  unfold wvar_def, gen_wmom_var_fin, mref.
  apply Qdiv_comp; [|reflexivity]. apply Sum_map2_ext. intros a b. unfold gen_wmom_var_term. ring.
Qed.

(* the documented defaults: error 1/sqrt(sum w), no deviation *)
Lemma gen_wmom_defaults : gen_wmom_calcerr_default = false /\ gen_wmom_sdev_default = false.
Proof. split; reflexivity. Qed.

(* ------------------------------------------------------------------ wmedian *)
Lemma gen_wm_loop rest cur sum h :
  wm_loop rest cur sum h =
  if gen_wm_continue sum h
  then match rest with [] => Err EIndex | (xk, wk) :: t => wm_loop t xk (gen_wm_step sum wk) h end
  else Ok cur.
Proof. destruct rest as [|[xk wk] t]; reflexivity. Qed.

Lemma gen_wm_start l :
  wmedian_pairs l =
  match isort_p l with
  | [] => Err EIndex
  | (x0, w0) :: t => wm_loop t x0 (gen_wm_init (qsum (map snd l)) w0) (gen_wm_half (qsum (map snd l)))
  end.
Proof. reflexivity. Qed.

(* ------------------------------------------------------------------ sigma_clip *)
Lemma Qlt_bool_squares a t : 0 <= a -> 0 <= t -> Qlt_bool a t = Qlt_bool (a * a) (t * t).
Proof.
  intros Ha Ht. destruct (Qlt_bool a t) eqn:E; symmetry.
  - apply Qlt_bool_iff in E. apply Qlt_bool_iff. nra.
  - apply Qlt_bool_false in E. apply Qlt_bool_false. nra.
Qed.

Lemma Qabs_sq a : Qabs a * Qabs a == a * a.
Proof.
  apply Qabs_case; intro H; ring.
Qed.

(* the float code compares |x - m| with nsig * s, s = sqrt(var); the model compares squares *)
Lemma gen_clip_rule nsig m s v x :
  0 <= nsig -> 0 <= s -> s * s == v ->
  gen_clip_keep nsig m s x = Qlt_bool (dev2 m x) (sq nsig * v).
Proof.
  intros Hn Hs Hv. unfold gen_clip_keep.
  rewrite Qlt_bool_squares; [|apply Qabs_nonneg|nra].
  apply Qlt_bool_comp.
  - rewrite Qabs_sq. unfold dev2, sq. reflexivity.
  - unfold sq. rewrite <- Hv. ring.
Qed.

Lemma gen_within nsig st s p :
  0 <= nsig -> 0 <= s -> s * s == c_var st ->
  within nsig st p = gen_clip_keep nsig (c_mean st) s (p_x p).
Proof.
  intros Hn Hs Hv. rewrite (gen_clip_rule nsig (c_mean st) s (c_var st) (p_x p) Hn Hs Hv).
  unfold within. assert (P : Qle_bool 0 nsig = true) by (apply Qle_bool_iff; exact Hn).
  rewrite P. cbn [andb]. apply Qlt_bool_comp; [reflexivity|apply Qred_correct].
Qed.

Lemma gen_sc_rounds_ok niter : Z.to_nat (gen_sc_rounds niter) = Z.to_nat niter.
Proof. unfold gen_sc_rounds. f_equal. lia. Qed.

Lemma nat_eqb_Z a b : Nat.eqb a b = (Z.of_nat a =? Z.of_nat b)%Z.
Proof.
  destruct (Nat.eqb a b) eqn:E; symmetry.
  - apply Nat.eqb_eq in E. subst. apply Z.eqb_refl.
  - apply Nat.eqb_neq in E. apply Z.eqb_neq. lia.
Qed.

Lemma gen_sc_loop_step f wtd nsig cur st :
  sc_loop (S f) wtd nsig cur st =
  let kept := filter (within nsig st) cur in
  if gen_sc_stop_empty (Z.of_nat (length kept)) then (cur, st)
  else if gen_sc_stop_same (Z.of_nat (length kept)) (Z.of_nat (length cur)) then (cur, st)
  else sc_loop f wtd nsig kept (sc_stats wtd kept).
Proof.
  cbn [sc_loop]. cbv zeta. unfold gen_sc_stop_empty, gen_sc_stop_same.
  rewrite <- nat_eqb_Z.
  destruct (filter (within nsig st) cur) as [|a k] eqn:E; [reflexivity|].
  replace (Z.of_nat (length (a :: k)) =? 0)%Z with false; [reflexivity|].
  symmetry. apply Z.eqb_neq. cbn [length]. lia.
Qed.

Lemma gen_sc_stats_weighted cur :
  sc_stats true cur =
  let r := wmom1 (map p_x cur) (map p_w cur) None gen_scstats_calcerr gen_scstats_sdev in
  {| c_mean := m_mean r; c_err2 := m_err2 r; c_var := match m_var r with Some v => v | None => 0 end |}.
Proof. reflexivity. Qed.

Lemma gen_sc_stats_plain cur :
  c_err2 (sc_stats false cur) = gen_plain_err2 (c_var (sc_stats false cur)) (qlen cur).
Proof. reflexivity. Qed.

(* ------------------------------------------------------------------ interplin *)
Lemma gen_interp_index_ok x u :
  interp_index x u = gen_interp_index (Z.of_nat (length x)) (searchsorted x u).
Proof.
  unfold interp_index, gen_interp_index. cbv zeta. rewrite Z.geb_leb. reflexivity.
Qed.

Lemma gen_interp_formula_ok x0 v0 x1 v1 u : line x0 v0 x1 v1 u = gen_interp_formula x0 v0 x1 v1 u.
Proof. reflexivity. Qed.

Lemma gen_interp_next_ok k : Z.to_nat (gen_interp_next (Z.of_nat k)) = S k.
Proof. unfold gen_interp_next. lia. Qed.

(* ------------------------------------------------------------------ get_stats *)
Lemma gen_get_stats_clip x weights nsig niter :
  (nsig <> None \/ niter <> None) ->
  get_stats (V1 x) weights nsig niter =
  match sigma_clip (V1 x) weights (match niter with Some k => k | None => gen_sc_niter_default end)
                   (match nsig with Some s => s | None => gen_sc_nsig_default end) with
  | Ok r => Ok {| g_min := S0 (qmin_list x); g_max := S0 (qmax_list x); g_mean := S0 (sc_mean r);
                  g_var := S0 (sc_var r); g_err2 := S0 (sc_err2 r) |}
  | Err e => Err e
  end.
Proof. exact (get_stats_1d_clip x weights nsig niter). Qed.

Lemma gen_get_stats_weighted x w :
  length w = length x ->
  get_stats (V1 x) (Some (V1 w)) None None =
  let r := wmom1 x w None gen_gs_calcerr gen_gs_sdev in
  Ok {| g_min := S0 (qmin_list x); g_max := S0 (qmax_list x); g_mean := S0 (m_mean r);
        g_var := S0 (match m_var r with Some v => v | None => 0 end); g_err2 := S0 (m_err2 r) |}.
Proof.
  intro H. unfold get_stats. cbn [atleast_1d]. cbv iota beta.
  apply Nat.eqb_eq in H. rewrite H. reflexivity.
Qed.

Lemma gen_get_stats_plain x :
  exists g, get_stats (V1 x) None None None = Ok g
    /\ exists m e2 v, g_mean g = S0 m /\ g_err2 g = S0 e2 /\ g_var g = S0 v
       /\ e2 = gen_gs_plain_err2 v (qlen x).
Proof.
  eexists. split; [reflexivity|]. cbn [g_mean g_err2 g_var].
  do 3 eexists. split; [reflexivity|]. split; [reflexivity|]. split; [reflexivity|].
  assert (EL : qlen (index_from 0%Z x x) = qlen x).
  { unfold qlen. rewrite <- (map_length p_x), (index_from_x 0%Z x x eq_refl). reflexivity. }
  rewrite <- EL. reflexivity.
Qed.

(* ------------------------------------------------------------------ cov2cor / cor2cov *)
Lemma gen_cov_diag_rule c : Qlt_bool 0 c = negb (gen_cov_diag_bad c).
Proof. reflexivity. Qed.

Lemma gen_cov2cor_entries cov :
  rect cov (length cov) = true -> (forall i, (i < length cov)%nat -> gen_cov_diag_bad (mget cov i i) = false) ->
  exists m, cov2cor cov = Ok m
    /\ forall i j, (i < length cov)%nat -> (j < length cov)%nat ->
         nth j (nth i m []) (0, 0)
         = (gen_cor_num (mget cov i j) (mget cov i i) (mget cov j j),
            gen_cor_den2 (mget cov i j) (mget cov i i) (mget cov j j)).
Proof.
  intros Hr Hd. apply cov2cor_spec; [exact Hr|].
  intros i Hi. specialize (Hd i Hi). apply Qlt_bool_iff. rewrite gen_cov_diag_rule, Hd. reflexivity.
Qed.

Lemma gen_cor2cov_entries cor d :
  rect cor (length cor) = true -> length d = length cor ->
  exists m, cor2cov cor d = Ok m
    /\ forall i j, (i < length cor)%nat -> (j < length cor)%nat ->
         mget m i j = gen_cor2cov_entry (mget cor i j) (nth i d 0) (nth j d 0).
Proof. exact (cor2cov_spec cor d). Qed.

(* ------------------------------------------------------------------ boxcar_average *)
(* the model's window mean is numpy's full convolution with the kernel ones(N)/N, sliced at the
   source's offset *)
Lemma gen_boxcar_convolution x N :
  (0 < N)%Z -> x <> [] ->
  exists out, boxcar_average x N = Ok out /\ length out = length x
    /\ forall k, (k < length x)%nat ->
         nth k out 0 == conv_full x (repeat (gen_boxcar_weight (inject_Z N)) (Z.to_nat N))
                                  (k + Z.to_nat (gen_boxcar_skip N)).
Proof.
  intros HN Hx. destruct (boxcar_spec x N HN Hx) as [out [E [L H]]].
  exists out. split; [exact E|]. split; [exact L|]. intros k Hk. rewrite (H k Hk).
  symmetry. apply boxcar_is_convolution; [exact HN|reflexivity|reflexivity].
Qed.

(* ------------------------------------------------------------------ result / working dtypes *)
(* the statements that make the precision of the results independent of the dtype of the inputs
   (weights and get_stats data forced to float64; result matrices allocated as float64) are present *)
Lemma gen_result_dtypes :
  gen_wmom_weights_f64 = true /\ gen_wmedian_weights_f64 = true /\ gen_sigma_clip_weights_f64 = true
  /\ gen_get_stats_data_f64 = true /\ gen_cov2cor_result_f64 = true /\ gen_cor2cov_result_f64 = true.
Proof. repeat split; reflexivity. Qed.

(* ------------------------------------------------------------------ rejections: test and error class *)
Lemma gen_rejections :
  (forall x w im ce sd, length w <> length x -> wmom (V1 x) (V1 w) im ce sd = Err gen_wmom_shape_error)
  /\ (forall rows w niter nsig, gen_sc_rejects_ndim 2 = true /\ gen_sc_rejects_ndim 1 = false
        /\ sigma_clip (M2 rows) w niter nsig = Err gen_sc_ndim_error)
  /\ (forall x w niter nsig,
        sigma_clip (V1 x) (Some (V1 w)) niter nsig =
        if gen_sc_rejects_size (Z.of_nat (length w)) (Z.of_nat (length x)) then Err gen_sc_size_error
        else sigma_clip (V1 x) (Some (V1 w)) niter nsig)
  /\ (forall cov i, rect cov (length cov) = true -> (i < length cov)%nat -> gen_cov_diag_bad (mget cov i i) = true ->
        cov2cor cov = Err gen_cov_diag_error).
Proof.
  split; [|split; [|split]].
  - intros x w im ce sd H. unfold wmom; simpl.
    destruct (Nat.eqb (length w) (length x)) eqn:E; [apply Nat.eqb_eq in E; contradiction|reflexivity].
  - intros. split; [reflexivity|]. split; reflexivity.
  - intros x w niter nsig. unfold gen_sc_rejects_size. rewrite <- nat_eqb_Z.
    destruct (Nat.eqb (length w) (length x)) eqn:E; [reflexivity|].
    cbn [negb]. unfold sigma_clip. cbn [atleast_1d]. rewrite E. reflexivity.
  - intros cov i R Hi H. apply (cov2cor_rejects cov i R Hi). apply Qle_bool_iff. exact H.
Qed.

(* ------------------------------------------------------------------ who returns what in which position *)
(* wmom returns (mean, error[, deviation]); _get_sigma_clip_stats unpacks wmom and returns in that order;
   sigma_clip appends mean, deviation, error, indices; get_stats unpacks sigma_clip as (mean, deviation, error) and wmom
   as (mean, error, deviation): every unpacking agrees with the order of the producer *)
Lemma gen_result_orders :
  gen_wmom_return_sdev = [SMean; SErr; SStd] /\ gen_wmom_return = [SMean; SErr]
  /\ gen_scstats_unpack = gen_wmom_return_sdev /\ gen_scstats_return = [SMean; SErr; SStd]
  /\ gen_sc_return_full = [SMean; SStd; SErr; SIdx]
  /\ gen_gs_clip_unpack = firstn 3 gen_sc_return_full
  /\ gen_gs_wmom_unpack = gen_wmom_return_sdev.
Proof. repeat split; reflexivity. Qed.

(* C18 — get_stats with calcerr= : what it returns, and that Model.get_stats is the default case *)
From Coq Require Import QArith Qabs Lqa Lia.
From EsVerif.Common Require Import Base.
From EsVerif.C18 Require Import Model Spec QLemmas MomProofs ClipProofs GsProofs ModelKw.
Open Scope Q_scope.

Lemma get_stats_kw_default arr weights nsig niter :
  get_stats_kw arr weights nsig niter None = get_stats arr weights nsig niter.
Proof.
  unfold get_stats_kw, get_stats, kw_calcerr.
  destruct nsig, niter, weights as [wn|]; try reflexivity.
  destruct (atleast_1d arr) as [q|x|rows]; reflexivity.
Qed.

(* clipping requested or no weights: the keyword has no effect *)
Lemma get_stats_kw_ignored arr weights nsig niter ce :
  (nsig <> None \/ niter <> None \/ weights = None) ->
  get_stats_kw arr weights nsig niter ce = get_stats arr weights nsig niter.
Proof.
  intros H. unfold get_stats_kw. destruct nsig, niter, weights; try reflexivity.
  destruct H as [H|[H|H]]; congruence.
Qed.

Lemma get_stats_kw_weighted_1d x w ce :
  length w = length x ->
  get_stats_kw (V1 x) (Some (V1 w)) None None ce =
  let r := wmom1 x w None (kw_calcerr ce) true in
  Ok {| g_min := S0 (qmin_list x); g_max := S0 (qmax_list x); g_mean := S0 (m_mean r);
        g_var := S0 (match m_var r with Some v => v | None => 0 end); g_err2 := S0 (m_err2 r) |}.
Proof.
  intro H. unfold get_stats_kw. cbn [atleast_1d]. apply Nat.eqb_eq in H. rewrite H. reflexivity.
Qed.

(* the reported numbers are the documented ones: mean, the error for the chosen setting (squared),
   the weighted variance *)
Lemma get_stats_kw_weighted_1d_spec x w ce :
  length w = length x ->
  exists g, get_stats_kw (V1 x) (Some (V1 w)) None None ce = Ok g
    /\ exists m e2 v, g_mean g = S0 m /\ g_err2 g = S0 e2 /\ g_var g = S0 v
       /\ mom_spec x w None (kw_calcerr ce) true {| m_mean := m; m_err2 := e2; m_var := Some v |}.
Proof.
  intro L. rewrite (get_stats_kw_weighted_1d x w ce L). cbv zeta.
  eexists; split; [reflexivity|]. cbn [g_mean g_err2 g_var].
  do 3 eexists. split; [reflexivity|]. split; [reflexivity|]. split; [reflexivity|].
  pose proof (wmom1_spec x w None (kw_calcerr ce) true) as S. unfold mom_spec in *. cbn [m_mean m_err2 m_var].
  destruct (m_var (wmom1 x w None (kw_calcerr ce) true)) as [v|] eqn:EV; [exact S|].
  destruct S as [_ [_ S]]; discriminate.
Qed.

Lemma get_stats_kw_weighted_Nd rows d wts ce :
  rows <> [] -> ncols rows = d -> rect rows d = true -> weights_fit rows d wts ->
  exists g, get_stats_kw (M2 rows) (Some wts) None None ce = Ok g
    /\ forall j, (j < d)%nat ->
         let x := col j rows in
         let r := wmom1 x (wcol_of wts j) None (kw_calcerr ce) true in
         is_min x (nd_get (g_min g) j) /\ is_max x (nd_get (g_max g) j)
         /\ nd_get (g_mean g) j = m_mean r
         /\ Some (nd_get (g_var g) j) = m_var r
         /\ nd_get (g_err2 g) j = m_err2 r.
Proof.
  intros NE ND R WF. unfold get_stats_kw. cbn [atleast_1d]. cbv iota beta zeta. rewrite ND, R. cbn [negb].
  destruct (wmom_Nd rows d wts INone (kw_calcerr ce) true NE ND R WF I) as [o [E Ho]].
  rewrite E. cbn [bind].
  assert (V : exists a, o_var o = Some a).
  { unfold wmom in E. cbn [atleast_1d] in E.
    assert (AW : atleast_1d wts = wts) by (destruct wts; simpl in *; [contradiction|reflexivity|reflexivity]).
    rewrite AW, ND, R in E. cbn [negb] in E. cbv iota in E.
    destruct wts as [q|w|ww]; simpl in WF; [contradiction| |].
    - rewrite WF, Nat.eqb_refl in E. cbn [bind] in E. inversion E. eexists; reflexivity.
    - destruct WF as [WL WR]. rewrite WL, Nat.eqb_refl, WR in E. cbn [andb bind] in E. inversion E. eexists; reflexivity. }
  destruct V as [a Va]. rewrite Va.
  eexists; split; [reflexivity|]. intros j Hj. cbn [g_min g_max g_mean g_var g_err2].
  specialize (Ho j Hj). unfold out_col in Ho. rewrite Va in Ho. cbn [im_col] in Ho.
  cbn [nd_get]. rewrite !nth_map_seq by exact Hj.
  split; [apply qmin_list_spec, col_nonempty, NE|]. split; [apply qmax_list_spec, col_nonempty, NE|].
  rewrite <- Ho. cbn [m_mean m_var m_err2]. repeat split.
Qed.

Lemma gs_col_check_kw_sound ce x w clip mn mx mean std err idx :
  gs_col_check_kw ce x w clip mn mx mean std err idx = true -> gs_col_ok_kw ce x w clip mn mx mean std err idx.
Proof.
  unfold gs_col_check_kw, gs_col_ok_kw. destruct clip as [p|]; [apply gs_col_check_sound|].
  destruct w as [wl|]; [|apply gs_col_check_sound].
  intro H. apply andb_true_iff in H as [H H3]. apply andb_true_iff in H as [H1 H2].
  split; [apply is_min_b_sound, H1|]. split; [apply is_max_b_sound, H2|]. apply wmom1_check_sound, H3.
Qed.

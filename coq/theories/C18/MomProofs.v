(* C18 — weighted moments, summary statistics, boxcar average: the model meets the definitions *)
From Coq Require Import QArith Qabs Lqa Setoid Morphisms.
From EsVerif.Common Require Import Base.
From EsVerif.C18 Require Import Model Spec QLemmas.
Open Scope Q_scope.

Lemma werr2_calc_compat w x m m' : m == m' -> werr2_calc_def w x m == werr2_calc_def w x m'.
Proof.
  intro E. unfold werr2_calc_def.
  rewrite (Sum_map2_ext _ (fun wi xi => wi * wi * ((xi - m') * (xi - m'))) w x); [reflexivity|].
  intros a b. rewrite E. reflexivity.
Qed.

Lemma wvar_compat w x m m' : m == m' -> wvar_def w x m == wvar_def w x m'.
Proof.
  intro E. unfold wvar_def.
  rewrite (Sum_map2_ext _ (fun wi xi => wi * ((xi - m') * (xi - m'))) w x); [reflexivity|].
  intros a b. rewrite E. reflexivity.
Qed.

Lemma wmom1_mean x w im ce sd :
  m_mean (wmom1 x w im ce sd) == match im with None => wmean_def w x | Some m0 => m0 end.
Proof.
  unfold wmom1; cbn [m_mean]. destruct im as [m0|]; [reflexivity|].
  rewrite Qred_correct, !qsum_Sum. reflexivity.
Qed.

Lemma wmom1_spec x w im ce sd : mom_spec x w im ce sd (wmom1 x w im ce sd).
Proof.
  unfold mom_spec. split; [apply wmom1_mean|]. split.
  - destruct ce.
    + rewrite <- (werr2_calc_compat w x _ _ (wmom1_mean x w im true sd)).
      unfold wmom1; cbn [m_mean m_err2].
      match goal with |- context [dev2 ?m] => set (mm := m) end.
      unfold werr2_calc_def, dev2, sq. rewrite Qred_correct, !qsum_Sum. reflexivity.
    + unfold wmom1, werr2_default_def; cbn [m_err2]. rewrite qsum_Sum. reflexivity.
  - destruct sd; cbn [wmom1 m_var]; [|reflexivity]. split; [reflexivity|].
    rewrite <- (wvar_compat w x _ _ (wmom1_mean x w im ce true)).
    unfold wmom1; cbn [m_mean].
    match goal with |- context [dev2 ?m] => set (mm := m) end.
    unfold wvar_def, dev2, sq. rewrite Qred_correct, !qsum_Sum. reflexivity.
Qed.

(* ---- the numpy-level entry point: 1-d data *)
Lemma wmom_1d x w im ce sd :
  length w = length x -> (forall v, im <> IVec v) ->
  exists o, wmom (V1 x) (V1 w) im ce sd = Ok o
            /\ out_col o 0 = wmom1 x w (im_col im 0) ce sd
            /\ (exists a b, o_mean o = S0 a /\ o_err2 o = S0 b).
Proof.
  intros L NV. unfold wmom; simpl. rewrite L, Nat.eqb_refl; simpl.
  destruct im as [|m0|v]; [| |exfalso; eapply NV; reflexivity].
  - eexists; split; [reflexivity|]. split; [|eexists; eexists; split; reflexivity].
    unfold out_col; simpl. unfold wmom1; simpl. destruct sd; reflexivity.
  - eexists; split; [reflexivity|]. split; [|eexists; eexists; split; reflexivity].
    unfold out_col; simpl. unfold wmom1; simpl. destruct sd; reflexivity.
Qed.

Lemma nth_map_seq {A} (g : nat -> A) d j dflt : (j < d)%nat -> nth j (map g (seq 0 d)) dflt = g j.
Proof.
  intro H. rewrite (nth_indep _ dflt (g O)) by (rewrite map_length, seq_length; exact H).
  rewrite map_nth, seq_nth by exact H. reflexivity.
Qed.

(* ---- N-by-d data: every column of the result is the 1-d computation on that column, with the
        1-d weights themselves (weights[:, newaxis]) or the matching column of N-by-d weights *)
Definition weights_fit (rows : list (list Q)) (d : nat) (wts : nd) : Prop :=
  match wts with
  | V1 w => length w = length rows
  | M2 ww => length ww = length rows /\ rect ww d = true
  | S0 _ => False
  end.

Definition im_fits (d : nat) (im : imean) : Prop :=
  match im with IVec v => length v = d | _ => True end.

Ltac fin_col sd :=
  let j := fresh "j" in let Hj := fresh "Hj" in
  intros j Hj; unfold out_col; simpl; rewrite ?map_map; destruct sd; simpl;
  rewrite !nth_map_seq by exact Hj; unfold wmom1; cbn [m_mean m_err2 m_var]; reflexivity.

Lemma wmom_Nd rows d wts im ce sd :
  rows <> [] -> ncols rows = d -> rect rows d = true -> weights_fit rows d wts -> im_fits d im ->
  exists o, wmom (M2 rows) wts im ce sd = Ok o
            /\ forall j, (j < d)%nat ->
                 out_col o j = wmom1 (col j rows) (wcol_of wts j) (im_col im j) ce sd.
Proof.
  intros NE ND R WF IF. unfold wmom. simpl atleast_1d.
  assert (AW : atleast_1d wts = wts) by (destruct wts; simpl in *; [contradiction|reflexivity|reflexivity]).
  rewrite AW, ND, R; simpl negb; cbv iota.
  destruct wts as [q|w|ww]; simpl in WF; [contradiction| |].
  - rewrite WF, Nat.eqb_refl. cbn [bind].
    destruct im as [|m0|v]; cbn [bind]; simpl in IF.
    + eexists; split; [reflexivity|]. fin_col sd.
    + eexists; split; [reflexivity|]. fin_col sd.
    + rewrite IF, Nat.eqb_refl. cbn [bind].
      eexists; split; [reflexivity|]. fin_col sd.
  - destruct WF as [WL WR]. rewrite WL, Nat.eqb_refl, WR. cbn [andb bind].
    destruct im as [|m0|v]; cbn [bind]; simpl in IF.
    + eexists; split; [reflexivity|]. fin_col sd.
    + eexists; split; [reflexivity|]. fin_col sd.
    + rewrite IF, Nat.eqb_refl. cbn [bind].
      eexists; split; [reflexivity|]. fin_col sd.
Qed.

(* the documented [ndim]-array form of inputmean on 1-d data (array of one element) *)
Lemma wmom_1d_vecmean x w m ce sd :
  length w = length x ->
  exists o, wmom (V1 x) (V1 w) (IVec [m]) ce sd = Ok o
            /\ o_mean o = V1 [m]
            /\ out_col o 0 = wmom1 x w (Some m) ce sd.
Proof.
  intro L. unfold wmom; simpl. rewrite L, Nat.eqb_refl; simpl.
  eexists; split; [reflexivity|]. split; [reflexivity|].
  unfold out_col; simpl. unfold wmom1; simpl. destruct sd; reflexivity.
Qed.

(* ---- the checker evaluated on the implementation's numbers is sound *)
Lemma absmean_q_ok w x : absmean_q w x == absmean_def w x.
Proof. unfold absmean_q, absmean_def. rewrite !qsum_Sum. reflexivity. Qed.

Lemma mom_close_sound x w im ce sd r mean err sdev :
  mom_spec x w im ce sd r ->
  mom_close r (absmean_q w x + im_abs im) im ce mean err sdev = true ->
  wmom1_ok x w im ce mean err sdev.
Proof.
  unfold mom_close, wmom1_ok. intros [Sm [Se Sv]] H.
  apply andb_true_iff in H as [H H3]. apply andb_true_iff in H as [H1 H2].
  pose proof (absmean_q_ok w x) as EA.
  split; [|split].
  - destruct im as [m0|].
    + apply Qeq_bool_iff in H1. exact H1.
    + apply close_lin_b_iff in H1. eapply close_lin_compat; [exact Sm| |exact H1].
      rewrite EA. reflexivity.
  - destruct ce; apply close_sqrt_b_iff in H2.
    + eapply close_sqrt_compat; [exact Se| |exact H2]. rewrite EA. reflexivity.
    + eapply close_sqrt_compat; [exact Se| |exact H2]. reflexivity.
  - destruct sdev as [s|]; [|exact I].
    destruct (m_var r) as [v|] eqn:EV; [|discriminate].
    destruct Sv as [_ Sv]. apply close_sqrt_b_iff in H3.
    eapply close_sqrt_compat; [exact Sv| |exact H3]. rewrite EA. reflexivity.
Qed.

Lemma wmom1_check_sound x w im ce mean err sdev :
  wmom1_check x w im ce mean err sdev = true -> wmom1_ok x w im ce mean err sdev.
Proof. unfold wmom1_check. apply mom_close_sound with (sd := true). apply wmom1_spec. Qed.

Lemma wmom_check_sound_Nd rows d wts im ce sd om oe os :
  rows <> [] -> ncols rows = d -> rect rows d = true -> weights_fit rows d wts -> im_fits d im ->
  wmom_check (M2 rows) wts im ce sd om oe os = true ->
  forall j, (j < d)%nat ->
    wmom1_ok (col j rows) (wcol_of wts j) (im_col im j) ce (nd_get om j) (nd_get oe j) (opt_get os j).
Proof.
  intros NE ND R WF IF H j Hj. unfold wmom_check in H.
  destruct (wmom_Nd rows d wts im ce sd NE ND R WF IF) as [o [E Hc]]. rewrite E in H.
  apply andb_true_iff in H as [_ H]. rewrite forallb_forall in H.
  assert (I : In j (seq 0 (data_ncols (M2 rows)))) by (simpl; rewrite ND; apply in_seq; lia).
  specialize (H j I). cbv zeta in H. simpl data_col in H. rewrite (Hc j Hj) in H.
  eapply mom_close_sound; [apply wmom1_spec|exact H].
Qed.

Lemma wmom_check_sound_1d x w im ce sd om oe os :
  length w = length x -> (forall v, im <> IVec v) ->
  wmom_check (V1 x) (V1 w) im ce sd om oe os = true ->
  wmom1_ok x w (im_col im 0) ce (nd_get om 0) (nd_get oe 0) (opt_get os 0).
Proof.
  intros L NV H. unfold wmom_check in H.
  destruct (wmom_1d x w im ce sd L NV) as [o [E [Hc _]]]. rewrite E in H.
  apply andb_true_iff in H as [_ H]. simpl in H. rewrite andb_true_r in H. rewrite Hc in H.
  eapply mom_close_sound; [apply wmom1_spec|exact H].
Qed.

(* ---- boxcar average *)
Lemma boxcar_spec x N :
  (0 < N)%Z -> x <> [] ->
  exists out, boxcar_average x N = Ok out /\ length out = length x
              /\ forall k, (k < length x)%nat -> nth k out 0 == boxcar_def x N k.
Proof.
  intros HN HX. unfold boxcar_average.
  destruct (N <=? 0)%Z eqn:E; [lia|]. destruct x as [|a x]; [congruence|].
  eexists; split; [reflexivity|]. split; [rewrite map_length, seq_length; reflexivity|].
  intros k Hk. rewrite nth_map_seq by exact Hk. unfold boxcar_def. rewrite qsum_Sum. reflexivity.
Qed.

Lemma boxcar_rejects x N : (N <= 0)%Z \/ x = [] -> boxcar_average x N = Err EValue.
Proof.
  intros [H|H]; unfold boxcar_average.
  - destruct (N <=? 0)%Z eqn:E; [reflexivity|lia].
  - subst x. destruct (N <=? 0)%Z; reflexivity.
Qed.

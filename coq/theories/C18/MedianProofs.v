(* C18 — weighted median: the subtract-until loop over the sorted data returns the smallest
   value whose cumulative weight reaches half the total (non-negative weights). *)
From Coq Require Import QArith Qabs Lqa Setoid Morphisms Sorting.Permutation Sorting.Sorted.
From EsVerif.Common Require Import Base.
From EsVerif.C18 Require Import Model Spec QLemmas.
Open Scope Q_scope.

Definition fle (p q : Q * Q) : Prop := fst p <= fst q.
Definition nonnegw (l : list (Q * Q)) : Prop := forall p, In p l -> 0 <= snd p.

(* ---- insertion sort: a sorted permutation *)
Lemma insert_perm p l : Permutation (p :: l) (insert_p p l).
Proof.
  induction l as [|q l IH]; simpl; [apply Permutation_refl|].
  destruct (Qle_bool (fst p) (fst q)); [apply Permutation_refl|].
  eapply perm_trans; [apply perm_swap|]. apply perm_skip. exact IH.
Qed.

Lemma isort_perm l : Permutation l (isort_p l).
Proof.
  induction l as [|p l IH]; simpl; [apply perm_nil|].
  eapply perm_trans; [apply perm_skip; exact IH|]. apply insert_perm.
Qed.

Lemma insert_sorted p l : StronglySorted fle l -> StronglySorted fle (insert_p p l).
Proof.
  induction l as [|q l IH]; intro S; simpl.
  - constructor; [constructor|constructor].
  - destruct (Qle_bool (fst p) (fst q)) eqn:E.
    + apply Qle_bool_iff in E. constructor; [exact S|].
      constructor; [exact E|]. inversion S as [|? ? S' F]; subst.
      eapply Forall_impl; [|exact F]. intros a Ha. unfold fle in *. lra.
    + apply Qle_bool_false in E. inversion S as [|? ? S' F]; subst.
      constructor; [apply IH; exact S'|].
      apply (Permutation_Forall (insert_perm p l)). constructor; [|exact F].
      unfold fle. lra.
Qed.

Lemma isort_sorted l : StronglySorted fle (isort_p l).
Proof. induction l as [|p l IH]; simpl; [constructor|]. apply insert_sorted. exact IH. Qed.

(* ---- cumulative weight *)
Lemma cumw_cons p l v :
  cumw (p :: l) v = if Qle_bool (fst p) v then snd p + cumw l v else cumw l v.
Proof. unfold cumw; simpl. destruct (Qle_bool (fst p) v); reflexivity. Qed.

Lemma cumw_app a b v : cumw (a ++ b) v == cumw a v + cumw b v.
Proof.
  induction a as [|p a IH]; [unfold cumw; simpl; ring|].
  rewrite <- app_comm_cons, !cumw_cons. destruct (Qle_bool (fst p) v); rewrite IH; ring.
Qed.

Lemma cumw_all a v : (forall p, In p a -> fst p <= v) -> cumw a v == Sum (map snd a).
Proof.
  induction a as [|p a IH]; intro H; [reflexivity|]. rewrite cumw_cons.
  assert (E : Qle_bool (fst p) v = true) by (apply Qle_bool_iff, H; left; reflexivity).
  rewrite E, IH; [reflexivity|]. intros; apply H; right; assumption.
Qed.

Lemma cumw_none a v : (forall p, In p a -> v < fst p) -> cumw a v == 0.
Proof.
  induction a as [|p a IH]; intro H; [reflexivity|]. rewrite cumw_cons.
  assert (E : Qle_bool (fst p) v = false) by (apply Qle_bool_false, H; left; reflexivity).
  rewrite E. apply IH. intros; apply H; right; assumption.
Qed.

Lemma cumw_bounds a v : nonnegw a -> 0 <= cumw a v /\ cumw a v <= Sum (map snd a).
Proof.
  induction a as [|p a IH]; intro N; [unfold cumw; simpl; lra|]. rewrite cumw_cons.
  assert (0 <= snd p) by (apply N; left; reflexivity).
  assert (nonnegw a) as Na by (intros q Hq; apply N; right; assumption).
  destruct (IH Na) as [L U]. simpl. destruct (Qle_bool (fst p) v); lra.
Qed.

Lemma Sum_perm a b : Permutation a b -> Sum a == Sum b.
Proof.
  induction 1; simpl; try reflexivity.
  - rewrite IHPermutation. reflexivity.
  - ring.
  - rewrite IHPermutation1. exact IHPermutation2.
Qed.

Lemma cumw_perm a b v : Permutation a b -> cumw a v == cumw b v.
Proof.
  induction 1.
  - reflexivity.
  - rewrite !cumw_cons. destruct (Qle_bool (fst x) v); rewrite IHPermutation; reflexivity.
  - rewrite !cumw_cons. destruct (Qle_bool (fst x) v), (Qle_bool (fst y) v); ring.
  - rewrite IHPermutation1. exact IHPermutation2.
Qed.

Lemma totw_perm a b : Permutation a b -> totw a == totw b.
Proof. intro P. unfold totw. apply Sum_perm, Permutation_map, P. Qed.

Lemma wmedian_ok_perm a b v : Permutation a b -> wmedian_ok b v -> wmedian_ok a v.
Proof.
  intros P [[p [I E]] [H1 H2]]. split; [|split].
  - exists p. split; [|exact E]. eapply Permutation_in; [apply Permutation_sym, P|exact I].
  - rewrite (totw_perm a b P), (cumw_perm a b v P). exact H1.
  - intros q Iq L. rewrite (totw_perm a b P), (cumw_perm a b (fst q) P). apply H2; [|exact L].
    eapply Permutation_in; [exact P|exact Iq].
Qed.

(* ---- sorted lists split at a position *)
Lemma sorted_split pre x rest :
  StronglySorted fle (pre ++ x :: rest) ->
  (forall p, In p pre -> fst p <= fst x) /\ (forall q, In q rest -> fst x <= fst q).
Proof.
  induction pre as [|a pre IH]; simpl; intro S.
  - split; [intros p []|]. inversion S as [|? ? S' F]; subst.
    intros q Hq. rewrite Forall_forall in F. apply (F q Hq).
  - inversion S as [|? ? S' F]; subst. destruct (IH S') as [A B]. split; [|exact B].
    intros p [E|I]; [subst p|apply A, I]. rewrite Forall_forall in F.
    apply (F x). apply in_or_app. right. left. reflexivity.
Qed.

(* ---- the loop *)
Section Loop.
  Variable s : list (Q * Q).
  Variable h : Q.
  Hypothesis Hh : 2 * h == totw s.
  Hypothesis Hnn : nonnegw s.

  Lemma totw_nonneg : 0 <= totw s.
  Proof. apply Sum_nonneg. intros y Hy. apply in_map_iff in Hy as [p [E I]]. subst y. apply Hnn, I. Qed.

  Lemma wm_loop_spec : forall rest pre cur wc sum,
    s = pre ++ (cur, wc) :: rest ->
    sum == totw s - Sum (map snd pre) - wc ->
    (pre = [] \/ Sum (map snd pre) < h) ->
    exists v pre' wv rest',
      wm_loop rest cur sum h = Ok v /\ s = pre' ++ (v, wv) :: rest'
      /\ (pre' = [] \/ Sum (map snd pre') < h) /\ h <= Sum (map snd pre') + wv.
  Proof.
    induction rest as [|[xk wk] t IH]; intros pre cur wc sum Es Hsum Inv; simpl.
    - destruct (Qlt_bool h sum) eqn:E.
      + exfalso. apply Qlt_bool_iff in E. pose proof totw_nonneg as T.
        assert (totw s == Sum (map snd pre) + wc).
        { rewrite Es. unfold totw. rewrite map_app, Sum_app. simpl. ring. }
        lra.
      + apply Qlt_bool_false in E. exists cur, pre, wc, []. repeat split; auto. lra.
    - destruct (Qlt_bool h sum) eqn:E.
      + apply Qlt_bool_iff in E.
        apply (IH (pre ++ [(cur, wc)]) xk wk (sum - wk)).
        * rewrite <- app_assoc. exact Es.
        * rewrite map_app, Sum_app. simpl. lra.
        * right. rewrite map_app, Sum_app. simpl. lra.
      + apply Qlt_bool_false in E. exists cur, pre, wc, ((xk, wk) :: t). repeat split; auto. lra.
  Qed.

  Lemma decomposition_ok pre v wv rest :
    StronglySorted fle s ->
    s = pre ++ (v, wv) :: rest ->
    (pre = [] \/ Sum (map snd pre) < h) -> h <= Sum (map snd pre) + wv ->
    wmedian_ok s v.
  Proof.
    intros SS Es Inv Hge.
    assert (SP := SS). rewrite Es in SP. apply sorted_split in SP as [Ppre Prest]. simpl in *.
    assert (Npre : nonnegw pre) by (intros p Hp; apply Hnn; rewrite Es; apply in_or_app; left; exact Hp).
    assert (Nrest : nonnegw rest) by (intros p Hp; apply Hnn; rewrite Es; apply in_or_app; right; right; exact Hp).
    assert (Hh' : totw s / 2 == h) by (rewrite <- Hh; field).
    split; [|split].
    - exists (v, wv). split; [|reflexivity]. rewrite Es. apply in_or_app. right. left. reflexivity.
    - rewrite Hh'. rewrite Es at 1. rewrite cumw_app, cumw_cons. simpl.
      assert (E : Qle_bool v v = true) by (apply Qle_bool_iff, Qle_refl). rewrite E.
      rewrite (cumw_all pre v Ppre). destruct (cumw_bounds rest v Nrest). lra.
    - intros p Ip Lp. rewrite Hh'.
      assert (Ipre : In p pre).
      { rewrite Es in Ip. apply in_app_or in Ip as [I|[I|I]]; [exact I| |].
        - subst p. simpl in Lp. exfalso. lra.
        - specialize (Prest p I). exfalso. lra. }
      destruct Inv as [Inv|Inv]; [subst pre; destruct Ipre|].
      rewrite Es at 1. rewrite cumw_app.
      rewrite (cumw_none ((v, wv) :: rest) (fst p)).
      + destruct (cumw_bounds pre (fst p) Npre). lra.
      + intros q [Eq|Iq]; [subst q; exact Lp|]. specialize (Prest q Iq). simpl. lra.
  Qed.
End Loop.

(* ---- the routine *)
Lemma wmedian_pairs_correct l :
  l <> [] -> nonnegw l -> exists v, wmedian_pairs l = Ok v /\ wmedian_ok l v.
Proof.
  intros NE NN. unfold wmedian_pairs.
  pose proof (isort_perm l) as P. pose proof (isort_sorted l) as S.
  destruct (isort_p l) as [|[x0 w0] t] eqn:Es.
  - apply Permutation_sym, Permutation_nil in P. contradiction.
  - set (s := (x0, w0) :: t) in *.
    assert (Hh : 2 * (qsum (map snd l) / 2) == totw s).
    { rewrite qsum_Sum. rewrite <- (totw_perm l s P). unfold totw. field. }
    assert (Hnn : nonnegw s) by (intros p Hp; apply NN; eapply Permutation_in; [apply Permutation_sym, P|exact Hp]).
    destruct (wm_loop_spec s _ Hh Hnn t [] x0 w0 (qsum (map snd l) - w0)) as [v [pre [wv [rest [E1 [E2 [E3 E4]]]]]]].
    + reflexivity.
    + rewrite qsum_Sum. rewrite <- (totw_perm l s P). unfold totw. simpl. ring.
    + left. reflexivity.
    + exists v. split; [exact E1|]. apply (wmedian_ok_perm l s v P).
      eapply decomposition_ok; eauto.
Qed.

Lemma in_combine_snd (x w : list Q) p : In p (combine x w) -> In (snd p) w.
Proof. destruct p as [a b]. intro H. apply in_combine_r in H. exact H. Qed.

Lemma wmedian_correct x w :
  length x = length w -> x <> [] -> (forall y, In y w -> 0 <= y) ->
  exists v, wmedian x w = Ok v /\ wmedian_ok (combine x w) v.
Proof.
  intros L NE NN. unfold wmedian. rewrite L, Nat.eqb_refl.
  apply wmedian_pairs_correct.
  - destruct x as [|a x]; [congruence|]. destruct w as [|b w]; [discriminate|]. simpl. discriminate.
  - intros p Hp. apply NN. eapply in_combine_snd, Hp.
Qed.

(* ---- checker *)
Lemma cumw_q_ok l v : cumw_q l v == cumw l v.
Proof. unfold cumw_q, cumw. apply qsum_Sum. Qed.

Lemma wmedian_check_sound l v : wmedian_check l v = true -> wmedian_ok l v.
Proof.
  unfold wmedian_check. intro H.
  apply andb_true_iff in H as [H H3]. apply andb_true_iff in H as [H1 H2].
  assert (Eh : qsum (map snd l) / 2 == totw l / 2) by (rewrite qsum_Sum; reflexivity).
  split; [|split].
  - apply existsb_exists in H1 as [p [I E]]. exists p. split; [exact I|]. apply Qeq_bool_iff, E.
  - apply Qle_bool_iff in H2. rewrite cumw_q_ok, Eh in H2. exact H2.
  - intros p Ip Lp. rewrite forallb_forall in H3. specialize (H3 p Ip).
    apply Qlt_bool_iff in Lp. rewrite Lp in H3. apply Qlt_bool_iff in H3.
    rewrite cumw_q_ok, Eh in H3. exact H3.
Qed.

(* the answer is unique (up to ==): two values that both satisfy the specification coincide *)
Lemma wmedian_ok_unique l v v' : wmedian_ok l v -> wmedian_ok l v' -> v == v'.
Proof.
  intros [[p [Ip Ep]] [A1 A2]] [[q [Iq Eq]] [B1 B2]].
  destruct (Qlt_le_dec v v') as [L|L].
  - exfalso. assert (Lp : fst p < v') by (rewrite Ep; exact L). specialize (B2 p Ip Lp).
    assert (cumw l (fst p) == cumw l v).
    { unfold cumw. rewrite (filter_ext_in_b (fun r => Qle_bool (fst r) (fst p)) (fun r => Qle_bool (fst r) v)); [reflexivity|].
      intros a _. rewrite Ep. reflexivity. }
    lra.
  - destruct (Qlt_le_dec v' v) as [L'|L']; [|lra].
    exfalso. assert (Lq : fst q < v) by (rewrite Eq; exact L'). specialize (A2 q Iq Lq).
    assert (cumw l (fst q) == cumw l v').
    { unfold cumw. rewrite (filter_ext_in_b (fun r => Qle_bool (fst r) (fst q)) (fun r => Qle_bool (fst r) v')); [reflexivity|].
      intros a _. rewrite Eq. reflexivity. }
    lra.
Qed.

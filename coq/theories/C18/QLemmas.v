(* C18 — basic facts about the helpers of Model.v / Spec.v *)
From Coq Require Import QArith Qabs Lqa Setoid Morphisms.
From EsVerif.Common Require Import Base.
From EsVerif.C18 Require Import Model Spec.
Open Scope Q_scope.

(* ---- boolean comparisons *)
Lemma Qlt_bool_iff x y : Qlt_bool x y = true <-> x < y.
Proof.
  unfold Qlt_bool. rewrite negb_true_iff. split; intro H.
  - apply Qnot_le_lt. intro L. apply Qle_bool_iff in L. congruence.
  - destruct (Qle_bool y x) eqn:E; auto. apply Qle_bool_iff in E.
    exfalso. apply (Qlt_not_le _ _ H E).
Qed.

Lemma Qlt_bool_false x y : Qlt_bool x y = false <-> y <= x.
Proof.
  unfold Qlt_bool. rewrite negb_false_iff. apply Qle_bool_iff.
Qed.

Lemma Qle_bool_false x y : Qle_bool x y = false <-> y < x.
Proof.
  rewrite <- Qlt_bool_iff. unfold Qlt_bool. rewrite negb_true_iff. reflexivity.
Qed.

Global Instance Qlt_bool_comp : Proper (Qeq ==> Qeq ==> eq) Qlt_bool.
Proof. intros a b E c d F. unfold Qlt_bool. rewrite E, F. reflexivity. Qed.

Lemma Qeq_bool_true x y : Qeq_bool x y = true <-> x == y.
Proof. apply Qeq_bool_iff. Qed.

(* ---- sums *)
Lemma qadd_ok p q : qadd p q == p + q.
Proof.
  unfold qadd. destruct (Pos.eqb (Qden p) (Qden q)) eqn:E.
  - apply Pos.eqb_eq in E. destruct p as [a b], q as [c d]; simpl in *. subst d.
    unfold Qeq, Qplus; simpl. rewrite Pos2Z.inj_mul. ring.
  - apply Qred_correct.
Qed.

Lemma fold_qadd t : forall a, fold_left qadd t a == a + Sum t.
Proof.
  induction t as [|x t IH]; intro a; simpl.
  - ring.
  - rewrite IH, qadd_ok. ring.
Qed.

Lemma qsum_Sum l : qsum l == Sum l.
Proof.
  destruct l as [|x t]; simpl; [reflexivity|]. apply fold_qadd.
Qed.

Lemma Sum_app a b : Sum (a ++ b) == Sum a + Sum b.
Proof. induction a as [|x a IH]; simpl; [ring|]. rewrite IH. ring. Qed.

Lemma Sum_map_ext {A} (f g : A -> Q) l : (forall a, In a l -> f a == g a) -> Sum (map f l) == Sum (map g l).
Proof.
  induction l as [|a l IH]; intro H; simpl; [reflexivity|].
  rewrite (H a (or_introl eq_refl)), IH; [reflexivity|]. intros; apply H; right; assumption.
Qed.

Lemma Sum_map2_ext (f g : Q -> Q -> Q) w x : (forall a b, f a b == g a b) -> Sum (map2 f w x) == Sum (map2 g w x).
Proof.
  intro H. revert x; induction w as [|a w IH]; intros [|b x]; simpl; try reflexivity.
  rewrite H, IH. reflexivity.
Qed.

Lemma Sum_nonneg l : (forall y, In y l -> 0 <= y) -> 0 <= Sum l.
Proof.
  induction l as [|a l IH]; intro H; simpl; [apply Qle_refl|].
  assert (0 <= a) by (apply H; left; reflexivity).
  assert (0 <= Sum l) by (apply IH; intros; apply H; right; assumption). lra.
Qed.

Lemma map2_length {A B C} (f : A -> B -> C) a b : length a = length b -> length (map2 f a b) = length a.
Proof. revert b; induction a as [|x a IH]; intros [|y b] H; simpl in *; try lia. f_equal. apply IH. lia. Qed.

(* ---- closeness predicates *)
Lemma close_lin_b_iff y v tol : close_lin_b y v tol = true <-> close_lin y v tol.
Proof. apply Qle_bool_iff. Qed.

Lemma close_sqrt_b_iff s V tol : close_sqrt_b s V tol = true <-> close_sqrt s V tol.
Proof.
  unfold close_sqrt_b, close_sqrt.
  rewrite !andb_true_iff, orb_true_iff, !Qle_bool_iff. tauto.
Qed.

Lemma close_lin_compat y v v' tol tol' : v == v' -> tol == tol' -> close_lin y v tol -> close_lin y v' tol'.
Proof. unfold close_lin. intros E F H. rewrite <- E, <- F. exact H. Qed.

Lemma close_sqrt_compat s V V' tol tol' : V == V' -> tol == tol' -> close_sqrt s V tol -> close_sqrt s V' tol'.
Proof. unfold close_sqrt. intros E F H. rewrite <- E, <- F. exact H. Qed.

Lemma rel_close_b_iff y v : rel_close_b y v = true <-> rel_close y v.
Proof. apply Qle_bool_iff. Qed.

(* ---- lists *)
Lemma filter_len_le {A} (f : A -> bool) l : (length (filter f l) <= length l)%nat.
Proof. induction l as [|a l IH]; simpl; [lia|]. destruct (f a); simpl; lia. Qed.

Lemma filter_length_eq {A} (f : A -> bool) l : length (filter f l) = length l -> filter f l = l.
Proof.
  induction l as [|a l IH]; simpl; intro H; [reflexivity|].
  destruct (f a); simpl in H.
  - f_equal. apply IH. lia.
  - pose proof (filter_len_le f l). lia.
Qed.

Lemma filter_ext_in_b {A} (f g : A -> bool) l : (forall a, In a l -> f a = g a) -> filter f l = filter g l.
Proof.
  induction l as [|a l IH]; intro H; simpl; [reflexivity|].
  rewrite (H a (or_introl eq_refl)), IH; [reflexivity|]. intros; apply H; right; assumption.
Qed.

(* C18 — the sigma-clipping clause exactly as stated ("... until nothing changes or the iteration
   limit is reached": TWO stop rules), the decidable class of inputs on which the code departs from
   it, and the checker used by the correspondence run.

   Departure (known-finding class C18.kf_everything_clipped): when a round would discard EVERY
   remaining point, sigma_clip writes "nsig too small. Everything clipped on iteration i" to
   stderr, stops, and reports the last non-empty subset with its statistics; the stated iteration
   would go on to the empty set.  (Spec.clip_fixpoint has this third stop rule built in; it
   describes the code.  clip_fixpoint_strict below is the property.) *)
From Coq Require Import QArith Qabs.
From EsVerif.Common Require Import Base.
From EsVerif.C18 Require Import Model Spec.
Open Scope Q_scope.

(* sub is the k-th iterate of the clipping round, every earlier round changed the subset, and the
   iteration stopped because the limit was reached or nothing changes any more *)
Definition clip_fixpoint_strict (weighted : bool) (nsig : Q) (niter : nat) (all sub : list pt) : Prop :=
  let step := clip_step weighted nsig in
  exists k, (k <= niter)%nat
    /\ sub = iterate step k all
    /\ (forall j, (j < k)%nat -> let c := iterate step j all in length (step c) <> length c)
    /\ (k = niter \/ step sub = sub).

Definition sigma_clip_strict_ok (weighted : bool) (nsig : Q) (niter : nat) (all : list pt)
           (mean sdev err : Q) (idx : list Z) : Prop :=
  exists sub, map p_idx sub = idx
    /\ clip_fixpoint_strict weighted nsig niter all sub
    /\ let '(m, e2, v) := stat_def weighted sub in
       let A := sc_scale weighted sub in
       close_lin mean m (eps9 * A)
       /\ close_sqrt sdev v (eps9 * (sdev + A))
       /\ close_sqrt err e2 (eps9 * (err + A)).

(* the loop of the code (Model.sc_loop) reaches its "everything clipped" exit on a non-empty subset *)
Fixpoint sc_all_clipped (fuel : nat) (weighted : bool) (nsig : Q) (cur : list pt) (st : cstat) : bool :=
  match fuel with
  | O => false
  | S f =>
      let kept := filter (within nsig st) cur in
      match kept with
      | [] => match cur with [] => false | _ :: _ => true end
      | _ => if Nat.eqb (length kept) (length cur) then false
             else sc_all_clipped f weighted nsig kept (sc_stats weighted kept)
      end
  end.

Definition kf_everything_clipped (weighted : bool) (nsig : Q) (niter : nat) (all : list pt) : bool :=
  sc_all_clipped niter weighted nsig all (sc_stats weighted all).

(* checker of the property as stated *)
Definition sigma_clip_strict_check (weighted : bool) (nsig : Q) (niter : nat) (all : list pt)
           (mean sdev err : Q) (idx : list Z) : bool :=
  sigma_clip_check weighted nsig niter all mean sdev err idx
  && negb (kf_everything_clipped weighted nsig niter all).

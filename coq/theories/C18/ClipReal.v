(* C18 — the clip decision of sigma_clip over the reals.  The float code evaluates
   |x - m| < nsig * s with s = sqrt(var); the model decides (x-m)^2 < nsig^2 * var on exact
   rationals.  Over the reals the two are the same decision (nsig >= 0, var >= 0), including the
   strictness at a tie. *)
From Coq Require Import QArith Qabs Reals Qreals Lra.
From EsVerif.Common Require Import Base.
From EsVerif.C18 Require Import Model Spec QLemmas.

Lemma clip_decision_real (nsig m v x : Q) :
  (0 <= nsig)%Q -> (0 <= v)%Q ->
  (Qlt_bool (dev2 m x) (sq nsig * v) = true
   <-> (Rabs (Q2R x - Q2R m) < Q2R nsig * sqrt (Q2R v))%R).
Proof.
  intros Hn Hv. rewrite Qlt_bool_iff.
  apply Qle_Rle in Hn, Hv. rewrite RMicromega.Q2R_0 in *.
  pose proof (sqrt_pos (Q2R v)) as Rp. pose proof (sqrt_sqrt (Q2R v) Hv) as Rs.
  set (r := sqrt (Q2R v)) in *.
  assert (E1 : Q2R (dev2 m x) = ((Q2R x - Q2R m) * (Q2R x - Q2R m))%R).
  { unfold dev2, sq. rewrite Q2R_mult, Q2R_minus. reflexivity. }
  assert (E2 : Q2R (sq nsig * v) = ((Q2R nsig * r) * (Q2R nsig * r))%R).
  { unfold sq. rewrite !Q2R_mult. rewrite <- Rs. ring. }
  assert (T : (0 <= Q2R nsig * r)%R) by (apply Rmult_le_pos; assumption).
  set (a := (Q2R x - Q2R m)%R) in *. set (t := (Q2R nsig * r)%R) in *.
  split; intro H.
  - apply Qlt_Rlt in H. rewrite E1, E2 in H.
    unfold Rabs. destruct (Rcase_abs a); nra.
  - apply Rlt_Qlt. rewrite E1, E2.
    unfold Rabs in H. destruct (Rcase_abs a); nra.
Qed.

(* the model's filter [within] is that decision *)
Lemma within_real nsig st p :
  (0 <= nsig)%Q -> (0 <= c_var st)%Q ->
  (within nsig st p = true
   <-> (Rabs (Q2R (p_x p) - Q2R (c_mean st)) < Q2R nsig * sqrt (Q2R (c_var st)))%R).
Proof.
  intros Hn Hv. rewrite <- (clip_decision_real nsig (c_mean st) (c_var st) (p_x p) Hn Hv).
  unfold within. assert (P : Qle_bool 0 nsig = true) by (apply Qle_bool_iff; exact Hn).
  rewrite P. cbn [andb].
  assert (E : Qlt_bool (dev2 (c_mean st) (p_x p)) (Qred (sq nsig * c_var st))
              = Qlt_bool (dev2 (c_mean st) (p_x p)) (sq nsig * c_var st)).
  { apply Qlt_bool_comp; [reflexivity|apply Qred_correct]. }
  rewrite E. reflexivity.
Qed.

(* ---- the variance of a subset is non-negative (non-negative weights), so that sqrt is meant *)
From EsVerif.C18 Require Import MomProofs ClipProofs.
Open Scope Q_scope.

Lemma Qdiv_nonneg a b : 0 <= a -> 0 <= b -> 0 <= a / b.
Proof.
  intros Ha Hb. unfold Qdiv. apply Qmult_le_0_compat; [exact Ha|apply Qinv_le_0_compat; exact Hb].
Qed.

Lemma Sum_map2_nonneg (f : Q -> Q -> Q) w x :
  (forall a b, In a w -> 0 <= f a b) -> 0 <= Sum (map2 f w x).
Proof.
  revert x; induction w as [|a w IH]; intros [|b x] H; simpl; try apply Qle_refl.
  assert (0 <= f a b) by (apply H; left; reflexivity).
  assert (0 <= Sum (map2 f w x)) by (apply IH; intros; apply H; right; assumption).
  apply (Qplus_le_compat 0 (f a b) 0 (Sum (map2 f w x))); assumption.
Qed.

Lemma sq_nonneg a : 0 <= a * a.
Proof.
  destruct (Qlt_le_dec a 0) as [L|L].
  - setoid_replace (a * a) with ((- a) * (- a)) by ring.
    apply Qmult_le_0_compat; apply (Qopp_le_compat a 0); apply Qlt_le_weak; exact L.
  - apply Qmult_le_0_compat; exact L.
Qed.

Lemma sc_var_nonneg weighted cur :
  (weighted = true -> forall p, In p cur -> 0 <= p_w p) -> 0 <= c_var (sc_stats weighted cur).
Proof.
  intro Hw. pose proof (sc_stats_def weighted cur) as H. unfold stat_def in H.
  destruct weighted.
  - destruct H as [_ [_ Hv]]. rewrite Hv. unfold wvar_def.
    assert (W : forall a, In a (map p_w cur) -> 0 <= a).
    { intros a Ha. apply in_map_iff in Ha. destruct Ha as [p [E Hp]]. subst a. apply Hw; [reflexivity|exact Hp]. }
    apply Qdiv_nonneg.
    + apply Sum_map2_nonneg. intros a b Ha. apply Qmult_le_0_compat; [apply W; exact Ha|apply sq_nonneg].
    + apply Sum_nonneg. exact W.
  - destruct H as [_ [_ Hv]]. rewrite Hv. apply Qdiv_nonneg.
    + apply Sum_nonneg. intros y Hy. apply in_map_iff in Hy. destruct Hy as [a [E _]]. subst y. apply sq_nonneg.
    + unfold qlen. change 0 with (inject_Z 0). rewrite <- Zle_Qle. apply Zle_0_nat.
Qed.

(* one clipping round keeps exactly the points strictly within nsig deviations of the current mean *)
Lemma clip_round_real weighted nsig cur p :
  0 <= nsig -> (weighted = true -> forall q, In q cur -> 0 <= p_w q) ->
  let st := sc_stats weighted cur in
  (In p (filter (within nsig st) cur)
   <-> In p cur /\ (Rabs (Q2R (p_x p) - Q2R (c_mean st)) < Q2R nsig * sqrt (Q2R (c_var st)))%R).
Proof.
  intros Hn Hw st. rewrite filter_In.
  rewrite (within_real nsig st p Hn (sc_var_nonneg weighted cur Hw)). reflexivity.
Qed.

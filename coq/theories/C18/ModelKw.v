(* C18 — get_stats with the wmom keyword it documents ("**wmom_keywords: Extra keywords for wmom (if
   using weights)"): calcerr.  util.py, weighted branch of get_stats:
       kw["sdev"] = True
       if "calcerr" not in kw: kw["calcerr"] = True
       mn, err, std = wmom(arr, weights, **kw)
   In the clipping branch the keyword travels into sigma_clip's **ignored_kw, in the plain branch it
   is not used.  NO proofs in this file.  (Model.get_stats is the case calcerr absent.) *)
From Coq Require Import QArith Qabs.
From EsVerif.Common Require Import Base.
From EsVerif.C18 Require Import Model Spec.
Open Scope Q_scope.

Definition kw_calcerr (calcerr : option bool) : bool := match calcerr with Some b => b | None => true end.

Definition get_stats_kw (arr_in : nd) (weights : option nd) (nsig : option Q) (niter : option Z)
           (calcerr : option bool) : result gstats :=
  let ce := kw_calcerr calcerr in
  match nsig, niter, weights with
  | None, None, Some wn =>
      match atleast_1d arr_in with
      | V1 x =>
          let amin := S0 (qmin_list x) in
          let amax := S0 (qmax_list x) in
          match atleast_1d wn with
          | V1 w => if Nat.eqb (length w) (length x)
                    then let r := wmom1 x w None ce true in
                         Ok {| g_min := amin; g_max := amax; g_mean := S0 (m_mean r);
                               g_var := S0 (match m_var r with Some v => v | None => 0 end);
                               g_err2 := S0 (m_err2 r) |}
                    else Err EValue
          | _ => Err EValue
          end
      | M2 rows =>
          let d := ncols rows in
          if negb (rect rows d) then Err EOther else
          let js := seq 0 d in
          let amin := V1 (map (fun j => qmin_list (col j rows)) js) in
          let amax := V1 (map (fun j => qmax_list (col j rows)) js) in
          do r <- wmom (M2 rows) wn INone ce true;
          match o_var r with
          | Some v => Ok {| g_min := amin; g_max := amax; g_mean := o_mean r; g_var := v; g_err2 := o_err2 r |}
          | None => Err EOther
          end
      | S0 _ => Err EOther
      end
  | _, _, _ => get_stats arr_in weights nsig niter
  end.

(* checker of one column, with the error setting *)
Definition gs_col_ok_kw (ce : bool) (x : list Q) (w : option (list Q)) (clip : option (Q * nat))
           (mn mx mean std err : Q) (idx : list Z) : Prop :=
  match clip, w with
  | None, Some wl => is_min x mn /\ is_max x mx /\ wmom1_ok x wl None ce mean err (Some std)
  | _, _ => gs_col_ok x w clip mn mx mean std err idx
  end.

Definition gs_col_check_kw (ce : bool) (x : list Q) (w : option (list Q)) (clip : option (Q * nat))
           (mn mx mean std err : Q) (idx : list Z) : bool :=
  match clip, w with
  | None, Some wl => is_min_b x mn && is_max_b x mx && wmom1_check x wl None ce mean err (Some std)
  | _, _ => gs_col_check x w clip mn mx mean std err idx
  end.

(* C18 — statistics that do not exist.  Model.v totalises x/0 = 0, so the weighted mean of a subset
   whose total weight is zero comes out as the NUMBER 0; the real code returns nan there, and neither
   is "the mean of the subset": the quantity is undefined and the statement cannot decide such a call.
   Here definedness is explicit: a subset has statistics iff its total weight is non-zero (weighted)
   resp. it is non-empty (unweighted; never reached by the loop), and the clipping loop returns a
   separate constructor — not numbers — when it runs into a subset without statistics.
   NO proofs in this file. *)
From Coq Require Import QArith Qabs.
From EsVerif.Common Require Import Base.
From EsVerif.C18 Require Import Model Spec.
Open Scope Q_scope.

Definition tot_w (weighted : bool) (cur : list pt) : Q := if weighted then qsum (map p_w cur) else qlen cur.
Definition stats_defined (weighted : bool) (cur : list pt) : bool := negb (Qeq_bool (tot_w weighted cur) 0).

(* ScDefined sub st: the loop ended on sub, whose statistics st exist (and so did those of every
   earlier round).  ScUndefined prev kept: prev had statistics, the discard rule applied to prev gives
   kept, and kept has none; the iteration has no defined continuation.  (The code: wmom returns nan,
   the next comparison is all-False, "everything clipped" -> it reports kept with nan statistics.) *)
Inductive sc_res := ScDefined (sub : list pt) (st : cstat) | ScUndefined (prev kept : list pt).

Fixpoint sc_loop_u (fuel : nat) (weighted : bool) (nsig : Q) (cur : list pt) (st : cstat) : sc_res :=
  match fuel with
  | O => ScDefined cur st
  | S f =>
      let kept := filter (within nsig st) cur in
      match kept with
      | [] => ScDefined cur st
      | _ => if Nat.eqb (length kept) (length cur) then ScDefined cur st
             else if stats_defined weighted kept then sc_loop_u f weighted nsig kept (sc_stats weighted kept)
             else ScUndefined cur kept
      end
  end.

Inductive sc_outcome := ScOk (r : sc_out) | ScUndef (idx : list Z).

Definition sigma_clip_u (x : list Q) (w : option (list Q)) (niter : nat) (nsig : Q) : sc_outcome :=
  let all := index_from 0%Z x (sc_weights x w) in
  let wtd := sc_weighted w in
  if stats_defined wtd all then
    match sc_loop_u niter wtd nsig all (sc_stats wtd all) with
    | ScDefined sub st => ScOk {| sc_mean := c_mean st; sc_var := c_var st; sc_err2 := c_err2 st; sc_idx := map p_idx sub |}
    | ScUndefined _ kept => ScUndef (map p_idx kept)
    end
  else ScUndef (map p_idx all).

(* wmom: column j has moments iff the weights acting on it do not sum to zero *)
Definition wmom_undef_cols (arr wts : nd) : list bool :=
  map (fun j => Qeq_bool (qsum (wcol_of (atleast_1d wts) j)) 0) (seq 0 (data_ncols (atleast_1d arr))).

(* C18 — sigma clipping: the returned statistics are those of the reported subset, and the
   subset is the iterate of the clipping round; summary statistics. *)
From Coq Require Import QArith Qabs Lqa Setoid Morphisms.
From EsVerif.Common Require Import Base.
From EsVerif.C18 Require Import Model Spec QLemmas MomProofs.
Open Scope Q_scope.

(* ---- statistics of a subset *)
Lemma sc_stats_def weighted cur :
  let '(m, e2, v) := stat_def weighted cur in
  c_mean (sc_stats weighted cur) == m /\ c_err2 (sc_stats weighted cur) == e2
  /\ c_var (sc_stats weighted cur) == v.
Proof.
  unfold stat_def, sc_stats. destruct weighted.
  - pose proof (wmom1_spec (map p_x cur) (map p_w cur) None true true) as [Sm [Se Sv]].
    cbn [c_mean c_err2 c_var]. destruct (m_var (wmom1 (map p_x cur) (map p_w cur) None true true)) as [v|] eqn:EV.
    + destruct Sv as [_ Sv]. split; [exact Sm|]. split; [exact Se|exact Sv].
    + discriminate.
  - cbn [c_mean c_err2 c_var].
    set (xs := map p_x cur). set (n := qlen cur).
    assert (Hm : Qred (qsum xs / n) == Sum xs / n) by (rewrite Qred_correct, qsum_Sum; reflexivity).
    assert (Hv : Qred (qsum (map (dev2 (Qred (qsum xs / n))) xs) / n)
                 == Sum (map (fun x => (x - Sum xs / n) * (x - Sum xs / n)) xs) / n).
    { rewrite Qred_correct, qsum_Sum.
      rewrite (Sum_map_ext (dev2 (Qred (qsum xs / n))) (fun x => (x - Sum xs / n) * (x - Sum xs / n)) xs); [reflexivity|].
      intros a _. unfold dev2, sq. rewrite Hm. reflexivity. }
    split; [exact Hm|]. split; [rewrite Hv; reflexivity|exact Hv].
Qed.

Lemma within_step weighted nsig cur :
  0 <= nsig ->
  filter (within nsig (sc_stats weighted cur)) cur = clip_step weighted nsig cur.
Proof.
  intro Hn. unfold clip_step. pose proof (sc_stats_def weighted cur) as H.
  destruct (stat_def weighted cur) as [[m e2] v]. destruct H as [Hm [_ Hv]].
  apply filter_ext_in_b. intros p _. unfold within. cbv zeta.
  assert (E : Qle_bool 0 nsig = true) by (apply Qle_bool_iff; exact Hn). rewrite E. cbn [andb].
  unfold dev2, sq. rewrite Qred_correct, Hm, Hv. reflexivity.
Qed.

(* ---- the loop *)
Lemma iterate_S {A} (f : A -> A) k a : iterate f (S k) a = iterate f k (f a).
Proof. reflexivity. Qed.

Lemma sc_loop_spec weighted nsig :
  0 <= nsig ->
  forall fuel cur sub st,
    sc_loop fuel weighted nsig cur (sc_stats weighted cur) = (sub, st) ->
    st = sc_stats weighted sub /\ clip_fixpoint weighted nsig fuel cur sub.
Proof.
  intro Hn. unfold clip_fixpoint.
  induction fuel as [|f IH]; intros cur sub st H; simpl in H.
  - inversion H; subst. split; [reflexivity|]. exists O.
    split; [lia|]. split; [reflexivity|]. split; [intros j Hj; lia|]. left; reflexivity.
  - rewrite (within_step weighted nsig cur Hn) in H.
    destruct (clip_step weighted nsig cur) as [|p kept] eqn:EK.
    + inversion H; subst. split; [reflexivity|]. exists O.
      split; [lia|]. split; [reflexivity|]. split; [intros j Hj; lia|]. right; right. exact EK.
    + destruct (Nat.eqb (length (p :: kept)) (length cur)) eqn:EL.
      * inversion H; subst. split; [reflexivity|]. exists O.
        split; [lia|]. split; [reflexivity|]. split; [intros j Hj; lia|]. right; left.
        apply Nat.eqb_eq in EL. simpl iterate.
        rewrite <- (within_step weighted nsig sub Hn). apply filter_length_eq.
        rewrite (within_step weighted nsig sub Hn), EK. exact EL.
      * apply IH in H as [Hst [k [Hk [Hsub [Hall Hstop]]]]]. split; [exact Hst|].
        exists (S k). split; [lia|]. split; [rewrite iterate_S, EK; exact Hsub|]. split.
        -- intros [|j] Hj.
           ++ simpl. rewrite EK. split; [discriminate|]. apply Nat.eqb_neq in EL. exact EL.
           ++ rewrite iterate_S, EK. apply Hall. lia.
        -- destruct Hstop as [Hs|Hs]; [left; lia|right; exact Hs].
Qed.

(* every iterate is a sub-multiset of the input: only discarding happens *)
Lemma iterate_incl weighted nsig k : forall cur p, In p (iterate (clip_step weighted nsig) k cur) -> In p cur.
Proof.
  induction k as [|k IH]; intros cur p H; [exact H|].
  rewrite iterate_S in H. apply IH in H. unfold clip_step in H.
  destruct (stat_def weighted cur) as [[m e2] v]. apply filter_In in H. tauto.
Qed.

(* ---- indexing of the input *)
Lemma index_from_x i x w : length x = length w -> map p_x (index_from i x w) = x.
Proof.
  revert i w; induction x as [|a x IH]; intros i [|b w] L; simpl in *; try reflexivity; try discriminate.
  unfold p_x at 1; simpl. f_equal. apply IH. lia.
Qed.
Lemma index_from_w i x w : length x = length w -> map p_w (index_from i x w) = w.
Proof.
  revert i w; induction x as [|a x IH]; intros i [|b w] L; simpl in *; try reflexivity; try discriminate.
  unfold p_w at 1; simpl. f_equal. apply IH. lia.
Qed.
Lemma index_from_idx i x w : length x = length w -> map p_idx (index_from i x w) = zseq i (length x).
Proof.
  revert i w; induction x as [|a x IH]; intros i [|b w] L; simpl in *; try reflexivity; try discriminate.
  unfold p_idx at 1; simpl. f_equal. apply IH. lia.
Qed.

(* ---- the routine *)
Lemma sc_finish wtd nsig fuel all :
  0 <= nsig ->
  exists r sub,
    (let '(sub, st) := sc_loop fuel wtd nsig all (sc_stats wtd all) in
     Ok {| sc_mean := c_mean st; sc_var := c_var st; sc_err2 := c_err2 st; sc_idx := map p_idx sub |}) = Ok r
    /\ sc_idx r = map p_idx sub
    /\ (forall p, In p sub -> In p all)
    /\ clip_fixpoint wtd nsig fuel all sub
    /\ let '(m, e2, v) := stat_def wtd sub in
       sc_mean r == m /\ sc_err2 r == e2 /\ sc_var r == v.
Proof.
  intro Hn.
  destruct (sc_loop fuel wtd nsig all (sc_stats wtd all)) as [sub st] eqn:EL.
  apply (sc_loop_spec wtd nsig Hn) in EL as [Hst Hfix].
  exists {| sc_mean := c_mean st; sc_var := c_var st; sc_err2 := c_err2 st; sc_idx := map p_idx sub |}, sub.
  split; [reflexivity|]. split; [reflexivity|]. split.
  - destruct Hfix as [k [_ [Hsub _]]]. intros p Hp. rewrite Hsub in Hp. eapply iterate_incl, Hp.
  - split; [exact Hfix|]. subst st. pose proof (sc_stats_def wtd sub) as H.
    destruct (stat_def wtd sub) as [[m e2] v]. simpl. tauto.
Qed.

Lemma sigma_clip_spec x weights niter nsig :
  0 <= nsig -> length (sc_weights x weights) = length x ->
  let all := index_from 0%Z x (sc_weights x weights) in
  let wtd := sc_weighted weights in
  exists r sub,
    sigma_clip (V1 x) (match weights with Some w => Some (V1 w) | None => None end) niter nsig = Ok r
    /\ sc_idx r = map p_idx sub
    /\ (forall p, In p sub -> In p all)
    /\ clip_fixpoint wtd nsig (Z.to_nat niter) all sub
    /\ let '(m, e2, v) := stat_def wtd sub in
       sc_mean r == m /\ sc_err2 r == e2 /\ sc_var r == v.
Proof.
  intros Hn L all wtd. unfold sigma_clip. simpl atleast_1d. cbv iota.
  destruct weights as [w|]; simpl in L; subst all wtd; simpl sc_weights; simpl sc_weighted.
  - simpl atleast_1d. cbv iota. rewrite L, Nat.eqb_refl. cbn [bind]. apply sc_finish, Hn.
  - cbn [bind]. apply sc_finish, Hn.
Qed.

(* when no round would discard everything, the stop rule is exactly "nothing changes or the
   iteration limit is reached" *)
Lemma clip_fixpoint_pure weighted nsig niter all sub :
  clip_fixpoint weighted nsig niter all sub ->
  clip_step weighted nsig sub <> [] ->
  exists k, (k <= niter)%nat /\ sub = iterate (clip_step weighted nsig) k all
            /\ (k = niter \/ clip_step weighted nsig sub = sub).
Proof.
  intros [k [Hk [Hs [_ Hstop]]]] NE. exists k. split; [exact Hk|]. split; [exact Hs|].
  destruct Hstop as [H|[H|H]]; [left; exact H|right; exact H|contradiction].
Qed.

(* the stopping index is unique, hence so is the subset *)
Lemma clip_fixpoint_unique weighted nsig niter all s1 s2 :
  clip_fixpoint weighted nsig niter all s1 -> clip_fixpoint weighted nsig niter all s2 -> s1 = s2.
Proof.
  unfold clip_fixpoint.
  intros [k1 [L1 [E1 [A1 S1]]]] [k2 [L2 [E2 [A2 S2]]]].
  assert (forall ka kb sa, (ka < kb)%nat -> (kb <= niter)%nat ->
            sa = iterate (clip_step weighted nsig) ka all ->
            (forall j, (j < kb)%nat -> let c := iterate (clip_step weighted nsig) j all in
                 clip_step weighted nsig c <> [] /\ length (clip_step weighted nsig c) <> length c) ->
            (ka = niter \/ clip_step weighted nsig sa = sa \/ clip_step weighted nsig sa = []) -> False) as X.
  { intros ka kb sa Hlt Hle Ea Ab Sa. specialize (Ab ka Hlt). simpl in Ab. rewrite <- Ea in Ab.
    destruct Ab as [Ab1 Ab2]. destruct Sa as [Sa|[Sa|Sa]]; [lia| |contradiction].
    rewrite Sa in Ab2. congruence. }
  destruct (Nat.lt_trichotomy k1 k2) as [H|[H|H]].
  - exfalso. eapply (X k1 k2 s1); eauto.
  - subst k2. congruence.
  - exfalso. eapply (X k2 k1 s2); eauto.
Qed.

(* ---- checker *)
Lemma sc_scale_q_ok weighted sub : sc_scale_q weighted sub == sc_scale weighted sub.
Proof. unfold sc_scale_q, sc_scale, absmean_def. rewrite !qsum_Sum. reflexivity. Qed.

Lemma sigma_clip_check_sound weighted nsig niter all mean sdev err idx :
  0 <= nsig ->
  sigma_clip_check weighted nsig niter all mean sdev err idx = true ->
  sigma_clip_ok weighted nsig niter all mean sdev err idx.
Proof.
  intros Hn H. unfold sigma_clip_check in H.
  destruct (sc_loop niter weighted nsig all (sc_stats weighted all)) as [sub st] eqn:EL.
  apply (sc_loop_spec weighted nsig Hn) in EL as [Hst Hfix].
  apply andb_true_iff in H as [H H4]. apply andb_true_iff in H as [H H3]. apply andb_true_iff in H as [H1 H2].
  exists sub. split; [apply zlist_eqb_spec; exact H1|]. split; [exact Hfix|].
  subst st. pose proof (sc_stats_def weighted sub) as D.
  destruct (stat_def weighted sub) as [[m e2] v]. destruct D as [Dm [De Dv]].
  pose proof (sc_scale_q_ok weighted sub) as EA.
  apply close_lin_b_iff in H2. apply close_sqrt_b_iff in H3. apply close_sqrt_b_iff in H4.
  split; [|split].
  - eapply close_lin_compat; [exact Dm| |exact H2]. rewrite EA. reflexivity.
  - eapply close_sqrt_compat; [exact Dv| |exact H3]. rewrite EA. reflexivity.
  - eapply close_sqrt_compat; [exact De| |exact H4]. rewrite EA. reflexivity.
Qed.

(* ---- summary statistics *)
Lemma fold_qmin_spec t : forall a,
  ((fold_left qmin t a == a) \/ exists y, In y t /\ y == fold_left qmin t a)
  /\ fold_left qmin t a <= a /\ forall y, In y t -> fold_left qmin t a <= y.
Proof.
  induction t as [|b t IH]; intro a; simpl.
  - split; [left; reflexivity|]. split; [apply Qle_refl|intros y []].
  - destruct (IH (qmin a b)) as [M [L A]].
    assert (Q1 : qmin a b <= a /\ qmin a b <= b /\ (qmin a b = a \/ qmin a b = b)).
    { unfold qmin. destruct (Qle_bool a b) eqn:E.
      - apply Qle_bool_iff in E. repeat split; auto; lra.
      - apply Qle_bool_false in E. repeat split; auto; lra. }
    destruct Q1 as [Qa [Qb Qc]]. split; [|split].
    + destruct M as [M|[y [I E]]].
      * destruct Qc as [Qc|Qc].
        -- left. transitivity (qmin a b); [exact M|rewrite Qc; reflexivity].
        -- right. exists b. split; [left; reflexivity|]. symmetry. transitivity (qmin a b); [exact M|rewrite Qc; reflexivity].
      * right. exists y. split; [right; exact I|exact E].
    + lra.
    + intros y [E|I]; [subst y; lra|apply A, I].
Qed.

Lemma fold_qmax_spec t : forall a,
  ((fold_left qmax t a == a) \/ exists y, In y t /\ y == fold_left qmax t a)
  /\ a <= fold_left qmax t a /\ forall y, In y t -> y <= fold_left qmax t a.
Proof.
  induction t as [|b t IH]; intro a; simpl.
  - split; [left; reflexivity|]. split; [apply Qle_refl|intros y []].
  - destruct (IH (qmax a b)) as [M [L A]].
    assert (Q1 : a <= qmax a b /\ b <= qmax a b /\ (qmax a b = a \/ qmax a b = b)).
    { unfold qmax. destruct (Qle_bool a b) eqn:E.
      - apply Qle_bool_iff in E. repeat split; auto; lra.
      - apply Qle_bool_false in E. repeat split; auto; lra. }
    destruct Q1 as [Qa [Qb Qc]]. split; [|split].
    + destruct M as [M|[y [I E]]].
      * destruct Qc as [Qc|Qc].
        -- left. transitivity (qmax a b); [exact M|rewrite Qc; reflexivity].
        -- right. exists b. split; [left; reflexivity|]. symmetry. transitivity (qmax a b); [exact M|rewrite Qc; reflexivity].
      * right. exists y. split; [right; exact I|exact E].
    + lra.
    + intros y [E|I]; [subst y; lra|apply A, I].
Qed.

Lemma qmin_list_spec l : l <> [] -> is_min l (qmin_list l).
Proof.
  destruct l as [|a t]; [congruence|]. intros _. unfold qmin_list, is_min.
  destruct (fold_qmin_spec t a) as [M [L A]]. split.
  - destruct M as [M|[y [I E]]].
    + exists a. split; [left; reflexivity|symmetry; exact M].
    + exists y. split; [right; exact I|exact E].
  - intros y [E|I]; [subst y; exact L|apply A, I].
Qed.

Lemma qmax_list_spec l : l <> [] -> is_max l (qmax_list l).
Proof.
  destruct l as [|a t]; [congruence|]. intros _. unfold qmax_list, is_max.
  destruct (fold_qmax_spec t a) as [M [L A]]. split.
  - destruct M as [M|[y [I E]]].
    + exists a. split; [left; reflexivity|symmetry; exact M].
    + exists y. split; [right; exact I|exact E].
  - intros y [E|I]; [subst y; exact L|apply A, I].
Qed.

Lemma is_min_b_sound l m : is_min_b l m = true -> is_min l m.
Proof.
  unfold is_min_b, is_min. intro H. apply andb_true_iff in H as [H1 H2]. split.
  - apply existsb_exists in H1 as [y [I E]]. exists y. split; [exact I|apply Qeq_bool_iff, E].
  - intros y I. rewrite forallb_forall in H2. apply Qle_bool_iff, H2, I.
Qed.
Lemma is_max_b_sound l m : is_max_b l m = true -> is_max l m.
Proof.
  unfold is_max_b, is_max. intro H. apply andb_true_iff in H as [H1 H2]. split.
  - apply existsb_exists in H1 as [y [I E]]. exists y. split; [exact I|apply Qeq_bool_iff, E].
  - intros y I. rewrite forallb_forall in H2. apply Qle_bool_iff, H2, I.
Qed.

(* get_stats on 1-d data: min and max of the data; mean/deviation/error are those of
   sigma_clip (get_err=True) when nsig or niter is given, of wmom(calcerr=True, sdev=True) when
   weights are given, and the plain mean, std (ddof=0) and std/sqrt(N) otherwise *)
Lemma get_stats_1d_minmax x weights nsig niter g :
  x <> [] -> get_stats (V1 x) weights nsig niter = Ok g ->
  exists mn mx, g_min g = S0 mn /\ g_max g = S0 mx /\ is_min x mn /\ is_max x mx.
Proof.
  intros NE H. exists (qmin_list x), (qmax_list x).
  assert (is_min x (qmin_list x) /\ is_max x (qmax_list x)) as [A B]
    by (split; [apply qmin_list_spec|apply qmax_list_spec]; exact NE).
  unfold get_stats in H. simpl atleast_1d in H. cbv iota in H.
  destruct (match nsig, niter with None, None => false | _, _ => true end).
  - destruct (sigma_clip _ _ _ _); simpl in H; [|discriminate]. inversion H; subst; simpl. auto.
  - destruct weights as [wn|].
    + destruct (atleast_1d wn); try discriminate.
      destruct (Nat.eqb _ _); [|discriminate]. inversion H; subst; simpl. auto.
    + inversion H; subst; simpl. auto.
Qed.

Lemma get_stats_1d_clip x weights nsig niter :
  (nsig <> None \/ niter <> None) ->
  get_stats (V1 x) weights nsig niter =
  match sigma_clip (V1 x) weights (match niter with Some k => k | None => 4%Z end)
                   (match nsig with Some s => s | None => 4 end) with
  | Ok r => Ok {| g_min := S0 (qmin_list x); g_max := S0 (qmax_list x); g_mean := S0 (sc_mean r);
                  g_var := S0 (sc_var r); g_err2 := S0 (sc_err2 r) |}
  | Err e => Err e
  end.
Proof.
  intro H. unfold get_stats. simpl atleast_1d. cbv iota.
  assert (E : match nsig, niter with None, None => false | _, _ => true end = true).
  { destruct nsig, niter; try reflexivity. destruct H; congruence. }
  rewrite E. destruct (sigma_clip _ _ _ _); reflexivity.
Qed.

Lemma get_stats_1d_weighted x w :
  length w = length x ->
  exists g, get_stats (V1 x) (Some (V1 w)) None None = Ok g
    /\ exists m e2 v, g_mean g = S0 m /\ g_err2 g = S0 e2 /\ g_var g = S0 v
       /\ mom_spec x w None true true {| m_mean := m; m_err2 := e2; m_var := Some v |}.
Proof.
  intro L. unfold get_stats. simpl atleast_1d. cbv iota. rewrite L, Nat.eqb_refl.
  eexists; split; [reflexivity|]. cbn [g_mean g_err2 g_var].
  do 3 eexists. split; [reflexivity|]. split; [reflexivity|]. split; [reflexivity|].
  pose proof (wmom1_spec x w None true true) as S. unfold mom_spec in *. cbn [m_mean m_err2 m_var].
  destruct (m_var (wmom1 x w None true true)) as [v|] eqn:EV; [exact S|].
  destruct S as [_ [_ S]]; discriminate.
Qed.

Lemma get_stats_1d_plain x :
  exists g, get_stats (V1 x) None None None = Ok g
    /\ exists m e2 v, g_mean g = S0 m /\ g_err2 g = S0 e2 /\ g_var g = S0 v
       /\ m == Sum x / qlen x
       /\ v == Sum (map (fun y => (y - Sum x / qlen x) * (y - Sum x / qlen x)) x) / qlen x
       /\ e2 == v / qlen x.
Proof.
  unfold get_stats. simpl atleast_1d. cbv iota. eexists; split; [reflexivity|]. cbn [g_mean g_err2 g_var].
  unfold plain_stats.
  pose proof (sc_stats_def false (index_from 0%Z x x)) as D. unfold stat_def in D.
  rewrite (index_from_x 0%Z x x eq_refl) in D.
  assert (EL : qlen (index_from 0%Z x x) = qlen x).
  { unfold qlen. rewrite <- (map_length p_x), (index_from_x 0%Z x x eq_refl). reflexivity. }
  rewrite EL in D. destruct D as [Dm [De Dv]].
  do 3 eexists. split; [reflexivity|]. split; [reflexivity|]. split; [reflexivity|].
  split; [exact Dm|]. split; [exact Dv|]. rewrite De, Dv. reflexivity.
Qed.

Lemma gs_col_check_sound x w clip mn mx mean std err idx :
  gs_col_check x w clip mn mx mean std err idx = true -> gs_col_ok x w clip mn mx mean std err idx.
Proof.
  unfold gs_col_check, gs_col_ok. intro H.
  apply andb_true_iff in H as [H H3]. apply andb_true_iff in H as [H1 H2].
  split; [apply is_min_b_sound, H1|]. split; [apply is_max_b_sound, H2|].
  destruct clip as [[nsig niter]|].
  - apply andb_true_iff in H3 as [Hn H3]. apply Qle_bool_iff in Hn. split; [exact Hn|].
    apply sigma_clip_check_sound; assumption.
  - destruct w as [w|].
    + apply wmom1_check_sound, H3.
    + apply sigma_clip_check_sound; [lra|exact H3].
Qed.

(* C18 — the boolean checkers of Spec.v with the rounding constant as a parameter.

   Spec.v fixes eps9 = 1e-9, which is right when the routine computes in binary64.  When a caller
   passes float32 arrays, some routines compute in float32 (numpy keeps the input precision:
   arr.mean()/arr.std() of a float32 array, float32 - python float, float32 scalar arithmetic in
   cov2cor / cor2cov / interplin); their results are right up to float32 rounding only.  The
   correspondence run then evaluates the SAME checker text at eps_f4 (Exec.v_*_e).  At eps9 every
   definition below is, by reflexivity, the verified checker of Spec.v (TolProofs.v). *)
From Coq Require Import QArith Qabs.
From EsVerif.Common Require Import Base.
From EsVerif.C18 Require Import Model Spec.
Open Scope Q_scope.

(* 64 units in the last place of binary32 (2^-24 * 64 = 2^-18 ~ 3.8e-6) *)
Definition eps_f4 : Q := 1 # 262144.

Definition mom_close_e (eps : Q) (r : mom) (A : Q) (im : option Q) (calcerr : bool) (mean err : Q) (sdev : option Q) : bool :=
  match im with None => close_lin_b mean (m_mean r) (eps * A) | Some m => Qeq_bool mean m end
  && (if calcerr then close_sqrt_b err (m_err2 r) (eps * (err + A)) else close_sqrt_b err (m_err2 r) (eps * err))
  && match sdev, m_var r with
     | None, _ => true
     | Some s, Some v => close_sqrt_b s v (eps * (s + A))
     | Some _, None => false
     end.

Definition wmom_check_e (eps : Q) (arr wts : nd) (im : imean) (ce sd : bool) (om oe : nd) (os : option nd) : bool :=
  match wmom arr wts im ce sd with
  | Err _ => false
  | Ok o =>
      nd_shape_eqb (o_mean o) om && nd_shape_eqb (o_err2 o) oe
      && match o_var o, os with Some a, Some b => nd_shape_eqb a b | None, None => true | _, _ => false end
      && forallb (fun j => let x := data_col arr j in let w := wcol_of wts j in let imj := im_col im j in
                           mom_close_e eps (out_col o j) (absmean_q w x + im_abs imj) imj ce
                                       (nd_get om j) (nd_get oe j) (opt_get os j))
                 (seq 0 (data_ncols arr))
  end.

Definition sigma_clip_check_e (eps : Q) (weighted : bool) (nsig : Q) (niter : nat) (all : list pt)
           (mean sdev err : Q) (idx : list Z) : bool :=
  let '(sub, st) := sc_loop niter weighted nsig all (sc_stats weighted all) in
  let A := sc_scale_q weighted sub in
  zlist_eqb (map p_idx sub) idx
  && close_lin_b mean (c_mean st) (eps * A)
  && close_sqrt_b sdev (c_var st) (eps * (sdev + A))
  && close_sqrt_b err (c_err2 st) (eps * (err + A)).

Definition interp_check_e (eps : Q) (v x : list Q) (u y : Q) : bool :=
  incr_b x && Nat.leb 2 (length x) && Nat.eqb (length v) (length x)
  && close_lin_b y (interp1 v x u) (eps * interp_scale v x u).

Definition cor_close_b_e (eps : Q) (c num den2 : Q) : bool :=
  (if Qle_bool 0 num then Qle_bool 0 c else true) && (if Qle_bool num 0 then Qle_bool c 0 else true)
  && close_sqrt_b (Qabs c) (num * num / den2) (eps * Qabs c).

Definition cov2cor_check_e (eps : Q) (cov cor : list (list Q)) : bool :=
  forallb (fun ij => cor_close_b_e eps (mget cor (fst ij) (snd ij)) (mget cov (fst ij) (snd ij))
                                   (mget cov (fst ij) (fst ij) * mget cov (snd ij) (snd ij))) (idx2 (length cov)).

Definition rel_close_b_e (eps : Q) (y v : Q) : bool := Qle_bool (Qabs (y - v)) (eps * Qabs v).
Definition mat_close_b_e (eps : Q) (n : nat) (a b : list (list Q)) : bool :=
  forallb (fun ij => rel_close_b_e eps (mget a (fst ij) (snd ij)) (mget b (fst ij) (snd ij))) (idx2 n).

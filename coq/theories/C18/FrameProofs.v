(* C18 — frame conditions, independence of call history, contracts of the re-implemented numpy
   primitives, rejections, and completeness of the weighted-median checker. *)
From Coq Require Import QArith Qabs Lqa Lia Sorted.
From EsVerif.Common Require Import Base.
From EsVerif.C18 Require Import Model Spec QLemmas MomProofs MedianProofs ClipProofs InterpProofs CorProofs ModelKw.
Open Scope Q_scope.

(* ------------------------------------------------------------------ call history *)
(* one call of one of the eight routines, and what it returns *)
Inductive call :=
| CWmom (arr wts : nd) (im : imean) (calcerr sdev : bool)
| CWmedian (x w : list Q)
| CSigmaClip (arr : nd) (weights : option nd) (niter : Z) (nsig : Q)
| CInterplin (v x u : list Q)
| CGetStats (arr : nd) (weights : option nd) (nsig : option Q) (niter : option Z) (calcerr : option bool)
| CCov2cor (cov : list (list Q))
| CCor2cov (cor : list (list Q)) (d : list Q)
| CBoxcar (x : list Q) (N : Z).

Inductive outcome :=
| OWmom (r : result wmom_out) | OWmedian (r : result Q) | OSigmaClip (r : result sc_out)
| OInterplin (r : result (list Q)) | OGetStats (r : result gstats)
| OCov2cor (r : result (list (list (Q * Q)))) | OCor2cov (r : result (list (list Q))) | OBoxcar (r : result (list Q)).

Definition run (c : call) : outcome :=
  match c with
  | CWmom a w im ce sd => OWmom (wmom a w im ce sd)
  | CWmedian x w => OWmedian (wmedian x w)
  | CSigmaClip a w ni ns => OSigmaClip (sigma_clip a w ni ns)
  | CInterplin v x u => OInterplin (interplin v x u)
  | CGetStats a w ns ni ce => OGetStats (get_stats_kw a w ns ni ce)
  | CCov2cor c => OCov2cor (cov2cor c)
  | CCor2cov c d => OCor2cov (cor2cov c d)
  | CBoxcar x N => OBoxcar (boxcar_average x N)
  end.

(* a process: the state is everything a cache could have kept — all earlier calls *)
Definition step (st : list call) (c : call) : list call * outcome := (c :: st, run c).
Fixpoint run_seq (st : list call) (cs : list call) : list outcome :=
  match cs with
  | [] => []
  | c :: t => let '(st', o) := step st c in o :: run_seq st' t
  end.

Lemma history_independent : forall cs st k c,
  nth_error cs k = Some c -> nth_error (run_seq st cs) k = Some (run c).
Proof.
  induction cs as [|a t IH]; intros st k c H; [destruct k; discriminate|].
  destruct k as [|k]; simpl in *.
  - inversion H; subst. reflexivity.
  - apply IH. exact H.
Qed.

(* ------------------------------------------------------------------ frames *)
(* wmom on N-by-d data: column j of every returned value depends only on column j of the data, on
   the weights that act on column j and on the mean supplied for column j *)
Lemma wmom_column_frame rows rows' d wts wts' im im' ce sd j :
  rows <> [] -> ncols rows = d -> rect rows d = true -> weights_fit rows d wts -> im_fits d im ->
  rows' <> [] -> ncols rows' = d -> rect rows' d = true -> weights_fit rows' d wts' -> im_fits d im' ->
  (j < d)%nat ->
  col j rows = col j rows' -> wcol_of wts j = wcol_of wts' j -> im_col im j = im_col im' j ->
  exists o o', wmom (M2 rows) wts im ce sd = Ok o /\ wmom (M2 rows') wts' im' ce sd = Ok o'
               /\ out_col o j = out_col o' j.
Proof.
  intros N1 D1 R1 W1 I1 N2 D2 R2 W2 I2 Hj Ec Ew Ei.
  destruct (wmom_Nd rows d wts im ce sd N1 D1 R1 W1 I1) as [o [E1 H1]].
  destruct (wmom_Nd rows' d wts' im' ce sd N2 D2 R2 W2 I2) as [o' [E2 H2]].
  exists o, o'. split; [exact E1|]. split; [exact E2|].
  rewrite (H1 j Hj), (H2 j Hj), Ec, Ew, Ei. reflexivity.
Qed.

(* interplin: one output per query, each a function of its own query only *)
Lemma interplin_pointwise v x u o :
  (2 <= length x)%nat -> (length x <= length v)%nat -> interplin v x u = Ok o ->
  length o = length u /\ forall k, (k < length u)%nat -> nth k o 0 = interp1 v x (nth k u 0).
Proof.
  intros H1 H2 E. rewrite (interplin_total v x u H1 H2) in E. inversion E; subst o.
  split; [apply map_length|]. intros k Hk.
  rewrite (nth_indep _ 0 (interp1 v x 0)) by (rewrite map_length; exact Hk). apply map_nth.
Qed.

(* ------------------------------------------------------------------ searchsorted *)
(* numpy's contract for a.searchsorted(v) (side='left') on a sorted table:
   a[i-1] < v <= a[i].  The model's count of smaller elements satisfies it. *)
Lemma filter_lt_nil t a u :
  (forall y, In y t -> a < y) -> u <= a -> filter (fun xi => Qlt_bool xi u) t = [].
Proof.
  induction t as [|b t IH]; simpl; intros H Hu; [reflexivity|].
  assert (a < b) by (apply H; left; reflexivity).
  assert (F : Qlt_bool b u = false) by (apply Qlt_bool_false; lra). rewrite F.
  apply IH; [intros; apply H; right; assumption|exact Hu].
Qed.

Lemma searchsorted_contract x u :
  incr x ->
  let k := cnt x u in
  (k <= length x)%nat
  /\ (forall i, (i < k)%nat -> nth i x 0 < u)
  /\ (forall i, (k <= i)%nat -> (i < length x)%nat -> u <= nth i x 0).
Proof.
  unfold cnt. induction x as [|a t IH]; intro Hi.
  - simpl. split; [lia|]. split; intros; exfalso; simpl in *; lia.
  - pose proof (incr_tail a t Hi) as Ht. specialize (IH Ht). cbv zeta in IH. destruct IH as [L [Lt Ge]].
    cbv zeta. cbn [filter]. destruct (Qlt_bool a u) eqn:E.
    + cbn [length]. split; [lia|]. split.
      * intros [|i] H; [apply Qlt_bool_iff, E|cbn [nth]; apply Lt; lia].
      * intros [|i] H1 H2; [lia|cbn [nth]; apply Ge; lia].
    + apply Qlt_bool_false in E.
      assert (Z : filter (fun xi => Qlt_bool xi u) t = [])
        by (apply (filter_lt_nil t a u); [apply (incr_head t a Hi)|exact E]).
      rewrite Z. cbn [length]. split; [lia|]. split; [intros i H; lia|].
      intros [|i] _ H2; [exact E|]. cbn [nth]. cbn [length] in H2.
      assert (a < nth i t 0) by (apply (incr_head t a Hi); apply nth_In; lia). lra.
Qed.

(* ------------------------------------------------------------------ wmedian checker: complete *)
Lemma wmedian_check_complete l v : wmedian_ok l v -> wmedian_check l v = true.
Proof.
  intros [[p [Ip Ep]] [H2 H3]]. unfold wmedian_check.
  assert (Eh : qsum (map snd l) / 2 == totw l / 2) by (rewrite qsum_Sum; reflexivity).
  apply andb_true_iff. split; [apply andb_true_iff; split|].
  - apply existsb_exists. exists p. split; [exact Ip|apply Qeq_bool_iff, Ep].
  - apply Qle_bool_iff. rewrite cumw_q_ok, Eh. exact H2.
  - apply forallb_forall. intros q Iq. destruct (Qlt_bool (fst q) v) eqn:E; [|reflexivity].
    apply Qlt_bool_iff in E. apply Qlt_bool_iff. rewrite cumw_q_ok, Eh. apply H3; assumption.
Qed.

Lemma wmedian_check_iff l v : wmedian_check l v = true <-> wmedian_ok l v.
Proof. split; [apply wmedian_check_sound|apply wmedian_check_complete]. Qed.

(* ------------------------------------------------------------------ rejections *)
(* which calls are refused, and with which error class *)
Lemma sigma_clip_rejects_2d rows w niter nsig : sigma_clip (M2 rows) w niter nsig = Err EValue.
Proof. reflexivity. Qed.

Lemma sigma_clip_rejects_size x w niter nsig :
  length w <> length x -> sigma_clip (V1 x) (Some (V1 w)) niter nsig = Err EValue.
Proof.
  intro H. unfold sigma_clip. cbn [atleast_1d].
  destruct (Nat.eqb (length w) (length x)) eqn:E; [apply Nat.eqb_eq in E; contradiction|reflexivity].
Qed.

Lemma cor2cov_rejects_size cor d :
  rect cor (length cor) = true -> length d <> length cor -> cor2cov cor d = Err EValue.
Proof.
  intros R H. unfold cor2cov.
  assert (NC : ncols cor = length cor \/ cor = []).
  { destruct cor as [|r t]; [right; reflexivity|left]. simpl in R. apply andb_true_iff in R as [R _].
    apply Nat.eqb_eq in R. exact R. }
  destruct NC as [NC|NC].
  - rewrite NC, R, Nat.eqb_refl. cbn [negb].
    destruct (Nat.eqb (length cor) (length d)) eqn:E; [apply Nat.eqb_eq in E; congruence|reflexivity].
  - subst cor. simpl in *. destruct d; [contradiction|reflexivity].
Qed.

Lemma wmom_rejects_weights_Nd rows w im ce sd :
  rect rows (ncols rows) = true -> length w <> length rows -> wmom (M2 rows) (V1 w) im ce sd = Err EValue.
Proof.
  intros R H. unfold wmom. cbn [atleast_1d]. rewrite R. cbn [negb].
  destruct (Nat.eqb (length w) (length rows)) eqn:E; [apply Nat.eqb_eq in E; contradiction|reflexivity].
Qed.

(* ------------------------------------------------------------------ sigma_clip: the reported indices *)
(* the subset consists of input points, untouched, in their original order: the indices are strictly
   increasing positions of the input, and each reported point carries the input's value and weight *)
Lemma index_from_In i x w p :
  In p (index_from i x w) ->
  (i <= p_idx p < i + Z.of_nat (length x))%Z
  /\ p_x p = nth (Z.to_nat (p_idx p - i)) x 0 /\ p_w p = nth (Z.to_nat (p_idx p - i)) w 0.
Proof.
  revert i w; induction x as [|a x IH]; intros i [|b w] H; simpl in H; try contradiction.
  destruct H as [H|H].
  - subst p. unfold p_idx, p_x, p_w. cbn [fst snd length]. rewrite Z.sub_diag. simpl. repeat split; lia.
  - apply IH in H. destruct H as [R [Hx Hw]]. cbn [length]. split; [lia|].
    replace (Z.to_nat (p_idx p - i)) with (S (Z.to_nat (p_idx p - (i + 1)))) by lia.
    cbn [nth]. split; assumption.
Qed.

Lemma index_from_sorted i x w : StronglySorted Z.lt (map p_idx (index_from i x w)).
Proof.
  revert i w; induction x as [|a x IH]; intros i [|b w]; simpl; try constructor.
  - apply IH.
  - apply Forall_forall. intros j Hj. apply in_map_iff in Hj. destruct Hj as [p [E Hp]]. subst j.
    apply index_from_In in Hp. destruct Hp as [Hp _]. unfold p_idx in *. cbn [fst] in *. lia.
Qed.

Lemma sorted_filter_idx (f : pt -> bool) l :
  StronglySorted Z.lt (map p_idx l) -> StronglySorted Z.lt (map p_idx (filter f l)).
Proof.
  induction l as [|a l IH]; simpl; intro H; [constructor|].
  inversion H as [|? ? Hs Hf]; subst. destruct (f a); simpl; [|apply IH, Hs].
  constructor; [apply IH, Hs|]. apply Forall_forall. intros j Hj. rewrite Forall_forall in Hf. apply Hf.
  apply in_map_iff in Hj. destruct Hj as [p [E Hp]]. apply in_map_iff. exists p. split; [exact E|].
  apply filter_In in Hp. tauto.
Qed.

Lemma iterate_sorted weighted nsig k : forall cur,
  StronglySorted Z.lt (map p_idx cur) -> StronglySorted Z.lt (map p_idx (iterate (clip_step weighted nsig) k cur)).
Proof.
  induction k as [|k IH]; intros cur H; [exact H|].
  rewrite iterate_S. apply IH. unfold clip_step. destruct (stat_def weighted cur) as [[m e] v].
  apply sorted_filter_idx, H.
Qed.

Lemma sigma_clip_indices_frame x weights niter nsig :
  0 <= nsig -> length (sc_weights x weights) = length x ->
  exists r sub,
    sigma_clip (V1 x) (match weights with Some w => Some (V1 w) | None => None end) niter nsig = Ok r
    /\ sc_idx r = map p_idx sub
    /\ StronglySorted Z.lt (sc_idx r)
    /\ forall p, In p sub ->
         (0 <= p_idx p < Z.of_nat (length x))%Z
         /\ p_x p = nth (Z.to_nat (p_idx p)) x 0
         /\ p_w p = nth (Z.to_nat (p_idx p)) (sc_weights x weights) 0.
Proof.
  intros Hn L. destruct (sigma_clip_spec x weights niter nsig Hn L) as [r [sub [E [Hi [Hin [Hf _]]]]]].
  exists r, sub. split; [exact E|]. split; [exact Hi|]. split.
  - rewrite Hi. destruct Hf as [k [_ [Ek _]]]. rewrite Ek. apply iterate_sorted, index_from_sorted.
  - intros p Hp. apply Hin in Hp. apply index_from_In in Hp. rewrite Z.sub_0_r in Hp. simpl in Hp. exact Hp.
Qed.

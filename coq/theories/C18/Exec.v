(* C18 — glue evaluated by the generated case files.
   verdict: 0 = model agrees with the implementation and the verified checker accepts the
   implementation's output; +1 model <> implementation; +2 checker rejects;
   -1 = BORDERLINE-SKIPPED: a discrete outcome of the implementation (a clip decision, a
   weighted-median step) is closer to its threshold than the rounding tolerance, so that the
   float code may legitimately decide either way; such cases are counted, not compared.
   All comparisons happen here, on exact rationals. *)
From Coq Require Import QArith Qabs.
From EsVerif.Common Require Import Base.
From EsVerif.C18 Require Import Model Spec SpecStrict.
Open Scope Q_scope.

Definition skip : Z := (-1)%Z.

Definition vres {A B} (m : result A) (o : result B) (f : A -> B -> Z) : Z :=
  match m, o with
  | Ok a, Ok b => f a b
  | Err e, Err e' => verdict (err_eqb e e') true   (* both reject: classes must coincide *)
  | Ok _, Err _ => 3%Z                              (* a value is required, none was produced *)
  | Err _, Ok _ => 1%Z                              (* outside the property's domain, model differs *)
  end.

(* ---------------------------------------------------------------- wmom *)
Definition v_wmom (arr wts : nd) (im : imean) (ce sd : bool) (out : result (nd * nd * option nd)) : Z :=
  match out with
  | Ok (om, oe, os) =>
      match wmom arr wts im ce sd with
      | Ok _ => let c := wmom_check arr wts im ce sd om oe os in verdict c c
      | Err _ => 1%Z
      end
  | Err e' => match wmom arr wts im ce sd with
              | Ok _ => 3%Z
              | Err e => verdict (err_eqb e e') true
              end
  end.

(* ---------------------------------------------------------------- wmedian *)
(* numbers for which binary64 sums are exact: integers of small magnitude *)
Definition is_intq (q : Q) : bool := (Qnum q mod Zpos (Qden q) =? 0)%Z.
Definition intval (q : Q) : Z := (Qnum q / Zpos (Qden q))%Z.
Definition small_int (bound : Z) (q : Q) : bool := is_intq q && (Z.abs (intval q) <=? bound)%Z.

(* weights k/2^j with j <= 10, |k| <= 2^20, at most 2^20 of them: every partial sum, the total
   and its half are representable, the float loop takes exactly the exact decisions *)
Definition short_dyadic (q : Q) : bool :=
  let r := Qred q in
  existsb (Pos.eqb (Qden r)) [1; 2; 4; 8; 16; 32; 64; 128; 256; 512; 1024]%positive
  && (Z.abs (Qnum r) <=? 2 ^ 20)%Z.

Definition wm_borderline (l : list (Q * Q)) : bool :=
  let ws := map snd l in
  let h := qsum ws / 2 in
  let tol := eps9 * qsum (map Qabs ws) in
  if forallb short_dyadic ws && (Z.of_nat (length l) <=? 2 ^ 20)%Z then false   (* float arithmetic exact *)
  else existsb (fun p => Qle_bool (Qabs (cumw_q l (fst p) - h)) tol) l.

Definition v_wmedian (x w : list Q) (out : result Q) : Z :=
  let l := combine x w in
  if Nat.eqb (length x) (length w) && wm_borderline l then skip else
  vres (wmedian x w) out (fun m o => verdict (Qeq_bool m o) (wmedian_check l o)).

(* ---------------------------------------------------------------- sigma_clip *)
Definition maxabs (cur : list pt) : Q := fold_left (fun a p => qmax a (Qabs (p_x p))) cur 0.

(* | |x-m| - nsig*s | <= tau, on squares;  tau = eps9 * (2|x-m| + (1+nsig) * max|x|) *)
Definition near (nsig : Q) (st : cstat) (A : Q) : pt -> bool :=
  let T := Qred (sq nsig * c_var st) in
  let m := c_mean st in
  let c := eps9 * ((1 + nsig) * A) in
  fun p => let a := Qabs (p_x p - m) in
           let tau := eps9 * (2 * a) + c in
           (Qle_bool a tau || Qle_bool (sq (a - tau)) T) && Qle_bool T (sq (a + tau)).

(* Rounds in which EVERY float operation is exact, so that the float decision is the exact
   decision even at a tie: integer data |x| <= 2^10 and integer weights in [0, 2^10], at most
   1024 points; the (exact) mean a dyadic number with denominator <= 16, the variance the square
   of a dyadic number (so sum/n, x-m, squares, their sum, the quotient and the square root are
   all representable: every intermediate has < 53 bits), nsig a short dyadic number. *)
Definition dyadic_small (dens : list positive) (bound : Z) (q : Q) : bool :=
  let r := Qred q in existsb (Pos.eqb (Qden r)) dens && (Z.abs (Qnum r) <=? bound)%Z.
Definition square_dyadic (q : Q) : bool :=
  let r := Qred q in
  existsb (Pos.eqb (Qden r)) [1; 4; 16; 64; 256]%positive && (0 <=? Qnum r)%Z && (Qnum r <=? 2 ^ 40)%Z
  && (Z.sqrt (Qnum r) * Z.sqrt (Qnum r) =? Qnum r)%Z.
Definition exact_data (all : list pt) : bool :=
  forallb (fun p => small_int (2 ^ 10) (p_x p) && small_int (2 ^ 10) (p_w p) && Qle_bool 0 (p_w p)) all
  && (Z.of_nat (length all) <=? 1024)%Z.
Definition exact_round (ed : bool) (nsig : Q) (st : cstat) : bool :=
  ed && dyadic_small [1; 2; 4; 8; 16; 32; 64; 128; 256; 512; 1024]%positive (2 ^ 14) nsig
  && dyadic_small [1; 2; 4; 8; 16]%positive (2 ^ 15) (c_mean st) && square_dyadic (c_var st).

(* A round is risky when some point is within tau of the threshold, unless the round is exact or
   the subset has a single point (kept or not, the loop stops with the same subset). *)
Fixpoint sc_border (fuel : nat) (ed weighted : bool) (nsig : Q) (cur : list pt) (st : cstat) : bool :=
  match fuel with
  | O => false
  | S f =>
      if (if exact_round ed nsig st || Nat.leb (length cur) 1 then false
          else existsb (near nsig st (maxabs cur)) cur) then true else
      let kept := filter (within nsig st) cur in
      match kept with
      | [] => false
      | _ => if Nat.eqb (length kept) (length cur) then false
             else sc_border f ed weighted nsig kept (sc_stats weighted kept)
      end
  end.

Definition sc_borderline (x : list Q) (w : option (list Q)) (niter : nat) (nsig : Q) : bool :=
  let all := index_from 0%Z x (sc_weights x w) in
  let wtd := sc_weighted w in
  sc_border niter (exact_data all) wtd nsig all (sc_stats wtd all).

Definition opt_v1 (w : option (list Q)) : option nd := match w with Some l => Some (V1 l) | None => None end.

(* out = (mean, std, err, indices) from sigma_clip(..., get_err=True, get_indices=True) *)
Definition v_sigma_clip (x : list Q) (w : option (list Q)) (niter : Z) (nsig : Q)
           (out : result (Q * Q * Q * list Z)) : Z :=
  let wf := Nat.eqb (length (sc_weights x w)) (length x) && negb (Nat.eqb (length x) 0) && Qle_bool 0 nsig in
  if wf && sc_borderline x w (Z.to_nat niter) nsig then skip else
  match out with
  | Ok (m, s, e, idx) =>
      if wf then
        (* c: the implementation's output is what the code-faithful model computes (Spec.sigma_clip_check:
           three stop rules).  The checker of the clause AS STATED is SpecStrict.sigma_clip_strict_check
           = c && negb kf (definitionally); a case it rejects only because the code took its
           "everything clipped" exit gets the distinguished verdict 12 = 0 (model agrees) + 2 (checker
           rejects) + 10 (class C18.kf_everything_clipped). *)
        let all := index_from 0%Z x (sc_weights x w) in
        let c := sigma_clip_check (sc_weighted w) nsig (Z.to_nat niter) all m s e idx in
        if c then (if kf_everything_clipped (sc_weighted w) nsig (Z.to_nat niter) all then 12%Z else 0%Z)
        else 3%Z
      else match sigma_clip (V1 x) (opt_v1 w) niter nsig with Ok _ => 1%Z | Err _ => 1%Z end
  | Err e' =>
      match sigma_clip (V1 x) (opt_v1 w) niter nsig with
      | Ok _ => 3%Z
      | Err e => verdict (err_eqb e e') true
      end
  end.

(* ---------------------------------------------------------------- interplin *)
Fixpoint forallb2 {A B} (f : A -> B -> bool) (a : list A) (b : list B) : bool :=
  match a, b with
  | [], [] => true
  | x :: s, y :: t => f x y && forallb2 f s t
  | _, _ => false
  end.

Definition v_interplin (v x u : list Q) (out : result (list Q)) : Z :=
  vres (interplin v x u) out
       (fun _ o => if incr_b x && Nat.eqb (length v) (length x)
                   then let c := forallb2 (fun ui yi => interp_check v x ui yi) u o in verdict c c
                   else 0%Z   (* not a strictly increasing table: outside the property *)).

(* ---------------------------------------------------------------- get_stats *)
(* out = (min, max, mean, std, err, indices-or-[]) *)
Definition gs_clip (nsig : option Q) (niter : option Z) : option (Q * nat) :=
  match nsig, niter with
  | None, None => None
  | _, _ => Some (match nsig with Some s => s | None => 4 end,
                  Z.to_nat (match niter with Some k => k | None => 4%Z end))
  end.

Definition v_get_stats (arr : nd) (w : option nd) (nsig : option Q) (niter : option Z)
           (out : result (nd * nd * nd * nd * nd * list Z)) : Z :=
  let clip := gs_clip nsig niter in
  match out with
  | Err e' => match get_stats arr w nsig niter with Ok _ => 3%Z | Err e => verdict (err_eqb e e') true end
  | Ok (mn, mx, mean, std, err, idx) =>
      match get_stats arr w nsig niter with
      | Err _ => 1%Z
      | Ok g =>
          let shapes := nd_shape_eqb (g_min g) mn && nd_shape_eqb (g_max g) mx && nd_shape_eqb (g_mean g) mean
                        && nd_shape_eqb (g_var g) std && nd_shape_eqb (g_err2 g) err in
          let d := data_ncols (atleast_1d arr) in
          let wl := fun j => match w with Some wn => Some (wcol_of (atleast_1d wn) j) | None => None end in
          if match clip with
             | Some (ns, ni) => existsb (fun j => sc_borderline (data_col (atleast_1d arr) j) (wl j) ni ns) (seq 0 d)
             | None => false
             end
          then skip
          else let c := shapes && forallb (fun j => gs_col_check (data_col (atleast_1d arr) j) (wl j) clip
                                                     (nd_get mn j) (nd_get mx j) (nd_get mean j) (nd_get std j)
                                                     (nd_get err j) idx) (seq 0 d) in
               verdict c c
      end
  end.

(* ---------------------------------------------------------------- cov2cor / cor2cov / round trip *)
Definition mat_shape_ok (n : nat) (m : list (list Q)) : bool := Nat.eqb (length m) n && rect m n.

Definition v_cov2cor (cov : list (list Q)) (out : result (list (list Q))) : Z :=
  vres (cov2cor cov) out
       (fun m o =>
          let n := length cov in
          let agree := mat_shape_ok n o
                       && forallb (fun ij => let '(num, den2) := nth (snd ij) (nth (fst ij) m []) (0, 0) in
                                             cor_close_b (mget o (fst ij) (snd ij)) num den2) (idx2 n) in
          verdict agree (mat_shape_ok n o && cov2cor_check cov o)).

Definition v_cor2cov (cor : list (list Q)) (d : list Q) (out : result (list (list Q))) : Z :=
  vres (cor2cov cor d) out
       (fun m o => let n := length cor in
                   let c := mat_shape_ok n o && mat_close_b n o m in verdict c c).

(* cov2 = cor2cov(cov2cor(cov), sqrt(diag(cov))) computed by the real code: must reproduce cov *)
Definition v_roundtrip (cov : list (list Q)) (out : result (list (list Q))) : Z :=
  match cov2cor cov, out with
  | Ok _, Ok o => let n := length cov in
                  let c := mat_shape_ok n o && mat_close_b n o cov in verdict c c
  | Ok _, Err _ => 3%Z
  | Err e, Err e' => verdict (err_eqb e e') true
  | Err _, Ok _ => 1%Z
  end.

(* ---------------------------------------------------------------- boxcar_average *)
Definition v_boxcar (x : list Q) (N : Z) (out : result (list Q)) : Z :=
  vres (boxcar_average x N) out
       (fun m o => let c := Nat.eqb (length o) (length m)
                            && forallb (fun k => close_lin_b (nth k o 0) (nth k m 0) (eps9 * boxcar_scale x N k))
                                       (seq 0 (length m)) in
                   verdict c c).

(* ================================================================ float32-precision variants *)
(* Same verdict functions with the rounding constant as a parameter (SpecTol.v); evaluated at
   eps_f4 for the calls in which the routine itself computes in float32 because the caller passed
   float32 arrays.  No exactness exemption for ties (float32 arithmetic on small integers is not
   exact in general): every clip decision within the tolerance of its threshold is skipped. *)
From EsVerif.C18 Require Import SpecTol.

Definition v_wmom_e (eps : Q) (arr wts : nd) (im : imean) (ce sd : bool) (out : result (nd * nd * option nd)) : Z :=
  match out with
  | Ok (om, oe, os) =>
      match wmom arr wts im ce sd with
      | Ok _ => let c := wmom_check_e eps arr wts im ce sd om oe os in verdict c c
      | Err _ => 1%Z
      end
  | Err e' => match wmom arr wts im ce sd with
              | Ok _ => 3%Z
              | Err e => verdict (err_eqb e e') true
              end
  end.

Definition near_e (eps : Q) (nsig : Q) (st : cstat) (A : Q) : pt -> bool :=
  let T := Qred (sq nsig * c_var st) in
  let m := c_mean st in
  let c := eps * ((1 + nsig) * A) in
  fun p => let a := Qabs (p_x p - m) in
           let tau := eps * (2 * a) + c in
           (Qle_bool a tau || Qle_bool (sq (a - tau)) T) && Qle_bool T (sq (a + tau)).

Fixpoint sc_border_e (eps : Q) (fuel : nat) (weighted : bool) (nsig : Q) (cur : list pt) (st : cstat) : bool :=
  match fuel with
  | O => false
  | S f =>
      if (if Nat.leb (length cur) 1 then false else existsb (near_e eps nsig st (maxabs cur)) cur) then true else
      let kept := filter (within nsig st) cur in
      match kept with
      | [] => false
      | _ => if Nat.eqb (length kept) (length cur) then false
             else sc_border_e eps f weighted nsig kept (sc_stats weighted kept)
      end
  end.

Definition v_sigma_clip_e (eps : Q) (x : list Q) (w : option (list Q)) (niter : Z) (nsig : Q)
           (out : result (Q * Q * Q * list Z)) : Z :=
  let wf := Nat.eqb (length (sc_weights x w)) (length x) && negb (Nat.eqb (length x) 0) && Qle_bool 0 nsig in
  let all := index_from 0%Z x (sc_weights x w) in
  let wtd := sc_weighted w in
  if wf && sc_border_e eps (Z.to_nat niter) wtd nsig all (sc_stats wtd all) then skip else
  match out with
  | Ok (m, s, e, idx) =>
      if wf then
        let c := sigma_clip_check_e eps wtd nsig (Z.to_nat niter) all m s e idx in
        if c then (if kf_everything_clipped wtd nsig (Z.to_nat niter) all then 12%Z else 0%Z) else 3%Z
      else 1%Z
  | Err e' =>
      match sigma_clip (V1 x) (opt_v1 w) niter nsig with
      | Ok _ => 3%Z
      | Err e => verdict (err_eqb e e') true
      end
  end.

Definition v_interplin_e (eps : Q) (v x u : list Q) (out : result (list Q)) : Z :=
  vres (interplin v x u) out
       (fun _ o => if incr_b x && Nat.eqb (length v) (length x)
                   then let c := forallb2 (fun ui yi => interp_check_e eps v x ui yi) u o in verdict c c
                   else 0%Z).

Definition v_cov2cor_e (eps : Q) (cov : list (list Q)) (out : result (list (list Q))) : Z :=
  vres (cov2cor cov) out
       (fun m o =>
          let n := length cov in
          let agree := mat_shape_ok n o
                       && forallb (fun ij => let '(num, den2) := nth (snd ij) (nth (fst ij) m []) (0, 0) in
                                             cor_close_b_e eps (mget o (fst ij) (snd ij)) num den2) (idx2 n) in
          verdict agree (mat_shape_ok n o && cov2cor_check_e eps cov o)).

Definition v_cor2cov_e (eps : Q) (cor : list (list Q)) (d : list Q) (out : result (list (list Q))) : Z :=
  vres (cor2cov cor d) out
       (fun m o => let n := length cor in
                   let c := mat_shape_ok n o && mat_close_b_e eps n o m in verdict c c).

Definition v_roundtrip_e (eps : Q) (cov : list (list Q)) (out : result (list (list Q))) : Z :=
  match cov2cor cov, out with
  | Ok _, Ok o => let n := length cov in
                  let c := mat_shape_ok n o && mat_close_b_e eps n o cov in verdict c c
  | Ok _, Err _ => 3%Z
  | Err e, Err e' => verdict (err_eqb e e') true
  | Err _, Ok _ => 1%Z
  end.

(* ================================================================ get_stats with calcerr= *)
From EsVerif.C18 Require Import ModelKw.

Definition v_get_stats_kw (arr : nd) (w : option nd) (nsig : option Q) (niter : option Z) (calcerr : option bool)
           (out : result (nd * nd * nd * nd * nd * list Z)) : Z :=
  let clip := gs_clip nsig niter in
  match out with
  | Err e' => match get_stats_kw arr w nsig niter calcerr with Ok _ => 3%Z | Err e => verdict (err_eqb e e') true end
  | Ok (mn, mx, mean, std, err, idx) =>
      match get_stats_kw arr w nsig niter calcerr with
      | Err _ => 1%Z
      | Ok g =>
          let shapes := nd_shape_eqb (g_min g) mn && nd_shape_eqb (g_max g) mx && nd_shape_eqb (g_mean g) mean
                        && nd_shape_eqb (g_var g) std && nd_shape_eqb (g_err2 g) err in
          let d := data_ncols (atleast_1d arr) in
          let wl := fun j => match w with Some wn => Some (wcol_of (atleast_1d wn) j) | None => None end in
          if match clip with
             | Some (ns, ni) => existsb (fun j => sc_borderline (data_col (atleast_1d arr) j) (wl j) ni ns) (seq 0 d)
             | None => false
             end
          then skip
          else let c := shapes && forallb (fun j => gs_col_check_kw (kw_calcerr calcerr) (data_col (atleast_1d arr) j) (wl j) clip
                                                     (nd_get mn j) (nd_get mx j) (nd_get mean j) (nd_get std j)
                                                     (nd_get err j) idx) (seq 0 d) in
               verdict c c
      end
  end.

(* ================================================================ undefined statistics *)
(* A subset with zero total weight has no weighted mean / deviation / error (UndefModel.v).  On such calls the
   real code returns nan (inf), which is not a failing input, and a finite number would be one.
   verdict -2 = UNDEFINED-STATISTICS: the implementation reported non-finite statistics exactly where the model
   says they do not exist (and, for sigma_clip, the index set of the subset on which they ceased to exist);
   counted, not compared.  The *_guard functions turn an ordinary verdict into 3 when the implementation returned
   finite numbers although the statistics do not exist. *)
From EsVerif.C18 Require Import UndefModel.

Definition undef : Z := (-2)%Z.

Definition sc_wf (x : list Q) (w : option (list Q)) (nsig : Q) : bool :=
  Nat.eqb (length (sc_weights x w)) (length x) && negb (Nat.eqb (length x) 0) && Qle_bool 0 nsig.

(* bord: the borderline test of the ordinary verdict (sc_borderline / sc_border_e) *)
Definition v_sigma_clip_undef (bord : bool) (x : list Q) (w : option (list Q)) (niter : Z) (nsig : Q) (idx : list Z) : Z :=
  if sc_wf x w nsig then
    if bord then skip else
    match sigma_clip_u x w (Z.to_nat niter) nsig with
    | ScUndef i => if zlist_eqb i idx then undef else 3%Z
    | ScOk _ => 3%Z
    end
  else 3%Z.

Definition sc_guard (x : list Q) (w : option (list Q)) (niter : Z) (nsig : Q) (k : Z) : Z :=
  if (k =? skip)%Z then k else
  if sc_wf x w nsig then
    match sigma_clip_u x w (Z.to_nat niter) nsig with ScUndef _ => 3%Z | ScOk _ => k end
  else k.

Fixpoint bools_eqb (a b : list bool) : bool :=
  match a, b with
  | [], [] => true
  | x :: s, y :: t => Bool.eqb x y && bools_eqb s t
  | _, _ => false
  end.

(* nf: for every column, whether some returned value of that column is not finite *)
Definition v_wmom_undef (arr wts : nd) (nf : list bool) : Z :=
  let u := wmom_undef_cols arr wts in
  if existsb (fun b => b) u && bools_eqb u nf then undef else 3%Z.
Definition wmom_guard (arr wts : nd) (k : Z) : Z :=
  if existsb (fun b => b) (wmom_undef_cols arr wts) then 3%Z else k.

Definition gs_undef_cols (arr : nd) (w : option nd) (nsig : option Q) (niter : option Z) : list bool :=
  let a := atleast_1d arr in
  map (fun j =>
         let wl := match w with Some wn => Some (wcol_of (atleast_1d wn) j) | None => None end in
         match gs_clip nsig niter with
         | Some (ns, ni) => match sigma_clip_u (data_col a j) wl ni ns with ScUndef _ => true | ScOk _ => false end
         | None => match wl with Some l => Qeq_bool (qsum l) 0 | None => false end
         end) (seq 0 (data_ncols a)).

Definition gs_borderline (arr : nd) (w : option nd) (nsig : option Q) (niter : option Z) : bool :=
  let a := atleast_1d arr in
  match gs_clip nsig niter with
  | Some (ns, ni) => existsb (fun j => sc_borderline (data_col a j)
                                         (match w with Some wn => Some (wcol_of (atleast_1d wn) j) | None => None end) ni ns)
                             (seq 0 (data_ncols a))
  | None => false
  end.

Definition v_get_stats_undef (arr : nd) (w : option nd) (nsig : option Q) (niter : option Z) (nf : list bool) (idx : list Z) : Z :=
  if gs_borderline arr w nsig niter then skip else
  let u := gs_undef_cols arr w nsig niter in
  let idx_ok := match gs_clip nsig niter, atleast_1d arr with
                | Some (ns, ni), V1 x =>
                    match sigma_clip_u x (match w with Some wn => Some (wcol_of (atleast_1d wn) 0) | None => None end) ni ns with
                    | ScUndef i => zlist_eqb i idx
                    | ScOk _ => false
                    end
                | _, _ => true
                end in
  if existsb (fun b => b) u && bools_eqb u nf && idx_ok then undef else 3%Z.
Definition gs_guard (arr : nd) (w : option nd) (nsig : option Q) (niter : option Z) (k : Z) : Z :=
  if (k =? skip)%Z then k else
  if existsb (fun b => b) (gs_undef_cols arr w nsig niter) then 3%Z else k.

(* ================================================================ large inputs given by a formula *)
(* inputs of more than 2^16 elements are not printed as literals: x_i = ((a*i + b) mod m) - off, i < n,
   built by the same formula in the harness *)
Definition mod_list (n : nat) (a b m off : Z) : list Q :=
  map (fun i => inject_Z ((a * Z.of_nat i + b) mod m - off)) (seq 0 n).

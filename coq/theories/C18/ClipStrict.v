(* C18 — sigma clipping against the clause as stated (two stop rules): holds outside the class
   kf_everything_clipped, fails inside it. *)
From Coq Require Import QArith Qabs Lqa Lia.
From EsVerif.Common Require Import Base.
From EsVerif.C18 Require Import Model Spec QLemmas MomProofs ClipProofs SpecStrict.
Open Scope Q_scope.

Lemma clip_step_nil weighted nsig : clip_step weighted nsig [] = [].
Proof. unfold clip_step. destruct (stat_def weighted []) as [[m e] v]. reflexivity. Qed.

Lemma iterate_nil weighted nsig k : iterate (clip_step weighted nsig) k [] = [].
Proof. induction k as [|k IH]; [reflexivity|]. rewrite iterate_S, clip_step_nil. exact IH. Qed.

Lemma sc_loop_strict weighted nsig :
  0 <= nsig ->
  forall fuel cur sub st,
    sc_loop fuel weighted nsig cur (sc_stats weighted cur) = (sub, st) ->
    sc_all_clipped fuel weighted nsig cur (sc_stats weighted cur) = false ->
    clip_fixpoint_strict weighted nsig fuel cur sub.
Proof.
  intro Hn. unfold clip_fixpoint_strict.
  induction fuel as [|f IH]; intros cur sub st H K; simpl in H, K.
  - inversion H; subst. exists O.
    split; [lia|]. split; [reflexivity|]. split; [intros j Hj; lia|]. left; reflexivity.
  - rewrite (within_step weighted nsig cur Hn) in H, K.
    destruct (clip_step weighted nsig cur) as [|p kept] eqn:EK.
    + inversion H; subst. destruct sub as [|q sub']; [|discriminate]. exists O.
      split; [lia|]. split; [reflexivity|]. split; [intros j Hj; lia|]. right. exact EK.
    + destruct (Nat.eqb (length (p :: kept)) (length cur)) eqn:EL.
      * inversion H; subst. exists O.
        split; [lia|]. split; [reflexivity|]. split; [intros j Hj; lia|]. right.
        apply Nat.eqb_eq in EL. simpl iterate.
        rewrite <- (within_step weighted nsig sub Hn). apply filter_length_eq.
        rewrite (within_step weighted nsig sub Hn), EK. exact EL.
      * specialize (IH _ _ _ H K). destruct IH as [k [Hk [Hsub [Hall Hstop]]]].
        exists (S k). split; [lia|]. split; [rewrite iterate_S, EK; exact Hsub|]. split.
        -- intros [|j] Hj.
           ++ simpl. rewrite EK. apply Nat.eqb_neq in EL. exact EL.
           ++ rewrite iterate_S, EK. apply Hall. lia.
        -- destruct Hstop as [Hs|Hs]; [left; lia|right; exact Hs].
Qed.

(* the routine, outside the known class *)
Lemma sc_finish_strict wtd nsig fuel all :
  0 <= nsig -> kf_everything_clipped wtd nsig fuel all = false ->
  exists r sub,
    (let '(sub, st) := sc_loop fuel wtd nsig all (sc_stats wtd all) in
     Ok {| sc_mean := c_mean st; sc_var := c_var st; sc_err2 := c_err2 st; sc_idx := map p_idx sub |}) = Ok r
    /\ sc_idx r = map p_idx sub
    /\ clip_fixpoint_strict wtd nsig fuel all sub
    /\ let '(m, e2, v) := stat_def wtd sub in
       sc_mean r == m /\ sc_err2 r == e2 /\ sc_var r == v.
Proof.
  intros Hn K.
  destruct (sc_loop fuel wtd nsig all (sc_stats wtd all)) as [sub st] eqn:EL.
  pose proof (sc_loop_strict wtd nsig Hn _ _ _ _ EL K) as Hfix.
  apply (sc_loop_spec wtd nsig Hn) in EL as [Hst _].
  exists {| sc_mean := c_mean st; sc_var := c_var st; sc_err2 := c_err2 st; sc_idx := map p_idx sub |}, sub.
  split; [reflexivity|]. split; [reflexivity|]. split; [exact Hfix|].
  subst st. pose proof (sc_stats_def wtd sub) as H.
  destruct (stat_def wtd sub) as [[m e2] v]. simpl. tauto.
Qed.

Lemma sigma_clip_strict_outside_known x weights niter nsig :
  0 <= nsig -> length (sc_weights x weights) = length x ->
  let all := index_from 0%Z x (sc_weights x weights) in
  let wtd := sc_weighted weights in
  kf_everything_clipped wtd nsig (Z.to_nat niter) all = false ->
  exists r sub,
    sigma_clip (V1 x) (match weights with Some w => Some (V1 w) | None => None end) niter nsig = Ok r
    /\ sc_idx r = map p_idx sub
    /\ clip_fixpoint_strict wtd nsig (Z.to_nat niter) all sub
    /\ let '(m, e2, v) := stat_def wtd sub in
       sc_mean r == m /\ sc_err2 r == e2 /\ sc_var r == v.
Proof.
  intros Hn L all wtd K. unfold sigma_clip. simpl atleast_1d. cbv iota.
  destruct weights as [w|]; simpl in L; subst all wtd; simpl sc_weights in *; simpl sc_weighted in *.
  - simpl atleast_1d. cbv iota. rewrite L, Nat.eqb_refl. cbn [bind]. apply sc_finish_strict; assumption.
  - cbn [bind]. apply sc_finish_strict; assumption.
Qed.

(* the stated clause fails on the smallest input of the class: two points, nsig = 1/2 *)
Lemma sigma_clip_strict_refuted :
  exists x niter nsig,
    0 <= nsig /\ x <> [] /\
    exists r, sigma_clip (V1 x) None niter nsig = Ok r
      /\ ~ exists sub, sc_idx r = map p_idx sub
             /\ clip_fixpoint_strict false nsig (Z.to_nat niter) (index_from 0%Z x (map (fun _ => 1) x)) sub.
Proof.
  exists [-1; 1], 4%Z, (1 # 2). split; [discriminate|]. split; [discriminate|].
  eexists. split; [vm_compute; reflexivity|].
  intros [sub [Hidx [k [Hk [Hsub [_ Hstop]]]]]]. cbn [sc_idx] in Hidx.
  set (all := index_from 0%Z [-1; 1] (map (fun _ : Q => 1) [-1; 1])) in *.
  assert (E : clip_step false (1 # 2) all = []) by (vm_compute; reflexivity).
  destruct k as [|k].
  - simpl in Hsub. subst sub. destruct Hstop as [Hs|Hs]; [discriminate|].
    rewrite E in Hs. discriminate.
  - rewrite iterate_S, E, iterate_nil in Hsub. subst sub. discriminate.
Qed.

(* the class is not empty and is exactly where the code stops early *)
Lemma kf_witness : kf_everything_clipped false (1 # 2) 4 (index_from 0%Z [-1; 1] [1; 1]) = true.
Proof. vm_compute. reflexivity. Qed.

(* checker of the stated clause *)
Lemma sigma_clip_strict_check_sound weighted nsig niter all mean sdev err idx :
  0 <= nsig ->
  sigma_clip_strict_check weighted nsig niter all mean sdev err idx = true ->
  sigma_clip_strict_ok weighted nsig niter all mean sdev err idx.
Proof.
  intros Hn H. unfold sigma_clip_strict_check in H. apply andb_true_iff in H as [H K].
  apply negb_true_iff in K. unfold kf_everything_clipped in K. unfold sigma_clip_check in H.
  destruct (sc_loop niter weighted nsig all (sc_stats weighted all)) as [sub st] eqn:EL.
  pose proof (sc_loop_strict weighted nsig Hn _ _ _ _ EL K) as Hfix.
  apply (sc_loop_spec weighted nsig Hn) in EL as [Hst _].
  apply andb_true_iff in H as [H H4]. apply andb_true_iff in H as [H H3]. apply andb_true_iff in H as [H1 H2].
  exists sub. split; [apply zlist_eqb_spec; exact H1|]. split; [exact Hfix|].
  subst st. pose proof (sc_stats_def weighted sub) as D.
  destruct (stat_def weighted sub) as [[m e2] v]. destruct D as [Dm [De Dv]].
  pose proof (sc_scale_q_ok weighted sub) as EA.
  apply close_lin_b_iff in H2. apply close_sqrt_b_iff in H3. apply close_sqrt_b_iff in H4.
  split; [|split].
  - eapply close_lin_compat; [exact Dm| |exact H2]. rewrite EA. reflexivity.
  - eapply close_sqrt_compat; [exact Dv| |exact H3]. rewrite EA. reflexivity.
  - eapply close_sqrt_compat; [exact De| |exact H4]. rewrite EA. reflexivity.
Qed.

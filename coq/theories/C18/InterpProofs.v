(* C18 — linear interpolation: inside the table the searchsorted-based code evaluates the chord of
   the bracketing segment (at nodes exactly the node value); outside it extends the first / last
   segment. *)
From Coq Require Import QArith Qabs Lqa Setoid Morphisms ZifyBool ZifyNat.
From EsVerif.Common Require Import Base.
From EsVerif.C18 Require Import Model Spec QLemmas.
Open Scope Q_scope.

Definition cnt (x : list Q) (u : Q) : nat := length (filter (fun xi => Qlt_bool xi u) x).

Lemma incr_tail a t : incr (a :: t) -> incr t.
Proof. simpl. tauto. Qed.

Lemma incr_head t : forall a, incr (a :: t) -> forall y, In y t -> a < y.
Proof.
  induction t as [|b t IH]; intros a H y Hy; [destruct Hy|].
  destruct H as [Hab Ht]. destruct Hy as [E|I]; [subst y; exact Hab|].
  specialize (IH b Ht y I). lra.
Qed.

Lemma incr_lt x : incr x -> forall i j, (i < j)%nat -> (j < length x)%nat -> nth i x 0 < nth j x 0.
Proof.
  induction x as [|a t IH]; intros H i j Hij Hj; simpl in Hj; [lia|].
  destruct j as [|j]; [lia|]. destruct i as [|i]; simpl.
  - apply (incr_head t a H). apply nth_In. lia.
  - apply IH; [eapply incr_tail; exact H|lia|lia].
Qed.

Lemma incr_b_sound x : incr_b x = true -> incr x.
Proof.
  induction x as [|a t IH]; simpl; intro H; [exact I|].
  apply andb_true_iff in H as [H1 H2]. split; [|apply IH, H2].
  destruct t as [|b t]; [exact I|]. apply Qlt_bool_iff, H1.
Qed.

(* the count of elements below u, when the first k elements are below and the others are not *)
Lemma cnt_split x u : forall k, (k <= length x)%nat ->
  (forall i, (i < k)%nat -> nth i x 0 < u) ->
  (forall i, (k <= i)%nat -> (i < length x)%nat -> u <= nth i x 0) ->
  cnt x u = k.
Proof.
  unfold cnt. induction x as [|a t IH]; intros k Hk Hlt Hge; simpl in *; [lia|].
  destruct k as [|k].
  - assert (E : Qlt_bool a u = false) by (apply Qlt_bool_false; apply (Hge O); lia).
    rewrite E. apply (IH O); [lia|intros; lia|].
    intros i _ Hi. apply (Hge (S i)); lia.
  - assert (E : Qlt_bool a u = true) by (apply Qlt_bool_iff; apply (Hlt O); lia).
    rewrite E. simpl. f_equal. apply IH; [lia| |].
    + intros i Hi. apply (Hlt (S i)). lia.
    + intros i Hi1 Hi2. apply (Hge (S i)); lia.
Qed.

Definition idx_of_cnt (n c : Z) : Z :=
  let xm := (c - 1)%Z in
  let xm := if (xm >=? n - 1)%Z then (n - 2)%Z else xm in
  if (xm <? 0)%Z then 0%Z else xm.

Lemma interp_index_cnt x u : interp_index x u = idx_of_cnt (Z.of_nat (length x)) (Z.of_nat (cnt x u)).
Proof. reflexivity. Qed.

Lemma idx_of_cnt_val n c : (2 <= n)%Z -> (0 <= c <= n)%Z ->
  idx_of_cnt n c = Z.max 0 (Z.min (c - 1) (n - 2)).
Proof.
  intros Hn Hc. unfold idx_of_cnt.
  destruct (c - 1 >=? n - 1)%Z eqn:E1.
  - destruct (n - 2 <? 0)%Z eqn:E2; lia.
  - destruct (c - 1 <? 0)%Z eqn:E2; lia.
Qed.

Lemma interp1_index v x u k :
  (2 <= length x)%nat -> (cnt x u <= length x)%nat ->
  Z.to_nat (Z.max 0 (Z.min (Z.of_nat (cnt x u) - 1) (Z.of_nat (length x) - 2))) = k ->
  interp1 v x u = seg v x k u.
Proof.
  intros Hn Hc Hk. unfold interp1. rewrite interp_index_cnt, idx_of_cnt_val by lia.
  rewrite Hk. reflexivity.
Qed.

Lemma cnt_le x u : (cnt x u <= length x)%nat.
Proof. unfold cnt. apply filter_len_le. Qed.

Lemma seg_chord v x k u : nth k x 0 < nth (S k) x 0 -> seg v x k u == chord v x k u.
Proof. intro H. unfold seg, line, chord. field. intro E. lra. Qed.

Section Table.
  Variables v x : list Q.
  Hypothesis Hincr : incr x.
  Hypothesis Hn : (2 <= length x)%nat.

  (* strictly between two neighbouring nodes, or at the right one *)
  Lemma interp1_open k u :
    (S k < length x)%nat -> nth k x 0 < u -> u <= nth (S k) x 0 -> interp1 v x u == chord v x k u.
  Proof.
    intros Hk Ha Hb.
    assert (C : cnt x u = S k).
    { apply cnt_split; [lia| |].
      - intros i Hi. destruct (Nat.eq_dec i k) as [->|Ne]; [exact Ha|].
        assert (nth i x 0 < nth k x 0) by (apply incr_lt; [exact Hincr|lia|lia]). lra.
      - intros i Hi1 Hi2. destruct (Nat.eq_dec i (S k)) as [->|Ne]; [exact Hb|].
        assert (nth (S k) x 0 < nth i x 0) by (apply incr_lt; [exact Hincr|lia|lia]). lra. }
    rewrite (interp1_index v x u k Hn (cnt_le x u)) by (rewrite C; lia).
    apply seg_chord. apply incr_lt; [exact Hincr|lia|lia].
  Qed.

  (* exactly at a node: the node's value *)
  Lemma interp1_node k u :
    (k < length x)%nat -> u == nth k x 0 -> interp1 v x u == nth k v 0.
  Proof.
    intros Hk Hu.
    assert (C : cnt x u = k).
    { apply cnt_split; [lia| |].
      - intros i Hi. assert (nth i x 0 < nth k x 0) by (apply incr_lt; [exact Hincr|lia|lia]). lra.
      - intros i Hi1 Hi2. destruct (Nat.eq_dec i k) as [->|Ne]; [lra|].
        assert (nth k x 0 < nth i x 0) by (apply incr_lt; [exact Hincr|lia|lia]). lra. }
    destruct k as [|k].
    - rewrite (interp1_index v x u O Hn (cnt_le x u)) by (rewrite C; lia).
      assert (nth 0 x 0 < nth 1 x 0) by (apply incr_lt; [exact Hincr|lia|lia]).
      unfold seg, line. rewrite Hu. field. intro E. lra.
    - rewrite (interp1_index v x u k Hn (cnt_le x u)) by (rewrite C; lia).
      assert (nth k x 0 < nth (S k) x 0) by (apply incr_lt; [exact Hincr|lia|lia]).
      unfold seg, line. rewrite Hu. field. intro E. lra.
  Qed.

  Lemma chord_left k : chord v x k (nth k x 0) == nth k v 0.
  Proof. unfold chord, Qdiv. ring. Qed.

  Lemma chord_right k : nth k x 0 < nth (S k) x 0 -> chord v x k (nth (S k) x 0) == nth (S k) v 0.
  Proof. intro H. unfold chord. field. intro E. lra. Qed.

  (* inside the table: the chord of ANY segment that contains u *)
  Lemma interp1_piecewise k u :
    (S k < length x)%nat -> nth k x 0 <= u <= nth (S k) x 0 -> interp1 v x u == chord v x k u.
  Proof.
    intros Hk [Ha Hb]. destruct (Qlt_le_dec (nth k x 0) u) as [L|L].
    - apply interp1_open; assumption.
    - assert (Hu : u == nth k x 0) by lra.
      rewrite (interp1_node k u) by (try lia; exact Hu).
      unfold chord. rewrite Hu. unfold Qdiv. ring.
  Qed.

  (* below the first node: the first segment's line *)
  Lemma interp1_below u : u < nth 0 x 0 -> interp1 v x u == chord v x 0 u.
  Proof.
    intro Hu.
    assert (C : cnt x u = O).
    { apply cnt_split; [lia|intros; lia|].
      intros i _ Hi. destruct (Nat.eq_dec i O) as [->|Ne]; [lra|].
      assert (nth 0 x 0 < nth i x 0) by (apply incr_lt; [exact Hincr|lia|lia]). lra. }
    rewrite (interp1_index v x u O Hn (cnt_le x u)) by (rewrite C; lia).
    apply seg_chord. apply incr_lt; [exact Hincr|lia|lia].
  Qed.

  (* above the last node: the last segment's line *)
  Lemma interp1_above u : nth (length x - 1) x 0 < u -> interp1 v x u == chord v x (length x - 2) u.
  Proof.
    intro Hu.
    assert (C : cnt x u = length x).
    { apply cnt_split; [lia| |intros; lia].
      intros i Hi. destruct (Nat.eq_dec i (length x - 1)) as [->|Ne]; [exact Hu|].
      assert (nth i x 0 < nth (length x - 1) x 0) by (apply incr_lt; [exact Hincr|lia|lia]). lra. }
    rewrite (interp1_index v x u (length x - 2) Hn (cnt_le x u)) by (rewrite C; lia).
    apply seg_chord. apply incr_lt; [exact Hincr|lia|lia].
  Qed.
End Table.

Lemma interplin_total v x u :
  (2 <= length x)%nat -> (length x <= length v)%nat -> interplin v x u = Ok (map (interp1 v x) u).
Proof.
  intros H1 H2. unfold interplin. destruct u as [|a u]; [reflexivity|].
  assert (E1 : (length x <? 2)%nat = false) by (apply Nat.ltb_ge; lia).
  assert (E2 : (length v <? length x)%nat = false) by (apply Nat.ltb_ge; lia).
  rewrite E1, E2. reflexivity.
Qed.

Lemma interplin_short_table v x u :
  u <> [] -> (length x < 2)%nat -> interplin v x u = Err EIndex.
Proof.
  intros NE H. unfold interplin. destruct u; [congruence|].
  assert (E1 : (length x <? 2)%nat = true) by (apply Nat.ltb_lt; lia). rewrite E1. reflexivity.
Qed.

Lemma interp_check_sound v x u y :
  interp_check v x u y = true -> interp_ok v x u y (eps9 * interp_scale v x u).
Proof.
  unfold interp_check. intro H.
  apply andb_true_iff in H as [H H4]. apply andb_true_iff in H as [H H3]. apply andb_true_iff in H as [H1 H2].
  apply incr_b_sound in H1. apply Nat.leb_le in H2. apply close_lin_b_iff in H4. unfold close_lin in H4.
  split; [|split].
  - intros k Hk Hu. rewrite <- (interp1_piecewise v x H1 H2 k u Hk Hu). exact H4.
  - intro Hu. rewrite <- (interp1_below v x H1 H2 u Hu). exact H4.
  - intro Hu. rewrite <- (interp1_above v x H1 H2 u Hu). exact H4.
Qed.

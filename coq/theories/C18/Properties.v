(* C18 — property theorems only.  Bodies live in MomProofs / MedianProofs / ClipProofs /
   InterpProofs / CorProofs.  Conventions (Model.v): a float is the exact rational it denotes;
   where the code returns sqrt(V) the model returns V (fields ..._err2, ..._var, den2), and
   C18_close_sqrt_real gives the reading over the reals. *)
From Coq Require Import QArith Qabs Reals Qreals.
From EsVerif.Common Require Import Base.
From EsVerif.C18 Require Import Model Spec QLemmas MomProofs MedianProofs ClipProofs InterpProofs CorProofs SpecTol TolProofs SpecStrict ClipStrict ClipReal GsProofs BoxProofs Gen GenProofs
  TolSound ModelKw KwProofs RealReading FrameProofs UndefModel UndefProofs Exec ExecProofs.
Open Scope Q_scope.

(* ------------------------------------------------------------------ weighted moments *)
(* The per-column computation [wmom1 x w inputmean calcerr sdev] (x data, w weights):        *)

(* mean = sum(w x)/sum(w), or the supplied mean *)
Theorem C18_wmom_mean : forall x w im calcerr sdev, 0 < Sum w ->
  m_mean (wmom1 x w im calcerr sdev) == match im with None => Sum (map2 Qmult w x) / Sum w | Some m => m end.
Proof. intros x w im ce sd _. apply wmom1_mean. Qed.

(* default error: 1/sqrt(sum w), i.e. err^2 = 1/sum w *)
Theorem C18_wmom_err_default : forall x w im sdev, 0 < Sum w ->
  m_err2 (wmom1 x w im false sdev) == 1 / Sum w.
Proof. intros x w im sd _. destruct (wmom1_spec x w im false sd) as [_ [H _]]. exact H. Qed.

(* calcerr=True: sqrt(sum(w^2 (x-mean)^2))/sum(w), i.e. err^2 = sum(w^2 (x-mean)^2)/(sum w)^2,
   about the mean the routine reports *)
Theorem C18_wmom_err_calc : forall x w im sdev, 0 < Sum w ->
  let m := match im with None => wmean_def w x | Some m0 => m0 end in
  m_err2 (wmom1 x w im true sdev) == Sum (map2 (fun wi xi => wi * wi * ((xi - m) * (xi - m))) w x) / (Sum w * Sum w).
Proof. intros x w im sd _. destruct (wmom1_spec x w im true sd) as [_ [H _]]. exact H. Qed.

(* sdev=True: weighted deviation sqrt(sum(w (x-mean)^2)/sum w); absent otherwise *)
Theorem C18_wmom_sdev : forall x w im calcerr, 0 < Sum w ->
  let m := match im with None => wmean_def w x | Some m0 => m0 end in
  (exists v, m_var (wmom1 x w im calcerr true) = Some v
             /\ v == Sum (map2 (fun wi xi => wi * ((xi - m) * (xi - m))) w x) / Sum w)
  /\ m_var (wmom1 x w im calcerr false) = None.
Proof.
  intros x w im ce _ m. split; [|reflexivity].
  destruct (wmom1_spec x w im ce true) as [_ [_ H]].
  destruct (m_var (wmom1 x w im ce true)) as [v|]; [|discriminate].
  exists v. split; [reflexivity|]. apply H.
Qed.

(* The numpy-level routine on 1-d data returns scalars that are exactly that computation *)
Theorem C18_wmom_1d : forall x w im calcerr sdev,
  length w = length x -> (forall v, im <> IVec v) ->
  exists o, wmom (V1 x) (V1 w) im calcerr sdev = Ok o
            /\ out_col o 0 = wmom1 x w (im_col im 0) calcerr sdev
            /\ (exists a b, o_mean o = S0 a /\ o_err2 o = S0 b).
Proof. exact wmom_1d. Qed.

(* ... with the documented array form of inputmean (one element for 1-d data) *)
Theorem C18_wmom_1d_array_mean : forall x w m calcerr sdev,
  length w = length x ->
  exists o, wmom (V1 x) (V1 w) (IVec [m]) calcerr sdev = Ok o
            /\ o_mean o = V1 [m] /\ out_col o 0 = wmom1 x w (Some m) calcerr sdev.
Proof. exact wmom_1d_vecmean. Qed.

(* ... and on N-by-d data, with 1-d weights (broadcast to every column) or N-by-d weights, and
   inputmean absent, scalar or an [ndim] array: column j of every returned value is the 1-d
   computation on column j *)
Theorem C18_wmom_Nd : forall rows d wts im calcerr sdev,
  rows <> [] -> ncols rows = d -> rect rows d = true -> weights_fit rows d wts -> im_fits d im ->
  exists o, wmom (M2 rows) wts im calcerr sdev = Ok o
            /\ forall j, (j < d)%nat ->
                 out_col o j = wmom1 (col j rows) (wcol_of wts j) (im_col im j) calcerr sdev.
Proof. exact wmom_Nd. Qed.

(* 1-d data with weights of another shape are rejected *)
Theorem C18_wmom_rejects_shape : forall x w im calcerr sdev,
  length w <> length x -> wmom (V1 x) (V1 w) im calcerr sdev = Err EValue.
Proof.
  intros x w im ce sd H. unfold wmom; simpl.
  destruct (Nat.eqb (length w) (length x)) eqn:E; [apply Nat.eqb_eq in E; contradiction|reflexivity].
Qed.

(* ------------------------------------------------------------------ weighted median *)
(* non-negative weights: the loop returns the smallest data value whose cumulative weight
   (total weight of all data <= that value) reaches (>=) half the total; that value is unique *)
Theorem C18_wmedian_spec : forall x w,
  length x = length w -> x <> [] -> (forall y, In y w -> 0 <= y) ->
  exists v, wmedian x w = Ok v /\ wmedian_ok (combine x w) v.
Proof. exact wmedian_correct. Qed.

Theorem C18_wmedian_unique : forall l v v', wmedian_ok l v -> wmedian_ok l v' -> v == v'.
Proof. exact wmedian_ok_unique. Qed.

(* ------------------------------------------------------------------ sigma clipping *)
(* The reported indices are those of a subset [sub] of the input points such that
   - sub is the k-th iterate of "keep the points with (x-m)^2 < nsig^2 var" (m, var of the
     current subset), every earlier round discarded something but not everything, and the
     iteration stopped because k = niter, or nothing changes, or the next round would discard
     everything (the code then keeps the last subset: "nsig too small");
   - the reported mean, deviation^2, error^2 are exactly those of sub. *)
Theorem C18_sigma_clip_fixpoint : forall x weights niter nsig,
  0 <= nsig -> length (sc_weights x weights) = length x ->
  let all := index_from 0%Z x (sc_weights x weights) in
  let wtd := sc_weighted weights in
  exists r sub,
    sigma_clip (V1 x) (match weights with Some w => Some (V1 w) | None => None end) niter nsig = Ok r
    /\ sc_idx r = map p_idx sub
    /\ (forall p, In p sub -> In p all)
    /\ clip_fixpoint wtd nsig (Z.to_nat niter) all sub
    /\ let '(m, e2, v) := stat_def wtd sub in
       sc_mean r == m /\ sc_err2 r == e2 /\ sc_var r == v.
Proof. exact sigma_clip_spec. Qed.

(* THE CLAUSE AS STATED has two stop rules only ("until nothing changes or the iteration limit is
   reached", SpecStrict.clip_fixpoint_strict).  C18_sigma_clip_fixpoint above describes the code,
   which has a third exit: when a round would discard every remaining point it stops and reports
   the last non-empty subset ("nsig too small").  Hence the stated clause is refuted ... *)
Theorem C18_sigma_clip_fixpoint_refuted :
  exists x niter nsig,
    0 <= nsig /\ x <> [] /\
    exists r, sigma_clip (V1 x) None niter nsig = Ok r
      /\ ~ exists sub, sc_idx r = map p_idx sub
             /\ clip_fixpoint_strict false nsig (Z.to_nat niter) (index_from 0%Z x (map (fun _ => 1) x)) sub.
Proof. exact sigma_clip_strict_refuted. Qed.

(* ... and holds for every input outside the decidable class kf_everything_clipped (the loop of the
   code reaches its "everything clipped" exit on a non-empty subset) *)
Theorem C18_sigma_clip_fixpoint_outside_known : forall x weights niter nsig,
  0 <= nsig -> length (sc_weights x weights) = length x ->
  let all := index_from 0%Z x (sc_weights x weights) in
  let wtd := sc_weighted weights in
  kf_everything_clipped wtd nsig (Z.to_nat niter) all = false ->
  exists r sub,
    sigma_clip (V1 x) (match weights with Some w => Some (V1 w) | None => None end) niter nsig = Ok r
    /\ sc_idx r = map p_idx sub
    /\ clip_fixpoint_strict wtd nsig (Z.to_nat niter) all sub
    /\ let '(m, e2, v) := stat_def wtd sub in
       sc_mean r == m /\ sc_err2 r == e2 /\ sc_var r == v.
Proof. exact sigma_clip_strict_outside_known. Qed.

(* when the next round would not discard everything, the stop rule is exactly the stated one:
   nothing changes or the iteration limit is reached *)
Theorem C18_sigma_clip_fixpoint_pure : forall weighted nsig niter all sub,
  clip_fixpoint weighted nsig niter all sub ->
  clip_step weighted nsig sub <> [] ->
  exists k, (k <= niter)%nat /\ sub = iterate (clip_step weighted nsig) k all
            /\ (k = niter \/ clip_step weighted nsig sub = sub).
Proof. exact clip_fixpoint_pure. Qed.

Theorem C18_sigma_clip_subset_unique : forall weighted nsig niter all s1 s2,
  clip_fixpoint weighted nsig niter all s1 -> clip_fixpoint weighted nsig niter all s2 -> s1 = s2.
Proof. exact clip_fixpoint_unique. Qed.

(* over the reals: one round keeps exactly the points STRICTLY within nsig deviations
   (deviation = sqrt of the subset's variance) of the subset's mean *)
Theorem C18_sigma_clip_round_real : forall weighted nsig cur p,
  0 <= nsig -> (weighted = true -> forall q, In q cur -> 0 <= p_w q) ->
  let st := sc_stats weighted cur in
  (In p (filter (within nsig st) cur)
   <-> In p cur /\ (Rabs (Q2R (p_x p) - Q2R (c_mean st)) < Q2R nsig * sqrt (Q2R (c_var st)))%R).
Proof. exact clip_round_real. Qed.

(* ------------------------------------------------------------------ interpolation *)
(* strictly increasing table x of >= 2 points, values v *)
Theorem C18_interplin_piecewise : forall v x, incr x -> (2 <= length x)%nat ->
  forall k u, (S k < length x)%nat -> nth k x 0 <= u <= nth (S k) x 0 ->
    interp1 v x u == chord v x k u.
Proof. exact interp1_piecewise. Qed.

Theorem C18_interplin_nodes : forall v x, incr x -> (2 <= length x)%nat ->
  forall k, (k < length x)%nat -> interp1 v x (nth k x 0) == nth k v 0.
Proof. intros v x Hi Hn k Hk. apply interp1_node; auto. reflexivity. Qed.

Theorem C18_interplin_extrapolates : forall v x, incr x -> (2 <= length x)%nat ->
  forall u, (u < nth 0 x 0 -> interp1 v x u == chord v x 0 u)
            /\ (nth (length x - 1) x 0 < u -> interp1 v x u == chord v x (length x - 2) u).
Proof. intros v x Hi Hn u. split; [apply interp1_below|apply interp1_above]; assumption. Qed.

Theorem C18_interplin_total : forall v x u,
  (2 <= length x)%nat -> (length x <= length v)%nat -> interplin v x u = Ok (map (interp1 v x) u).
Proof. exact interplin_total. Qed.

(* ------------------------------------------------------------------ summary statistics *)
Theorem C18_get_stats_minmax : forall x weights nsig niter g,
  x <> [] -> get_stats (V1 x) weights nsig niter = Ok g ->
  exists mn mx, g_min g = S0 mn /\ g_max g = S0 mx /\ is_min x mn /\ is_max x mx.
Proof. exact get_stats_1d_minmax. Qed.

Theorem C18_get_stats_clip : forall x weights nsig niter,
  (nsig <> None \/ niter <> None) ->
  get_stats (V1 x) weights nsig niter =
  match sigma_clip (V1 x) weights (match niter with Some k => k | None => 4%Z end)
                   (match nsig with Some s => s | None => 4 end) with
  | Ok r => Ok {| g_min := S0 (qmin_list x); g_max := S0 (qmax_list x); g_mean := S0 (sc_mean r);
                  g_var := S0 (sc_var r); g_err2 := S0 (sc_err2 r) |}
  | Err e => Err e
  end.
Proof. exact get_stats_1d_clip. Qed.

Theorem C18_get_stats_weighted : forall x w,
  length w = length x ->
  exists g, get_stats (V1 x) (Some (V1 w)) None None = Ok g
    /\ exists m e2 v, g_mean g = S0 m /\ g_err2 g = S0 e2 /\ g_var g = S0 v
       /\ mom_spec x w None true true {| m_mean := m; m_err2 := e2; m_var := Some v |}.
Proof. exact get_stats_1d_weighted. Qed.

Theorem C18_get_stats_plain : forall x,
  exists g, get_stats (V1 x) None None None = Ok g
    /\ exists m e2 v, g_mean g = S0 m /\ g_err2 g = S0 e2 /\ g_var g = S0 v
       /\ m == Sum x / qlen x
       /\ v == Sum (map (fun y => (y - Sum x / qlen x) * (y - Sum x / qlen x)) x) / qlen x
       /\ e2 == v / qlen x.
Proof. exact get_stats_1d_plain. Qed.

(* N-by-d data: every column of every reported value is the 1-d summary of that column *)
Theorem C18_get_stats_Nd_plain : forall rows d,
  rows <> [] -> ncols rows = d -> rect rows d = true ->
  exists g, get_stats (M2 rows) None None None = Ok g
    /\ forall j, (j < d)%nat ->
         let x := col j rows in
         is_min x (nd_get (g_min g) j) /\ is_max x (nd_get (g_max g) j)
         /\ nd_get (g_mean g) j = c_mean (plain_stats x)
         /\ nd_get (g_var g) j = c_var (plain_stats x)
         /\ nd_get (g_err2 g) j = c_err2 (plain_stats x).
Proof. exact get_stats_Nd_plain. Qed.

Theorem C18_get_stats_Nd_weighted : forall rows d wts,
  rows <> [] -> ncols rows = d -> rect rows d = true -> weights_fit rows d wts ->
  exists g, get_stats (M2 rows) (Some wts) None None = Ok g
    /\ forall j, (j < d)%nat ->
         let x := col j rows in
         let r := wmom1 x (wcol_of wts j) None true true in
         is_min x (nd_get (g_min g) j) /\ is_max x (nd_get (g_max g) j)
         /\ nd_get (g_mean g) j = m_mean r
         /\ Some (nd_get (g_var g) j) = m_var r
         /\ nd_get (g_err2 g) j = m_err2 r.
Proof. exact get_stats_Nd_weighted. Qed.

(* ------------------------------------------------------------------ covariance <-> correlation *)
(* cor[i,j] = cov[i,j]/sqrt(cov[i,i] cov[j,j]), returned as the pair (cov[i,j], cov[i,i] cov[j,j]) *)
Theorem C18_cov2cor_def : forall cov,
  rect cov (length cov) = true -> (forall i, (i < length cov)%nat -> 0 < mget cov i i) ->
  exists m, cov2cor cov = Ok m
    /\ forall i j, (i < length cov)%nat -> (j < length cov)%nat ->
         nth j (nth i m []) (0, 0) = (mget cov i j, mget cov i i * mget cov j j).
Proof. exact cov2cor_spec. Qed.

Theorem C18_cov2cor_rejects : forall cov i,
  rect cov (length cov) = true -> (i < length cov)%nat -> mget cov i i <= 0 -> cov2cor cov = Err EValue.
Proof. exact cov2cor_rejects. Qed.

Theorem C18_cor2cov_def : forall cor d,
  rect cor (length cor) = true -> length d = length cor ->
  exists m, cor2cov cor d = Ok m
    /\ forall i j, (i < length cor)%nat -> (j < length cor)%nat ->
         mget m i j = mget cor i j * nth i d 0 * nth j d 0.
Proof. exact cor2cov_spec. Qed.

(* covariance -> correlation -> covariance (errors sqrt(cov[i,i])) reproduces the covariance;
   over the reals, with the model's pairs read as num/sqrt(den2) *)
Theorem C18_cor_cov_roundtrip : forall cov m,
  cov2cor cov = Ok m -> rect cov (length cov) = true ->
  forall i j, (i < length cov)%nat -> (j < length cov)%nat ->
    let '(num, den2) := nth j (nth i m []) (0, 0) in
    (Q2R num / sqrt (Q2R den2) * sqrt (Q2R (mget cov i i)) * sqrt (Q2R (mget cov j j)))%R
    = Q2R (mget cov i j).
Proof. exact cor_cov_roundtrip_real. Qed.

(* the same on squares, inside Q: cor[i,j]^2 cov[i,i] cov[j,j] = cov[i,j]^2 *)
Theorem C18_cor_cov_roundtrip_squares : forall c cii cjj,
  0 < cii -> 0 < cjj -> (c * c / (cii * cjj)) * cii * cjj == c * c.
Proof. exact roundtrip_squares. Qed.

(* ------------------------------------------------------------------ boxcar average *)
Theorem C18_boxcar_def : forall x N, (0 < N)%Z -> x <> [] ->
  exists out, boxcar_average x N = Ok out /\ length out = length x
              /\ forall k, (k < length x)%nat -> nth k out 0 == boxcar_def x N k.
Proof. exact boxcar_spec. Qed.

(* ------------------------------------------------------------------ meaning of close_sqrt *)
Theorem C18_close_sqrt_real : forall s V tol,
  close_sqrt s V tol -> 0 <= V -> (Rabs (Q2R s - sqrt (Q2R V)) <= Q2R tol)%R.
Proof. exact close_sqrt_real. Qed.

(* ------------------------------------------------------------------ checker soundness *)
(* what the correspondence run evaluates on the implementation's outputs *)
Theorem C18_checkers_sound :
  (forall x w im ce mean err sdev, wmom1_check x w im ce mean err sdev = true -> wmom1_ok x w im ce mean err sdev)
  /\ (forall rows d wts im ce sd om oe os,
        rows <> [] -> ncols rows = d -> rect rows d = true -> weights_fit rows d wts -> im_fits d im ->
        wmom_check (M2 rows) wts im ce sd om oe os = true ->
        forall j, (j < d)%nat ->
          wmom1_ok (col j rows) (wcol_of wts j) (im_col im j) ce (nd_get om j) (nd_get oe j) (opt_get os j))
  /\ (forall x w im ce sd om oe os,
        length w = length x -> (forall v, im <> IVec v) ->
        wmom_check (V1 x) (V1 w) im ce sd om oe os = true ->
        wmom1_ok x w (im_col im 0) ce (nd_get om 0) (nd_get oe 0) (opt_get os 0))
  /\ (forall l v, wmedian_check l v = true -> wmedian_ok l v)
  /\ (forall weighted nsig niter all mean sdev err idx, 0 <= nsig ->
        sigma_clip_check weighted nsig niter all mean sdev err idx = true ->
        sigma_clip_ok weighted nsig niter all mean sdev err idx)
  /\ (forall v x u y, interp_check v x u y = true -> interp_ok v x u y (eps9 * interp_scale v x u))
  /\ (forall x w clip mn mx mean std err idx,
        gs_col_check x w clip mn mx mean std err idx = true -> gs_col_ok x w clip mn mx mean std err idx)
  /\ (forall cov cor, cov2cor_check cov cor = true -> cov2cor_ok cov cor)
  /\ (forall n a b, mat_close_b n a b = true -> mat_close n a b).
Proof.
  split; [exact wmom1_check_sound|]. split; [exact wmom_check_sound_Nd|].
  split; [exact wmom_check_sound_1d|]. split; [exact wmedian_check_sound|].
  split; [exact sigma_clip_check_sound|]. split; [exact interp_check_sound|].
  split; [exact gs_col_check_sound|]. split; [exact cov2cor_check_sound|exact mat_close_b_sound].
Qed.

(* the checker of the sigma-clipping clause as stated (evaluated by Exec.v_sigma_clip) *)
Theorem C18_strict_checker_sound : forall weighted nsig niter all mean sdev err idx,
  0 <= nsig ->
  sigma_clip_strict_check weighted nsig niter all mean sdev err idx = true ->
  sigma_clip_strict_ok weighted nsig niter all mean sdev err idx.
Proof. exact sigma_clip_strict_check_sound. Qed.

(* the parametrised checkers used for calls that compute in float32 (SpecTol.v, evaluated at eps_f4)
   are, at eps9, the verified checkers above *)
Theorem C18_tol_checkers_at_eps9 :
  (forall r A im ce mean err sdev, mom_close_e eps9 r A im ce mean err sdev = mom_close r A im ce mean err sdev)
  /\ (forall arr wts im ce sd om oe os, wmom_check_e eps9 arr wts im ce sd om oe os = wmom_check arr wts im ce sd om oe os)
  /\ (forall wtd nsig niter all mean sdev err idx,
        sigma_clip_check_e eps9 wtd nsig niter all mean sdev err idx = sigma_clip_check wtd nsig niter all mean sdev err idx)
  /\ (forall v x u y, interp_check_e eps9 v x u y = interp_check v x u y)
  /\ (forall c num den2, cor_close_b_e eps9 c num den2 = cor_close_b c num den2)
  /\ (forall cov cor, cov2cor_check_e eps9 cov cor = cov2cor_check cov cor)
  /\ (forall n a b, mat_close_b_e eps9 n a b = mat_close_b n a b).
Proof. exact tol_checkers_at_eps9. Qed.

(* ------------------------------------------------------------------ tie to the source text *)
(* Gen.v is printed from esutil/stat/util.py of the tree under check on every run
   (harness/props/c18_translate.py).  The theorems below say that the model the theorems above are
   about consists of exactly the formulas, comparisons, defaults and index arithmetic that the
   source contains (gen_* names); they are re-checked whenever that text changes. *)

(* wmom: the terms under .sum(axis=0), the final divisions, the two error formulas (squared) *)
Theorem C18_gen_wmom_mean : forall x w ce sd,
  m_mean (wmom1 x w None ce sd) == gen_wmom_mean_fin (Sum (map2 gen_wmom_mean_term w x)) (Sum w).
Proof. exact gen_wmom_mean. Qed.

Theorem C18_gen_wmom_err : forall x w im sd,
  m_err2 (wmom1 x w im true sd) == gen_wmom_err2_calc (Sum (map2 (gen_wmom_err2_term (mref x w im)) w x)) (Sum w)
  /\ m_err2 (wmom1 x w im false sd) == gen_wmom_err2_default (Sum w)
  /\ gen_wmom_calcerr_default = false /\ gen_wmom_sdev_default = false.
Proof.
  intros x w im sd. split; [apply gen_wmom_err_calc|]. split; [apply gen_wmom_err_default|]. exact gen_wmom_defaults.
Qed.

Theorem C18_gen_wmom_sdev : forall x w im ce,
  exists v, m_var (wmom1 x w im ce true) = Some v
            /\ v == gen_wmom_var_fin (Sum (map2 (gen_wmom_var_term (mref x w im)) w x)) (Sum w).
Proof. exact gen_wmom_var. Qed.

(* wmedian: initial value, half total, loop test (strict) and update of the subtract-until loop *)
Theorem C18_gen_wmedian_loop :
  (forall l, wmedian_pairs l =
     match isort_p l with
     | [] => Err EIndex
     | (x0, w0) :: t => wm_loop t x0 (gen_wm_init (qsum (map snd l)) w0) (gen_wm_half (qsum (map snd l)))
     end)
  /\ (forall rest cur sum h, wm_loop rest cur sum h =
        if gen_wm_continue sum h
        then match rest with [] => Err EIndex | (xk, wk) :: t => wm_loop t xk (gen_wm_step sum wk) h end
        else Ok cur).
Proof. split; [exact gen_wm_start|exact gen_wm_loop]. Qed.

(* sigma_clip: the model's decision on squares is the source's comparison |x - m| < nsig * s with
   s = sqrt(var); number of rounds; the two stop tests in the source's order; which statistics *)
Theorem C18_gen_clip_decision : forall nsig st s p,
  0 <= nsig -> 0 <= s -> s * s == c_var st ->
  within nsig st p = gen_clip_keep nsig (c_mean st) s (p_x p).
Proof. exact gen_within. Qed.

Theorem C18_gen_clip_loop :
  (forall niter, Z.to_nat (gen_sc_rounds niter) = Z.to_nat niter)
  /\ (forall f wtd nsig cur st, sc_loop (S f) wtd nsig cur st =
        let kept := filter (within nsig st) cur in
        if gen_sc_stop_empty (Z.of_nat (length kept)) then (cur, st)
        else if gen_sc_stop_same (Z.of_nat (length kept)) (Z.of_nat (length cur)) then (cur, st)
        else sc_loop f wtd nsig kept (sc_stats wtd kept))
  /\ (forall cur, sc_stats true cur =
        let r := wmom1 (map p_x cur) (map p_w cur) None gen_scstats_calcerr gen_scstats_sdev in
        {| c_mean := m_mean r; c_err2 := m_err2 r; c_var := match m_var r with Some v => v | None => 0 end |})
  /\ (forall cur, c_err2 (sc_stats false cur) = gen_plain_err2 (c_var (sc_stats false cur)) (qlen cur)).
Proof.
  split; [exact gen_sc_rounds_ok|]. split; [exact gen_sc_loop_step|].
  split; [exact gen_sc_stats_weighted|exact gen_sc_stats_plain].
Qed.

(* interplin: searchsorted - 1 with the two clamps, the neighbour index, the returned formula *)
Theorem C18_gen_interplin :
  (forall x u, interp_index x u = gen_interp_index (Z.of_nat (length x)) (searchsorted x u))
  /\ (forall k, Z.to_nat (gen_interp_next (Z.of_nat k)) = S k)
  /\ (forall x0 v0 x1 v1 u, line x0 v0 x1 v1 u = gen_interp_formula x0 v0 x1 v1 u).
Proof. split; [exact gen_interp_index_ok|]. split; [exact gen_interp_next_ok|exact gen_interp_formula_ok]. Qed.

(* get_stats: defaults of sigma_clip reached through **kw; keywords forced in the weighted branch;
   err = std/sqrt(N) in the plain branch *)
Theorem C18_gen_get_stats :
  (forall x weights nsig niter, (nsig <> None \/ niter <> None) ->
     get_stats (V1 x) weights nsig niter =
     match sigma_clip (V1 x) weights (match niter with Some k => k | None => gen_sc_niter_default end)
                      (match nsig with Some s => s | None => gen_sc_nsig_default end) with
     | Ok r => Ok {| g_min := S0 (qmin_list x); g_max := S0 (qmax_list x); g_mean := S0 (sc_mean r);
                     g_var := S0 (sc_var r); g_err2 := S0 (sc_err2 r) |}
     | Err e => Err e
     end)
  /\ (forall x w, length w = length x ->
        get_stats (V1 x) (Some (V1 w)) None None =
        let r := wmom1 x w None gen_gs_calcerr gen_gs_sdev in
        Ok {| g_min := S0 (qmin_list x); g_max := S0 (qmax_list x); g_mean := S0 (m_mean r);
              g_var := S0 (match m_var r with Some v => v | None => 0 end); g_err2 := S0 (m_err2 r) |})
  /\ (forall x, exists g, get_stats (V1 x) None None None = Ok g
        /\ exists m e2 v, g_mean g = S0 m /\ g_err2 g = S0 e2 /\ g_var g = S0 v
           /\ e2 = gen_gs_plain_err2 v (qlen x)).
Proof.
  split; [exact gen_get_stats_clip|]. split; [exact gen_get_stats_weighted|exact gen_get_stats_plain].
Qed.

(* cov2cor / cor2cov: the diagonal test, numerator and squared denominator, the product *)
Theorem C18_gen_cov :
  (forall cov, rect cov (length cov) = true ->
     (forall i, (i < length cov)%nat -> gen_cov_diag_bad (mget cov i i) = false) ->
     exists m, cov2cor cov = Ok m
       /\ forall i j, (i < length cov)%nat -> (j < length cov)%nat ->
            nth j (nth i m []) (0, 0)
            = (gen_cor_num (mget cov i j) (mget cov i i) (mget cov j j),
               gen_cor_den2 (mget cov i j) (mget cov i i) (mget cov j j)))
  /\ (forall c, Qlt_bool 0 c = negb (gen_cov_diag_bad c))
  /\ (forall cor d, rect cor (length cor) = true -> length d = length cor ->
        exists m, cor2cov cor d = Ok m
          /\ forall i j, (i < length cor)%nat -> (j < length cor)%nat ->
               mget m i j = gen_cor2cov_entry (mget cor i j) (nth i d 0) (nth j d 0)).
Proof.
  split; [exact gen_cov2cor_entries|]. split; [exact gen_cov_diag_rule|exact gen_cor2cov_entries].
Qed.

(* boxcar_average: the model's window mean is numpy's 'full' convolution (conv_full: out[j] =
   sum_i x[i] k[j-i]) with the kernel of N weights 1/N, sliced at the source's offset N-1 *)
Theorem C18_gen_boxcar : forall x N,
  (0 < N)%Z -> x <> [] ->
  exists out, boxcar_average x N = Ok out /\ length out = length x
    /\ forall k, (k < length x)%nat ->
         nth k out 0 == conv_full x (repeat (gen_boxcar_weight (inject_Z N)) (Z.to_nat N))
                                  (k + Z.to_nat (gen_boxcar_skip N)).
Proof. exact gen_boxcar_convolution. Qed.

(* dtype pins: weights (wmom, wmedian, sigma_clip) and get_stats data are cast to float64, the result
   matrices of cov2cor / cor2cov are allocated as float64 whatever the dtype of the input *)
Theorem C18_gen_result_dtypes :
  gen_wmom_weights_f64 = true /\ gen_wmedian_weights_f64 = true /\ gen_sigma_clip_weights_f64 = true
  /\ gen_get_stats_data_f64 = true /\ gen_cov2cor_result_f64 = true /\ gen_cor2cov_result_f64 = true.
Proof. exact gen_result_dtypes. Qed.

(* ------------------------------------------------------------------ non-vacuity *)
Fixpoint forallb2_eq (a b : list Q) : bool :=
  match a, b with
  | [], [] => true
  | x :: s, y :: t => Qeq_bool x y && forallb2_eq s t
  | _, _ => false
  end.

Definition ex_x : list Q := [-2; 2; -1; 1; 0; 0; 0; 0; 0; 0].

Example C18_nonvacuous :
  (* weighted mean 9/4, calcerr error^2 = 9/32... computed by the model *)
  (exists o, wmom (V1 [1; 2; 3]) (V1 [1; 1; 2]) INone true true = Ok o
             /\ Qeq_bool (nd_get (o_mean o) 0) (9 # 4) = true)
  /\ (exists o, wmom (M2 [[1; 10]; [2; 20]; [3; 40]]) (V1 [1; 1; 2]) (IVec [2; 20]) false true = Ok o
                /\ o_mean o = V1 [2; 20])
  (* equal weights: the lower median; cumulative weight reaches exactly half at 2 *)
  /\ wmedian [3; 1; 2; 4] [1; 1; 1; 1] = Ok 2
  /\ wmedian_check (combine [3; 1; 2; 4] [1; 1; 1; 1]) 2 = true
  /\ wmedian_check (combine [3; 1; 2; 4] [1; 1; 1; 1]) 3 = false
  (* strict comparison: with nsig = 2 and s = 1 the points at exactly 2 deviations go first,
     then (s = 1/2) those at +-1, then everything would go: the zeros are reported *)
  /\ (exists r, sigma_clip (V1 ex_x) None 4 2 = Ok r /\ sc_idx r = [4; 5; 6; 7; 8; 9]%Z)
  (* a run that ends because nothing changes (hypothesis of the pure form is satisfiable) *)
  /\ (exists r, sigma_clip (V1 [0; 1; -1; 0; 1; -1; 0; 50]) None 4 2 = Ok r
                /\ sc_idx r = [0; 1; 2; 3; 4; 5; 6]%Z
                /\ clip_step false 2 (index_from 0%Z [0; 1; -1; 0; 1; -1; 0] [1; 1; 1; 1; 1; 1; 1]) <> [])
  (* interpolation inside, at a node, and extrapolation on both sides *)
  /\ incr [0; 1; 2]
  /\ (exists o, interplin [1; 3; 2] [0; 1; 2] [-1; 1 # 2; 1; 3] = Ok o
                /\ forallb2_eq o [-1; 2; 3; 1] = true)
  /\ (exists m, cov2cor [[4; 1]; [1; 9]] = Ok m /\ nth 1 (nth 0 m []) (0, 0) = (1, 4 * 9))
  /\ cov2cor [[4; 1]; [1; 0]] = Err EValue
  /\ (exists o, boxcar_average [0; 1; 2; 3; 4; 5] 3 = Ok o /\ forallb2_eq o [1; 2; 3; 4; 3; 5 # 3] = true)
  (* known class: inhabited (two points, nsig 1/2), and its complement contains a run in which a point
     exactly at 2 deviations is discarded and the loop ends because nothing changes *)
  /\ kf_everything_clipped false (1 # 2) 4 (index_from 0%Z [-1; 1] [1; 1]) = true
  /\ kf_everything_clipped false 2 4 (index_from 0%Z [-4; -1; -1; -1; -1; 1; 1; 1; 1; 4] [1; 1; 1; 1; 1; 1; 1; 1; 1; 1]) = false
  /\ (exists r, sigma_clip (V1 [-4; -1; -1; -1; -1; 1; 1; 1; 1; 4]) None 4 2 = Ok r /\ sc_idx r = [1; 2; 3; 4; 5; 6; 7; 8]%Z).
Proof.
  split; [eexists; split; [vm_compute; reflexivity|vm_compute; reflexivity]|].
  split; [eexists; split; [vm_compute; reflexivity|reflexivity]|].
  split; [vm_compute; reflexivity|].
  split; [vm_compute; reflexivity|].
  split; [vm_compute; reflexivity|].
  split; [eexists; split; [vm_compute; reflexivity|reflexivity]|].
  split; [eexists; split; [vm_compute; reflexivity|]; split; [reflexivity|vm_compute; discriminate]|].
  split; [simpl; repeat split; reflexivity|].
  split; [eexists; split; [vm_compute; reflexivity|vm_compute; reflexivity]|].
  split; [eexists; split; [vm_compute; reflexivity|reflexivity]|].
  split; [vm_compute; reflexivity|].
  split; [eexists; split; [vm_compute; reflexivity|vm_compute; reflexivity]|].
  split; [vm_compute; reflexivity|]. split; [vm_compute; reflexivity|].
  eexists; split; [vm_compute; reflexivity|reflexivity].
Qed.

(* ================================================================== proof-deepening round *)

(* ---- the parametrised checkers are sound at EVERY rounding constant (in particular at eps_f4, used for
        the calls that compute in float32); at eps9 the parametrised statements are those of Spec.v *)
Theorem C18_tol_checkers_sound :
  forall eps,
  (forall rows d wts im ce sd om oe os,
      rows <> [] -> ncols rows = d -> rect rows d = true -> weights_fit rows d wts -> im_fits d im ->
      wmom_check_e eps (M2 rows) wts im ce sd om oe os = true ->
      forall j, (j < d)%nat ->
        wmom1_ok_e eps (col j rows) (wcol_of wts j) (im_col im j) ce (nd_get om j) (nd_get oe j) (opt_get os j))
  /\ (forall x w im ce sd om oe os,
        length w = length x -> (forall v, im <> IVec v) ->
        wmom_check_e eps (V1 x) (V1 w) im ce sd om oe os = true ->
        wmom1_ok_e eps x w (im_col im 0) ce (nd_get om 0) (nd_get oe 0) (opt_get os 0))
  /\ (forall weighted nsig niter all mean sdev err idx, 0 <= nsig ->
        sigma_clip_check_e eps weighted nsig niter all mean sdev err idx = true ->
        sigma_clip_ok_e eps weighted nsig niter all mean sdev err idx)
  /\ (forall v x u y, interp_check_e eps v x u y = true -> interp_ok v x u y (eps * interp_scale v x u))
  /\ (forall cov cor, cov2cor_check_e eps cov cor = true -> cov2cor_ok_e eps cov cor)
  /\ (forall n a b, mat_close_b_e eps n a b = true -> mat_close_e eps n a b).
Proof. exact tol_checkers_sound. Qed.

Theorem C18_tol_spec_at_eps9 :
  (forall x w im ce mean err sdev, wmom1_ok_e eps9 x w im ce mean err sdev = wmom1_ok x w im ce mean err sdev)
  /\ (forall wtd nsig niter all mean sdev err idx,
        sigma_clip_ok_e eps9 wtd nsig niter all mean sdev err idx = sigma_clip_ok wtd nsig niter all mean sdev err idx)
  /\ (forall cov cor, cov2cor_ok_e eps9 cov cor = cov2cor_ok cov cor)
  /\ (forall n a b, mat_close_e eps9 n a b = mat_close n a b).
Proof. exact ok_e_at_eps9. Qed.

(* ---- meaning of the verdicts of Exec.v_sigma_clip.  Verdict 12 (known class C18.kf_everything_clipped) is
        given only to an output that IS the code-faithful answer — the last non-empty subset with its own
        indices and its own statistics — on an input of the class; verdict 0 certifies the clause as stated.
        Anything else on an input of the class is verdict 3, a violation outside every known class. *)
Theorem C18_known_class_hides_only_faithful : forall x w niter nsig m s e idx,
  let all := index_from 0%Z x (sc_weights x w) in
  let wtd := sc_weighted w in
  let v := v_sigma_clip x w niter nsig (Ok (m, s, e, idx)) in
  (v = 12%Z -> 0 <= nsig /\ kf_everything_clipped wtd nsig (Z.to_nat niter) all = true
               /\ sigma_clip_ok wtd nsig (Z.to_nat niter) all m s e idx)
  /\ (v = 0%Z -> 0 <= nsig /\ sigma_clip_strict_ok wtd nsig (Z.to_nat niter) all m s e idx)
  /\ (v = 0%Z \/ v = 12%Z \/ v = skip \/ v = 1%Z \/ v = 3%Z).
Proof. exact v_sigma_clip_verdicts. Qed.

Theorem C18_known_class_f4 : forall eps x w niter nsig m s e idx,
  let all := index_from 0%Z x (sc_weights x w) in
  let wtd := sc_weighted w in
  let v := v_sigma_clip_e eps x w niter nsig (Ok (m, s, e, idx)) in
  (v = 12%Z -> 0 <= nsig /\ kf_everything_clipped wtd nsig (Z.to_nat niter) all = true
               /\ sigma_clip_ok_e eps wtd nsig (Z.to_nat niter) all m s e idx)
  /\ (v = 0%Z -> 0 <= nsig /\ kf_everything_clipped wtd nsig (Z.to_nat niter) all = false
                /\ sigma_clip_ok_e eps wtd nsig (Z.to_nat niter) all m s e idx).
Proof. exact v_sigma_clip_e_verdicts. Qed.

(* ---- get_stats with the documented wmom keyword calcerr= (ModelKw.get_stats_kw) *)
Theorem C18_get_stats_kw_default : forall arr weights nsig niter,
  get_stats_kw arr weights nsig niter None = get_stats arr weights nsig niter.
Proof. exact get_stats_kw_default. Qed.

Theorem C18_get_stats_kw_ignored : forall arr weights nsig niter ce,
  (nsig <> None \/ niter <> None \/ weights = None) ->
  get_stats_kw arr weights nsig niter ce = get_stats arr weights nsig niter.
Proof. exact get_stats_kw_ignored. Qed.

Theorem C18_get_stats_kw_weighted : forall x w ce,
  length w = length x ->
  exists g, get_stats_kw (V1 x) (Some (V1 w)) None None ce = Ok g
    /\ exists m e2 v, g_mean g = S0 m /\ g_err2 g = S0 e2 /\ g_var g = S0 v
       /\ mom_spec x w None (kw_calcerr ce) true {| m_mean := m; m_err2 := e2; m_var := Some v |}.
Proof. exact get_stats_kw_weighted_1d_spec. Qed.

Theorem C18_get_stats_kw_weighted_Nd : forall rows d wts ce,
  rows <> [] -> ncols rows = d -> rect rows d = true -> weights_fit rows d wts ->
  exists g, get_stats_kw (M2 rows) (Some wts) None None ce = Ok g
    /\ forall j, (j < d)%nat ->
         let x := col j rows in
         let r := wmom1 x (wcol_of wts j) None (kw_calcerr ce) true in
         is_min x (nd_get (g_min g) j) /\ is_max x (nd_get (g_max g) j)
         /\ nd_get (g_mean g) j = m_mean r
         /\ Some (nd_get (g_var g) j) = m_var r
         /\ nd_get (g_err2 g) j = m_err2 r.
Proof. exact get_stats_kw_weighted_Nd. Qed.

Theorem C18_get_stats_kw_checker_sound : forall ce x w clip mn mx mean std err idx,
  gs_col_check_kw ce x w clip mn mx mean std err idx = true -> gs_col_ok_kw ce x w clip mn mx mean std err idx.
Proof. exact gs_col_check_kw_sound. Qed.

(* ---- the squared statements read over the reals, per routine *)
Theorem C18_wmom_real : forall x w im ce mean err sdev,
  (forall a, In a w -> 0 <= a) ->
  wmom1_ok x w im ce mean err sdev ->
  let mref := match im with None => wmean_def w x | Some m => m end in
  let A := absmean_def w x + im_abs im in
  (if ce then (Rabs (Q2R err - sqrt (Q2R (werr2_calc_def w x mref))) <= Q2R (eps9 * (err + A)))%R
   else (Rabs (Q2R err - sqrt (Q2R (werr2_default_def w))) <= Q2R (eps9 * err))%R)
  /\ match sdev with
     | Some s => (Rabs (Q2R s - sqrt (Q2R (wvar_def w x mref))) <= Q2R (eps9 * (s + A)))%R
     | None => True
     end.
Proof. exact wmom1_ok_real. Qed.

Theorem C18_sigma_clip_stats_real : forall weighted nsig niter all mean sdev err idx,
  (weighted = true -> forall p, In p all -> 0 <= p_w p) ->
  sigma_clip_ok weighted nsig niter all mean sdev err idx ->
  exists sub, map p_idx sub = idx /\ clip_fixpoint weighted nsig niter all sub
    /\ let '(m, e2, v) := stat_def weighted sub in
       let A := sc_scale weighted sub in
       (Rabs (Q2R mean - Q2R m) <= Q2R (eps9 * A))%R
       /\ (Rabs (Q2R sdev - sqrt (Q2R v)) <= Q2R (eps9 * (sdev + A)))%R
       /\ (Rabs (Q2R err - sqrt (Q2R e2)) <= Q2R (eps9 * (err + A)))%R.
Proof. exact sigma_clip_ok_real. Qed.

Theorem C18_cov2cor_real : forall c num den2,
  0 < den2 -> cor_close c num den2 ->
  (Rabs (Q2R c - Q2R num / sqrt (Q2R den2)) <= Q2R (eps9 * Qabs c))%R.
Proof. exact cor_close_real. Qed.

(* ---- history, frames, contracts, rejections *)
(* the k-th answer of any sequence of calls, started in any state, is the answer of that call alone *)
Theorem C18_history_independent : forall cs st k c,
  nth_error cs k = Some c -> nth_error (run_seq st cs) k = Some (run c).
Proof. exact history_independent. Qed.

Theorem C18_wmom_column_frame : forall rows rows' d wts wts' im im' ce sd j,
  rows <> [] -> ncols rows = d -> rect rows d = true -> weights_fit rows d wts -> im_fits d im ->
  rows' <> [] -> ncols rows' = d -> rect rows' d = true -> weights_fit rows' d wts' -> im_fits d im' ->
  (j < d)%nat ->
  col j rows = col j rows' -> wcol_of wts j = wcol_of wts' j -> im_col im j = im_col im' j ->
  exists o o', wmom (M2 rows) wts im ce sd = Ok o /\ wmom (M2 rows') wts' im' ce sd = Ok o'
               /\ out_col o j = out_col o' j.
Proof. exact wmom_column_frame. Qed.

Theorem C18_interplin_pointwise : forall v x u o,
  (2 <= length x)%nat -> (length x <= length v)%nat -> interplin v x u = Ok o ->
  length o = length u /\ forall k, (k < length u)%nat -> nth k o 0 = interp1 v x (nth k u 0).
Proof. exact interplin_pointwise. Qed.

(* numpy's contract of a.searchsorted(v) (side='left') holds for the model's implementation on every
   strictly increasing table: a[i-1] < v <= a[i] *)
Theorem C18_searchsorted_contract : forall x u,
  incr x ->
  let k := cnt x u in
  searchsorted x u = Z.of_nat k
  /\ (k <= length x)%nat
  /\ (forall i, (i < k)%nat -> nth i x 0 < u)
  /\ (forall i, (k <= i)%nat -> (i < length x)%nat -> u <= nth i x 0).
Proof. intros x u H. split; [reflexivity|]. exact (searchsorted_contract x u H). Qed.

(* the weighted-median checker decides the specification exactly *)
Theorem C18_wmedian_check_iff : forall l v, wmedian_check l v = true <-> wmedian_ok l v.
Proof. exact wmedian_check_iff. Qed.

(* exactly these malformed calls are refused, with these error classes *)
Theorem C18_rejections :
  (forall rows w niter nsig, sigma_clip (M2 rows) w niter nsig = Err EValue)
  /\ (forall x w niter nsig, length w <> length x -> sigma_clip (V1 x) (Some (V1 w)) niter nsig = Err EValue)
  /\ (forall cor d, rect cor (length cor) = true -> length d <> length cor -> cor2cov cor d = Err EValue)
  /\ (forall rows w im ce sd, rect rows (ncols rows) = true -> length w <> length rows ->
         wmom (M2 rows) (V1 w) im ce sd = Err EValue)
  /\ (forall v x u, u <> [] -> (length x < 2)%nat -> interplin v x u = Err EIndex)
  /\ (forall x N, (N <= 0)%Z \/ x = [] -> boxcar_average x N = Err EValue).
Proof.
  split; [exact sigma_clip_rejects_2d|]. split; [exact sigma_clip_rejects_size|].
  split; [exact cor2cov_rejects_size|]. split; [exact wmom_rejects_weights_Nd|].
  split; [exact interplin_short_table|exact boxcar_rejects].
Qed.

(* the reported subset consists of input points, untouched and in their original order *)
Theorem C18_sigma_clip_indices_frame : forall x weights niter nsig,
  0 <= nsig -> length (sc_weights x weights) = length x ->
  exists r sub,
    sigma_clip (V1 x) (match weights with Some w => Some (V1 w) | None => None end) niter nsig = Ok r
    /\ sc_idx r = map p_idx sub
    /\ Sorted.StronglySorted Z.lt (sc_idx r)
    /\ forall p, In p sub ->
         (0 <= p_idx p < Z.of_nat (length x))%Z
         /\ p_x p = nth (Z.to_nat (p_idx p)) x 0
         /\ p_w p = nth (Z.to_nat (p_idx p)) (sc_weights x weights) 0.
Proof. exact sigma_clip_indices_frame. Qed.

(* ---- non-vacuity of the statements of this round *)
Example C18_nonvacuous_round4 :
  (* the known class hides only the faithful output: same input, two outputs *)
  v_sigma_clip [-1; 1] None 4 (1 # 2) (Ok (0, 1, 7071067811865475 # 10000000000000000, [0; 1]%Z)) = 12%Z
  /\ v_sigma_clip [-1; 1] None 4 (1 # 2) (Ok (0, 1, 7071067811865475 # 10000000000000000, [])) = 3%Z
  (* calcerr=False through get_stats: err^2 = 1/sum(w) = 1/4 instead of the calcerr value *)
  /\ (exists g, get_stats_kw (V1 [1; 2; 3]) (Some (V1 [1; 1; 2])) None None (Some false) = Ok g /\ g_err2 g = S0 (1 / 4))
  /\ (exists g, get_stats_kw (V1 [1; 2; 3]) (Some (V1 [1; 1; 2])) None None None = Ok g /\ g_err2 g <> S0 (1 / 4))
  (* a float32-precision check that accepts a value the 1e-9 check rejects *)
  /\ interp_check_e eps_f4 [1; 3; 2] [0; 1; 2] (1 # 2) (2000001 # 1000000) = true
  /\ interp_check [1; 3; 2] [0; 1; 2] (1 # 2) (2000001 # 1000000) = false
  (* searchsorted on a table: 1 < 3/2 <= 2 *)
  /\ incr [0; 1; 2; 5] /\ cnt [0; 1; 2; 5] (3 # 2) = 2%nat
  (* a sequence of calls *)
  /\ nth_error (run_seq [] [CBoxcar [1; 2] 1; CWmedian [3; 1; 2; 4] [1; 1; 1; 1]]) 1 = Some (OWmedian (Ok 2))
  /\ wmedian_check (combine [3; 1; 2; 4] [1; 1; 1; 1]) 2 = true.
Proof.
  split; [vm_compute; reflexivity|]. split; [vm_compute; reflexivity|].
  split; [eexists; split; [vm_compute; reflexivity|vm_compute; reflexivity]|].
  split; [eexists; split; [vm_compute; reflexivity|vm_compute; discriminate]|].
  split; [vm_compute; reflexivity|]. split; [vm_compute; reflexivity|].
  split; [simpl; repeat split; reflexivity|]. split; [vm_compute; reflexivity|].
  split; [vm_compute; reflexivity|vm_compute; reflexivity].
Qed.

(* ================================================================== statistics that do not exist *)
(* Model.v totalises x/0 = 0; a subset whose total weight is zero has NO weighted mean / deviation / error
   (the code returns nan).  UndefModel.sigma_clip_u makes this explicit.  A defined outcome is the outcome of
   Model.sigma_clip, and then the initial subset and every later subset whose statistics were used had a
   non-zero total weight — so the theorems above are not true "for the wrong reason" on it ... *)
Theorem C18_sigma_clip_defined : forall x w niter nsig r,
  0 <= nsig -> length (sc_weights x w) = length x ->
  sigma_clip_u x w (Z.to_nat niter) nsig = ScOk r ->
  sigma_clip (V1 x) (match w with Some l => Some (V1 l) | None => None end) niter nsig = Ok r
  /\ stats_defined (sc_weighted w) (index_from 0%Z x (sc_weights x w)) = true
  /\ exists k, (k <= Z.to_nat niter)%nat
       /\ sc_idx r = map p_idx (iterate (clip_step (sc_weighted w) nsig) k (index_from 0%Z x (sc_weights x w)))
       /\ forall j, (j <= k)%nat ->
            stats_defined (sc_weighted w) (iterate (clip_step (sc_weighted w) nsig) j (index_from 0%Z x (sc_weights x w))) = true.
Proof. exact sigma_clip_u_ok. Qed.

(* ... and an undefined outcome reports the index set of the first iterate of the discard rule that has no
   statistics; every earlier iterate had them (the index set is still determined by the rule; the iteration has
   no defined continuation) *)
Theorem C18_sigma_clip_undefined : forall x w niter nsig idx,
  0 <= nsig ->
  sigma_clip_u x w niter nsig = ScUndef idx ->
  let all := index_from 0%Z x (sc_weights x w) in
  let wtd := sc_weighted w in
  exists k, (k <= niter)%nat
    /\ idx = map p_idx (iterate (clip_step wtd nsig) k all)
    /\ stats_defined wtd (iterate (clip_step wtd nsig) k all) = false
    /\ forall j, (j < k)%nat -> stats_defined wtd (iterate (clip_step wtd nsig) j all) = true.
Proof. exact sigma_clip_u_undef. Qed.

Example C18_nonvacuous_undefined :
  (* the survivors of the first round (4 and 6) both have weight zero *)
  sigma_clip_u [0; 4; 6; 10] (Some [1; 0; 0; 1]) 4 (1 # 2) = ScUndef [1; 2]%Z
  (* with niter = 0 that round is never made: defined *)
  /\ (exists r, sigma_clip_u [0; 4; 6; 10] (Some [1; 0; 0; 1]) 0 (1 # 2) = ScOk r /\ sc_idx r = [0; 1; 2; 3]%Z)
  (* all weights zero: undefined from the start *)
  /\ sigma_clip_u [1; 2; 3] (Some [0; 0; 0]) 4 3 = ScUndef [0; 1; 2]%Z
  (* the verdicts: nan with these indices is "undefined statistics" (-2), nan with other indices or finite numbers are 3 *)
  /\ v_sigma_clip_undef false [0; 4; 6; 10] (Some [1; 0; 0; 1]) 4 (1 # 2) [1; 2]%Z = undef
  /\ v_sigma_clip_undef false [0; 4; 6; 10] (Some [1; 0; 0; 1]) 4 (1 # 2) [0; 3]%Z = 3%Z
  /\ sc_guard [0; 4; 6; 10] (Some [1; 0; 0; 1]) 4 (1 # 2) 0%Z = 3%Z
  /\ wmom_undef_cols (M2 [[3; 1]; [4; 2]]) (M2 [[1; 0]; [2; 0]]) = [false; true].
Proof.
  split; [vm_compute; reflexivity|]. split; [eexists; split; vm_compute; reflexivity|].
  split; [vm_compute; reflexivity|]. split; [vm_compute; reflexivity|]. split; [vm_compute; reflexivity|].
  split; vm_compute; reflexivity.
Qed.

(* ================================================================== round 6: more of the source translated *)
(* the rejection tests and their exception classes as the source has them *)
Theorem C18_gen_rejections :
  (forall x w im ce sd, length w <> length x -> wmom (V1 x) (V1 w) im ce sd = Err gen_wmom_shape_error)
  /\ (forall rows w niter nsig, gen_sc_rejects_ndim 2 = true /\ gen_sc_rejects_ndim 1 = false
        /\ sigma_clip (M2 rows) w niter nsig = Err gen_sc_ndim_error)
  /\ (forall x w niter nsig,
        sigma_clip (V1 x) (Some (V1 w)) niter nsig =
        if gen_sc_rejects_size (Z.of_nat (length w)) (Z.of_nat (length x)) then Err gen_sc_size_error
        else sigma_clip (V1 x) (Some (V1 w)) niter nsig)
  /\ (forall cov i, rect cov (length cov) = true -> (i < length cov)%nat -> gen_cov_diag_bad (mget cov i i) = true ->
        cov2cor cov = Err gen_cov_diag_error).
Proof. exact gen_rejections. Qed.

(* positions of mean / error / deviation / indices in every return statement and every unpacking *)
Theorem C18_gen_result_orders :
  gen_wmom_return_sdev = [SMean; SErr; SStd] /\ gen_wmom_return = [SMean; SErr]
  /\ gen_scstats_unpack = gen_wmom_return_sdev /\ gen_scstats_return = [SMean; SErr; SStd]
  /\ gen_sc_return_full = [SMean; SStd; SErr; SIdx]
  /\ gen_gs_clip_unpack = firstn 3 gen_sc_return_full
  /\ gen_gs_wmom_unpack = gen_wmom_return_sdev.
Proof. exact gen_result_orders. Qed.

(* numpy's argsort contract for the model's sort: a permutation of the input, sorted by value *)
Theorem C18_argsort_contract : forall l,
  Permutation.Permutation l (isort_p l) /\ Sorted.StronglySorted fle (isort_p l).
Proof. intro l. split; [apply isort_perm|apply isort_sorted]. Qed.

(* C04 -- property theorems only (bodies live in DecProofs.v / ScanProofs.v / WriteProofs.v / RoundTrip.v /
   CheckProofs.v).

   F sz e : the text printf("%.16g" / "%.7g") writes for the floating-point element with native bytes e
   P sz s : the native bytes scanf("%lf" / "%f") stores for the token s
   They are universally quantified; [fcontract F P t] (Spec.v, H_num) is the only thing assumed about
   them and is evaluated by the contract monitor on every case of every run. *)
From Coq Require Import QArith Qabs.
From Coq.Strings Require Import Byte.
From EsVerif.Common Require Import Base Bytes.
From EsVerif.C04 Require Import Gen TextModel Spec DecProofs ScanProofs WriteProofs RoundTrip CheckProofs FmtModel FmtProofs AccProofs Exec ExecProofs History ScanSpec CheckComplete NoNewline TieProofs.
Open Scope Z_scope.

(* ---- integers: printf %d / scanf %d and the memory image are inverse to each other *)
Theorem C04_dec_parse_roundtrip : forall z, parse_dec (dec z) = z.
Proof. exact dec_parse_roundtrip. Qed.

Theorem C04_dec_chars : forall z, tok_ok TInt (dec z) = true
  /\ exists sg ds, dec z = sg ++ ds /\ (sg = [] \/ sg = [minus]) /\ ds <> [] /\ Forall (fun b => is_digit b = true) ds.
Proof. intro z. split; [apply tok_ok_dec|apply dec_shape]. Qed.

Theorem C04_int_image_roundtrip : forall sg e, encode_le (length e) (decode_le sg e) = e.
Proof. exact encode_decode_le. Qed.

(* ---- the scanner: after the text of a field followed by its delimiter or newline, the reader returns
   the field and leaves the stream at the first byte of the next field -- under the premise the proof
   forces: a numeric field read with the format "<conv> <delim>" must not be followed (behind a
   white-space separator) by white space or the delimiter character *)
Theorem C04_scan_field_consumes_exactly : forall F P d, delim_ok d -> forall f els sep rest,
  fld_ok_b f = true -> length els = fnel f -> Forall (cell_good F P (fkind f)) els ->
  sep = d \/ sep = nl ->
  (is_str (fkind f) = false -> byte_eqb d space = false -> safe_next d sep rest) ->
  read_field P d f (join_els d (map (cell_text F (fkind f)) els) ++ sep :: rest)
  = Ok (map (rt_el F P (fkind f)) els, rest).
Proof. exact read_field_ok. Qed.

(* ---- the round trip (sfile: the row count comes from the header), outside the known class *)
Theorem C04_roundtrip_outside_known : forall F P d t,
  table_ok t -> delim_ok d -> fcontract F P t -> kf_leading_ws_after_numeric d t = false ->
  read_text P d (tdt t) (Z.of_nat (length (trows t))) (write_text F d t) = Ok (expected F P t)
  /\ roundtrip_ok t (read_text P d (tdt t) (Z.of_nat (length (trows t))) (write_text F d t)).
Proof.
  intros F P d t Ht Hd Hc Hk. pose proof (roundtrip_model F P d Hd t Ht Hc Hk) as E.
  split; [exact E|]. rewrite E. apply expected_ok; assumption.
Qed.

(* ---- the same through Recfile without nrows= (rows counted as lines of the file) *)
Theorem C04_roundtrip_recfile_outside_known : forall F P d t,
  table_ok t -> delim_ok d -> fcontract F P t -> strings_noeol t -> kf_leading_ws_after_numeric d t = false ->
  count_lines (write_text F d t) = Z.of_nat (length (trows t))
  /\ roundtrip_ok t (read_text P d (tdt t) (count_lines (write_text F d t)) (write_text F d t)).
Proof.
  intros F P d t Ht Hd Hc Hn Hk. pose proof (count_lines_text F P d Hd t Ht Hc Hn) as E.
  split; [exact E|]. rewrite E. apply C04_roundtrip_outside_known; assumption.
Qed.

(* ---- for the white-space delimiter the statement holds at full strength (the class is empty) *)
Theorem C04_roundtrip_space_delim : forall F P t,
  table_ok t -> fcontract F P t ->
  roundtrip_ok t (read_text P space (tdt t) (Z.of_nat (length (trows t))) (write_text F space t)).
Proof. intros F P t Ht Hc. apply C04_roundtrip_outside_known; try assumption; reflexivity. Qed.

(* ---- the instance the correspondence run evaluates: printf("%.<p>g") and strtod/strtof as modelled in
   FmtModel.v, the precisions <p> being Gen.print_prec_f8 / Gen.print_prec_f4 (regenerated from
   records.cpp on every run).  [fcontract F_model P_model t] is decided by evaluation for every case. *)
Theorem C04_roundtrip_fmt_model : forall d t,
  table_ok t -> delim_ok d -> fcontract F_model P_model t -> kf_leading_ws_after_numeric d t = false ->
  read_text P_model d (tdt t) (Z.of_nat (length (trows t))) (write_text F_model d t) = Ok (expected F_model P_model t)
  /\ roundtrip_ok t (read_text P_model d (tdt t) (Z.of_nat (length (trows t))) (write_text F_model d t)).
Proof. intros d t. apply C04_roundtrip_outside_known. Qed.

(* ---- two of the three parts of H_num hold for the modelled printf/strtod for EVERY memory image and every precision:
   the printed text is one well-formed scanf token, and strtod stores exactly sz bytes for it.  H_num therefore
   reduces to its accuracy part (16 / 7 significant digits, NaN, +-inf), which is what the monitor decides per case *)
Theorem C04_fmt_model_token : forall sz e, tok_ok TFloat (F_model sz e) = true.
Proof. exact F_model_tok_ok. Qed.

Theorem C04_fmt_model_length : forall sz e, sz = 4%nat \/ sz = 8%nat -> length (P_model sz (F_model sz e)) = sz.
Proof. exact F_model_P_model_length. Qed.

Theorem C04_fmt_model_contract_is_accuracy : forall t,
  table_ok t -> facc_b F_model P_model t = true -> fcontract F_model P_model t.
Proof. exact fcontract_of_acc. Qed.

(* the contract is not vacuous for the modelled printf/strtod: binary64 1/3, -0, nan, inf, the least subnormal,
   1e22, 123456, 0.0001, binary32 0.1f and FLT_MAX print as glibc prints them and come back within the stated digits *)
(* ---- the accuracy part as a theorem on finite sub-domains (decided by the kernel): every integer |z| <= 2000 held in
   a binary32 or binary64 column -- this contains the only text data of esutil's own test-suite -- is printed as a
   well-formed token and read back EXACTLY; powers of two and ten meet the contract *)
Theorem C04_accuracy_small_integers : forall sz z, sz = 4%nat \/ sz = 8%nat -> -2000 <= z <= 2000 ->
  fcell_ok_b F_model P_model sz (int_img sz z) = true
  /\ P_model sz (F_model sz (int_img sz z)) = int_img sz z
  /\ is_int_val (int_img sz z) z = true.
Proof. exact accuracy_small_integers. Qed.

Theorem C04_accuracy_powers : forall k,
  (-128 <= k <= 128 -> fcell_ok_b F_model P_model 8 (pow_img 2 8 k) = true)
  /\ (-149 <= k <= 127 -> fcell_ok_b F_model P_model 4 (pow_img 2 4 k) = true)
  /\ (-40 <= k <= 40 -> fcell_ok_b F_model P_model 8 (pow_img 10 8 k) = true)
  /\ (-37 <= k <= 38 -> fcell_ok_b F_model P_model 4 (pow_img 10 4 k) = true).
Proof. exact accuracy_powers. Qed.

(* ---- where the accuracy clause of H_num comes from: printing correctly rounded to [digits] significant digits and reading
   back a nearest representable number (x itself being representable) differ from x by at most one unit of the last
   digit; and the two rounding steps of the model (decimal digits in printf, binary mantissa in strtod) are
   nearest-roundings of the exact quotient *)
Theorem C04_accuracy_from_correct_rounding : forall digits x p y e,
  (Qpower ten e <= Qabs x)%Q -> (Qabs x < Qpower ten (e + 1))%Q ->
  (Qabs (p - x) <= (1 # 2) * Qpower ten (e - digits + 1))%Q ->
  (Qabs (y - p) <= Qabs (x - p))%Q ->
  sig_close digits x y.
Proof. exact sig_close_from_correct_rounding. Qed.

Theorem C04_model_rounding_is_nearest : forall a b, 0 <= a -> 0 < b -> 2 * Z.abs (rhe a b * b - a) <= b.
Proof. exact rhe_nearest. Qed.

Example C04_fmt_model_examples :
  F16 8 [x55; x55; x55; x55; x55; x55; xd5; x3f] = [x30; x2e; x33; x33; x33; x33; x33; x33; x33; x33; x33; x33; x33; x33; x33; x33; x33; x33]
  /\ F16 8 [x00; x00; x00; x00; x00; x00; x00; x80] = [x2d; x30]
  /\ F16 8 [x01; x00; x00; x00; x00; x00; x00; x00] = [x34; x2e; x39; x34; x30; x36; x35; x36; x34; x35; x38; x34; x31; x32; x34; x36; x35; x65; x2d; x33; x32; x34]
  /\ F16 8 [x92; xd5; x4d; x06; xcf; xf0; x80; x44] = [x31; x65; x2b; x32; x32]
  /\ F16 8 [x00; x00; x00; x00; x00; x24; xfe; x40] = [x31; x32; x33; x34; x35; x36]
  /\ F16 8 [x2d; x43; x1c; xeb; xe2; x36; x1a; x3f] = [x30; x2e; x30; x30; x30; x31]
  /\ F16 4 [xcd; xcc; xcc; x3d] = [x30; x2e; x31]
  /\ F16 4 [xff; xff; x7f; x7f] = [x33; x2e; x34; x30; x32; x38; x32; x33; x65; x2b; x33; x38]
  /\ P_model 8 [x30; x2e; x31] = [x9a; x99; x99; x99; x99; x99; xb9; x3f]
  /\ P_model 4 [x33; x2e; x34; x30; x32; x38; x32; x33; x65; x2b; x33; x38] = [xfd; xff; x7f; x7f]
  /\ fcell_ok_b F16 P_model 8 [x55; x55; x55; x55; x55; x55; xd5; x3f] = true
  /\ fcell_ok_b F16 P_model 8 [x01; x00; x00; x00; x00; x00; x00; x00] = true
  /\ fcell_ok_b F16 P_model 8 [x00; x00; x00; x00; x00; x00; xf8; xff] = true
  /\ fcell_ok_b F16 P_model 8 [x00; x00; x00; x00; x00; x00; xf0; xff] = true
  /\ fcell_ok_b F16 P_model 4 [xff; xff; x7f; x7f] = true
  /\ fcell_ok_b F16 P_model 4 [xcd; xcc; xcc; x3d] = true.
Proof. vm_compute. repeat split; reflexivity. Qed.

(* ---- the full statement ("for every single-character delimiter", strings with leading blanks) is false
   of the code: [('s','S3'),('i','i4')], rows ("  a",1),("  b",2), delim ',' *)

Theorem C04_full_refuted : exists F P d t,
  table_ok t /\ delim_ok d /\ fcontract F P t /\ strings_noeol t
  /\ ~ roundtrip_ok t (read_text P d (tdt t) (Z.of_nat (length (trows t))) (write_text F d t)).
Proof.
  exists (fun _ e => e), (fun _ e => e), x2c, kf_witness.
  split; [reflexivity|]. split; [reflexivity|]. split; [reflexivity|]. split; [reflexivity|].
  assert (E : read_text (fun _ e => e) x2c (tdt kf_witness) (Z.of_nat (length (trows kf_witness)))
                (write_text (fun _ e => e) x2c kf_witness) = Err ERuntime) by (vm_compute; reflexivity).
  rewrite E. intros [tout [H _]]. discriminate.
Qed.

(* ---- every clause of the class is needed: each has an in-scope member on which the read fails *)
Theorem C04_known_class_each_clause_refuted :
  refutes x2c kf_witness /\ refutes x3b w_delim /\ refutes x09 w_tab
  /\ kf_leading_ws_after_numeric x2c w_tab = false /\ kf_leading_ws_after_numeric x2c w_delim = false
  /\ kf_leading_ws_after_numeric space kf_witness = false.
Proof. exact kf_clause_witnesses. Qed.

(* ---- second known class: a finite binary64 whose 16-digit text exceeds the largest finite value is read back as an
   infinity (the largest finite double and its predecessor, either sign).  For the modelled printf/strtod with the
   precision of records.cpp the contract H_num FAILS on such a cell: 1.7976931348623157e308 prints as
   1.797693134862316e+308, which strtod rounds to +inf *)
Theorem C04_float_print_overflow_witness :
  table_ok w_dblmax /\ kf_float_print_overflow F16 P_model w_dblmax = true /\ fcontract_b F16 P_model w_dblmax = false
  /\ F16 8 [xff; xff; xff; xff; xff; xff; xef; x7f]
     = [x31; x2e; x37; x39; x37; x36; x39; x33; x31; x33; x34; x38; x36; x32; x33; x31; x36; x65; x2b; x33; x30; x38]
  /\ P_model 8 (F16 8 [xff; xff; xff; xff; xff; xff; xef; x7f]) = [x00; x00; x00; x00; x00; x00; xf0; x7f].
Proof. vm_compute. repeat split; reflexivity. Qed.

(* ---- the stored header records the delimiter and a byte-order-free dtype *)
Theorem C04_header : forall d t, header_ok d t (header_delim d, header_dtype (tdt t)).
Proof. exact header_model_ok. Qed.

(* ---- tables holding the same values in different byte orders produce the same text *)
Theorem C04_big_endian_same_text : forall F d t t',
  map fkind (tdt t) = map fkind (tdt t') ->
  map (to_native_row (tdt t)) (trows t) = map (to_native_row (tdt t')) (trows t') ->
  write_text F d t = write_text F d t'.
Proof. exact same_values_same_text. Qed.

Theorem C04_write_text_native : forall F d t, write_text F d (native_table t) = write_text F d t.
Proof. exact write_text_native. Qed.

(* ---- soundness of the checkers evaluated on the implementation's outputs *)
Theorem C04_checkers_sound :
  (forall tin out, roundtrip_check tin out = true -> roundtrip_ok tin out)
  /\ (forall d t h, header_check d t h = true -> header_ok d t h)
  /\ (forall digits a b, fval_ok_b digits a b = true -> fval_ok digits a b).
Proof.
  split; [exact roundtrip_check_sound|]. split; [exact header_check_sound|exact fval_ok_b_sound].
Qed.

(* ---- the verdict terms of the correspondence run evaluate exactly the models above (the tabulated printf/strtod
   values are F_model / P_model), and verdict 0 on an in-scope case establishes the property for the
   implementation's output, the equality of the file text with the model's, H_num, and non-membership of the class *)
Theorem C04_exec_models : forall t d,
  m_sfile2 d t = m_sfile_gen F_model P_model d t
  /\ m_recfile2 d t = m_recfile_gen F_model P_model d t
  /\ fcontract_b (F_tab (ftab t)) (P_tab (ptab (ftab t))) t = fcontract_b F_model P_model t.
Proof. exact exec_models. Qed.

Theorem C04_verdict0_sfile : forall d t text h out, in_scope d t = true -> v_sfile2 d t text h out = 0 ->
  text = write_text F_model d t /\ roundtrip_ok t out /\ header_ok d t h
  /\ fcontract F_model P_model t /\ kf_leading_ws_after_numeric d t = false.
Proof. exact verdict0_sfile. Qed.

Theorem C04_verdict0_recfile : forall d t text out, in_scope d t = true -> v_recfile2 d t text out = 0 ->
  text = write_text F_model d t /\ roundtrip_ok t out
  /\ fcontract F_model P_model t /\ kf_leading_ws_after_numeric d t = false.
Proof. exact verdict0_recfile. Qed.

(* ================================================================== proof-deepening round
   ---- history: the two operations as a step function over a file system (History.v).  sfile.read takes delimiter,
   dtype and row count from the STORED header; the reader's fields rebuilt from the byte-order-free type strings are
   the native fields of the table that was written *)
Theorem C04_reader_fields_from_header : forall fs : list fld, map fld_of_header (header_dtype fs) = map native_fld fs.
Proof. exact fld_of_header_native. Qed.

(* frame: a read changes no file; a write changes only its own path *)
Theorem C04_read_changes_nothing : forall F P fs p, fst (step F P fs (ORead p)) = fs.
Proof. exact read_changes_nothing. Qed.

Theorem C04_write_changes_only_its_path : forall F P fs p d t q, bytes_eqb p q = false ->
  fs_get (fst (step F P fs (OWrite p d t))) q = fs_get fs q.
Proof. exact write_changes_only_its_path. Qed.

(* the answer of a read is determined by the last write to its path alone: whatever the file system held before (same
   size or not), whatever other paths were written or read in between; it is the single-call model *)
Theorem C04_read_after_write : forall F P fs0 before p d t between,
  forallb (fun o => negb (writes_path p o)) between = true ->
  snd (step F P (run_ops F P (fst (step F P (run_ops F P fs0 before) (OWrite p d t))) between) (ORead p))
  = OutRead (read_text P d (tdt t) (Z.of_nat (length (trows t))) (write_text F d t)).
Proof. exact read_after_write. Qed.

Theorem C04_roundtrip_any_history : forall F P fs0 before p d t between,
  table_ok t -> delim_ok d -> fcontract F P t -> kf_leading_ws_after_numeric d t = false ->
  forallb (fun o => negb (writes_path p o)) between = true ->
  exists r, snd (step F P (run_ops F P (fst (step F P (run_ops F P fs0 before) (OWrite p d t))) between) (ORead p)) = OutRead r
            /\ r = Ok (expected F P t) /\ roundtrip_ok t r.
Proof. exact roundtrip_any_history. Qed.

(* ---- the scanner on ARBITRARY text (ScanSpec.v): maximal munch, exact acceptance and rejection *)
Theorem C04_scan_tok_accepts : forall k l t r, scan_tok k l = TOk t r <->
  l = t ++ r /\ tok_ok k t = true /\ (exists s, steps k Q0 t = Some s /\ match r with [] => True | c :: _ => TextModel.step k s c = None end).
Proof. exact scan_tok_accepts. Qed.

Theorem C04_scan_tok_rejects : forall k l, (exists r, scan_tok k l = TFail r) <->
  (exists s t r, run k Q0 l = (s, t, r) /\ accepting s = false).
Proof. exact scan_tok_rejects. Qed.

(* the empty-field branch of scan_column_values: NaN for floating point, RuntimeError for integers; other garbage and
   end of file are errors *)
Theorem C04_empty_field : forall d, delim_ok d -> byte_eqb d space = false -> is_ws d = false -> forall pre r, all_ws pre ->
  read_num TFloat d (pre ++ d :: r) = Ok (nan_tok, r) /\ read_num TInt d (pre ++ d :: r) = Err ERuntime.
Proof. intros d Hd Hs Hw pre r Hp. split; [apply empty_field_float|apply empty_field_int]; assumption. Qed.

Theorem C04_garbage_field : forall d, byte_eqb d space = false -> forall k pre c r,
  all_ws pre -> is_ws c = false -> numchar c = false -> c <> d -> read_num k d (pre ++ c :: r) = Err ERuntime.
Proof. exact garbage_field. Qed.

Theorem C04_eof_field : forall k d pre, all_ws pre -> read_num k d pre = Err ERuntime.
Proof. exact eof_field. Qed.

(* fixed-width strings: exactly w bytes, none 0xff; a file that ends inside a string cell is rejected *)
Theorem C04_take_bytes_spec : forall w l e r, take_bytes w l = Ok (e, r) <->
  l = e ++ r /\ length e = w /\ Forall (fun b => byte_eqb b xff = false) e.
Proof. exact take_bytes_spec. Qed.

Theorem C04_take_bytes_truncated : forall w l, (length l < w)%nat -> take_bytes w l = Err ERuntime.
Proof. exact take_bytes_truncated. Qed.

(* rejections: whatever the text, the reader succeeds or fails with RuntimeError; no other error class *)
Theorem C04_read_error_class : forall P d fs n l e, read_text P d fs n l = Err e -> e = ERuntime.
Proof. exact read_text_error_class. Qed.

(* option path nrows= smaller than the file (or the first rows of a larger file): the first k rows come back *)
Theorem C04_read_first_rows : forall F P d, delim_ok d -> forall t k,
  table_ok t -> fcontract F P t -> kf_leading_ws_after_numeric d t = false ->
  (1 <= k <= length (trows t))%nat ->
  read_text P d (tdt t) (Z.of_nat k) (write_text F d t)
  = Ok {| tdt := map native_fld (tdt t); trows := firstn k (trows (expected F P t)) |}.
Proof. exact read_first_rows. Qed.

(* blank tolerance of "<conv> <delim>": blanks before a number and between a number and its non-blank delimiter are skipped *)
Theorem C04_blank_tolerance : forall k d pre tok mid rest,
  byte_eqb d space = false -> numchar d = false -> is_ws d = false ->
  all_ws pre -> all_ws mid -> tok_ok k tok = true ->
  read_num k d (pre ++ tok ++ mid ++ d :: rest) = Ok (tok, rest).
Proof. exact blank_tolerance. Qed.

(* the newline behind the last row is not needed: a file that ends right behind the last cell reads the same *)
Theorem C04_roundtrip_without_final_newline : forall F P d, delim_ok d -> forall t,
  table_ok t -> fcontract F P t -> kf_leading_ws_after_numeric d t = false ->
  read_text P d (tdt t) (Z.of_nat (length (trows t))) (removelast (write_text F d t)) = Ok (expected F P t).
Proof. exact roundtrip_without_final_newline. Qed.

(* ---- the checkers DECIDE the property where no real-number search is involved (CheckComplete.v) *)
Theorem C04_header_check_iff : forall d t h, header_check d t h = true <-> header_ok d t h.
Proof. exact header_check_iff. Qed.

Theorem C04_roundtrip_check_iff_float_free : forall tin out, float_free tin = true ->
  (roundtrip_check tin out = true <-> roundtrip_ok tin out).
Proof. exact roundtrip_check_iff. Qed.

(* non-vacuity of the new statements: a write, an unrelated write and a read in between, then the read *)
Example C04_history_example :
  let F := fun (_ : nat) (e : list byte) => e in
  let ops := [OWrite [x61] x2c nv_table; OWrite [x62] x3b kf_witness; ORead [x62]] in
  snd (step F F (run_ops F F [] ops) (ORead [x61])) = OutRead (Ok (expected F F nv_table))
  /\ float_free kf_witness = true /\ roundtrip_check nv_table (Ok (expected F F nv_table)) = true
  /\ read_num TFloat x2c [x20; x2c; x35] = Ok (nan_tok, [x35])
  /\ scan_tok TFloat [x31; x65; x2c] = TOk [x31; x65] [x2c]
  /\ scan_tok TFloat [x2d; x2c] = TFail [x2c]
  /\ take_bytes 3 [x61; x62] = Err ERuntime
  /\ read_num TInt x2c [x20; x37; x20; x20; x2c; x38] = Ok ([x37], [x38])
  /\ read_text F x2c (tdt kf_witness) 1 (removelast (write_text F x2c kf_witness))
     = Ok {| tdt := tdt (expected F F kf_witness); trows := firstn 1 (trows (expected F F kf_witness)) |}
  (* strings may hold any control character except \n and \r: \x0b, \x1c, \x00 do not end a line *)
  /\ (let t := {| tdt := [ {| fname := [x73]; fkind := KStr 3; forder := NA; fshape := [] |} ];
                   trows := [ [[[x61; x0b; x1c]]]; [[[x1e; x00; x7f]]] ] |} in
      table_ok t /\ strings_noeol t /\ count_lines (write_text F x3b t) = 2
      /\ read_text F x3b (tdt t) 2 (write_text F x3b t) = Ok (expected F F t)).
Proof. vm_compute. repeat split; reflexivity. Qed.

(* ================================================================== round 6: the hand model is the source's loop nest
   TieProofs.v: the writer of TextModel.v equals the double loop of WriteRows/WriteField with the conditions
   `el < nel-1`, `fnum < mNfields-1` and the row terminator; the harness proves on every run that these conditions,
   the terminator, the white-space-mode test, the extra-fgetc condition, the string byte loop bound, the [1:] slices and
   the line-count increment regenerated from the source (Gen.v) are these very terms *)
Theorem C04_source_writer_loops : forall F d fs rows, Forall (fun r : row => length r = length fs) rows ->
  rows_loop model_elem_delim model_field_delim nl F d fs rows = write_rows F d fs rows.
Proof. exact write_rows_is_source_loop. Qed.

Theorem C04_source_text_is_loop_nest : forall F d t, table_ok t ->
  rows_loop model_elem_delim model_field_delim nl F d (tdt t) (map (to_native_row (tdt t)) (trows t)) = write_text F d t.
Proof. exact write_text_is_source_loop. Qed.

Theorem C04_source_extra_getc : forall P d f l,
  read_field P d f l =
  match fkind f with
  | KStr w => read_str_els w (fnel f) l
  | k => do (es, r) <- read_num_els P k d (fnel f) l;
         Ok (es, if model_extra_getc (model_ws_mode d) 0 0 then tl r else r)
  end.
Proof. exact read_field_extra_getc. Qed.

Theorem C04_source_string_loop : forall w : nat, str_loop_count (S w) 0 (Z.of_nat w) = w.
Proof. exact str_loop_takes_w. Qed.

Theorem C04_source_header_strip : forall fs : list fld,
  header_dtype fs = map (fun f => (fname f, skipn model_strip (typestr f), fshape f)) fs.
Proof. exact header_strip. Qed.

(* ---- non-vacuity: a table with a blank-leading string BEFORE the numeric cell in white-space mode, and the
   same with ',' and no leading blank, meet the hypotheses; the conclusion computes *)
Example C04_nonvacuous :
  table_ok nv_table /\ fcontract (fun _ e => e) (fun _ e => e) nv_table /\ strings_noeol nv_table
  /\ kf_leading_ws_after_numeric space nv_table = false /\ delim_ok space
  /\ kf_leading_ws_after_numeric x3b nv_table = false /\ delim_ok x3b
  /\ kf_leading_ws_after_numeric x09 nv_table = true
  /\ write_text (fun _ e => e) x3b nv_table
     = [x2d; x32; x3b; x32; x35; x36; x3b; x20; x61; x2c; x0a; x37; x3b; x2d; x33; x32; x37; x36; x38; x3b; x20; x20; x00; x0a].
Proof. repeat split; reflexivity. Qed.

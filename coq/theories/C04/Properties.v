(* C04 -- property theorems only (bodies live in DecProofs.v / ScanProofs.v / WriteProofs.v / RoundTrip.v /
   CheckProofs.v).

   F sz e : the text printf("%.16g" / "%.7g") writes for the floating-point element with native bytes e
   P sz s : the native bytes scanf("%lf" / "%f") stores for the token s
   They are universally quantified; [fcontract F P t] (Spec.v, H_num) is the only thing assumed about
   them and is evaluated by the contract monitor on every case of every run. *)
From Coq Require Import QArith Qabs.
From Coq.Strings Require Import Byte.
From EsVerif.Common Require Import Base Bytes.
From EsVerif.C04 Require Import Gen TextModel Spec DecProofs ScanProofs WriteProofs RoundTrip CheckProofs FmtModel FmtProofs AccProofs Exec ExecProofs.
Open Scope Z_scope.

(* ---- integers: printf %d / scanf %d and the memory image are inverse to each other *)
Theorem C04_dec_parse_roundtrip : forall z, parse_dec (dec z) = z.
Proof. exact dec_parse_roundtrip. Qed.

Theorem C04_dec_chars : forall z, tok_ok TInt (dec z) = true
  /\ exists sg ds, dec z = sg ++ ds /\ (sg = [] \/ sg = [minus]) /\ ds <> [] /\ Forall (fun b => is_digit b = true) ds.
Proof. intro z. split; [apply tok_ok_dec|apply dec_shape]. Qed.

Theorem C04_int_image_roundtrip : forall sg e, encode_le (length e) (decode_le sg e) = e.
Proof. exact encode_decode_le. Qed.

(* ---- the scanner: after the text of a field followed by its delimiter or newline, the reader returns
   the field and leaves the stream at the first byte of the next field -- under the premise the proof
   forces: a numeric field read with the format "<conv> <delim>" must not be followed (behind a
   white-space separator) by white space or the delimiter character *)
Theorem C04_scan_field_consumes_exactly : forall F P d, delim_ok d -> forall f els sep rest,
  fld_ok_b f = true -> length els = fnel f -> Forall (cell_good F P (fkind f)) els ->
  sep = d \/ sep = nl ->
  (is_str (fkind f) = false -> byte_eqb d space = false -> safe_next d sep rest) ->
  read_field P d f (join_els d (map (cell_text F (fkind f)) els) ++ sep :: rest)
  = Ok (map (rt_el F P (fkind f)) els, rest).
Proof. exact read_field_ok. Qed.

(* ---- the round trip (sfile: the row count comes from the header), outside the known class *)
Theorem C04_roundtrip_outside_known : forall F P d t,
  table_ok t -> delim_ok d -> fcontract F P t -> kf_leading_ws_after_numeric d t = false ->
  read_text P d (tdt t) (Z.of_nat (length (trows t))) (write_text F d t) = Ok (expected F P t)
  /\ roundtrip_ok t (read_text P d (tdt t) (Z.of_nat (length (trows t))) (write_text F d t)).
Proof.
  intros F P d t Ht Hd Hc Hk. pose proof (roundtrip_model F P d Hd t Ht Hc Hk) as E.
  split; [exact E|]. rewrite E. apply expected_ok; assumption.
Qed.

(* ---- the same through Recfile without nrows= (rows counted as lines of the file) *)
Theorem C04_roundtrip_recfile_outside_known : forall F P d t,
  table_ok t -> delim_ok d -> fcontract F P t -> strings_noeol t -> kf_leading_ws_after_numeric d t = false ->
  count_lines (write_text F d t) = Z.of_nat (length (trows t))
  /\ roundtrip_ok t (read_text P d (tdt t) (count_lines (write_text F d t)) (write_text F d t)).
Proof.
  intros F P d t Ht Hd Hc Hn Hk. pose proof (count_lines_text F P d Hd t Ht Hc Hn) as E.
  split; [exact E|]. rewrite E. apply C04_roundtrip_outside_known; assumption.
Qed.

(* ---- for the white-space delimiter the statement holds at full strength (the class is empty) *)
Theorem C04_roundtrip_space_delim : forall F P t,
  table_ok t -> fcontract F P t ->
  roundtrip_ok t (read_text P space (tdt t) (Z.of_nat (length (trows t))) (write_text F space t)).
Proof. intros F P t Ht Hc. apply C04_roundtrip_outside_known; try assumption; reflexivity. Qed.

(* ---- the instance the correspondence run evaluates: printf("%.<p>g") and strtod/strtof as modelled in
   FmtModel.v, the precisions <p> being Gen.print_prec_f8 / Gen.print_prec_f4 (regenerated from
   records.cpp on every run).  [fcontract F_model P_model t] is decided by evaluation for every case. *)
Theorem C04_roundtrip_fmt_model : forall d t,
  table_ok t -> delim_ok d -> fcontract F_model P_model t -> kf_leading_ws_after_numeric d t = false ->
  read_text P_model d (tdt t) (Z.of_nat (length (trows t))) (write_text F_model d t) = Ok (expected F_model P_model t)
  /\ roundtrip_ok t (read_text P_model d (tdt t) (Z.of_nat (length (trows t))) (write_text F_model d t)).
Proof. intros d t. apply C04_roundtrip_outside_known. Qed.

(* ---- two of the three parts of H_num hold for the modelled printf/strtod for EVERY memory image and every precision:
   the printed text is one well-formed scanf token, and strtod stores exactly sz bytes for it.  H_num therefore
   reduces to its accuracy part (16 / 7 significant digits, NaN, +-inf), which is what the monitor decides per case *)
Theorem C04_fmt_model_token : forall sz e, tok_ok TFloat (F_model sz e) = true.
Proof. exact F_model_tok_ok. Qed.

Theorem C04_fmt_model_length : forall sz e, sz = 4%nat \/ sz = 8%nat -> length (P_model sz (F_model sz e)) = sz.
Proof. exact F_model_P_model_length. Qed.

Theorem C04_fmt_model_contract_is_accuracy : forall t,
  table_ok t -> facc_b F_model P_model t = true -> fcontract F_model P_model t.
Proof. exact fcontract_of_acc. Qed.

(* the contract is not vacuous for the modelled printf/strtod: binary64 1/3, -0, nan, inf, the least subnormal,
   1e22, 123456, 0.0001, binary32 0.1f and FLT_MAX print as glibc prints them and come back within the stated digits *)
(* ---- the accuracy part as a theorem on finite sub-domains (decided by the kernel): every integer |z| <= 2000 held in
   a binary32 or binary64 column -- this contains the only text data of esutil's own test-suite -- is printed as a
   well-formed token and read back EXACTLY; powers of two and ten meet the contract *)
Theorem C04_accuracy_small_integers : forall sz z, sz = 4%nat \/ sz = 8%nat -> -2000 <= z <= 2000 ->
  fcell_ok_b F_model P_model sz (int_img sz z) = true
  /\ P_model sz (F_model sz (int_img sz z)) = int_img sz z
  /\ is_int_val (int_img sz z) z = true.
Proof. exact accuracy_small_integers. Qed.

Theorem C04_accuracy_powers : forall k,
  (-128 <= k <= 128 -> fcell_ok_b F_model P_model 8 (pow_img 2 8 k) = true)
  /\ (-149 <= k <= 127 -> fcell_ok_b F_model P_model 4 (pow_img 2 4 k) = true)
  /\ (-40 <= k <= 40 -> fcell_ok_b F_model P_model 8 (pow_img 10 8 k) = true)
  /\ (-37 <= k <= 38 -> fcell_ok_b F_model P_model 4 (pow_img 10 4 k) = true).
Proof. exact accuracy_powers. Qed.

(* ---- where the accuracy clause of H_num comes from: printing correctly rounded to [digits] significant digits and reading
   back a nearest representable number (x itself being representable) differ from x by at most one unit of the last
   digit; and the two rounding steps of the model (decimal digits in printf, binary mantissa in strtod) are
   nearest-roundings of the exact quotient *)
Theorem C04_accuracy_from_correct_rounding : forall digits x p y e,
  (Qpower ten e <= Qabs x)%Q -> (Qabs x < Qpower ten (e + 1))%Q ->
  (Qabs (p - x) <= (1 # 2) * Qpower ten (e - digits + 1))%Q ->
  (Qabs (y - p) <= Qabs (x - p))%Q ->
  sig_close digits x y.
Proof. exact sig_close_from_correct_rounding. Qed.

Theorem C04_model_rounding_is_nearest : forall a b, 0 <= a -> 0 < b -> 2 * Z.abs (rhe a b * b - a) <= b.
Proof. exact rhe_nearest. Qed.

Example C04_fmt_model_examples :
  F16 8 [x55; x55; x55; x55; x55; x55; xd5; x3f] = [x30; x2e; x33; x33; x33; x33; x33; x33; x33; x33; x33; x33; x33; x33; x33; x33; x33; x33]
  /\ F16 8 [x00; x00; x00; x00; x00; x00; x00; x80] = [x2d; x30]
  /\ F16 8 [x01; x00; x00; x00; x00; x00; x00; x00] = [x34; x2e; x39; x34; x30; x36; x35; x36; x34; x35; x38; x34; x31; x32; x34; x36; x35; x65; x2d; x33; x32; x34]
  /\ F16 8 [x92; xd5; x4d; x06; xcf; xf0; x80; x44] = [x31; x65; x2b; x32; x32]
  /\ F16 8 [x00; x00; x00; x00; x00; x24; xfe; x40] = [x31; x32; x33; x34; x35; x36]
  /\ F16 8 [x2d; x43; x1c; xeb; xe2; x36; x1a; x3f] = [x30; x2e; x30; x30; x30; x31]
  /\ F16 4 [xcd; xcc; xcc; x3d] = [x30; x2e; x31]
  /\ F16 4 [xff; xff; x7f; x7f] = [x33; x2e; x34; x30; x32; x38; x32; x33; x65; x2b; x33; x38]
  /\ P_model 8 [x30; x2e; x31] = [x9a; x99; x99; x99; x99; x99; xb9; x3f]
  /\ P_model 4 [x33; x2e; x34; x30; x32; x38; x32; x33; x65; x2b; x33; x38] = [xfd; xff; x7f; x7f]
  /\ fcell_ok_b F16 P_model 8 [x55; x55; x55; x55; x55; x55; xd5; x3f] = true
  /\ fcell_ok_b F16 P_model 8 [x01; x00; x00; x00; x00; x00; x00; x00] = true
  /\ fcell_ok_b F16 P_model 8 [x00; x00; x00; x00; x00; x00; xf8; xff] = true
  /\ fcell_ok_b F16 P_model 8 [x00; x00; x00; x00; x00; x00; xf0; xff] = true
  /\ fcell_ok_b F16 P_model 4 [xff; xff; x7f; x7f] = true
  /\ fcell_ok_b F16 P_model 4 [xcd; xcc; xcc; x3d] = true.
Proof. vm_compute. repeat split; reflexivity. Qed.

(* ---- the full statement ("for every single-character delimiter", strings with leading blanks) is false
   of the code: [('s','S3'),('i','i4')], rows ("  a",1),("  b",2), delim ',' *)

Theorem C04_full_refuted : exists F P d t,
  table_ok t /\ delim_ok d /\ fcontract F P t /\ strings_noeol t
  /\ ~ roundtrip_ok t (read_text P d (tdt t) (Z.of_nat (length (trows t))) (write_text F d t)).
Proof.
  exists (fun _ e => e), (fun _ e => e), x2c, kf_witness.
  split; [reflexivity|]. split; [reflexivity|]. split; [reflexivity|]. split; [reflexivity|].
  assert (E : read_text (fun _ e => e) x2c (tdt kf_witness) (Z.of_nat (length (trows kf_witness)))
                (write_text (fun _ e => e) x2c kf_witness) = Err ERuntime) by (vm_compute; reflexivity).
  rewrite E. intros [tout [H _]]. discriminate.
Qed.

(* ---- every clause of the class is needed: each has an in-scope member on which the read fails *)
Theorem C04_known_class_each_clause_refuted :
  refutes x2c kf_witness /\ refutes x3b w_delim /\ refutes x09 w_tab
  /\ kf_leading_ws_after_numeric x2c w_tab = false /\ kf_leading_ws_after_numeric x2c w_delim = false
  /\ kf_leading_ws_after_numeric space kf_witness = false.
Proof. exact kf_clause_witnesses. Qed.

(* ---- second known class: a finite binary64 whose 16-digit text exceeds the largest finite value is read back as an
   infinity (the largest finite double and its predecessor, either sign).  For the modelled printf/strtod with the
   precision of records.cpp the contract H_num FAILS on such a cell: 1.7976931348623157e308 prints as
   1.797693134862316e+308, which strtod rounds to +inf *)
Theorem C04_float_print_overflow_witness :
  table_ok w_dblmax /\ kf_float_print_overflow F16 P_model w_dblmax = true /\ fcontract_b F16 P_model w_dblmax = false
  /\ F16 8 [xff; xff; xff; xff; xff; xff; xef; x7f]
     = [x31; x2e; x37; x39; x37; x36; x39; x33; x31; x33; x34; x38; x36; x32; x33; x31; x36; x65; x2b; x33; x30; x38]
  /\ P_model 8 (F16 8 [xff; xff; xff; xff; xff; xff; xef; x7f]) = [x00; x00; x00; x00; x00; x00; xf0; x7f].
Proof. vm_compute. repeat split; reflexivity. Qed.

(* ---- the stored header records the delimiter and a byte-order-free dtype *)
Theorem C04_header : forall d t, header_ok d t (header_delim d, header_dtype (tdt t)).
Proof. exact header_model_ok. Qed.

(* ---- tables holding the same values in different byte orders produce the same text *)
Theorem C04_big_endian_same_text : forall F d t t',
  map fkind (tdt t) = map fkind (tdt t') ->
  map (to_native_row (tdt t)) (trows t) = map (to_native_row (tdt t')) (trows t') ->
  write_text F d t = write_text F d t'.
Proof. exact same_values_same_text. Qed.

Theorem C04_write_text_native : forall F d t, write_text F d (native_table t) = write_text F d t.
Proof. exact write_text_native. Qed.

(* ---- soundness of the checkers evaluated on the implementation's outputs *)
Theorem C04_checkers_sound :
  (forall tin out, roundtrip_check tin out = true -> roundtrip_ok tin out)
  /\ (forall d t h, header_check d t h = true -> header_ok d t h)
  /\ (forall digits a b, fval_ok_b digits a b = true -> fval_ok digits a b).
Proof.
  split; [exact roundtrip_check_sound|]. split; [exact header_check_sound|exact fval_ok_b_sound].
Qed.

(* ---- the verdict terms of the correspondence run evaluate exactly the models above (the tabulated printf/strtod
   values are F_model / P_model), and verdict 0 on an in-scope case establishes the property for the
   implementation's output, the equality of the file text with the model's, H_num, and non-membership of the class *)
Theorem C04_exec_models : forall t d,
  m_sfile2 d t = m_sfile_gen F_model P_model d t
  /\ m_recfile2 d t = m_recfile_gen F_model P_model d t
  /\ fcontract_b (F_tab (ftab t)) (P_tab (ptab (ftab t))) t = fcontract_b F_model P_model t.
Proof. exact exec_models. Qed.

Theorem C04_verdict0_sfile : forall d t text h out, in_scope d t = true -> v_sfile2 d t text h out = 0 ->
  text = write_text F_model d t /\ roundtrip_ok t out /\ header_ok d t h
  /\ fcontract F_model P_model t /\ kf_leading_ws_after_numeric d t = false.
Proof. exact verdict0_sfile. Qed.

Theorem C04_verdict0_recfile : forall d t text out, in_scope d t = true -> v_recfile2 d t text out = 0 ->
  text = write_text F_model d t /\ roundtrip_ok t out
  /\ fcontract F_model P_model t /\ kf_leading_ws_after_numeric d t = false.
Proof. exact verdict0_recfile. Qed.

(* ---- non-vacuity: a table with a blank-leading string BEFORE the numeric cell in white-space mode, and the
   same with ',' and no leading blank, meet the hypotheses; the conclusion computes *)
Example C04_nonvacuous :
  table_ok nv_table /\ fcontract (fun _ e => e) (fun _ e => e) nv_table /\ strings_noeol nv_table
  /\ kf_leading_ws_after_numeric space nv_table = false /\ delim_ok space
  /\ kf_leading_ws_after_numeric x3b nv_table = false /\ delim_ok x3b
  /\ kf_leading_ws_after_numeric x09 nv_table = true
  /\ write_text (fun _ e => e) x3b nv_table
     = [x2d; x32; x3b; x32; x35; x36; x3b; x20; x61; x2c; x0a; x37; x3b; x2d; x33; x32; x37; x36; x38; x3b; x20; x20; x00; x0a].
Proof. repeat split; reflexivity. Qed.

(* C04 -- property theorems only (bodies live in DecProofs.v / ScanProofs.v / RoundTrip.v / CheckProofs.v). *)
From Coq.Strings Require Import Byte.
From EsVerif.Common Require Import Base Bytes.
From EsVerif.C04 Require Import TextModel Spec DecProofs ScanProofs.

Theorem C04_dec_parse_roundtrip : forall z, parse_dec (dec z) = z.
Proof. exact dec_parse_roundtrip. Qed.

Theorem C04_int_image_roundtrip : forall sg e, encode_le (length e) (decode_le sg e) = e.
Proof. exact encode_decode_le. Qed.

(* C04 -- the newline behind the LAST row is not needed: the reader returns the same table when the file ends right
   behind the last cell (hand-written files; end of file ends a numeric token and a fixed-width string alike). *)
From Coq Require Import ZifyBool ZifyNat.
From Coq.Strings Require Import Byte.
From EsVerif.Common Require Import Base Bytes.
From EsVerif.C04 Require Import TextModel Spec DecProofs ScanProofs RoundTrip.

Section NoNl.
  Variable F P : nat -> list byte -> list byte.
  Variable d : byte.
  Hypothesis Hd : delim_ok d.
  Let Hdn : numchar d = false. Proof. exact (proj1 (delim_ok_facts d Hd)). Qed.

  Lemma read_num_at_eof k pre tok : all_ws pre -> tok_ok k tok = true -> read_num k d (pre ++ tok) = Ok (tok, []).
  Proof.
    intros Hp Ht. unfold read_num, fscanf_num. rewrite skip_ws_all_ws by exact Hp.
    destruct (tok_ok_head k tok Ht) as [b [r [-> Hb]]]. rewrite skip_ws_stop by (apply numchar_not_ws; exact Hb).
    rewrite (scan_tok_eof k (b :: r) Ht). destruct (byte_eqb d space); reflexivity.
  Qed.

  Lemma read_num_els_eof k : is_str k = false -> forall els pre,
    els <> [] -> Forall (cell_good F P k) els -> all_ws pre ->
    read_num_els P k d (length els) (pre ++ join_els d (map (cell_text F k) els)) = Ok (map (rt_el F P k) els, []).
  Proof.
    intros Hk. induction els as [|e els IH]; intros pre Hne Hg Hpre; [contradiction|].
    pose proof (Forall_inv Hg) as He. pose proof (Forall_inv_tail Hg) as Hels.
    destruct (num_cell F P k e Hk He) as [Htok Hst].
    destruct els as [|e2 els].
    - cbn [map join_els length read_num_els]. rewrite (read_num_at_eof (tk_of k) pre _ Hpre Htok). cbn [bind]. rewrite Hst. reflexivity.
    - change (length (e :: e2 :: els)) with (S (length (e2 :: els))).
      cbn [map]. rewrite (join_els_2 d).
      change (cell_text F k e2 :: map (cell_text F k) els) with (map (cell_text F k) (e2 :: els)).
      cbn [read_num_els].
      destruct (byte_eqb d space) eqn:Esp.
      + apply byte_eqb_eq in Esp. rewrite Esp in *.
        rewrite (read_num_space (tk_of k) pre _ _ Hpre Htok (eq_refl : ends_tok (space :: _))). cbn [bind].
        specialize (IH [space] ltac:(discriminate) Hels ltac:(repeat constructor)). cbn [app] in IH. rewrite IH. cbn [bind].
        rewrite Hst. reflexivity.
      + assert (Hsafe2 : safe_next d d (join_els d (map (cell_text F k) (e2 :: els)))).
        { right. pose proof (Forall_inv Hels) as He2. destruct (num_cell F P k e2 Hk He2) as [Htok2 _].
          cbn [map]. destruct (join_els_cons d (cell_text F k e2) (map (cell_text F k) els)) as [y ->].
          eapply (tok_head_safe d Hd). exact Htok2. }
        rewrite (read_num_delim (tk_of k) d pre _ d _ Esp Hpre Htok Hdn (fun _ => eq_refl) Hsafe2). cbn [bind].
        specialize (IH [] ltac:(discriminate) Hels ltac:(constructor)). cbn [app] in IH. rewrite IH. cbn [bind].
        rewrite Hst. reflexivity.
  Qed.

  Lemma read_str_els_eof w : forall els, els <> [] -> Forall (cell_good F P (KStr w)) els ->
    read_str_els w (length els) (join_els d els) = Ok (els, []).
  Proof.
    induction els as [|e els IH]; intros Hne Hg; [contradiction|].
    pose proof (Forall_inv Hg) as [Hl He]. pose proof (Forall_inv_tail Hg) as Hels. simpl in Hl.
    destruct els as [|e2 els].
    - cbn [join_els length read_str_els]. rewrite <- Hl. rewrite <- (app_nil_r e) at 2.
      rewrite (take_bytes_app e [] He). reflexivity.
    - change (length (e :: e2 :: els)) with (S (length (e2 :: els))). rewrite (join_els_2 d). cbn [read_str_els].
      rewrite <- Hl at 1. rewrite (take_bytes_app e _ He). cbn [bind tl].
      rewrite (IH ltac:(discriminate) Hels). reflexivity.
  Qed.

  Lemma read_field_eof f els :
    fld_ok_b f = true -> length els = fnel f -> Forall (cell_good F P (fkind f)) els ->
    read_field P d f (join_els d (map (cell_text F (fkind f)) els)) = Ok (map (rt_el F P (fkind f)) els, []).
  Proof.
    intros Hf Hl Hg.
    assert (Hne : els <> []).
    { unfold fld_ok_b in Hf. apply andb_true_iff in Hf. destruct Hf as [_ Hn]. destruct els; [simpl in Hl; lia|discriminate]. }
    unfold read_field. rewrite <- Hl. destruct (fkind f) as [sg sz|sz|w] eqn:Ek.
    - pose proof (read_num_els_eof (KInt sg sz) eq_refl els [] Hne Hg ltac:(constructor)) as R. cbn [app] in R. rewrite R.
      cbn [bind]. destruct (byte_eqb d space); reflexivity.
    - pose proof (read_num_els_eof (KFlt sz) eq_refl els [] Hne Hg ltac:(constructor)) as R. cbn [app] in R. rewrite R.
      cbn [bind]. destruct (byte_eqb d space); reflexivity.
    - rewrite (map_id_ext (cell_text F (KStr w))) by reflexivity. rewrite (map_id_ext (rt_el F P (KStr w))) by reflexivity.
      apply read_str_els_eof; assumption.
  Qed.

  (* the last row, without its newline *)
  Lemma read_row_eof : forall fs r,
    fs <> [] -> forallb fld_ok_b fs = true -> row_ok_b fs r = true -> row_contract_b F P fs r = true ->
    (byte_eqb d space = false -> kf_fields d fs r false = false) ->
    read_row P d fs (repeat true (length fs)) (write_fields F d fs r) = Ok (rt_row F P fs r, []).
  Proof.
    induction fs as [|f fs IH]; intros r Hne Hf Hr Hc Hkf; [contradiction|].
    destruct r as [|els r]; [discriminate|].
    destruct (row_facts F P d f fs els r Hr Hc) as [Hl [Hg [Hr' Hc']]].
    cbn [forallb] in Hf. apply andb_true_iff in Hf. destruct Hf as [Hf Hfs].
    cbn [write_fields length repeat read_row rt_row hd tl].
    destruct fs as [|f2 fs].
    - destruct r as [|? ?]; [|discriminate]. cbn [write_fields app]. rewrite !app_nil_r.
      rewrite (read_field_eof f els Hf Hl Hg). cbn [bind read_row]. reflexivity.
    - rewrite <- ?app_assoc. cbn [app].
      rewrite (read_field_ok F P d Hd f els d _ Hf Hl Hg (or_introl eq_refl)).
      + cbn [bind]. rewrite (IH r ltac:(discriminate) Hfs Hr' Hc').
        * reflexivity.
        * intro Esp. specialize (Hkf Esp). cbn [kf_fields] in Hkf. apply orb_false_iff in Hkf. apply Hkf.
      + intros Es Esp. destruct (is_ws d) eqn:Ew; [|left; exact Ew].
        apply starts_safe_safe_next. rewrite <- (app_nil_r (write_fields F d (f2 :: fs) r)).
        apply (write_fields_head F P d Hd); try assumption; [discriminate|].
        specialize (Hkf Esp). cbn [kf_fields] in Hkf. apply orb_false_iff in Hkf. destruct Hkf as [Hkf _].
        rewrite Es, Ew in Hkf. simpl in Hkf. exact Hkf.
  Qed.

  Lemma read_rows_eof fs : fs <> [] -> forallb fld_ok_b fs = true ->
    forall rows rl,
    forallb (row_ok_b fs) (rows ++ [rl]) = true -> forallb (row_contract_b F P fs) (rows ++ [rl]) = true ->
    (byte_eqb d space = false -> kf_rows d fs (rows ++ [rl]) = false) ->
    read_rows_all P d fs (repeat true (length fs)) (length (rows ++ [rl])) (write_rows F d fs rows ++ write_fields F d fs rl)
    = Ok (map (rt_row F P fs) (rows ++ [rl])).
  Proof.
    intros Hne Hf. induction rows as [|r rows IH]; intros rl Hr Hc Hkf.
    - cbn [app forallb] in *. apply andb_true_iff in Hr. apply andb_true_iff in Hc.
      cbn [length read_rows_all write_rows map concat app].
      rewrite (read_row_eof fs rl Hne Hf (proj1 Hr) (proj1 Hc)).
      + reflexivity.
      + intro Esp. specialize (Hkf Esp). cbn [kf_rows] in Hkf. rewrite orb_false_r in Hkf. exact Hkf.
    - cbn [app forallb] in Hr, Hc. apply andb_true_iff in Hr. destruct Hr as [Hr Hrs].
      apply andb_true_iff in Hc. destruct Hc as [Hc Hcs].
      cbn [app]. unfold write_rows. cbn [map concat length read_rows_all]. unfold write_row at 1. rewrite <- !app_assoc. cbn [app].
      fold (write_rows F d fs rows).
      rewrite (read_row_ok F P d Hd fs r (write_rows F d fs rows ++ write_fields F d fs rl)
                 (match rows ++ [rl] with r2 :: _ => row_head_unsafe d fs r2 | [] => false end) Hne Hf Hr Hc).
      + cbn [bind]. rewrite IH; [reflexivity|assumption|assumption|].
        intro Esp. specialize (Hkf Esp). cbn [app kf_rows] in Hkf. apply orb_false_iff in Hkf. apply Hkf.
      + intro Hu. destruct rows as [|r2 rows].
        * cbn [app] in *. cbn [write_rows map concat app]. rewrite <- (app_nil_r (write_fields F d fs rl)).
          cbn [forallb] in Hrs, Hcs. apply andb_true_iff in Hrs. apply andb_true_iff in Hcs.
          apply (write_fields_head F P d Hd); try assumption; [apply Hrs|apply Hcs].
        * cbn [app] in *. cbn [forallb] in Hrs, Hcs. apply andb_true_iff in Hrs. apply andb_true_iff in Hcs.
          unfold write_rows. cbn [map concat]. unfold write_row at 1. rewrite <- !app_assoc.
          apply (write_fields_head F P d Hd); try assumption; [apply Hrs|apply Hcs].
      + intro Esp. specialize (Hkf Esp). cbn [app kf_rows] in Hkf. apply orb_false_iff in Hkf. apply Hkf.
  Qed.

  Lemma write_rows_removelast fs : forall rows rl,
    removelast (write_rows F d fs (rows ++ [rl])) = write_rows F d fs rows ++ write_fields F d fs rl.
  Proof.
    intros rows rl. unfold write_rows. rewrite map_app, concat_app. cbn [map concat]. rewrite app_nil_r.
    unfold write_row at 2. rewrite app_assoc. apply removelast_last.
  Qed.

  Theorem roundtrip_without_final_newline t :
    table_ok t -> fcontract F P t -> kf_leading_ws_after_numeric d t = false ->
    read_text P d (tdt t) (Z.of_nat (length (trows t))) (removelast (write_text F d t)) = Ok (expected F P t).
  Proof.
    unfold table_ok, table_ok_b, fcontract, fcontract_b, kf_leading_ws_after_numeric.
    destruct t as [fs rows]. cbn [tdt trows]. intros Hok Hc Hkf.
    apply andb_true_iff in Hok. destruct Hok as [Hok Hrows]. apply andb_true_iff in Hok. destruct Hok as [Hok Hr1].
    apply andb_true_iff in Hok. destruct Hok as [Hf Hf1].
    assert (Hne : fs <> []) by (destruct fs; discriminate).
    unfold read_text, write_text, expected. cbn [tdt trows].
    assert (Z.of_nat (length rows) <? 1 = false) as -> by (destruct rows; [discriminate|simpl length; lia]).
    unfold read_text_columns. rewrite Nat2Z.id. unfold keep_flags. rewrite map_length. rewrite read_rows_all_native.
    set (nrows := map (to_native_row fs) rows).
    assert (Hlen : length rows = length nrows) by (unfold nrows; rewrite map_length; reflexivity).
    assert (Hnn : nrows <> []) by (unfold nrows; destruct rows; discriminate).
    destruct (exists_last Hnn) as [rows0 [rl E]].
    assert (Hok' : forallb (row_ok_b fs) nrows = true).
    { unfold nrows. rewrite forallb_map'. apply forallb_Forall. apply forallb_Forall in Hrows.
      eapply Forall_impl; [|exact Hrows]. intros r Hr. apply row_ok_native. exact Hr. }
    assert (Hc' : forallb (row_contract_b F P fs) nrows = true) by (unfold nrows; rewrite forallb_map'; exact Hc).
    assert (Hk' : byte_eqb d space = false -> kf_rows d fs nrows = false).
    { intro Esp. unfold nrows. rewrite kf_rows_native. rewrite Esp in Hkf. simpl in Hkf. exact Hkf. }
    rewrite Hlen. rewrite E in *. rewrite write_rows_removelast.
    rewrite (read_rows_eof fs Hne Hf rows0 rl Hok' Hc' Hk'). cbn [bind]. rewrite <- E. unfold nrows. rewrite map_map. reflexivity.
  Qed.
End NoNl.

(* C04 -- glue evaluated by generated case files.  The floating-point oracle (printf text per
   element, scanf value per token) arrives as two association tables. *)
From Coq.Strings Require Import Byte.
From EsVerif.Common Require Import Base Bytes.
From EsVerif.C04 Require Import TextModel Spec FmtModel.
From Coq Require Import PrimInt63.
From Coq Require Uint63.

(* compact byte-string literals for the generated case files: [ub n l] = the n bytes held, most
   significant first, in the primitive 63-bit integers of l (seven bytes each, the last one the rest) *)
Definition ibit (i : Uint63.int) (n : Uint63.int) : bool :=
  negb (PrimInt63.eqb (PrimInt63.land (PrimInt63.lsr i n) 1%uint63) 0%uint63).
Definition byte_of_int (i : Uint63.int) : byte :=
  Byte.of_bits (ibit i 0%uint63, (ibit i 1%uint63, (ibit i 2%uint63, (ibit i 3%uint63,
               (ibit i 4%uint63, (ibit i 5%uint63, (ibit i 6%uint63, ibit i 7%uint63))))))).
Fixpoint be_bytes (k : nat) (i : Uint63.int) (acc : list byte) : list byte :=
  match k with O => acc | S k' => be_bytes k' (PrimInt63.lsr i 8%uint63) (byte_of_int i :: acc) end.
Fixpoint ub (n : Z) (l : list Uint63.int) : list byte :=
  match l with
  | [] => []
  | i :: r => let k := Z.min n 7 in be_bytes (Z.to_nat k) i [] ++ ub (n - k) r
  end.

Definition tab3 := list (nat * list byte * list byte).
Fixpoint lookup (tab : tab3) (sz : nat) (k : list byte) : list byte :=
  match tab with
  | [] => []
  | (s, a, b) :: r => if (s =? sz)%nat && bytes_eqb a k then b else lookup r sz k
  end.
Definition F_of (tab : tab3) : nat -> list byte -> list byte := lookup tab.   (* (size, native bytes) |-> printf text *)
Definition P_of (tab : tab3) : nat -> list byte -> list byte := lookup tab.   (* (size, token) |-> native bytes *)

Definition fld_eqb (a b : fld) : bool :=
  bytes_eqb (fname a) (fname b) && kind_eqb (fkind a) (fkind b) && order_eqb (forder a) (forder b)
  && zlist_eqb (fshape a) (fshape b).
Definition row_eqb : row -> row -> bool := list_eqb (list_eqb bytes_eqb).
Definition table_eqb (a b : table) : bool :=
  list_eqb fld_eqb (tdt a) (tdt b) && list_eqb row_eqb (trows a) (trows b).
Definition hdr_eqb (a b : hdr) : bool :=
  bytes_eqb (fst a) (fst b)
  && list_eqb (fun x y => bytes_eqb (fst (fst x)) (fst (fst y)) && bytes_eqb (snd (fst x)) (snd (fst y))
                          && zlist_eqb (snd x) (snd y)) (snd a) (snd b).

Definition in_scope (d : byte) (t : table) : bool := table_ok_b t && delim_ok_b d && strings_noeol_b t.

(* Recfile(mode='w', delim=d).write(t); Recfile(mode='r', dtype=t.dtype, delim=d).read()
   text = the whole file; out = the array read back (or the error class) *)
Definition m_recfile_gen (F P : nat -> list byte -> list byte) (d : byte) (t : table) : list byte * result table :=
  let text := write_text F d t in
  (text, read_text P d (tdt t) (count_lines text) text).
Definition m_recfile (ft pt : tab3) (d : byte) (t : table) : list byte * result table :=
  m_recfile_gen (F_of ft) (P_of pt) d t.
(* bits added to the verdict: +4 the case lies in the known-finding class, +8 the supplied oracle
   violates the contract H_num on an in-scope case *)
Definition extra_bits (ft pt : tab3) (d : byte) (t : table) : Z :=
  (if kf_leading_ws_after_numeric d t then 4 else 0)
  + (if in_scope d t && negb (fcontract_b (F_of ft) (P_of pt) t) then 8 else 0).

Definition v_recfile (ft pt : tab3) (d : byte) (t : table) (text : list byte) (out : result table) : Z :=
  let m := m_recfile ft pt d t in
  verdict (bytes_eqb (fst m) text && result_eqb table_eqb (snd m) out)
          (if in_scope d t then roundtrip_check t out else true)
  + extra_bits ft pt d t.

(* sfile.write(t, f, delim=d); sfile.read(f, header=True)
   text = the data section of the file (after the header); h = the stored _DELIM and _DTYPE *)
Definition m_sfile_gen (F P : nat -> list byte -> list byte) (d : byte) (t : table) : list byte * hdr * result table :=
  let text := write_text F d t in
  (text, (header_delim d, header_dtype (tdt t)),
   read_text P d (tdt t) (Z.of_nat (length (trows t))) text).
Definition m_sfile (ft pt : tab3) (d : byte) (t : table) : list byte * hdr * result table :=
  m_sfile_gen (F_of ft) (P_of pt) d t.
Definition v_sfile (ft pt : tab3) (d : byte) (t : table) (text : list byte) (h : hdr) (out : result table) : Z :=
  let m := m_sfile ft pt d t in
  verdict (bytes_eqb (fst (fst m)) text && hdr_eqb (snd (fst m)) h && result_eqb table_eqb (snd m) out)
          (if in_scope d t then roundtrip_check t out && header_check d t h else true)
  + extra_bits ft pt d t.

(* contract monitor of the oracle, and the known-finding class of a case *)
Definition m_contract (ft pt : tab3) (t : table) : Z := if fcontract_b (F_of ft) (P_of pt) t then 0 else 1.
Definition m_kf (d : byte) (t : table) : Z := if kf_leading_ws_after_numeric d t then 1 else 0.

(* ------------------------------------------------------------------ the same with the model's own printf / strtod
   (FmtModel.F_model / P_model, precisions from Gen.v): no oracle is supplied by the harness *)
(* every floating-point cell is printed and parsed once per case: the values of F_model / P_model on the cells of
   the table are tabulated first; any other argument (a token produced by a misaligned read) is computed directly *)
Fixpoint fcells_row (fs : list fld) (r : row) : list (nat * list byte) :=
  match fs, r with
  | f :: fs', els :: r' =>
      (match fkind f with KFlt sz => map (fun e => (sz, e)) els | _ => [] end) ++ fcells_row fs' r'
  | _, _ => []
  end.
Definition ftab (t : table) : tab3 :=
  map (fun c => (fst c, snd c, F_model (fst c) (snd c)))
      (concat (map (fun r => fcells_row (tdt t) (to_native_row (tdt t) r)) (trows t))).
Definition ptab (ft : tab3) : tab3 := map (fun c => (fst (fst c), snd c, P_model (fst (fst c)) (snd c))) ft.
Fixpoint lookup_or (f : nat -> list byte -> list byte) (tab : tab3) (sz : nat) (k : list byte) : list byte :=
  match tab with
  | [] => f sz k
  | (s, a, b) :: r => if (s =? sz)%nat && bytes_eqb a k then b else lookup_or f r sz k
  end.
Definition F_tab (ft : tab3) := lookup_or F_model ft.
Definition P_tab (pt : tab3) := lookup_or P_model pt.
Definition m_recfile2 (d : byte) (t : table) :=
  let ft := ftab t in let pt := ptab ft in m_recfile_gen (F_tab ft) (P_tab pt) d t.
Definition m_sfile2 (d : byte) (t : table) :=
  let ft := ftab t in let pt := ptab ft in m_sfile_gen (F_tab ft) (P_tab pt) d t.
Definition extra_bits2 (ft pt : tab3) (d : byte) (t : table) : Z :=
  (if kf_leading_ws_after_numeric d t then 4 else 0)
  + (if in_scope d t && negb (fcontract_b (F_tab ft) (P_tab pt) t) then 8 else 0)
  + (if kf_float_print_overflow (F_tab ft) (P_tab pt) t then 16 else 0).
Definition v_recfile2 (d : byte) (t : table) (text : list byte) (out : result table) : Z :=
  let ft := ftab t in let pt := ptab ft in
  let m := m_recfile_gen (F_tab ft) (P_tab pt) d t in
  verdict (bytes_eqb (fst m) text && result_eqb table_eqb (snd m) out)
          (if in_scope d t then roundtrip_check t out else true)
  + extra_bits2 ft pt d t.
Definition v_sfile2 (d : byte) (t : table) (text : list byte) (h : hdr) (out : result table) : Z :=
  let ft := ftab t in let pt := ptab ft in
  let m := m_sfile_gen (F_tab ft) (P_tab pt) d t in
  verdict (bytes_eqb (fst (fst m)) text && hdr_eqb (snd (fst m)) h && result_eqb table_eqb (snd m) out)
          (if in_scope d t then roundtrip_check t out && header_check d t h else true)
  + extra_bits2 ft pt d t.

(* ------------------------------------------------------------------ reading hand-made (possibly malformed) text:
   Recfile(mode='r', dtype=, delim=, nrows=).read() on arbitrary bytes; only the correspondence is judged (the property
   is about round trips), so that the scanner theorems of ScanSpec.v are about the code that runs *)
Definition m_rawread (d : byte) (fs : list fld) (nrows : Z) (text : list byte) : result table :=
  read_text P_model d fs nrows text.
Definition v_rawread (d : byte) (fs : list fld) (nrows : Z) (text : list byte) (out : result table) : Z :=
  verdict (result_eqb table_eqb (m_rawread d fs nrows text) out) true.

(* Recfile(mode='r', dtype=, delim=, nrows=k).read() with k smaller than the number of rows written: the first k rows *)
Definition trunc_table (t : table) (k : Z) : table := {| tdt := tdt t; trows := firstn (Z.to_nat k) (trows t) |}.
Definition v_recfile_n (d : byte) (t : table) (k : Z) (text : list byte) (out : result table) : Z :=
  let ft := ftab t in let pt := ptab ft in
  let mt := write_text (F_tab ft) d t in
  verdict (bytes_eqb mt text && result_eqb table_eqb (read_text (P_tab pt) d (tdt t) k mt) out)
          (if in_scope d t then roundtrip_check (trunc_table t k) out else true)
  + extra_bits2 ft pt d t.
Definition m_recfile_n (d : byte) (t : table) (k : Z) :=
  let ft := ftab t in let pt := ptab ft in
  let mt := write_text (F_tab ft) d t in (mt, read_text (P_tab pt) d (tdt t) k mt).

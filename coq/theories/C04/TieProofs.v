(* C04 -- the decisions of the hand model (TextModel.v) as closed terms, and the proofs that TextModel's functions are built
   from exactly these decisions.  The harness regenerates Gen.v from the source on every run and proves
   Gen.<x> = TieProofs.model_<x> (one obligation each); together with the lemmas below this says: the writer and the
   reader of TextModel.v are the loops of records.cpp with the conditions, characters and slice bounds the source has NOW. *)
From Coq Require Import ZifyBool ZifyNat.
From Coq.Strings Require Import Byte.
From EsVerif.Common Require Import Base Bytes.
From EsVerif.C04 Require Import TextModel Spec.

(* ---- model-side terms (what the translated source must be equal to) *)
Definition model_scan_conv_f4 : list byte := [x66].                         (* "f"  : scanf("%f")  *)
Definition model_scan_conv_f8 : list byte := [x6c; x66].                     (* "lf" : scanf("%lf") *)
Definition model_ws_mode (delim : byte) : bool := byte_eqb delim x20.
Definition model_elem_delim (el nel : Z) : bool := el <? (nel - 1).
Definition model_field_delim (fnum mNfields : Z) : bool := fnum <? (mNfields - 1).
Definition model_extra_getc (mReadAsWhitespace : bool) (colnum mNfields : Z) : bool := mReadAsWhitespace.
Definition model_str_loop (i size_per_el : Z) : bool := i <? size_per_el.
Definition model_strip : nat := 1%nat.
Definition model_count_increment : Z := 1.

(* ---- the writer of TextModel.v is the double loop of WriteRows / WriteField with these conditions *)
Section Loops.
  Variable ec : Z -> Z -> bool.       (* delimiter behind element el of nel? *)
  Variable fc : Z -> Z -> bool.       (* delimiter behind field fnum of mNfields? *)
  Variable term : byte.
  Variable F : nat -> list byte -> list byte.

  (* for (el = k; el < nel; el++) { write text; if (ec el nel) write delim; } *)
  Fixpoint elem_loop (d : byte) (nel el : Z) (texts : list (list byte)) : list byte :=
    match texts with
    | [] => []
    | t :: r => t ++ (if ec el nel then [d] else []) ++ elem_loop d nel (el + 1) r
    end.

  (* for (fnum = k; fnum < mNfields; fnum++) WriteField(fnum) *)
  Fixpoint field_loop (d : byte) (nf fnum : Z) (fs : list fld) (r : row) : list byte :=
    match fs, r with
    | f :: fs', els :: r' =>
        elem_loop d (Z.of_nat (length els)) 0 (map (cell_text F (fkind f)) els)
        ++ (if fc fnum nf then [d] else []) ++ field_loop d nf (fnum + 1) fs' r'
    | _, _ => []
    end.

  Definition rows_loop (d : byte) (fs : list fld) (rows : list row) : list byte :=
    concat (map (fun r => field_loop d (Z.of_nat (length fs)) 0 fs r ++ [term]) rows).
End Loops.

Lemma elem_loop_join d : forall texts k,
  elem_loop model_elem_delim d (k + Z.of_nat (length texts)) k texts = join_els d texts.
Proof.
  induction texts as [|t texts IH]; intro k; [reflexivity|].
  cbn [elem_loop length]. destruct texts as [|t2 texts].
  - cbn [elem_loop join_els length]. unfold model_elem_delim.
    assert (k <? k + Z.of_nat 1 - 1 = false) as -> by lia. rewrite !app_nil_r. reflexivity.
  - specialize (IH (k + 1)).
    replace (k + 1 + Z.of_nat (length (t2 :: texts))) with (k + Z.of_nat (S (length (t2 :: texts)))) in IH by lia.
    rewrite IH. unfold model_elem_delim at 1.
    assert (k <? k + Z.of_nat (S (length (t2 :: texts))) - 1 = true) as -> by (cbn [length]; lia).
    reflexivity.
Qed.

Lemma field_loop_write_fields F d : forall fs r k, length r = length fs ->
  field_loop model_elem_delim model_field_delim F d (k + Z.of_nat (length fs)) k fs r = write_fields F d fs r.
Proof.
  induction fs as [|f fs IH]; intros r k Hl; destruct r as [|els r]; try reflexivity; try discriminate.
  cbn [field_loop write_fields length]. rewrite <- (map_length (cell_text F (fkind f)) els).
  pose proof (elem_loop_join d (map (cell_text F (fkind f)) els) 0) as E. rewrite Z.add_0_l in E. rewrite E. clear E. f_equal.
  specialize (IH r (k + 1) ltac:(simpl in Hl; lia)).
  replace (k + 1 + Z.of_nat (length fs)) with (k + Z.of_nat (S (length fs))) in IH by lia. rewrite IH.
  unfold model_field_delim. destruct fs as [|f2 fs].
  - assert (k <? k + Z.of_nat (S (length (@nil fld))) - 1 = false) as -> by (cbn [length]; lia). reflexivity.
  - assert (k <? k + Z.of_nat (S (length (f2 :: fs))) - 1 = true) as -> by (cbn [length]; lia). reflexivity.
Qed.

(* the text of TextModel.write_rows is the loop nest with the model-side conditions and the newline *)
Theorem write_rows_is_source_loop F d fs rows : Forall (fun r : row => length r = length fs) rows ->
  rows_loop model_elem_delim model_field_delim nl F d fs rows = write_rows F d fs rows.
Proof.
  intro H. unfold rows_loop, write_rows. f_equal. apply map_ext_in. intros r Hin. unfold write_row.
  rewrite Forall_forall in H. rewrite <- (field_loop_write_fields F d fs r 0 (H r Hin)). reflexivity.
Qed.

(* ---- the reader: white-space mode, the extra fgetc, the byte loop of strings, the slice of the type strings *)
Lemma read_num_ws_mode k d l :
  read_num k d l =
  match fscanf_num k (if model_ws_mode d then None else Some d) l with
  | SOk t r => Ok (t, r)
  | SEof => Err ERuntime
  | SFail r => if model_ws_mode d then Err ERuntime
               else match r with
                    | c :: r' => if byte_eqb c d then match k with TFloat => Ok (nan_tok, r') | TInt => Err ERuntime end else Err ERuntime
                    | [] => Err ERuntime
                    end
  end.
Proof. reflexivity. Qed.

Lemma read_field_extra_getc P d f l :
  read_field P d f l =
  match fkind f with
  | KStr w => read_str_els w (fnel f) l
  | k => do (es, r) <- read_num_els P k d (fnel f) l;
         Ok (es, if model_extra_getc (model_ws_mode d) 0 0 then tl r else r)
  end.
Proof. reflexivity. Qed.

(* for (i = 0; str_loop i w; i++) fgetc : exactly w bytes *)
Fixpoint str_loop_count (fuel : nat) (i w : Z) : nat :=
  match fuel with O => O | S f => if model_str_loop i w then S (str_loop_count f (i + 1) w) else O end.
Lemma str_loop_takes_w : forall w : nat, str_loop_count (S w) 0 (Z.of_nat w) = w.
Proof.
  assert (G : forall fuel i w, 0 <= i <= Z.of_nat w -> (Z.to_nat (Z.of_nat w - i) < fuel)%nat ->
              str_loop_count fuel i (Z.of_nat w) = Z.to_nat (Z.of_nat w - i)).
  { induction fuel as [|fuel IH]; intros i w Hi Hf; [lia|]. cbn [str_loop_count]. unfold model_str_loop.
    destruct (i <? Z.of_nat w) eqn:E.
    - rewrite IH by lia. lia.
    - lia. }
  intro w. rewrite G by lia. lia.
Qed.

Lemma header_strip fs : header_dtype fs = map (fun f => (fname f, skipn model_strip (typestr f), fshape f)) fs.
Proof. reflexivity. Qed.

(* ---- for the tables of the property: the whole text is the source's loop nest applied to the native image *)
Lemma row_ok_length : forall fs r, row_ok_b fs r = true -> length r = length fs.
Proof.
  induction fs as [|f fs IH]; intros [|els r] H; simpl in H; try discriminate; [reflexivity|].
  apply andb_true_iff in H. destruct H as [_ H]. simpl. f_equal. apply IH. exact H.
Qed.

Lemma to_native_row_length : forall fs r, length r = length fs -> length (to_native_row fs r) = length fs.
Proof.
  induction fs as [|f fs IH]; intros [|els r] H; simpl in *; try discriminate; [reflexivity|]. f_equal. apply IH. lia.
Qed.

Theorem write_text_is_source_loop F d t : table_ok t ->
  rows_loop model_elem_delim model_field_delim nl F d (tdt t) (map (to_native_row (tdt t)) (trows t)) = write_text F d t.
Proof.
  unfold table_ok, table_ok_b. intro H. apply andb_true_iff in H. destruct H as [_ Hrows].
  unfold write_text. apply write_rows_is_source_loop. rewrite Forall_forall. intros r Hin.
  apply in_map_iff in Hin. destruct Hin as [r0 [<- Hin0]]. apply to_native_row_length. apply row_ok_length.
  rewrite forallb_forall in Hrows. apply Hrows. exact Hin0.
Qed.

(* C04 -- executable models of glibc's printf("%.<prec>g") on binary32/binary64 values and of
   strtod/strtof (what scanf("%lf"/"%f") stores) on decimal tokens, in exact integer arithmetic.
   Definitions only.  They instantiate the parameters F and P of TextModel/Spec; nothing is assumed about
   them: the file text they predict is compared with the bytes glibc wrote, the values they predict with
   the values glibc stored, and the contract H_num (Spec.fcontract_b) is evaluated on them for every case.

   The precisions come from the print formats of records.cpp through Gen.v (regenerated from the source
   on every run). *)
From Coq.Strings Require Import Byte.
From EsVerif.Common Require Import Base Bytes.
From EsVerif.C04 Require Import Gen TextModel.

(* ------------------------------------------------------------------ exact arithmetic on N/D, N >= 0, D > 0 *)
(* round half to even of a/b, a >= 0, b > 0 *)
Definition rhe (a b : Z) : Z :=
  let '(q, r) := Z.div_eucl a b in
  if 2 * r <? b then q else if b <? 2 * r then q + 1 else if Z.even q then q else q + 1.

(* N/D >= B^k ? *)
Definition ge_pow (B N D k : Z) : bool := if 0 <=? k then D * B ^ k <=? N else D <=? N * B ^ (- k).

(* floor(log_B (N/D)) from a guess g that is off by at most a few units *)
Fixpoint adjust (fuel : nat) (B N D g : Z) : Z :=
  match fuel with
  | O => g
  | S f => if ge_pow B N D (g + 1) then adjust f B N D (g + 1)
           else if ge_pow B N D g then g else adjust f B N D (g - 1)
  end.
Definition ilog10 (N D : Z) : Z := adjust 6 10 N D (((Z.log2 N - Z.log2 D) * 30103) / 100000).
Definition ilog2 (N D : Z) : Z := adjust 6 2 N D (Z.log2 N - Z.log2 D).

(* N/D scaled by B^(-k), rounded half-even *)
Definition scaled_rhe (B N D k : Z) : Z := if 0 <=? k then rhe N (D * B ^ k) else rhe (N * B ^ (- k)) D.

(* ------------------------------------------------------------------ IEEE memory images (native = little endian) *)
Record fmtp := { f_p : Z; f_ebits : Z; f_bytes : nat }.            (* precision, exponent bits, size *)
Definition fp64 : fmtp := {| f_p := 53; f_ebits := 11; f_bytes := 8 |}.
Definition fp32 : fmtp := {| f_p := 24; f_ebits := 8; f_bytes := 4 |}.
Definition fp_of (sz : nat) : fmtp := if (sz =? 8)%nat then fp64 else fp32.
Definition f_bias (f : fmtp) : Z := 2 ^ (f_ebits f - 1) - 1.
Definition f_emin (f : fmtp) : Z := 2 - f_bias f - f_p f.         (* exponent of the least subnormal: -1074 / -149 *)

Inductive fclass := CNan (neg : bool) | CInf (neg : bool) | CZero (neg : bool) | CFin (neg : bool) (N D : Z).

Definition classify (f : fmtp) (e : list byte) : fclass :=
  let bits := le_unsigned e in
  let p := f_p f in
  let neg := 2 ^ (p - 1 + f_ebits f) <=? bits in
  let ex := (bits / 2 ^ (p - 1)) mod 2 ^ f_ebits f in
  let m := bits mod 2 ^ (p - 1) in
  if ex =? 2 ^ f_ebits f - 1 then (if m =? 0 then CInf neg else CNan neg)
  else if (ex =? 0) && (m =? 0) then CZero neg
  else
    let mm := if ex =? 0 then m else 2 ^ (p - 1) + m in
    let e2 := (if ex =? 0 then 1 else ex) - f_bias f - (p - 1) in
    if 0 <=? e2 then CFin neg (mm * 2 ^ e2) 1 else CFin neg mm (2 ^ (- e2)).

Definition image (f : fmtp) (neg : bool) (biased mant : Z) : list byte :=
  encode_le (f_bytes f) ((if neg then 2 ^ (f_p f - 1 + f_ebits f) else 0) + biased * 2 ^ (f_p f - 1) + mant).
Definition image_inf (f : fmtp) (neg : bool) : list byte := image f neg (2 ^ f_ebits f - 1) 0.
(* NaNs are compared canonically (positive quiet NaN), as the harness canonicalises the arrays read back *)
Definition image_nan (f : fmtp) : list byte := image f false (2 ^ f_ebits f - 1) (2 ^ (f_p f - 2)).

(* nearest representable value of N/D (N > 0), ties to even; overflow to infinity *)
Definition round_to (f : fmtp) (neg : bool) (N D : Z) : list byte :=
  let p := f_p f in
  let e := Z.max (ilog2 N D - (p - 1)) (f_emin f) in
  let n := scaled_rhe 2 N D e in
  let '(n, e) := if n =? 2 ^ p then (2 ^ (p - 1), e + 1) else (n, e) in
  if n <? 2 ^ (p - 1) then image f neg 0 n                                       (* subnormal or zero *)
  else
    let biased := e + (p - 1) + f_bias f in
    if 2 ^ f_ebits f - 1 <=? biased then image_inf f neg else image f neg biased (n - 2 ^ (p - 1)).

(* ------------------------------------------------------------------ printf("%.<prec>g") *)
Definition ch (z : Z) : byte := Zb z.
Definition zero_b : byte := x30.
Definition dot_b : byte := x2e.

Fixpoint drop_zeros (l : list byte) : list byte :=
  match l with b :: r => if byte_eqb b zero_b then drop_zeros r else l | [] => [] end.
Definition strip0 (l : list byte) : list byte := rev (drop_zeros (rev l)).
Definition with_frac (ip frac : list byte) : list byte :=
  match strip0 frac with [] => ip | fr => ip ++ dot_b :: fr end.

Definition exp_text (X : Z) : list byte :=
  [x65; if X <? 0 then minus else plus] ++ (if Z.abs X <? 10 then [zero_b] else []) ++ dec_nat (Z.abs X).

(* digits (exactly prec of them) and decimal exponent X of N/D > 0 rounded to prec significant digits *)
Definition sig_digits (prec N D : Z) : list byte * Z :=
  let e10 := ilog10 N D in
  let n := scaled_rhe 10 N D (e10 - (prec - 1)) in
  if n =? 10 ^ prec then (dec_nat (10 ^ (prec - 1)), e10 + 1) else (dec_nat n, e10).

Definition fmt_g_pos (prec N D : Z) : list byte :=
  let prec := if prec =? 0 then 1 else prec in
  let '(ds, X) := sig_digits prec N D in
  if (-4 <=? X) && (X <? prec) then
    if 0 <=? X then with_frac (firstn (Z.to_nat (X + 1)) ds) (skipn (Z.to_nat (X + 1)) ds)
    else with_frac [zero_b] (repeat zero_b (Z.to_nat (- X - 1)) ++ ds)
  else with_frac (firstn 1 ds) (skipn 1 ds) ++ exp_text X.

Definition sgn (neg : bool) (l : list byte) : list byte := if neg then minus :: l else l.
Definition fmt_g (prec : Z) (c : fclass) : list byte :=
  match c with
  | CNan neg => sgn neg [x6e; x61; x6e]
  | CInf neg => sgn neg [x69; x6e; x66]
  | CZero neg => sgn neg [zero_b]
  | CFin neg N D => sgn neg (fmt_g_pos prec N D)
  end.

(* WriteNumberAsAscii on a floating-point element: a float is promoted to double exactly *)
Definition print_prec (sz : nat) : Z := if (sz =? 8)%nat then print_prec_f8 else print_prec_f4.
Definition F_model (sz : nat) (e : list byte) : list byte := fmt_g (print_prec sz) (classify (fp_of sz) e).

(* ------------------------------------------------------------------ strtod / strtof on the tokens of scanf *)
Fixpoint take_digits (l : list byte) : list byte * list byte :=
  match l with
  | b :: r => if is_digit b then let '(ds, r2) := take_digits r in (b :: ds, r2) else ([], l)
  | [] => ([], [])
  end.

Definition lc_is (b : byte) (c : Z) : bool := lc b =? c.
Definition starts_lc (l : list byte) (w : list Z) : bool :=
  (length w <=? length l)%nat && forallb (fun p => lc_is (fst p) (snd p)) (combine l w).

(* decimal exponents beyond these cannot matter for binary64/binary32 and are clamped so that the
   evaluation stays small *)
Definition exp_clamp : Z := 5000.

Definition P_model (sz : nat) (tok : list byte) : list byte :=
  let f := fp_of sz in
  let '(neg, l) := match tok with
                   | b :: r => if byte_eqb b minus then (true, r) else if byte_eqb b plus then (false, r) else (false, tok)
                   | [] => (false, [])
                   end in
  if starts_lc l [110; 97; 110] then image_nan f
  else if starts_lc l [105; 110; 102] then image_inf f neg
  else if starts_lc l [48; 120] then []                                            (* hexadecimal floats: not modelled *)
  else
    let '(ip, r1) := take_digits l in
    let '(fp, r2) := match r1 with
                     | b :: r => if byte_eqb b dot_b then take_digits r else ([], r1)
                     | [] => ([], [])
                     end in
    let ex := match r2 with
              | b :: r => if lc_is b 101
                          then match r with
                               | s :: r' => if byte_eqb s minus then - parse_digits 0 (fst (take_digits r'))
                                            else if byte_eqb s plus then parse_digits 0 (fst (take_digits r'))
                                            else parse_digits 0 (fst (take_digits r))
                               | [] => 0
                               end
                          else 0
              | [] => 0
              end in
    let m := parse_digits 0 (ip ++ fp) in
    let k := Z.max (- exp_clamp) (Z.min exp_clamp ex) - Z.of_nat (length fp) in
    if m =? 0 then image f neg 0 0
    else if 0 <=? k then round_to f neg (m * 10 ^ k) 1 else round_to f neg m (10 ^ (- k)).

(* printf with the precisions the property names (independent of Gen.v, so that these examples do not depend on the
   constants of the tree under check) *)
Definition F16 (sz : nat) (e : list byte) : list byte := fmt_g (if (sz =? 8)%nat then 16 else 7) (classify (fp_of sz) e).

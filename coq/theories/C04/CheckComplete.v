(* C04 -- completeness of the boolean checkers where the property is decidable without real-number search: the header
   checker decides header_ok exactly; the round-trip checker decides roundtrip_ok exactly on tables without
   floating-point fields (integers and strings "exactly", names, shapes, native order). *)
From Coq Require Import QArith ZifyBool ZifyNat.
From Coq.Strings Require Import Byte.
From EsVerif.Common Require Import Base Bytes.
From EsVerif.C04 Require Import TextModel Spec DecProofs ScanProofs RoundTrip CheckProofs.
Open Scope Z_scope.

Lemma forall2b_complete {A B} (p : A -> B -> bool) (R : A -> B -> Prop) :
  forall l1 l2, (forall a b, In a l1 -> R a b -> p a b = true) -> Forall2 R l1 l2 -> forall2b p l1 l2 = true.
Proof.
  intros l1 l2 H F. induction F as [|a b l1 l2 Hab F IH]; [reflexivity|]. simpl.
  rewrite (H a b (or_introl eq_refl) Hab). apply IH. intros a' b' Hin. apply H. right. exact Hin.
Qed.

Lemma bytes_eqb_refl l : bytes_eqb l l = true.
Proof. apply bytes_eqb_eq. reflexivity. Qed.
Lemma zlist_eqb_refl l : zlist_eqb l l = true.
Proof. apply zlist_eqb_spec. reflexivity. Qed.
Lemma kind_eqb_refl k : kind_eqb k k = true.
Proof. destruct k as [s n|n|n]; simpl; rewrite ?Nat.eqb_refl; try reflexivity. destruct s; reflexivity. Qed.
Lemma order_eqb_refl o : order_eqb o o = true.
Proof. destruct o; reflexivity. Qed.

Lemma fld_match_b_complete fin fout : fld_match fin fout -> fld_match_b fin fout = true.
Proof.
  intros [H1 [H2 [H3 H4]]]. unfold fld_match_b. rewrite H1, H2, H3, H4.
  rewrite bytes_eqb_refl, kind_eqb_refl, zlist_eqb_refl, order_eqb_refl. reflexivity.
Qed.

Lemma no_order_char_b_complete s : no_order_char s -> no_order_char_b s = true.
Proof.
  destruct s as [|c s]; simpl; [contradiction|]. intros [H1 [H2 [H3 H4]]].
  apply byte_eqb_false in H1, H2, H3, H4. rewrite H1, H2, H3, H4. reflexivity.
Qed.

Lemma hfield_match_b_complete f h : hfield_match f h -> hfield_match_b f h = true.
Proof.
  intros [H1 [H2 [H3 H4]]]. unfold hfield_match_b. rewrite H2 in H4. rewrite H1, H2, H3.
  rewrite !bytes_eqb_refl, zlist_eqb_refl. rewrite (no_order_char_b_complete _ H4). reflexivity.
Qed.

Theorem header_check_complete d t h : header_ok d t h -> header_check d t h = true.
Proof.
  intros [H1 H2]. unfold header_check. rewrite H1, bytes_eqb_refl. simpl.
  eapply forall2b_complete; [|exact H2]. intros a b _. apply hfield_match_b_complete.
Qed.

Theorem header_check_iff d t h : header_check d t h = true <-> header_ok d t h.
Proof. split; [apply header_check_sound|apply header_check_complete]. Qed.

(* ---- tables without floating-point fields *)
Definition float_free_fld (f : fld) : bool := match fkind f with KFlt _ => false | _ => true end.
Definition float_free (t : table) : bool := forallb float_free_fld (tdt t).

Lemma el_match_b_complete f ein eout : float_free_fld f = true -> el_match f ein eout -> el_match_b f ein eout = true.
Proof.
  unfold float_free_fld, el_match, el_match_b. intros Hf [Hl Hm]. rewrite Hl, Nat.eqb_refl. simpl.
  destruct (fkind f) as [sg sz|sz|w]; [|discriminate|].
  - apply Z.eqb_eq. exact Hm.
  - apply bytes_eqb_eq. exact Hm.
Qed.

Lemma row_match_b_complete : forall fs rin rout, forallb float_free_fld fs = true ->
  row_match fs rin rout -> row_match_b fs rin rout = true.
Proof.
  induction fs as [|f fs IH]; intros [|ei ri] [|eo ro] Hf H; simpl in *; try contradiction; try reflexivity.
  apply andb_true_iff in Hf. destruct Hf as [Hf Hfs]. destruct H as [H1 H2].
  rewrite (IH ri ro Hfs H2), andb_true_r.
  eapply forall2b_complete; [|exact H1]. intros a b _. apply el_match_b_complete. exact Hf.
Qed.

Theorem roundtrip_check_complete tin out : float_free tin = true -> roundtrip_ok tin out -> roundtrip_check tin out = true.
Proof.
  intros Hf [tout [-> [H1 H2]]]. unfold roundtrip_check. apply andb_true_iff. split.
  - eapply forall2b_complete; [|exact H1]. intros a b _. apply fld_match_b_complete.
  - eapply forall2b_complete; [|exact H2]. intros a b _. apply row_match_b_complete. exact Hf.
Qed.

Theorem roundtrip_check_iff tin out : float_free tin = true -> (roundtrip_check tin out = true <-> roundtrip_ok tin out).
Proof. intro Hf. split; [apply roundtrip_check_sound|apply roundtrip_check_complete; exact Hf]. Qed.

(* C04 -- what the verdict terms of Exec.v compute: the tabulated printf/strtod values are those of
   FmtModel.F_model / P_model, so the verdict functions evaluate exactly the models the theorems are about;
   and what verdict 0 on an in-scope case establishes. *)
From Coq Require Import ZifyBool.
From Coq.Strings Require Import Byte.
From EsVerif.Common Require Import Base Bytes.
From EsVerif.C04 Require Import TextModel Spec DecProofs ScanProofs RoundTrip CheckProofs FmtModel Exec.

(* ---------------------------------------------------------------- the model depends on F and P pointwise *)
Section ExtF.
  Variable F F' : nat -> list byte -> list byte.
  Hypothesis HF : forall sz e, F sz e = F' sz e.

  Lemma cell_text_ext k e : cell_text F k e = cell_text F' k e.
  Proof. destruct k; simpl; auto. Qed.

  Lemma write_fields_ext d : forall fs r, write_fields F d fs r = write_fields F' d fs r.
  Proof.
    induction fs as [|f fs IH]; intros [|els r]; simpl; try reflexivity.
    rewrite IH. f_equal. f_equal. apply map_ext. intro e. apply cell_text_ext.
  Qed.

  Lemma write_text_ext d t : write_text F d t = write_text F' d t.
  Proof.
    unfold write_text, write_rows. f_equal. apply map_ext. intro r. unfold write_row. rewrite write_fields_ext. reflexivity.
  Qed.
End ExtF.

Section ExtP.
  Variable P P' : nat -> list byte -> list byte.
  Hypothesis HP : forall sz e, P sz e = P' sz e.

  Lemma store_ext k tok : store P k tok = store P' k tok.
  Proof. destruct k; simpl; auto. Qed.

  Lemma read_num_els_ext k d : forall n l, read_num_els P k d n l = read_num_els P' k d n l.
  Proof.
    induction n as [|n IH]; intro l; simpl; [reflexivity|].
    destruct (read_num (tk_of k) d l) as [[t r]|e]; simpl; [|reflexivity].
    rewrite IH. destruct (read_num_els P' k d n r) as [[es r2]|e]; simpl; [|reflexivity]. rewrite store_ext. reflexivity.
  Qed.

  Lemma read_field_ext d f l : read_field P d f l = read_field P' d f l.
  Proof. unfold read_field. destruct (fkind f); try reflexivity; rewrite read_num_els_ext; reflexivity. Qed.

  Lemma read_row_ext d : forall fs keep l, read_row P d fs keep l = read_row P' d fs keep l.
  Proof.
    induction fs as [|f fs IH]; intros keep l; simpl; [reflexivity|].
    rewrite read_field_ext. destruct (read_field P' d f l) as [[els r]|e]; simpl; [|reflexivity]. rewrite IH. reflexivity.
  Qed.

  Lemma read_rows_all_ext d fs keep : forall n l, read_rows_all P d fs keep n l = read_rows_all P' d fs keep n l.
  Proof.
    induction n as [|n IH]; intro l; simpl; [reflexivity|].
    rewrite read_row_ext. destruct (read_row P' d fs keep l) as [[r l2]|e]; simpl; [|reflexivity]. rewrite IH. reflexivity.
  Qed.

  Lemma read_text_ext d fs n l : read_text P d fs n l = read_text P' d fs n l.
  Proof.
    unfold read_text. destruct (n <? 1); [reflexivity|]. unfold read_text_columns. rewrite read_rows_all_ext. reflexivity.
  Qed.
End ExtP.

Section ExtC.
  Variable F F' P P' : nat -> list byte -> list byte.
  Hypothesis HF : forall sz e, F sz e = F' sz e.
  Hypothesis HP : forall sz e, P sz e = P' sz e.

  Lemma fcell_ok_ext sz e : fcell_ok_b F P sz e = fcell_ok_b F' P' sz e.
  Proof. unfold fcell_ok_b. rewrite HF, HP. reflexivity. Qed.

  Lemma row_contract_ext : forall fs r, row_contract_b F P fs r = row_contract_b F' P' fs r.
  Proof.
    induction fs as [|f fs IH]; intros [|els r]; simpl; try reflexivity. rewrite IH. f_equal.
    induction els as [|e els IHe]; simpl; [reflexivity|]. rewrite IHe. f_equal.
    unfold el_contract_b. destruct (fkind f); try reflexivity. apply fcell_ok_ext.
  Qed.

  Lemma fcontract_ext t : fcontract_b F P t = fcontract_b F' P' t.
  Proof.
    unfold fcontract_b. induction (trows t) as [|r rows IH]; simpl; [reflexivity|]. rewrite IH, row_contract_ext. reflexivity.
  Qed.
End ExtC.

(* ---------------------------------------------------------------- the tables *)
Lemma lookup_or_tab f (g : nat -> list byte -> list byte) : forall (cells : list (nat * list byte)) sz k,
  (forall s a, g s a = f s a) ->
  lookup_or f (map (fun c => (fst c, snd c, g (fst c) (snd c))) cells) sz k = f sz k.
Proof.
  induction cells as [|[s a] cells IH]; intros sz k Hg; simpl; [reflexivity|].
  destruct ((s =? sz)%nat && bytes_eqb a k) eqn:E; [|apply IH; exact Hg].
  apply andb_true_iff in E. destruct E as [E1 E2]. apply Nat.eqb_eq in E1. apply bytes_eqb_eq in E2. subst. apply Hg.
Qed.

Lemma F_tab_model t sz e : F_tab (ftab t) sz e = F_model sz e.
Proof. unfold F_tab, ftab. apply lookup_or_tab. reflexivity. Qed.

Lemma P_tab_model ft sz tok : P_tab (ptab ft) sz tok = P_model sz tok.
Proof.
  unfold P_tab, ptab. induction ft as [|[[s a] b] ft IH]; simpl; [reflexivity|].
  destruct ((s =? sz)%nat && bytes_eqb b tok) eqn:E; [|exact IH].
  apply andb_true_iff in E. destruct E as [E1 E2]. apply Nat.eqb_eq in E1. apply bytes_eqb_eq in E2. subst. reflexivity.
Qed.

Theorem exec_models t d :
  m_sfile2 d t = m_sfile_gen F_model P_model d t
  /\ m_recfile2 d t = m_recfile_gen F_model P_model d t
  /\ fcontract_b (F_tab (ftab t)) (P_tab (ptab (ftab t))) t = fcontract_b F_model P_model t.
Proof.
  split; [|split].
  - unfold m_sfile2, m_sfile_gen. cbv zeta.
    rewrite (write_text_ext _ _ (F_tab_model t)). rewrite (read_text_ext _ _ (P_tab_model (ftab t))). reflexivity.
  - unfold m_recfile2, m_recfile_gen. cbv zeta.
    rewrite (write_text_ext _ _ (F_tab_model t)). rewrite (read_text_ext _ _ (P_tab_model (ftab t))). reflexivity.
  - apply fcontract_ext; [apply F_tab_model|apply P_tab_model].
Qed.

(* ---------------------------------------------------------------- what verdict 0 establishes *)
Lemma verdict_bits agree ok x y z : 0 <= x -> 0 <= y -> 0 <= z -> verdict agree ok + (x + y + z) = 0 ->
  agree = true /\ ok = true /\ x = 0 /\ y = 0.
Proof. unfold verdict. destruct agree, ok; intros; repeat split; lia. Qed.

Theorem verdict0_sfile d t text h out : in_scope d t = true -> v_sfile2 d t text h out = 0 ->
  text = write_text F_model d t /\ roundtrip_ok t out /\ header_ok d t h
  /\ fcontract F_model P_model t /\ kf_leading_ws_after_numeric d t = false.
Proof.
  intros Hs Hv. unfold v_sfile2, extra_bits2 in Hv. cbv zeta in Hv. rewrite Hs in Hv.
  apply verdict_bits in Hv; [|destruct (kf_leading_ws_after_numeric d t); lia|
                             destruct (true && negb _); lia|destruct (kf_float_print_overflow _ _ t); lia].
  destruct Hv as [Ha [Hok [Hk Hc]]].
  apply andb_true_iff in Ha. destruct Ha as [Ha _]. apply andb_true_iff in Ha. destruct Ha as [Ha _].
  apply bytes_eqb_eq in Ha. unfold m_sfile_gen in Ha. simpl in Ha. rewrite (write_text_ext _ _ (F_tab_model t)) in Ha.
  apply andb_true_iff in Hok. destruct Hok as [Hr Hh].
  split; [symmetry; exact Ha|]. split; [apply roundtrip_check_sound; exact Hr|]. split; [apply header_check_sound; exact Hh|].
  split.
  - unfold fcontract. rewrite <- (fcontract_ext _ _ _ _ (F_tab_model t) (P_tab_model (ftab t))).
    destruct (fcontract_b (F_tab (ftab t)) (P_tab (ptab (ftab t))) t); [reflexivity|]. simpl in Hc. discriminate.
  - destruct (kf_leading_ws_after_numeric d t); [discriminate|reflexivity].
Qed.

Theorem verdict0_recfile d t text out : in_scope d t = true -> v_recfile2 d t text out = 0 ->
  text = write_text F_model d t /\ roundtrip_ok t out
  /\ fcontract F_model P_model t /\ kf_leading_ws_after_numeric d t = false.
Proof.
  intros Hs Hv. unfold v_recfile2, extra_bits2 in Hv. cbv zeta in Hv. rewrite Hs in Hv.
  apply verdict_bits in Hv; [|destruct (kf_leading_ws_after_numeric d t); lia|
                             destruct (true && negb _); lia|destruct (kf_float_print_overflow _ _ t); lia].
  destruct Hv as [Ha [Hok [Hk Hc]]].
  apply andb_true_iff in Ha. destruct Ha as [Ha _].
  apply bytes_eqb_eq in Ha. unfold m_recfile_gen in Ha. simpl in Ha. rewrite (write_text_ext _ _ (F_tab_model t)) in Ha.
  split; [symmetry; exact Ha|]. split; [apply roundtrip_check_sound; exact Hok|].
  split.
  - unfold fcontract. rewrite <- (fcontract_ext _ _ _ _ (F_tab_model t) (P_tab_model (ftab t))).
    destruct (fcontract_b (F_tab (ftab t)) (P_tab (ptab (ftab t))) t); [reflexivity|]. simpl in Hc. discriminate.
  - destruct (kf_leading_ws_after_numeric d t); [discriminate|reflexivity].
Qed.

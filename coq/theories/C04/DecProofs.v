(* C04 -- decimal printing/parsing and the little-endian integer image are inverse to each other. *)
From Coq Require Import ZifyBool ZifyNat NArith.
From Coq.Strings Require Import Byte.
From EsVerif.Common Require Import Base Bytes.
From EsVerif.C04 Require Import TextModel.
Ltac Zify.zify_post_hook ::= Z.to_euclidean_division_equations.

(* ---------------------------------------------------------------- bytes <-> Z *)
Lemma bZ_range b : 0 <= bZ b < 256.
Proof.
  unfold bZ. pose proof (Byte.to_N_bounded b) as H. lia.
Qed.

Lemma byte_of_N_to_N b : byte_of_N (Byte.to_N b) = b.
Proof. unfold byte_of_N. rewrite Byte.of_to_N. reflexivity. Qed.

Lemma Zb_small z b : z mod 256 = bZ b -> Zb z = b.
Proof.
  intro H. unfold Zb. rewrite H. unfold bZ. rewrite N2Z.id. apply byte_of_N_to_N.
Qed.

Lemma Zb_bZ b : Zb (bZ b) = b.
Proof. apply Zb_small. pose proof (bZ_range b). lia. Qed.

Lemma bZ_Zb z : bZ (Zb z) = z mod 256.
Proof.
  unfold Zb, bZ, byte_of_N.
  assert (R : 0 <= z mod 256 < 256) by lia.
  destruct (Byte.of_N (Z.to_N (z mod 256))) as [b|] eqn:E.
  - apply Byte.to_of_N in E. rewrite E. lia.
  - apply Byte.of_N_None_iff in E. lia.
Qed.

Lemma byte_eqb_refl b : byte_eqb b b = true.
Proof. apply byte_eqb_eq. reflexivity. Qed.

Lemma byte_eqb_false a b : byte_eqb a b = false <-> a <> b.
Proof.
  split.
  - intros H E. subst. rewrite byte_eqb_refl in H. discriminate.
  - intro H. destruct (byte_eqb a b) eqn:E; [|reflexivity]. apply byte_eqb_eq in E. contradiction.
Qed.

Lemma byte_eqb_bZ a b : byte_eqb a b = (bZ a =? bZ b).
Proof.
  unfold byte_eqb, bZ. destruct (N.eqb_spec (Byte.to_N a) (Byte.to_N b)) as [E|E].
  - rewrite E. symmetry. apply Z.eqb_refl.
  - symmetry. apply Z.eqb_neq. intro H. apply E. apply N2Z.inj. exact H.
Qed.

(* ---------------------------------------------------------------- dec / parse_dec *)
Lemma digit_byte_val d : 0 <= d < 10 -> bZ (digit_byte d) = 48 + d.
Proof. intro H. unfold digit_byte. rewrite bZ_Zb. lia. Qed.

Lemma digit_byte_is_digit d : 0 <= d < 10 -> is_digit (digit_byte d) = true.
Proof. intro H. unfold is_digit. rewrite digit_byte_val by exact H. lia. Qed.

Lemma dec_fuel_app f : forall n acc, dec_fuel f n acc = dec_fuel f n [] ++ acc.
Proof.
  induction f as [|f IH]; intros n acc; simpl; [reflexivity|].
  destruct (n <? 10); [reflexivity|].
  rewrite IH. rewrite (IH _ [_]). rewrite <- app_assoc. reflexivity.
Qed.

Lemma parse_digits_app a l1 l2 : parse_digits a (l1 ++ l2) = parse_digits (parse_digits a l1) l2.
Proof. unfold parse_digits. apply fold_left_app. Qed.

Lemma dec_fuel_spec f : forall n, 0 <= n < 2 ^ Z.of_nat (S f) ->
  parse_digits 0 (dec_fuel (S f) n []) = n
  /\ Forall (fun b => is_digit b = true) (dec_fuel (S f) n [])
  /\ dec_fuel (S f) n [] <> [].
Proof.
  induction f as [|f IH]; intros n Hn.
  - cbn [dec_fuel]. assert (n <? 10 = true) as -> by (change (2 ^ Z.of_nat 1) with 2 in Hn; lia).
    assert (D : 0 <= n mod 10 < 10) by lia.
    split; [|split].
    + unfold parse_digits; cbn [fold_left]. rewrite digit_byte_val by exact D. lia.
    + constructor; [apply digit_byte_is_digit; exact D|constructor].
    + discriminate.
  - remember (S f) as g eqn:Hg. cbn [dec_fuel].
    assert (D : 0 <= n mod 10 < 10) by lia.
    destruct (n <? 10) eqn:E.
    + split; [|split].
      * unfold parse_digits; cbn [fold_left]. rewrite digit_byte_val by exact D. lia.
      * constructor; [apply digit_byte_is_digit; exact D|constructor].
      * discriminate.
    + rewrite dec_fuel_app.
      assert (Hq : 0 <= n / 10 < 2 ^ Z.of_nat g).
      { rewrite Nat2Z.inj_succ, Z.pow_succ_r in Hn by lia.
        set (p := 2 ^ Z.of_nat g) in *. lia. }
      destruct (IH (n / 10) Hq) as [P [Fd Ne]].
      split; [|split].
      * rewrite parse_digits_app, P. unfold parse_digits; cbn [fold_left].
        rewrite digit_byte_val by exact D. lia.
      * apply Forall_app. split; [exact Fd|]. constructor; [apply digit_byte_is_digit; exact D|constructor].
      * intro H. apply app_eq_nil in H. destruct H as [_ H]. discriminate.
Qed.

Lemma dec_nat_spec n : 0 <= n ->
  parse_digits 0 (dec_nat n) = n
  /\ Forall (fun b => is_digit b = true) (dec_nat n)
  /\ dec_nat n <> [].
Proof.
  intro Hn. unfold dec_nat. apply dec_fuel_spec. split; [exact Hn|].
  rewrite Nat2Z.inj_succ, Z2Nat.id by apply Z.log2_nonneg.
  destruct (Z.eq_dec n 0) as [->|Hz]; [reflexivity|].
  apply Z.log2_spec. lia.
Qed.

Lemma is_digit_not_sign b : is_digit b = true -> byte_eqb b minus = false /\ byte_eqb b plus = false.
Proof.
  intro H. rewrite !byte_eqb_bZ. change (bZ minus) with 45. change (bZ plus) with 43.
  unfold is_digit in H. lia.
Qed.

Theorem dec_parse_roundtrip z : parse_dec (dec z) = z.
Proof.
  unfold dec. destruct (z <? 0) eqn:E.
  - unfold parse_dec. rewrite byte_eqb_refl.
    destruct (dec_nat_spec (- z) ltac:(lia)) as [P _]. rewrite P. lia.
  - destruct (dec_nat_spec z ltac:(lia)) as [P [Fd Ne]].
    destruct (dec_nat z) as [|b r] eqn:Ed; [contradiction|].
    unfold parse_dec. apply Forall_inv in Fd.
    destruct (is_digit_not_sign b Fd) as [-> ->]. exact P.
Qed.

(* the text of an integer: an optional '-' followed by at least one digit *)
Lemma dec_shape z : exists sg ds, dec z = sg ++ ds /\ (sg = [] \/ sg = [minus])
  /\ ds <> [] /\ Forall (fun b => is_digit b = true) ds.
Proof.
  unfold dec. destruct (z <? 0) eqn:E.
  - destruct (dec_nat_spec (- z) ltac:(lia)) as [_ [Fd Ne]].
    exists [minus], (dec_nat (- z)). auto.
  - destruct (dec_nat_spec z ltac:(lia)) as [_ [Fd Ne]].
    exists [], (dec_nat z). auto.
Qed.

(* ---------------------------------------------------------------- encode_le / decode_le *)
Lemma encode_le_length n : forall z, length (encode_le n z) = n.
Proof. induction n as [|n IH]; intro z; simpl; [reflexivity|]. rewrite IH. reflexivity. Qed.

Lemma encode_le_unsigned e : encode_le (length e) (le_unsigned e) = e.
Proof.
  induction e as [|b e IH]; [reflexivity|].
  cbn [length encode_le le_unsigned fold_right]. fold (le_unsigned e).
  pose proof (bZ_range b) as R.
  f_equal.
  - apply Zb_small. lia.
  - replace ((bZ b + 256 * le_unsigned e) / 256) with (le_unsigned e) by lia. exact IH.
Qed.

Lemma encode_le_shift n : forall z k, encode_le n (z + k * 256 ^ Z.of_nat n) = encode_le n z.
Proof.
  induction n as [|n IH]; intros z k; [reflexivity|].
  cbn [encode_le]. rewrite Nat2Z.inj_succ, Z.pow_succ_r by lia.
  set (p := 256 ^ Z.of_nat n) in *.
  f_equal.
  - unfold Zb. f_equal. f_equal.
    replace (z + k * (256 * p)) with (z + (k * p) * 256) by ring. apply Z_mod_plus_full.
  - replace ((z + k * (256 * p)) / 256) with (z / 256 + k * p).
    + apply IH.
    + replace (z + k * (256 * p)) with (z + (k * p) * 256) by ring.
      rewrite Z_div_plus_full by lia. reflexivity.
Qed.

Theorem encode_decode_le sg e : encode_le (length e) (decode_le sg e) = e.
Proof.
  unfold decode_le.
  destruct (sg && (256 ^ Z.of_nat (length e) <=? 2 * le_unsigned e)).
  - replace (le_unsigned e - 256 ^ Z.of_nat (length e))
      with (le_unsigned e + (-1) * 256 ^ Z.of_nat (length e)) by ring.
    rewrite encode_le_shift. apply encode_le_unsigned.
  - apply encode_le_unsigned.
Qed.

(* C04 -- the text written depends only on the kinds of the fields and on the native image of the rows:
   tables holding the same values in different byte orders produce the same file. *)
From Coq.Strings Require Import Byte.
From EsVerif.Common Require Import Base Bytes.
From EsVerif.C04 Require Import TextModel Spec.

Section W.
  Variable F : nat -> list byte -> list byte.

  Lemma write_fields_kinds d : forall fs fs' r, map fkind fs = map fkind fs' ->
    write_fields F d fs r = write_fields F d fs' r.
  Proof.
    induction fs as [|f fs IH]; intros [|f' fs'] r H; simpl in H; try discriminate; [reflexivity|].
    inversion H as [[Hk Hr]]. destruct r as [|els r]; [reflexivity|].
    cbn [write_fields]. rewrite Hk, (IH fs' r Hr).
    destruct fs, fs'; simpl in Hr; try discriminate; reflexivity.
  Qed.

  Lemma write_rows_kinds d fs fs' rows : map fkind fs = map fkind fs' ->
    write_rows F d fs rows = write_rows F d fs' rows.
  Proof.
    intro H. unfold write_rows. f_equal. apply map_ext. intro r. unfold write_row.
    rewrite (write_fields_kinds d fs fs' r H). reflexivity.
  Qed.

  (* same kinds, same native values => same text *)
  Theorem same_values_same_text d t t' :
    map fkind (tdt t) = map fkind (tdt t') ->
    map (to_native_row (tdt t)) (trows t) = map (to_native_row (tdt t')) (trows t') ->
    write_text F d t = write_text F d t'.
  Proof.
    intros Hk Hv. unfold write_text. rewrite Hv. apply write_rows_kinds. exact Hk.
  Qed.

  (* converting to native order twice changes nothing *)
  Lemma to_native_el_native f e : to_native_el (native_fld f) e = e.
  Proof.
    unfold to_native_el, native_fld, native_order. simpl.
    destruct (fkind f) as [sg sz|sz|w]; simpl; try reflexivity; destruct (_ <=? 1)%nat; reflexivity.
  Qed.

  Lemma to_native_row_native : forall fs r,
    to_native_row (map native_fld fs) (to_native_row fs r) = to_native_row fs r.
  Proof.
    induction fs as [|f fs IH]; intros [|els r]; simpl; try reflexivity.
    rewrite IH. f_equal. rewrite map_map. apply map_ext. intro e. apply to_native_el_native.
  Qed.

  (* writing a table = writing its native image *)
  Theorem write_text_native d t : write_text F d (native_table t) = write_text F d t.
  Proof.
    apply same_values_same_text; unfold native_table; cbn [tdt trows].
    - rewrite map_map. reflexivity.
    - rewrite map_map. apply map_ext. intro r. apply to_native_row_native.
  Qed.
End W.

(* C04 -- the accuracy part of H_num as a THEOREM on finite sub-domains that matter in practice (decided by the
   kernel, not sampled): every integer |z| <= 2000 stored in a binary32 or binary64 column (this contains the only
   text data of esutil's own test-suite, the integers 1..1764), the powers of two and ten listed below.
   For each such memory image e:  tok_ok (F_model e), length (P_model (F_model e)) = sz, and the value comes back
   to 16 / 7 significant digits (for the integers even exactly). *)
From Coq Require Import QArith Qabs ZifyBool Lqa.
From Coq.Strings Require Import Byte.
From EsVerif.Common Require Import Base Bytes.
From EsVerif.C04 Require Import Gen TextModel Spec CheckProofs FmtModel.
Open Scope Z_scope.

(* memory image of the value (-1)^neg * N/D rounded to the format *)
Definition img (sz : nat) (neg : bool) (N D : Z) : list byte :=
  if N =? 0 then image (fp_of sz) neg 0 0 else round_to (fp_of sz) neg N D.
Definition int_img (sz : nat) (z : Z) : list byte := img sz (z <? 0) (Z.abs z) 1.
Definition pow_img (B : Z) (sz : nat) (k : Z) : list byte := if 0 <=? k then img sz false (B ^ k) 1 else img sz false 1 (B ^ (- k)).

(* the cell meets the contract and its value is read back EXACTLY (same bytes) *)
Definition cell_exact (sz : nat) (e : list byte) : bool :=
  fcell_ok_b F_model P_model sz e && bytes_eqb (P_model sz (F_model sz e)) e.

Definition is_int_val (e : list byte) (z : Z) : bool :=
  match fdecode e with FFin q => Qeq_bool q (z # 1) | _ => false end.

Lemma zseq_In : forall n s z, s <= z < s + Z.of_nat n -> In z (zseq s n).
Proof.
  induction n as [|n IH]; intros s z H; [lia|]. simpl.
  destruct (Z.eq_dec s z) as [->|Hne]; [left; reflexivity|right]. apply IH. lia.
Qed.

Lemma forallb_range (p : Z -> bool) s n : forallb p (zseq s n) = true -> forall z, s <= z < s + Z.of_nat n -> p z = true.
Proof. intros H z Hz. rewrite forallb_forall in H. apply H. apply zseq_In. exact Hz. Qed.

(* ---- integers *)
Lemma small_ints_8_b : forallb (fun z => cell_exact 8 (int_img 8 z) && is_int_val (int_img 8 z) z) (zseq (-2000) 4001) = true.
Proof. vm_compute. reflexivity. Qed.
Lemma small_ints_4_b : forallb (fun z => cell_exact 4 (int_img 4 z) && is_int_val (int_img 4 z) z) (zseq (-2000) 4001) = true.
Proof. vm_compute. reflexivity. Qed.

Theorem accuracy_small_integers : forall sz z, sz = 4%nat \/ sz = 8%nat -> -2000 <= z <= 2000 ->
  fcell_ok_b F_model P_model sz (int_img sz z) = true
  /\ P_model sz (F_model sz (int_img sz z)) = int_img sz z
  /\ is_int_val (int_img sz z) z = true.
Proof.
  intros sz z Hsz Hz.
  assert (H : cell_exact sz (int_img sz z) && is_int_val (int_img sz z) z = true).
  { destruct Hsz as [-> | ->].
    - apply (forallb_range _ _ _ small_ints_4_b). simpl. lia.
    - apply (forallb_range _ _ _ small_ints_8_b). simpl. lia. }
  apply andb_true_iff in H. destruct H as [H1 H2]. unfold cell_exact in H1.
  apply andb_true_iff in H1. destruct H1 as [H1 H3]. apply bytes_eqb_eq in H3. auto.
Qed.

(* ---- powers of two and of ten (as rounded to the format): the contract holds; the read-back is in general NOT exact
   (16 digits do not identify a binary64: 855 of its 2098 powers of two come back one unit off), which is why the
   property -- and the contract -- speak of 16 significant digits.  binary32: the whole exponent range incl. subnormals;
   binary64: 2^-128..2^128 and 1e-40..1e40 (the full range costs minutes of kernel time; it was evaluated once, see report) *)
Definition cell_ok (sz : nat) (e : list byte) : bool := fcell_ok_b F_model P_model sz e.
Lemma pow2_8_b : forallb (fun k => cell_ok 8 (pow_img 2 8 k)) (zseq (-128) 257) = true.
Proof. vm_compute. reflexivity. Qed.
Lemma pow2_4_b : forallb (fun k => cell_ok 4 (pow_img 2 4 k)) (zseq (-149) 277) = true.
Proof. vm_compute. reflexivity. Qed.
Lemma pow10_8_b : forallb (fun k => cell_ok 8 (pow_img 10 8 k)) (zseq (-40) 81) = true.
Proof. vm_compute. reflexivity. Qed.
Lemma pow10_4_b : forallb (fun k => cell_ok 4 (pow_img 10 4 k)) (zseq (-37) 76) = true.
Proof. vm_compute. reflexivity. Qed.

Theorem accuracy_powers : forall k,
  (-128 <= k <= 128 -> fcell_ok_b F_model P_model 8 (pow_img 2 8 k) = true)
  /\ (-149 <= k <= 127 -> fcell_ok_b F_model P_model 4 (pow_img 2 4 k) = true)
  /\ (-40 <= k <= 40 -> fcell_ok_b F_model P_model 8 (pow_img 10 8 k) = true)
  /\ (-37 <= k <= 38 -> fcell_ok_b F_model P_model 4 (pow_img 10 4 k) = true).
Proof.
  intro k. repeat split; intro Hk.
  - apply (forallb_range _ _ _ pow2_8_b). simpl. lia.
  - apply (forallb_range _ _ _ pow2_4_b). simpl. lia.
  - apply (forallb_range _ _ _ pow10_8_b). simpl. lia.
  - apply (forallb_range _ _ _ pow10_4_b). simpl. lia.
Qed.

(* a cell that is read back exactly meets the accuracy clause of the property (soundness of the boolean) *)
Theorem cell_exact_sound sz e : cell_exact sz e = true ->
  fval_ok (digits_of sz) (fdecode e) (fdecode (P_model sz (F_model sz e))) /\ P_model sz (F_model sz e) = e.
Proof.
  unfold cell_exact, fcell_ok_b. intro H. apply andb_true_iff in H. destruct H as [H1 H2].
  apply andb_true_iff in H1. destruct H1 as [_ H1]. split; [apply fval_ok_b_sound; exact H1|apply bytes_eqb_eq; exact H2].
Qed.

(* ---------------------------------------------------------------- the accuracy clause is what correct rounding gives *)
Open Scope Q_scope.
(* why a correctly rounding C library satisfies the accuracy clause of H_num: x printed to [digits] significant digits
   (p within half a unit of the last digit) and p read back as a nearest representable number y, x itself being
   representable (so y is at least as close to p as x is) *)
Lemma sig_close_from_correct_rounding digits x p y e :
  Qpower ten e <= Qabs x -> Qabs x < Qpower ten (e + 1) ->
  Qabs (p - x) <= (1 # 2) * Qpower ten (e - digits + 1) ->
  Qabs (y - p) <= Qabs (x - p) ->
  sig_close digits x y.
Proof.
  intros H1 H2 Hp Hy. right. exists e. split; [exact H1|]. split; [exact H2|].
  assert (T : Qabs (y - x) <= Qabs (y - p) + Qabs (p - x)).
  { setoid_replace (y - x) with ((y - p) + (p - x)) by ring. apply Qabs_triangle. }
  assert (S : Qabs (x - p) == Qabs (p - x)).
  { setoid_replace (x - p) with (- (p - x)) by ring. apply Qabs_opp. }
  rewrite S in Hy. lra.
Qed.

(* C04 -- the scanner: a well-formed numeric token followed by its separator is consumed exactly. *)
From Coq Require Import ZifyBool ZifyNat.
From Coq.Strings Require Import Byte.
From EsVerif.Common Require Import Base Bytes.
From EsVerif.C04 Require Import TextModel Spec DecProofs.
Ltac Zify.zify_post_hook ::= Z.to_euclidean_division_equations.

Definition all_ws (l : list byte) : Prop := Forall (fun b => is_ws b = true) l.
(* nothing that could continue a numeric token *)
Definition ends_tok (x : list byte) : Prop := match x with [] => True | c :: _ => numchar c = false end.

Lemma numchar_not_ws b : numchar b = true -> is_ws b = false.
Proof. unfold numchar, is_ws, is_digit, is_alpha. set (n := bZ b). lia. Qed.

Lemma is_digit_numchar b : is_digit b = true -> numchar b = true.
Proof. unfold numchar. intros ->. reflexivity. Qed.

Lemma skip_ws_all_ws pre x : all_ws pre -> skip_ws (pre ++ x) = skip_ws x.
Proof.
  induction pre as [|b pre IH]; intro H; [reflexivity|].
  inversion H as [|? ? Hb Hp]; subst. simpl. rewrite Hb. apply IH. exact Hp.
Qed.

Lemma skip_ws_stop b r : is_ws b = false -> skip_ws (b :: r) = b :: r.
Proof. intro H. simpl. rewrite H. reflexivity. Qed.

(* ---------------------------------------------------------------- the token automaton *)
Lemma run_split k : forall l s s' t r, run k s l = (s', t, r) -> l = t ++ r.
Proof.
  induction l as [|b l IH]; intros s s' t r H; simpl in H.
  - inversion H; reflexivity.
  - destruct (step k s b) as [s1|] eqn:E.
    + destruct (run k s1 l) as [[s2 t2] r2] eqn:R. inversion H; subst. simpl. f_equal. eapply IH. exact R.
    + inversion H; subst. reflexivity.
Qed.

Lemma run_ext k : forall tok s s' t, run k s tok = (s', t, []) ->
  forall c rest, step k s' c = None -> run k s (tok ++ c :: rest) = (s', tok, c :: rest).
Proof.
  induction tok as [|b tok IH]; intros s s' t H c rest Hc; simpl in *.
  - inversion H; subst. rewrite Hc. reflexivity.
  - destruct (step k s b) as [s1|] eqn:E; [|inversion H].
    destruct (run k s1 tok) as [[s2 t2] r2] eqn:R. inversion H; subst.
    rewrite (IH _ _ _ R _ _ Hc). reflexivity.
Qed.

Lemma step_stop k s c : numchar c = false -> step k s c = None.
Proof. intro H. unfold step. rewrite H. reflexivity. Qed.

Lemma tok_ok_run k tok : tok_ok k tok = true ->
  exists s', run k Q0 tok = (s', tok, []) /\ accepting s' = true.
Proof.
  unfold tok_ok. destruct (run k Q0 tok) as [[s t] r] eqn:R. intro H.
  apply andb_true_iff in H. destruct H as [Ha Hr]. destruct r; [|discriminate].
  apply run_split in R as S. rewrite app_nil_r in S. subst t. exists s. split; [reflexivity|exact Ha].
Qed.

Lemma tok_ok_head k tok : tok_ok k tok = true -> exists b r, tok = b :: r /\ numchar b = true.
Proof.
  destruct tok as [|b r]; unfold tok_ok; simpl.
  - discriminate.
  - intro H. exists b, r. split; [reflexivity|].
    unfold step in H. destruct (numchar b); [reflexivity|]. simpl in H. discriminate.
Qed.

Lemma scan_tok_ext k tok c rest : tok_ok k tok = true -> numchar c = false ->
  scan_tok k (tok ++ c :: rest) = TOk tok (c :: rest).
Proof.
  intros H Hc. destruct (tok_ok_run k tok H) as [s [R A]].
  unfold scan_tok. rewrite (run_ext k tok Q0 s tok R c rest (step_stop k s c Hc)). rewrite A. reflexivity.
Qed.

Lemma scan_tok_eof k tok : tok_ok k tok = true -> scan_tok k tok = TOk tok [].
Proof.
  intro H. destruct (tok_ok_run k tok H) as [s [R A]]. unfold scan_tok. rewrite R, A. reflexivity.
Qed.

Lemma scan_tok_ends k tok x : tok_ok k tok = true -> ends_tok x -> scan_tok k (tok ++ x) = TOk tok x.
Proof.
  intros H Hx. destruct x as [|c rest].
  - rewrite app_nil_r. apply scan_tok_eof. exact H.
  - apply scan_tok_ext; assumption.
Qed.

(* ---------------------------------------------------------------- one fscanf call *)
(* bare conversion (white-space mode): nothing behind the token is touched *)
Lemma fscanf_num_bare k pre tok x : all_ws pre -> tok_ok k tok = true -> ends_tok x ->
  fscanf_num k None (pre ++ tok ++ x) = SOk tok x.
Proof.
  intros Hp H Hx. unfold fscanf_num. rewrite skip_ws_all_ws by exact Hp.
  destruct (tok_ok_head k tok H) as [b [r [-> Hb]]].
  change ((b :: r) ++ x) with (b :: (r ++ x)). rewrite skip_ws_stop by (apply numchar_not_ws; exact Hb).
  change (b :: (r ++ x)) with ((b :: r) ++ x). rewrite scan_tok_ends by assumption.
  simpl. reflexivity.
Qed.

(* conversion, blank, literal delimiter: the stream stops exactly behind the separator under [safe_next] *)
Lemma fscanf_num_delim k d pre tok sep rest :
  all_ws pre -> tok_ok k tok = true -> numchar sep = false -> (is_ws sep = false -> sep = d) ->
  safe_next d sep rest ->
  fscanf_num k (Some d) (pre ++ tok ++ sep :: rest) = SOk tok rest.
Proof.
  intros Hp H Hsep Hd Hs. unfold fscanf_num. rewrite skip_ws_all_ws by exact Hp.
  destruct (tok_ok_head k tok H) as [b [r [-> Hb]]].
  change ((b :: r) ++ sep :: rest) with (b :: (r ++ sep :: rest)).
  rewrite skip_ws_stop by (apply numchar_not_ws; exact Hb).
  change (b :: (r ++ sep :: rest)) with ((b :: r) ++ sep :: rest). rewrite scan_tok_ext by assumption.
  cbv beta iota.
  destruct (is_ws sep) eqn:Ews.
  - (* the separator is white space: the blank directive runs into [rest] *)
    destruct Hs as [Hs|Hs]; [congruence|].
    simpl skip_ws. rewrite Ews.
    destruct rest as [|b' r']; [reflexivity|].
    destruct Hs as [Hw Hne]. rewrite skip_ws_stop by exact Hw.
    apply byte_eqb_false in Hne. rewrite Hne. reflexivity.
  - rewrite skip_ws_stop by exact Ews. rewrite (Hd eq_refl), byte_eqb_refl. reflexivity.
Qed.

(* ---------------------------------------------------------------- the element loop body *)
Lemma read_num_space k pre tok x : all_ws pre -> tok_ok k tok = true -> ends_tok x ->
  read_num k space (pre ++ tok ++ x) = Ok (tok, x).
Proof.
  intros. unfold read_num. rewrite byte_eqb_refl. rewrite fscanf_num_bare by assumption. reflexivity.
Qed.

Lemma read_num_delim k d pre tok sep rest :
  byte_eqb d space = false ->
  all_ws pre -> tok_ok k tok = true -> numchar sep = false -> (is_ws sep = false -> sep = d) ->
  safe_next d sep rest ->
  read_num k d (pre ++ tok ++ sep :: rest) = Ok (tok, rest).
Proof.
  intros Hd. intros. unfold read_num. rewrite Hd. rewrite fscanf_num_delim by assumption. reflexivity.
Qed.

(* ---------------------------------------------------------------- integers are well-formed tokens *)
Lemma run_int_digits ds : Forall (fun b => is_digit b = true) ds -> run TInt QInt ds = (QInt, ds, []).
Proof.
  induction ds as [|b ds IH]; intro H; [reflexivity|].
  inversion H as [|? ? Hb Hds]; subst. simpl.
  unfold step. rewrite (is_digit_numchar b Hb). simpl. rewrite Hb. rewrite (IH Hds). reflexivity.
Qed.

Lemma tok_ok_dec z : tok_ok TInt (dec z) = true.
Proof.
  destruct (dec_shape z) as [sg [ds [E [Hsg [Hne Hd]]]]]. rewrite E.
  destruct ds as [|b ds]; [contradiction|]. inversion Hd as [|? ? Hb Hds]; subst.
  unfold tok_ok. destruct Hsg as [->| ->]; simpl.
  - unfold step. rewrite (is_digit_numchar b Hb). simpl.
    assert (is_sign b = false) as -> by (unfold is_sign; unfold is_digit in Hb; lia).
    rewrite Hb. rewrite (run_int_digits ds Hds). reflexivity.
  - unfold step at 1. change (numchar minus) with true. simpl.
    unfold step. rewrite (is_digit_numchar b Hb). simpl. rewrite Hb.
    rewrite (run_int_digits ds Hds). reflexivity.
Qed.

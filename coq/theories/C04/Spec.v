(* C04 -- the property as Props with boolean checkers, the inputs the statement quantifies over,
   the contract of the floating-point oracle, and the known-finding class. *)
From Coq Require Import QArith Qabs.
From Coq.Strings Require Import Byte.
From EsVerif.Common Require Import Base Bytes.
From EsVerif.C04 Require Import TextModel.
Open Scope Z_scope.

(* ------------------------------------------------------------------ values of IEEE-754 memory images *)
Inductive fval := FNan | FInf (neg : bool) | FFin (q : Q).

Definition q_of (neg : bool) (m e : Z) : Q :=
  let a := if 0 <=? e then (m * 2 ^ e) # 1 else m # Z.to_pos (2 ^ (- e)) in
  if neg then Qopp a else a.

(* native (little-endian) bytes of a binary32 / binary64 element -> value *)
Definition fdecode (e : list byte) : fval :=
  let bits := le_unsigned e in
  if (length e =? 8)%nat then
    let neg := 2 ^ 63 <=? bits in
    let ex := (bits / 2 ^ 52) mod 2 ^ 11 in
    let m := bits mod 2 ^ 52 in
    if ex =? 2047 then (if m =? 0 then FInf neg else FNan)
    else if ex =? 0 then FFin (q_of neg m (-1074))
    else FFin (q_of neg (2 ^ 52 + m) (ex - 1075))
  else
    let neg := 2 ^ 31 <=? bits in
    let ex := (bits / 2 ^ 23) mod 2 ^ 8 in
    let m := bits mod 2 ^ 23 in
    if ex =? 255 then (if m =? 0 then FInf neg else FNan)
    else if ex =? 0 then FFin (q_of neg m (-149))
    else FFin (q_of neg (2 ^ 23 + m) (ex - 150)).

Definition ten : Q := 10 # 1.

(* x and y agree to [digits] significant decimal digits: they differ by at most one unit in the
   [digits]-th significant digit of x (what printing x with %.<digits>g and reading the text back
   with a correctly rounding strtod guarantees); zero must come back as zero *)
Definition sig_close (digits : Z) (x y : Q) : Prop :=
  (x == 0 /\ y == 0)%Q \/
  exists e : Z, (Qpower ten e <= Qabs x)%Q /\ (Qabs x < Qpower ten (e + 1))%Q
                /\ (Qabs (y - x) <= Qpower ten (e - digits + 1))%Q.

(* (lazy conditionals: the virtual machine evaluates both arguments of && and ||) *)
Definition sig_close_at (digits : Z) (x y : Q) (e : Z) : bool :=
  if Qle_bool (Qpower ten e) (Qabs x)
  then if Qle_bool (Qpower ten (e + 1)) (Qabs x) then false
       else Qle_bool (Qabs (y - x)) (Qpower ten (e - digits + 1))
  else false.

Fixpoint first_ok (f : Z -> bool) (l : list Z) : bool :=
  match l with [] => false | e :: r => if f e then true else first_ok f r end.

Definition sig_close_b (digits : Z) (x y : Q) : bool :=
  if Qeq_bool x 0 then Qeq_bool y 0
  else
    let e0 := ((Z.log2 (Z.abs (Qnum x)) - Z.log2 (Zpos (Qden x))) * 30103) / 100000 in
    first_ok (sig_close_at digits x y) [e0; e0 + 1; e0 - 1; e0 + 2; e0 - 2].

Definition fval_ok (digits : Z) (a b : fval) : Prop :=
  match a, b with
  | FNan, FNan => True
  | FInf s, FInf s' => s = s'
  | FFin x, FFin y => sig_close digits x y
  | _, _ => False
  end.
Definition fval_ok_b (digits : Z) (a b : fval) : bool :=
  match a, b with
  | FNan, FNan => true
  | FInf s, FInf s' => Bool.eqb s s'
  | FFin x, FFin y => sig_close_b digits x y
  | _, _ => false
  end.
Definition digits_of (sz : nat) : Z := if (sz =? 8)%nat then 16 else 7.

(* ------------------------------------------------------------------ the tables the statement is about *)
Definition kind_ok_b (k : kind) : bool :=
  match k with
  | KInt _ sz => (sz =? 1)%nat || (sz =? 2)%nat || (sz =? 4)%nat || (sz =? 8)%nat
  | KFlt sz => (sz =? 4)%nat || (sz =? 8)%nat
  | KStr w => (1 <=? w)%nat
  end.
Definition fld_ok_b (f : fld) : bool := kind_ok_b (fkind f) && (1 <=? fnel f)%nat.

(* one element: right size; string bytes are not 0xff (ASCII) *)
Definition el_ok_b (f : fld) (e : list byte) : bool :=
  (length e =? elsize (fkind f))%nat
  && (if is_str (fkind f) then forallb (fun b => negb (byte_eqb b xff)) e else true).

Fixpoint row_ok_b (fs : list fld) (r : row) : bool :=
  match fs, r with
  | [], [] => true
  | f :: fs', els :: r' => (length els =? fnel f)%nat && forallb (el_ok_b f) els && row_ok_b fs' r'
  | _, _ => false
  end.

Definition delim_ok_b (d : byte) : bool := negb (numchar d) && negb (byte_eqb d nl) && negb (byte_eqb d x0d).

Definition table_ok_b (t : table) : bool :=
  forallb fld_ok_b (tdt t) && match tdt t with [] => false | _ => true end
  && match trows t with [] => false | _ => true end
  && forallb (row_ok_b (tdt t)) (trows t).
Definition table_ok (t : table) : Prop := table_ok_b t = true.
Definition delim_ok (d : byte) : Prop := delim_ok_b d = true.

(* ------------------------------------------------------------------ contract of the printf/scanf oracle (H_num)
   For every floating-point element e (native bytes) of the table:
     (tok)  F sz e is one well-formed numeric token of scanf's grammar;
     (len)  P sz (F sz e) has sz bytes;
     (acc)  its value equals that of e to 16 (binary64) / 7 (binary32) significant digits,
            NaN |-> NaN, +-inf |-> +-inf.
   Checked on every case by the contract monitor (fcontract_b evaluated on the supplied oracle). *)
Section Contract.
  Variable F P : nat -> list byte -> list byte.

  Definition fcell_ok_b (sz : nat) (e : list byte) : bool :=
    tok_ok TFloat (F sz e)
    && (length (P sz (F sz e)) =? sz)%nat
    && fval_ok_b (digits_of sz) (fdecode e) (fdecode (P sz (F sz e))).

  Definition el_contract_b (f : fld) (e : list byte) : bool :=
    match fkind f with KFlt sz => fcell_ok_b sz e | _ => true end.

  Fixpoint row_contract_b (fs : list fld) (r : row) : bool :=
    match fs, r with
    | f :: fs', els :: r' => forallb (el_contract_b f) els && row_contract_b fs' r'
    | _, _ => true
    end.

  (* on the native image of the table (what the C writer sees) *)
  Definition fcontract_b (t : table) : bool :=
    forallb (fun r => row_contract_b (tdt t) (to_native_row (tdt t) r)) (trows t).
  Definition fcontract (t : table) : Prop := fcontract_b t = true.
End Contract.

(* ------------------------------------------------------------------ what the round trip returns
   the native image of the table with every floating-point element e replaced by P (F e) *)
Section Expected.
  Variable F P : nat -> list byte -> list byte.
  Definition rt_el (k : kind) (e : list byte) : list byte :=
    match k with KFlt sz => P sz (F sz e) | _ => e end.
  Fixpoint rt_row (fs : list fld) (r : row) : row :=
    match fs, r with
    | f :: fs', els :: r' => map (rt_el (fkind f)) els :: rt_row fs' r'
    | _, _ => []
    end.
  Definition expected (t : table) : table :=
    {| tdt := map native_fld (tdt t);
       trows := map (fun r => rt_row (tdt t) (to_native_row (tdt t) r)) (trows t) |}.
End Expected.

(* ------------------------------------------------------------------ the premise the scanner proof forces
   fscanf("<conv> <delim>") has just read a numeric token that was followed by the separator [sep]
   (the delimiter, or the newline at the end of a row) and then by [rest].  The blank directive eats
   ALL white space, the literal delimiter is consumed only if it comes next.  The stream is left
   exactly at [rest] iff the separator is not white space (then it is the delimiter and nothing else
   is touched) or [rest] does not begin with white space or with the delimiter. *)
Definition safe_next (d sep : byte) (rest : list byte) : Prop :=
  is_ws sep = false \/ match rest with [] => True | b :: _ => is_ws b = false /\ b <> d end.

(* ------------------------------------------------------------------ known finding class
   kf_leading_ws_after_numeric: delim <> ' ' and some byte-string cell that directly follows a
   numeric cell in the file starts with a byte the scan format "<conv> <delim>" swallows:
     - next cell in the same row (separated by the delimiter): only when the delimiter is itself
       white space (tab): the cell starts with white space;
     - first cell of the next row (separated by the newline): the cell starts with white space or
       with the delimiter character. *)
Definition head_unsafe (d : byte) (f : fld) (els : list (list byte)) : bool :=
  match fkind f, els with
  | KStr _, (b :: _) :: _ => is_ws b || byte_eqb b d
  | _, _ => false
  end.
Definition row_head_unsafe (d : byte) (fs : list fld) (r : row) : bool :=
  match fs, r with f :: _, els :: _ => head_unsafe d f els | _, _ => false end.

Fixpoint kf_fields (d : byte) (fs : list fld) (r : row) (next_row_unsafe : bool) : bool :=
  match fs, r with
  | f :: fs', els :: r' =>
      (negb (is_str (fkind f))
       && match fs' with
          | [] => next_row_unsafe
          | _ => is_ws d && row_head_unsafe d fs' r'
          end)
      || kf_fields d fs' r' next_row_unsafe
  | _, _ => false
  end.
Fixpoint kf_rows (d : byte) (fs : list fld) (rows : list row) : bool :=
  match rows with
  | [] => false
  | r :: tl => kf_fields d fs r (match tl with r2 :: _ => row_head_unsafe d fs r2 | [] => false end)
               || kf_rows d fs tl
  end.
Definition kf_leading_ws_after_numeric (d : byte) (t : table) : bool :=
  negb (byte_eqb d space) && kf_rows d (tdt t) (trows t).

(* ------------------------------------------------------------------ the property *)
(* one element of the result against the element that was written *)
Definition el_match (f : fld) (ein eout : list byte) : Prop :=
  length eout = elsize (fkind f) /\
  match fkind f with
  | KInt sg _ => decode_le sg eout = decode_le sg (to_native_el f ein)      (* integers exactly *)
  | KStr _ => eout = ein                                                    (* strings exactly *)
  | KFlt sz => fval_ok (digits_of sz) (fdecode (to_native_el f ein)) (fdecode eout)
  end.
Definition el_match_b (f : fld) (ein eout : list byte) : bool :=
  (length eout =? elsize (fkind f))%nat &&
  match fkind f with
  | KInt sg _ => decode_le sg eout =? decode_le sg (to_native_el f ein)
  | KStr _ => bytes_eqb eout ein
  | KFlt sz => fval_ok_b (digits_of sz) (fdecode (to_native_el f ein)) (fdecode eout)
  end.

Fixpoint row_match (fs : list fld) (rin rout : row) : Prop :=
  match fs, rin, rout with
  | [], [], [] => True
  | f :: fs', ei :: ri, eo :: ro => Forall2 (el_match f) ei eo /\ row_match fs' ri ro
  | _, _, _ => False
  end.
Fixpoint forall2b {A B} (p : A -> B -> bool) (l1 : list A) (l2 : list B) : bool :=
  match l1, l2 with
  | [], [] => true
  | a :: t1, b :: t2 => p a b && forall2b p t1 t2
  | _, _ => false
  end.
Fixpoint row_match_b (fs : list fld) (rin rout : row) : bool :=
  match fs, rin, rout with
  | [], [], [] => true
  | f :: fs', ei :: ri, eo :: ro => forall2b (el_match_b f) ei eo && row_match_b fs' ri ro
  | _, _, _ => false
  end.

(* same name, type and shape; native byte order *)
Definition fld_match (fin fout : fld) : Prop :=
  fname fout = fname fin /\ fkind fout = fkind fin /\ fshape fout = fshape fin
  /\ forder fout = native_order (fkind fin).
Definition kind_eqb (a b : kind) : bool :=
  match a, b with
  | KInt s n, KInt s' n' => Bool.eqb s s' && (n =? n')%nat
  | KFlt n, KFlt n' => (n =? n')%nat
  | KStr n, KStr n' => (n =? n')%nat
  | _, _ => false
  end.
Definition order_eqb (a b : order) : bool :=
  match a, b with LE, LE | BE, BE | NA, NA => true | _, _ => false end.
Definition fld_match_b (fin fout : fld) : bool :=
  bytes_eqb (fname fout) (fname fin) && kind_eqb (fkind fout) (fkind fin)
  && zlist_eqb (fshape fout) (fshape fin) && order_eqb (forder fout) (native_order (fkind fin)).

(* "reading it back returns the same rows ... same field names and shapes in native byte order" *)
Definition roundtrip_ok (tin : table) (out : result table) : Prop :=
  exists tout, out = Ok tout
    /\ Forall2 fld_match (tdt tin) (tdt tout)
    /\ Forall2 (row_match (tdt tin)) (trows tin) (trows tout).
Definition roundtrip_check (tin : table) (out : result table) : bool :=
  match out with
  | Ok tout => forall2b fld_match_b (tdt tin) (tdt tout)
               && forall2b (row_match_b (tdt tin)) (trows tin) (trows tout)
  | Err _ => false
  end.

(* "the stored header records the delimiter and a byte-order-free dtype" *)
Definition no_order_char (s : list byte) : Prop :=
  match s with
  | c :: _ => c <> x3c /\ c <> x3e /\ c <> x3d /\ c <> x7c           (* < > = | *)
  | [] => False
  end.
Definition no_order_char_b (s : list byte) : bool :=
  match s with
  | c :: _ => negb (byte_eqb c x3c) && negb (byte_eqb c x3e) && negb (byte_eqb c x3d) && negb (byte_eqb c x7c)
  | [] => false
  end.
Definition hdr := (list byte * list (list byte * list byte * list Z))%type.   (* _DELIM, _DTYPE *)
(* the stored type strings are those of the table's fields without their byte-order character *)
Definition hfield_match (f : fld) (h : list byte * list byte * list Z) : Prop :=
  fst (fst h) = fname f /\ snd (fst h) = tl (typestr f) /\ snd h = fshape f /\ no_order_char (snd (fst h)).
Definition hfield_match_b (f : fld) (h : list byte * list byte * list Z) : bool :=
  bytes_eqb (fst (fst h)) (fname f) && bytes_eqb (snd (fst h)) (tl (typestr f))
  && zlist_eqb (snd h) (fshape f) && no_order_char_b (snd (fst h)).
Definition header_ok (d : byte) (t : table) (h : hdr) : Prop :=
  fst h = [d] /\ Forall2 hfield_match (tdt t) (snd h).
Definition header_check (d : byte) (t : table) (h : hdr) : bool :=
  bytes_eqb (fst h) [d] && forall2b hfield_match_b (tdt t) (snd h).

(* ------------------------------------------------------------------ "strings free of newline characters"
   (needed only where the number of rows is recovered by counting lines: Recfile without nrows=) *)
Definition is_eol (b : byte) : bool := byte_eqb b nl || byte_eqb b x0d.
Definition el_noeol_b (f : fld) (e : list byte) : bool :=
  if is_str (fkind f) then forallb (fun b => negb (is_eol b)) e else true.
Fixpoint row_noeol_b (fs : list fld) (r : row) : bool :=
  match fs, r with
  | f :: fs', els :: r' => forallb (el_noeol_b f) els && row_noeol_b fs' r'
  | _, _ => true
  end.
Definition strings_noeol_b (t : table) : bool := forallb (row_noeol_b (tdt t)) (trows t).
Definition strings_noeol (t : table) : Prop := strings_noeol_b t = true.

(* the stream begins with something the directive " <delim>" would not touch *)
Definition starts_safe (d : byte) (rest : list byte) : Prop :=
  match rest with [] => True | b :: _ => is_ws b = false /\ b <> d end.

(* the native image of a table: what Recfile.write hands to the C++ writer *)
Definition native_table (t : table) : table :=
  {| tdt := map native_fld (tdt t); trows := map (to_native_row (tdt t)) (trows t) |}.

(* ------------------------------------------------------------------ concrete tables used by Properties.v
   kf_witness: [('s','S3'),('i','i4')], rows ("  a",1),("  b",2) -- with ',' a member of the known class
   nv_table:   [('i','>i2',(2,)),('s','S3')] -- non-vacuity of the hypotheses *)
Definition kf_witness : table :=
  {| tdt := [ {| fname := [x73]; fkind := KStr 3; forder := NA; fshape := [] |};
              {| fname := [x69]; fkind := KInt true 4; forder := LE; fshape := [] |} ];
     trows := [ [[[x20; x20; x61]]; [[x01; x00; x00; x00]]]; [[[x20; x20; x62]]; [[x02; x00; x00; x00]]] ] |}.
Definition nv_table : table :=
  {| tdt := [ {| fname := [x69]; fkind := KInt true 2; forder := BE; fshape := [2] |};
              {| fname := [x73]; fkind := KStr 3; forder := NA; fshape := [] |} ];
     trows := [ [[[xff; xfe]; [x01; x00]]; [[x20; x61; x2c]]]; [[[x00; x07]; [x80; x00]]; [[x20; x20; x00]]] ] |}.
(* w_tab:   [('i','i4'),('s','S3')], rows (1," ab"),(2," cd") -- with the tab delimiter a member through the same-row clause
   w_delim: [('s','S3'),('i','i4')], rows (";a",1),(";b",2) -- with ';' a member through the next-row-starts-with-delimiter clause *)
Definition w_tab : table :=
  {| tdt := [ {| fname := [x69]; fkind := KInt true 4; forder := LE; fshape := [] |};
              {| fname := [x73]; fkind := KStr 3; forder := NA; fshape := [] |} ];
     trows := [ [[[x01; x00; x00; x00]]; [[x20; x61; x62]]]; [[[x02; x00; x00; x00]]; [[x20; x63; x64]]] ] |}.
Definition w_delim : table :=
  {| tdt := [ {| fname := [x73]; fkind := KStr 3; forder := NA; fshape := [] |};
              {| fname := [x69]; fkind := KInt true 4; forder := LE; fshape := [] |} ];
     trows := [ [[[x3b; x61; x00]]; [[x01; x00; x00; x00]]]; [[[x3b; x62; x00]]; [[x02; x00; x00; x00]]] ] |}.

(* ------------------------------------------------------------------ known finding class kf_float_print_overflow
   some FINITE floating-point element is printed (to 16 / 7 digits, rounded up) as a text whose value exceeds the largest
   finite number of the format, so that it is read back as an infinity.  With "%.16g" these are exactly the two largest
   finite binary64 values of either sign (1.7976931348623157e308 and its predecessor print as 1.797693134862316e+308). *)
Section Overflow.
  Variable F P : nat -> list byte -> list byte.
  Definition is_finite (v : fval) : bool := match v with FFin _ => true | _ => false end.
  Definition is_infinite (v : fval) : bool := match v with FInf _ => true | _ => false end.
  Definition overflow_el_b (f : fld) (e : list byte) : bool :=
    match fkind f with KFlt sz => is_finite (fdecode e) && is_infinite (fdecode (P sz (F sz e))) | _ => false end.
  Fixpoint overflow_row_b (fs : list fld) (r : row) : bool :=
    match fs, r with
    | f :: fs', els :: r' => existsb (overflow_el_b f) els || overflow_row_b fs' r'
    | _, _ => false
    end.
  Definition kf_float_print_overflow (t : table) : bool :=
    existsb (fun r => overflow_row_b (tdt t) (to_native_row (tdt t) r)) (trows t).
End Overflow.
(* [('x','f8')], one row holding the largest finite binary64 *)
Definition w_dblmax : table :=
  {| tdt := [ {| fname := [x78]; fkind := KFlt 8; forder := LE; fshape := [] |} ];
     trows := [ [[[xff; xff; xff; xff; xff; xff; xef; x7f]]] ] |}.

(* Reusable byte-level model of esutil's delimited-text record files (records.cpp text paths,
   recfile/Util.py, sfile.py).  Definitions only; proofs live in the C04/*Proofs.v files.

   writer  : Records::WriteRows / WriteField / WriteStringAsAscii / WriteNumberAsAscii
   reader  : Records::read_text_columns / read_from_text_column / scan_column_values
             (fscanf with the formats of make_scan_formats) / read_ascii_bytes / skip_text_rows
   python  : Recfile.write (to_native_inplace), remove_dtype_byteorder, SFile._make_header,
             SFile._remove_byteorder, Recfile._count_nrows

   A table row is [list (list (list byte))]: per field, per element (C order), the bytes numpy keeps
   in memory for that element.  Floating-point printing and parsing are the two functions
   [F : nat -> list byte -> list byte] (element size, native memory bytes |-> text printf writes) and
   [P : nat -> list byte -> list byte] (element size, numeric token |-> native memory bytes scanf
   stores); they are parameters of the model, see C04/Properties.v for their contract. *)
From Coq.Strings Require Import Byte.
From EsVerif.Common Require Import Base Bytes.

(* ------------------------------------------------------------------ characters *)
Definition nl : byte := x0a.
Definition space : byte := x20.
Definition minus : byte := x2d.
Definition plus : byte := x2b.

Definition is_ws (b : byte) : bool := let n := bZ b in (n =? 32) || ((9 <=? n) && (n <=? 13)).   (* isspace, C locale *)
Definition is_digit (b : byte) : bool := let n := bZ b in (48 <=? n) && (n <=? 57).
Definition is_alpha (b : byte) : bool :=
  let n := bZ b in ((65 <=? n) && (n <=? 90)) || ((97 <=? n) && (n <=? 122)).
(* every byte that can occur in a numeric token of scanf *)
Definition numchar (b : byte) : bool :=
  let n := bZ b in is_digit b || is_alpha b || (n =? 43) || (n =? 45) || (n =? 46).
(* lower-cased code *)
Definition lc (b : byte) : Z := let n := bZ b in if (65 <=? n) && (n <=? 90) then n + 32 else n.

Fixpoint skip_ws (l : list byte) : list byte :=
  match l with
  | b :: r => if is_ws b then skip_ws r else l
  | [] => []
  end.

(* ------------------------------------------------------------------ decimal integers: printf %d/%u, strtol *)
Definition digit_byte (d : Z) : byte := Zb (48 + d).

Fixpoint dec_fuel (fuel : nat) (n : Z) (acc : list byte) : list byte :=
  match fuel with
  | O => acc
  | S f => let acc' := digit_byte (n mod 10) :: acc in
           if n <? 10 then acc' else dec_fuel f (n / 10) acc'
  end.
Definition dec_nat (n : Z) : list byte := dec_fuel (S (Z.to_nat (Z.log2 n))) n [].
Definition dec (z : Z) : list byte := if z <? 0 then minus :: dec_nat (- z) else dec_nat z.

Definition parse_digits (acc : Z) (l : list byte) : Z := fold_left (fun a b => 10 * a + (bZ b - 48)) l acc.
Definition parse_dec (l : list byte) : Z :=
  match l with
  | b :: r => if byte_eqb b minus then - parse_digits 0 r
              else if byte_eqb b plus then parse_digits 0 r else parse_digits 0 l
  | [] => 0
  end.

(* little-endian two's complement memory image of an integer element *)
Fixpoint encode_le (n : nat) (z : Z) : list byte :=
  match n with O => [] | S n' => Zb z :: encode_le n' (z / 256) end.
Definition le_unsigned (e : list byte) : Z := fold_right (fun b acc => bZ b + 256 * acc) 0 e.
Definition decode_le (signed : bool) (e : list byte) : Z :=
  let u := le_unsigned e in
  let m := 256 ^ Z.of_nat (length e) in
  if signed && (m <=? 2 * u) then u - m else u.

(* ------------------------------------------------------------------ numeric tokens of glibc's vfscanf
   One automaton for both conversions; [TInt] (%hhd %hhu %hd %hu %d %u %ld %lu) uses Q0,QSign,QInt.
   The scanner reads greedily while a transition exists; the byte that ends the token is pushed
   back.  It then succeeds iff the state is accepting; in the states [eats] (inside the literals
   inf/infinity/nan) the mismatching byte is lost as well.  (Measured on glibc 2.x through the real
   reader: "1e" "1e+" "0x." "5." ".5" "0x1p" succeed, "." "-" "0x" "infi" "na" fail, "nan(" stops
   after nan.) *)
Inductive tk := TInt | TFloat.
Inductive st := Q0 | QSign | QInt | QZero | QIntDot | QDot0 | QFrac | QE | QESign | QExp
  | QI1 | QI2 | QI3 | QI4 | QI5 | QI6 | QI7 | QI8 | QN1 | QN2 | QN3
  | QHX | QHInt | QHDot0 | QHFrac | QP | QPSign | QPExp.

Definition is_sign (b : byte) : bool := let n := bZ b in (n =? 43) || (n =? 45).
Definition is_xdigit (b : byte) : bool := is_digit b || ((97 <=? lc b) && (lc b <=? 102)).

Definition fstart (b : byte) : option st :=
  if is_digit b then (if bZ b =? 48 then Some QZero else Some QInt)
  else if bZ b =? 46 then Some QDot0
  else if lc b =? 105 then Some QI1
  else if lc b =? 110 then Some QN1
  else None.

Definition step_raw (k : tk) (s : st) (b : byte) : option st :=
  match k with
  | TInt =>
    match s with
    | Q0 => if is_sign b then Some QSign else if is_digit b then Some QInt else None
    | QSign | QInt => if is_digit b then Some QInt else None
    | _ => None
    end
  | TFloat =>
    match s with
    | Q0 => if is_sign b then Some QSign else fstart b
    | QSign => fstart b
    | QZero => if lc b =? 120 then Some QHX
               else if is_digit b then Some QInt
               else if bZ b =? 46 then Some QIntDot
               else if lc b =? 101 then Some QE else None
    | QInt => if is_digit b then Some QInt
              else if bZ b =? 46 then Some QIntDot
              else if lc b =? 101 then Some QE else None
    | QIntDot => if is_digit b then Some QFrac else if lc b =? 101 then Some QE else None
    | QDot0 => if is_digit b then Some QFrac else None
    | QFrac => if is_digit b then Some QFrac else if lc b =? 101 then Some QE else None
    | QE => if is_sign b then Some QESign else if is_digit b then Some QExp else None
    | QESign | QExp => if is_digit b then Some QExp else None
    | QI1 => if lc b =? 110 then Some QI2 else None
    | QI2 => if lc b =? 102 then Some QI3 else None
    | QI3 => if lc b =? 105 then Some QI4 else None
    | QI4 => if lc b =? 110 then Some QI5 else None
    | QI5 => if lc b =? 105 then Some QI6 else None
    | QI6 => if lc b =? 116 then Some QI7 else None
    | QI7 => if lc b =? 121 then Some QI8 else None
    | QI8 => None
    | QN1 => if lc b =? 97 then Some QN2 else None
    | QN2 => if lc b =? 110 then Some QN3 else None
    | QN3 => None
    | QHX => if is_xdigit b then Some QHInt else if bZ b =? 46 then Some QHDot0 else None
    | QHInt => if is_xdigit b then Some QHInt
               else if bZ b =? 46 then Some QHFrac
               else if lc b =? 112 then Some QP else None
    | QHDot0 => if is_xdigit b then Some QHFrac else None
    | QHFrac => if is_xdigit b then Some QHFrac else if lc b =? 112 then Some QP else None
    | QP => if is_sign b then Some QPSign else if is_digit b then Some QPExp else None
    | QPSign | QPExp => if is_digit b then Some QPExp else None
    end
  end.
(* every transition is on a [numchar]; the guard makes that evident *)
Definition step (k : tk) (s : st) (b : byte) : option st := if numchar b then step_raw k s b else None.

Definition accepting (s : st) : bool :=
  match s with
  | QInt | QZero | QIntDot | QFrac | QE | QESign | QExp | QI3 | QI8 | QN3
  | QHInt | QHDot0 | QHFrac | QP | QPSign | QPExp => true
  | _ => false
  end.
Definition eats (s : st) : bool :=
  match s with QI1 | QI2 | QI4 | QI5 | QI6 | QI7 | QN1 | QN2 => true | _ => false end.

Fixpoint run (k : tk) (s : st) (l : list byte) : st * list byte * list byte :=
  match l with
  | [] => (s, [], [])
  | b :: r => match step k s b with
              | Some s' => let '(s2, t, r2) := run k s' r in (s2, b :: t, r2)
              | None => (s, [], l)
              end
  end.

Inductive tokres := TOk (tok rest : list byte) | TFail (rest : list byte).
Definition scan_tok (k : tk) (l : list byte) : tokres :=
  let '(s, t, r) := run k Q0 l in
  if accepting s then TOk t r else TFail (if eats s then tl r else r).

(* the whole of [tok] is one well-formed token *)
Definition tok_ok (k : tk) (tok : list byte) : bool :=
  let '(s, _, r) := run k Q0 tok in accepting s && match r with [] => true | _ => false end.

(* ------------------------------------------------------------------ one fscanf call
   format = conversion ++ " " ++ delim   (delim <> ' ';  [Some d])
   format = conversion                   (delim = ' ', mReadAsWhitespace; [None]) *)
Inductive scanres := SOk (tok rest : list byte) | SFail (rest : list byte) | SEof.
Definition fscanf_num (k : tk) (lit : option byte) (l : list byte) : scanres :=
  match skip_ws l with                               (* the conversion skips leading white space *)
  | [] => SEof                                       (* input failure before any conversion *)
  | l1 =>
    match scan_tok k l1 with
    | TFail [] => SEof                               (* matching failure at end of file: feof is set *)
    | TFail r => SFail r
    | TOk t r =>
      match lit with
      | None => SOk t r
      | Some d =>
        let r1 := skip_ws r in                       (* the blank directive: ALL white space, newlines included *)
        SOk t (match r1 with                         (* the literal delimiter: only if it is the next byte *)
               | c :: r2 => if byte_eqb c d then r2 else r1
               | [] => []
               end)
      end
    end
  end.

Definition nan_tok : list byte := [x6e; x61; x6e].   (* "nan" *)

(* body of the element loop of scan_column_values: returns the token whose value is stored *)
Definition read_num (k : tk) (delim : byte) (l : list byte) : result (list byte * list byte) :=
  let wsmode := byte_eqb delim space in
  match fscanf_num k (if wsmode then None else Some delim) l with
  | SOk t r => Ok (t, r)
  | SEof => Err ERuntime
  | SFail r =>
    if wsmode then Err ERuntime
    else match r with                                (* c = fgetc: an empty field? *)
         | c :: r' => if byte_eqb c delim
                      then match k with TFloat => Ok (nan_tok, r') | TInt => Err ERuntime end
                      else Err ERuntime
         | [] => Err ERuntime
         end
  end.

(* ------------------------------------------------------------------ dtype *)
Inductive kind := KInt (signed : bool) (size : nat) | KFlt (size : nat) | KStr (width : nat).
Inductive order := LE | BE | NA.
Record fld := { fname : list byte; fkind : kind; forder : order; fshape : list Z }.

Definition elsize (k : kind) : nat := match k with KInt _ s => s | KFlt s => s | KStr w => w end.
Definition fnel (f : fld) : nat := Z.to_nat (fold_right Z.mul 1 (fshape f)).
Definition is_str (k : kind) : bool := match k with KStr _ => true | _ => false end.
Definition native_order (k : kind) : order :=
  match k with KStr _ => NA | _ => if (elsize k <=? 1)%nat then NA else LE end.
Definition native_fld (f : fld) : fld :=
  {| fname := fname f; fkind := fkind f; forder := native_order (fkind f); fshape := fshape f |}.

Definition row := list (list (list byte)).         (* field -> element -> memory bytes *)
Record table := { tdt : list fld; trows : list row }.

(* Recfile.write: to_native_inplace (each field that is not native is byte-swapped) *)
Definition to_native_el (f : fld) (e : list byte) : list byte :=
  match forder f with BE => if is_str (fkind f) then e else rev e | _ => e end.
Fixpoint to_native_row (fs : list fld) (r : row) : row :=
  match fs, r with
  | f :: fs', els :: r' => map (to_native_el f) els :: to_native_row fs' r'
  | _, _ => []
  end.

(* ------------------------------------------------------------------ writer (native data) *)
Section Writer.
  Variable F : nat -> list byte -> list byte.

  Definition cell_text (k : kind) (e : list byte) : list byte :=
    match k with
    | KInt sg _ => dec (decode_le sg e)
    | KFlt sz => F sz e
    | KStr _ => e                                   (* WriteStringAsAscii: every byte, NULs included *)
    end.

  Fixpoint join_els (delim : byte) (ts : list (list byte)) : list byte :=
    match ts with
    | [] => []
    | [t] => t
    | t :: r => t ++ delim :: join_els delim r
    end.

  Fixpoint write_fields (delim : byte) (fs : list fld) (r : row) : list byte :=
    match fs, r with
    | f :: fs', els :: r' =>
        join_els delim (map (cell_text (fkind f)) els)
        ++ (match fs' with [] => [] | _ => [delim] end)
        ++ write_fields delim fs' r'
    | _, _ => []
    end.
  Definition write_row (delim : byte) (fs : list fld) (r : row) : list byte := write_fields delim fs r ++ [nl].
  Definition write_rows (delim : byte) (fs : list fld) (rows : list row) : list byte :=
    concat (map (write_row delim fs) rows).

  (* the data section written by Recfile(mode='w', delim=).write(table) *)
  Definition write_text (delim : byte) (t : table) : list byte :=
    write_rows delim (tdt t) (map (to_native_row (tdt t)) (trows t)).
End Writer.

(* ------------------------------------------------------------------ reader *)
(* fgetc into a (signed) char compared with EOF: end of file and the byte 0xff both stop *)
Fixpoint take_bytes (w : nat) (l : list byte) : result (list byte * list byte) :=
  match w with
  | O => Ok ([], l)
  | S w' => match l with
            | [] => Err ERuntime
            | b :: r => if byte_eqb b xff then Err ERuntime
                        else do (e, r2) <- take_bytes w' r; Ok (b :: e, r2)
            end
  end.

Section Reader.
  Variable P : nat -> list byte -> list byte.

  (* read_ascii_bytes: per element [width] bytes, then one fgetc (delimiter or end of line) *)
  Fixpoint read_str_els (w n : nat) (l : list byte) : result (list (list byte) * list byte) :=
    match n with
    | O => Ok ([], l)
    | S n' => do (e, r) <- take_bytes w l;
              do (es, r2) <- read_str_els w n' (tl r);
              Ok (e :: es, r2)
    end.

  Definition store (k : kind) (tok : list byte) : list byte :=
    match k with
    | KInt _ sz => encode_le sz (parse_dec tok)
    | KFlt sz => P sz tok
    | KStr _ => tok
    end.
  Definition tk_of (k : kind) : tk := match k with KFlt _ => TFloat | _ => TInt end.

  (* scan_column_values *)
  Fixpoint read_num_els (k : kind) (delim : byte) (n : nat) (l : list byte) : result (list (list byte) * list byte) :=
    match n with
    | O => Ok ([], l)
    | S n' => do (t, r) <- read_num (tk_of k) delim l;
              do (es, r2) <- read_num_els k delim n' r;
              Ok (store k t :: es, r2)
    end.

  (* read_from_text_column (a NULL buffer -- skipping a column -- moves the stream identically) *)
  Definition read_field (delim : byte) (f : fld) (l : list byte) : result (list (list byte) * list byte) :=
    match fkind f with
    | KStr w => read_str_els w (fnel f) l
    | k => do (es, r) <- read_num_els k delim (fnel f) l;
           Ok (es, if byte_eqb delim space then tl r else r)    (* whitespace mode: one fgetc after the field *)
    end.

  (* one row of read_text_columns; [keep] marks the requested columns *)
  Fixpoint read_row (delim : byte) (fs : list fld) (keep : list bool) (l : list byte) : result (row * list byte) :=
    match fs with
    | [] => Ok ([], l)
    | f :: fs' => do (els, r) <- read_field delim f l;
                  do (rest, r2) <- read_row delim fs' (tl keep) r;
                  Ok (if hd true keep then els :: rest else rest, r2)
    end.

  Fixpoint read_rows_all (delim : byte) (fs : list fld) (keep : list bool) (n : nat) (l : list byte) : result (list row) :=
    match n with
    | O => Ok []
    | S n' => do (r, l2) <- read_row delim fs keep l;
              do rs <- read_rows_all delim fs keep n' l2;
              Ok (r :: rs)
    end.

  (* skip_text_rows *)
  Fixpoint skip_lines (n : nat) (l : list byte) : result (list byte) :=
    match n with
    | O => Ok l
    | S n' => (fix go (l : list byte) : result (list byte) :=
                 match l with
                 | [] => Err ERuntime
                 | b :: r => if byte_eqb b xff then Err ERuntime
                             else if byte_eqb b nl then skip_lines n' r else go r
                 end) l
    end.

  (* explicit sorted row numbers: skip forward to each requested row *)
  Fixpoint read_rows_sel (delim : byte) (fs : list fld) (keep : list bool) (rows : list Z) (cur : Z) (l : list byte)
    : result (list row) :=
    match rows with
    | [] => Ok []
    | r :: rows' =>
        do l1 <- (if cur <? r then skip_lines (Z.to_nat (r - cur)) l else Ok l);
        let cur1 := if cur <? r then r else cur in
        do (x, l2) <- read_row delim fs keep l1;
        do xs <- read_rows_sel delim fs keep rows' (cur1 + 1) l2;
        Ok (x :: xs)
    end.

  Definition keep_flags (nf : nat) (cols : option (list Z)) : list bool :=
    match cols with
    | None => repeat true nf
    | Some cs => if (length cs =? nf)%nat then repeat true nf
                 else map (fun i => existsb (Z.eqb i) cs) (zseq 0 nf)
    end.

  (* Records::read_text_columns(array, colnums, rows); the stream starts at the file offset *)
  Definition read_text_columns (delim : byte) (fs : list fld) (nrows : Z)
             (rows cols : option (list Z)) (l : list byte) : result (list row) :=
    let keep := keep_flags (length fs) cols in
    match rows with
    | None => read_rows_all delim fs keep (Z.to_nat nrows) l
    | Some rs => if Z.of_nat (length rs) =? nrows then read_rows_all delim fs keep (Z.to_nat nrows) l
                 else read_rows_sel delim fs keep rs 0 l
    end.

  (* Recfile(mode='r', dtype=, delim=, nrows=).read(): every row, every column, native dtype *)
  Definition read_text (delim : byte) (fs : list fld) (nrows : Z) (l : list byte) : result table :=
    if nrows <? 1 then Err ERuntime                 (* Records::process_nrows *)
    else do rows <- read_text_columns delim (map native_fld fs) nrows None None l;
         Ok {| tdt := map native_fld fs; trows := rows |}.
End Reader.

(* Recfile._count_nrows for text: python iterates over the lines of the file opened in text mode
   (universal newlines: \n, \r and \r\n end a line; a last unterminated line counts) *)
Fixpoint count_lines_aux (prev_cr pending : bool) (l : list byte) : Z :=
  match l with
  | [] => if pending then 1 else 0
  | b :: r =>
      if byte_eqb b nl then (if prev_cr then 0 else 1) + count_lines_aux false false r
      else if byte_eqb b x0d then 1 + count_lines_aux true false r
      else count_lines_aux false true r
  end.
Definition count_lines (l : list byte) : Z := count_lines_aux false false l.

(* ------------------------------------------------------------------ header (sfile.py) *)
Definition order_char (o : order) : byte := match o with LE => x3c | BE => x3e | NA => x7c end.   (* < > | *)
Definition kind_char (k : kind) : byte :=
  match k with KInt true _ => x69 | KInt false _ => x75 | KFlt _ => x66 | KStr _ => x53 end.        (* i u f S *)
(* numpy's dtype.descr type string, e.g. "<i4", "|S3" *)
Definition typestr (f : fld) : list byte :=
  order_char (forder f) :: kind_char (fkind f) :: dec (Z.of_nat (elsize (fkind f))).
(* SFile._make_header with a delimiter: '_DELIM' and '_DTYPE' = _remove_byteorder(descr) *)
Definition header_dtype (fs : list fld) : list (list byte * list byte * list Z) :=
  map (fun f => (fname f, tl (typestr f), fshape f)) fs.
Definition header_delim (delim : byte) : list byte := [delim].

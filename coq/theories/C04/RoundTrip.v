(* C04 -- the reader applied to the writer's text returns the table (floats through P o F),
   outside the class kf_leading_ws_after_numeric. *)
From Coq Require Import ZifyBool ZifyNat.
From Coq.Strings Require Import Byte.
From EsVerif.Common Require Import Base Bytes.
From EsVerif.C04 Require Import TextModel Spec DecProofs ScanProofs.
Ltac Zify.zify_post_hook ::= Z.to_euclidean_division_equations.

(* ---------------------------------------------------------------- small list facts *)
Lemma forallb_Forall {A} (p : A -> bool) l : forallb p l = true <-> Forall (fun x => p x = true) l.
Proof.
  induction l as [|a l IH]; simpl; split; intro H; auto.
  - apply andb_true_iff in H. destruct H as [Ha Hl]. constructor; [exact Ha|apply IH; exact Hl].
  - inversion H as [|? ? Ha Hl]; subst. apply andb_true_iff. split; [exact Ha|apply IH; exact Hl].
Qed.

Lemma forallb_map' {A B} (p : B -> bool) (f : A -> B) l : forallb p (map f l) = forallb (fun x => p (f x)) l.
Proof. induction l as [|a l IH]; simpl; [reflexivity|]. rewrite IH. reflexivity. Qed.

Lemma map_id_ext {A} (f : A -> A) l : (forall x, f x = x) -> map f l = l.
Proof. intro H. induction l as [|a l IH]; simpl; [reflexivity|]. rewrite H, IH. reflexivity. Qed.

Lemma starts_safe_safe_next d sep rest : starts_safe d rest -> safe_next d sep rest.
Proof. intro H. right. exact H. Qed.

(* ---------------------------------------------------------------- the delimiter *)
Lemma delim_ok_facts d : delim_ok d -> numchar d = false /\ d <> nl /\ d <> x0d.
Proof.
  unfold delim_ok, delim_ok_b. intro H.
  apply andb_true_iff in H. destruct H as [H H3]. apply andb_true_iff in H. destruct H as [H1 H2].
  apply negb_true_iff in H1, H2, H3. apply byte_eqb_false in H2, H3. auto.
Qed.

Lemma nl_facts : numchar nl = false /\ is_ws nl = true.
Proof. split; reflexivity. Qed.

Section RT.
  Variable F P : nat -> list byte -> list byte.
  Variable d : byte.
  Hypothesis Hd : delim_ok d.

  Let Hdn : numchar d = false. Proof. exact (proj1 (delim_ok_facts d Hd)). Qed.

  (* what table_ok and the contract say about one element *)
  Definition cell_good (k : kind) (e : list byte) : Prop :=
    length e = elsize k /\
    match k with
    | KStr _ => Forall (fun b => byte_eqb b xff = false) e
    | KFlt sz => fcell_ok_b F P sz e = true
    | KInt _ _ => True
    end.

  Lemma cell_good_of f e : el_ok_b f e = true -> el_contract_b F P f e = true -> cell_good (fkind f) e.
  Proof.
    unfold el_ok_b, el_contract_b, cell_good. intros H1 H2.
    apply andb_true_iff in H1. destruct H1 as [Hl Hs]. split; [lia|].
    destruct (fkind f) as [sg sz|sz|w]; simpl in *; [exact I|exact H2|].
    apply forallb_Forall in Hs. eapply Forall_impl; [|exact Hs].
    intros b Hb. simpl in Hb. apply negb_true_iff in Hb. exact Hb.
  Qed.

  (* a numeric element: its text is one token and the stored value is the expected element *)
  Lemma num_cell k e : is_str k = false -> cell_good k e ->
    tok_ok (tk_of k) (cell_text F k e) = true /\ store P k (cell_text F k e) = rt_el F P k e.
  Proof.
    intros Hk [Hl Hc]. destruct k as [sg sz|sz|w]; simpl in *; [| |discriminate].
    - split; [apply tok_ok_dec|]. rewrite dec_parse_roundtrip. rewrite <- Hl. apply encode_decode_le.
    - unfold fcell_ok_b in Hc. apply andb_true_iff in Hc. destruct Hc as [Hc _].
      apply andb_true_iff in Hc. destruct Hc as [Hc _]. split; [exact Hc|reflexivity].
  Qed.

  Lemma tok_head_safe k tok x : tok_ok k tok = true -> starts_safe d (tok ++ x).
  Proof.
    intro H. destruct (tok_ok_head k tok H) as [b [r [-> Hb]]]. simpl. split.
    - apply numchar_not_ws. exact Hb.
    - intro E. subst b. rewrite Hdn in Hb. discriminate.
  Qed.

  Lemma join_els_cons t ts : exists y, join_els d (t :: ts) = t ++ y.
  Proof.
    destruct ts as [|t2 ts]; simpl.
    - exists []. rewrite app_nil_r. reflexivity.
    - eexists. reflexivity.
  Qed.

  Lemma join_els_2 (t t2 : list byte) ts : join_els d (t :: t2 :: ts) = t ++ d :: join_els d (t2 :: ts).
  Proof. reflexivity. Qed.

  (* ---------------------------------------------------------------- numeric fields, delimiter mode *)
  Lemma read_num_els_delim k : is_str k = false -> byte_eqb d space = false ->
    forall els pre sep rest,
    els <> [] -> Forall (cell_good k) els -> all_ws pre ->
    numchar sep = false -> (is_ws sep = false -> sep = d) -> safe_next d sep rest ->
    read_num_els P k d (length els) (pre ++ join_els d (map (cell_text F k) els) ++ sep :: rest)
    = Ok (map (rt_el F P k) els, rest).
  Proof.
    intros Hk Hsp. induction els as [|e els IH]; intros pre sep rest Hne Hg Hpre Hsn Hsd Hsafe; [contradiction|].
    inversion Hg as [|? ? He Hels]; subst.
    destruct (num_cell k e Hk He) as [Htok Hst].
    destruct els as [|e2 els].
    - cbn [map join_els length read_num_els].
      rewrite (read_num_delim (tk_of k) d pre _ sep rest Hsp Hpre Htok Hsn Hsd Hsafe).
      cbn [bind]. rewrite Hst. reflexivity.
    - change (length (e :: e2 :: els)) with (S (length (e2 :: els))).
      cbn [map]. rewrite join_els_2.
      change (cell_text F k e2 :: map (cell_text F k) els) with (map (cell_text F k) (e2 :: els)).
      rewrite <- app_assoc. cbn [app].
      cbn [read_num_els].
      assert (Hsafe2 : safe_next d d (join_els d (map (cell_text F k) (e2 :: els)) ++ sep :: rest)).
      { apply starts_safe_safe_next. inversion Hels as [|? ? He2 _]; subst.
        destruct (num_cell k e2 Hk He2) as [Htok2 _].
        cbn [map]. destruct (join_els_cons (cell_text F k e2) (map (cell_text F k) els)) as [y ->].
        rewrite <- app_assoc. eapply tok_head_safe. exact Htok2. }
      rewrite (read_num_delim (tk_of k) d pre _ d _ Hsp Hpre Htok Hdn (fun _ => eq_refl) Hsafe2).
      cbn [bind].
      specialize (IH [] sep rest ltac:(discriminate) Hels ltac:(constructor) Hsn Hsd Hsafe).
      cbn [app] in IH. rewrite IH. cbn [bind]. rewrite Hst. reflexivity.
  Qed.

  (* ---------------------------------------------------------------- numeric fields, white-space mode *)
  Lemma read_num_els_space k : is_str k = false -> d = space ->
    forall els pre sep rest,
    els <> [] -> Forall (cell_good k) els -> all_ws pre -> numchar sep = false ->
    read_num_els P k d (length els) (pre ++ join_els d (map (cell_text F k) els) ++ sep :: rest)
    = Ok (map (rt_el F P k) els, sep :: rest).
  Proof.
    intros Hk Hsp. induction els as [|e els IH]; intros pre sep rest Hne Hg Hpre Hsn; [contradiction|].
    pose proof (Forall_inv Hg) as He. pose proof (Forall_inv_tail Hg) as Hels.
    destruct (num_cell k e Hk He) as [Htok Hst].
    destruct els as [|e2 els].
    - cbn [map join_els length read_num_els]. rewrite Hsp in *.
      rewrite (read_num_space (tk_of k) pre _ (sep :: rest) Hpre Htok Hsn).
      cbn [bind]. rewrite Hst. reflexivity.
    - change (length (e :: e2 :: els)) with (S (length (e2 :: els))).
      cbn [map]. rewrite join_els_2.
      change (cell_text F k e2 :: map (cell_text F k) els) with (map (cell_text F k) (e2 :: els)).
      rewrite <- app_assoc. cbn [app].
      cbn [read_num_els]. rewrite Hsp in *.
      rewrite (read_num_space (tk_of k) pre _ _ Hpre Htok (eq_refl : ends_tok (space :: _))).
      cbn [bind].
      specialize (IH [space] sep rest ltac:(discriminate) Hels ltac:(repeat constructor) Hsn).
      cbn [app] in IH. rewrite IH. cbn [bind]. rewrite Hst. reflexivity.
  Qed.

  (* ---------------------------------------------------------------- string fields *)
  Lemma take_bytes_app : forall e x, Forall (fun b => byte_eqb b xff = false) e ->
    take_bytes (length e) (e ++ x) = Ok (e, x).
  Proof.
    induction e as [|b e IH]; intros x H; [reflexivity|].
    inversion H as [|? ? Hb He]; subst. cbn [length take_bytes app]. rewrite Hb, (IH x He). reflexivity.
  Qed.

  Lemma read_str_els_ok w : forall els sep rest,
    els <> [] -> Forall (cell_good (KStr w)) els ->
    read_str_els w (length els) (join_els d els ++ sep :: rest) = Ok (els, rest).
  Proof.
    induction els as [|e els IH]; intros sep rest Hne Hg; [contradiction|].
    inversion Hg as [|? ? [Hl He] Hels]; subst. simpl in Hl.
    destruct els as [|e2 els].
    - cbn [join_els length read_str_els]. rewrite <- Hl, (take_bytes_app e _ He). cbn [bind tl].
      reflexivity.
    - change (length (e :: e2 :: els)) with (S (length (e2 :: els))).
      rewrite join_els_2. rewrite <- app_assoc. cbn [app read_str_els].
      rewrite <- Hl at 1. rewrite (take_bytes_app e _ He). cbn [bind tl].
      rewrite (IH sep rest ltac:(discriminate) Hels). reflexivity.
  Qed.

  (* ---------------------------------------------------------------- one field *)
  Lemma read_field_ok f els sep rest :
    fld_ok_b f = true -> length els = fnel f -> Forall (cell_good (fkind f)) els ->
    sep = d \/ sep = nl ->
    (is_str (fkind f) = false -> byte_eqb d space = false -> safe_next d sep rest) ->
    read_field P d f (join_els d (map (cell_text F (fkind f)) els) ++ sep :: rest)
    = Ok (map (rt_el F P (fkind f)) els, rest).
  Proof.
    intros Hf Hl Hg Hsep Hsafe.
    assert (Hne : els <> []).
    { unfold fld_ok_b in Hf. apply andb_true_iff in Hf. destruct Hf as [_ Hn].
      destruct els; [simpl in Hl; lia|discriminate]. }
    assert (Hsn : numchar sep = false) by (destruct Hsep as [->| ->]; [exact Hdn|reflexivity]).
    assert (Hsd : is_ws sep = false -> sep = d) by (destruct Hsep as [->| ->]; [reflexivity|discriminate]).
    unfold read_field. rewrite <- Hl.
    destruct (fkind f) as [sg sz|sz|w] eqn:Ek.
    - destruct (byte_eqb d space) eqn:Esp.
      + apply byte_eqb_eq in Esp.
        pose proof (read_num_els_space (KInt sg sz) eq_refl Esp els [] sep rest Hne Hg ltac:(constructor) Hsn) as R.
        cbn [app] in R. rewrite R. reflexivity.
      + pose proof (read_num_els_delim (KInt sg sz) eq_refl Esp els [] sep rest Hne Hg ltac:(constructor) Hsn Hsd
                      (Hsafe eq_refl eq_refl)) as R.
        cbn [app] in R. rewrite R. reflexivity.
    - destruct (byte_eqb d space) eqn:Esp.
      + apply byte_eqb_eq in Esp.
        pose proof (read_num_els_space (KFlt sz) eq_refl Esp els [] sep rest Hne Hg ltac:(constructor) Hsn) as R.
        cbn [app] in R. rewrite R. reflexivity.
      + pose proof (read_num_els_delim (KFlt sz) eq_refl Esp els [] sep rest Hne Hg ltac:(constructor) Hsn Hsd
                      (Hsafe eq_refl eq_refl)) as R.
        cbn [app] in R. rewrite R. reflexivity.
    - rewrite (map_id_ext (cell_text F (KStr w))) by reflexivity.
      rewrite (map_id_ext (rt_el F P (KStr w))) by reflexivity.
      apply read_str_els_ok; assumption.
  Qed.
End RT.

(* ---------------------------------------------------------------- native image *)
Lemma to_native_el_str f e : is_str (fkind f) = true -> to_native_el f e = e.
Proof. intro H. unfold to_native_el. rewrite H. destruct (forder f); reflexivity. Qed.

Lemma to_native_el_length f e : length (to_native_el f e) = length e.
Proof. unfold to_native_el. destruct (forder f); try reflexivity. destruct (is_str (fkind f)); [reflexivity|apply rev_length]. Qed.

Lemma head_unsafe_native d f els : head_unsafe d f (map (to_native_el f) els) = head_unsafe d f els.
Proof.
  unfold head_unsafe. destruct (fkind f) eqn:Ek; try reflexivity.
  rewrite (map_id_ext (to_native_el f)); [reflexivity|].
  intro e. apply to_native_el_str. rewrite Ek. reflexivity.
Qed.

Lemma row_head_unsafe_native d fs r : row_head_unsafe d fs (to_native_row fs r) = row_head_unsafe d fs r.
Proof. destruct fs as [|f fs]; destruct r as [|els r]; simpl; try reflexivity. apply head_unsafe_native. Qed.

Lemma kf_fields_native d : forall fs r nru, kf_fields d fs (to_native_row fs r) nru = kf_fields d fs r nru.
Proof.
  induction fs as [|f fs IH]; intros r nru; destruct r as [|els r]; simpl; try reflexivity.
  rewrite IH. destruct fs as [|f2 fs]; [reflexivity|]. rewrite row_head_unsafe_native. reflexivity.
Qed.

Lemma kf_rows_native d fs : forall rows, kf_rows d fs (map (to_native_row fs) rows) = kf_rows d fs rows.
Proof.
  induction rows as [|r rows IH]; simpl; [reflexivity|]. rewrite kf_fields_native, IH.
  destruct rows as [|r2 rows]; simpl; [reflexivity|]. rewrite row_head_unsafe_native. reflexivity.
Qed.

Lemma el_ok_native f e : el_ok_b f e = true -> el_ok_b f (to_native_el f e) = true.
Proof.
  unfold el_ok_b. rewrite to_native_el_length. destruct (is_str (fkind f)) eqn:E; [|auto].
  rewrite to_native_el_str by exact E. auto.
Qed.

Lemma row_ok_native : forall fs r, row_ok_b fs r = true -> row_ok_b fs (to_native_row fs r) = true.
Proof.
  induction fs as [|f fs IH]; intros r H; destruct r as [|els r]; simpl in *; try discriminate; [reflexivity|].
  apply andb_true_iff in H. destruct H as [H Hr]. apply andb_true_iff in H. destruct H as [Hl He].
  rewrite map_length, Hl, (IH r Hr). simpl. rewrite andb_true_r.
  apply forallb_Forall. apply forallb_Forall in He. apply Forall_forall. intros x Hx.
  apply in_map_iff in Hx. destruct Hx as [e [<- Hin]]. apply el_ok_native.
  rewrite Forall_forall in He. apply He. exact Hin.
Qed.

(* the reader looks at kinds and shapes only *)
Section Native.
  Variable P : nat -> list byte -> list byte.
  Lemma read_field_native d f l : read_field P d (native_fld f) l = read_field P d f l.
  Proof. reflexivity. Qed.
  Lemma read_row_native d : forall fs keep l, read_row P d (map native_fld fs) keep l = read_row P d fs keep l.
  Proof.
    induction fs as [|f fs IH]; intros keep l; [reflexivity|].
    cbn [map read_row]. rewrite read_field_native. destruct (read_field P d f l) as [[els r]|e]; [|reflexivity].
    cbn [bind]. rewrite IH. reflexivity.
  Qed.
  Lemma read_rows_all_native d fs keep : forall n l,
    read_rows_all P d (map native_fld fs) keep n l = read_rows_all P d fs keep n l.
  Proof.
    induction n as [|n IH]; intro l; [reflexivity|]. cbn [read_rows_all]. rewrite read_row_native.
    destruct (read_row P d fs keep l) as [[r l2]|e]; [|reflexivity]. cbn [bind]. rewrite IH. reflexivity.
  Qed.
End Native.

(* ---------------------------------------------------------------- rows and tables *)
Section RT2.
  Variable F P : nat -> list byte -> list byte.
  Variable d : byte.
  Hypothesis Hd : delim_ok d.

  Let Hdn : numchar d = false. Proof. exact (proj1 (delim_ok_facts d Hd)). Qed.

  (* first field of a row: element list, its facts *)
  Lemma row_facts f fs els r :
    row_ok_b (f :: fs) (els :: r) = true -> row_contract_b F P (f :: fs) (els :: r) = true ->
    length els = fnel f /\ Forall (cell_good F P (fkind f)) els
    /\ row_ok_b fs r = true /\ row_contract_b F P fs r = true.
  Proof.
    cbn [row_ok_b row_contract_b]. intros H1 H2.
    apply andb_true_iff in H1. destruct H1 as [H1 Hr]. apply andb_true_iff in H1. destruct H1 as [Hl He].
    apply andb_true_iff in H2. destruct H2 as [Hc Hcr].
    split; [lia|]. split; [|split; assumption].
    apply forallb_Forall in He. apply forallb_Forall in Hc.
    rewrite Forall_forall in *. intros e Hin. apply (cell_good_of F P d); [apply He|apply Hc]; exact Hin.
  Qed.

  (* the text of a row starts with a byte the directive " <delim>" leaves alone, unless its first
     cell is an unsafe string *)
  Lemma write_fields_head fs r x :
    fs <> [] -> forallb fld_ok_b fs = true -> row_ok_b fs r = true -> row_contract_b F P fs r = true ->
    row_head_unsafe d fs r = false -> starts_safe d (write_fields F d fs r ++ x).
  Proof.
    intros Hne Hf Hr Hc Hu. destruct fs as [|f fs]; [contradiction|]. destruct r as [|els r]; [discriminate|].
    destruct (row_facts f fs els r Hr Hc) as [Hl [Hg _]].
    cbn [forallb] in Hf. apply andb_true_iff in Hf. destruct Hf as [Hf _].
    unfold fld_ok_b in Hf. apply andb_true_iff in Hf. destruct Hf as [Hk Hn].
    destruct els as [|e els]; [simpl in Hl; lia|].
    cbn [write_fields map]. destruct (join_els_cons d (cell_text F (fkind f) e) (map (cell_text F (fkind f)) els)) as [y ->].
    rewrite <- !app_assoc. pose proof (Forall_inv Hg) as He.
    destruct (is_str (fkind f)) eqn:Es.
    - destruct (fkind f) as [| |w] eqn:Ek; try discriminate. destruct He as [Hle _]. simpl in Hle, Hk.
      unfold row_head_unsafe, head_unsafe in Hu. rewrite Ek in Hu.
      destruct e as [|b e]; [simpl in Hle; rewrite <- Hle in Hk; discriminate Hk|]. simpl. apply orb_false_iff in Hu. destruct Hu as [Hw Hb].
      split; [exact Hw|]. apply byte_eqb_false. exact Hb.
    - destruct (num_cell F P (fkind f) e Es He) as [Htok _]. eapply (tok_head_safe d Hd); exact Htok.
  Qed.

  (* one row; [nru] says whether the text behind the newline starts unsafely *)
  Lemma read_row_ok : forall fs r rest nru,
    fs <> [] -> forallb fld_ok_b fs = true -> row_ok_b fs r = true -> row_contract_b F P fs r = true ->
    (nru = false -> starts_safe d rest) ->
    (byte_eqb d space = false -> kf_fields d fs r nru = false) ->
    read_row P d fs (repeat true (length fs)) (write_fields F d fs r ++ nl :: rest) = Ok (rt_row F P fs r, rest).
  Proof.
    induction fs as [|f fs IH]; intros r rest nru Hne Hf Hr Hc Hrest Hkf; [contradiction|].
    destruct r as [|els r]; [discriminate|].
    destruct (row_facts f fs els r Hr Hc) as [Hl [Hg [Hr' Hc']]].
    pose proof Hf as Hf0. cbn [forallb] in Hf. apply andb_true_iff in Hf. destruct Hf as [Hf Hfs].
    cbn [write_fields length repeat read_row rt_row hd tl].
    destruct fs as [|f2 fs].
    - destruct r as [|? ?]; [|discriminate]. cbn [write_fields app]. rewrite app_nil_r.
      rewrite (read_field_ok F P d Hd f els nl rest Hf Hl Hg (or_intror eq_refl)).
      + cbn [bind read_row]. reflexivity.
      + intros Es Esp. apply starts_safe_safe_next. apply Hrest.
        specialize (Hkf Esp). cbn [kf_fields] in Hkf. rewrite Es in Hkf. simpl in Hkf.
        rewrite orb_false_r in Hkf. exact Hkf.
    - rewrite <- !app_assoc. cbn [app].
      rewrite (read_field_ok F P d Hd f els d _ Hf Hl Hg (or_introl eq_refl)).
      + cbn [bind]. rewrite (IH r rest nru ltac:(discriminate) Hfs Hr' Hc' Hrest).
        * reflexivity.
        * intro Esp. specialize (Hkf Esp). cbn [kf_fields] in Hkf. apply orb_false_iff in Hkf. apply Hkf.
      + intros Es Esp. destruct (is_ws d) eqn:Ew; [|left; exact Ew].
        apply starts_safe_safe_next. apply write_fields_head; try assumption; [discriminate|].
        specialize (Hkf Esp). cbn [kf_fields] in Hkf. apply orb_false_iff in Hkf. destruct Hkf as [Hkf _].
        rewrite Es, Ew in Hkf. simpl in Hkf. exact Hkf.
  Qed.

  Lemma read_rows_ok fs : fs <> [] -> forallb fld_ok_b fs = true ->
    forall rows,
    forallb (row_ok_b fs) rows = true -> forallb (row_contract_b F P fs) rows = true ->
    (byte_eqb d space = false -> kf_rows d fs rows = false) ->
    read_rows_all P d fs (repeat true (length fs)) (length rows) (write_rows F d fs rows)
    = Ok (map (rt_row F P fs) rows).
  Proof.
    intros Hne Hf. induction rows as [|r rows IH]; intros Hr Hc Hkf; [reflexivity|].
    cbn [forallb] in Hr, Hc. apply andb_true_iff in Hr. destruct Hr as [Hr Hrs].
    apply andb_true_iff in Hc. destruct Hc as [Hc Hcs].
    unfold write_rows. cbn [map concat length read_rows_all]. unfold write_row at 1. rewrite <- app_assoc. cbn [app].
    fold (write_rows F d fs rows).
    rewrite (read_row_ok fs r (write_rows F d fs rows)
               (match rows with r2 :: _ => row_head_unsafe d fs r2 | [] => false end) Hne Hf Hr Hc).
    - cbn [bind]. rewrite IH; [reflexivity|assumption|assumption|].
      intro Esp. specialize (Hkf Esp). cbn [kf_rows] in Hkf. apply orb_false_iff in Hkf. apply Hkf.
    - intro Hu. destruct rows as [|r2 rows]; [exact I|].
      cbn [forallb] in Hrs, Hcs. apply andb_true_iff in Hrs. apply andb_true_iff in Hcs.
      unfold write_rows. cbn [map concat]. unfold write_row at 1. rewrite <- app_assoc.
      apply write_fields_head; try assumption; [apply Hrs|apply Hcs].
    - intro Esp. specialize (Hkf Esp). cbn [kf_rows] in Hkf. apply orb_false_iff in Hkf. apply Hkf.
  Qed.

  (* ---------------------------------------------------------------- the whole table *)
  Theorem roundtrip_model t :
    table_ok t -> fcontract F P t -> kf_leading_ws_after_numeric d t = false ->
    read_text P d (tdt t) (Z.of_nat (length (trows t))) (write_text F d t) = Ok (expected F P t).
  Proof.
    unfold table_ok, table_ok_b, fcontract, fcontract_b, kf_leading_ws_after_numeric.
    destruct t as [fs rows]. cbn [tdt trows]. intros Hok Hc Hkf.
    apply andb_true_iff in Hok. destruct Hok as [Hok Hrows]. apply andb_true_iff in Hok. destruct Hok as [Hok Hr1].
    apply andb_true_iff in Hok. destruct Hok as [Hf Hf1].
    assert (Hne : fs <> []) by (destruct fs; [discriminate|discriminate]).
    assert (Hn1 : rows <> []) by (destruct rows; [discriminate|discriminate]).
    unfold read_text, write_text, expected. cbn [tdt trows].
    assert (Z.of_nat (length rows) <? 1 = false) as ->.
    { destruct rows; [contradiction|]. simpl length. lia. }
    unfold read_text_columns. rewrite Nat2Z.id. unfold keep_flags. rewrite map_length.
    rewrite read_rows_all_native.
    set (nrows := map (to_native_row fs) rows).
    assert (Hlen : length rows = length nrows) by (unfold nrows; rewrite map_length; reflexivity).
    rewrite Hlen. rewrite (read_rows_ok fs Hne Hf nrows).
    - cbn [bind]. unfold nrows. rewrite map_map. reflexivity.
    - unfold nrows. apply forallb_Forall. apply forallb_Forall in Hrows.
      rewrite Forall_forall in *. intros x Hx. apply in_map_iff in Hx. destruct Hx as [r [<- Hin]].
      apply row_ok_native. apply Hrows. exact Hin.
    - unfold nrows. rewrite forallb_map'. exact Hc.
    - intro Esp. unfold nrows. rewrite kf_rows_native. rewrite Esp in Hkf. simpl in Hkf. exact Hkf.
  Qed.
End RT2.

(* ---------------------------------------------------------------- Recfile._count_nrows on the written text *)
Definition noeol (l : list byte) : Prop := Forall (fun b => is_eol b = false) l.

Lemma count_lines_row : forall l p rest, noeol l ->
  count_lines_aux false p (l ++ nl :: rest) = 1 + count_lines rest.
Proof.
  induction l as [|b l IH]; intros p rest H.
  - reflexivity.
  - pose proof (Forall_inv H) as Hb. unfold is_eol in Hb. apply orb_false_iff in Hb. destruct Hb as [Hb1 Hb2].
    cbn [app count_lines_aux]. rewrite Hb1, Hb2. apply IH. exact (Forall_inv_tail H).
Qed.

Lemma numchar_noeol b : numchar b = true -> is_eol b = false.
Proof.
  intro H. unfold is_eol. rewrite !byte_eqb_bZ. change (bZ nl) with 10. change (bZ x0d) with 13.
  unfold numchar, is_digit, is_alpha in H. lia.
Qed.

Lemma run_numchars k : forall l s s' t r, run k s l = (s', t, r) -> Forall (fun b => numchar b = true) t.
Proof.
  induction l as [|b l IH]; intros s s' t r H; simpl in H.
  - inversion H; constructor.
  - destruct (step k s b) as [s1|] eqn:E.
    + destruct (run k s1 l) as [[s2 t2] r2] eqn:R. inversion H; subst. constructor.
      * unfold step in E. destruct (numchar b); [reflexivity|discriminate].
      * eapply IH. exact R.
    + inversion H; constructor.
Qed.

Lemma tok_ok_noeol k tok : tok_ok k tok = true -> noeol tok.
Proof.
  intro H. destruct (tok_ok_run k tok H) as [s [R _]]. apply run_numchars in R.
  unfold noeol. eapply Forall_impl; [|exact R]. intros b Hb. apply numchar_noeol. exact Hb.
Qed.

Section Lines.
  Variable F P : nat -> list byte -> list byte.
  Variable d : byte.
  Hypothesis Hd : delim_ok d.

  Lemma delim_noeol : is_eol d = false.
  Proof.
    destruct (delim_ok_facts d Hd) as [_ [H1 H2]]. unfold is_eol. apply byte_eqb_false in H1, H2. rewrite H1, H2. reflexivity.
  Qed.

  Lemma join_els_noeol : forall ts, Forall noeol ts -> noeol (join_els d ts).
  Proof.
    induction ts as [|t ts IH]; intro H; [constructor|].
    destruct ts as [|t2 ts]; [exact (Forall_inv H)|].
    rewrite (join_els_2 d). apply Forall_app. split; [exact (Forall_inv H)|].
    constructor; [exact delim_noeol|]. apply IH. exact (Forall_inv_tail H).
  Qed.

  Lemma cell_noeol f e : cell_good F P (fkind f) e -> el_noeol_b f e = true -> noeol (cell_text F (fkind f) e).
  Proof.
    intros Hg Hn. unfold el_noeol_b in Hn. destruct (is_str (fkind f)) eqn:Es.
    - destruct (fkind f); try discriminate. simpl. apply forallb_Forall in Hn.
      eapply Forall_impl; [|exact Hn]. intros b Hb. simpl in Hb. apply negb_true_iff in Hb. exact Hb.
    - destruct (num_cell F P (fkind f) e Es Hg) as [Htok _]. eapply tok_ok_noeol. exact Htok.
  Qed.

  Lemma write_fields_noeol : forall fs r,
    row_ok_b fs r = true -> row_contract_b F P fs r = true -> row_noeol_b fs r = true ->
    noeol (write_fields F d fs r).
  Proof.
    induction fs as [|f fs IH]; intros r Hr Hc Hn; [constructor|].
    destruct r as [|els r]; [constructor|].
    destruct (row_facts F P d f fs els r Hr Hc) as [_ [Hg [Hr' Hc']]].
    cbn [row_noeol_b] in Hn. apply andb_true_iff in Hn. destruct Hn as [Hn Hn'].
    cbn [write_fields]. apply Forall_app. split; [|apply Forall_app; split].
    - apply join_els_noeol. apply forallb_Forall in Hn. rewrite Forall_forall in *.
      intros x Hx. apply in_map_iff in Hx. destruct Hx as [e [<- Hin]]. apply cell_noeol; [apply Hg|apply Hn]; exact Hin.
    - destruct fs; [constructor|]. constructor; [exact delim_noeol|constructor].
    - apply IH; assumption.
  Qed.

  Lemma count_lines_rows fs : forall rows,
    forallb (row_ok_b fs) rows = true -> forallb (row_contract_b F P fs) rows = true ->
    forallb (row_noeol_b fs) rows = true ->
    count_lines (write_rows F d fs rows) = Z.of_nat (length rows).
  Proof.
    induction rows as [|r rows IH]; intros Hr Hc Hn; [reflexivity|].
    cbn [forallb] in Hr, Hc, Hn. apply andb_true_iff in Hr, Hc, Hn.
    destruct Hr as [Hr Hrs], Hc as [Hc Hcs], Hn as [Hn Hns].
    unfold write_rows. cbn [map concat]. unfold write_row at 1. rewrite <- app_assoc. cbn [app].
    fold (write_rows F d fs rows). unfold count_lines at 1.
    rewrite count_lines_row by (apply write_fields_noeol; assumption).
    rewrite IH by assumption. cbn [length]. lia.
  Qed.

  Lemma row_noeol_native : forall fs r, row_noeol_b fs r = true -> row_noeol_b fs (to_native_row fs r) = true.
  Proof.
    induction fs as [|f fs IH]; intros [|els r] H; simpl in *; try reflexivity.
    apply andb_true_iff in H. destruct H as [H1 H2]. rewrite (IH r H2), andb_true_r.
    rewrite forallb_map'. apply forallb_Forall. apply forallb_Forall in H1.
    eapply Forall_impl; [|exact H1]. intros e He. unfold el_noeol_b in *.
    destruct (is_str (fkind f)) eqn:Es; [|reflexivity]. rewrite to_native_el_str by exact Es. exact He.
  Qed.

  Theorem count_lines_text t : table_ok t -> fcontract F P t -> strings_noeol t ->
    count_lines (write_text F d t) = Z.of_nat (length (trows t)).
  Proof.
    unfold table_ok, table_ok_b, fcontract, fcontract_b, strings_noeol, strings_noeol_b, write_text.
    intros Hok Hc Hn. apply andb_true_iff in Hok. destruct Hok as [_ Hrows].
    rewrite count_lines_rows.
    - rewrite map_length. reflexivity.
    - rewrite forallb_map'. apply forallb_Forall. apply forallb_Forall in Hrows.
      eapply Forall_impl; [|exact Hrows]. intros r Hr. apply row_ok_native. exact Hr.
    - rewrite forallb_map'. exact Hc.
    - rewrite forallb_map'. apply forallb_Forall. apply forallb_Forall in Hn.
      eapply Forall_impl; [|exact Hn]. intros r Hr. apply row_noeol_native. exact Hr.
  Qed.
End Lines.

(* ---------------------------------------------------------------- reading fewer rows than the file holds (nrows= smaller
   than the file, or the first rows of a larger file): the first k rows come back *)
Section Prefix.
  Variable F P : nat -> list byte -> list byte.
  Variable d : byte.
  Hypothesis Hd : delim_ok d.

  Lemma read_rows_prefix fs : fs <> [] -> forallb fld_ok_b fs = true ->
    forall rows1 rows2,
    forallb (row_ok_b fs) (rows1 ++ rows2) = true -> forallb (row_contract_b F P fs) (rows1 ++ rows2) = true ->
    (byte_eqb d space = false -> kf_rows d fs (rows1 ++ rows2) = false) ->
    read_rows_all P d fs (repeat true (length fs)) (length rows1) (write_rows F d fs (rows1 ++ rows2))
    = Ok (map (rt_row F P fs) rows1).
  Proof.
    intros Hne Hf. induction rows1 as [|r rows1 IH]; intros rows2 Hr Hc Hkf; [reflexivity|].
    cbn [app forallb] in Hr, Hc. apply andb_true_iff in Hr. destruct Hr as [Hr Hrs].
    apply andb_true_iff in Hc. destruct Hc as [Hc Hcs].
    cbn [app]. unfold write_rows. cbn [map concat length read_rows_all]. unfold write_row at 1. rewrite <- app_assoc. cbn [app].
    fold (write_rows F d fs (rows1 ++ rows2)).
    rewrite (read_row_ok F P d Hd fs r (write_rows F d fs (rows1 ++ rows2))
               (match rows1 ++ rows2 with r2 :: _ => row_head_unsafe d fs r2 | [] => false end) Hne Hf Hr Hc).
    - cbn [bind]. rewrite IH; [reflexivity|assumption|assumption|].
      intro Esp. specialize (Hkf Esp). cbn [app kf_rows] in Hkf. apply orb_false_iff in Hkf. apply Hkf.
    - intro Hu. destruct (rows1 ++ rows2) as [|r2 rest] eqn:E; [exact I|].
      cbn [forallb] in Hrs, Hcs. apply andb_true_iff in Hrs. apply andb_true_iff in Hcs.
      unfold write_rows. cbn [map concat]. unfold write_row at 1. rewrite <- app_assoc.
      apply (write_fields_head F P d Hd); try assumption; [apply Hrs|apply Hcs].
    - intro Esp. specialize (Hkf Esp). cbn [app kf_rows] in Hkf. apply orb_false_iff in Hkf. apply Hkf.
  Qed.

  Theorem read_first_rows t k :
    table_ok t -> fcontract F P t -> kf_leading_ws_after_numeric d t = false ->
    (1 <= k <= length (trows t))%nat ->
    read_text P d (tdt t) (Z.of_nat k) (write_text F d t)
    = Ok {| tdt := map native_fld (tdt t); trows := firstn k (trows (expected F P t)) |}.
  Proof.
    unfold table_ok, table_ok_b, fcontract, fcontract_b, kf_leading_ws_after_numeric.
    destruct t as [fs rows]. cbn [tdt trows]. intros Hok Hc Hkf Hk.
    apply andb_true_iff in Hok. destruct Hok as [Hok Hrows]. apply andb_true_iff in Hok. destruct Hok as [Hok Hr1].
    apply andb_true_iff in Hok. destruct Hok as [Hf Hf1].
    assert (Hne : fs <> []) by (destruct fs; discriminate).
    unfold read_text, write_text, expected. cbn [tdt trows].
    assert (Z.of_nat k <? 1 = false) as -> by lia.
    unfold read_text_columns. rewrite Nat2Z.id. unfold keep_flags. rewrite map_length. rewrite read_rows_all_native.
    set (nrows := map (to_native_row fs) rows).
    assert (Hsplit : nrows = firstn k nrows ++ skipn k nrows) by (symmetry; apply firstn_skipn).
    assert (Hlen : length (firstn k nrows) = k) by (apply firstn_length_le; unfold nrows; rewrite map_length; lia).
    rewrite Hsplit at 1. rewrite <- Hlen at 1.
    rewrite (read_rows_prefix fs Hne Hf (firstn k nrows) (skipn k nrows)).
    - cbn [bind]. f_equal. f_equal. unfold nrows. rewrite <- (map_map (to_native_row fs) (rt_row F P fs)). rewrite !firstn_map. reflexivity.
    - rewrite <- Hsplit. unfold nrows. rewrite forallb_map'. apply forallb_Forall. apply forallb_Forall in Hrows.
      eapply Forall_impl; [|exact Hrows]. intros r Hr. apply row_ok_native. exact Hr.
    - rewrite <- Hsplit. unfold nrows. rewrite forallb_map'. exact Hc.
    - intro Esp. rewrite <- Hsplit. unfold nrows. rewrite kf_rows_native. rewrite Esp in Hkf. simpl in Hkf. exact Hkf.
  Qed.
End Prefix.

(* C04 -- soundness of the boolean checkers evaluated on the implementation's output, and the
   model's round-trip result satisfies the property (under the oracle contract). *)
From Coq Require Import QArith Qabs ZifyBool ZifyNat.
From Coq.Strings Require Import Byte.
From EsVerif.Common Require Import Base Bytes.
From EsVerif.C04 Require Import TextModel Spec DecProofs ScanProofs RoundTrip.
Open Scope Z_scope.

(* ---------------------------------------------------------------- significant digits *)
Lemma first_ok_sound f l : first_ok f l = true -> exists e, f e = true.
Proof.
  induction l as [|a l IH]; simpl; [discriminate|]. destruct (f a) eqn:E; [exists a; exact E|exact IH].
Qed.

Lemma sig_close_at_sound digits x y e : sig_close_at digits x y e = true ->
  (Qpower ten e <= Qabs x)%Q /\ (Qabs x < Qpower ten (e + 1))%Q /\ (Qabs (y - x) <= Qpower ten (e - digits + 1))%Q.
Proof.
  unfold sig_close_at. destruct (Qle_bool (Qpower ten e) (Qabs x)) eqn:E1; [|discriminate].
  destruct (Qle_bool (Qpower ten (e + 1)) (Qabs x)) eqn:E2; [discriminate|]. intro E3.
  apply Qle_bool_iff in E1. apply Qle_bool_iff in E3.
  split; [exact E1|]. split; [|exact E3].
  apply Qnot_le_lt. intro H. apply Qle_bool_iff in H. rewrite H in E2. discriminate.
Qed.

Lemma sig_close_b_sound digits x y : sig_close_b digits x y = true -> sig_close digits x y.
Proof.
  unfold sig_close_b, sig_close. destruct (Qeq_bool x 0) eqn:E.
  - intro H. left. split; apply Qeq_bool_iff; assumption.
  - intro H. right. apply first_ok_sound in H. destruct H as [e H]. exists e. apply sig_close_at_sound. exact H.
Qed.

Lemma fval_ok_b_sound digits a b : fval_ok_b digits a b = true -> fval_ok digits a b.
Proof.
  destruct a, b; simpl; try discriminate; auto.
  - intro H. apply Bool.eqb_prop. exact H.
  - apply sig_close_b_sound.
Qed.

(* ---------------------------------------------------------------- list checkers *)
Lemma forall2b_sound {A B} (p : A -> B -> bool) (R : A -> B -> Prop) :
  (forall a b, p a b = true -> R a b) -> forall l1 l2, forall2b p l1 l2 = true -> Forall2 R l1 l2.
Proof.
  intro H. induction l1 as [|a l1 IH]; intros [|b l2] E; simpl in E; try discriminate; constructor.
  - apply H. apply andb_true_iff in E. apply E.
  - apply IH. apply andb_true_iff in E. apply E.
Qed.

Lemma kind_eqb_sound a b : kind_eqb a b = true -> a = b.
Proof.
  destruct a as [s n|n|n], b as [s' n'|n'|n']; simpl; try discriminate; intro H.
  - apply andb_true_iff in H. destruct H as [H1 H2]. apply Bool.eqb_prop in H1. apply Nat.eqb_eq in H2. congruence.
  - apply Nat.eqb_eq in H. congruence.
  - apply Nat.eqb_eq in H. congruence.
Qed.

Lemma order_eqb_sound a b : order_eqb a b = true -> a = b.
Proof. destruct a, b; simpl; try discriminate; reflexivity. Qed.

Lemma el_match_b_sound f ein eout : el_match_b f ein eout = true -> el_match f ein eout.
Proof.
  unfold el_match_b, el_match. intro H. apply andb_true_iff in H. destruct H as [Hl Hm].
  split; [apply Nat.eqb_eq; exact Hl|].
  destruct (fkind f) as [sg sz|sz|w].
  - apply Z.eqb_eq. exact Hm.
  - apply fval_ok_b_sound. exact Hm.
  - apply bytes_eqb_eq. exact Hm.
Qed.

Lemma row_match_b_sound : forall fs rin rout, row_match_b fs rin rout = true -> row_match fs rin rout.
Proof.
  induction fs as [|f fs IH]; intros [|ei ri] [|eo ro] H; simpl in *; try discriminate; auto.
  apply andb_true_iff in H. destruct H as [H1 H2]. split; [|apply IH; exact H2].
  eapply forall2b_sound; [|exact H1]. apply el_match_b_sound.
Qed.

Lemma fld_match_b_sound fin fout : fld_match_b fin fout = true -> fld_match fin fout.
Proof.
  unfold fld_match_b, fld_match. intro H.
  apply andb_true_iff in H. destruct H as [H H4]. apply andb_true_iff in H. destruct H as [H H3].
  apply andb_true_iff in H. destruct H as [H1 H2].
  split; [apply bytes_eqb_eq; exact H1|]. split; [apply kind_eqb_sound; exact H2|].
  split; [apply zlist_eqb_spec; exact H3|apply order_eqb_sound; exact H4].
Qed.

Theorem roundtrip_check_sound tin out : roundtrip_check tin out = true -> roundtrip_ok tin out.
Proof.
  unfold roundtrip_check, roundtrip_ok. destruct out as [tout|e]; [|discriminate]. intro H.
  apply andb_true_iff in H. destruct H as [H1 H2]. exists tout. split; [reflexivity|]. split.
  - eapply forall2b_sound; [|exact H1]. apply fld_match_b_sound.
  - eapply forall2b_sound; [|exact H2]. apply row_match_b_sound.
Qed.

Lemma no_order_char_b_sound s : no_order_char_b s = true -> no_order_char s.
Proof.
  destruct s as [|c s]; simpl; [discriminate|]. intro H.
  apply andb_true_iff in H. destruct H as [H H4]. apply andb_true_iff in H. destruct H as [H H3].
  apply andb_true_iff in H. destruct H as [H1 H2].
  apply negb_true_iff in H1, H2, H3, H4. apply byte_eqb_false in H1, H2, H3, H4. auto.
Qed.

Lemma hfield_match_b_sound f h : hfield_match_b f h = true -> hfield_match f h.
Proof.
  unfold hfield_match_b, hfield_match. intro H.
  apply andb_true_iff in H. destruct H as [H H4]. apply andb_true_iff in H. destruct H as [H H3].
  apply andb_true_iff in H. destruct H as [H1 H2].
  split; [apply bytes_eqb_eq; exact H1|]. split; [apply bytes_eqb_eq; exact H2|].
  split; [apply zlist_eqb_spec; exact H3|apply no_order_char_b_sound; exact H4].
Qed.

Theorem header_check_sound d t h : header_check d t h = true -> header_ok d t h.
Proof.
  unfold header_check, header_ok. intro H. apply andb_true_iff in H. destruct H as [H1 H2].
  split; [apply bytes_eqb_eq; exact H1|]. eapply forall2b_sound; [|exact H2]. apply hfield_match_b_sound.
Qed.

(* ---------------------------------------------------------------- the header the model stores *)
Lemma kind_char_no_order k : no_order_char (kind_char k :: dec (Z.of_nat (elsize k))).
Proof. destruct k as [[|] sz|sz|w]; simpl; repeat split; discriminate. Qed.

Theorem header_model_ok d t : header_ok d t (header_delim d, header_dtype (tdt t)).
Proof.
  unfold header_ok, header_delim, header_dtype. simpl. split; [reflexivity|].
  induction (tdt t) as [|f fs IH]; simpl; constructor; [|exact IH].
  unfold hfield_match. simpl. repeat split; try discriminate; destruct (fkind f) as [[|] sz|sz|w]; simpl; discriminate.
Qed.

(* ---------------------------------------------------------------- the model's result satisfies the property *)
Section Expected.
  Variable F P : nat -> list byte -> list byte.

  Lemma el_expected_ok f e : el_ok_b f e = true -> el_contract_b F P f (to_native_el f e) = true ->
    el_match f e (rt_el F P (fkind f) (to_native_el f e)).
  Proof.
    unfold el_ok_b, el_contract_b, el_match. intros H1 H2.
    apply andb_true_iff in H1. destruct H1 as [Hl _]. apply Nat.eqb_eq in Hl.
    destruct (fkind f) as [sg sz|sz|w] eqn:Ek; simpl in *.
    - rewrite to_native_el_length. split; [exact Hl|reflexivity].
    - unfold fcell_ok_b in H2. apply andb_true_iff in H2. destruct H2 as [H2 Hv].
      apply andb_true_iff in H2. destruct H2 as [_ Hlen]. apply Nat.eqb_eq in Hlen.
      split; [exact Hlen|]. apply fval_ok_b_sound. exact Hv.
    - rewrite to_native_el_str by (rewrite Ek; reflexivity). split; [exact Hl|reflexivity].
  Qed.

  Lemma row_expected_ok : forall fs r, row_ok_b fs r = true -> row_contract_b F P fs (to_native_row fs r) = true ->
    row_match fs r (rt_row F P fs (to_native_row fs r)).
  Proof.
    induction fs as [|f fs IH]; intros [|els r] H1 H2; simpl in *; try discriminate; auto.
    apply andb_true_iff in H1. destruct H1 as [H1 Hr]. apply andb_true_iff in H1. destruct H1 as [_ He].
    apply andb_true_iff in H2. destruct H2 as [Hc Hcr].
    split; [|apply IH; assumption].
    rewrite forallb_map' in Hc. apply forallb_Forall in He. apply forallb_Forall in Hc.
    clear - He Hc. induction els as [|e els IHe]; simpl; constructor.
    - apply el_expected_ok; [exact (Forall_inv He)|exact (Forall_inv Hc)].
    - apply IHe; [exact (Forall_inv_tail He)|exact (Forall_inv_tail Hc)].
  Qed.

  Lemma flds_expected_ok : forall fs, Forall2 fld_match fs (map native_fld fs).
  Proof.
    induction fs as [|f fs IH]; simpl; constructor; [|exact IH]. unfold fld_match. simpl. auto.
  Qed.

  Lemma rows_expected_ok fs : forall rows,
    Forall (fun r => row_ok_b fs r = true) rows ->
    Forall (fun r => row_contract_b F P fs (to_native_row fs r) = true) rows ->
    Forall2 (row_match fs) rows (map (fun r => rt_row F P fs (to_native_row fs r)) rows).
  Proof.
    induction rows as [|r rows IH]; intros H1 H2; simpl; constructor.
    - apply row_expected_ok; [exact (Forall_inv H1)|exact (Forall_inv H2)].
    - apply IH; [exact (Forall_inv_tail H1)|exact (Forall_inv_tail H2)].
  Qed.

  Theorem expected_ok t : table_ok t -> fcontract F P t -> roundtrip_ok t (Ok (expected F P t)).
  Proof.
    unfold table_ok, table_ok_b, fcontract, fcontract_b, roundtrip_ok. intros Hok Hc.
    apply andb_true_iff in Hok. destruct Hok as [_ Hrows].
    exists (expected F P t). split; [reflexivity|]. unfold expected. cbn [tdt trows]. split.
    - apply flds_expected_ok.
    - apply forallb_Forall in Hrows. apply forallb_Forall in Hc. apply rows_expected_ok; assumption.
  Qed.
End Expected.

(* ---------------------------------------------------------------- no clause of the known class is superfluous:
   each of the three has an in-scope member on which the read fails; the same tables are outside the class
   (and therefore round-trip) with another delimiter *)
Definition idf : nat -> list byte -> list byte := fun _ e => e.
Definition refutes (d : byte) (t : table) : Prop :=
  table_ok t /\ delim_ok d /\ fcontract idf idf t /\ strings_noeol t /\ kf_leading_ws_after_numeric d t = true
  /\ ~ roundtrip_ok t (read_text idf d (tdt t) (Z.of_nat (length (trows t))) (write_text idf d t)).

Lemma refutes_by_error d t :
  table_ok_b t = true -> delim_ok_b d = true -> fcontract_b idf idf t = true -> strings_noeol_b t = true ->
  kf_leading_ws_after_numeric d t = true ->
  read_text idf d (tdt t) (Z.of_nat (length (trows t))) (write_text idf d t) = Err ERuntime -> refutes d t.
Proof.
  intros H1 H2 H3 H4 H5 E. unfold refutes. repeat split; try assumption.
  rewrite E. intros [tout [H _]]. discriminate.
Qed.

Lemma kf_clause_witnesses :
  refutes x2c kf_witness            (* first cell of the next row starts with white space, ',' *)
  /\ refutes x3b w_delim            (* first cell of the next row starts with the delimiter, ';' *)
  /\ refutes x09 w_tab              (* same row, tab delimiter, cell starts with white space *)
  /\ kf_leading_ws_after_numeric x2c w_tab = false /\ kf_leading_ws_after_numeric x2c w_delim = false
  /\ kf_leading_ws_after_numeric space kf_witness = false.
Proof.
  split; [apply refutes_by_error; vm_compute; reflexivity|].
  split; [apply refutes_by_error; vm_compute; reflexivity|].
  split; [apply refutes_by_error; vm_compute; reflexivity|].
  repeat split; reflexivity.
Qed.

(* C04 -- the history dimension.  A tiny file system (path |-> stored sfile) and the two operations of the property as a
   step function: sfile.write(path, table, delim) replaces the file at that path by header + text, sfile.read(path)
   takes delimiter, dtype and row count FROM THE STORED HEADER (SFile.open in read mode: _DELIM, _DTYPE, _SIZE), builds
   the reader's fields from the byte-order-free type strings and scans the text.
   Theorems: a read never changes any file; a write changes only its own path; what a read returns is determined by the
   LAST write to that path alone -- whatever was at the path before (same size or not), whatever other paths were
   written or read in between -- and equals the single-call model the round-trip theorems are about. *)
From Coq Require Import ZifyBool ZifyNat.
From Coq.Strings Require Import Byte.
From EsVerif.Common Require Import Base Bytes.
From EsVerif.C04 Require Import TextModel Spec DecProofs ScanProofs RoundTrip.

Definition path := list byte.
Record sfile_data := { sf_delim : list byte; sf_dtype : list (list byte * list byte * list Z); sf_size : Z; sf_text : list byte }.
Definition fsys := list (path * sfile_data).

Fixpoint fs_get (fs : fsys) (p : path) : option sfile_data :=
  match fs with
  | [] => None
  | (q, f) :: r => if bytes_eqb q p then Some f else fs_get r p
  end.
Definition fs_set (fs : fsys) (p : path) (f : sfile_data) : fsys := (p, f) :: fs.

(* the reader's field from a stored (name, type string without byte order, shape) *)
Definition kind_of_typestr (s : list byte) : kind :=
  match s with
  | c :: ds => let n := Z.to_nat (parse_dec ds) in
               if byte_eqb c x69 then KInt true n else if byte_eqb c x75 then KInt false n
               else if byte_eqb c x66 then KFlt n else KStr n
  | [] => KStr 0
  end.
Definition fld_of_header (h : list byte * list byte * list Z) : fld :=
  let k := kind_of_typestr (snd (fst h)) in
  {| fname := fst (fst h); fkind := k; forder := native_order k; fshape := snd h |}.

Section Hist.
  Variable F P : nat -> list byte -> list byte.

  Inductive op := OWrite (p : path) (d : byte) (t : table) | ORead (p : path).
  Inductive outv := OutWritten | OutRead (r : result table).

  Definition stored (d : byte) (t : table) : sfile_data :=
    {| sf_delim := header_delim d; sf_dtype := header_dtype (tdt t);
       sf_size := Z.of_nat (length (trows t)); sf_text := write_text F d t |}.

  Definition read_stored (f : sfile_data) : result table :=
    match sf_delim f with
    | [d] => let fs := map fld_of_header (sf_dtype f) in
             do rows <- (if sf_size f <? 1 then Err ERuntime
                         else read_text_columns P d fs (sf_size f) None None (sf_text f));
             Ok {| tdt := fs; trows := rows |}
    | _ => Err EOther
    end.

  Definition step (fs : fsys) (o : op) : fsys * outv :=
    match o with
    | OWrite p d t => (fs_set fs p (stored d t), OutWritten)
    | ORead p => (fs, OutRead (match fs_get fs p with Some f => read_stored f | None => Err EOther end))
    end.

  Fixpoint run_ops (fs : fsys) (ops : list op) : fsys :=
    match ops with [] => fs | o :: r => run_ops (fst (step fs o)) r end.

  Definition writes_path (p : path) (o : op) : bool := match o with OWrite q _ _ => bytes_eqb q p | ORead _ => false end.

  (* ---- the type strings of the header determine the reader's fields *)
  Lemma kind_of_typestr_tl f : kind_of_typestr (tl (typestr f)) = fkind f.
  Proof.
    unfold typestr. cbn [tl]. unfold kind_of_typestr.
    rewrite dec_parse_roundtrip, Nat2Z.id. destruct (fkind f) as [[|] sz|sz|w]; reflexivity.
  Qed.

  Lemma fld_of_header_native : forall fs : list fld, map fld_of_header (header_dtype fs) = map native_fld fs.
  Proof.
    intro fs. unfold header_dtype. rewrite map_map. apply map_ext. intro f.
    unfold fld_of_header, native_fld. cbn [fst snd]. rewrite kind_of_typestr_tl. reflexivity.
  Qed.

  (* ---- reading what was stored = the single-call model *)
  Lemma read_stored_model d t :
    read_stored (stored d t) = read_text P d (tdt t) (Z.of_nat (length (trows t))) (write_text F d t).
  Proof.
    unfold read_stored, stored, header_delim, read_text. cbn [sf_delim sf_dtype sf_size sf_text].
    rewrite fld_of_header_native. destruct (Z.of_nat (length (trows t)) <? 1); reflexivity.
  Qed.

  (* ---- frame conditions *)
  Lemma fs_get_set_same fs p f : fs_get (fs_set fs p f) p = Some f.
  Proof. unfold fs_set. cbn [fs_get]. assert (bytes_eqb p p = true) as -> by (apply bytes_eqb_eq; reflexivity). reflexivity. Qed.

  Lemma fs_get_set_other fs p q f : bytes_eqb p q = false -> fs_get (fs_set fs p f) q = fs_get fs q.
  Proof. intro H. unfold fs_set. cbn [fs_get]. rewrite H. reflexivity. Qed.

  Theorem read_changes_nothing fs p : fst (step fs (ORead p)) = fs.
  Proof. reflexivity. Qed.

  Theorem write_changes_only_its_path fs p d t q : bytes_eqb p q = false ->
    fs_get (fst (step fs (OWrite p d t))) q = fs_get fs q.
  Proof. intro H. cbn [step fst]. apply fs_get_set_other. exact H. Qed.

  Lemma run_ops_keeps fs p : forall ops, forallb (fun o => negb (writes_path p o)) ops = true ->
    fs_get (run_ops fs ops) p = fs_get fs p.
  Proof.
    intro ops. revert fs. induction ops as [|o ops IH]; intros fs H; [reflexivity|].
    cbn [forallb] in H. apply andb_true_iff in H. destruct H as [Ho Hr]. cbn [run_ops]. rewrite (IH _ Hr).
    destruct o as [q d t|q]; [|reflexivity]. cbn [step fst]. apply fs_get_set_other.
    simpl in Ho. apply negb_true_iff in Ho. exact Ho.
  Qed.

  (* ---- the answer of a read depends only on the last write to its path *)
  Theorem read_after_write fs0 before p d t between :
    forallb (fun o => negb (writes_path p o)) between = true ->
    snd (step (run_ops (fst (step (run_ops fs0 before) (OWrite p d t))) between) (ORead p))
    = OutRead (read_text P d (tdt t) (Z.of_nat (length (trows t))) (write_text F d t)).
  Proof.
    intro H. cbn [step snd]. rewrite (run_ops_keeps _ p between H). cbn [step fst].
    rewrite fs_get_set_same, read_stored_model. reflexivity.
  Qed.
End Hist.

(* ---- the round-trip theorem for any history: after a write of an in-scope table outside the known class, every later
   read of that path -- whatever else was written or read in between, whatever the path held before -- satisfies the property *)
From EsVerif.C04 Require Import CheckProofs.
Theorem roundtrip_any_history F P fs0 before p d t between :
  table_ok t -> delim_ok d -> fcontract F P t -> kf_leading_ws_after_numeric d t = false ->
  forallb (fun o => negb (writes_path p o)) between = true ->
  exists r, snd (step F P (run_ops F P (fst (step F P (run_ops F P fs0 before) (OWrite p d t))) between) (ORead p)) = OutRead r
            /\ r = Ok (expected F P t) /\ roundtrip_ok t r.
Proof.
  intros Ht Hd Hc Hk Hb. rewrite (read_after_write F P fs0 before p d t between Hb).
  eexists. split; [reflexivity|]. rewrite (roundtrip_model F P d Hd t Ht Hc Hk).
  split; [reflexivity|apply expected_ok; assumption].
Qed.
